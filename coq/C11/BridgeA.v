(** C11 — bridge, part A: facts about oracle tables, and the bridge for the encoding cases
    (USK container, UFVK / UIVK encode and decode). *)
From V.Lib Require Import Base Hex.
From V.Gen Require Import C11Consts.
From V.C11 Require Import Model Spec Tab Eqb EqbFacts Legacy CorrLegacy Gap CorrGap Extra CorrExtra Corr Wf
  ProofsAddr ProofsCodec ProofsDecode.
From Coq Require Import ZifyBool.
Local Open Scope N_scope.

(* ------------------------------------------------------------------------------------------ *)
(** * oracle tables *)

Lemma lookup_in : forall t f k i r,
  lookup t f k i = Some r -> exists k', In (f, k', i, r) t /\ k = k'.
Proof.
  induction t as [|[[[f' k'] i'] r'] t IH]; intros f k i r H; [discriminate|].
  cbn [lookup] in H. destruct ((f =? f') && (i =? i') && bytes_eqb k k') eqn:E.
  - inversion H; subst. apply andb_true_iff in E. destruct E as [E E3]. apply andb_true_iff in E.
    destruct E as [E1 E2]. apply N.eqb_eq in E1, E2. apply bytes_eqb_spec in E3. subst.
    exists k'. split; [left; reflexivity | reflexivity].
  - destruct (IH _ _ _ _ H) as (k0 & A & B). exists k0. split; [right; exact A | exact B].
Qed.

Lemma look_ores_panic t f k i : look_ores t f k i = OPanic -> tab_has_panic t = true.
Proof.
  unfold look_ores. destruct (lookup t f k i) as [r|] eqn:L; [|discriminate]. intros ->.
  apply lookup_in in L. destruct L as (k' & A & _). unfold tab_has_panic. apply existsb_exists.
  exists (f, k', i, OPanic). split; [exact A | reflexivity].
Qed.

Lemma no_panic t : tab_has_panic t = false -> forall f k i, look_ores t f k i <> OPanic.
Proof. intros H f k i E. apply look_ores_panic in E. congruence. Qed.

Lemma look_ores_canonical t f d kk :
  tab_canonical t = true -> 10 <= f -> look_ores t f d 0 = OSome kk -> is_bytes kk = true -> kk = d.
Proof.
  intros C F. unfold look_ores. destruct (lookup t f d 0) as [r|] eqn:L.
  - intros -> _. apply lookup_in in L. destruct L as (k' & A & ->).
    unfold tab_canonical in C. rewrite forallb_forall in C. specialize (C _ A). cbn in C.
    destruct (10 <=? f) eqn:G; [|lia]. apply bytes_eqb_spec in C. congruence.
  - intros H. inversion H; subst. discriminate.
Qed.

Lemma ores_isb_spec r b : ores_isb r b = true <-> r = OSome b.
Proof.
  destruct r; cbn; try (split; congruence). rewrite bytes_eqb_spec. split; congruence.
Qed.

Lemma fixb_spec t f o : fixb t f o = true -> opt_all (fixed_point (fun b => look_ores t f b 0)) o.
Proof. destruct o as [b|]; cbn; [|auto]. intros H. apply ores_isb_spec in H. exact H. Qed.

(* ------------------------------------------------------------------------------------------ *)
(** * well-formedness booleans *)

Lemma asc_okb_spec : forall l p,
  asc_okb p l = true -> strictly_ascending p l /\ unknown_sizes_ok l.
Proof.
  induction l as [|[c d] l IH]; intros p H; [split; exact I|].
  cbn [asc_okb] in H. repeat (apply andb_true_iff in H; destruct H as [H ?]).
  destruct (IH c ltac:(assumption)) as [A B]. cbn [strictly_ascending unknown_sizes_ok].
  repeat split; try lia; assumption.
Qed.

Lemma items_ok_spec l : items_ok l = true -> unknown_ok l /\ unknown_sizes_ok l.
Proof. apply asc_okb_spec. Qed.

Lemma okb_len n b : okb n b = true -> blen b = n.
Proof. unfold okb. intros H. apply andb_true_iff in H. destruct H as [_ H]. lia. Qed.

Lemma wf_ufvk_spec k :
  wf_ufvk k = true ->
  unknown_ok (fvk_unknown k) /\ unknown_sizes_ok (fvk_unknown k)
  /\ comp_len_ok KFvk (fvk_t k) (fvk_s k) (fvk_o k).
Proof.
  unfold wf_ufvk. intros H. repeat (apply andb_true_iff in H; destruct H as [H ?]).
  destruct (items_ok_spec _ ltac:(eassumption)) as [A B]. split; [exact A|]. split; [exact B|].
  unfold comp_len_ok. repeat split.
  - destruct (fvk_t k); cbn in *; [|exact I]. apply okb_len in H. rewrite H. reflexivity.
  - destruct (fvk_s k); cbn in *; [|exact I]. match goal with X : okb FVK_SAPLING_LEN _ = true |- _ => apply okb_len in X; rewrite X end. reflexivity.
  - destruct (fvk_o k); cbn in *; [|exact I]. match goal with X : okb FVK_ORCHARD_LEN _ = true |- _ => apply okb_len in X; rewrite X end. reflexivity.
Qed.

Lemma wf_uivk_spec k :
  wf_uivk k = true ->
  unknown_ok (ivk_unknown k) /\ unknown_sizes_ok (ivk_unknown k)
  /\ comp_len_ok KIvk (ivk_t k) (ivk_s k) (ivk_o k).
Proof.
  unfold wf_uivk. intros H. repeat (apply andb_true_iff in H; destruct H as [H ?]).
  destruct (items_ok_spec _ ltac:(eassumption)) as [A B]. split; [exact A|]. split; [exact B|].
  unfold comp_len_ok. repeat split.
  - destruct (ivk_t k); cbn in *; [|exact I]. apply okb_len in H. rewrite H. reflexivity.
  - destruct (ivk_s k); cbn in *; [|exact I]. match goal with X : okb IVK_SAPLING_LEN _ = true |- _ => apply okb_len in X; rewrite X end. reflexivity.
  - destruct (ivk_o k); cbn in *; [|exact I]. match goal with X : okb IVK_ORCHARD_LEN _ = true |- _ => apply okb_len in X; rewrite X end. reflexivity.
Qed.

Lemma ookb_bytes n o kk : ookb n o = true -> o = Some kk -> is_bytes kk = true.
Proof. intros H ->. cbn in H. unfold okb in H. apply andb_true_iff in H. tauto. Qed.

(* ------------------------------------------------------------------------------------------ *)
(** * encode cases *)

Lemma b_ufvk_encode net k o :
  wf_case (CUfvkEncode net k o) = true -> run_case (CUfvkEncode net k o) = true ->
  prop_case (CUfvkEncode net k o) = true.
Proof.
  cbn [wf_case run_case prop_case]. intros W R. apply andb_true_iff in W. destruct W as [_ W].
  destruct (wf_ufvk_spec k W) as (U & _ & _).
  apply (outcome_eqb_spec _ _ enc_eqb_spec unit_eqb_spec) in R. subst o.
  unfold ufvk_encode. rewrite ufvk_container by exact U. unfold ufvk_encodable, has_non_transparent.
  destruct (fvk_s k), (fvk_o k), (fvk_unknown k); reflexivity.
Qed.

Lemma b_uivk_encode net k o :
  wf_case (CUivkEncode net k o) = true -> run_case (CUivkEncode net k o) = true ->
  prop_case (CUivkEncode net k o) = true.
Proof.
  cbn [wf_case run_case prop_case]. intros W R. apply andb_true_iff in W. destruct W as [_ W].
  destruct (wf_uivk_spec k W) as (U & _ & _).
  apply (outcome_eqb_spec _ _ enc_eqb_spec unit_eqb_spec) in R. subst o.
  unfold uivk_encode. rewrite uivk_container by exact U. unfold uivk_encodable, has_non_transparent.
  destruct (ivk_s k), (ivk_o k), (ivk_unknown k); reflexivity.
Qed.

(* ------------------------------------------------------------------------------------------ *)
(** * USK container *)

Lemma usk_claim_spec t k b :
  wf_usk k = true -> usk_claim t k b = true -> b = usk_to_bytes k /\ usk_wf (orc_of t) k.
Proof.
  unfold wf_usk, usk_claim. intros W C.
  repeat (apply andb_true_iff in W; destruct W as [W ?]).
  repeat (apply andb_true_iff in C; destruct C as [C ?]).
  apply bytes_eqb_spec in C. split; [exact C|].
  unfold usk_wf, fixed_point. cbn [orc_of dec_o_sk dec_s_sk dec_t_sk t_sk_ivk].
  repeat split; try (apply okb_len; assumption); try (apply ores_isb_spec; assumption).
  - lia.
  - destruct (look_opt t 23 (usk_t k) 0); [discriminate | discriminate H2].
Qed.

Lemma b_usk_decode t orig b o :
  wf_case (CUskDecode t orig b o) = true -> run_case (CUskDecode t orig b o) = true ->
  prop_case (CUskDecode t orig b o) = true.
Proof.
  cbn [wf_case run_case prop_case]. intros W R.
  apply andb_true_iff in W. destruct W as [W Wo]. apply andb_true_iff in W. destruct W as [Wt Wb].
  apply (outcome_eqb_spec _ _ (pair_eqb_spec _ _ usk_eqb_spec bytes_eqb_spec) dec_err_eqb_spec) in R.
  destruct orig as [k|].
  - apply andb_true_iff in Wo. destruct Wo as [Wk Wc].
    destruct (usk_claim_spec t k b Wk Wc) as [-> WF].
    rewrite (usk_roundtrip (orc_of t) k WF) in R. subst o.
    apply (outcome_eqb_spec _ _ (pair_eqb_spec _ _ usk_eqb_spec bytes_eqb_spec) dec_err_eqb_spec). reflexivity.
  - destruct o as [x|e|]; try reflexivity.
    destruct (tab_has_panic t) eqn:P; [reflexivity|]. exfalso.
    assert (DT : decoders_total (orc_of t)) by (repeat split; intros x; cbn; apply (no_panic t P)).
    destruct (usk_from_bytes_total (orc_of t) b DT) as [NP _].
    destruct (usk_from_bytes (orc_of t) b); try discriminate. congruence.
Qed.

(* ------------------------------------------------------------------------------------------ *)
(** * UFVK / UIVK decode *)

Lemma wf_dinput_ok i : wf_dinput i = true -> dinput_ok i.
Proof.
  destruct i as [|hrp [raw|]]; cbn [wf_dinput dinput_ok]; auto. intros H.
  apply andb_true_iff in H. destruct H as [_ H]. apply andb_true_iff in H. destruct H as [H1 H2].
  split; [exact H1|]. apply Nat.leb_le in H2. lia.
Qed.

Lemma wf_dinput_bytes hrp raw : wf_dinput (Bech hrp (Some raw)) = true -> is_bytes raw = true.
Proof. intros H. apply wf_dinput_ok in H. destruct H; assumption. Qed.

Lemma with_reenc_ok {K E} (enc : K -> outcome (bytes * bytes) unit) (m : outcome K E) k e :
  with_reenc enc m = Ok (k, e) -> m = Ok k /\ enc k = Ok e.
Proof.
  unfold with_reenc. destruct m as [k0| |]; try discriminate. destruct (enc k0) as [e0| |] eqn:X; try discriminate.
  intros H; inversion H; subst. auto.
Qed.

Lemma ufvk_encode_ok_encodable net k e :
  unknown_ok (fvk_unknown k) -> ufvk_encode net k = Ok e -> ufvk_encodable k = true.
Proof.
  intros U. unfold ufvk_encode. rewrite ufvk_container by exact U.
  destruct (ufvk_encodable k); [reflexivity | discriminate].
Qed.
Lemma uivk_encode_ok_encodable net k e :
  unknown_ok (ivk_unknown k) -> uivk_encode net k = Ok e -> uivk_encodable k = true.
Proof.
  intros U. unfold uivk_encode. rewrite uivk_container by exact U.
  destruct (uivk_encodable k); [reflexivity | discriminate].
Qed.

Lemma b_ufvk_decode t net orig i o :
  wf_case (CUfvkDecode t net orig i o) = true -> run_case (CUfvkDecode t net orig i o) = true ->
  prop_case (CUfvkDecode t net orig i o) = true.
Proof.
  cbn [wf_case run_case prop_case]. intros W R.
  apply andb_true_iff in W. destruct W as [W Wobs]. apply andb_true_iff in W. destruct W as [W Worig].
  apply andb_true_iff in W. destruct W as [W Wi]. apply andb_true_iff in W. destruct W as [Wt Wn].
  assert (Ln : net < 3) by lia.
  apply (outcome_eqb_spec _ _ (pair_eqb_spec _ _ ufvk_eqb_spec enc_eqb_spec) derr_eqb_spec) in R.
  destruct orig as [k|].
  - (* the input is the encoding of k *)
    apply andb_true_iff in Worig. destruct Worig as [Wk C]. unfold ufvk_claim in C.
    repeat (apply andb_true_iff in C; destruct C as [C ?]).
    destruct i as [|hrp [raw|]]; try discriminate C.
    apply (outcome_eqb_spec _ _ enc_eqb_spec unit_eqb_spec) in C.
    destruct (wf_ufvk_spec k Wk) as (U & S & L).
    assert (WF : ufvk_wf (orc_of t) k).
    { unfold ufvk_wf. cbn [orc_of dec_t_fvk dec_s_fvk dec_o_fvk].
      repeat split; try (apply fixb_spec; assumption); try exact U.
      unfold ufvk_derivable. cbn [orc_of t_pk_ivk].
      destruct (fvk_t k) as [pk|]; [|exact I].
      match goal with X : is_some _ = true |- _ => destruct (look_opt t 6 pk 0); [discriminate | discriminate X] end. }
    pose proof (ufvk_encode_ok_encodable net k _ U C) as E.
    destruct (ufvk_roundtrip (orc_of t) net k Ln WF E L S) as (hrp' & raw' & A & B & _).
    rewrite C in A. inversion A; subst hrp' raw'.
    rewrite B in R. cbn [with_reenc] in R. rewrite C in R. subst o.
    rewrite (spec_refl _ ufvk_eqb_spec), (spec_refl _ enc_eqb_spec). reflexivity.
  - destruct o as [[k' e]|er|].
    + apply with_reenc_ok in R. destruct R as [D RE].
      destruct i as [|hrp [raw|]]; try (cbn in D; discriminate D).
      * destruct (tab_canonical t) eqn:TC; [|reflexivity].
        pose proof (wf_dinput_bytes _ _ Wi) as HB.
        apply andb_true_iff in Wobs. destruct Wobs as [Wk' _]. unfold wf_ufvk in Wk'.
        repeat (apply andb_true_iff in Wk'; destruct Wk' as [Wk' ?]).
        rewrite (ufvk_decode_canonical (orc_of t) net hrp raw k' HB D) in RE.
        -- inversion RE; subst e. apply (spec_refl _ enc_eqb_spec).
        -- intros d kk X Y. cbn [orc_of dec_t_fvk] in X.
           apply (look_ores_canonical t 15 d kk TC); [lia | exact X | exact (ookb_bytes _ _ _ Wk' Y)].
        -- intros d kk X Y. cbn [orc_of dec_s_fvk] in X.
           apply (look_ores_canonical t 14 d kk TC); [lia | exact X | exact (ookb_bytes _ _ _ H1 Y)].
        -- intros d kk X Y. cbn [orc_of dec_o_fvk] in X.
           apply (look_ores_canonical t 13 d kk TC); [lia | exact X | exact (ookb_bytes _ _ _ H0 Y)].
      * unfold ufvk_decode, container_decode in D. destruct (hrp_network KFvk hrp); discriminate D.
    + destruct i as [|hrp [raw|]]; reflexivity.
    + assert (P : tab_has_panic t = true).
      { destruct (tab_has_panic t) eqn:P; [reflexivity|]. exfalso.
        pose proof (ufvk_decode_total (orc_of t) net i (wf_dinput_ok i Wi)
                      (fun x => no_panic t P 15 x 0) (fun x => no_panic t P 14 x 0) (fun x => no_panic t P 13 x 0)) as NP.
        unfold with_reenc in R. destruct (ufvk_decode (orc_of t) net i) as [k0|e0|] eqn:D; try discriminate; [|congruence].
        destruct i as [|hrp [raw|]]; try (cbn in D; discriminate D);
          try (unfold ufvk_decode, container_decode in D; destruct (hrp_network KFvk hrp); discriminate D).
        destruct (ufvk_decode_reencodes (orc_of t) net hrp raw k0 (wf_dinput_bytes _ _ Wi) D) as [e0 X].
        rewrite X in R. discriminate. }
      destruct i as [|hrp [raw|]]; exact P.
Qed.

Lemma b_uivk_decode t net orig i o :
  wf_case (CUivkDecode t net orig i o) = true -> run_case (CUivkDecode t net orig i o) = true ->
  prop_case (CUivkDecode t net orig i o) = true.
Proof.
  cbn [wf_case run_case prop_case]. intros W R.
  apply andb_true_iff in W. destruct W as [W Wobs]. apply andb_true_iff in W. destruct W as [W Worig].
  apply andb_true_iff in W. destruct W as [W Wi]. apply andb_true_iff in W. destruct W as [Wt Wn].
  assert (Ln : net < 3) by lia.
  apply (outcome_eqb_spec _ _ (pair_eqb_spec _ _ uivk_eqb_spec enc_eqb_spec) derr_eqb_spec) in R.
  destruct orig as [k|].
  - apply andb_true_iff in Worig. destruct Worig as [Wk C]. unfold uivk_claim in C.
    repeat (apply andb_true_iff in C; destruct C as [C ?]).
    destruct i as [|hrp [raw|]]; try discriminate C.
    apply (outcome_eqb_spec _ _ enc_eqb_spec unit_eqb_spec) in C.
    destruct (wf_uivk_spec k Wk) as (U & S & L).
    assert (WF : uivk_wf (orc_of t) k).
    { unfold uivk_wf. cbn [orc_of dec_t_ivk dec_s_ivk dec_o_ivk].
      repeat split; try (apply fixb_spec; assumption); exact U. }
    pose proof (uivk_encode_ok_encodable net k _ U C) as E.
    destruct (uivk_roundtrip (orc_of t) net k Ln WF E L S) as (hrp' & raw' & A & B & _).
    rewrite C in A. inversion A; subst hrp' raw'.
    rewrite B in R. cbn [with_reenc] in R. rewrite C in R. subst o.
    rewrite (spec_refl _ uivk_eqb_spec), (spec_refl _ enc_eqb_spec). reflexivity.
  - destruct o as [[k' e]|er|].
    + apply with_reenc_ok in R. destruct R as [D RE].
      destruct i as [|hrp [raw|]]; try (cbn in D; discriminate D).
      * destruct (tab_canonical t) eqn:TC; [|reflexivity].
        pose proof (wf_dinput_bytes _ _ Wi) as HB.
        apply andb_true_iff in Wobs. destruct Wobs as [Wk' _]. unfold wf_uivk in Wk'.
        repeat (apply andb_true_iff in Wk'; destruct Wk' as [Wk' ?]).
        rewrite (uivk_decode_canonical (orc_of t) net hrp raw k' HB D) in RE.
        -- inversion RE; subst e. apply (spec_refl _ enc_eqb_spec).
        -- intros d kk X Y. cbn [orc_of dec_t_ivk] in X.
           apply (look_ores_canonical t 18 d kk TC); [lia | exact X | exact (ookb_bytes _ _ _ Wk' Y)].
        -- intros d kk X Y. cbn [orc_of dec_s_ivk] in X.
           apply (look_ores_canonical t 17 d kk TC); [lia | exact X | exact (ookb_bytes _ _ _ H1 Y)].
        -- intros d kk X Y. cbn [orc_of dec_o_ivk] in X.
           apply (look_ores_canonical t 16 d kk TC); [lia | exact X | exact (ookb_bytes _ _ _ H0 Y)].
      * unfold uivk_decode, container_decode in D. destruct (hrp_network KIvk hrp); discriminate D.
    + destruct i as [|hrp [raw|]]; reflexivity.
    + assert (P : tab_has_panic t = true).
      { destruct (tab_has_panic t) eqn:P; [reflexivity|]. exfalso.
        pose proof (uivk_decode_total (orc_of t) net i (wf_dinput_ok i Wi)
                      (fun x => no_panic t P 18 x 0) (fun x => no_panic t P 17 x 0) (fun x => no_panic t P 16 x 0)) as NP.
        unfold with_reenc in R. destruct (uivk_decode (orc_of t) net i) as [k0|e0|] eqn:D; try discriminate; [|congruence].
        destruct i as [|hrp [raw|]]; try (cbn in D; discriminate D);
          try (unfold uivk_decode, container_decode in D; destruct (hrp_network KIvk hrp); discriminate D).
        destruct (uivk_decode_reencodes (orc_of t) net hrp raw k0 (wf_dinput_bytes _ _ Wi) D) as [e0 X].
        rewrite X in R. discriminate. }
      destruct i as [|hrp [raw|]]; exact P.
Qed.
