(** C11 — executable model of the repository's own logic around unified keys
    (zcash_keys/src/keys.rs, zcash_keys/src/address.rs, the ZIP 316 container in
    components/zcash_address/src/kind/unified{.rs,/fvk.rs,/ivk.rs}, and
    [to_transparent_child_index]/[NonHardenedChildIndex::from_index]).

    All cryptography (ZIP 32 derivation, curves, PRFs, Bech32m, F4Jumble) is external: it enters
    through the record [oracles].  Key components are represented by their serialised forms
    (opaque byte strings as produced by the crates' own [to_bytes]/[serialize]).

    No proofs in this file. *)
From V.Lib Require Import Base Hex.
From V.Gen Require Import C11Consts.
Local Open Scope N_scope.

(* ------------------------------------------------------------------------------------------ *)
(** * Small helpers *)

Fixpoint le_bytes (k : nat) (x : N) : bytes :=
  match k with
  | 0%nat => []
  | S k' => (x mod 256) :: le_bytes k' (x / 256)
  end.

Fixpoint of_le (l : bytes) : N :=
  match l with
  | [] => 0
  | b :: r => b + 256 * of_le r
  end.

Definition blen (b : bytes) : N := N.of_nat (length b).

(** [read_exact]: the first [n] bytes and the rest, or failure when fewer are available. *)
Definition take (n : nat) (b : bytes) : option (bytes * bytes) :=
  if (length b <? n)%nat then None else Some (firstn n b, skipn n b).

Definition oapp {A} (o : option A) : list A := match o with Some a => [a] | None => [] end.
Definition is_some {A} (o : option A) : bool := match o with Some _ => true | None => false end.

(* ------------------------------------------------------------------------------------------ *)
(** * CompactSize (zcash_encoding 0.4.0: canonical encodings only, values <= MAX_COMPACT_SIZE) *)

Definition cs_write (n : N) : bytes :=
  if n <? 253 then [n]
  else if n <=? 0xFFFF then 253 :: le_bytes 2 n
  else if n <=? 0xFFFFFFFF then 254 :: le_bytes 4 n
  else 255 :: le_bytes 8 n.

Definition cs_read (b : bytes) : option (N * bytes) :=
  match b with
  | [] => None
  | f :: r =>
      let bounded (v : N) (rest : bytes) :=
        if MAX_COMPACT_SIZE <? v then None else Some (v, rest) in
      if f <? 253 then bounded f r
      else if f =? 253 then
        match take 2 r with
        | None => None
        | Some (x, rest) => let v := of_le x in if v <? 253 then None else bounded v rest
        end
      else if f =? 254 then
        match take 4 r with
        | None => None
        | Some (x, rest) => let v := of_le x in if v <? 0x10000 then None else bounded v rest
        end
      else
        match take 8 r with
        | None => None
        | Some (x, rest) => let v := of_le x in if v <? 0x100000000 then None else bounded v rest
        end
  end.

(* ------------------------------------------------------------------------------------------ *)
(** * Typecodes (unified.rs) *)

Inductive tc := TcP2pkh | TcP2sh | TcSapling | TcOrchard | TcUnknown (n : N).

(** [impl TryFrom<u32> for Typecode] *)
Definition tc_of_u32 (v : N) : option tc :=
  if v =? 0 then Some TcP2pkh
  else if v =? 1 then Some TcP2sh
  else if v =? 2 then Some TcSapling
  else if v =? 3 then Some TcOrchard
  else if v <=? MAX_TYPECODE then Some (TcUnknown v)
  else None.

Definition tc_to_u32 (t : tc) : N :=
  match t with TcP2pkh => 0 | TcP2sh => 1 | TcSapling => 2 | TcOrchard => 3 | TcUnknown n => n end.

Definition tc_is_transparent (t : tc) : bool :=
  match t with TcP2pkh | TcP2sh => true | _ => false end.

(* ------------------------------------------------------------------------------------------ *)
(** * Receiver requirements (keys.rs) *)

Inductive req := Require | Allow | Omit.
Inductive rr_err := Conflict | NoShieldedReceiver.

Definition req_eqb (a b : req) : bool :=
  match a, b with Require, Require | Allow, Allow | Omit, Omit => true | _, _ => false end.

(** [ReceiverRequirement::intersect] *)
Definition req_intersect (a b : req) : outcome req rr_err :=
  match a, b with
  | Require, Omit | Omit, Require => Err Conflict
  | Require, Require | Require, Allow | Allow, Require => Ok Require
  | Allow, Allow => Ok Allow
  | Allow, Omit | Omit, Allow | Omit, Omit => Ok Omit
  end.

Record reqs := mkReqs { rq_o : req; rq_s : req; rq_t : req }.

(** [ReceiverRequirements::new] *)
Definition reqs_new (o s p : req) : outcome reqs rr_err :=
  if req_eqb o Omit && req_eqb s Omit then Err NoShieldedReceiver else Ok (mkReqs o s p).

(** [ReceiverRequirements::unsafe_new]: panics instead. *)
Definition reqs_unsafe_new (o s p : req) : outcome reqs unit :=
  if req_eqb o Omit && req_eqb s Omit then Panic else Ok (mkReqs o s p).

(** [ReceiverRequirements::intersect] *)
Definition reqs_intersect (a b : reqs) : outcome reqs rr_err :=
  match req_intersect (rq_o a) (rq_o b) with
  | Ok o =>
      match req_intersect (rq_s a) (rq_s b) with
      | Ok s =>
          match req_intersect (rq_t a) (rq_t b) with
          | Ok p => reqs_new o s p
          | Err e => Err e | Panic => Panic
          end
      | Err e => Err e | Panic => Panic
      end
  | Err e => Err e | Panic => Panic
  end.

Inductive request := AllAvailableKeys | Custom (r : reqs).

(* ------------------------------------------------------------------------------------------ *)
(** * Oracles: the external cryptography *)

(** Result of a primitive key decoder: the canonical re-serialisation of the decoded key,
    rejection, or a panic inside the external crate (sapling-crypto 0.7.0's
    [SpendAuthorizingKey::from_bytes] does panic on some inputs). *)
Inductive ores := OSome (b : bytes) | ONone | OPanic.

Record oracles := mkOracles {
  (* spending key -> full viewing key component *)
  o_sk_fvk : bytes -> bytes;            (* orchard SpendingKey (32) -> FullViewingKey (96) *)
  s_sk_fvk : bytes -> bytes;            (* sapling ExtendedSpendingKey (169) -> DFVK (128) *)
  t_sk_pk : bytes -> bytes;             (* AccountPrivKey (74) -> AccountPubKey (65) *)
  (* full viewing key -> external incoming viewing key component *)
  o_fvk_ivk : bytes -> bytes;           (* to_ivk(Scope::External) (64) *)
  s_fvk_ivk : bytes -> bytes;           (* to_external_ivk (64) *)
  t_pk_ivk : bytes -> option bytes;     (* derive_external_ivk (65); BIP 32 derivation may fail *)
  (* address derivation at a diversifier index / child index *)
  o_addr : bytes -> N -> bytes;         (* orchard IVK.address_at: total *)
  s_addr : bytes -> N -> option bytes;  (* sapling IVK.address_at: None for an invalid diversifier *)
  t_addr : bytes -> N -> option bytes;  (* ExternalIvk.derive_address(i).ok() *)
  (* primitive decoders *)
  dec_o_sk : bytes -> ores; dec_s_sk : bytes -> ores; dec_t_sk : bytes -> ores;
  dec_o_fvk : bytes -> ores; dec_s_fvk : bytes -> ores; dec_t_fvk : bytes -> ores;
  dec_o_ivk : bytes -> ores; dec_s_ivk : bytes -> ores; dec_t_ivk : bytes -> ores;
  (* external IVK below an account private key, with the key's own BIP 32 metadata: the
     derivation [from_checked_parts] performs; fails e.g. at depth 255 *)
  t_sk_ivk : bytes -> option bytes
}.

(* ------------------------------------------------------------------------------------------ *)
(** * Keys *)

Record usk := mkUsk { usk_t : bytes; usk_s : bytes; usk_o : bytes }.

Definition item := (N * bytes)%type.   (* typecode (u32), data *)

Record ufvk := mkUfvk {
  fvk_t : option bytes; fvk_s : option bytes; fvk_o : option bytes; fvk_unknown : list item }.

Record uivk := mkUivk {
  ivk_t : option bytes; ivk_s : option bytes; ivk_o : option bytes; ivk_unknown : list item }.

(** A unified address as produced by [UnifiedAddress::from_receivers] (no unknown items):
    raw receiver bytes. *)
Record ua := mkUa { ua_o : option bytes; ua_s : option bytes; ua_t : option bytes }.

Inductive dec_err :=
| ReadError (what : N)                 (* 0 "era", 1 "typecode", 2 "key length" *)
| EraInvalid
| EraMismatch
| TypecodeInvalid
| LengthInvalid
| LengthMismatch (t : tc) (l : N)
| InsufficientData (t : tc)
| KeyDataInvalid (t : tc)
| OutOfFuel.                           (* model artefact; proved unreachable *)

Section WithOracles.
Variable Orc : oracles.

(** [UnifiedSpendingKey::to_unified_full_viewing_key] *)
Definition usk_to_ufvk (k : usk) : ufvk :=
  mkUfvk (Some (t_sk_pk Orc (usk_t k))) (Some (s_sk_fvk Orc (usk_s k))) (Some (o_sk_fvk Orc (usk_o k))) [].

(** [UnifiedSpendingKey::from_checked_parts] *)
Definition usk_from_checked_parts (t s o : bytes) : outcome usk unit :=
  match t_sk_ivk Orc t with
  | Some _ => Ok (mkUsk t s o)
  | None => Err tt
  end.

(** [UnifiedFullViewingKey::from_checked_parts] *)
Definition ufvk_from_checked_parts (t s o : option bytes) (unknown : list item)
  : outcome ufvk unit :=
  match t with
  | Some pk => match t_pk_ivk Orc pk with
               | Some _ => Ok (mkUfvk t s o unknown)
               | None => Err tt
               end
  | None => Ok (mkUfvk t s o unknown)
  end.

(** [UnifiedFullViewingKey::to_unified_incoming_viewing_key]; the [expect] on the transparent
    derivation is a panic. *)
Definition ufvk_to_uivk (k : ufvk) : outcome uivk unit :=
  let s := option_map (s_fvk_ivk Orc) (fvk_s k) in
  let o := option_map (o_fvk_ivk Orc) (fvk_o k) in
  match fvk_t k with
  | Some pk => match t_pk_ivk Orc pk with
               | Some ivk => Ok (mkUivk (Some ivk) s o [])
               | None => Panic
               end
  | None => Ok (mkUivk None s o [])
  end.

(* ------------------------------------------------------------------------------------------ *)
(** * USK byte container ([to_bytes] / [from_bytes], feature "unstable") *)

Definition usk_to_bytes (k : usk) : bytes :=
  le_bytes 4 ERA_ORCHARD_ID
  ++ cs_write 3 ++ cs_write (blen (usk_o k)) ++ usk_o k
  ++ cs_write 2 ++ cs_write (blen (usk_s k)) ++ usk_s k
  ++ cs_write 0 ++ cs_write (blen (usk_t k)) ++ usk_t k.

(** One iteration of the [loop] reads typecode, length, key data and decodes the key; the loop
    ends as soon as all three components are present (trailing bytes are ignored, a repeated
    item overwrites the earlier one). Fuel: every iteration consumes at least two bytes. *)
Fixpoint usk_loop (fuel : nat) (src : bytes) (o s t : option bytes) : outcome usk dec_err :=
  match fuel with
  | 0%nat => Err OutOfFuel
  | S fuel' =>
    match cs_read src with
    | None => Err (ReadError 1)
    | Some (v, src1) =>
      match tc_of_u32 v with
      | None => Err TypecodeInvalid
      | Some t_code =>
        match cs_read src1 with
        | None => Err (ReadError 2)
        | Some (len, src2) =>
          let continue (o s t : option bytes) (rest : bytes) : outcome usk dec_err :=
            match o, s, t with
            | Some ko, Some ks, Some kt =>
                match usk_from_checked_parts kt ks ko with
                | Ok k => Ok k
                | _ => Err (KeyDataInvalid TcP2pkh)
                end
            | _, _, _ => usk_loop fuel' rest o s t
            end in
          match t_code with
          | TcOrchard =>
              if negb (len =? USK_ORCHARD_LEN) then Err (LengthMismatch TcOrchard len)
              else match take (N.to_nat USK_ORCHARD_LEN) src2 with
                   | None => Err (InsufficientData TcOrchard)
                   | Some (key, rest) =>
                       match dec_o_sk Orc key with
                       | OSome k => continue (Some k) s t rest
                       | ONone => Err (KeyDataInvalid TcOrchard)
                       | OPanic => Panic
                       end
                   end
          | TcSapling =>
              if negb (len =? USK_SAPLING_LEN) then Err (LengthMismatch TcSapling len)
              else match take (N.to_nat USK_SAPLING_LEN) src2 with
                   | None => Err (InsufficientData TcSapling)
                   | Some (key, rest) =>
                       match dec_s_sk Orc key with
                       | OSome k => continue o (Some k) t rest
                       | ONone => Err (KeyDataInvalid TcSapling)
                       | OPanic => Panic
                       end
                   end
          | TcP2pkh =>
              if negb (len =? USK_P2PKH_LEN) then Err (LengthMismatch TcP2pkh len)
              else match take (N.to_nat USK_P2PKH_LEN) src2 with
                   | None => Err (InsufficientData TcP2pkh)
                   | Some (key, rest) =>
                       match dec_t_sk Orc key with
                       | OSome k => continue o s (Some k) rest
                       | ONone => Err (KeyDataInvalid TcP2pkh)
                       | OPanic => Panic
                       end
                   end
          | _ => Err TypecodeInvalid
          end
        end
      end
    end
  end.

(** [Era::try_from_id]: only the NU5 branch id names an era. *)
Definition era_of_id (id : N) : bool := id =? ERA_ORCHARD_ID.

Definition usk_from_bytes (encoded : bytes) : outcome usk dec_err :=
  match take 4 encoded with
  | None => Err (ReadError 0)
  | Some (e, src) =>
      if era_of_id (of_le e) then usk_loop (length encoded) src None None None
      else Err EraInvalid
  end.

(* ------------------------------------------------------------------------------------------ *)
(** * ZIP 316 container (unified.rs): items, raw encoding, parsing *)

Inductive parse_err :=
| BothP2phkAndP2sh
| DuplicateTypecode (t : N)
| InvalidTypecodeValue (v : N)
| InvalidEncoding
| InvalidTypecodeOrder
| OnlyTransparent
| NotUnified
| UnknownPrefix
| ParseOutOfFuel.                      (* model artefact *)

(** Which container: lengths of the three known item kinds. *)
Inductive ukind := KFvk | KIvk.
Definition item_len (k : ukind) (t : tc) : option N :=
  match k, t with
  | KFvk, TcP2pkh => Some FVK_P2PKH_LEN | KFvk, TcSapling => Some FVK_SAPLING_LEN
  | KFvk, TcOrchard => Some FVK_ORCHARD_LEN
  | KIvk, TcP2pkh => Some IVK_P2PKH_LEN | KIvk, TcSapling => Some IVK_SAPLING_LEN
  | KIvk, TcOrchard => Some IVK_ORCHARD_LEN
  | _, _ => None
  end.

(** [impl TryFrom<(u32, &[u8])> for Fvk / Ivk] *)
Definition item_try_from (k : ukind) (typecode : N) (data : bytes) : outcome item parse_err :=
  match tc_of_u32 typecode with
  | None => Err (InvalidTypecodeValue typecode)
  | Some TcP2sh => Err InvalidEncoding
  | Some (TcUnknown _) => Ok (typecode, data)
  | Some t => match item_len k t with
              | Some l => if blen data =? l then Ok (typecode, data) else Err InvalidEncoding
              | None => Err InvalidEncoding
              end
  end.

(** [SealedItem::write_raw_encoding], [SealedContainer::write_raw_encoding] *)
Definition item_raw (i : item) : bytes := cs_write (fst i) ++ cs_write (blen (snd i)) ++ snd i.
Definition items_raw (l : list item) : bytes := flat_map item_raw l.

Definition padding (hrp : bytes) : bytes := hrp ++ repeat 0 (16 - length hrp)%nat.

(** The argument of [f4jumble] in [to_jumbled_bytes]. *)
Definition container_raw (hrp : bytes) (l : list item) : bytes := items_raw l ++ padding hrp.

(** lexicographic order on byte strings ([<[u8]>::cmp]) *)
Fixpoint bytes_cmp (a b : bytes) : comparison :=
  match a, b with
  | [], [] => Eq
  | [], _ => Lt
  | _, [] => Gt
  | x :: a', y :: b' => match x ?= y with Eq => bytes_cmp a' b' | c => c end
  end.

(** [SealedItem::encoding_order] *)
Definition enc_cmp (a b : item) : comparison :=
  match fst a ?= fst b with Eq => bytes_cmp (snd a) (snd b) | c => c end.

Fixpoint insert (x : item) (l : list item) : list item :=
  match l with
  | [] => [x]
  | y :: r => match enc_cmp x y with Gt => y :: insert x r | _ => x :: l end
  end.
(** [sort_unstable_by(encoding_order)]: any sorting algorithm gives the same list, because
    items equal under [encoding_order] are identical. *)
Definition sort_items (l : list item) : list item := fold_right insert [] l.

(** [try_from_items_internal]: [prev] is [Option<u32>] with [None < Some _]. *)
Fixpoint tfi_loop (l : list item) (prev : option N) (only_t : bool) : outcome bool parse_err :=
  match l with
  | [] => Ok only_t
  | (t, _) :: r =>
      let lt := match prev with Some p => t <? p | None => false end in
      let eq := match prev with Some p => t =? p | None => false end in
      if lt then Err InvalidTypecodeOrder
      else if eq then Err (DuplicateTypecode t)
      else if (t =? 1) && (match prev with Some 0 => true | _ => false end) then Err BothP2phkAndP2sh
      else tfi_loop r (Some t)
             (only_t && match tc_of_u32 t with Some c => tc_is_transparent c | None => false end)
  end.

Definition try_from_items_internal (l : list item) : outcome (list item) parse_err :=
  match tfi_loop l None true with
  | Ok true => Err OnlyTransparent
  | Ok false => Ok l
  | Err e => Err e
  | Panic => Panic
  end.

(** [Encoding::try_from_items] *)
Definition try_from_items (l : list item) : outcome (list item) parse_err :=
  try_from_items_internal (sort_items l).

(** [parse_items] after [f4jumble_inv]: strip and check the padding, then read items until the
    buffer is exhausted. *)
Fixpoint read_items (k : ukind) (fuel : nat) (buf : bytes) : outcome (list item) parse_err :=
  match buf with
  | [] => Ok []
  | _ =>
    match fuel with
    | 0%nat => Err ParseOutOfFuel
    | S fuel' =>
      match cs_read buf with
      | None => Err InvalidEncoding
      | Some (typecode, b1) =>
        match cs_read b1 with
        | None => Err InvalidEncoding
        | Some (len, b2) =>
          match take (N.to_nat len) b2 with
          | None => Err InvalidEncoding
          | Some (data, rest) =>
            match item_try_from k typecode data with
            | Ok it => match read_items k fuel' rest with
                       | Ok l => Ok (it :: l)
                       | e => e
                       end
            | Err e => Err e
            | Panic => Panic
            end
          end
        end
      end
    end
  end.

Definition parse_items (k : ukind) (hrp : bytes) (unjumbled : bytes) : outcome (list item) parse_err :=
  if (length unjumbled <? 16)%nat then Panic   (* [len - PADDING_LEN] underflows; F4Jumble never yields < 48 bytes *)
  else
    let n := (length unjumbled - 16)%nat in
    if bytes_eqb (skipn n unjumbled) (padding hrp)
    then read_items k n (firstn n unjumbled)
    else Err InvalidEncoding.

Definition parse_internal (k : ukind) (hrp : bytes) (unjumbled : bytes) :=
  match parse_items k hrp unjumbled with
  | Ok l => try_from_items_internal l
  | e => e
  end.

(** Networks: 0 main, 1 test, 2 regtest. *)
Definition hrp_of (k : ukind) (net : N) : bytes :=
  match k with
  | KFvk => if net =? 0 then HRP_FVK_MAIN else if net =? 1 then HRP_FVK_TEST else HRP_FVK_REGTEST
  | KIvk => if net =? 0 then HRP_IVK_MAIN else if net =? 1 then HRP_IVK_TEST else HRP_IVK_REGTEST
  end.

Definition hrp_network (k : ukind) (hrp : bytes) : option N :=
  if bytes_eqb hrp (hrp_of k 0) then Some 0
  else if bytes_eqb hrp (hrp_of k 1) then Some 1
  else if bytes_eqb hrp (hrp_of k 2) then Some 2
  else None.

(** Input of [Encoding::decode] after the two external layers: the string is not a valid
    Bech32m string, or it has a human-readable part and a payload on which [f4jumble_inv]
    either fails or yields the given bytes. *)
Inductive dinput := NotBech32 | Bech (hrp : bytes) (unjumbled : option bytes).

Definition container_decode (k : ukind) (i : dinput) : outcome (N * list item) parse_err :=
  match i with
  | NotBech32 => Err NotUnified
  | Bech hrp payload =>
      match hrp_network k hrp with
      | None => Err UnknownPrefix
      | Some net =>
          match payload with
          | None => Err InvalidEncoding
          | Some raw => match parse_internal k hrp raw with
                        | Ok l => Ok (net, l)
                        | Err e => Err e
                        | Panic => Panic
                        end
          end
      end
  end.

(* ------------------------------------------------------------------------------------------ *)
(** * UFVK / UIVK  <->  container *)

(** [to_ufvk] / [render]: unknown items first, then Orchard, Sapling, transparent;
    [try_from_items] sorts them; the [expect] is a panic. *)
Definition ufvk_items (k : ufvk) : list item :=
  fvk_unknown k ++ oapp (option_map (pair 3) (fvk_o k)) ++ oapp (option_map (pair 2) (fvk_s k))
  ++ oapp (option_map (pair 0) (fvk_t k)).

Definition uivk_items (k : uivk) : list item :=
  ivk_unknown k ++ oapp (option_map (pair 3) (ivk_o k)) ++ oapp (option_map (pair 2) (ivk_s k))
  ++ oapp (option_map (pair 0) (ivk_t k)).

Definition to_container (l : list item) : outcome (list item) unit :=
  match try_from_items l with Ok c => Ok c | _ => Panic end.

(** [encode]: the human-readable part and the bytes handed to F4Jumble. *)
Definition ufvk_encode (net : N) (k : ufvk) : outcome (bytes * bytes) unit :=
  match to_container (ufvk_items k) with
  | Ok c => Ok (hrp_of KFvk net, container_raw (hrp_of KFvk net) c)
  | Err e => Err e | Panic => Panic
  end.

Definition uivk_encode (net : N) (k : uivk) : outcome (bytes * bytes) unit :=
  match to_container (uivk_items k) with
  | Ok c => Ok (hrp_of KIvk net, container_raw (hrp_of KIvk net) c)
  | Err e => Err e | Panic => Panic
  end.

(** The item loop shared by [UnifiedFullViewingKey::parse] and [UnifiedIncomingViewingKey::parse]:
    known items are decoded by the primitive decoders, unknown ones collected in order; the first
    failure ends the loop. *)
Fixpoint parse_loop (dt ds do_ : bytes -> ores) (l : list item) (t s o : option bytes)
  (unk : list item) : outcome (option bytes * option bytes * option bytes * list item) dec_err :=
  match l with
  | [] => Ok (t, s, o, rev unk)
  | (c, data) :: r =>
      match tc_of_u32 c with
      | Some TcOrchard =>
          match do_ data with
          | OSome k => parse_loop dt ds do_ r t s (Some k) unk
          | ONone => Err (KeyDataInvalid TcOrchard) | OPanic => Panic
          end
      | Some TcSapling =>
          match ds data with
          | OSome k => parse_loop dt ds do_ r t (Some k) o unk
          | ONone => Err (KeyDataInvalid TcSapling) | OPanic => Panic
          end
      | Some TcP2pkh =>
          match dt data with
          | OSome k => parse_loop dt ds do_ r (Some k) s o unk
          | ONone => Err (KeyDataInvalid TcP2pkh) | OPanic => Panic
          end
      | _ => parse_loop dt ds do_ r t s o ((c, data) :: unk)
      end
  end.

(** [UnifiedFullViewingKey::parse] *)
Definition ufvk_parse (l : list item) : outcome ufvk dec_err :=
  match parse_loop (dec_t_fvk Orc) (dec_s_fvk Orc) (dec_o_fvk Orc) l None None None [] with
  | Ok (t, s, o, unk) =>
      match ufvk_from_checked_parts t s o unk with
      | Ok k => Ok k
      | _ => Err (KeyDataInvalid TcP2pkh)
      end
  | Err e => Err e | Panic => Panic
  end.

(** [UnifiedIncomingViewingKey::parse] (no derivation check) *)
Definition uivk_parse (l : list item) : outcome uivk dec_err :=
  match parse_loop (dec_t_ivk Orc) (dec_s_ivk Orc) (dec_o_ivk Orc) l None None None [] with
  | Ok (t, s, o, unk) => Ok (mkUivk t s o unk)
  | Err e => Err e | Panic => Panic
  end.

(** [decode(params, s)] returns [Err(String)]; the stages are told apart here. *)
Inductive derr := EParse (e : parse_err) | ENetwork | EKey (e : dec_err).

Definition ufvk_decode (net : N) (i : dinput) : outcome ufvk derr :=
  match container_decode KFvk i with
  | Err e => Err (EParse e) | Panic => Panic
  | Ok (n, l) =>
      if negb (n =? net) then Err ENetwork
      else match ufvk_parse l with
           | Ok k => Ok k | Err e => Err (EKey e) | Panic => Panic
           end
  end.

Definition uivk_decode (net : N) (i : dinput) : outcome uivk derr :=
  match container_decode KIvk i with
  | Err e => Err (EParse e) | Panic => Panic
  | Ok (n, l) =>
      if negb (n =? net) then Err ENetwork
      else match uivk_parse l with
           | Ok k => Ok k | Err e => Err (EKey e) | Panic => Panic
           end
  end.

(* ------------------------------------------------------------------------------------------ *)
(** * Address derivation *)

Inductive aerr :=
| InvalidTransparentChildIndex (j : N)
| InvalidSaplingDiversifierIndex (j : N)
| DiversifierSpaceExhausted
| ReceiverTypeNotSupported (t : tc)
| KeyNotAvailable (t : tc)
| ShieldedReceiverRequired
| FindOutOfFuel.                        (* model artefact *)

(** [to_transparent_child_index]: the 11-byte index must fit 4 bytes and have the hardened bit
    clear ([NonHardenedChildIndex::from_index]). *)
Definition to_transparent_child_index (j : N) : option N :=
  let low := j mod 4294967296 in
  let rest := j / 4294967296 in
  if negb (rest =? 0) then None
  else if low <=? NON_HARDENED_MAX then Some low else None.

(** [to_receiver_requirements] *)
Definition to_receiver_requirements (k : uivk) : outcome reqs rr_err :=
  reqs_new (if is_some (ivk_o k) then Require else Omit)
           (if is_some (ivk_s k) then Require else Omit)
           (if is_some (ivk_t k) then Require else Omit).

(** [receiver_requirements] *)
Definition receiver_requirements (k : uivk) (r : request) : outcome reqs aerr :=
  match r with
  | AllAvailableKeys =>
      match to_receiver_requirements k with
      | Ok q => Ok q
      | _ => Err ShieldedReceiverRequired
      end
  | Custom q =>
      if req_eqb (rq_o q) Require && negb (is_some (ivk_o k)) then Err (ReceiverTypeNotSupported TcOrchard)
      else if req_eqb (rq_s q) Require && negb (is_some (ivk_s k)) then Err (ReceiverTypeNotSupported TcSapling)
      else if req_eqb (rq_t q) Require && negb (is_some (ivk_t k)) then Err (ReceiverTypeNotSupported TcP2pkh)
      else Ok q
  end.

(** [UnifiedAddress::from_receivers] *)
Definition ua_from_receivers (o s t : option bytes) : option ua :=
  if is_some o || is_some s then Some (mkUa o s t) else None.

(** [UnifiedIncomingViewingKey::address] *)
Definition uivk_address (k : uivk) (j : N) (r : request) : outcome ua aerr :=
  match receiver_requirements k r with
  | Panic => Panic
  | Err _ => Err ShieldedReceiverRequired
  | Ok q =>
    if req_eqb (rq_t q) Require && is_some (ivk_t k)
       && negb (is_some (to_transparent_child_index j))
    then Err (InvalidTransparentChildIndex j)
    else
    let ro : outcome (option bytes) aerr :=
      if negb (req_eqb (rq_o q) Omit) then
        match ivk_o k with
        | Some oivk => Ok (Some (o_addr Orc oivk j))
        | None => if req_eqb (rq_o q) Require then Err (KeyNotAvailable TcOrchard) else Ok None
        end
      else Ok None in
    match ro with
    | Panic => Panic | Err e => Err e
    | Ok orchard =>
      let rs : outcome (option bytes) aerr :=
        if negb (req_eqb (rq_s q) Omit) then
          match ivk_s k with
          | Some divk =>
              match rq_s q, s_addr Orc divk j with
              | (Require | Allow), Some a => Ok (Some a)
              | Require, None => Err (InvalidSaplingDiversifierIndex j)
              | _, _ => Ok None
              end
          | None => if req_eqb (rq_s q) Require then Err (KeyNotAvailable TcSapling) else Ok None
          end
        else Ok None in
      match rs with
      | Panic => Panic | Err e => Err e
      | Ok sapling =>
        let rt : outcome (option bytes) aerr :=
          if negb (req_eqb (rq_t q) Omit) then
            match ivk_t k with
            | Some tivk =>
                let a := match to_transparent_child_index j with
                         | Some i => t_addr Orc tivk i
                         | None => None
                         end in
                match rq_t q, a with
                | (Require | Allow), Some a => Ok (Some a)
                | Require, None => Err (InvalidTransparentChildIndex j)
                | _, _ => Ok None
                end
            | None => if req_eqb (rq_t q) Require then Err (KeyNotAvailable TcP2pkh) else Ok None
            end
          else Ok None in
        match rt with
        | Panic => Panic | Err e => Err e
        | Ok transparent =>
            match ua_from_receivers orchard sapling transparent with
            | Some a => Ok a
            | None => Err ShieldedReceiverRequired
            end
        end
      end
    end
  end.

(** [UnifiedFullViewingKey::address] = [to_unified_incoming_viewing_key().address] *)
Definition ufvk_address (k : ufvk) (j : N) (r : request) : outcome ua aerr :=
  match ufvk_to_uivk k with
  | Ok i => uivk_address i j r
  | _ => Panic
  end.

(** USK level: [usk.to_unified_full_viewing_key().address] *)
Definition usk_address (k : usk) (j : N) (r : request) : outcome ua aerr :=
  ufvk_address (usk_to_ufvk k) j r.

(** [find_address]: only [InvalidSaplingDiversifierIndex] makes the search continue;
    [DiversifierIndex::increment] fails past 2^88 - 1. *)
Fixpoint uivk_find_address (fuel : nat) (k : uivk) (j : N) (r : request) : outcome (ua * N) aerr :=
  match fuel with
  | 0%nat => Err FindOutOfFuel
  | S fuel' =>
      match uivk_address k j r with
      | Ok a => Ok (a, j)
      | Err (InvalidSaplingDiversifierIndex _) =>
          if j + 1 <? DIVERSIFIER_SPACE then uivk_find_address fuel' k (j + 1) r
          else Err DiversifierSpaceExhausted
      | Err e => Err e
      | Panic => Panic
      end
  end.

Definition ufvk_find_address (fuel : nat) (k : ufvk) (j : N) (r : request) : outcome (ua * N) aerr :=
  match ufvk_to_uivk k with
  | Ok i => uivk_find_address fuel i j r
  | _ => Panic
  end.

End WithOracles.
