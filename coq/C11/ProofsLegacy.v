(** C11 — proofs about zcash_keys::encoding: finite table theorems over the regenerated HRP /
    prefix tables, and round trips of the model for all reader oracles. *)
From V.Lib Require Import Base Hex.
From V.Gen Require Import C11Consts C11Legacy.
From V.C11 Require Import Model Legacy.
From Coq Require Import ZifyBool.
Local Open Scope N_scope.

Lemma net_cases (net : N) : net < 3 -> net = 0 \/ net = 1 \/ net = 2.
Proof. lia. Qed.

Ltac nets := repeat match goal with
  | H : ?n < 3 |- _ => apply net_cases in H; destruct H as [ -> | [ -> | -> ] ]
  end.

(** the network reported by [decode_extfvk_with_network] for the HRP that [NetworkConstants]
    assigns to a network is that network — on all three networks *)
Theorem extfvk_arms_agree net : net < 3 -> arms_lookup EXTFVK_ARMS (nc_hrp LFvk net) = Some net.
Proof. intros H. nets; vm_compute; reflexivity. Qed.

(** and the arms recognise nothing else: they agree with the specification on every HRP *)
Theorem extfvk_arms_spec h : arms_lookup EXTFVK_ARMS h = spec_extfvk_network h.
Proof.
  unfold spec_extfvk_network. reflexivity.
Qed.

Definition bytes_neqb (a b : bytes) : bool := negb (bytes_eqb a b).

(** HRPs of one kind are pairwise distinct over the networks; HRPs of different kinds never
    coincide (a string of one kind is never accepted as another kind or for another network) *)
Theorem hrp_injective k net net' :
  net < 3 -> net' < 3 -> bytes_eqb (nc_hrp k net) (nc_hrp k net') = true -> net = net'.
Proof. intros A B. nets; destruct k; vm_compute; intros H; try reflexivity; discriminate H. Qed.

Theorem hrp_kinds_disjoint k k' net net' :
  net < 3 -> net' < 3 -> k <> k' -> bytes_eqb (nc_hrp k net) (nc_hrp k' net') = false.
Proof. intros A B N. nets; destruct k, k'; try congruence; vm_compute; reflexivity. Qed.

(** transparent prefixes: two bytes each, P2PKH and P2SH prefixes differ inside every network,
    testnet and regtest share theirs (documented), mainnet shares none with them *)
Theorem t_prefix_table net net' :
  net < 3 -> net' < 3 ->
  length (nc_pubkey net) = 2%nat /\ length (nc_script net) = 2%nat
  /\ bytes_eqb (nc_pubkey net) (nc_script net') = false
  /\ bytes_eqb (nc_pubkey net) (nc_pubkey net') = same_t_family net net'
  /\ bytes_eqb (nc_script net) (nc_script net') = same_t_family net net'.
Proof. intros A B. nets; vm_compute; auto. Qed.

(* ------------------------------------------------------------------------------------------ *)
(** * Bech32 side, for every reader *)

Lemma bytes_eqb_refl b : bytes_eqb b b = true.
Proof. induction b as [|x b IH]; [reflexivity|]. cbn. rewrite N.eqb_refl. exact IH. Qed.

Lemma bytes_eqb_eq a : forall b, bytes_eqb a b = true -> a = b.
Proof.
  induction a as [|x a IH]; intros [|y b] H; try discriminate; [reflexivity|].
  cbn in H. apply andb_true_iff in H. destruct H as [H1 H2]. apply N.eqb_eq in H1.
  rewrite (IH b H2), H1. reflexivity.
Qed.

(** decode (encode k) = k under the same HRP; any other HRP is rejected before reading *)
Theorem legacy_roundtrip k prim hrp payload key :
  reader k prim payload = OSome key ->
  let (h, d) := legacy_encode hrp payload in
  legacy_decode k prim hrp (BStr h d) = Ok key
  /\ forall hrp', bytes_eqb hrp hrp' = false -> legacy_decode k prim hrp' (BStr h d) = Err BHrpMismatch.
Proof.
  intros R. cbn [legacy_encode]. unfold legacy_decode, bech32_decode. split.
  - rewrite bytes_eqb_refl. cbn [negb]. rewrite R. reflexivity.
  - intros hrp' N. rewrite N. reflexivity.
Qed.

(** the Sapling extended FVK encoded for a network decodes, with the network reported, to that
    network and that key; and agrees with [decode_extended_full_viewing_key] on the key *)
Theorem extfvk_with_network_roundtrip prim net payload key :
  net < 3 -> prim payload = OSome key ->
  let (h, d) := legacy_encode (nc_hrp LFvk net) payload in
  decode_extfvk_with_network prim (BStr h d) = Ok (net, key)
  /\ legacy_decode LFvk prim (nc_hrp LFvk net) (BStr h d) = Ok key.
Proof.
  intros N R. cbn [legacy_encode]. split.
  - unfold decode_extfvk_with_network. rewrite extfvk_arms_agree by exact N. rewrite R. reflexivity.
  - unfold legacy_decode, bech32_decode, reader. rewrite bytes_eqb_refl. cbn [negb]. rewrite R. reflexivity.
Qed.

(** whatever network it reports, the string carried that network's HRP *)
Theorem extfvk_with_network_sound prim h d net key :
  decode_extfvk_with_network prim (BStr h d) = Ok (net, key) ->
  net < 3 /\ h = nc_hrp LFvk net /\ prim d = OSome key.
Proof.
  unfold decode_extfvk_with_network. rewrite extfvk_arms_spec. unfold spec_extfvk_network.
  destruct (bytes_eqb h (nc_hrp LFvk 0)) eqn:E0;
    [|destruct (bytes_eqb h (nc_hrp LFvk 1)) eqn:E1; [|destruct (bytes_eqb h (nc_hrp LFvk 2)) eqn:E2; [|discriminate]]];
    destruct (prim d) eqn:P; try discriminate; intros H; inversion H; subst;
    (split; [lia|]); (split; [apply bytes_eqb_eq; assumption | reflexivity]).
Qed.

(* ------------------------------------------------------------------------------------------ *)
(** * transparent side *)

Lemma firstn_app_exact {A} (a b : list A) : firstn (length a) (a ++ b) = a.
Proof. rewrite firstn_app, Nat.sub_diag, firstn_all. simpl. apply app_nil_r. Qed.
Lemma skipn_app_exact {A} (a b : list A) : skipn (length a) (a ++ b) = b.
Proof. rewrite skipn_app, Nat.sub_diag, skipn_all. reflexivity. Qed.

Lemma starts_with_app p h : starts_with (p ++ h) p = true.
Proof.
  unfold starts_with. rewrite app_length, firstn_app_exact, bytes_eqb_refl.
  destruct (length p <=? length p + length h)%nat eqn:E; [reflexivity | apply Nat.leb_gt in E; lia].
Qed.

Lemma starts_with_other p q h :
  length p = length q -> bytes_eqb q p = false -> starts_with (q ++ h) p = false.
Proof.
  intros L N. unfold starts_with. rewrite L, firstn_app_exact, N. apply andb_false_r.
Qed.

Definition taddr_wf (a : taddr) : Prop := match a with PKH h | SH h => length h = 20%nat end.

(** decode (encode a) = a whenever the two prefixes have equal length and differ *)
Theorem t_roundtrip pk sh a :
  length pk = length sh -> bytes_eqb sh pk = false -> taddr_wf a ->
  t_decode pk sh (Some (t_encode pk sh a)) = Ok (Some a).
Proof.
  intros L N W. unfold t_decode, t_encode. destruct a as [h|h]; cbn [taddr_wf] in W.
  - rewrite starts_with_app, skipn_app_exact. unfold hash20. rewrite W. reflexivity.
  - rewrite starts_with_other by assumption. rewrite starts_with_app, skipn_app_exact.
    unfold hash20. rewrite W. reflexivity.
Qed.

(** under prefixes that all differ from the encoding ones, nothing is recognised *)
Theorem t_foreign pk sh pk' sh' a :
  length pk = length pk' -> length pk = length sh' -> length sh = length pk' -> length sh = length sh' ->
  bytes_eqb pk pk' = false -> bytes_eqb pk sh' = false ->
  bytes_eqb sh pk' = false -> bytes_eqb sh sh' = false ->
  t_decode pk' sh' (Some (t_encode pk sh a)) = Ok None.
Proof.
  intros L1 L2 L3 L4 N1 N2 N3 N4. unfold t_decode, t_encode. destruct a as [h|h].
  - rewrite (starts_with_other pk' pk) by (auto; lia).
    rewrite (starts_with_other sh' pk) by (auto; lia). reflexivity.
  - rewrite (starts_with_other pk' sh) by (auto; lia).
    rewrite (starts_with_other sh' sh) by (auto; lia). reflexivity.
Qed.

(** per network: an address encoded for [n0] decodes under the prefixes of [net] to itself when
    the two networks share prefixes (same network, or testnet/regtest), to nothing otherwise *)
Theorem t_network_roundtrip n0 net a :
  n0 < 3 -> net < 3 -> taddr_wf a ->
  t_codec_decode net (Some (t_encode (nc_pubkey n0) (nc_script n0) a))
  = if same_t_family n0 net then Ok a else Err TUnsupported.
Proof.
  intros A B W. unfold t_codec_decode.
  destruct (same_t_family n0 net) eqn:F.
  - assert (E : nc_pubkey net = nc_pubkey n0 /\ nc_script net = nc_script n0)
      by (nets; try discriminate F; split; reflexivity).
    destruct E as [-> ->].
    rewrite t_roundtrip; [reflexivity | | | exact W]; nets; reflexivity.
  - rewrite t_foreign; [reflexivity | | | | | | | | ]; nets; try discriminate F; reflexivity.
Qed.
