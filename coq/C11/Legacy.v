(** C11 — model of zcash_keys/src/encoding.rs (legacy Sapling Bech32 and transparent
    Base58Check encodings). Bech32 and Base58Check themselves are external: a string enters as
    what the primitive decoder makes of it; an encoder's result is compared below that layer.
    The HRP / prefix tables are regenerated from the source (coq/Gen/C11Legacy.v):
    [NC_*] from `impl NetworkConstants for NetworkType`, [EXTFVK_ARMS] from the match in
    [decode_extfvk_with_network]. No proofs in this file. *)
From V.Lib Require Import Base Hex.
From V.Gen Require Import C11Consts C11Legacy.
From V.C11 Require Import Model.
Local Open Scope N_scope.

(** ** tables *)
Fixpoint nc (tbl : list (N * bytes)) (net : N) : bytes :=
  match tbl with
  | [] => []
  | (n, v) :: r => if n =? net then v else nc r net
  end.

Inductive lkind := LSk | LFvk | LAddr.
Definition nc_hrp (k : lkind) (net : N) : bytes :=
  nc (match k with LSk => NC_EXTSK | LFvk => NC_EXTFVK | LAddr => NC_PAYMENT end) net.
Definition nc_pubkey (net : N) : bytes := nc NC_B58_PUBKEY net.
Definition nc_script (net : N) : bytes := nc NC_B58_SCRIPT net.

(** the match of [decode_extfvk_with_network]: first arm whose HRP equals the string's *)
Fixpoint arms_lookup (arms : list (bytes * N)) (h : bytes) : option N :=
  match arms with
  | [] => None
  | (a, n) :: r => if bytes_eqb h a then Some n else arms_lookup r h
  end.

(** ** Bech32 side *)
Inductive berr := BechErr | BHrpMismatch | BReadError.
(** what [CheckedHrpstring::new::<Bech32>] makes of the string *)
Inductive binput := BNot | BStr (hrp data : bytes).

(** the reader closure each decoder passes; [prim] is the external parser
    ([ExtendedSpendingKey::read], [ExtendedFullViewingKey::read], [PaymentAddress::from_bytes]),
    returning the canonical re-serialisation *)
Definition reader (k : lkind) (prim : bytes -> ores) (d : bytes) : ores :=
  match k with
  | LAddr => if blen d =? PAYMENT_ADDRESS_LEN then prim d else ONone
  | _ => prim d
  end.

(** [bech32_decode] *)
Definition bech32_decode (expected : bytes) (i : binput) (read : bytes -> ores) : outcome bytes berr :=
  match i with
  | BNot => Err BechErr
  | BStr h d =>
      if negb (bytes_eqb h expected) then Err BHrpMismatch
      else match read d with OSome k => Ok k | ONone => Err BReadError | OPanic => Panic end
  end.

(** [decode_extended_spending_key], [decode_extended_full_viewing_key], [decode_payment_address] *)
Definition legacy_decode (k : lkind) (prim : bytes -> ores) (hrp : bytes) (i : binput) :=
  bech32_decode hrp i (reader k prim).

(** [encode_*]: the HRP and the bytes handed to Bech32 *)
Definition legacy_encode (hrp payload : bytes) : bytes * bytes := (hrp, payload).

(** [decode_extfvk_with_network] *)
Definition decode_extfvk_with_network (prim : bytes -> ores) (i : binput) : outcome (N * bytes) berr :=
  match i with
  | BNot => Err BechErr
  | BStr h d =>
      match arms_lookup EXTFVK_ARMS h with
      | None => Err BHrpMismatch
      | Some net => match prim d with OSome k => Ok (net, k) | ONone => Err BReadError | OPanic => Panic end
      end
  end.

(** ** transparent side *)
Inductive taddr := PKH (h : bytes) | SH (h : bytes).
Inductive terr := TBase58 | TUnsupported.

(** [encode_transparent_address]: the bytes handed to Base58Check *)
Definition t_encode (pk sh : bytes) (a : taddr) : bytes :=
  match a with PKH h => pk ++ h | SH h => sh ++ h end.

Definition starts_with (b p : bytes) : bool :=
  (length p <=? length b)%nat && bytes_eqb (firstn (length p) b) p.

Definition hash20 (b : bytes) : option bytes := if (length b =? 20)%nat then Some b else None.

(** [decode_transparent_address]; the input is what Base58Check decoding yields *)
Definition t_decode (pk sh : bytes) (i : option bytes) : outcome (option taddr) unit :=
  match i with
  | None => Err tt
  | Some d =>
      Ok (if starts_with d pk then option_map PKH (hash20 (skipn (length pk) d))
          else if starts_with d sh then option_map SH (hash20 (skipn (length sh) d))
          else None)
  end.

(** [AddressCodec for TransparentAddress] *)
Definition t_codec_decode (net : N) (i : option bytes) : outcome taddr terr :=
  match t_decode (nc_pubkey net) (nc_script net) i with
  | Err _ => Err TBase58
  | Ok None => Err TUnsupported
  | Ok (Some a) => Ok a
  | Panic => Panic
  end.

(** ** specification side: which network a Sapling extended-FVK string belongs to — the one
    whose [NetworkConstants] HRP it carries *)
Definition spec_extfvk_network (h : bytes) : option N :=
  if bytes_eqb h (nc_hrp LFvk 0) then Some 0
  else if bytes_eqb h (nc_hrp LFvk 1) then Some 1
  else if bytes_eqb h (nc_hrp LFvk 2) then Some 2
  else None.

(** transparent prefixes are shared between testnet and regtest (documented) *)
Definition same_t_family (a b : N) : bool := (a =? b) || ((1 <=? a) && (1 <=? b)).
