(** C11 — property theorems only. Each is closed by [exact] of a lemma from ProofsAddr.v,
    ProofsCodec.v or Bridge.v and audited by Print Assumptions. All statements quantify over an
    arbitrary oracle record [O] (the external cryptography); hypotheses about it are explicit. *)
From V.Lib Require Import Base Hex.
From V.Gen Require Import C11Consts.
From V.Gen Require Import C11Legacy.
From V.C11 Require Import Model Spec Tab Eqb Legacy CorrLegacy Gap CorrGap Extra CorrExtra Corr Wf ProofsAddr ProofsCodec ProofsDecode ProofsFind ProofsLegacy ProofsGap ProofsNt ProofsUa Bridge BridgeA BridgeB BridgeC Strings.
Local Open Scope N_scope.

(* ---------------------------------------------------------------------------------------- *)
(** ** intersect_lattice *)

Theorem C11_intersect_is_meet : forall a b, req_intersect a b = spec_req_intersect a b.
Proof. exact req_intersect_spec. Qed.
Theorem C11_intersect_comm : forall a b, req_intersect a b = req_intersect b a.
Proof. exact req_intersect_comm. Qed.
Theorem C11_intersect_idem : forall a, req_intersect a a = Ok a.
Proof. exact req_intersect_idem. Qed.
Theorem C11_intersect_assoc : forall a b c,
  bind_req (req_intersect a b) (fun x => req_intersect x c)
  = bind_req (req_intersect b c) (fun y => req_intersect a y).
Proof. exact req_intersect_assoc. Qed.
Theorem C11_intersect_conflict : forall a b,
  req_intersect a b = Err Conflict <-> (a = Require /\ b = Omit) \/ (a = Omit /\ b = Require).
Proof. exact req_intersect_conflict. Qed.
Theorem C11_intersect_glb : forall a b m,
  req_intersect a b = Ok m ->
  req_le m a /\ req_le m b /\ (forall x, req_le x a -> req_le x b -> req_le x m).
Proof. exact req_intersect_glb. Qed.
Theorem C11_reqs_new_ok : forall o s p q,
  reqs_new o s p = Ok q <-> q = mkReqs o s p /\ shielded_possible (mkReqs o s p) = true.
Proof. exact reqs_new_ok. Qed.
Theorem C11_reqs_unsafe_new_panics : forall o s p, reqs_unsafe_new o s p = Panic <-> o = Omit /\ s = Omit.
Proof. exact reqs_unsafe_new_panics. Qed.
Theorem C11_reqs_intersect_comm : forall a b, reqs_intersect a b = reqs_intersect b a.
Proof. exact reqs_intersect_comm. Qed.
Theorem C11_reqs_intersect_ok : forall a b q,
  reqs_intersect a b = Ok q ->
  shielded_possible q = true
  /\ req_intersect (rq_o a) (rq_o b) = Ok (rq_o q)
  /\ req_intersect (rq_s a) (rq_s b) = Ok (rq_s q)
  /\ req_intersect (rq_t a) (rq_t b) = Ok (rq_t q).
Proof. exact reqs_intersect_ok. Qed.
Theorem C11_reqs_intersect_never_panics : forall a b, reqs_intersect a b <> Panic.
Proof. exact reqs_intersect_never_panics. Qed.

(* ---------------------------------------------------------------------------------------- *)
(** ** address_exact_receivers *)

Theorem C11_address_decision_table : forall O k j r, uivk_address O k j r = spec_address O k j r.
Proof. exact uivk_address_spec. Qed.

Theorem C11_address_exact_receivers : forall O k j r a,
  uivk_address O k j r = Ok a ->
  let q := effective_or k r in
  (forall x, ua_o a = Some x <-> rq_o q <> Omit /\ exists i, ivk_o k = Some i /\ x = o_addr O i j)
  /\ (forall x, ua_s a = Some x <-> rq_s q <> Omit /\ exists i, ivk_s k = Some i /\ s_addr O i j = Some x)
  /\ (forall x, ua_t a = Some x <->
        rq_t q <> Omit /\ exists i, ivk_t k = Some i /\ j < 2147483648 /\ t_addr O i j = Some x).
Proof. exact address_receiver_iff. Qed.

Theorem C11_address_never_only_transparent : forall O k j r a,
  uivk_address O k j r = Ok a -> ua_o a <> None \/ ua_s a <> None.
Proof. exact address_never_only_transparent. Qed.

Theorem C11_address_require_unmet : forall O k j r q,
  effective k r = Some q ->
  ((required (rq_o q) && is_missing (avail_o O k j)) || (required (rq_s q) && is_missing (avail_s O k j))
   || (required (rq_t q) && is_missing (avail_t O k j)) = true ->
     uivk_address O k j r = Err ShieldedReceiverRequired)
  /\ ((required (rq_o q) && is_missing (avail_o O k j)) || (required (rq_s q) && is_missing (avail_s O k j))
      || (required (rq_t q) && is_missing (avail_t O k j)) = false ->
      (required (rq_t q) = true -> ivk_t k <> None -> 2147483648 <= j ->
         uivk_address O k j r = Err (InvalidTransparentChildIndex j))
      /\ (required (rq_s q) = true -> avail_s O k j = Invalid ->
          (required (rq_t q) = true /\ ivk_t k <> None /\ 2147483648 <= j) \/
          uivk_address O k j r = Err (InvalidSaplingDiversifierIndex j))
      /\ (required (rq_t q) = true -> avail_t O k j = Invalid ->
          uivk_address O k j r = Err (InvalidTransparentChildIndex j)
          \/ uivk_address O k j r = Err (InvalidSaplingDiversifierIndex j))).
Proof. exact address_require_unmet. Qed.

Theorem C11_address_error_kinds : forall O k j r,
  match uivk_address O k j r with
  | Ok _ => True
  | Err e => e = ShieldedReceiverRequired \/ e = InvalidTransparentChildIndex j
             \/ e = InvalidSaplingDiversifierIndex j
  | Panic => False
  end.
Proof. exact address_error_kinds. Qed.

Theorem C11_address_all_available : forall O k j a,
  uivk_address O k j AllAvailableKeys = Ok a ->
  (is_some (ua_o a) = is_some (ivk_o k)) /\ (is_some (ua_s a) = is_some (ivk_s k))
  /\ (is_some (ua_t a) = is_some (ivk_t k)).
Proof. exact address_all_available. Qed.

Theorem C11_child_index : forall j, to_transparent_child_index j = if j <? 2147483648 then Some j else None.
Proof. exact to_transparent_child_index_spec. Qed.

(* ---------------------------------------------------------------------------------------- *)
(** ** address_commutes *)

Theorem C11_address_commutes : forall O u j r,
  ufvk_derivable O (usk_to_ufvk O u) ->
  exists i, ufvk_to_uivk O (usk_to_ufvk O u) = Ok i
            /\ usk_address O u j r = ufvk_address O (usk_to_ufvk O u) j r
            /\ ufvk_address O (usk_to_ufvk O u) j r = uivk_address O i j r.
Proof. exact address_commutes. Qed.

Theorem C11_address_commutes_ufvk : forall O f j r,
  ufvk_derivable O f ->
  exists i, ufvk_to_uivk O f = Ok i /\ ufvk_address O f j r = uivk_address O i j r
            /\ (forall fuel, ufvk_find_address O fuel f j r = uivk_find_address O fuel i j r).
Proof. exact address_commutes_ufvk. Qed.

Theorem C11_constructors_establish_derivable : forall O t s o u f,
  ufvk_from_checked_parts O t s o u = Ok f -> ufvk_derivable O f /\ f = mkUfvk t s o u.
Proof. exact ufvk_from_checked_parts_derivable. Qed.

Theorem C11_decoded_usk_derivable : forall O b k,
  sk_coherent O -> usk_from_bytes O b = Ok k -> ufvk_derivable O (usk_to_ufvk O k).
Proof. exact usk_from_bytes_derivable. Qed.

Theorem C11_decoded_ufvk_derivable : forall O c k, ufvk_parse O c = Ok k -> ufvk_derivable O k.
Proof. exact ufvk_parse_derivable. Qed.

Theorem C11_projection_preserves_pools : forall O f i,
  ufvk_to_uivk O f = Ok i ->
  is_some (ivk_t i) = is_some (fvk_t f) /\ is_some (ivk_s i) = is_some (fvk_s f)
  /\ is_some (ivk_o i) = is_some (fvk_o f) /\ ivk_unknown i = [].
Proof. exact projection_preserves_pools. Qed.

(* ---------------------------------------------------------------------------------------- *)
(** ** find_address *)

Theorem C11_find_address_first_valid : forall O fuel k j r a j',
  uivk_find_address O fuel k j r = Ok (a, j') ->
  j <= j' /\ uivk_address O k j' r = Ok a
  /\ forall i, j <= i < j' -> uivk_address O k i r = Err (InvalidSaplingDiversifierIndex i).
Proof. exact find_address_sound. Qed.

Theorem C11_find_address_error : forall O fuel k j r e,
  j < DIVERSIFIER_SPACE ->
  uivk_find_address O fuel k j r = Err e -> e <> FindOutOfFuel ->
  e <> InvalidSaplingDiversifierIndex j /\
  exists j', j <= j' /\ (forall i, j <= i < j' -> uivk_address O k i r = Err (InvalidSaplingDiversifierIndex i))
    /\ ((e = DiversifierSpaceExhausted /\ j' + 1 = DIVERSIFIER_SPACE
         /\ uivk_address O k j' r = Err (InvalidSaplingDiversifierIndex j'))
        \/ (e <> DiversifierSpaceExhausted /\ uivk_address O k j' r = Err e)).
Proof. exact find_address_error. Qed.

(* ---------------------------------------------------------------------------------------- *)
(** ** usk_roundtrip, usk_from_bytes_total *)

Theorem C11_usk_roundtrip : forall O k, usk_wf O k -> usk_from_bytes O (usk_to_bytes k) = Ok k.
Proof. exact usk_roundtrip. Qed.

Theorem C11_usk_roundtrip_ignores_suffix : forall O k junk,
  usk_wf O k -> usk_from_bytes O (usk_to_bytes k ++ junk) = Ok k.
Proof. exact usk_roundtrip_suffix. Qed.

Theorem C11_usk_from_bytes_total : forall O b,
  decoders_total O -> usk_from_bytes O b <> Panic /\ usk_from_bytes O b <> Err OutOfFuel.
Proof. exact usk_from_bytes_total. Qed.

(* ---------------------------------------------------------------------------------------- *)
(** ** ufvk_roundtrip, uivk_roundtrip (container level; unknown items preserved) *)

Theorem C11_compactsize_roundtrip : forall n r, n <= MAX_COMPACT_SIZE -> cs_read (cs_write n ++ r) = Some (n, r).
Proof. exact cs_roundtrip. Qed.

Theorem C11_ufvk_roundtrip_items : forall O k,
  ufvk_wf O k -> ufvk_encodable k = true ->
  exists c, to_container (ufvk_items k) = Ok c /\ ufvk_parse O c = Ok k.
Proof. exact ufvk_roundtrip_items. Qed.

Theorem C11_uivk_roundtrip_items : forall O k,
  uivk_wf O k -> uivk_encodable k = true ->
  exists c, to_container (uivk_items k) = Ok c /\ uivk_parse O c = Ok k.
Proof. exact uivk_roundtrip_items. Qed.

Theorem C11_ufvk_roundtrip : forall O net k,
  net < 3 -> ufvk_wf O k -> ufvk_encodable k = true ->
  comp_len_ok KFvk (fvk_t k) (fvk_s k) (fvk_o k) -> unknown_sizes_ok (fvk_unknown k) ->
  exists hrp raw, ufvk_encode net k = Ok (hrp, raw)
    /\ ufvk_decode O net (Bech hrp (Some raw)) = Ok k
    /\ forall net', net' <> net -> ufvk_decode O net' (Bech hrp (Some raw)) = Err ENetwork.
Proof. exact ufvk_roundtrip. Qed.

Theorem C11_uivk_roundtrip : forall O net k,
  net < 3 -> uivk_wf O k -> uivk_encodable k = true ->
  comp_len_ok KIvk (ivk_t k) (ivk_s k) (ivk_o k) -> unknown_sizes_ok (ivk_unknown k) ->
  exists hrp raw, uivk_encode net k = Ok (hrp, raw)
    /\ uivk_decode O net (Bech hrp (Some raw)) = Ok k
    /\ forall net', net' <> net -> uivk_decode O net' (Bech hrp (Some raw)) = Err ENetwork.
Proof. exact uivk_roundtrip. Qed.

Theorem C11_ufvk_roundtrip_addresses : forall O net k,
  net < 3 -> ufvk_wf O k -> ufvk_encodable k = true ->
  comp_len_ok KFvk (fvk_t k) (fvk_s k) (fvk_o k) -> unknown_sizes_ok (fvk_unknown k) ->
  exists hrp raw k', ufvk_encode net k = Ok (hrp, raw)
    /\ ufvk_decode O net (Bech hrp (Some raw)) = Ok k'
    /\ ufvk_encode net k' = Ok (hrp, raw)
    /\ forall j r, ufvk_address O k' j r = ufvk_address O k j r /\ ufvk_address O k j r <> Panic.
Proof. exact ufvk_roundtrip_addresses. Qed.

Theorem C11_usk_roundtrip_addresses : forall O k,
  sk_coherent O -> usk_wf O k ->
  exists k', usk_from_bytes O (usk_to_bytes k) = Ok k' /\ usk_to_bytes k' = usk_to_bytes k
    /\ forall j r, usk_address O k' j r = usk_address O k j r /\ usk_address O k j r <> Panic.
Proof. exact usk_roundtrip_addresses. Qed.

Theorem C11_ufvk_encode_panics_iff_transparent_only : forall net k,
  unknown_ok (fvk_unknown k) -> (ufvk_encode net k = Panic <-> ufvk_encodable k = false).
Proof. exact ufvk_encode_panics. Qed.

(* ---------------------------------------------------------------------------------------- *)
(** ** legacy Sapling / transparent encodings (zcash_keys::encoding) *)

Theorem C11_extfvk_network_table : forall net,
  net < 3 -> arms_lookup EXTFVK_ARMS (nc_hrp LFvk net) = Some net.
Proof. exact extfvk_arms_agree. Qed.

Theorem C11_extfvk_network_table_exact : forall h, arms_lookup EXTFVK_ARMS h = spec_extfvk_network h.
Proof. exact extfvk_arms_spec. Qed.

Theorem C11_legacy_hrp_injective : forall k net net',
  net < 3 -> net' < 3 -> bytes_eqb (nc_hrp k net) (nc_hrp k net') = true -> net = net'.
Proof. exact hrp_injective. Qed.

Theorem C11_legacy_hrp_kinds_disjoint : forall k k' net net',
  net < 3 -> net' < 3 -> k <> k' -> bytes_eqb (nc_hrp k net) (nc_hrp k' net') = false.
Proof. exact hrp_kinds_disjoint. Qed.

Theorem C11_transparent_prefix_table : forall net net',
  net < 3 -> net' < 3 ->
  length (nc_pubkey net) = 2%nat /\ length (nc_script net) = 2%nat
  /\ bytes_eqb (nc_pubkey net) (nc_script net') = false
  /\ bytes_eqb (nc_pubkey net) (nc_pubkey net') = same_t_family net net'
  /\ bytes_eqb (nc_script net) (nc_script net') = same_t_family net net'.
Proof. exact t_prefix_table. Qed.

Theorem C11_legacy_bech32_roundtrip : forall k prim hrp payload key,
  reader k prim payload = OSome key ->
  let (h, d) := legacy_encode hrp payload in
  legacy_decode k prim hrp (BStr h d) = Ok key
  /\ forall hrp', bytes_eqb hrp hrp' = false -> legacy_decode k prim hrp' (BStr h d) = Err BHrpMismatch.
Proof. exact legacy_roundtrip. Qed.

Theorem C11_extfvk_with_network_roundtrip : forall prim net payload key,
  net < 3 -> prim payload = OSome key ->
  let (h, d) := legacy_encode (nc_hrp LFvk net) payload in
  decode_extfvk_with_network prim (BStr h d) = Ok (net, key)
  /\ legacy_decode LFvk prim (nc_hrp LFvk net) (BStr h d) = Ok key.
Proof. exact extfvk_with_network_roundtrip. Qed.

Theorem C11_extfvk_with_network_sound : forall prim h d net key,
  decode_extfvk_with_network prim (BStr h d) = Ok (net, key) ->
  net < 3 /\ h = nc_hrp LFvk net /\ prim d = OSome key.
Proof. exact extfvk_with_network_sound. Qed.

Theorem C11_transparent_roundtrip : forall pk sh a,
  length pk = length sh -> bytes_eqb sh pk = false -> taddr_wf a ->
  t_decode pk sh (Some (t_encode pk sh a)) = Ok (Some a).
Proof. exact t_roundtrip. Qed.

Theorem C11_transparent_network_roundtrip : forall n0 net a,
  n0 < 3 -> net < 3 -> taddr_wf a ->
  t_codec_decode net (Some (t_encode (nc_pubkey n0) (nc_script n0) a))
  = if same_t_family n0 net then Ok a else Err TUnsupported.
Proof. exact t_network_roundtrip. Qed.

(* ---------------------------------------------------------------------------------------- *)
(** ** gap_limits.rs: generated addresses belong to the key *)

Theorem C11_gap_range_iterator : forall start end_,
  end_ <= NON_HARDENED_MAX ->
  nh_range start end_ = upfrom start (if start <? end_ then N.to_nat (end_ - start) else 1%nat).
Proof. exact nh_range_spec. Qed.

Theorem C11_gap_range_never_empty : forall start end_, nh_range start end_ <> [].
Proof. exact nh_range_never_empty. Qed.

Theorem C11_gap_saturating_add_bound : forall i d, nh_saturating_add i d <= NON_HARDENED_MAX.
Proof. exact nh_saturating_add_bound. Qed.

Theorem C11_gap_list_belongs : forall O sivk k f scope r start end_ rk out,
  generate_address_list O sivk k f scope r start end_ rk = Ok out ->
  match match f with Some fk => fvk_t fk | None => None end with
  | None => out = []
  | Some pk => map snd out = nh_range start end_ /\ Forall (spec_entry O sivk k pk r scope) out
  end.
Proof. exact generate_address_list_belongs. Qed.

Theorem C11_gap_list_scopes : forall O sivk k f scope r start end_ rk out,
  generate_address_list O sivk k f scope r start end_ rk = Ok out -> out <> [] -> scope < 3.
Proof. exact generate_address_list_scopes. Qed.

Theorem C11_gap_generate_belongs : forall O sivk g k f scope r rk find st out,
  generate_gap_addresses O sivk g k f scope r rk find st = Ok (Some out) ->
  exists gl gs, limit_for g scope = Some gl /\ find = Ok (Some gs) /\ st = true
    /\ generate_address_list O sivk k f scope r gs (nh_saturating_add gs gl) rk = Ok out.
Proof. exact generate_gap_addresses_belongs. Qed.

Theorem C11_gap_generate_nothing : forall O sivk g k f scope r rk find st,
  generate_gap_addresses O sivk g k f scope r rk find st = Ok None -> find = Ok None.
Proof. exact generate_gap_addresses_nothing. Qed.

(* ---------------------------------------------------------------------------------------- *)
(** ** bridge: on every well-formed case, agreement with the model implies the property *)

Theorem C11_agree_implies_property : forall c,
  wf_case c = true -> known_class c = 0 -> run_case c = true -> prop_case c = true.
Proof. exact BridgeC.agree_implies_property. Qed.

(* ---------------------------------------------------------------------------------------- *)
(** ** find_address: termination and fuel *)

Theorem C11_find_address_terminates : forall O fuel k j r j',
  j <= j' -> j' < DIVERSIFIER_SPACE -> (N.to_nat (j' - j) < fuel)%nat ->
  (forall i, j <= i < j' -> skips O k r i) -> ~ skips O k r j' ->
  uivk_find_address O fuel k j r
  = match uivk_address O k j' r with
    | Ok a => Ok (a, j')
    | Err e => Err e
    | Panic => Panic
    end.
Proof. exact find_address_terminates. Qed.

Theorem C11_find_address_finds : forall O fuel k j r j' a,
  j <= j' -> j' < DIVERSIFIER_SPACE -> (N.to_nat (j' - j) < fuel)%nat ->
  uivk_address O k j' r = Ok a ->
  uivk_find_address O fuel k j r <> Err FindOutOfFuel.
Proof. exact find_address_finds. Qed.

Theorem C11_find_address_fuel_bound : forall O fuel k j r,
  j < DIVERSIFIER_SPACE -> (N.to_nat (DIVERSIFIER_SPACE - j) <= fuel)%nat ->
  uivk_find_address O fuel k j r <> Err FindOutOfFuel.
Proof. exact find_address_fuel_bound. Qed.

(* ---------------------------------------------------------------------------------------- *)
(** ** decoding direction of the ZIP 316 container *)

Theorem C11_compactsize_canonical : forall b v r,
  is_bytes b = true -> cs_read b = Some (v, r) -> b = cs_write v ++ r /\ is_bytes r = true.
Proof. exact cs_read_canonical. Qed.

Theorem C11_ufvk_decode_canonical : forall O net hrp raw k,
  is_bytes raw = true -> ufvk_decode O net (Bech hrp (Some raw)) = Ok k ->
  canon_on (dec_t_fvk O) (fvk_t k) -> canon_on (dec_s_fvk O) (fvk_s k) -> canon_on (dec_o_fvk O) (fvk_o k) ->
  ufvk_encode net k = Ok (hrp, raw).
Proof. exact ufvk_decode_canonical. Qed.

Theorem C11_uivk_decode_canonical : forall O net hrp raw k,
  is_bytes raw = true -> uivk_decode O net (Bech hrp (Some raw)) = Ok k ->
  canon_on (dec_t_ivk O) (ivk_t k) -> canon_on (dec_s_ivk O) (ivk_s k) -> canon_on (dec_o_ivk O) (ivk_o k) ->
  uivk_encode net k = Ok (hrp, raw).
Proof. exact uivk_decode_canonical. Qed.

Theorem C11_ufvk_decode_reencodes : forall O net hrp raw k,
  is_bytes raw = true -> ufvk_decode O net (Bech hrp (Some raw)) = Ok k ->
  exists e, ufvk_encode net k = Ok e.
Proof. exact ufvk_decode_reencodes. Qed.

Theorem C11_ufvk_decode_total : forall O net i,
  dinput_ok i ->
  (forall x, dec_t_fvk O x <> OPanic) -> (forall x, dec_s_fvk O x <> OPanic) -> (forall x, dec_o_fvk O x <> OPanic) ->
  ufvk_decode O net i <> Panic.
Proof. exact ufvk_decode_total. Qed.

Theorem C11_uivk_decode_total : forall O net i,
  dinput_ok i ->
  (forall x, dec_t_ivk O x <> OPanic) -> (forall x, dec_s_ivk O x <> OPanic) -> (forall x, dec_o_ivk O x <> OPanic) ->
  uivk_decode O net i <> Panic.
Proof. exact uivk_decode_total. Qed.

(* ---------------------------------------------------------------------------------------- *)
(** ** unified addresses on the decode path (TryFrom<unified::Address>, to_zcash_address) *)

Theorem C11_ua_decode_exact_receivers : forall doa dsa l a,
  addr_container l -> ua_try_from doa dsa l = Ok a ->
  canon_on doa (uad_o a) -> canon_on dsa (uad_s a) ->
  ua_receivers a = l /\ ua_to_items a = Ok l.
Proof. exact ua_roundtrip. Qed.

Theorem C11_ua_decode_reencodes : forall doa dsa l a,
  addr_container l -> ua_try_from doa dsa l = Ok a -> ua_to_items a = Ok (ua_receivers a).
Proof. exact ua_reencodes. Qed.

Theorem C11_ua_decode_rejects_only_bad_receivers : forall doa dsa l o s t unk,
  ua_loop doa dsa l o s t unk = Err tt ->
  existsb (fun it : item => ((fst it =? 3) && match doa (snd it) with ONone => true | _ => false end)
                            || ((fst it =? 2) && match dsa (snd it) with ONone => true | _ => false end)) l = true.
Proof. exact ua_loop_err. Qed.

Theorem C11_ua_no_orchard_roundtrip : forall dsa l a,
  addr_container l -> ua_try_from_ns dsa l = Ok a -> canon_on dsa (uad_s a) ->
  uad_o a = None /\ ua_receivers a = l /\ ua_to_items a = Ok l.
Proof. exact ua_ns_roundtrip. Qed.

Theorem C11_ua_no_orchard_is_main_with_opaque_orchard : forall dsa l s t prev,
  asc prev l -> ua_loop_ns dsa l s t [] = back_ns (ua_loop OSome dsa l None s t []).
Proof. exact ns_bridge. Qed.

(* ---------------------------------------------------------------------------------------- *)
(** ** viewing keys in a build without `transparent-inputs` (the default of zcash_keys) *)

Theorem C11_ufvk_nt_decode_canonical : forall O net hrp raw k,
  is_bytes raw = true -> ufvk_decode_nt O net (Bech hrp (Some raw)) = Ok k ->
  canon_on (dec_s_fvk O) (fvk_s k) -> canon_on (dec_o_fvk O) (fvk_o k) ->
  ufvk_encode net k = Ok (hrp, raw).
Proof. exact ufvk_decode_nt_canonical. Qed.

Theorem C11_uivk_nt_decode_canonical : forall O net hrp raw k,
  is_bytes raw = true -> uivk_decode_nt O net (Bech hrp (Some raw)) = Ok k ->
  canon_on (dec_s_ivk O) (ivk_s k) -> canon_on (dec_o_ivk O) (ivk_o k) ->
  uivk_encode net k = Ok (hrp, raw).
Proof. exact uivk_decode_nt_canonical. Qed.

Theorem C11_ufvk_nt_keeps_transparent_item : forall O net hrp raw k,
  is_bytes raw = true -> ufvk_decode_nt O net (Bech hrp (Some raw)) = Ok k ->
  net < 3 /\ hrp = hrp_of KFvk net
  /\ exists t u s1 o1,
       fvk_t k = None /\ fvk_unknown k = oapp (option_map (pair 0) t) ++ u /\ unknown_ok u
       /\ has_non_transparent (fvk_s k) (fvk_o k) u = true
       /\ rel (dec_s_fvk O) s1 (fvk_s k) /\ rel (dec_o_fvk O) o1 (fvk_o k)
       /\ raw = container_raw hrp (canon_items t s1 o1 u).
Proof. exact ufvk_decode_nt_sound. Qed.

Theorem C11_nt_narrowing_drops_kept_items : forall O k i,
  fvk_t k = None -> ufvk_to_uivk O k = Ok i ->
  ivk_t i = None /\ ivk_unknown i = []
  /\ to_container (uivk_items i)
     = if is_some (fvk_s k) || is_some (fvk_o k)
       then Ok (oapp (option_map (fun b => (2, s_fvk_ivk O b)) (fvk_s k))
                ++ oapp (option_map (fun b => (3, o_fvk_ivk O b)) (fvk_o k)))
       else Panic.
Proof. exact narrow_nt. Qed.

Theorem C11_ufvk_nt_decode_total : forall O net i,
  dinput_ok i -> (forall x, dec_s_fvk O x <> OPanic) -> (forall x, dec_o_fvk O x <> OPanic) ->
  ufvk_decode_nt O net i <> Panic.
Proof. exact ufvk_decode_nt_total. Qed.

(* ---------------------------------------------------------------------------------------- *)
(** ** string level: Bech32m, F4Jumble, Bech32 and Base58Check from the proved C10 model
       (only BLAKE2b inside F4Jumble stays a parameter: [H], [G] with byte-string outputs) *)

Theorem C11_string_layer_roundtrip : forall H G,
  (forall i l x, is_bytes (H i l x) = true) -> (forall i j x, is_bytes (G i j x) = true) ->
  forall hrp raw s, PB32b.hrp_okb hrp = true -> is_bytes raw = true ->
  string_of H G (hrp, raw) = Ok s -> dinput_of H G s = Bech hrp (Some raw).
Proof. exact string_layer_roundtrip. Qed.

Theorem C11_ufvk_string_roundtrip : forall H G,
  (forall i l x, is_bytes (H i l x) = true) -> (forall i j x, is_bytes (G i j x) = true) ->
  forall O net k s,
  net < 3 -> ufvk_wf O k -> ufvk_encodable k = true ->
  comp_len_ok KFvk (fvk_t k) (fvk_s k) (fvk_o k) -> unknown_sizes_ok (fvk_unknown k) ->
  obytes (fvk_t k) -> obytes (fvk_s k) -> obytes (fvk_o k) -> items_bytes (fvk_unknown k) ->
  ufvk_encode_str H G net k = Ok s ->
  ufvk_decode_str H G O net s = Ok k
  /\ forall net', net' <> net -> ufvk_decode_str H G O net' s = Err ENetwork.
Proof. exact ufvk_string_roundtrip. Qed.

Theorem C11_uivk_string_roundtrip : forall H G,
  (forall i l x, is_bytes (H i l x) = true) -> (forall i j x, is_bytes (G i j x) = true) ->
  forall O net k s,
  net < 3 -> uivk_wf O k -> uivk_encodable k = true ->
  comp_len_ok KIvk (ivk_t k) (ivk_s k) (ivk_o k) -> unknown_sizes_ok (ivk_unknown k) ->
  obytes (ivk_t k) -> obytes (ivk_s k) -> obytes (ivk_o k) -> items_bytes (ivk_unknown k) ->
  uivk_encode_str H G net k = Ok s ->
  uivk_decode_str H G O net s = Ok k
  /\ forall net', net' <> net -> uivk_decode_str H G O net' s = Err ENetwork.
Proof. exact uivk_string_roundtrip. Qed.

Theorem C11_legacy_string_roundtrip : forall k prim hrp payload key s,
  PB32b.hrp_okb hrp = true -> is_bytes payload = true ->
  reader k prim payload = OSome key ->
  legacy_encode_str hrp payload = Some s ->
  legacy_decode k prim hrp (binput_of s) = Ok key
  /\ forall hrp', bytes_eqb hrp hrp' = false -> legacy_decode k prim hrp' (binput_of s) = Err BHrpMismatch.
Proof. exact legacy_string_roundtrip. Qed.

Theorem C11_extfvk_string_roundtrip : forall prim net payload key s,
  net < 3 -> is_bytes payload = true -> prim payload = OSome key ->
  legacy_encode_str (nc_hrp LFvk net) payload = Some s ->
  decode_extfvk_with_network prim (binput_of s) = Ok (net, key).
Proof. exact extfvk_string_roundtrip. Qed.

Theorem C11_transparent_string_roundtrip : forall pk sh a,
  length pk = length sh -> bytes_eqb sh pk = false -> taddr_wf a ->
  is_bytes (t_encode pk sh a) = true ->
  t_decode_str pk sh (t_encode_str pk sh a) = Ok (Some a).
Proof. exact transparent_string_roundtrip. Qed.

(* ---------------------------------------------------------------------------------------- *)
(** ** non-vacuity: the hypotheses are satisfiable, the interesting branches are reachable *)

Definition demo_oracles : oracles :=
  mkOracles (fun b => b) (fun b => b) (fun b => b) (fun b => b) (fun b => b) (fun b => Some b)
            (fun k j => j :: k) (fun k j => if N.even j then Some (j :: k) else None)
            (fun k j => Some (j :: k))
            OSome OSome OSome OSome OSome OSome OSome OSome OSome (fun b => Some b).

Definition demo_uivk : uivk := mkUivk (Some [1]) (Some [2]) (Some [3]) [].

Example C11_demo_all_pools :
  uivk_address demo_oracles demo_uivk 4 AllAvailableKeys = Ok (mkUa (Some [4; 3]) (Some [4; 2]) (Some [4; 1])).
Proof. reflexivity. Qed.
Example C11_demo_invalid_sapling :
  uivk_address demo_oracles demo_uivk 5 AllAvailableKeys = Err (InvalidSaplingDiversifierIndex 5).
Proof. reflexivity. Qed.
Example C11_demo_allow_skips_invalid :
  uivk_address demo_oracles demo_uivk 5 (Custom (mkReqs Allow Allow Allow)) = Ok (mkUa (Some [5; 3]) None (Some [5; 1])).
Proof. reflexivity. Qed.
Example C11_demo_transparent_boundary :
  uivk_address demo_oracles demo_uivk 2147483648 AllAvailableKeys = Err (InvalidTransparentChildIndex 2147483648).
Proof. reflexivity. Qed.
Example C11_demo_find :
  uivk_find_address demo_oracles 10 demo_uivk 5 AllAvailableKeys = Ok (mkUa (Some [6; 3]) (Some [6; 2]) (Some [6; 1]), 6).
Proof. reflexivity. Qed.
Example C11_demo_find_crosses_boundary :
  uivk_find_address demo_oracles 10 demo_uivk 2147483647 AllAvailableKeys
  = Err (InvalidTransparentChildIndex 2147483648).
Proof. reflexivity. Qed.
Example C11_demo_require_missing :
  uivk_address demo_oracles (mkUivk None (Some [2]) None []) 4 (Custom (mkReqs Require Allow Allow))
  = Err ShieldedReceiverRequired.
Proof. reflexivity. Qed.
Example C11_demo_transparent_only_key :
  uivk_address demo_oracles (mkUivk (Some [1]) None None []) 4 (Custom (mkReqs Allow Allow Require))
  = Err ShieldedReceiverRequired.
Proof. reflexivity. Qed.

Definition demo_bytes (n : nat) (x : N) : bytes := repeat x n.
Definition demo_usk : usk := mkUsk (demo_bytes 74 7) (demo_bytes 169 8) (demo_bytes 32 9).
Example C11_demo_usk_wf : usk_wf demo_oracles demo_usk.
Proof. repeat split; try reflexivity. discriminate. Qed.
Example C11_demo_usk_roundtrip : usk_from_bytes demo_oracles (usk_to_bytes demo_usk) = Ok demo_usk.
Proof. vm_compute. reflexivity. Qed.

Definition demo_ufvk : ufvk :=
  mkUfvk (Some (demo_bytes 65 1)) (Some (demo_bytes 128 2)) None [(5, [1; 2; 3]); (65535, [])].
Example C11_demo_ufvk_wf : ufvk_wf demo_oracles demo_ufvk /\ ufvk_encodable demo_ufvk = true
  /\ comp_len_ok KFvk (fvk_t demo_ufvk) (fvk_s demo_ufvk) (fvk_o demo_ufvk)
  /\ unknown_sizes_ok (fvk_unknown demo_ufvk).
Proof. vm_compute. repeat split; try discriminate; try reflexivity. Qed.
Example C11_demo_ufvk_roundtrip :
  match ufvk_encode 1 demo_ufvk with
  | Ok (hrp, raw) => ufvk_decode demo_oracles 1 (Bech hrp (Some raw)) = Ok demo_ufvk
  | _ => False
  end.
Proof. vm_compute. reflexivity. Qed.
Example C11_demo_transparent_only_encode_panics :
  ufvk_encode 0 (mkUfvk (Some (demo_bytes 65 1)) None None []) = Panic.
Proof. reflexivity. Qed.

(** string level: the encode-did-not-panic hypothesis is satisfiable and the round trip computes *)
Definition demo_H : N -> nat -> bytes -> bytes := fun i l x => repeat (i + 1) l.
Definition demo_G : N -> N -> bytes -> bytes := fun i j x => repeat (i + j + 2) 64.
Example C11_demo_ufvk_string_roundtrip :
  match ufvk_encode_str demo_H demo_G 1 demo_ufvk with
  | Ok s => ufvk_decode_str demo_H demo_G demo_oracles 1 s = Ok demo_ufvk
            /\ ufvk_decode_str demo_H demo_G demo_oracles 0 s = Err ENetwork
  | _ => False
  end.
Proof. vm_compute. split; reflexivity. Qed.
Example C11_demo_transparent_string_roundtrip :
  t_decode_str (nc_pubkey 0) (nc_script 0) (t_encode_str (nc_pubkey 0) (nc_script 0) (SH (demo_bytes 20 7)))
  = Ok (Some (SH (demo_bytes 20 7))).
Proof. vm_compute. reflexivity. Qed.
Example C11_demo_find_terminates :
  uivk_find_address demo_oracles 2 demo_uivk 5 AllAvailableKeys <> Err FindOutOfFuel.
Proof. vm_compute. discriminate. Qed.
