(** C11 — proofs about gap_limits.rs: every address of a generated list belongs to the key at
    its index, the indices are exactly those of the walked range. For all oracles. *)
From V.Lib Require Import Base Hex.
From V.Gen Require Import C11Consts.
From V.C11 Require Import Model Spec Gap ProofsAddr.
From Coq Require Import ZifyBool.
Local Open Scope N_scope.

Lemma nhmax_val : NON_HARDENED_MAX = 2147483647. Proof. reflexivity. Qed.

(** ** the range iterator *)
Fixpoint upfrom (start : N) (n : nat) : list N :=
  match n with 0%nat => [] | S m => start :: upfrom (start + 1) m end.

Lemma nh_iter_S f cur end_ :
  nh_iter (S f) cur end_
  = cur :: (if (cur + 1 <=? NON_HARDENED_MAX) && (cur + 1 <? end_) then nh_iter f (cur + 1) end_ else []).
Proof. reflexivity. Qed.

Lemma nh_iter_spec : forall fuel cur end_,
  end_ <= NON_HARDENED_MAX -> (N.to_nat (end_ - cur) < S fuel)%nat ->
  nh_iter (S fuel) cur end_ = upfrom cur (if cur <? end_ then N.to_nat (end_ - cur) else 1%nat).
Proof.
  induction fuel as [|fuel IH]; intros cur end_ He Hf; rewrite nh_iter_S.
  - destruct (cur <? end_) eqn:E; [lia|].
    destruct ((cur + 1 <=? NON_HARDENED_MAX) && (cur + 1 <? end_)) eqn:F; [lia | reflexivity].
  - destruct ((cur + 1 <=? NON_HARDENED_MAX) && (cur + 1 <? end_)) eqn:F.
    + rewrite IH by lia.
      destruct (cur <? end_) eqn:E; [|lia]. destruct (cur + 1 <? end_) eqn:G; [|lia].
      replace (N.to_nat (end_ - cur)) with (S (N.to_nat (end_ - (cur + 1)))) by lia. reflexivity.
    + destruct (cur <? end_) eqn:E.
      * assert (end_ = cur + 1) by lia. subst end_.
        replace (N.to_nat (cur + 1 - cur)) with 1%nat by lia. reflexivity.
      * reflexivity.
Qed.

(** the iterator yields [start .. end-1]; for an empty (or inverted) range it still yields [start] *)
Theorem nh_range_spec start end_ :
  end_ <= NON_HARDENED_MAX ->
  nh_range start end_ = upfrom start (if start <? end_ then N.to_nat (end_ - start) else 1%nat).
Proof. intros H. unfold nh_range. apply nh_iter_spec; [exact H | lia]. Qed.

Theorem nh_range_never_empty start end_ : nh_range start end_ <> [].
Proof. unfold nh_range. cbn [nh_iter]. discriminate. Qed.

Theorem nh_saturating_add_bound i d : nh_saturating_add i d <= NON_HARDENED_MAX.
Proof.
  unfold nh_saturating_add. destruct (NON_HARDENED_MAX <? N.min (i + d) 4294967295) eqn:E; lia.
Qed.

Theorem limit_for_table g scope :
  limit_for g scope = if scope =? 0 then Some (gl_external g) else if scope =? 1 then Some (gl_internal g)
                      else if scope =? 2 then Some (gl_ephemeral g) else None.
Proof. reflexivity. Qed.

(** ** generated entries belong to the key *)
Section Gap.
Variable O : oracles.
Variable sivk : bytes -> N -> option bytes.

Lemma gen_addrs_belongs k pk r scope i a ta :
  gen_addrs O sivk k pk r scope i = Ok (a, ta) -> spec_entry O sivk k pk r scope (a, ta, i).
Proof.
  unfold gen_addrs, spec_entry, spec_scope_key.
  destruct (scope =? 0) eqn:S0.
  - apply N.eqb_eq in S0. subst scope. unfold generate_external_address.
    destruct (ivk_t k) as [tivk|]; [|discriminate].
    destruct (t_addr O tivk i) as [ta'|] eqn:T; [|discriminate].
    rewrite uivk_address_spec.
    destruct (spec_address O k i r) as [u|e|] eqn:A.
    + intros H; inversion H; subst. split; [exists tivk; auto|]. auto.
    + destruct e; try discriminate. intros H; inversion H; subst.
      split; [exists tivk; auto|]. auto.
    + discriminate.
  - destruct ((scope =? 1) || (scope =? 2)); [|discriminate].
    destruct (sivk pk scope) as [ivk|] eqn:K; [|discriminate].
    destruct (t_addr O ivk i) as [ta'|] eqn:T; [|discriminate].
    intros H; inversion H; subst. split; [exists ivk; auto|].
    split; [reflexivity|]. intros ->. discriminate.
Qed.

Lemma collect_spec k pk r scope : forall l out,
  collect O sivk k pk r scope l = Ok out ->
  map snd out = l /\ Forall (spec_entry O sivk k pk r scope) out.
Proof.
  induction l as [|i l IH]; intros out H; cbn [collect] in H.
  - inversion H; subst. split; [reflexivity | constructor].
  - destruct (gen_addrs O sivk k pk r scope i) as [[a ta]|e|] eqn:G; try discriminate.
    destruct (collect O sivk k pk r scope l) as [tl|e|] eqn:C; try discriminate.
    inversion H; subst. destruct (IH tl eq_refl) as [M F]. split.
    + cbn. rewrite M. reflexivity.
    + constructor; [apply gen_addrs_belongs; exact G | exact F].
Qed.

(** a generated list covers exactly the indices of the range, and every entry — transparent
    address and unified (or fallback) address — is the one the key derives at that index *)
Theorem generate_address_list_belongs k f scope r start end_ rk out :
  generate_address_list O sivk k f scope r start end_ rk = Ok out ->
  match match f with Some fk => fvk_t fk | None => None end with
  | None => out = []
  | Some pk => map snd out = nh_range start end_ /\ Forall (spec_entry O sivk k pk r scope) out
  end.
Proof.
  unfold generate_address_list.
  destruct (match f with Some fk => fvk_t fk | None => None end) as [pk|].
  - apply collect_spec.
  - destruct (((scope =? 1) || (scope =? 2)) && rk); [discriminate|]. intros H; inversion H; reflexivity.
Qed.

(** only the three standard scopes produce addresses *)
Lemma gen_addrs_scope k pk r scope i x : gen_addrs O sivk k pk r scope i = Ok x -> scope < 3.
Proof.
  unfold gen_addrs. destruct (scope =? 0) eqn:A; [lia|].
  destruct ((scope =? 1) || (scope =? 2)) eqn:B; [lia | discriminate].
Qed.

Theorem generate_address_list_scopes k f scope r start end_ rk out :
  generate_address_list O sivk k f scope r start end_ rk = Ok out -> out <> [] -> scope < 3.
Proof.
  unfold generate_address_list.
  destruct (match f with Some fk => fvk_t fk | None => None end) as [pk|].
  - destruct (nh_range start end_) as [|i l]; cbn [collect].
    + intros H; inversion H; congruence.
    + destruct (gen_addrs O sivk k pk r scope i) as [[a ta]|e|] eqn:G; try discriminate.
      intros _ _. eapply gen_addrs_scope; exact G.
  - destruct (((scope =? 1) || (scope =? 2)) && rk); [discriminate|]. intros H; inversion H; congruence.
Qed.

(** [generate_gap_addresses]: what is stored is the list for the gap range of the scope *)
Theorem generate_gap_addresses_belongs g k f scope r rk find st out :
  generate_gap_addresses O sivk g k f scope r rk find st = Ok (Some out) ->
  exists gl gs, limit_for g scope = Some gl /\ find = Ok (Some gs) /\ st = true
    /\ generate_address_list O sivk k f scope r gs (nh_saturating_add gs gl) rk = Ok out.
Proof.
  unfold generate_gap_addresses. destruct (limit_for g scope) as [gl|]; [|discriminate].
  destruct find as [[gs|]| |]; try discriminate.
  destruct (generate_address_list O sivk k f scope r gs (nh_saturating_add gs gl) rk) as [l| |] eqn:E; try discriminate.
  destruct st; [|discriminate]. intros H; inversion H; subst. exists gl, gs. auto.
Qed.

Theorem generate_gap_addresses_nothing g k f scope r rk find st :
  generate_gap_addresses O sivk g k f scope r rk find st = Ok None -> find = Ok None.
Proof.
  unfold generate_gap_addresses. destruct (limit_for g scope) as [gl|]; [|discriminate].
  destruct find as [[gs|]| |]; try discriminate; [|reflexivity].
  destruct (generate_address_list O sivk k f scope r gs (nh_saturating_add gs gl) rk); [|discriminate|discriminate].
  destruct st; discriminate.
Qed.

End Gap.
