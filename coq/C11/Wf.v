(** C11 — domain of the theorems as a boolean on cases: byte strings are byte strings, key
    components have the lengths their Rust types fix, diversifier indices fit 11 bytes, custom
    requests were built through the public constructors, and F4Jumble outputs are >= 48 bytes. *)
From V.Lib Require Import Base Hex.
From V.Gen Require Import C11Consts.
From V.C11 Require Import Model Spec Tab Eqb Legacy CorrLegacy Gap CorrGap Extra CorrExtra Corr.
Local Open Scope N_scope.

Definition okb (n : N) (b : bytes) : bool := is_bytes b && (blen b =? n).
Definition ookb (n : N) (o : option bytes) : bool := match o with Some b => okb n b | None => true end.
(** unknown items of a key: typecodes 4 .. MAX_TYPECODE strictly ascending, data within the
    CompactSize bound *)
Fixpoint asc_okb (prev : N) (l : list item) : bool :=
  match l with
  | [] => true
  | (c, d) :: r => (prev <? c) && (c <=? MAX_TYPECODE) && (blen d <=? MAX_COMPACT_SIZE) && is_bytes d && asc_okb c r
  end.
Definition items_ok (l : list item) : bool := asc_okb 3 l.

Definition wf_usk (k : usk) : bool :=
  okb USK_P2PKH_LEN (usk_t k) && okb USK_SAPLING_LEN (usk_s k) && okb USK_ORCHARD_LEN (usk_o k).
Definition wf_ufvk (k : ufvk) : bool :=
  ookb FVK_P2PKH_LEN (fvk_t k) && ookb FVK_SAPLING_LEN (fvk_s k) && ookb FVK_ORCHARD_LEN (fvk_o k)
  && items_ok (fvk_unknown k).
Definition wf_uivk (k : uivk) : bool :=
  ookb IVK_P2PKH_LEN (ivk_t k) && ookb IVK_SAPLING_LEN (ivk_s k) && ookb IVK_ORCHARD_LEN (ivk_o k)
  && items_ok (ivk_unknown k).
Definition wf_lvl (k : keylvl) : bool :=
  match k with LUsk u => wf_usk u | LUfvk f => wf_ufvk f | LUivk i => wf_uivk i end.

Definition wf_tab (t : otab) : bool :=
  forallb (fun e => match e with
                    | (f, k, i, r) => (1 <=? f) && (f <=? 23) && is_bytes k && (i <? DIVERSIFIER_SPACE)
                                      && match r with OSome b => is_bytes b | _ => true end
                    end) t.

Definition wf_request (r : request) : bool :=
  match r with AllAvailableKeys => true | Custom q => shielded_possible q end.

Definition wf_dinput (i : dinput) : bool :=
  match i with
  | NotBech32 => true
  | Bech hrp raw => is_bytes hrp && (length hrp <=? 83)%nat
                    && match raw with Some b => is_bytes b && (48 <=? length b)%nat | None => true end
  end.

Definition gtab_ok (t : otab) : bool :=
  forallb (fun e => match e with
                    | (f, k, i, r) => (1 <=? f) && (f <=? 22) && is_bytes k && (i <? DIVERSIFIER_SPACE)
                                      && match r with OSome b => is_bytes b | _ => true end
                    end) t.
Definition gwf (c : gcase) : bool :=
  match c with
  | GLimit e i p s _ => (e <? 4294967296) && (i <? 4294967296) && (p <? 4294967296) && (s <=? NON_HARDENED_MAX)
  | GList t k f scope r s e _ _ =>
      gtab_ok t && wf_uivk k && match f with Some fk => wf_ufvk fk | None => true end
      && (scope <=? NON_HARDENED_MAX) && wf_request r && (s <=? NON_HARDENED_MAX) && (e <=? NON_HARDENED_MAX)
  | GGen t g k f scope r _ find _ _ =>
      gtab_ok t && wf_uivk k && match f with Some fk => wf_ufvk fk | None => true end
      && (scope <=? NON_HARDENED_MAX) && wf_request r
      && (gl_external g <? 4294967296) && (gl_internal g <? 4294967296) && (gl_ephemeral g <? 4294967296)
      && match find with Ok (Some gs) => gs <=? NON_HARDENED_MAX | Panic => false | _ => true end
  end.

Definition ores_isb (r : ores) (b : bytes) : bool := match r with OSome x => bytes_eqb x b | _ => false end.
Definition fixb (t : otab) (f : N) (o : option bytes) : bool :=
  match o with Some b => ores_isb (look_ores t f b 0) b | None => true end.

(** what the harness claims with [orig] *)
Definition usk_claim (t : otab) (k : usk) (b : bytes) : bool :=
  bytes_eqb b (usk_to_bytes k)
  && ores_isb (look_ores t 10 (usk_o k) 0) (usk_o k) && ores_isb (look_ores t 11 (usk_s k) 0) (usk_s k)
  && ores_isb (look_ores t 12 (usk_t k) 0) (usk_t k)
  && is_some (look_opt t 23 (usk_t k) 0).
Definition ufvk_claim (t : otab) (net : N) (k : ufvk) (i : dinput) : bool :=
  match i with
  | Bech hrp (Some raw) => outcome_eqb enc_eqb unit_eqb (ufvk_encode net k) (Ok (hrp, raw))
  | _ => false
  end
  && fixb t 15 (fvk_t k) && fixb t 14 (fvk_s k) && fixb t 13 (fvk_o k)
  && match fvk_t k with Some pk => is_some (look_opt t 6 pk 0) | None => true end.
Definition uivk_claim (t : otab) (net : N) (k : uivk) (i : dinput) : bool :=
  match i with
  | Bech hrp (Some raw) => outcome_eqb enc_eqb unit_eqb (uivk_encode net k) (Ok (hrp, raw))
  | _ => false
  end
  && fixb t 18 (ivk_t k) && fixb t 17 (ivk_s k) && fixb t 16 (ivk_o k).

Definition enc_ok (e : bytes * bytes) : bool := is_bytes (fst e) && is_bytes (snd e).

(** the receiver list of a unified::Address as the container guarantees it: typecodes strictly
    ascending, P2PKH and P2SH not both, not only transparent, known items of their fixed lengths *)
Definition addr_item_okb (it : item) : bool :=
  (fst it <=? MAX_TYPECODE) && is_bytes (snd it) && (blen (snd it) <=? MAX_COMPACT_SIZE)
  && match addr_item_len (fst it) with Some n => blen (snd it) =? n | None => true end.
Definition addr_items_ok (l : list item) : bool :=
  forallb addr_item_okb l
  && match try_from_items_internal l with Ok _ => true | _ => false end.

Definition xtab_ok (t : otab) : bool :=
  forallb (fun e => match e with
                    | (f, k, i, r) => (1 <=? f) && (f <=? 25) && is_bytes k && (i <? DIVERSIFIER_SPACE)
                                      && match r with OSome b => is_bytes b | _ => true end
                    end) t.

Definition wf_uaddr (a : uaddr) : bool :=
  ookb 43 (uad_o a) && ookb 43 (uad_s a)
  && match uad_t a with Some (PKH h) | Some (SH h) => okb 20 h | None => true end
  && forallb (fun it => is_bytes (snd it)) (uad_unknown a).

(** keys as the profile without `transparent-inputs` produces them: no transparent component;
    the unknown items may start with the uninterpreted P2PKH item *)
Definition nt_unknown_ok (l : list item) : bool := forallb (fun it => is_bytes (snd it)) l.

Definition xwf (c : xcase) : bool :=
  match c with
  | XUa t items o =>
      xtab_ok t && addr_items_ok items
      && match o with
         | Ok (a, re) => wf_uaddr a && forallb (fun it => is_bytes (snd it)) re
         | _ => true
         end
  | XFvkNt t net i o =>
      wf_tab t && (net <? 3) && wf_dinput i
      && match o with
         | Ok (k, e) => ookb FVK_SAPLING_LEN (fvk_s k) && ookb FVK_ORCHARD_LEN (fvk_o k)
                        && nt_unknown_ok (fvk_unknown k) && enc_ok e
         | _ => true
         end
  | XIvkNt t net i o =>
      wf_tab t && (net <? 3) && wf_dinput i
      && match o with
         | Ok (k, e) => ookb IVK_SAPLING_LEN (ivk_s k) && ookb IVK_ORCHARD_LEN (ivk_o k)
                        && nt_unknown_ok (ivk_unknown k) && enc_ok e
         | _ => true
         end
  | XNarrowNt t k o =>
      wf_tab t && negb (is_some (fvk_t k)) && ookb FVK_SAPLING_LEN (fvk_s k) && ookb FVK_ORCHARD_LEN (fvk_o k)
      && nt_unknown_ok (fvk_unknown k)
      && match o with Ok l => forallb (fun it => is_bytes (snd it)) l | _ => true end
  | XUaNs t items o =>
      xtab_ok t && addr_items_ok items
      && match o with
         | Ok (a, re) => wf_uaddr a && forallb (fun it => is_bytes (snd it)) re
         | _ => true
         end
  end.

Definition wf_case (c : case) : bool :=
  match c with
  | CIntersect _ _ _ | CReqsNew _ _ _ _ | CReqsUnsafeNew _ _ _ _ | CCrypto _ _ => true
  | CLegacy l => lwf l
  | CGap g => gwf g
  | CExtra x => xwf x
  | CReqsIntersect a b _ => shielded_possible a && shielded_possible b
  | CRecvReq k r _ => wf_uivk k && wf_request r
  | CUskToUfvk t k _ => wf_tab t && wf_usk k
  | CUfvkToUivk t k _ => wf_tab t && wf_ufvk k
  | CUskEncode k _ => wf_usk k
  | CUskDecode t orig b _ =>
      wf_tab t && is_bytes b && match orig with Some k => wf_usk k && usk_claim t k b | None => true end
  | CUfvkEncode net k _ => (net <? 3) && wf_ufvk k
  | CUfvkDecode t net orig i o =>
      wf_tab t && (net <? 3) && wf_dinput i
      && match orig with Some k => wf_ufvk k && ufvk_claim t net k i | None => true end
      && match o with Ok (k, e) => wf_ufvk k && enc_ok e | _ => true end
  | CUivkEncode net k _ => (net <? 3) && wf_uivk k
  | CUivkDecode t net orig i o =>
      wf_tab t && (net <? 3) && wf_dinput i
      && match orig with Some k => wf_uivk k && uivk_claim t net k i | None => true end
      && match o with Ok (k, e) => wf_uivk k && enc_ok e | _ => true end
  | CAddr t k j r _ => wf_tab t && wf_lvl k && (j <? DIVERSIFIER_SPACE) && wf_request r
  | CFind t k j r os =>
      wf_tab t && wf_lvl k && (j <? DIVERSIFIER_SPACE) && wf_request r
      && forallb (fun o : find_res => match o with Err FindOutOfFuel => false | _ => true end) os
  end.
