(** C11 — the boolean equalities of Eqb.v decide equality. *)
From V.Lib Require Import Base Hex.
From V.Gen Require Import C11Consts.
From V.C11 Require Import Model Spec Eqb.
Local Open Scope N_scope.

Lemma bytes_eqb_spec a : forall b, bytes_eqb a b = true <-> a = b.
Proof.
  induction a as [|x a IH]; intros [|y b]; cbn; try (split; congruence).
  rewrite andb_true_iff, N.eqb_eq, IH. split; [intros [-> ->]; reflexivity | intros H; inversion H; auto].
Qed.

Lemma pair_eqb_spec {A B} (ea : A -> A -> bool) (eb : B -> B -> bool) :
  (forall a b, ea a b = true <-> a = b) -> (forall a b, eb a b = true <-> a = b) ->
  forall x y, pair_eqb ea eb x y = true <-> x = y.
Proof.
  intros Ha Hb [a b] [a' b']. unfold pair_eqb. cbn. rewrite andb_true_iff, Ha, Hb.
  split; [intros [-> ->]; reflexivity | intros H; inversion H; auto].
Qed.

Lemma outcome_eqb_spec {A E} (ea : A -> A -> bool) (ee : E -> E -> bool) :
  (forall a b, ea a b = true <-> a = b) -> (forall a b, ee a b = true <-> a = b) ->
  forall x y, outcome_eqb ea ee x y = true <-> x = y.
Proof.
  intros Ha He [a|e|] [b|f|]; cbn; try (split; congruence).
  - rewrite Ha. split; congruence.
  - rewrite He. split; congruence.
Qed.

Lemma unit_eqb_spec (a b : unit) : unit_eqb a b = true <-> a = b.
Proof. destruct a, b. cbn. tauto. Qed.

Lemma obytes_eqb_spec a b : obytes_eqb a b = true <-> a = b.
Proof. apply option_eqb_spec, bytes_eqb_spec. Qed.

Lemma item_eqb_spec a b : item_eqb a b = true <-> a = b.
Proof.
  destruct a as [t d], b as [t' d']. unfold item_eqb. cbn. rewrite andb_true_iff, N.eqb_eq, bytes_eqb_spec.
  split; [intros [-> ->]; reflexivity | intros H; inversion H; auto].
Qed.
Lemma items_eqb_spec a b : items_eqb a b = true <-> a = b.
Proof. apply list_eqb_spec, item_eqb_spec. Qed.

Lemma tc_eqb_spec a b : tc_eqb a b = true <-> a = b.
Proof. destruct a, b; cbn; try (split; congruence). rewrite N.eqb_eq. split; congruence. Qed.

Lemma req_eqb_spec a b : req_eqb a b = true <-> a = b.
Proof. destruct a, b; cbn; split; congruence. Qed.
Lemma rr_err_eqb_spec a b : rr_err_eqb a b = true <-> a = b.
Proof. destruct a, b; cbn; split; congruence. Qed.
Lemma reqs_eqb_spec a b : reqs_eqb a b = true <-> a = b.
Proof.
  destruct a as [x y z], b as [x' y' z']. unfold reqs_eqb. cbn.
  rewrite !andb_true_iff, !req_eqb_spec. split; [intros [[-> ->] ->]; reflexivity | intros H; inversion H; auto].
Qed.

Lemma usk_eqb_spec a b : usk_eqb a b = true <-> a = b.
Proof.
  destruct a as [x y z], b as [x' y' z']. unfold usk_eqb. cbn.
  rewrite !andb_true_iff, !bytes_eqb_spec. split; [intros [[-> ->] ->]; reflexivity | intros H; inversion H; auto].
Qed.
Lemma ufvk_eqb_spec a b : ufvk_eqb a b = true <-> a = b.
Proof.
  destruct a as [x y z u], b as [x' y' z' u']. unfold ufvk_eqb. cbn.
  rewrite !andb_true_iff, !obytes_eqb_spec, items_eqb_spec.
  split; [intros [[[-> ->] ->] ->]; reflexivity | intros H; inversion H; auto].
Qed.
Lemma uivk_eqb_spec a b : uivk_eqb a b = true <-> a = b.
Proof.
  destruct a as [x y z u], b as [x' y' z' u']. unfold uivk_eqb. cbn.
  rewrite !andb_true_iff, !obytes_eqb_spec, items_eqb_spec.
  split; [intros [[[-> ->] ->] ->]; reflexivity | intros H; inversion H; auto].
Qed.
Lemma ua_eqb_spec a b : ua_eqb a b = true <-> a = b.
Proof.
  destruct a as [x y z], b as [x' y' z']. unfold ua_eqb. cbn.
  rewrite !andb_true_iff, !obytes_eqb_spec. split; [intros [[-> ->] ->]; reflexivity | intros H; inversion H; auto].
Qed.

Lemma dec_err_eqb_spec a b : dec_err_eqb a b = true <-> a = b.
Proof.
  destruct a, b; cbn; try (split; congruence);
    rewrite ?andb_true_iff, ?tc_eqb_spec, ?N.eqb_eq; split; try congruence;
    try (intros [-> ->]; reflexivity); intros H; inversion H; auto.
Qed.
Lemma parse_err_eqb_spec a b : parse_err_eqb a b = true <-> a = b.
Proof. destruct a, b; cbn; try (split; congruence); rewrite N.eqb_eq; split; congruence. Qed.
Lemma derr_eqb_spec a b : derr_eqb a b = true <-> a = b.
Proof.
  destruct a, b; cbn; try (split; congruence);
    rewrite ?parse_err_eqb_spec, ?dec_err_eqb_spec; split; congruence.
Qed.
Lemma aerr_eqb_spec a b : aerr_eqb a b = true <-> a = b.
Proof.
  destruct a, b; cbn; try (split; congruence); rewrite ?N.eqb_eq, ?tc_eqb_spec; split; congruence.
Qed.
Lemma enc_eqb_spec a b : enc_eqb a b = true <-> a = b.
Proof.
  destruct a as [x y], b as [x' y']. unfold enc_eqb. cbn. rewrite andb_true_iff, !bytes_eqb_spec.
  split; [intros [-> ->]; reflexivity | intros H; inversion H; auto].
Qed.
Lemma addr_res_eqb_spec a b : addr_res_eqb a b = true <-> a = b.
Proof. apply outcome_eqb_spec; [apply ua_eqb_spec | apply aerr_eqb_spec]. Qed.
Lemma N_eqb_spec (a b : N) : (a =? b) = true <-> a = b.
Proof. apply N.eqb_eq. Qed.
Lemma find_res_eqb_spec a b : find_res_eqb a b = true <-> a = b.
Proof.
  apply outcome_eqb_spec; [apply pair_eqb_spec; [apply ua_eqb_spec | apply N_eqb_spec] | apply aerr_eqb_spec].
Qed.

(** reflexivity, from the specs *)
Lemma spec_refl {A} (e : A -> A -> bool) : (forall a b, e a b = true <-> a = b) -> forall a, e a a = true.
Proof. intros H a. apply H. reflexivity. Qed.
