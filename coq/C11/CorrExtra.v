(** C11 — correspondence cases for the unified-address decode path and for viewing-key decoding
    in a build without `transparent-inputs`. *)
From V.Lib Require Import Base Hex.
From V.Gen Require Import C11Consts.
From V.C11 Require Import Model Spec Tab Eqb Legacy CorrLegacy Extra.
Local Open Scope N_scope.

(** primitive receiver decoders: table ids 24 orchard::Address::from_raw_address_bytes,
    25 sapling::PaymentAddress::from_bytes *)
Definition doa_of (t : otab) : bytes -> ores := fun d => look_ores t 24 d 0.
Definition dsa_of (t : otab) : bytes -> ores := fun d => look_ores t 25 d 0.

Definition uaddr_eqb (a b : uaddr) : bool :=
  obytes_eqb (uad_o a) (uad_o b) && obytes_eqb (uad_s a) (uad_s b)
  && option_eqb taddr_eqb (uad_t a) (uad_t b) && items_eqb (uad_unknown a) (uad_unknown b).

Inductive xcase :=
(* UnifiedAddress::try_from(unified::Address) on the given receiver list, then to_zcash_address:
   the address seen and the receiver list it re-encodes to *)
| XUa (t : otab) (items : list item) (o : outcome (uaddr * list item) unit)
(* UnifiedFullViewingKey::decode + encode / UnifiedIncomingViewingKey::decode + encode in the
   profile without `transparent-inputs` *)
| XFvkNt (t : otab) (net : N) (i : dinput) (o : outcome (ufvk * (bytes * bytes)) derr)
| XIvkNt (t : otab) (net : N) (i : dinput) (o : outcome (uivk * (bytes * bytes)) derr)
(* the same profile: to_unified_incoming_viewing_key().encode() of a decoded UFVK — the item
   list of the derived UIVK *)
| XNarrowNt (t : otab) (k : ufvk) (o : outcome (list item) unit)
(* UnifiedAddress::try_from + to_zcash_address in the profile without `orchard`: the address as
   that build holds it (no Orchard receiver, raw unknown items) and the re-encoded receiver list *)
| XUaNs (t : otab) (items : list item) (o : outcome (uaddr * list item) unit).

Definition ua_model (t : otab) (items : list item) : outcome (uaddr * list item) unit :=
  match ua_try_from (doa_of t) (dsa_of t) items with
  | Ok a => match ua_to_items a with Ok l => Ok (a, l) | _ => Panic end
  | Err e => Err e
  | Panic => Panic
  end.

Definition narrow_model (t : otab) (k : ufvk) : outcome (list item) unit :=
  match ufvk_to_uivk (orc_of t) k with
  | Ok i => to_container (uivk_items i)
  | _ => Panic
  end.

(** the items a narrowed key may have: the external IVKs of the FVK items the build interpreted —
    nothing of what it merely kept (unknown items, the uninterpreted P2PKH item) *)
Definition narrow_spec (t : otab) (k : ufvk) : list item :=
  oapp (option_map (fun b => (2, look_bytes t 5 b 0)) (fvk_s k))
  ++ oapp (option_map (fun b => (3, look_bytes t 4 b 0)) (fvk_o k)).

Definition ua_model_ns (t : otab) (items : list item) : outcome (uaddr * list item) unit :=
  match ua_try_from_ns (dsa_of t) items with
  | Ok a => match ua_to_items a with Ok l => Ok (a, l) | _ => Panic end
  | Err e => Err e
  | Panic => Panic
  end.

Definition xrun (c : xcase) : bool :=
  match c with
  | XUa t items o => outcome_eqb (pair_eqb uaddr_eqb items_eqb) unit_eqb (ua_model t items) o
  | XFvkNt t net i o =>
      outcome_eqb (pair_eqb ufvk_eqb enc_eqb) derr_eqb
        (with_reenc (ufvk_encode net) (ufvk_decode_nt (orc_of t) net i)) o
  | XIvkNt t net i o =>
      outcome_eqb (pair_eqb uivk_eqb enc_eqb) derr_eqb
        (with_reenc (uivk_encode net) (uivk_decode_nt (orc_of t) net i)) o
  | XNarrowNt t k o => outcome_eqb items_eqb unit_eqb (narrow_model t k) o
  | XUaNs t items o => outcome_eqb (pair_eqb uaddr_eqb items_eqb) unit_eqb (ua_model_ns t items) o
  end.

(** some shielded receiver of the list is rejected by its primitive decoder *)
Definition some_rejected (t : otab) (items : list item) : bool :=
  existsb (fun it => ((fst it =? 3) && match doa_of t (snd it) with ONone => true | _ => false end)
                     || ((fst it =? 2) && match dsa_of t (snd it) with ONone => true | _ => false end)) items.

(** The property: a decoded unified address has exactly the receivers of the encoding — kind of
    the transparent receiver and unknown receivers included — and re-encodes to the same list;
    a decoded viewing key re-encodes to the string it came from, whatever items the build could
    interpret. *)
Definition xprop (c : xcase) : bool :=
  match c with
  | XUa t items o =>
      match o with
      | Ok (a, re) =>
          if tab_canonical t then items_eqb (ua_receivers a) items && items_eqb re items else true
      | Err _ => some_rejected t items
      | Panic => tab_has_panic t
      end
  | XFvkNt t net i o =>
      match i, o with
      | _, Panic => tab_has_panic t
      | Bech hrp (Some raw), Ok (_, e) => if tab_canonical t then enc_eqb (hrp, raw) e else true
      | _, Ok _ => false
      | _, Err _ => true
      end
  | XIvkNt t net i o =>
      match i, o with
      | _, Panic => tab_has_panic t
      | Bech hrp (Some raw), Ok (_, e) => if tab_canonical t then enc_eqb (hrp, raw) e else true
      | _, Ok _ => false
      | _, Err _ => true
      end
  | XNarrowNt t k o =>
      match o with
      | Ok l => items_eqb l (narrow_spec t k)
      | Err _ => false
      | Panic => negb (is_some (fvk_s k) || is_some (fvk_o k))   (* nothing to encode *)
      end
  | XUaNs t items o =>
      (* no Orchard receiver is reported; the receiver list (the opaque Orchard item included,
         under typecode 3) and its re-encoding are the input list *)
      match o with
      | Ok (a, re) =>
          negb (is_some (uad_o a))
          && (if tab_canonical t then items_eqb (ua_receivers a) items && items_eqb re items else true)
      | Err _ => some_rejected t items
      | Panic => tab_has_panic t
      end
  end.

Definition xtag (c : xcase) : N :=
  match c with
  | XUa _ _ o =>
      6000 + match o with
             | Ok (a, _) => (match uad_t a with None => 0 | Some (PKH _) => 1 | Some (SH _) => 2 end)
                            + 3 * (if is_some (uad_o a) then 1 else 0) + 6 * (if is_some (uad_s a) then 1 else 0)
                            + 12 * (match uad_unknown a with [] => 0 | _ => 1 end)
             | Err _ => 30 | Panic => 31
             end
  | XFvkNt _ _ _ o =>
      6100 + match o with
             | Ok (k, _) => match fvk_unknown k with (0, _) :: _ => 1 | _ => 0 end
             | Err (EParse _) => 2 | Err ENetwork => 3 | Err (EKey _) => 4 | Panic => 5
             end
  | XIvkNt _ _ _ o =>
      6200 + match o with
             | Ok (k, _) => match ivk_unknown k with (0, _) :: _ => 1 | _ => 0 end
             | Err (EParse _) => 2 | Err ENetwork => 3 | Err (EKey _) => 4 | Panic => 5
             end
  | XNarrowNt _ k o =>
      6300 + (match fvk_unknown k with [] => 0 | (0, _) :: _ => 1 | _ => 2 end)
      + 3 * match o with Ok _ => 0 | Err _ => 1 | Panic => 2 end
  | XUaNs _ items o =>
      6400 + match o with
             | Ok (a, _) => (match uad_t a with None => 0 | Some (PKH _) => 1 | Some (SH _) => 2 end)
                            + 3 * (match uad_unknown a with (3, _) :: _ => 1 | _ => 0 end)
                            + 6 * (if is_some (uad_s a) then 1 else 0)
             | Err _ => 30 | Panic => 31
             end
  end.
