(** C11 — bridge, part B: find_address, the legacy encodings, gap_limits; and the complete
    bridge theorem. *)
From V.Lib Require Import Base Hex.
From V.Gen Require Import C11Consts C11Legacy.
From V.C11 Require Import Model Spec Tab Eqb EqbFacts Legacy CorrLegacy Gap CorrGap Extra CorrExtra Corr Wf
  ProofsAddr ProofsCodec ProofsDecode ProofsFind ProofsLegacy ProofsGap Bridge BridgeA.
From Coq Require Import ZifyBool.
Local Open Scope N_scope.

(* ------------------------------------------------------------------------------------------ *)
(** * find_address *)

Lemma forallb_repeat {A} (P : A -> bool) x n : P x = true -> forallb P (repeat x n) = true.
Proof. intros H. induction n; cbn; [reflexivity | rewrite H, IHn; reflexivity]. Qed.

Lemma model_finds_spec O k j r i :
  spec_uivk_of O k = Some i ->
  exists n, model_finds O k j r = repeat (uivk_find_address O find_fuel i j r) (S n).
Proof.
  destruct k as [u|f|i0]; cbn [spec_uivk_of model_finds]; intros E.
  - change (spec_fvk_of_sk O u) with (usk_to_ufvk O u) in E. exists 0%nat.
    unfold ufvk_find_address. rewrite ufvk_to_uivk_spec, E. reflexivity.
  - exists 1%nat. unfold ufvk_find_address. rewrite ufvk_to_uivk_spec, E. reflexivity.
  - inversion E; subst. exists 0%nat. reflexivity.
Qed.

Lemma all_skipped_true O k r : forall n j,
  (forall x, j <= x < j + N.of_nat n -> skips O k r x) -> all_skipped O k r j n = true.
Proof.
  induction n as [|n IH]; intros j H; [reflexivity|]. cbn [all_skipped].
  rewrite <- uivk_address_spec. rewrite (H j) by lia. apply IH. intros x Hx. apply H. lia.
Qed.

Lemma find_never_panics O : forall fuel k j r, uivk_find_address O fuel k j r <> Panic.
Proof.
  induction fuel as [|fuel IH]; intros k j r; cbn [uivk_find_address]; [discriminate|].
  pose proof (address_never_panics O k j r) as NP.
  destruct (uivk_address O k j r) as [a|e|]; try discriminate; [|congruence].
  destruct e; try discriminate. destruct (j + 1 <? DIVERSIFIER_SPACE); [apply IH | discriminate].
Qed.

Definition find_check (O : oracles) (i : uivk) (j : N) (r : request) (o : find_res) : bool :=
  match o with
  | Ok (a, j') =>
      if (j <=? j') && (j' - j <? 4096)
      then addr_res_eqb (spec_address O i j' r) (Ok a) && all_skipped O i r j (N.to_nat (j' - j))
      else false
  | Err DiversifierSpaceExhausted =>
      if DIVERSIFIER_SPACE - j <=? 4096 then all_skipped O i r j (N.to_nat (DIVERSIFIER_SPACE - j)) else false
  | Err e =>
      let j' := match e with InvalidTransparentChildIndex x => x | _ => j end in
      if (j <=? j') && (j' - j <? 4096)
      then addr_res_eqb (spec_address O i j' r) (Err e) && all_skipped O i r j (N.to_nat (j' - j))
      else false
  | Panic => false
  end.

Lemma find_check_model O i j r :
  j < DIVERSIFIER_SPACE -> uivk_find_address O find_fuel i j r <> Err FindOutOfFuel ->
  find_check O i j r (uivk_find_address O find_fuel i j r) = true.
Proof.
  intros Hj NF. unfold find_check.
  destruct (uivk_find_address O find_fuel i j r) as [[a j']|e|] eqn:F.
  - destruct (find_address_sound O _ _ _ _ _ _ F) as (A & B & C).
    pose proof (find_ok_within_fuel O _ _ _ _ _ _ F) as W. unfold find_fuel in W.
    destruct ((j <=? j') && (j' - j <? 4096)) eqn:G; [|lia].
    rewrite <- uivk_address_spec, B, (spec_refl _ addr_res_eqb_spec). cbn [andb].
    apply all_skipped_true. intros x Hx. apply C. lia.
  - destruct (aerr_eqb e DiversifierSpaceExhausted) eqn:ED.
    + apply aerr_eqb_spec in ED. subst e.
      destruct (find_exhausted_within_fuel O _ _ _ _ Hj F) as [A B]. unfold find_fuel in A.
      destruct (DIVERSIFIER_SPACE - j <=? 4096) eqn:G; [|lia].
      apply all_skipped_true. intros x Hx. apply B. lia.
    + assert (N2 : e <> DiversifierSpaceExhausted) by (intros ->; discriminate ED).
      assert (N1 : e <> FindOutOfFuel) by (intros ->; apply NF; reflexivity).
      destruct (find_err_within_fuel O _ _ _ _ _ Hj F N1 N2) as (j' & A & B & C & D & K).
      unfold find_fuel in B.
      assert (EJ : match e with InvalidTransparentChildIndex x => x | _ => j end = j')
        by (destruct K as [-> | [-> ->]]; reflexivity).
      assert (G : (if (j <=? j') && (j' - j <? 4096)
                   then addr_res_eqb (spec_address O i j' r) (Err e) && all_skipped O i r j (N.to_nat (j' - j))
                   else false) = true).
      { destruct ((j <=? j') && (j' - j <? 4096)) eqn:G; [|lia].
        rewrite <- uivk_address_spec, D, (spec_refl _ addr_res_eqb_spec). cbn [andb].
        apply all_skipped_true. intros x Hx. apply C. lia. }
      destruct e; try (rewrite EJ; exact G); try (cbn in EJ; subst; exact G). congruence.
  - exfalso. exact (find_never_panics O _ _ _ _ F).
Qed.

Lemma b_find t k j r os :
  wf_case (CFind t k j r os) = true -> run_case (CFind t k j r os) = true ->
  prop_case (CFind t k j r os) = true.
Proof.
  cbn [wf_case run_case prop_case]. intros W R.
  apply andb_true_iff in W. destruct W as [W Wos]. repeat (apply andb_true_iff in W; destruct W as [W ?]).
  assert (Hj : j < DIVERSIFIER_SPACE) by lia.
  apply (list_eqb_spec _ find_res_eqb_spec) in R. subst os.
  destruct (spec_uivk_of (orc_of t) k) as [i|] eqn:E; [|reflexivity].
  destruct (model_finds_spec (orc_of t) k j r i E) as [n M]. rewrite M in *.
  cbn [repeat forallb] in Wos. apply andb_true_iff in Wos. destruct Wos as [NF _].
  change (forallb (find_check (orc_of t) i j r) (repeat (uivk_find_address (orc_of t) find_fuel i j r) (S n)) = true).
  apply forallb_repeat. apply find_check_model; [exact Hj|].
  intros X. rewrite X in NF. discriminate NF.
Qed.

(* ------------------------------------------------------------------------------------------ *)
(** * legacy encodings *)

Lemma berr_eqb_spec a b : berr_eqb a b = true <-> a = b.
Proof. destruct a, b; cbn; split; congruence. Qed.
Lemma terr_eqb_spec a b : terr_eqb a b = true <-> a = b.
Proof. destruct a, b; cbn; split; congruence. Qed.
Lemma taddr_eqb_spec a b : taddr_eqb a b = true <-> a = b.
Proof. destruct a, b; cbn; try (split; congruence); rewrite bytes_eqb_spec; split; congruence. Qed.
Lemma lunit_eqb_spec (a b : unit) : lunit_eqb a b = true <-> a = b.
Proof. destruct a, b; cbn; tauto. Qed.
Lemma ores_is_spec r b : ores_is r b = true <-> r = OSome b.
Proof. destruct r; cbn; try (split; congruence). rewrite bytes_eqb_spec. split; congruence. Qed.

Lemma dec_prop_ok t k hrp i orig :
  dec_claim t k hrp i orig = true ->
  let o := legacy_decode k (prim_of t k) hrp i in
  match i with
  | BNot => outcome_eqb bytes_eqb berr_eqb (Err BechErr) o
  | BStr h d =>
      if negb (bytes_eqb h hrp) then outcome_eqb bytes_eqb berr_eqb (Err BHrpMismatch) o
      else match orig with
           | Some key => outcome_eqb bytes_eqb berr_eqb (Ok key) o
           | None => match o with
                     | Ok key => match reader k (prim_of t k) d with OSome key' => bytes_eqb key key' | _ => false end
                     | Err e => berr_eqb e BReadError
                     | Panic => match reader k (prim_of t k) d with OPanic => true | _ => false end
                     end
           end
  end = true.
Proof.
  intros C. cbv zeta. unfold legacy_decode, bech32_decode. destruct i as [|h d]; [reflexivity|].
  destruct (negb (bytes_eqb h hrp)) eqn:N; [reflexivity|].
  destruct orig as [key|].
  - unfold dec_claim in C. apply andb_true_iff in C. destruct C as [_ C]. apply ores_is_spec in C.
    rewrite C. cbn. apply bytes_eqb_spec. reflexivity.
  - destruct (reader k (prim_of t k) d); cbn; try reflexivity. apply bytes_eqb_spec. reflexivity.
Qed.

Lemma t_decode_network n0 net a :
  n0 < 3 -> net < 3 -> taddr_wf a ->
  t_decode (nc_pubkey net) (nc_script net) (Some (t_encode (nc_pubkey n0) (nc_script n0) a))
  = Ok (if same_t_family n0 net then Some a else None).
Proof.
  intros A B W. destruct (same_t_family n0 net) eqn:F.
  - assert (E : nc_pubkey net = nc_pubkey n0 /\ nc_script net = nc_script n0)
      by (nets; try discriminate F; split; reflexivity).
    destruct E as [-> ->]. apply t_roundtrip; [| | exact W]; nets; reflexivity.
  - apply t_foreign; nets; try discriminate F; reflexivity.
Qed.

Lemma taddr_ok_wf a : taddr_ok a = true -> taddr_wf a.
Proof. destruct a; cbn; intros H; apply andb_true_iff in H; destruct H as [_ H]; apply Nat.eqb_eq in H; exact H. Qed.

Lemma b_legacy l :
  wf_case (CLegacy l) = true -> run_case (CLegacy l) = true -> prop_case (CLegacy l) = true.
Proof.
  cbn [wf_case run_case prop_case]. destruct l; cbn [lwf lrun lprop]; intros W R.
  - exact R.
  - exact R.
  - (* LDec *)
    apply (outcome_eqb_spec _ _ bytes_eqb_spec berr_eqb_spec) in R. subst o.
    apply andb_true_iff in W. destruct W as [_ C]. exact (dec_prop_ok t k hrp i orig C).
  - (* LDecP *)
    apply (outcome_eqb_spec _ _ bytes_eqb_spec berr_eqb_spec) in R. subst o.
    apply andb_true_iff in W. destruct W as [_ C]. exact (dec_prop_ok t LAddr (nc_hrp LAddr net) i orig C).
  - (* LFvkNet *)
    apply (outcome_eqb_spec _ _ (pair_eqb_spec _ _ N_eqb_spec bytes_eqb_spec) berr_eqb_spec) in R. subst o.
    apply andb_true_iff in W. destruct W as [_ C].
    unfold decode_extfvk_with_network. destruct i as [|h d]; [reflexivity|].
    change (arms_lookup EXTFVK_ARMS h) with (spec_extfvk_network h).
    destruct (spec_extfvk_network h) as [net|] eqn:SN; [|reflexivity].
    destruct orig as [[n0 key]|].
    + cbn [fvknet_claim] in C. repeat (apply andb_true_iff in C; destruct C as [C ?]).
      match goal with X : ores_is _ _ = true |- _ => apply ores_is_spec in X; rewrite X end.
      match goal with X : bytes_eqb h _ = true |- _ => apply bytes_eqb_spec in X; subst h end.
      assert (AG : spec_extfvk_network (nc_hrp LFvk n0) = Some n0) by (apply (extfvk_arms_agree n0); lia).
      rewrite AG in SN. inversion SN; subst net.
      rewrite N.eqb_refl. cbn [andb].
      apply (outcome_eqb_spec _ _ (pair_eqb_spec _ _ N_eqb_spec bytes_eqb_spec) berr_eqb_spec). reflexivity.
    + destruct (prim_of t LFvk d); cbn; try reflexivity. apply N.eqb_refl.
  - destruct a; exact R.
  - destruct a; exact R.
  - (* LTDec *)
    apply (outcome_eqb_spec _ _ (option_eqb_spec _ taddr_eqb_spec) lunit_eqb_spec) in R. subst o.
    destruct i as [d|]; [|reflexivity].
    destruct orig as [[n0 a]|]; [|reflexivity].
    destruct (bytes_eqb pk (nc_pubkey net) && bytes_eqb sh (nc_script net)) eqn:PK; [|reflexivity].
    apply andb_true_iff in PK. destruct PK as [P1 P2]. apply bytes_eqb_spec in P1, P2. subst pk sh.
    repeat (apply andb_true_iff in W; destruct W as [W ?]).
    match goal with X : t_claim _ _ = true |- _ => cbn [t_claim] in X;
      repeat (apply andb_true_iff in X; destruct X as [X ?]) end.
    match goal with X : bytes_eqb d _ = true |- _ => apply bytes_eqb_spec in X; subst d end.
    rewrite t_decode_network by (try lia; apply taddr_ok_wf; assumption).
    destruct (same_t_family n0 net);
      apply (outcome_eqb_spec _ _ (option_eqb_spec _ taddr_eqb_spec) lunit_eqb_spec); reflexivity.
  - (* LTDecP *)
    apply (outcome_eqb_spec _ _ taddr_eqb_spec terr_eqb_spec) in R. subst o.
    destruct i as [d|]; [|reflexivity].
    destruct orig as [[n0 a]|].
    + repeat (apply andb_true_iff in W; destruct W as [W ?]).
      match goal with X : t_claim _ _ = true |- _ => cbn [t_claim] in X;
        repeat (apply andb_true_iff in X; destruct X as [X ?]) end.
      match goal with X : bytes_eqb d _ = true |- _ => apply bytes_eqb_spec in X; subst d end.
      rewrite t_network_roundtrip by (try lia; apply taddr_ok_wf; assumption).
      destruct (same_t_family n0 net); apply (outcome_eqb_spec _ _ taddr_eqb_spec terr_eqb_spec); reflexivity.
    + unfold t_codec_decode, t_decode. destruct (starts_with d (nc_pubkey net)).
      * destruct (option_map PKH _); reflexivity.
      * destruct (starts_with d (nc_script net)); [destruct (option_map SH _)|]; reflexivity.
Qed.

(* ------------------------------------------------------------------------------------------ *)
(** * gap_limits *)

Lemma gaddr_eqb_spec a b : gaddr_eqb a b = true <-> a = b.
Proof.
  destruct a, b; cbn; try (split; congruence); rewrite ?ua_eqb_spec, ?bytes_eqb_spec; split; congruence.
Qed.
Lemma gerr_eqb_spec a b : gerr_eqb a b = true <-> a = b.
Proof.
  destruct a, b; cbn; try (split; congruence); rewrite ?aerr_eqb_spec, ?N.eqb_eq; split; congruence.
Qed.
Lemma gg_err_eqb_spec a b : gg_err_eqb a b = true <-> a = b.
Proof. destruct a, b; cbn; try (split; congruence); rewrite gerr_eqb_spec; split; congruence. Qed.
Lemma gentry_eqb_spec a b : gentry_eqb a b = true <-> a = b.
Proof.
  destruct a as [[a ta] i], b as [[b tb] j]. unfold gentry_eqb. cbn [fst snd].
  rewrite !andb_true_iff, gaddr_eqb_spec, bytes_eqb_spec, N.eqb_eq.
  split; [intros [[-> ->] ->]; reflexivity | intros H; inversion H; auto].
Qed.
Lemma glist_eqb_spec a b : glist_eqb a b = true <-> a = b.
Proof. apply list_eqb_spec, gentry_eqb_spec. Qed.

Section GapBridge.
Variable t : otab.
Let O := orc_of t.
Let sivk := sivk_of t.

Lemma gen_addrs_entry_ok k pk r scope i a ta :
  gen_addrs O sivk k pk r scope i = Ok (a, ta) -> entry_ok t k (Some pk) r scope (a, ta, i) = true.
Proof.
  unfold gen_addrs, entry_ok. fold O. fold sivk.
  destruct (scope =? 0) eqn:S0.
  - unfold generate_external_address.
    destruct (ivk_t k) as [tivk|]; [|discriminate].
    destruct (t_addr O tivk i) as [ta'|] eqn:T; [|discriminate].
    rewrite uivk_address_spec.
    destruct (spec_address O k i r) as [u|e|] eqn:A.
    + intros H; inversion H; subst. rewrite (spec_refl _ obytes_eqb_spec), (spec_refl _ addr_res_eqb_spec). reflexivity.
    + destruct e; try discriminate. intros H; inversion H; subst.
      rewrite (spec_refl _ obytes_eqb_spec), (spec_refl _ bytes_eqb_spec). reflexivity.
    + discriminate.
  - destruct ((scope =? 1) || (scope =? 2)); [|discriminate].
    destruct (sivk pk scope) as [ivk|] eqn:K; [|discriminate].
    destruct (t_addr O ivk i) as [ta'|] eqn:T; [|discriminate].
    intros H; inversion H; subst.
    rewrite (spec_refl _ obytes_eqb_spec), (spec_refl _ bytes_eqb_spec). reflexivity.
Qed.

Lemma collect_entries k pk r scope : forall l out,
  collect O sivk k pk r scope l = Ok out ->
  map snd out = l /\ forallb (entry_ok t k (Some pk) r scope) out = true.
Proof.
  induction l as [|i l IH]; intros out H; cbn [collect] in H.
  - inversion H; subst. split; reflexivity.
  - destruct (gen_addrs O sivk k pk r scope i) as [[a ta]|e|] eqn:G; try discriminate.
    destruct (collect O sivk k pk r scope l) as [tl|e|] eqn:C; try discriminate.
    inversion H; subst. destruct (IH tl eq_refl) as [M F]. split.
    + cbn. rewrite M. reflexivity.
    + cbn [forallb]. rewrite (gen_addrs_entry_ok _ _ _ _ _ _ _ G), F. reflexivity.
Qed.

Lemma gen_addrs_never_panics k pk r scope i : gen_addrs O sivk k pk r scope i <> Panic.
Proof.
  unfold gen_addrs. destruct (scope =? 0).
  - unfold generate_external_address. destruct (ivk_t k); [|discriminate].
    destruct (t_addr O b i); [|discriminate].
    pose proof (address_never_panics O k i r). destruct (uivk_address O k i r) as [u|e|]; try discriminate; [|congruence].
    destruct e; discriminate.
  - destruct ((scope =? 1) || (scope =? 2)); [|discriminate].
    destruct (sivk pk scope); [|discriminate]. destruct (t_addr O b i); discriminate.
Qed.

Lemma gen_addrs_err_plausible k f pk r scope rk i e :
  pk_of f = Some pk -> gen_addrs O sivk k pk r scope i = Err e -> gerr_plausible k f scope rk e = true.
Proof.
  intros PK. unfold gen_addrs, gerr_plausible. rewrite PK.
  destruct (scope =? 0) eqn:S0.
  - unfold generate_external_address. destruct (ivk_t k) as [tivk|] eqn:KT.
    + destruct (t_addr O tivk i); [|intros H; inversion H; subst; reflexivity].
      pose proof (address_error_kinds O k i r) as AK.
      destruct (uivk_address O k i r) as [u|e0|]; try discriminate.
      destruct AK as [-> | [-> | ->]]; try discriminate; intros H; inversion H; subst; reflexivity.
    + intros H; inversion H; subst. reflexivity.
  - destruct ((scope =? 1) || (scope =? 2)) eqn:S12.
    + destruct (sivk pk scope); [destruct (t_addr O b i); [discriminate|]|]; intros H; inversion H; subst; reflexivity.
    + intros H; inversion H; subst. rewrite N.eqb_refl. cbn [andb orb negb].
      apply orb_false_iff in S12. destruct S12 as [-> ->]. reflexivity.
Qed.

Lemma collect_err k f pk r scope rk : forall l e,
  pk_of f = Some pk -> collect O sivk k pk r scope l = Err e -> gerr_plausible k f scope rk e = true.
Proof.
  induction l as [|i l IH]; intros e PK H; cbn [collect] in H; [discriminate|].
  destruct (gen_addrs O sivk k pk r scope i) as [[a ta]|e0|] eqn:G; try discriminate.
  - destruct (collect O sivk k pk r scope l) as [tl|e1|] eqn:C; try discriminate.
    inversion H; subst. eapply IH; [exact PK | reflexivity].
  - inversion H; subst. eapply gen_addrs_err_plausible; eassumption.
Qed.

Lemma collect_never_panics k pk r scope : forall l, collect O sivk k pk r scope l <> Panic.
Proof.
  induction l as [|i l IH]; cbn [collect]; [discriminate|].
  pose proof (gen_addrs_never_panics k pk r scope i).
  destruct (gen_addrs O sivk k pk r scope i) as [[a ta]|e0|]; try discriminate; [|congruence].
  destruct (collect O sivk k pk r scope l); try discriminate. congruence.
Qed.

Lemma consecutive_upfrom : forall (out : list gentry) s n, map snd out = upfrom s n -> consecutive s out = true.
Proof.
  induction out as [|e out IH]; intros s n H; [reflexivity|].
  destruct n as [|n]; [discriminate|]. cbn [map upfrom] in H. inversion H as [[H1 H2]].
  cbn [consecutive]. rewrite N.eqb_refl. cbn [andb]. eapply IH. exact H2.
Qed.

Lemma upfrom_length s n : length (upfrom s n) = n.
Proof. revert s. induction n; intros; cbn; auto. Qed.

Lemma list_ok_model k f r scope s e rk out :
  e <= NON_HARDENED_MAX ->
  generate_address_list O sivk k f scope r s e rk = Ok out -> list_ok t k f r scope s e out = true.
Proof.
  intros He. unfold generate_address_list, list_ok. fold (pk_of f).
  destruct (pk_of f) as [pk|] eqn:PK.
  - intros H. destruct (collect_entries _ _ _ _ _ _ H) as [M F].
    rewrite nh_range_spec in M by exact He.
    rewrite F, (consecutive_upfrom _ _ _ M), andb_true_r, andb_true_r.
    pose proof (f_equal (@length N) M) as LM. rewrite map_length, upfrom_length in LM.
    unfold gentry in *. rewrite LM.
    destruct (s <? e) eqn:L; [lia | reflexivity].
  - destruct (((scope =? 1) || (scope =? 2)) && rk); [discriminate|]. intros H; inversion H; reflexivity.
Qed.

Lemma list_err_model k f r scope s e rk er :
  generate_address_list O sivk k f scope r s e rk = Err er -> gerr_plausible k f scope rk er = true.
Proof.
  unfold generate_address_list. fold (pk_of f). destruct (pk_of f) as [pk|] eqn:PK.
  - apply collect_err. exact PK.
  - destruct (((scope =? 1) || (scope =? 2)) && rk) eqn:C; [|discriminate].
    intros H; inversion H; subst. unfold gerr_plausible. rewrite PK. apply andb_true_iff in C. destruct C as [-> ->]. reflexivity.
Qed.

Lemma list_never_panics k f r scope s e rk : generate_address_list O sivk k f scope r s e rk <> Panic.
Proof.
  unfold generate_address_list. destruct (match f with Some fk => fvk_t fk | None => None end).
  - apply collect_never_panics.
  - destruct (((scope =? 1) || (scope =? 2)) && rk); discriminate.
Qed.

End GapBridge.

Lemma nh_saturating_add_min gs gl : nh_saturating_add gs gl = N.min (gs + gl) NON_HARDENED_MAX.
Proof.
  unfold nh_saturating_add. rewrite nhmax_val.
  destruct (2147483647 <? N.min (gs + gl) 4294967295) eqn:E; lia.
Qed.

Lemma b_gap g :
  wf_case (CGap g) = true -> run_case (CGap g) = true -> prop_case (CGap g) = true.
Proof.
  cbn [wf_case run_case prop_case]. destruct g; cbn [gwf grun gprop]; intros W R.
  - exact R.
  - apply (outcome_eqb_spec _ _ glist_eqb_spec gerr_eqb_spec) in R. subst o.
    repeat (apply andb_true_iff in W; destruct W as [W ?]).
    destruct (generate_address_list (orc_of t) (sivk_of t) k f scope r start end_ require_key) as [l|er|] eqn:G.
    + eapply list_ok_model; [lia | exact G].
    + eapply list_err_model; exact G.
    + exfalso. exact (list_never_panics t _ _ _ _ _ _ _ G).
  - apply (outcome_eqb_spec _ _ (option_eqb_spec _ glist_eqb_spec) gg_err_eqb_spec) in R. subst o.
    unfold generate_gap_addresses.
    destruct (limit_for g scope) as [gl|] eqn:LF.
    + destruct find as [[gs|]|u|]; try reflexivity;
        [|repeat (apply andb_true_iff in W; destruct W as [W ?]); discriminate].
      pose proof (nh_saturating_add_bound gs gl) as BD.
        destruct (generate_address_list (orc_of t) (sivk_of t) k f scope r gs (nh_saturating_add gs gl) require_key) as [l|er|] eqn:G.
      * destruct store_ok; [|reflexivity]. cbn [andb]. rewrite <- nh_saturating_add_min.
        eapply list_ok_model; [exact BD | exact G].
      * eapply list_err_model; exact G.
      * exfalso. exact (list_never_panics t _ _ _ _ _ _ _ G).
    + unfold limit_for in LF. unfold gerr_plausible. rewrite N.eqb_refl.
      destruct (scope =? 0); [discriminate|]. destruct (scope =? 1); [discriminate|].
      destruct (scope =? 2); [discriminate|]. reflexivity.
Qed.

