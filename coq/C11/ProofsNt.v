(** C11 — viewing keys in the profile without `transparent-inputs`: the uninterpreted P2PKH item
    is preserved, an accepted string re-encodes to itself, decoding does not panic. Obtained
    from the main profile's theorems by reading the profile's loop as the main loop with the
    identity as transparent decoder. For all oracles. *)
From V.Lib Require Import Base Hex.
From V.Gen Require Import C11Consts.
From V.C11 Require Import Model Spec Legacy Extra ProofsAddr ProofsCodec ProofsDecode.
From Coq Require Import ZifyBool.
Local Open Scope N_scope.

Section Loop.
Variables ds do_ : bytes -> ores.

Definition lift_nt (x : N * bytes) (r : outcome (option bytes * option bytes * list item) dec_err) :=
  match r with
  | Ok (s, o, u) => Ok (s, o, x :: u)
  | Err e => Err e
  | Panic => Panic
  end.

Lemma pl_nt_acc : forall l s o unk x,
  parse_loop_nt ds do_ l s o (unk ++ [x]) = lift_nt x (parse_loop_nt ds do_ l s o unk).
Proof.
  induction l as [|[c d] l IH]; intros s o unk x; cbn [parse_loop_nt].
  - cbn. rewrite rev_app_distr. reflexivity.
  - destruct (tc_of_u32 c) as [[]|];
      try (change ((c, d) :: unk ++ [x]) with (((c, d) :: unk) ++ [x]); apply IH).
    + destruct (ds d); try reflexivity. apply IH.
    + destruct (do_ d); try reflexivity. apply IH.
Qed.

Lemma pl_nt_acc0 l s o (x : item) :
  parse_loop_nt ds do_ l s o [x] = lift_nt x (parse_loop_nt ds do_ l s o []).
Proof. exact (pl_nt_acc l s o [] x). Qed.

Definition with_t (t : option bytes) (r : outcome (option bytes * option bytes * list item) dec_err) :=
  match r with
  | Ok (s, o, u) => Ok (t, s, o, u)
  | Err e => Err e
  | Panic => Panic
  end.

Lemma pl_nt_no0 : forall l t s o unk,
  Forall (fun it : item => fst it <> 0) l ->
  parse_loop OSome ds do_ l t s o unk = with_t t (parse_loop_nt ds do_ l s o unk).
Proof.
  induction l as [|[c d] l IH]; intros t s o unk F; cbn [parse_loop parse_loop_nt]; [reflexivity|].
  inversion F as [|? ? Fc Fl]; subst. cbn [fst] in Fc.
  destruct (tc_of_u32 c) as [[]|] eqn:E; try (apply IH; exact Fl).
  - exfalso. unfold tc_of_u32 in E. destruct (c =? 0) eqn:C0; [lia|].
    destruct (c =? 1); [discriminate|]. destruct (c =? 2); [discriminate|].
    destruct (c =? 3); [discriminate|]. destruct (c <=? MAX_TYPECODE); discriminate.
  - destruct (ds d); try reflexivity. apply IH; exact Fl.
  - destruct (do_ d); try reflexivity. apply IH; exact Fl.
Qed.

Definition back (r : outcome (option bytes * option bytes * option bytes * list item) dec_err) :=
  match r with
  | Ok (t, s, o, u) => Ok (s, o, oapp (option_map (pair 0) t) ++ u)
  | Err e => Err e
  | Panic => Panic
  end.
Lemma back_none r : back (with_t None r) = r.
Proof. destruct r as [[[s o] u]| |]; reflexivity. Qed.
Lemma back_some d r : back (with_t (Some d) r) = lift_nt (0, d) r.
Proof. destruct r as [[[s o] u]| |]; reflexivity. Qed.

Lemma asc_above : forall l p, asc (Some p) l -> Forall (fun it : item => p < fst it) l.
Proof.
  induction l as [|[c d] l IH]; intros p A; [constructor|].
  cbn [asc] in A. destruct A as [A1 A2]. constructor; [exact A1|].
  eapply Forall_impl; [|apply (IH c A2)]. cbn beta. intros; lia.
Qed.

(** on an ascending item list the profile's loop is the main loop with the identity decoder,
    the transparent item (if any) being put back in front of the unknown items *)
Lemma pl_nt_bridge l :
  asc None l ->
  parse_loop_nt ds do_ l None None [] = back (parse_loop OSome ds do_ l None None None []).
Proof.
  intros A. destruct l as [|[c d] l]; [reflexivity|].
  cbn [asc] in A. destruct A as [_ A]. pose proof (asc_above _ _ A) as F.
  destruct (N.eq_dec c 0) as [->|Nc].
  - cbn [parse_loop parse_loop_nt]. change (tc_of_u32 0) with (Some TcP2pkh). cbv iota.
    rewrite pl_nt_no0 by (eapply Forall_impl; [|exact F]; cbn beta; intros; lia).
    rewrite pl_nt_acc0. symmetry. apply back_some.
  - rewrite pl_nt_no0; [symmetry; apply back_none|].
    constructor; [exact Nc|]. eapply Forall_impl; [|exact F]. cbn beta. intros; lia.
Qed.

Lemma parse_loop_nt_never_panics : forall l s o unk,
  (forall x, ds x <> OPanic) -> (forall x, do_ x <> OPanic) -> parse_loop_nt ds do_ l s o unk <> Panic.
Proof.
  induction l as [|[c d] l IH]; intros s o unk Hs Ho; cbn [parse_loop_nt]; [discriminate|].
  destruct (tc_of_u32 c) as [[]|]; try (apply IH; assumption).
  - pose proof (Hs d) as Hd. destruct (ds d); [apply IH; assumption | discriminate | congruence].
  - pose proof (Ho d) as Hd. destruct (do_ d); [apply IH; assumption | discriminate | congruence].
Qed.

End Loop.

(** the item list of a key of this profile sorts to the canonical list with the transparent
    item in front *)
Lemma nt_sort t s o u :
  unknown_ok u ->
  sort_items ((oapp (option_map (pair 0) t) ++ u) ++ oapp (option_map (pair 3) o)
              ++ oapp (option_map (pair 2) s) ++ [])
  = canon_items t s o u.
Proof.
  intros U. unfold sort_items, canon_items. rewrite fold_right_app, fold_right_app.
  assert (HK : @fold_right (list item) (N * bytes) insert (@nil item)
                 (oapp (option_map (pair 3) o) ++ oapp (option_map (pair 2) s) ++ [])
               = oapp (option_map (pair 2) s) ++ oapp (option_map (pair 3) o))
    by (destruct o, s; reflexivity).
  rewrite HK.
  assert (SU := sort_unknown (oapp (option_map (pair 2) s) ++ oapp (option_map (pair 3) o)) u 3 U).
  unfold item in *. rewrite SU
    by (intros y Hy; destruct s, o; cbn in Hy;
        repeat (destruct Hy as [<-|Hy]; [cbn; lia|]); destruct Hy).
  clear SU HK.
  destruct t as [t|]; cbn [oapp option_map fold_right app].
  - rewrite insert_head; [rewrite <- app_assoc; reflexivity|].
    destruct s; [cbn; lia|]. destruct o; [cbn; lia|]. cbn [oapp option_map app].
    destruct u as [|[c d] u]; [exact I|]. destruct U as (U1 & _). cbn. lia.
  - rewrite <- app_assoc. reflexivity.
Qed.

Lemma nt_container s o t u :
  unknown_ok u ->
  to_container ((oapp (option_map (pair 0) t) ++ u) ++ oapp (option_map (pair 3) o)
                ++ oapp (option_map (pair 2) s) ++ [])
  = if has_non_transparent s o u then Ok (canon_items t s o u) else Panic.
Proof.
  intros U. unfold to_container, try_from_items. rewrite nt_sort by exact U. rewrite tfi_canon by exact U.
  destruct (has_non_transparent s o u); reflexivity.
Qed.

Section Top.
Variable O : oracles.

Lemma id_canon (x y : option bytes) : rel OSome x y -> x = y.
Proof. destruct x, y; cbn; try contradiction; [|reflexivity]. intros H; inversion H; reflexivity. Qed.

Theorem ufvk_decode_nt_sound net hrp raw k :
  is_bytes raw = true -> ufvk_decode_nt O net (Bech hrp (Some raw)) = Ok k ->
  net < 3 /\ hrp = hrp_of KFvk net
  /\ exists t u s1 o1,
       fvk_t k = None /\ fvk_unknown k = oapp (option_map (pair 0) t) ++ u /\ unknown_ok u
       /\ has_non_transparent (fvk_s k) (fvk_o k) u = true
       /\ rel (dec_s_fvk O) s1 (fvk_s k) /\ rel (dec_o_fvk O) o1 (fvk_o k)
       /\ raw = container_raw hrp (canon_items t s1 o1 u).
Proof.
  intros HB. unfold ufvk_decode_nt, container_decode.
  destruct (hrp_network KFvk hrp) as [n|] eqn:HN; [|discriminate].
  destruct (parse_internal KFvk hrp raw) as [l| |] eqn:PI; try discriminate.
  destruct (negb (n =? net)) eqn:NE; [discriminate|]. apply negb_false_iff, N.eqb_eq in NE. subst n.
  destruct (hrp_network_sound _ _ _ HN) as [Eh Ln].
  destruct (parse_internal_sound _ _ _ _ HB PI) as (ER & A & V & T).
  unfold ufvk_parse_nt. rewrite pl_nt_bridge by exact A.
  unfold back. destruct (parse_loop OSome (dec_s_fvk O) (dec_o_fvk O) l None None None []) as [[[[t s] o] u]| |] eqn:PL; try discriminate.
  intros H; inversion H; subst k. cbn [fvk_t fvk_s fvk_o fvk_unknown].
  destruct (accepted_items_key _ _ _ _ _ _ _ _ A V T PL) as (U & N & t1 & s1 & o1 & R1 & R2 & R3 & E).
  apply id_canon in R1. subst t1.
  split; [exact Ln|]. split; [exact Eh|]. exists t, u, s1, o1. rewrite E. auto 10.
Qed.

Theorem ufvk_decode_nt_reencodes net hrp raw k :
  is_bytes raw = true -> ufvk_decode_nt O net (Bech hrp (Some raw)) = Ok k ->
  exists e, ufvk_encode net k = Ok e.
Proof.
  intros HB H. destruct (ufvk_decode_nt_sound _ _ _ _ HB H) as (_ & _ & t & u & s1 & o1 & Kt & Ku & U & N & _).
  unfold ufvk_encode, ufvk_items. rewrite Kt, Ku. cbn [oapp option_map].
  rewrite nt_container by exact U. rewrite N. eauto.
Qed.

(** in this profile too, an accepted string is the encoding of the key decoded from it — the
    transparent item the build could not interpret included *)
Theorem ufvk_decode_nt_canonical net hrp raw k :
  is_bytes raw = true -> ufvk_decode_nt O net (Bech hrp (Some raw)) = Ok k ->
  canon_on (dec_s_fvk O) (fvk_s k) -> canon_on (dec_o_fvk O) (fvk_o k) ->
  ufvk_encode net k = Ok (hrp, raw).
Proof.
  intros HB H Cs Co.
  destruct (ufvk_decode_nt_sound _ _ _ _ HB H) as (_ & Eh & t & u & s1 & o1 & Kt & Ku & U & N & R2 & R3 & ER).
  apply rel_canon in R2, R3; try assumption. subst s1 o1.
  unfold ufvk_encode, ufvk_items. rewrite Kt, Ku. cbn [oapp option_map].
  rewrite nt_container by exact U. rewrite N, <- Eh, <- ER. reflexivity.
Qed.

Theorem ufvk_decode_nt_total net i :
  dinput_ok i -> (forall x, dec_s_fvk O x <> OPanic) -> (forall x, dec_o_fvk O x <> OPanic) ->
  ufvk_decode_nt O net i <> Panic.
Proof.
  intros DI Hs Ho. unfold ufvk_decode_nt, container_decode. destruct i as [|hrp [raw|]]; try discriminate;
    [|destruct (hrp_network KFvk hrp); discriminate].
  destruct (hrp_network KFvk hrp); [|discriminate].
  destruct DI as [_ L]. pose proof (parse_internal_never_panics KFvk hrp raw L) as PP.
  destruct (parse_internal KFvk hrp raw) as [l| |]; try discriminate; [|congruence].
  destruct (negb (n =? net)); [discriminate|].
  unfold ufvk_parse_nt. pose proof (parse_loop_nt_never_panics _ _ l None None [] Hs Ho) as LP.
  destruct (parse_loop_nt _ _ l None None []) as [[[s o] u]| |]; try discriminate. congruence.
Qed.

Theorem uivk_decode_nt_sound net hrp raw k :
  is_bytes raw = true -> uivk_decode_nt O net (Bech hrp (Some raw)) = Ok k ->
  net < 3 /\ hrp = hrp_of KIvk net
  /\ exists t u s1 o1,
       ivk_t k = None /\ ivk_unknown k = oapp (option_map (pair 0) t) ++ u /\ unknown_ok u
       /\ has_non_transparent (ivk_s k) (ivk_o k) u = true
       /\ rel (dec_s_ivk O) s1 (ivk_s k) /\ rel (dec_o_ivk O) o1 (ivk_o k)
       /\ raw = container_raw hrp (canon_items t s1 o1 u).
Proof.
  intros HB. unfold uivk_decode_nt, container_decode.
  destruct (hrp_network KIvk hrp) as [n|] eqn:HN; [|discriminate].
  destruct (parse_internal KIvk hrp raw) as [l| |] eqn:PI; try discriminate.
  destruct (negb (n =? net)) eqn:NE; [discriminate|]. apply negb_false_iff, N.eqb_eq in NE. subst n.
  destruct (hrp_network_sound _ _ _ HN) as [Eh Ln].
  destruct (parse_internal_sound _ _ _ _ HB PI) as (ER & A & V & T).
  unfold uivk_parse_nt. rewrite pl_nt_bridge by exact A.
  unfold back. destruct (parse_loop OSome (dec_s_ivk O) (dec_o_ivk O) l None None None []) as [[[[t s] o] u]| |] eqn:PL; try discriminate.
  intros H; inversion H; subst k. cbn [ivk_t ivk_s ivk_o ivk_unknown].
  destruct (accepted_items_key _ _ _ _ _ _ _ _ A V T PL) as (U & N & t1 & s1 & o1 & R1 & R2 & R3 & E).
  apply id_canon in R1. subst t1.
  split; [exact Ln|]. split; [exact Eh|]. exists t, u, s1, o1. rewrite E. auto 10.
Qed.

Theorem uivk_decode_nt_reencodes net hrp raw k :
  is_bytes raw = true -> uivk_decode_nt O net (Bech hrp (Some raw)) = Ok k ->
  exists e, uivk_encode net k = Ok e.
Proof.
  intros HB H. destruct (uivk_decode_nt_sound _ _ _ _ HB H) as (_ & _ & t & u & s1 & o1 & Kt & Ku & U & N & _).
  unfold uivk_encode, uivk_items. rewrite Kt, Ku. cbn [oapp option_map].
  rewrite nt_container by exact U. rewrite N. eauto.
Qed.

Theorem uivk_decode_nt_canonical net hrp raw k :
  is_bytes raw = true -> uivk_decode_nt O net (Bech hrp (Some raw)) = Ok k ->
  canon_on (dec_s_ivk O) (ivk_s k) -> canon_on (dec_o_ivk O) (ivk_o k) ->
  uivk_encode net k = Ok (hrp, raw).
Proof.
  intros HB H Cs Co.
  destruct (uivk_decode_nt_sound _ _ _ _ HB H) as (_ & Eh & t & u & s1 & o1 & Kt & Ku & U & N & R2 & R3 & ER).
  apply rel_canon in R2, R3; try assumption. subst s1 o1.
  unfold uivk_encode, uivk_items. rewrite Kt, Ku. cbn [oapp option_map].
  rewrite nt_container by exact U. rewrite N, <- Eh, <- ER. reflexivity.
Qed.

Theorem uivk_decode_nt_total net i :
  dinput_ok i -> (forall x, dec_s_ivk O x <> OPanic) -> (forall x, dec_o_ivk O x <> OPanic) ->
  uivk_decode_nt O net i <> Panic.
Proof.
  intros DI Hs Ho. unfold uivk_decode_nt, container_decode. destruct i as [|hrp [raw|]]; try discriminate;
    [|destruct (hrp_network KIvk hrp); discriminate].
  destruct (hrp_network KIvk hrp); [|discriminate].
  destruct DI as [_ L]. pose proof (parse_internal_never_panics KIvk hrp raw L) as PP.
  destruct (parse_internal KIvk hrp raw) as [l| |]; try discriminate; [|congruence].
  destruct (negb (n =? net)); [discriminate|].
  unfold uivk_parse_nt. pose proof (parse_loop_nt_never_panics _ _ l None None [] Hs Ho) as LP.
  destruct (parse_loop_nt _ _ l None None []) as [[[s o] u]| |]; try discriminate. congruence.
Qed.

End Top.
