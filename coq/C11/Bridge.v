(** C11 — bridge (partial): for the requirement algebra, the key projections and address
    derivation at all three levels, agreement of the implementation with the model implies the
    property on the implementation's outcome. The encoding cases are not covered by the bridge
    (their [prop_case] is evaluated at run time only). *)
From V.Lib Require Import Base Hex.
From V.Gen Require Import C11Consts.
From V.C11 Require Import Model Spec Tab Eqb Legacy CorrLegacy Gap CorrGap Extra CorrExtra Corr Wf ProofsAddr.
Local Open Scope N_scope.

Definition bridged (c : case) : bool :=
  match c with
  | CIntersect _ _ _ | CReqsNew _ _ _ _ | CReqsUnsafeNew _ _ _ _ | CReqsIntersect _ _ _
  | CUskToUfvk _ _ _ | CAddr _ _ _ _ _ | CUfvkToUivk _ _ _ | CRecvReq _ _ _ | CUskEncode _ _ => true
  | CLegacy (LEnc _ _ _ _) | CLegacy (LEncP _ _ _ _) | CLegacy (LTEnc _ _ _ _) | CLegacy (LTEncP _ _ _ _) => true
  | CGap (GLimit _ _ _ _ _) => true
  | _ => false
  end.

Lemma list_eqb_repeat {A} (e : A -> A -> bool) x : forall n os,
  list_eqb e (repeat x n) os = true -> length os = n /\ forallb (e x) os = true.
Proof.
  induction n as [|n IH]; intros [|o os] H; simpl in *; try discriminate; auto.
  apply andb_true_iff in H. destruct H as [H1 H2]. destruct (IH _ H2) as [L F].
  rewrite H1, F, L. auto.
Qed.

Lemma model_addrs_spec O k j r i :
  spec_uivk_of O k = Some i -> model_addrs O k j r = repeat (spec_address O i j r) (levels k).
Proof.
  destruct k as [u|f|i0]; cbn [spec_uivk_of model_addrs levels repeat]; intros E.
  - unfold usk_address, ufvk_address.
    change (spec_fvk_of_sk O u) with (usk_to_ufvk O u) in E.
    rewrite ufvk_to_uivk_spec, E, uivk_address_spec. reflexivity.
  - unfold ufvk_address. rewrite ufvk_to_uivk_spec, E, uivk_address_spec. reflexivity.
  - inversion E; subst. rewrite uivk_address_spec. reflexivity.
Qed.

Lemma reqs_eqb_sym a b : reqs_eqb a b = reqs_eqb b a.
Proof. destruct a as [x y z], b as [x' y' z']; destruct x, y, z, x', y', z'; reflexivity. Qed.

Lemma req_eqb_true a b : req_eqb a b = true -> a = b.
Proof. destruct a, b; simpl; congruence. Qed.
Lemma reqs_eqb_true a b : reqs_eqb a b = true -> a = b.
Proof.
  destruct a as [x y z], b as [x' y' z']. unfold reqs_eqb. cbn [rq_o rq_s rq_t].
  intros H. apply andb_true_iff in H. destruct H as [H H3]. apply andb_true_iff in H. destruct H as [H1 H2].
  apply req_eqb_true in H1, H2, H3. congruence.
Qed.

Definition recv_prop (k : uivk) (r : request) (o : outcome reqs aerr) : bool :=
  match o with
  | Ok q => match effective k r with
            | Some q' => reqs_eqb q q'
                         && negb (required (rq_o q) && negb (is_some (ivk_o k)))
                         && negb (required (rq_s q) && negb (is_some (ivk_s k)))
                         && negb (required (rq_t q) && negb (is_some (ivk_t k)))
            | None => false
            end
  | Err _ => match effective k r with
             | Some q => (required (rq_o q) && negb (is_some (ivk_o k)))
                         || (required (rq_s q) && negb (is_some (ivk_s k)))
                         || (required (rq_t q) && negb (is_some (ivk_t k)))
             | None => true
             end
  | Panic => false
  end.

Lemma recv_prop_model k r : recv_prop k r (receiver_requirements k r) = true.
Proof.
  destruct k as [kt ks ko ku]. destruct r as [|[qo qs qt]];
    unfold recv_prop, receiver_requirements, to_receiver_requirements, effective, reqs_new;
    cbn [ivk_t ivk_s ivk_o rq_o rq_s rq_t].
  - destruct ko, ks, kt; reflexivity.
  - destruct ko, ks, kt, qo, qs, qt; reflexivity.
Qed.

Theorem agree_implies_property_partial c :
  bridged c = true -> wf_case c = true -> known_class c = 0 -> run_case c = true -> prop_case c = true.
Proof.
  destruct c; cbn [bridged]; intros B W _ R; try discriminate; cbn [run_case prop_case] in *.
  - rewrite <- req_intersect_spec. exact R.
  - unfold reqs_new in R. unfold shielded_possible. cbn [rq_o rq_s].
    destruct (req_eqb a Omit && req_eqb b Omit); destruct o as [q|e|]; cbn in *; try discriminate.
    + destruct e; [discriminate | reflexivity].
    + rewrite reqs_eqb_sym. exact R.
  - unfold reqs_unsafe_new in R. unfold shielded_possible. cbn [rq_o rq_s].
    destruct (req_eqb a Omit && req_eqb b Omit); destruct o as [q|e|]; cbn in *; try discriminate.
    + reflexivity.
    + rewrite reqs_eqb_sym. exact R.
  - unfold reqs_intersect in R. repeat rewrite req_intersect_spec in R.
    destruct (spec_req_intersect (rq_o a) (rq_o b)) as [x|e1|] eqn:E1.
    + destruct (spec_req_intersect (rq_s a) (rq_s b)) as [y|e2|] eqn:E2.
      * destruct (spec_req_intersect (rq_t a) (rq_t b)) as [z|e3|] eqn:E3.
        -- unfold reqs_new in R. unfold shielded_possible. cbn [rq_o rq_s].
           destruct (req_eqb x Omit && req_eqb y Omit); exact R.
        -- destruct e3; [exact R|]. destruct (rq_t a), (rq_t b); discriminate.
        -- destruct (rq_t a), (rq_t b); discriminate.
      * destruct e2; [exact R|]. destruct (rq_s a), (rq_s b); discriminate.
      * destruct (rq_s a), (rq_s b); discriminate.
    + destruct e1; [exact R|]. destruct (rq_o a), (rq_o b); discriminate.
    + destruct (rq_o a), (rq_o b); discriminate.
  - (* CRecvReq *)
    change (recv_prop k r o = true). pose proof (recv_prop_model k r) as M.
    destruct (receiver_requirements k r) as [q0|e0|]; destruct o as [q|e|]; cbn in R; try discriminate.
    + apply reqs_eqb_true in R. subst. exact M.
    + exact M.
  - exact R.
  - (* CUfvkToUivk *)
    rewrite ufvk_to_uivk_spec in R. destruct (spec_ivk_of_fvk (orc_of t) k) as [i|]; destruct o; cbn in R; try discriminate; auto.
  - reflexivity.
  - destruct (spec_uivk_of (orc_of t) k) as [i|] eqn:E; [|reflexivity].
    rewrite (model_addrs_spec _ _ _ _ _ E) in R.
    apply list_eqb_repeat in R. destruct R as [L F]. apply andb_true_iff; split; [apply Nat.eqb_eq; exact L | exact F].
  - (* CLegacy: the encoders *)
    destruct l; try discriminate; cbn [lrun lprop legacy_encode t_encode] in *; try exact R;
      destruct a; exact R.
  - (* CGap: limit_for *)
    destruct g; try discriminate. exact R.
Qed.
