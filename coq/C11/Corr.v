(** C11 — correspondence cases. One constructor per public API operation: inputs, the per-case
    oracle table (real values of the external cryptography, obtained by the harness through the
    external crates' own functions), and the implementation's observed outcome.
    [run_case]: model = implementation.  [prop_case]: the property (Spec.v) on the
    implementation's outcome. *)
From V.Lib Require Import Base Hex.
From V.Gen Require Import C11Consts.
From V.C11 Require Import Model Spec Tab Eqb Legacy CorrLegacy Gap CorrGap Extra CorrExtra.
Local Open Scope N_scope.

(* ------------------------------------------------------------------------------------------ *)
(** * Cases *)

Inductive keylvl := LUsk (k : usk) | LUfvk (k : ufvk) | LUivk (k : uivk).

Inductive case :=
(* requirement algebra *)
| CIntersect (a b : req) (o : outcome req rr_err)
| CReqsNew (a b c : req) (o : outcome reqs rr_err)
| CReqsUnsafeNew (a b c : req) (o : outcome reqs unit)
| CReqsIntersect (a b : reqs) (o : outcome reqs rr_err)
| CRecvReq (k : uivk) (r : request) (o : outcome reqs aerr)
(* projections *)
| CUskToUfvk (t : otab) (k : usk) (o : ufvk)
| CUfvkToUivk (t : otab) (k : ufvk) (o : outcome uivk unit)
(* USK byte container *)
| CUskEncode (k : usk) (o : bytes)
| CUskDecode (t : otab) (orig : option usk) (b : bytes) (o : outcome (usk * bytes) dec_err)
(* UFVK / UIVK string encodings, below Bech32m and F4Jumble *)
| CUfvkEncode (net : N) (k : ufvk) (o : outcome (bytes * bytes) unit)
| CUfvkDecode (t : otab) (net : N) (orig : option ufvk) (i : dinput) (o : outcome (ufvk * (bytes * bytes)) derr)
| CUivkEncode (net : N) (k : uivk) (o : outcome (bytes * bytes) unit)
| CUivkDecode (t : otab) (net : N) (orig : option uivk) (i : dinput) (o : outcome (uivk * (bytes * bytes)) derr)
(* address derivation: outcomes at the level of the key and at every level below it *)
| CAddr (t : otab) (k : keylvl) (j : N) (r : request) (os : list addr_res)
| CFind (t : otab) (k : keylvl) (j : N) (r : request) (os : list find_res)
(* clauses that are cryptographic: checked by the harness, reported as observed booleans *)
| CCrypto (kind : N) (ok : bool)
(* zcash_keys::encoding (legacy Sapling / transparent encodings) *)
| CLegacy (l : lcase)
(* gap_limits.rs *)
| CGap (g : gcase)
(* unified-address decode path; viewing keys without `transparent-inputs` *)
| CExtra (x : xcase).

(* ------------------------------------------------------------------------------------------ *)
(** * Model = implementation *)

Definition model_addrs (O : oracles) (k : keylvl) (j : N) (r : request) : list addr_res :=
  match k with
  | LUsk u => [usk_address O u j r; ufvk_address O (usk_to_ufvk O u) j r;
               match ufvk_to_uivk O (usk_to_ufvk O u) with Ok i => uivk_address O i j r | _ => Panic end]
  | LUfvk f => [ufvk_address O f j r;
                match ufvk_to_uivk O f with Ok i => uivk_address O i j r | _ => Panic end]
  | LUivk i => [uivk_address O i j r]
  end.

(** fuel for [find_address]: the harness only searches short distances *)
Definition find_fuel : nat := 4096.

Definition model_finds (O : oracles) (k : keylvl) (j : N) (r : request) : list find_res :=
  match k with
  | LUsk u => [ufvk_find_address O find_fuel (usk_to_ufvk O u) j r]
  | LUfvk f => [ufvk_find_address O find_fuel f j r;
                match ufvk_to_uivk O f with Ok i => uivk_find_address O find_fuel i j r | _ => Panic end]
  | LUivk i => [uivk_find_address O find_fuel i j r]
  end.

Definition run_case (c : case) : bool :=
  match c with
  | CIntersect a b o => outcome_eqb req_eqb rr_err_eqb (req_intersect a b) o
  | CReqsNew a b c o => outcome_eqb reqs_eqb rr_err_eqb (reqs_new a b c) o
  | CReqsUnsafeNew a b c o => outcome_eqb reqs_eqb unit_eqb (reqs_unsafe_new a b c) o
  | CReqsIntersect a b o => outcome_eqb reqs_eqb rr_err_eqb (reqs_intersect a b) o
  | CRecvReq k r o => outcome_eqb reqs_eqb aerr_eqb (receiver_requirements k r) o
  | CUskToUfvk t k o => ufvk_eqb (usk_to_ufvk (orc_of t) k) o
  | CUfvkToUivk t k o => outcome_eqb uivk_eqb unit_eqb (ufvk_to_uivk (orc_of t) k) o
  | CUskEncode k o => bytes_eqb (usk_to_bytes k) o
  | CUskDecode t _ b o =>
      outcome_eqb (pair_eqb usk_eqb bytes_eqb) dec_err_eqb
        (match usk_from_bytes (orc_of t) b with
         | Ok k => Ok (k, usk_to_bytes k) | Err e => Err e | Panic => Panic end) o
  | CUfvkEncode net k o => outcome_eqb enc_eqb unit_eqb (ufvk_encode net k) o
  | CUfvkDecode t net _ i o =>
      outcome_eqb (pair_eqb ufvk_eqb enc_eqb) derr_eqb
        (with_reenc (ufvk_encode net) (ufvk_decode (orc_of t) net i)) o
  | CUivkEncode net k o => outcome_eqb enc_eqb unit_eqb (uivk_encode net k) o
  | CUivkDecode t net _ i o =>
      outcome_eqb (pair_eqb uivk_eqb enc_eqb) derr_eqb
        (with_reenc (uivk_encode net) (uivk_decode (orc_of t) net i)) o
  | CAddr t k j r os => list_eqb addr_res_eqb (model_addrs (orc_of t) k j r) os
  | CFind t k j r os => list_eqb find_res_eqb (model_finds (orc_of t) k j r) os
  | CCrypto _ ok => ok      (* the model of an observed clause is that it holds *)
  | CLegacy l => lrun l
  | CGap g => grun g
  | CExtra x => xrun x
  end.

(* ------------------------------------------------------------------------------------------ *)
(** * The property on the implementation's outcome *)

Definition spec_uivk_of (O : oracles) (k : keylvl) : option uivk :=
  match k with
  | LUsk u => spec_ivk_of_fvk O (spec_fvk_of_sk O u)
  | LUfvk f => spec_ivk_of_fvk O f
  | LUivk i => Some i
  end.

Definition levels (k : keylvl) : nat := match k with LUsk _ => 3 | LUfvk _ => 2 | LUivk _ => 1 end%nat.

Definition prop_case (c : case) : bool :=
  match c with
  | CIntersect a b o =>
      outcome_eqb req_eqb rr_err_eqb (spec_req_intersect a b) o
  | CReqsNew a b c o =>
      (* exactly the requests that can produce a shielded receiver are accepted, unchanged *)
      match o with
      | Ok q => shielded_possible (mkReqs a b c) && reqs_eqb q (mkReqs a b c)
      | Err e => negb (shielded_possible (mkReqs a b c)) && rr_err_eqb e NoShieldedReceiver
      | Panic => false
      end
  | CReqsUnsafeNew a b c o =>
      match o with
      | Ok q => shielded_possible (mkReqs a b c) && reqs_eqb q (mkReqs a b c)
      | Err _ => false
      | Panic => negb (shielded_possible (mkReqs a b c))   (* documented panic *)
      end
  | CReqsIntersect a b o =>
      (* componentwise meet; conflicts and shielded-less results are errors *)
      match spec_req_intersect (rq_o a) (rq_o b), spec_req_intersect (rq_s a) (rq_s b),
            spec_req_intersect (rq_t a) (rq_t b) with
      | Ok x, Ok y, Ok z =>
          if shielded_possible (mkReqs x y z)
          then outcome_eqb reqs_eqb rr_err_eqb (Ok (mkReqs x y z)) o
          else outcome_eqb reqs_eqb rr_err_eqb (Err NoShieldedReceiver) o
      | _, _, _ => outcome_eqb reqs_eqb rr_err_eqb (Err Conflict) o
      end
  | CRecvReq k r o =>
      (* a request is accepted iff every Require names a pool the key has *)
      match o with
      | Ok q => match effective k r with
                | Some q' => reqs_eqb q q'
                             && negb (required (rq_o q) && negb (is_some (ivk_o k)))
                             && negb (required (rq_s q) && negb (is_some (ivk_s k)))
                             && negb (required (rq_t q) && negb (is_some (ivk_t k)))
                | None => false
                end
      | Err _ => match effective k r with
                 | Some q => (required (rq_o q) && negb (is_some (ivk_o k)))
                             || (required (rq_s q) && negb (is_some (ivk_s k)))
                             || (required (rq_t q) && negb (is_some (ivk_t k)))
                 | None => true
                 end
      | Panic => false
      end
  | CUskToUfvk t k o => ufvk_eqb (spec_fvk_of_sk (orc_of t) k) o
  | CUfvkToUivk t k o =>
      match spec_ivk_of_fvk (orc_of t) k, o with
      | Some i, Ok i' => uivk_eqb i i'
      | None, Panic => true      (* outside the constructors' invariant *)
      | _, _ => false
      end
  | CUskEncode k o => true      (* the byte format is fixed by the round trip below *)
  | CUskDecode t orig b o =>
      match orig with
      | Some k => (* b = to_bytes k for a real key: decodes to k, re-encodes to b *)
          outcome_eqb (pair_eqb usk_eqb bytes_eqb) dec_err_eqb (Ok (k, b)) o
      | None =>   (* arbitrary bytes: no panic unless an external decoder panics *)
          match o with
          | Panic => tab_has_panic t
          | _ => true
          end
      end
  | CUfvkEncode net k o =>
      match o with Ok _ => true | Err _ => false
      | Panic => negb (is_some (fvk_s k) || is_some (fvk_o k) || negb (match fvk_unknown k with [] => true | _ => false end)) end
  | CUfvkDecode t net orig i o =>
      match orig with
      | Some k => (* i is the encoding of k: decodes to k and re-encodes to the same string *)
          match i, o with
          | Bech hrp (Some raw), Ok (k', e) => ufvk_eqb k k' && enc_eqb (hrp, raw) e
          | _, _ => false
          end
      | None =>
          match i, o with
          | _, Panic => tab_has_panic t
          | Bech hrp (Some raw), Ok (_, e) => (* accepted strings are canonical *)
              if tab_canonical t then enc_eqb (hrp, raw) e else true
          | _, Ok _ => false
          | _, Err _ => true
          end
      end
  | CUivkEncode net k o =>
      match o with Ok _ => true | Err _ => false
      | Panic => negb (is_some (ivk_s k) || is_some (ivk_o k) || negb (match ivk_unknown k with [] => true | _ => false end)) end
  | CUivkDecode t net orig i o =>
      match orig with
      | Some k =>
          match i, o with
          | Bech hrp (Some raw), Ok (k', e) => uivk_eqb k k' && enc_eqb (hrp, raw) e
          | _, _ => false
          end
      | None =>
          match i, o with
          | _, Panic => tab_has_panic t
          | Bech hrp (Some raw), Ok (_, e) => if tab_canonical t then enc_eqb (hrp, raw) e else true
          | _, Ok _ => false
          | _, Err _ => true
          end
      end
  | CAddr t k j r os =>
      (* every level yields the address the specification prescribes for the key's external IVK *)
      match spec_uivk_of (orc_of t) k with
      | Some i =>
          (length os =? levels k)%nat
          && forallb (fun o => addr_res_eqb (spec_address (orc_of t) i j r) o) os
      | None => true
      end
  | CFind t k j r os =>
      match spec_uivk_of (orc_of t) k with
      | Some i =>
          forallb (fun o =>
            match o with
            | Ok (a, j') =>
                if (j <=? j') && (j' - j <? 4096)
                then addr_res_eqb (spec_address (orc_of t) i j' r) (Ok a)
                     && all_skipped (orc_of t) i r j (N.to_nat (j' - j))
                else false
            | Err DiversifierSpaceExhausted =>
                (* only when every index up to the end of the space was skipped *)
                if DIVERSIFIER_SPACE - j <=? 4096
                then all_skipped (orc_of t) i r j (N.to_nat (DIVERSIFIER_SPACE - j))
                else false
            | Err e =>
                (* the error of the first index that is not skipped *)
                let j' := match e with InvalidTransparentChildIndex x => x | _ => j end in
                if (j <=? j') && (j' - j <? 4096)
                then addr_res_eqb (spec_address (orc_of t) i j' r) (Err e)
                     && all_skipped (orc_of t) i r j (N.to_nat (j' - j))
                else false
            | Panic => false
            end) os
      | None => true
      end
  | CCrypto _ ok => ok
  | CLegacy l => lprop l
  | CGap g => gprop g
  | CExtra x => xprop x
  end.

(** Known-finding classes: none. *)
Definition known_class (c : case) : N := 0.

(* ------------------------------------------------------------------------------------------ *)
(** * Path tags *)

Definition req_n (r : req) : N := match r with Require => 0 | Allow => 1 | Omit => 2 end.
Definition oc {A E} (o : outcome A E) : N := match o with Ok _ => 0 | Err _ => 1 | Panic => 2 end.
Definition aerr_n (e : aerr) : N :=
  match e with
  | InvalidTransparentChildIndex _ => 1 | InvalidSaplingDiversifierIndex _ => 2
  | DiversifierSpaceExhausted => 3 | ReceiverTypeNotSupported _ => 4 | KeyNotAvailable _ => 5
  | ShieldedReceiverRequired => 6 | FindOutOfFuel => 7
  end.
Definition dec_err_n (e : dec_err) : N :=
  match e with
  | ReadError w => 1 + w | EraInvalid => 4 | EraMismatch => 5 | TypecodeInvalid => 6
  | LengthInvalid => 7 | LengthMismatch _ _ => 8 | InsufficientData _ => 9
  | KeyDataInvalid t => 10 + tc_to_u32 t | OutOfFuel => 19
  end.
Definition parse_err_n (e : parse_err) : N :=
  match e with
  | BothP2phkAndP2sh => 1 | DuplicateTypecode _ => 2 | InvalidTypecodeValue _ => 3
  | InvalidEncoding => 4 | InvalidTypecodeOrder => 5 | OnlyTransparent => 6 | NotUnified => 7
  | UnknownPrefix => 8 | ParseOutOfFuel => 9
  end.
Definition derr_n (e : derr) : N :=
  match e with EParse p => parse_err_n p | ENetwork => 10 | EKey k => 20 + dec_err_n k end.
Definition ua_shape (a : ua) : N :=
  (if is_some (ua_o a) then 4 else 0) + (if is_some (ua_s a) then 2 else 0) + (if is_some (ua_t a) then 1 else 0).
Definition addr_n (o : addr_res) : N :=
  match o with Ok a => ua_shape a | Err e => 10 + aerr_n e | Panic => 19 end.
Definition lvl_n (k : keylvl) : N := match k with LUsk _ => 0 | LUfvk _ => 1 | LUivk _ => 2 end.
Definition request_n (r : request) : N :=
  match r with AllAvailableKeys => 0 | Custom _ => 1 end.

Definition tag_case (c : case) : N :=
  match c with
  | CIntersect a b _ => 100 + 3 * req_n a + req_n b
  | CReqsNew _ _ _ o => 110 + oc o
  | CReqsUnsafeNew _ _ _ o => 115 + oc o
  | CReqsIntersect _ _ o => 120 + match o with Ok _ => 0 | Err Conflict => 1 | Err _ => 2 | Panic => 3 end
  | CRecvReq _ r o => 130 + 3 * request_n r + oc o
  | CUskToUfvk _ _ _ => 140
  | CUfvkToUivk _ _ o => 141 + oc o
  | CUskEncode _ _ => 150
  | CUskDecode _ orig _ o =>
      200 + (if is_some orig then 0 else 30) + match o with Ok _ => 0 | Err e => dec_err_n e | Panic => 29 end
  | CUfvkEncode _ _ o => 300 + oc o
  | CUfvkDecode _ _ orig _ o =>
      400 + (if is_some orig then 0 else 50) + match o with Ok _ => 0 | Err e => derr_n e | Panic => 49 end
  | CUivkEncode _ _ o => 310 + oc o
  | CUivkDecode _ _ orig _ o =>
      500 + (if is_some orig then 0 else 50) + match o with Ok _ => 0 | Err e => derr_n e | Panic => 49 end
  | CAddr _ k _ r os =>
      1000 + 100 * lvl_n k + 20 * request_n r + match os with o :: _ => addr_n o | [] => 19 end
  | CFind _ k j _ os =>
      2000 + 100 * lvl_n k
      + match os with
        | Ok (a, j') :: _ => if j' =? j then ua_shape a else 8
        | Err e :: _ => 10 + aerr_n e
        | _ => 19
        end
  | CCrypto kind ok => 3000 + 2 * kind + (if ok then 0 else 1)
  | CLegacy l => ltag l
  | CGap g => gtag g
  | CExtra x => xtag x
  end.
