(** C11 — boolean equalities on model values (used by the correspondence files). *)
From V.Lib Require Import Base Hex.
From V.Gen Require Import C11Consts.
From V.C11 Require Import Model Spec.
Local Open Scope N_scope.

(* ------------------------------------------------------------------------------------------ *)
(** * Boolean equalities *)

Definition obytes_eqb := option_eqb bytes_eqb.
Definition item_eqb (a b : item) : bool := (fst a =? fst b) && bytes_eqb (snd a) (snd b).
Definition items_eqb := list_eqb item_eqb.
Definition unit_eqb (_ _ : unit) := true.

Definition tc_eqb (a b : tc) : bool :=
  match a, b with
  | TcP2pkh, TcP2pkh | TcP2sh, TcP2sh | TcSapling, TcSapling | TcOrchard, TcOrchard => true
  | TcUnknown x, TcUnknown y => x =? y
  | _, _ => false
  end.
Definition rr_err_eqb (a b : rr_err) : bool :=
  match a, b with Conflict, Conflict | NoShieldedReceiver, NoShieldedReceiver => true | _, _ => false end.
Definition reqs_eqb (a b : reqs) : bool :=
  req_eqb (rq_o a) (rq_o b) && req_eqb (rq_s a) (rq_s b) && req_eqb (rq_t a) (rq_t b).
Definition usk_eqb (a b : usk) : bool :=
  bytes_eqb (usk_t a) (usk_t b) && bytes_eqb (usk_s a) (usk_s b) && bytes_eqb (usk_o a) (usk_o b).
Definition ufvk_eqb (a b : ufvk) : bool :=
  obytes_eqb (fvk_t a) (fvk_t b) && obytes_eqb (fvk_s a) (fvk_s b) && obytes_eqb (fvk_o a) (fvk_o b)
  && items_eqb (fvk_unknown a) (fvk_unknown b).
Definition uivk_eqb (a b : uivk) : bool :=
  obytes_eqb (ivk_t a) (ivk_t b) && obytes_eqb (ivk_s a) (ivk_s b) && obytes_eqb (ivk_o a) (ivk_o b)
  && items_eqb (ivk_unknown a) (ivk_unknown b).
Definition ua_eqb (a b : ua) : bool :=
  obytes_eqb (ua_o a) (ua_o b) && obytes_eqb (ua_s a) (ua_s b) && obytes_eqb (ua_t a) (ua_t b).
Definition dec_err_eqb (a b : dec_err) : bool :=
  match a, b with
  | ReadError x, ReadError y => x =? y
  | EraInvalid, EraInvalid | EraMismatch, EraMismatch | TypecodeInvalid, TypecodeInvalid
  | LengthInvalid, LengthInvalid | OutOfFuel, OutOfFuel => true
  | LengthMismatch t l, LengthMismatch t' l' => tc_eqb t t' && (l =? l')
  | InsufficientData t, InsufficientData t' => tc_eqb t t'
  | KeyDataInvalid t, KeyDataInvalid t' => tc_eqb t t'
  | _, _ => false
  end.
Definition parse_err_eqb (a b : parse_err) : bool :=
  match a, b with
  | BothP2phkAndP2sh, BothP2phkAndP2sh | InvalidEncoding, InvalidEncoding
  | InvalidTypecodeOrder, InvalidTypecodeOrder | OnlyTransparent, OnlyTransparent
  | NotUnified, NotUnified | UnknownPrefix, UnknownPrefix | ParseOutOfFuel, ParseOutOfFuel => true
  | DuplicateTypecode x, DuplicateTypecode y => x =? y
  | InvalidTypecodeValue x, InvalidTypecodeValue y => x =? y
  | _, _ => false
  end.
Definition derr_eqb (a b : derr) : bool :=
  match a, b with
  | EParse x, EParse y => parse_err_eqb x y
  | ENetwork, ENetwork => true
  | EKey x, EKey y => dec_err_eqb x y
  | _, _ => false
  end.
Definition aerr_eqb (a b : aerr) : bool :=
  match a, b with
  | InvalidTransparentChildIndex x, InvalidTransparentChildIndex y => x =? y
  | InvalidSaplingDiversifierIndex x, InvalidSaplingDiversifierIndex y => x =? y
  | DiversifierSpaceExhausted, DiversifierSpaceExhausted
  | ShieldedReceiverRequired, ShieldedReceiverRequired | FindOutOfFuel, FindOutOfFuel => true
  | ReceiverTypeNotSupported x, ReceiverTypeNotSupported y => tc_eqb x y
  | KeyNotAvailable x, KeyNotAvailable y => tc_eqb x y
  | _, _ => false
  end.
Definition enc_eqb (a b : bytes * bytes) : bool := bytes_eqb (fst a) (fst b) && bytes_eqb (snd a) (snd b).

Definition addr_res := outcome ua aerr.
Definition addr_res_eqb := outcome_eqb ua_eqb aerr_eqb.
Definition find_res := outcome (ua * N) aerr.
Definition find_res_eqb := outcome_eqb (pair_eqb ua_eqb N.eqb) aerr_eqb.

