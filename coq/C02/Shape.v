(** C02 — syntactic transaction shape of a write method (classified by the extractor in
    vlib/props/c02.py from the current source of /repo; the table itself is coq/Gen/C02Shapes.v). *)
From Coq Require Import String List Bool.
Import ListNotations.

Inductive shape :=
| Txn          (* whole body is one [self.transactionally(|wdb| ...)] call *)
| TxnExt       (* whole body is one [self.transactionally_with_extension(...)] call *)
| TxnExplicit  (* let tx = conn.transaction()?; ...?; tx.commit()?; Ok(..) — one begin, one commit, last *)
| Delegates    (* body is a single call of another classified method on the same store *)
| ReadOnly     (* body issues no write statement and opens no transaction *)
| SingleStmt   (* reads followed by exactly one autocommitted write statement (hand-justified) *)
| Other.       (* anything else: not accepted *)

Definition atomic_shape (s : shape) : bool :=
  match s with Other => false | _ => true end.

Definition shape_code (s : shape) : nat :=
  match s with Txn => 1 | TxnExt => 2 | TxnExplicit => 3 | Delegates => 4 | ReadOnly => 5
             | SingleStmt => 6 | Other => 0 end.

Fixpoint lookup_shape (n : string) (l : list (string * shape)) : option shape :=
  match l with
  | [] => None
  | (k, s) :: r => if String.eqb k n then Some s else lookup_shape n r
  end.
