(** C02 — correspondence cases. One [CRun] per executed API call on the real SQLite backend:
    the hook event trace of the writer connection (with the events of a second, reading
    connection interleaved), the digests of the canonical dump before the call and after an
    uninterrupted reference run, the digests observed during / after this run, and the retry.

    [run_case] : the reference semantics of Model.v ([step], i.e. the *trusted* behaviour of
                 SQLite) applied to the observed trace predicts every observed digest.
    [prop_case]: the property on the implementation's outcome alone: the trace obeys the bracket
                 discipline, every digest is the one before or the one after, an error (and an
                 injected fault) leaves the one before, the retry reaches the one after. *)
From Coq Require Import String.
From V.Lib Require Import Base.
From V.C02 Require Import Shape Model.
From V.Gen Require Import C02Shapes.
Local Open Scope N_scope.

Definition rle := list (ev * N).
Fixpoint expand (l : rle) : trace :=
  match l with
  | [] => []
  | (e, c) :: r => repeat e (N.to_nat c) ++ expand r
  end.

(** observation = (number of events recorded when it was taken, kind, digest; 0 = unavailable)
    kinds: 0 writer connection after the call; 1 second connection after the call;
           2 second connection while the call runs; 3 crash image (file + journal/WAL copied,
           reopened); 4 two-statement read inside one read transaction (concatenated digest);
           5 two-statement read outside a read transaction (no requirement: witness of tearing) *)
Definition obs := (N * N * N)%type.

(** run kinds: 0 uninterrupted; 1 fault at VM step k (k = 0: the fault never fired); 2 commit
    vetoed (k = 1 when the veto fired); 3 live second-connection dumps; 4 bracketed reader;
    5 unbracketed reader; 6 uninterrupted run that the wallet refuses; 7 fault inside a refused
    call.  mode: 0 rollback journal, 1 WAL, 2 rollback journal with a one-page cache (spills). *)
Inductive case :=
| CRun (method : string) (kind k mode : N) (tr : rle) (refw : rle) (pre post : N)
       (observations : list obs) (retry_tr : rle) (retry_d : N)
(** A real multi-statement read API documented as a snapshot ([api]; e.g. get_wallet_summary) on a
    reader connection; at its statement boundary [k] a complete writer call runs on a second
    connection. [tr]: the reader's events (RBegin/REnd from its autocommit flag, one RRead per
    statement) with the writer call's trace spliced in where it ran. [pre]/[post]: digest of what
    the API returns on the state before / after the writer call; [res]: what it returned. *)
| CRead (api : string) (k mode : N) (tr : rle) (pre post res : N).

(** ---- helpers -------------------------------------------------------------------------- *)

Definition ln_eqb := list_eqb N.eqb.

Fixpoint has_ev (f : ev -> bool) (t : trace) : bool :=
  match t with [] => false | e :: r => f e || has_ev f r end.
Definition is_commit e := match e with Commit => true | _ => false end.
Definition is_rollback e := match e with Rollback => true | _ => false end.
Definition is_write e := match e with Write _ => true | _ => false end.
Definition is_txnend e := match e with TxnEnd => true | _ => false end.

(** result of the call, read off the trace *)
Fixpoint op_ok (t : trace) : option bool :=
  match t with
  | [] => None
  | OpEnd b :: r => match op_ok r with Some x => Some x | None => Some b end
  | _ :: r => op_ok r
  end.

Inductive cls := CPre | CPost | CThird.
Definition classify (refw log : list N) : cls :=
  match log with
  | [] => CPre
  | _ => if ln_eqb log refw then CPost else CThird
  end.
Definition agrees (c : cls) (d pre post : N) : bool :=
  (d =? 0) || match c with CPre => d =? pre | CPost => d =? post | CThird => true end.

Definition visible (m : mstate (list N)) : list N :=
  match pending m with Some p => p | None => durable m end.

(** what the reader's statements returned according to the model: Some x when all agree *)
Definition reader_view (m : mstate (list N)) : option (list N) :=
  match snaps m with
  | [] => None
  | x :: r => if forallb (ln_eqb x) r then Some x else None
  end.

Definition predict (t : trace) (refw : list N) (o : obs) : option cls :=
  let '(p, kd, _) := o in
  match kd with
  | 0 => Some (classify refw (visible (log_sem (firstn (N.to_nat p) t))))
  | 1 | 2 | 3 => Some (classify refw (durable (log_sem (firstn (N.to_nat p) t))))
  | _ => match reader_view (log_sem t) with Some x => Some (classify refw x) | None => None end
  end.

Definition obs_agrees (t : trace) (refw : list N) (pre post : N) (o : obs) : bool :=
  match predict t refw o with
  | Some c => agrees c (snd o) pre post
  | None => true
  end.

(** the reader's view according to the model, classified against the trace's own writes *)
Definition read_predict (t : trace) : option cls :=
  match reader_view (log_sem t) with
  | Some x => Some (classify (writes_of t) x)
  | None => None
  end.

Definition run_case (c : case) : bool :=
  match c with
  | CRead _ _ _ tr pre post res =>
      match read_predict (expand tr) with
      | Some cl => agrees cl res pre post
      | None => true
      end
  | CRun _ kind k mode tr refw pre post os rtr rd =>
      let t := expand tr in
      let rw := writes_of (expand refw) in
      forallb (obs_agrees t rw pre post) os &&
      (* the retry starts from the state the failed call left *)
      match expand rtr with
      | [] => true
      | rt =>
          match classify rw (durable (log_sem t)) with
          | CPre => agrees (classify rw (durable (log_sem rt))) rd pre post
          | _ => true
          end
      end
  end.

(** ---- the property on the observed outcome ------------------------------------------------- *)

Definition in2 (d pre post : N) : bool := (d =? 0) || (d =? pre) || (d =? post).

Definition obs_ok (ok : bool) (len pre post : N) (o : obs) : bool :=
  let '(p, kd, d) := o in
  match kd with
  | 5 => true
  | 0 | 1 =>
      (* after the call: success = the state after, error = the state before *)
      negb (d =? 0) && (if ok then d =? post else d =? pre)
  | _ => in2 d pre post
  end.

Definition is_fault_kind (kind : N) : bool := (kind =? 1) || (kind =? 2) || (kind =? 7).

Definition prop_case (c : case) : bool :=
  match c with
  | CRead _ _ _ tr pre post res =>
      let t := expand tr in
      (* every statement of the read sits in one read transaction *)
      disciplined_reader t &&
      (* the writer call that ran meanwhile is itself disciplined *)
      disciplined (writer_part t) &&
      (* what the API returned is what it returns before or after the writer call *)
      negb (res =? 0) && ((res =? pre) || (res =? post)) &&
      (if has_ev is_commit t then true else res =? pre)
  | CRun _ kind k mode tr refw pre post os rtr rd =>
      let t := expand tr in
      match op_ok t with
      | None => false
      | Some ok =>
          disciplined t &&
          forallb (obs_ok ok (N.of_nat (length t)) pre post) os &&
          (* an injected fault is reported, not swallowed *)
          (if is_fault_kind kind && negb (k =? 0) then negb ok else true) &&
          (* a refused call stays refused *)
          (if (kind =? 6) || (kind =? 7) then negb ok else true) &&
          (* repeating the failed call succeeds and reaches the uninterrupted result *)
          (if ((kind =? 1) || (kind =? 2)) && negb ok then
             let rt := expand rtr in
             disciplined rt && match op_ok rt with Some true => rd =? post | _ => false end
           else true)
      end
  end.

Definition known_class (c : case) : N := 0.

(** path tag: run kind, pager mode bit, and how the call ended *)
Definition ending (t : trace) : N :=
  if negb (disciplined t) then 5
  else if has_ev is_commit t then 3
  else if has_ev is_rollback t then (if has_ev is_write t then 2 else 1)
  else if has_ev is_txnend t then 4
  else 0.

Definition tag_case (c : case) : N :=
  match c with
  | CRead _ _ mode tr pre post res =>
      48 + 4 * mode + (if has_ev is_commit (expand tr) then (if res =? post then (if res =? pre then 3 else 2) else 1) else 0)
  | CRun _ kind k mode tr _ _ _ _ _ _ => kind * 6 + ending (expand tr)
  end.
