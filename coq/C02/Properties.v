(** C02 — wallet database writes are all-or-nothing and never observed half-applied.
    Statements only; proofs are in Proofs.v / Bridge.v.

    Reading guide.  [sem St apply t db] is the reference behaviour of a database with atomic
    commit and snapshot isolation (Model.v, *trusted* to describe SQLite) on an event trace [t]
    starting from state [db]; it is parametric in the state type [St] and in how a write acts
    on it.  [disciplined t] is the decidable bracket discipline that the harness checks on the
    event trace of every real API call.  [op_trace o body ok] is one API call. *)
From Coq Require Import String.
From V.Lib Require Import Base.
From V.C02 Require Import Shape Model Proofs Corr Wf Bridge.
From V.Gen Require Import C02Shapes.
Local Open Scope N_scope.

(** A disciplined call, cut at ANY point (prefix [p]), with or without a crash right there,
    leaves as durable state either the state before the call or the state with ALL writes of the
    call applied; if the call reports an error it is the state before. *)
Theorem C02_disciplined_atomic :
  forall (St : Type) (apply : N -> St -> St) (db : St) (o : N) (body : trace) (ok : bool) (p r : trace),
    no_marks body -> disciplined (op_trace o body ok) = true -> op_trace o body ok = p ++ r ->
    let d := durable (sem St apply p db) in
    let post := apply_all St apply (writes_of body) db in
    (d = db \/ d = post) /\ (ok = false -> d = db) /\ durable (sem St apply (p ++ [Crash]) db) = d.
Proof. exact atomic_prefix. Qed.

(** The complete call: success publishes all its writes at once, an error publishes nothing;
    no transaction is left open. *)
Theorem C02_disciplined_complete :
  forall (St : Type) (apply : N -> St -> St) (db : St) (o : N) (body : trace) (ok : bool),
    no_marks body -> disciplined (op_trace o body ok) = true ->
    durable (sem St apply (op_trace o body ok) db) = (if ok then apply_all St apply (writes_of body) db else db)
    /\ pending (sem St apply (op_trace o body ok) db) = None.
Proof. exact atomic_complete. Qed.

(** A second connection that issues its [n] read statements inside ONE read transaction,
    interleaved in any way with a disciplined call, gets the same state from every statement:
    the state before the call or the state after it (before, if the call fails). *)
Theorem C02_disciplined_isolated :
  forall (St : Type) (apply : N -> St -> St) (db : St) (t : trace) (o : N) (wbody : trace) (ok : bool) (n : nat),
    writer_part t = op_trace o wbody ok -> no_marks wbody ->
    disciplined t = true ->
    reader_part t = RBegin :: repeat RRead n ++ [REnd] ->
    let post := apply_all St apply (writes_of t) db in
    exists x, snaps (sem St apply t db) = repeat x n /\ (x = db \/ x = post) /\ (ok = false -> x = db).
Proof. exact isolated. Qed.

(** Without the read transaction a two-statement read can see the state before in its first
    statement and the state after in its second (why the documented snapshot reads use
    unchecked_transaction()). *)
Theorem C02_unbracketed_read_torn :
  exists t : trace,
    disciplined t = true /\ reader_part t = [RRead; RRead] /\
    rev (snaps (log_sem t)) = [[]; [7]].
Proof. exact unbracketed_torn. Qed.

(** A failed disciplined call is invisible: running anything after it (in particular the same
    call again) behaves exactly as if the failed call had never happened. *)
Theorem C02_retry_same :
  forall (St : Type) (apply : N -> St -> St) (db : St) (o : N) (body t2 : trace),
    no_marks body -> disciplined (op_trace o body false) = true -> reader_part body = [] ->
    sem St apply (op_trace o body false ++ t2) db = sem St apply t2 db.
Proof. exact retry_same. Qed.

(** Any sequence of disciplined calls: the durable state is the fold of whole-call effects. *)
Theorem C02_atomic_seq :
  forall (St : Type) (apply : N -> St -> St) (cs : list (N * trace * bool)) (db : St),
    Forall (fun c => no_marks (snd (fst c)) /\ disciplined (op_tr c) = true) cs ->
    durable (sem St apply (concat (map op_tr cs)) db) = fold_left (fun d c => op_effect St apply c d) cs db
    /\ pending (sem St apply (concat (map op_tr cs)) db) = None.
Proof. exact atomic_seq. Qed.

(** The discipline is necessary: two autocommitted statements in one call (a write outside the
    bracket), or a commit on the error path, are rejected by the checker AND lose atomicity in
    the reference semantics. *)
Theorem C02_undisciplined_refuted :
  (exists t p r, disciplined t = false /\ t = p ++ r /\
       durable (log_sem (p ++ [Crash])) = [1] /\ durable (log_sem t) = [1; 2]) /\
  (exists t, disciplined t = false /\ op_ok t = Some false /\ durable (log_sem t) = [1]).
Proof. exact undisciplined_refuted. Qed.

(** Static obligation over the table regenerated from the current source: every method of the
    write traits (WalletWrite, OutputLockStore, WalletCommitmentTrees: enumerated from the trait
    definitions, cfg-gated methods included; a method the connection-owning impl does not
    override is judged on the trait's default body) and every store write has one of the accepted
    transaction shapes. *)
Theorem C02_all_methods_bracketed :
  forallb (fun p => atomic_shape (snd p)) shapes = true.
Proof. exact all_methods_bracketed. Qed.

(** Regression example (fixed in /repo): a call that commits once per pool, as
    remove_retained_checkpoints_below did through the trait default on a connection-owning
    wallet, is rejected by the checker and loses atomicity in the reference semantics. *)
Theorem C02_per_pool_commits_refuted :
  exists t p r, disciplined t = false /\ t = p ++ r /\
    durable (log_sem (p ++ [Crash])) = [126] /\ durable (log_sem t) = [126; 98].
Proof. exact per_pool_commits_refuted. Qed.

(** Static obligation over the regenerated list of places, in the non-test code of the wallet
    backend (lib.rs, wallet.rs, wallet/*.rs, pool_migration/*.rs), where the Result of an
    expression that touches the database is discarded (`if let Err/Ok`, `let _ =`, `.ok()`,
    `.unwrap_or*`, a `match` arm `Err(..)` producing no error): every such place has been
    inspected by hand (the flag is bound to a hash of the expression text). *)
Theorem C02_no_discarded_db_result :
  forallb (fun p : string * bool => snd p) swallows = true.
Proof. exact no_discarded_db_result. Qed.

(** Bridge: on a case in the theorems' domain whose observed digests agree with what the
    reference semantics predicts on the observed trace ([run_case]), a disciplined trace
    implies that every digest observed during or after the call — through the second
    connection, in a crash image — is the digest before or the digest after. *)
Theorem C02_bridge :
  forall m kind k mode tr refw pre post os rtr rd,
    let c := CRun m kind k mode tr refw pre post os rtr rd in
    wf_case c = true -> run_case c = true -> disciplined (expand tr) = true ->
    (kind =? 6) || (kind =? 7) = false ->
    forall p kd d, In (p, kd, d) os -> (kd =? 1) || (kd =? 2) || (kd =? 3) = true ->
    in2 d pre post = true.
Proof. exact bridge. Qed.

(** Static obligation: the read APIs documented as snapshots (get_wallet_summary, the migration
    oracles mined_height and check_step_satisfiability) open exactly one unchecked_transaction()
    and touch the connection nowhere else (no database read before or beside the bracket). *)
Theorem C02_snapshot_reads_bracketed :
  forallb (fun p : string * bool => snd p) snapshot_reads = true.
Proof. exact snapshot_reads_bracketed. Qed.

(** Bridge for the real snapshot reads: if the reader's observed statements all sit in one read
    transaction ([disciplined_reader]), the writer call that ran meanwhile is one disciplined
    call, and the returned value agrees with the reference semantics on the observed
    interleaving ([run_case]), then the API returned what it returns before the writer call or
    what it returns after it. *)
Theorem C02_read_bridge :
  forall a k mode tr pre post res,
    run_case (CRead a k mode tr pre post res) = true ->
    disciplined_reader (expand tr) = true ->
    single_op (writer_part (expand tr)) = true ->
    disciplined (expand tr) = true ->
    (res =? 0) = false ->
    (res =? pre) || (res =? post) = true.
Proof. exact read_bridge. Qed.

Example C02_nonvacuous :
  disciplined (op_trace 0 [Begin; Write 1; Write 2; Commit] true) = true /\
  durable (log_sem (op_trace 0 [Begin; Write 1; Write 2; Commit] true)) = [1; 2] /\
  disciplined (op_trace 0 [Begin; Write 1; Rollback] false) = true /\
  disciplined (op_trace 0 [Write 1; Commit; Write 2; Commit] true) = false.
Proof. repeat split; reflexivity. Qed.
