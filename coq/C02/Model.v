(** C02 — event traces of wallet write operations, the reference semantics of a database with
    atomic commit and snapshot isolation, and the bracket-discipline checker.

    What is modelled is the repository's responsibility (where BEGIN / COMMIT / ROLLBACK sit
    relative to the writes of one API call).  [step] is the *trusted* behaviour of SQLite:
    writes go to a pending overlay that COMMIT publishes and ROLLBACK / a crash discard; a
    write outside an explicit transaction opens the implicit transaction of its statement,
    which is published by that statement's own commit (so two autocommitted statements are
    two commits); a reader connection inside a read transaction keeps the published state of
    its first statement. *)
From V.Lib Require Import Base.
Local Open Scope N_scope.

Inductive ev :=
| OpStart (op : N)        (* the API call is entered *)
| OpEnd (ok : bool)       (* the API call returned Ok / Err *)
| Begin                   (* writer connection leaves autocommit mode *)
| Write (w : N)           (* one row change (table and action code) on the writer connection *)
| Commit                  (* commit hook: a write transaction (explicit or autocommit) commits *)
| Rollback                (* rollback hook *)
| TxnEnd                  (* explicit transaction closed without commit/rollback hook (it never wrote) *)
| StmtErr                 (* a statement of the writer connection aborted with an error (SQLite error log) *)
| Crash                   (* process dies; recovery discards whatever was pending *)
| RBegin | RRead | REnd.  (* second connection: read transaction bracket and read statements *)

Definition trace := list ev.

Section Sem.
  Variable St : Type.
  Variable apply : N -> St -> St.

  (** [rpin]: None = reader has no open bracket; Some None = bracket open, snapshot not yet
      taken; Some (Some s) = snapshot pinned. [snaps] is in reverse order of emission. *)
  Record mstate := MS { durable : St; pending : option St; rpin : option (option St); snaps : list St }.

  Definition init (db : St) : mstate := MS db None None [].

  Definition step (m : mstate) (e : ev) : mstate :=
    match e with
    | OpStart _ | OpEnd _ | StmtErr => m
    | Begin =>
        match pending m with
        | Some _ => m
        | None => MS (durable m) (Some (durable m)) (rpin m) (snaps m)
        end
    | Write w =>
        match pending m with
        | Some p => MS (durable m) (Some (apply w p)) (rpin m) (snaps m)
        | None => MS (durable m) (Some (apply w (durable m))) (rpin m) (snaps m)
        end
    | Commit =>
        match pending m with
        | Some p => MS p None (rpin m) (snaps m)
        | None => m
        end
    | Rollback | TxnEnd => MS (durable m) None (rpin m) (snaps m)
    | Crash => MS (durable m) None None (snaps m)
    | RBegin => MS (durable m) (pending m) (Some None) (snaps m)
    | REnd => MS (durable m) (pending m) None (snaps m)
    | RRead =>
        match rpin m with
        | None => MS (durable m) (pending m) None (durable m :: snaps m)
        | Some None => MS (durable m) (pending m) (Some (Some (durable m))) (durable m :: snaps m)
        | Some (Some s) => MS (durable m) (pending m) (rpin m) (s :: snaps m)
        end
    end.

  Definition run (m : mstate) (t : trace) : mstate := fold_left step t m.
  Definition sem (t : trace) (db : St) : mstate := run (init db) t.

  Definition apply_all (ws : list N) (db : St) : St := fold_left (fun s w => apply w s) ws db.
End Sem.

Arguments durable {St}. Arguments pending {St}. Arguments rpin {St}. Arguments snaps {St}.
Arguments MS {St}.

Fixpoint writes_of (t : trace) : list N :=
  match t with
  | [] => []
  | Write w :: r => w :: writes_of r
  | _ :: r => writes_of r
  end.

(** ---- bracket discipline ------------------------------------------------------------- *)

Inductive dstate :=
| Idle                 (* between API calls *)
| Started              (* inside a call, no transaction opened yet *)
| InTxn (wrote : bool) (* inside the call's one explicit transaction *)
| Committed            (* the transaction committed: only a successful return may follow *)
| RolledBack           (* the transaction rolled back: only an error return may follow *)
| Closed               (* a transaction that never wrote was closed *)
| FailedIn             (* a statement failed inside the open transaction: only a rollback may follow *)
| FailedOut.           (* a statement failed outside any transaction: only an error return may follow *)

Definition dstep (s : dstate) (e : ev) : option dstate :=
  match e with
  | RBegin | RRead | REnd => Some s
  | Crash => Some Idle
  | _ =>
    match s, e with
    | Idle, OpStart _ => Some Started
    | Started, Begin => Some (InTxn false)
    | Started, Write _ => Some (InTxn true)   (* one autocommitted statement: implicit transaction *)
    | Started, Rollback => Some RolledBack    (* an autocommitted statement failed before writing *)
    | Started, OpEnd _ => Some Idle
    | InTxn _, Write _ => Some (InTxn true)
    | InTxn _, Commit => Some Committed
    | InTxn _, Rollback => Some RolledBack
    | InTxn false, TxnEnd => Some Closed
    | Committed, OpEnd true => Some Idle
    | RolledBack, OpEnd false => Some Idle
    | Closed, OpEnd _ => Some Idle
    | InTxn _, StmtErr => Some FailedIn
    | FailedIn, StmtErr => Some FailedIn
    | FailedIn, Rollback => Some RolledBack
    | Started, StmtErr => Some FailedOut
    | FailedOut, StmtErr => Some FailedOut
    | FailedOut, Rollback => Some RolledBack
    | FailedOut, OpEnd false => Some Idle
    | RolledBack, StmtErr => Some RolledBack
    | _, _ => None
    end
  end.

Fixpoint drun (s : dstate) (t : trace) : option dstate :=
  match t with
  | [] => Some s
  | e :: r => match dstep s e with Some s' => drun s' r | None => None end
  end.

Definition dstate_eqb (a b : dstate) : bool :=
  match a, b with
  | Idle, Idle | Started, Started | Committed, Committed | RolledBack, RolledBack | Closed, Closed
  | FailedIn, FailedIn | FailedOut, FailedOut => true
  | InTxn x, InTxn y => Bool.eqb x y
  | _, _ => false
  end.

(** A trace (any number of API calls) is disciplined when the automaton accepts it and ends
    between calls. Every prefix of a disciplined trace is accepted too ([drun] is a fold). *)
Definition disciplined (t : trace) : bool :=
  match drun Idle t with Some Idle => true | _ => false end.

(** Acceptance of a prefix only (an operation cut short by a crash). *)
Definition disciplined_prefix (t : trace) : bool :=
  match drun Idle t with Some _ => true | None => false end.

Definition is_reader (e : ev) : bool :=
  match e with RBegin | RRead | REnd => true | _ => false end.
Definition is_opmark (e : ev) : bool :=
  match e with OpStart _ | OpEnd _ | Crash => true | _ => false end.

Definition writer_part (t : trace) : trace := filter (fun e => negb (is_reader e)) t.
Definition reader_part (t : trace) : trace := filter is_reader t.

(** The reader issues all its statements inside one read transaction ([disciplined_reader]). *)
Fixpoint reads_then_end (t : trace) : bool :=
  match t with
  | [REnd] => true
  | RRead :: r => reads_then_end r
  | _ => false
  end.
Definition one_bracket (rt : trace) : bool :=
  match rt with
  | RBegin :: RRead :: r => reads_then_end r
  | _ => false
  end.
Definition disciplined_reader (t : trace) : bool := one_bracket (reader_part t).

(** The concrete database used to evaluate observed traces: the log of committed writes. *)
Definition log_apply (w : N) (l : list N) : list N := l ++ [w].
Definition log_sem (t : trace) : mstate (list N) := sem (list N) log_apply t [].
