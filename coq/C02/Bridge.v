(** C02 — witnesses, the static obligation and the bridge from correspondence to property. *)
From Coq Require Import String.
From V.Lib Require Import Base.
From V.C02 Require Import Shape Model Proofs Corr Wf.
From V.Gen Require Import C02Shapes.
Local Open Scope N_scope.

Lemma unbracketed_torn :
  exists t : trace,
    disciplined t = true /\ reader_part t = [RRead; RRead] /\
    rev (snaps (log_sem t)) = [[]; [7]].
Proof.
  exists [RRead; OpStart 0; Begin; Write 7; Commit; OpEnd true; RRead].
  repeat split; reflexivity.
Qed.

Lemma undisciplined_refuted :
  (exists t p r, disciplined t = false /\ t = p ++ r /\
       durable (log_sem (p ++ [Crash])) = [1] /\ durable (log_sem t) = [1; 2]) /\
  (exists t, disciplined t = false /\ op_ok t = Some false /\ durable (log_sem t) = [1]).
Proof.
  split.
  - exists [OpStart 0; Write 1; Commit; Write 2; Commit; OpEnd true],
           [OpStart 0; Write 1; Commit; Write 2], [Commit; OpEnd true].
    repeat split; reflexivity.
  - exists [OpStart 0; Begin; Write 1; Commit; OpEnd false]. repeat split; reflexivity.
Qed.

Lemma all_methods_bracketed : forallb (fun p => atomic_shape (snd p)) shapes = true.
Proof. vm_compute. reflexivity. Qed.

(** Regression example: the trace observed on remove_retained_checkpoints_below before the fix
    (the trait default committing once per pool) is rejected by the checker, and a crash between
    its commits leaves a third state in the reference semantics. *)
Lemma per_pool_commits_refuted :
  exists t p r, disciplined t = false /\ t = p ++ r /\
    durable (log_sem (p ++ [Crash])) = [126] /\ durable (log_sem t) = [126; 98].
Proof.
  exists [OpStart 29; Begin; Write 126; Commit; Begin; Write 98; Commit; Begin; TxnEnd; OpEnd true],
         [OpStart 29; Begin; Write 126; Commit; Begin], [Write 98; Commit; Begin; TxnEnd; OpEnd true].
  repeat split; reflexivity.
Qed.

Lemma no_discarded_db_result : forallb (fun p : string * bool => snd p) swallows = true.
Proof. vm_compute. reflexivity. Qed.

(** ---- bridge ------------------------------------------------------------------------------- *)

Lemma log_apply_all ws : forall l, apply_all (list N) log_apply ws l = l ++ ws.
Proof.
  induction ws as [|w ws IH]; intros l; simpl; [symmetry; apply app_nil_r|].
  unfold apply_all in *. simpl. rewrite IH. unfold log_apply. rewrite <- app_assoc. reflexivity.
Qed.

Lemma body_then_end_spec : forall r, body_then_end r = true ->
  exists body ok, r = body ++ [OpEnd ok] /\ no_marks body.
Proof.
  induction r as [|e r IH]; simpl; [discriminate|]. intros H.
  destruct e; try (apply andb_true_iff in H; destruct H as [H1 H2];
                   destruct (IH H2) as [b [ok [-> NM]]];
                   match goal with |- exists _ _, ?e :: _ = _ /\ _ => exists (e :: b), ok end;
                   split; [reflexivity | unfold no_marks in *; simpl; rewrite NM; reflexivity]).
  - simpl in H. discriminate.
  - destruct r; [|discriminate]. exists [], ok. split; reflexivity.
  - simpl in H. discriminate.
Qed.

Lemma single_op_spec t : single_op t = true ->
  exists o body ok, t = op_trace o body ok /\ no_marks body.
Proof.
  destruct t as [|e r]; [discriminate|]. destruct e; simpl; try discriminate.
  intros H. destruct (body_then_end_spec r H) as [b [ok [-> NM]]]. exists op, b, ok. auto.
Qed.

Lemma no_commit_durable {St} (apply : N -> St -> St) : forall t (m : mstate St),
  has_ev is_commit t = false -> durable (run St apply m t) = durable m.
Proof.
  induction t as [|e t IH]; intros m H; [reflexivity|].
  simpl in H. apply orb_false_iff in H. destruct H as [He Ht].
  simpl. rewrite (IH _ Ht). destruct m as [d p rp sn].
  destruct e; simpl in He; try discriminate; simpl; try (destruct p; reflexivity); try reflexivity.
  destruct rp as [[?|]|]; reflexivity.
Qed.

Lemma has_ev_firstn f : forall n t, has_ev f t = false -> has_ev f (firstn n t) = false.
Proof.
  induction n as [|n IH]; intros t H; [reflexivity|]. destruct t as [|e t]; [reflexivity|].
  simpl in *. apply orb_false_iff in H. destruct H as [-> H]. simpl. auto.
Qed.

Lemma writes_of_op o body ok : writes_of (op_trace o body ok) = writes_of body.
Proof. unfold op_trace. simpl. rewrite writes_of_app. simpl. apply app_nil_r. Qed.

Lemma ln_eqb_refl l : ln_eqb l l = true.
Proof. apply (list_eqb_spec N.eqb N.eqb_eq). reflexivity. Qed.

(** durable log at any cut of a disciplined, deterministic single call *)
Lemma durable_cut t rw n :
  single_op t = true -> disciplined t = true -> deterministic t rw = true ->
  let L := durable (log_sem (firstn n t)) in
  L = [] \/ (L = rw /\ L <> []).
Proof.
  intros S D Det L.
  destruct (has_ev is_commit t) eqn:HC.
  - unfold deterministic in Det. rewrite HC in Det. simpl in Det.
    apply (list_eqb_spec N.eqb N.eqb_eq) in Det.
    destruct (single_op_spec t S) as [o [body [ok [E NM]]]]. subst t.
    pose proof (atomic_prefix (list N) log_apply [] o body ok (firstn n (op_trace o body ok))
                  (skipn n (op_trace o body ok)) NM D (eq_sym (firstn_skipn n _))) as [A _].
    rewrite log_apply_all in A. simpl in A. rewrite writes_of_op in Det.
    change (durable (sem (list N) log_apply (firstn n (op_trace o body ok)) [])) with L in A.
    destruct A as [A|A]; [left; exact A|].
    rewrite Det in A. clearbody L. subst L.
    destruct rw as [|x l]; [left; reflexivity|].
    right. split; [reflexivity | discriminate].
  - left. unfold L, log_sem, sem. rewrite no_commit_durable; [reflexivity|].
    apply has_ev_firstn. exact HC.
Qed.

Lemma bridge :
  forall m kind k mode tr refw pre post os rtr rd,
    let c := CRun m kind k mode tr refw pre post os rtr rd in
    wf_case c = true -> run_case c = true -> disciplined (expand tr) = true ->
    (kind =? 6) || (kind =? 7) = false ->
    forall p kd d, In (p, kd, d) os -> (kd =? 1) || (kd =? 2) || (kd =? 3) = true ->
    in2 d pre post = true.
Proof.
  intros m kind k mode tr refw pre post os rtr rd c W R D K p kd d I KD.
  unfold c, wf_case in W. rewrite K in W.
  repeat (apply andb_true_iff in W; destruct W as [W ?]).
  unfold c, run_case in R. apply andb_true_iff in R. destruct R as [R _].
  rewrite forallb_forall in R. specialize (R _ I).
  unfold obs_agrees, predict in R. simpl snd in R.
  assert (P : (if kd =? 0 then false else true) = true -> True) by auto. clear P.
  match goal with H : single_op _ = true |- _ => rename H into S end.
  match goal with H : deterministic _ _ = true |- _ => rename H into Det end.
  pose proof (durable_cut (expand tr) (writes_of (expand refw)) (N.to_nat p) S D Det) as C.
  cbv zeta in C.
  set (L := durable (log_sem (firstn (N.to_nat p) (expand tr)))) in *.
  assert (HR : agrees (classify (writes_of (expand refw)) L) d pre post = true).
  { destruct kd as [|q]; [discriminate|].
    destruct q as [q|q|]; try (destruct q as [q|q|]); simpl in KD; try discriminate; exact R. }
  unfold agrees, in2 in *. destruct (d =? 0); [reflexivity|]. simpl in *.
  destruct C as [C | [C NE]].
  - rewrite C in HR. simpl in HR. rewrite HR. reflexivity.
  - unfold classify in HR. destruct L as [|x l]; [congruence|].
    rewrite C, ln_eqb_refl in HR. rewrite HR. apply orb_true_r.
Qed.

(** ---- bridge for the real snapshot reads -------------------------------------------------- *)

Lemma reads_then_end_spec : forall r, reads_then_end r = true -> exists n, r = repeat RRead n ++ [REnd].
Proof.
  induction r as [|e r IH]; simpl; [discriminate|]. intros H.
  destruct e; try discriminate.
  - destruct (IH H) as [n ->]. exists (S n). reflexivity.
  - destruct r; [|discriminate]. exists 0%nat. reflexivity.
Qed.

Lemma one_bracket_spec rt : one_bracket rt = true ->
  exists n, rt = RBegin :: repeat RRead (S n) ++ [REnd].
Proof.
  destruct rt as [|e r]; [discriminate|]. destruct e; try discriminate.
  destruct r as [|e r]; [discriminate|]. destruct e; try discriminate. simpl.
  intros H. destruct (reads_then_end_spec r H) as [n ->]. exists n. reflexivity.
Qed.

Lemma forallb_repeat_refl x n : forallb (ln_eqb x) (repeat x n) = true.
Proof. induction n; simpl; [reflexivity|]. rewrite ln_eqb_refl. exact IHn. Qed.

Lemma read_bridge a k mode tr pre post res :
  let c := CRead a k mode tr pre post res in
  run_case c = true ->
  disciplined_reader (expand tr) = true ->
  single_op (writer_part (expand tr)) = true ->
  disciplined (expand tr) = true ->
  (res =? 0) = false ->
  (res =? pre) || (res =? post) = true.
Proof.
  intros c R DR SO D NZ. set (t := expand tr) in *.
  destruct (single_op_spec _ SO) as [o [wbody [ok [W NM]]]].
  destruct (one_bracket_spec _ DR) as [n RP].
  destruct (isolated (list N) log_apply [] t o wbody ok (S n) W NM D RP) as [x [Hs [Hx _]]].
  rewrite log_apply_all in Hx. simpl in Hx.
  unfold c, run_case in R. fold t in R. unfold read_predict, reader_view in R.
  unfold log_sem in R. rewrite Hs in R. simpl repeat in R. cbv iota beta in R.
  rewrite forallb_repeat_refl in R.
  unfold agrees in R. rewrite NZ in R. simpl in R.
  destruct Hx as [-> | ->].
  - simpl in R. rewrite R. reflexivity.
  - unfold classify in R. destruct (writes_of t) as [|w ws] eqn:E.
    + rewrite R. reflexivity.
    + rewrite ln_eqb_refl in R. rewrite R. apply orb_true_r.
Qed.

Lemma snapshot_reads_bracketed : forallb (fun p : string * bool => snd p) snapshot_reads = true.
Proof. vm_compute. reflexivity. Qed.
