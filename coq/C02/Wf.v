(** C02 — domain of the theorems / sanity of a case: the method is in the regenerated shape
    table with an accepted shape, the trace is one API call, observation positions are inside
    the trace, and the run is deterministic (a run that committed issued exactly the writes
    of the reference run). *)
From Coq Require Import String.
From V.Lib Require Import Base.
From V.C02 Require Import Shape Model Corr.
From V.Gen Require Import C02Shapes.
Local Open Scope N_scope.

Definition method_ok (m : string) : bool :=
  match lookup_shape m shapes with Some s => atomic_shape s | None => false end.

(** [OpStart o :: body ++ [OpEnd ok]] with no call marks inside the body *)
Fixpoint body_then_end (t : trace) : bool :=
  match t with
  | [] => false
  | OpEnd _ :: r => match r with [] => true | _ => false end
  | e :: r => negb (is_opmark e) && body_then_end r
  end.
Definition single_op (t : trace) : bool :=
  match t with
  | OpStart _ :: r => body_then_end r
  | _ => false
  end.

Definition deterministic (t : trace) (rw : list N) : bool :=
  negb (has_ev is_commit t) || ln_eqb (writes_of t) rw.

Definition snapshot_api_ok (a : string) : bool :=
  existsb (fun p : string * bool => String.eqb (fst p) a && snd p) snapshot_reads.

(** the writer part of a reader case: nothing (the boundary was never reached) or one call *)
Definition writer_ok (t : trace) : bool :=
  match writer_part t with [] => true | w => single_op w end.

Definition wf_case (c : case) : bool :=
  match c with
  | CRead a k mode tr pre post res =>
      let t := expand tr in
      snapshot_api_ok a && (mode <=? 2) && negb (pre =? 0) && negb (post =? 0) && writer_ok t &&
      (negb (has_ev is_commit t) || negb (ln_eqb (writes_of t) []) || (pre =? post))
  | CRun m kind k mode tr refw pre post os rtr rd =>
      let t := expand tr in
      let rw := writes_of (expand refw) in
      method_ok m && (kind <=? 7) && (mode <=? 2) && negb (pre =? 0) && negb (post =? 0) &&
      single_op t &&
      forallb (fun o : obs => (fst (fst o) <=? N.of_nat (length t)) && (snd (fst o) <=? 5)) os &&
      (if (kind =? 6) || (kind =? 7) then true else deterministic t rw) &&
      match expand rtr with
      | [] => true
      | rt => single_op rt && match op_ok t with Some false => deterministic rt rw | _ => true end
      end
  end.
