(** C02 — proofs about the bracket discipline. *)
From V.Lib Require Import Base.
From V.C02 Require Import Model.
Local Open Scope N_scope.

Section P.
  Variable St : Type.
  Variable apply : N -> St -> St.
  Notation run := (run St apply).
  Notation sem := (sem St apply).
  Notation step := (step St apply).
  Notation apply_all := (apply_all St apply).
  Notation init := (init St).

  Lemma run_app m t1 t2 : run m (t1 ++ t2) = run (run m t1) t2.
  Proof. unfold Model.run. apply fold_left_app. Qed.

  Lemma run_cons m e t : run m (e :: t) = run (step m e) t.
  Proof. reflexivity. Qed.

  Lemma sem_app t1 t2 db : sem (t1 ++ t2) db = run (sem t1 db) t2.
  Proof. apply run_app. Qed.

  Lemma drun_app t1 : forall s t2,
    drun s (t1 ++ t2) = match drun s t1 with Some s' => drun s' t2 | None => None end.
  Proof.
    induction t1 as [|e r IH]; intros s t2; simpl; [reflexivity|].
    destruct (dstep s e); [apply IH | reflexivity].
  Qed.

  Lemma writes_of_app t1 t2 : writes_of (t1 ++ t2) = writes_of t1 ++ writes_of t2.
  Proof.
    induction t1 as [|e r IH]; simpl; [reflexivity|].
    destruct e; simpl; rewrite ?IH; reflexivity.
  Qed.

  Lemma apply_all_app a b db : apply_all (a ++ b) db = apply_all b (apply_all a db).
  Proof. unfold Model.apply_all. apply fold_left_app. Qed.

  Definition no_marks (t : trace) : Prop := forallb (fun e => negb (is_opmark e)) t = true.

  Lemma no_marks_app a b : no_marks (a ++ b) <-> no_marks a /\ no_marks b.
  Proof. unfold no_marks. rewrite forallb_app, andb_true_iff. tauto. Qed.

  (** Writer invariant inside one API call that started on database [db]; [ws] are the writes
      issued so far. *)
  Definition WInv (db : St) (ws : list N) (s : dstate) (m : mstate St) : Prop :=
    match s with
    | Idle => False
    | Started => pending m = None /\ durable m = db /\ ws = []
    | InTxn b => pending m = Some (apply_all ws db) /\ durable m = db /\ (b = false -> ws = [])
    | Committed => pending m = None /\ durable m = apply_all ws db
    | RolledBack => pending m = None /\ durable m = db
    | Closed => pending m = None /\ durable m = db /\ ws = []
    | FailedIn => durable m = db
    | FailedOut => pending m = None /\ durable m = db
    end.

  Lemma step_reader m e : is_reader e = true ->
    durable (step m e) = durable m /\ pending (step m e) = pending m.
  Proof.
    destruct e; simpl; try discriminate; intros _; auto.
    destruct (rpin m) as [[x|]|]; simpl; auto.
  Qed.

  Lemma winv_ext db ws s m m' :
    durable m' = durable m -> pending m' = pending m -> WInv db ws s m -> WInv db ws s m'.
  Proof. intros D P. destruct s; simpl; rewrite ?D, ?P; auto. Qed.

  Lemma winv_step db ws s m e s' :
    WInv db ws s m -> is_opmark e = false -> dstep s e = Some s' ->
    WInv db (ws ++ writes_of [e]) s' (step m e).
  Proof.
    intros I NM D.
    destruct (is_reader e) eqn:R.
    - destruct (step_reader m e R) as [Hd Hp].
      assert (s' = s) by (destruct e; simpl in R; try discriminate; simpl in D; congruence).
      assert (writes_of [e] = []) as -> by (destruct e; simpl in R; try discriminate; reflexivity).
      subst. rewrite app_nil_r. eapply winv_ext; eauto.
    - destruct e; simpl in NM, R; try discriminate;
      destruct s as [| |b| | | | |]; simpl in D; try discriminate;
      try (destruct b; simpl in D; try discriminate);
      inversion D; subst; clear D; simpl in *; rewrite ?app_nil_r;
      repeat match goal with H : _ /\ _ |- _ => destruct H end;
      repeat match goal with H : pending m = _ |- _ => rewrite H end;
      simpl; subst; rewrite ?apply_all_app; simpl;
      repeat split; auto; try discriminate;
      try (match goal with H : false = false -> _ |- _ => rewrite (H eq_refl) end; reflexivity).
  Qed.

  Lemma body_inv db : forall body s,
    no_marks body -> drun Started body = Some s ->
    WInv db (writes_of body) s (run (init db) body).
  Proof.
    intros body. induction body as [|e r IH] using rev_ind; intros s NM D.
    - simpl in D. inversion D; subst. simpl. auto.
    - apply no_marks_app in NM. destruct NM as [NMr NMe].
      rewrite drun_app in D. destruct (drun Started r) as [s1|] eqn:D1; [|discriminate].
      simpl in D. destruct (dstep s1 e) as [s2|] eqn:D2; [|discriminate]. inversion D; subst.
      rewrite run_app, writes_of_app. simpl run at 1.
      unfold no_marks in NMe. simpl in NMe. rewrite andb_true_r, negb_true_iff in NMe.
      change (Model.step St apply (run (init db) r) e) with (step (run (init db) r) e).
      eapply winv_step; eauto.
  Qed.

  Lemma committed_rest : forall r s,
    no_marks r -> drun Committed r = Some s -> s = Committed /\ writes_of r = [].
  Proof.
    induction r as [|e r IH]; intros s NM D; simpl in *.
    - inversion D; auto.
    - unfold no_marks in NM. simpl in NM. apply andb_true_iff in NM. destruct NM as [NMe NMr].
      destruct e; simpl in NMe; try discriminate; simpl in D; try discriminate;
        apply IH in D; auto.
  Qed.

  Lemma drun_split s p r s2 :
    drun s (p ++ r) = Some s2 -> exists s1, drun s p = Some s1 /\ drun s1 r = Some s2.
  Proof.
    rewrite drun_app. destruct (drun s p) as [s1|]; [|discriminate]. eauto.
  Qed.

  Definition op_trace (o : N) (body : trace) (ok : bool) : trace := OpStart o :: body ++ [OpEnd ok].

  Lemma sem_op_start o t db : sem (OpStart o :: t) db = run (init db) t.
  Proof. reflexivity. Qed.

  Lemma disciplined_op o body ok :
    disciplined (op_trace o body ok) = true ->
    exists s1, drun Started body = Some s1 /\ dstep s1 (OpEnd ok) = Some Idle.
  Proof.
    intros D. unfold disciplined, op_trace in D.
    change (drun Idle (OpStart o :: body ++ [OpEnd ok])) with (drun Started (body ++ [OpEnd ok])) in D.
    rewrite drun_app in D. destruct (drun Started body) as [s1|]; [|discriminate].
    exists s1. split; [reflexivity|]. cbn [drun] in D.
    destruct (dstep s1 (OpEnd ok)) as [[]|]; try discriminate; reflexivity.
  Qed.

  (** Every prefix of the body of one disciplined call: the durable state is the initial one,
      or the call has committed and it is the state with all writes of the call applied. *)
  Lemma body_prefix db o body ok p r :
    no_marks body -> disciplined (op_trace o body ok) = true -> body = p ++ r ->
    let d := durable (run (init db) p) in
    (d = db \/ (d = apply_all (writes_of body) db /\ ok = true)).
  Proof.
    intros NM D E d. destruct (disciplined_op _ _ _ D) as [s1 [D1 DE]].
    subst body. apply no_marks_app in NM. destruct NM as [NMp NMr].
    destruct (drun_split _ _ _ _ D1) as [sp [Dp Dr]].
    pose proof (body_inv db p sp NMp Dp) as I.
    destruct sp; simpl in I; try tauto;
      try (left; subst d; tauto).
    destruct (committed_rest r s1 NMr Dr) as [-> W].
    right. rewrite writes_of_app, W, app_nil_r. split; [subst d; tauto|].
    destruct ok; [reflexivity | discriminate].
  Qed.

  Lemma atomic_complete db o body ok :
    no_marks body -> disciplined (op_trace o body ok) = true ->
    durable (sem (op_trace o body ok) db) = (if ok then apply_all (writes_of body) db else db)
    /\ pending (sem (op_trace o body ok) db) = None.
  Proof.
    intros NM D. destruct (disciplined_op _ _ _ D) as [s1 [D1 DE]].
    unfold op_trace. rewrite sem_op_start, run_app. simpl.
    pose proof (body_inv db body s1 NM D1) as I.
    destruct s1 as [| |[]| | | | |]; destruct ok; simpl in I, DE; try discriminate; try tauto;
      destruct I as [P [Dd W]]; rewrite ?W; simpl; auto.
  Qed.

  Lemma crash_durable (m : mstate St) : durable (step m Crash) = durable m.
  Proof. reflexivity. Qed.

  Lemma atomic_prefix db o body ok p r :
    no_marks body -> disciplined (op_trace o body ok) = true -> op_trace o body ok = p ++ r ->
    let d := durable (sem p db) in
    let post := apply_all (writes_of body) db in
    (d = db \/ d = post) /\ (ok = false -> d = db) /\ durable (sem (p ++ [Crash]) db) = d.
  Proof.
    intros NM D E d post.
    assert (H : d = db \/ (d = post /\ ok = true)).
    { destruct p as [|e p'].
      - left. reflexivity.
      - unfold op_trace in E. simpl in E. inversion E as [[He E']]. subst e.
        subst d. rewrite sem_op_start.
        apply app_eq_app in E'. destruct E' as [l [[E1 E2] | [E1 E2]]].
        + eapply body_prefix; eauto.
        + symmetry in E2. apply app_eq_unit in E2. destruct E2 as [[-> ->] | [-> ->]].
          * rewrite app_nil_r in E1. subst p'.
            eapply (body_prefix db o body ok body []); eauto. rewrite app_nil_r; reflexivity.
          * subst p'. pose proof (atomic_complete db o body ok NM D) as [C _].
            unfold op_trace in C. rewrite sem_op_start in C. rewrite C.
            destruct ok; auto. }
    split; [tauto|]. split.
    - intros ->. destruct H as [H | [_ H]]; [assumption | discriminate].
    - rewrite sem_app. reflexivity.
  Qed.

  (** An operation that reported an error left no trace on the database at all. *)
  Lemma failed_op_identity db o body :
    no_marks body -> disciplined (op_trace o body false) = true ->
    reader_part body = [] ->
    sem (op_trace o body false) db = init db.
  Proof.
    intros NM D R.
    pose proof (atomic_complete db o body false NM D) as [Hd Hp].
    assert (K : forall t (m : mstate St), reader_part t = [] -> no_marks t ->
                 rpin (run m t) = rpin m /\ snaps (run m t) = snaps m).
    { induction t as [|e t IH]; intros m Rt NMt; [auto|].
      unfold no_marks in NMt. simpl in NMt. apply andb_true_iff in NMt. destruct NMt as [NMe NMt].
      simpl in Rt. destruct (is_reader e) eqn:Re; [discriminate|].
      simpl. destruct (IH (step m e) Rt NMt) as [A B]. rewrite A, B.
      destruct e; simpl in Re, NMe; try discriminate; simpl;
        destruct (pending m); auto. }
    unfold op_trace in *. rewrite sem_op_start in *. rewrite run_app in *. simpl in *.
    destruct (K body (init db) R NM) as [A B].
    destruct (run (init db) body) as [d pnd rp sn]. simpl in *. subst. reflexivity.
  Qed.

  Lemma retry_same db o body t2 :
    no_marks body -> disciplined (op_trace o body false) = true -> reader_part body = [] ->
    sem (op_trace o body false ++ t2) db = sem t2 db.
  Proof.
    intros. rewrite sem_app, failed_op_identity by assumption. reflexivity.
  Qed.

  (** ---- readers ---------------------------------------------------------------------- *)

  Lemma writer_part_app a b : writer_part (a ++ b) = writer_part a ++ writer_part b.
  Proof. apply filter_app. Qed.
  Lemma reader_part_app a b : reader_part (a ++ b) = reader_part a ++ reader_part b.
  Proof. apply filter_app. Qed.

  Lemma drun_writer_part : forall t s, drun s t = drun s (writer_part t).
  Proof.
    induction t as [|e t IH]; intros s; [reflexivity|].
    destruct (is_reader e) eqn:R.
    - assert (writer_part (e :: t) = writer_part t) as -> by (unfold writer_part; simpl; rewrite R; reflexivity).
      destruct e; simpl in R; try discriminate; simpl; apply IH.
    - assert (writer_part (e :: t) = e :: writer_part t) as -> by (unfold writer_part; simpl; rewrite R; reflexivity).
      cbn [drun]. destruct (dstep s e); [apply IH | reflexivity].
  Qed.

  Lemma writes_of_writer_part t : writes_of (writer_part t) = writes_of t.
  Proof. induction t as [|e t IH]; [reflexivity|]. destruct e; simpl; rewrite ?IH; reflexivity. Qed.

  (** Reader events never change what is durable or pending. *)
  Lemma dp_writer_part : forall t (m m' : mstate St),
    durable m = durable m' -> pending m = pending m' ->
    durable (run m t) = durable (run m' (writer_part t)) /\
    pending (run m t) = pending (run m' (writer_part t)).
  Proof.
    induction t as [|e t IH]; intros m m' Hd Hp; [simpl; auto|].
    destruct (is_reader e) eqn:R.
    - assert (writer_part (e :: t) = writer_part t) as -> by (unfold writer_part; simpl; rewrite R; reflexivity).
      simpl. destruct (step_reader m e R) as [A B]. apply IH; congruence.
    - assert (writer_part (e :: t) = e :: writer_part t) as -> by (unfold writer_part; simpl; rewrite R; reflexivity).
      simpl. destruct m as [d p rp sn], m' as [d' p' rp' sn']. simpl in Hd, Hp. subst d' p'.
      apply IH; destruct e; simpl in R; try discriminate; simpl; destruct p; reflexivity.
  Qed.

  Lemma durable_writer_part t db : durable (sem t db) = durable (sem (writer_part t) db).
  Proof. apply dp_writer_part; reflexivity. Qed.

  (** Every snapshot a reader ever obtains is the durable state at some prefix of the trace. *)
  Lemma snaps_durable (P : St -> Prop) : forall t (m : mstate St),
    (forall x, In x (snaps m) -> P x) ->
    (forall x, rpin m = Some (Some x) -> P x) ->
    (forall p r, t = p ++ r -> P (durable (run m p))) ->
    forall x, In x (snaps (run m t)) -> P x.
  Proof.
    induction t as [|e t IH]; intros m Hs Hp Hd x Hx; [auto|].
    simpl in Hx. pose proof (Hd [] (e :: t) eq_refl) as H0. simpl in H0.
    apply IH with (m := step m e) (x := x); auto.
    - intros y Hy. destruct m as [d p rp sn]. simpl in *.
      destruct e; simpl in Hy; try (destruct p; simpl in Hy; auto; fail); auto.
      destruct rp as [[z|]|]; simpl in Hy; destruct Hy as [<- | Hy]; auto.
    - intros y Hy. destruct m as [d p rp sn]. simpl in *.
      destruct e; simpl in Hy; try (destruct p; simpl in Hy; auto; discriminate); auto; try discriminate.
      destruct rp as [[z|]|]; simpl in Hy; try discriminate; auto.
      inversion Hy; subst; auto.
    - intros p r E. apply (Hd (e :: p) r). simpl. congruence.
  Qed.

  Definition no_crash (t : trace) : Prop := forallb (fun e => match e with Crash => false | _ => true end) t = true.

  Lemma no_reader_snaps : forall t (m : mstate St),
    reader_part t = [] -> no_crash t -> snaps (run m t) = snaps m /\ rpin (run m t) = rpin m.
  Proof.
    induction t as [|e t IH]; intros m R NC; [auto|].
    unfold no_crash in NC. simpl in NC. apply andb_true_iff in NC. destruct NC as [NCe NCt].
    unfold reader_part in R. simpl in R. destruct (is_reader e) eqn:Re; [discriminate|].
    simpl. destruct (IH (step m e) R NCt) as [A B]. rewrite A, B.
    destruct e; simpl in Re, NCe; try discriminate; simpl; destruct (pending m); auto.
  Qed.

  Lemma repeat_mid {A} (x : A) n l : repeat x n ++ x :: l = x :: repeat x n ++ l.
  Proof. induction n as [|n IH]; simpl; [reflexivity | rewrite IH; reflexivity]. Qed.

  Lemma reads_pinned : forall t (m : mstate St) x n,
    no_crash t -> rpin m = Some (Some x) -> reader_part t = repeat RRead n ++ [REnd] ->
    snaps (run m t) = repeat x n ++ snaps m.
  Proof.
    induction t as [|e t IH]; intros m x n NC Rp R.
    - simpl in R. destruct n; discriminate.
    - unfold no_crash in NC. simpl in NC. apply andb_true_iff in NC. destruct NC as [NCe NCt].
      unfold reader_part in R. simpl in R. destruct (is_reader e) eqn:Re.
      + destruct e; simpl in Re; try discriminate.
        * destruct n; discriminate.
        * destruct n as [|n]; [discriminate|]. simpl in R. inversion R as [R'].
          rewrite run_cons. rewrite (IH _ x n NCt); [| simpl; rewrite Rp; simpl; (reflexivity || assumption) | exact R'].
          simpl. rewrite Rp. simpl. apply repeat_mid.
        * destruct n as [|n]; [|discriminate]. simpl in R. inversion R as [R'].
          rewrite run_cons. destruct (no_reader_snaps t (step m REnd) R' NCt) as [A _]. rewrite A. reflexivity.
      + rewrite run_cons. rewrite (IH (step m e) x n NCt); auto.
        * destruct e; simpl in Re, NCe; try discriminate; simpl; destruct (pending m); reflexivity.
        * destruct e; simpl in Re, NCe; try discriminate; simpl; destruct (pending m); assumption.
  Qed.

  Lemma reads_open : forall t (m : mstate St) n,
    no_crash t -> rpin m = Some None -> reader_part t = repeat RRead n ++ [REnd] ->
    exists x, snaps (run m t) = repeat x n ++ snaps m.
  Proof.
    induction t as [|e t IH]; intros m n NC Rp R.
    - simpl in R. destruct n; discriminate.
    - unfold no_crash in NC. simpl in NC. apply andb_true_iff in NC. destruct NC as [NCe NCt].
      unfold reader_part in R. simpl in R. destruct (is_reader e) eqn:Re.
      + destruct e; simpl in Re; try discriminate.
        * destruct n; discriminate.
        * destruct n as [|n]; [discriminate|]. simpl in R. inversion R as [R'].
          exists (durable m). rewrite run_cons.
          rewrite (reads_pinned t _ (durable m) n NCt); [| simpl; rewrite Rp; reflexivity | exact R'].
          simpl. rewrite Rp. simpl. apply repeat_mid.
        * destruct n as [|n]; [|discriminate]. simpl in R. inversion R as [R'].
          exists (durable m). rewrite run_cons.
          destruct (no_reader_snaps t (step m REnd) R' NCt) as [A _]. rewrite A. reflexivity.
      + rewrite run_cons. destruct (IH (step m e) n NCt) as [x Hx]; auto.
        * destruct e; simpl in Re, NCe; try discriminate; simpl; destruct (pending m); assumption.
        * exists x. rewrite Hx.
          destruct e; simpl in Re, NCe; try discriminate; simpl; destruct (pending m); reflexivity.
  Qed.

  Lemma reads_bracket : forall t (m : mstate St) n,
    no_crash t -> rpin m = None -> reader_part t = RBegin :: repeat RRead n ++ [REnd] ->
    exists x, snaps (run m t) = repeat x n ++ snaps m.
  Proof.
    induction t as [|e t IH]; intros m n NC Rp R.
    - discriminate.
    - unfold no_crash in NC. simpl in NC. apply andb_true_iff in NC. destruct NC as [NCe NCt].
      unfold reader_part in R. simpl in R. destruct (is_reader e) eqn:Re.
      + destruct e; simpl in Re; try discriminate; try (inversion R; fail).
        inversion R as [R']. rewrite run_cons.
        destruct (reads_open t (step m RBegin) n NCt eq_refl R') as [x Hx]. exists x. rewrite Hx. reflexivity.
      + rewrite run_cons. destruct (IH (step m e) n NCt) as [x Hx]; auto.
        * destruct e; simpl in Re, NCe; try discriminate; simpl; destruct (pending m); assumption.
        * exists x. rewrite Hx.
          destruct e; simpl in Re, NCe; try discriminate; simpl; destruct (pending m); reflexivity.
  Qed.

  Lemma no_marks_no_crash t : no_marks t -> no_crash t.
  Proof.
    unfold no_marks, no_crash. intros H. rewrite forallb_forall in *. intros e He.
    specialize (H e He). destruct e; simpl in *; auto; discriminate.
  Qed.

  (** A reader that puts all its statements into one read transaction, interleaved in any way
      with one disciplined writer call, obtains the same state from every statement, and that
      state is the one before the call or the one after all its writes. *)
  Lemma isolated db t o wbody ok n :
    writer_part t = op_trace o wbody ok -> no_marks wbody ->
    disciplined t = true ->
    reader_part t = RBegin :: repeat RRead n ++ [REnd] ->
    let post := apply_all (writes_of t) db in
    exists x, snaps (sem t db) = repeat x n /\ (x = db \/ x = post) /\ (ok = false -> x = db).
  Proof.
    intros W NM D R post.
    assert (Dw : disciplined (op_trace o wbody ok) = true).
    { unfold disciplined in *. rewrite drun_writer_part, W in D. exact D. }
    assert (NC : no_crash t).
    { unfold no_crash. rewrite forallb_forall. intros e He. destruct e; auto.
      assert (In Crash (writer_part t)) as Hc by (apply filter_In; auto).
      rewrite W in Hc. unfold op_trace in Hc. simpl in Hc. destruct Hc as [Hc|Hc]; [discriminate|].
      apply in_app_or in Hc. destruct Hc as [Hc|[Hc|[]]]; [|discriminate].
      unfold no_marks in NM. rewrite forallb_forall in NM. specialize (NM _ Hc). discriminate. }
    destruct (reads_bracket t (init db) n NC eq_refl R) as [x Hx]. simpl in Hx. rewrite app_nil_r in Hx.
    assert (Wp : writes_of wbody = writes_of t).
    { rewrite <- (writes_of_writer_part t), W. unfold op_trace. simpl. rewrite writes_of_app. simpl. symmetry. apply app_nil_r. }
    destruct n as [|n].
    - exists db. split; [exact Hx|]. auto.
    - exists x. split; [exact Hx|].
      apply (snaps_durable (fun d => (d = db \/ d = post) /\ (ok = false -> d = db)) t (init db)).
      + intros y [].
      + intros y Hy. discriminate.
      + intros p r E.
        change (run (init db) p) with (sem p db). rewrite durable_writer_part.
        assert (E' : op_trace o wbody ok = writer_part p ++ writer_part r)
          by (rewrite <- W, E; apply writer_part_app).
        pose proof (atomic_prefix db o wbody ok _ _ NM Dw E') as [A [B _]].
        unfold post. rewrite <- Wp. split; assumption.
      + unfold Model.sem in Hx. rewrite Hx. left. reflexivity.
  Qed.

  (** ---- sequences of calls ----------------------------------------------------------- *)

  Definition op_effect (c : N * trace * bool) (db : St) : St :=
    let '(_, body, ok) := c in if ok then apply_all (writes_of body) db else db.
  Definition op_tr (c : N * trace * bool) : trace := let '(o, body, ok) := c in op_trace o body ok.

  Lemma run_pending_none : forall t (m m' : mstate St),
    durable m = durable m' -> pending m = pending m' ->
    durable (run m t) = durable (run m' t) /\ pending (run m t) = pending (run m' t).
  Proof.
    induction t as [|e t IH]; intros m m' Hd Hp; [auto|].
    simpl. destruct m as [d p rp sn], m' as [d' p' rp' sn']. simpl in Hd, Hp. subst d' p'.
    apply IH; destruct e; simpl; try (destruct p; reflexivity); try reflexivity;
      destruct rp as [[?|]|], rp' as [[?|]|]; reflexivity.
  Qed.

  Lemma atomic_seq : forall cs db,
    Forall (fun c => no_marks (snd (fst c)) /\ disciplined (op_tr c) = true) cs ->
    durable (sem (concat (map op_tr cs)) db) = fold_left (fun d c => op_effect c d) cs db
    /\ pending (sem (concat (map op_tr cs)) db) = None.
  Proof.
    intros cs. induction cs as [|c cs IH] using rev_ind; intros db F; [simpl; auto|].
    apply Forall_app in F. destruct F as [Fcs Fc]. inversion Fc as [|c' l' [NM D] _]; subst.
    rewrite map_app, concat_app, fold_left_app. simpl. rewrite app_nil_r.
    destruct (IH db Fcs) as [Hd Hp].
    rewrite sem_app.
    destruct c as [[o body] ok]. simpl in *.
    set (m := sem (concat (map op_tr cs)) db) in *.
    destruct (run_pending_none (op_trace o body ok) m (init (durable m)) eq_refl Hp) as [A B].
    destruct (atomic_complete (durable m) o body ok NM D) as [C1 C2].
    unfold Model.sem in C1, C2.
    change (run m (body ++ [OpEnd ok])) with (run m (op_trace o body ok)).
    rewrite A, B, C1, C2, Hd. auto.
  Qed.
End P.
