(** C16 — every strategy [CanonicalOneTwoFive::new(cap, max, min, buffer)] whose minimum
    denomination is a power of ten (the documented requirement) has a denomination ladder:
    [series_of min max], the 1-2-5 values between the two bounds. *)
From V.Lib Require Import Base MachInt.
From V.Gen Require Import C16Consts.
From V.C16 Require Import Model Spec ProofsSeries ProofsL125 ProofsSplit.
From Coq Require Import ZifyBool Sorted.
Local Open Scope Z_scope.

Lemma SS_filter (f : Z -> bool) l : StronglySorted Z.gt l -> StronglySorted Z.gt (filter f l).
Proof.
  induction 1 as [|x l SS IH FA]; [constructor|]. cbn [filter].
  destruct (f x); [|exact IH]. constructor; [exact IH|].
  rewrite Forall_forall in *. intros y Hy. apply filter_In in Hy. apply FA, Hy.
Qed.

Lemma filter_filter {A} (f g : A -> bool) l : filter f (filter g l) = filter (fun x => g x && f x) l.
Proof.
  induction l as [|a l IH]; [reflexivity|]. cbn [filter].
  destruct (g a); cbn [filter andb]; [destruct (f a)|]; rewrite IH; reflexivity.
Qed.

Lemma all125_length : length all125 = 60%nat.
Proof. vm_compute. reflexivity. Qed.

Lemma all125_otf s : In s all125 -> OneTwoFive s.
Proof.
  intros H. apply otf_witness_sound.
  assert (A : forallb otf_witness all125 = true) by (vm_compute; reflexivity).
  rewrite forallb_forall in A. exact (A s H).
Qed.

Lemma otf_all125 s : OneTwoFive s -> s <= u64_max -> In s all125.
Proof.
  intros [k [m [Hk [Hm E]]]] Hs.
  assert (K19 : k <= 19).
  { destruct (Z_le_gt_dec k 19) as [|G]; [assumption|exfalso].
    assert (10 ^ 20 <= 10 ^ k) by (apply Z.pow_le_mono_r; lia).
    assert (10 ^ 20 = 100000000000000000000) by reflexivity. unfold u64_max in Hs.
    destruct Hm as [-> | [-> | ->]]; lia. }
  replace k with (Z.of_nat (Z.to_nat k)) in E by lia. subst s.
  apply pow10_all125; [apply in_seq; lia | exact Hm].
Qed.

Lemma is_pow10_of i : In i (seq 0 20) -> is_pow10 (10 ^ Z.of_nat i) = true.
Proof.
  intros Hi. unfold is_pow10. apply existsb_exists. exists i. split; [exact Hi | apply Z.eqb_refl].
Qed.

Theorem ladder_of i maxd : In i (seq 0 20) -> 10 ^ Z.of_nat i <= MAX_MONEY -> maxd <= MAX_MONEY ->
  Ladder (series_of (10 ^ Z.of_nat i) maxd) (10 ^ Z.of_nat i) maxd.
Proof.
  intros Hi Hmin Hmax. set (mind := 10 ^ Z.of_nat i) in *.
  pose proof (pow10_pos (Z.of_nat i) ltac:(lia)) as Pp. fold mind in Pp.
  pose proof MM_small as MS.
  assert (BND : forall s, In s (series_of mind maxd) -> mind <= s <= maxd).
  { intros s Hs. unfold series_of in Hs. destruct (proj1 (filter_In _ _ _) Hs) as [_ Hs']. lia. }
  constructor.
  - unfold series_of. apply SS_filter, all125_sorted.
  - exact BND.
  - intros aff H1 H2. rewrite l125_closed_form; [| apply is_pow10_of; exact Hi | lia].
    unfold spec_l125, series_of. rewrite filter_filter.
    assert (FE : filter (fun s => (mind <=? s) && (s <=? aff) && (s <=? u64_max)) all125
                 = filter (fun x => (mind <=? x) && (x <=? maxd) && (x <=? aff)) all125)
      by (apply filter_ext; intros s; lia).
    rewrite FE. reflexivity.
  - intros Hle. unfold series_of. apply (proj2 (filter_In _ _ _)). split; [|lia].
    unfold mind. replace (10 ^ Z.of_nat i) with (1 * 10 ^ Z.of_nat i) by lia.
    apply pow10_all125; [exact Hi | auto].
  - unfold series_of.
    pose proof (filter_length_le (fun s => (mind <=? s) && (s <=? maxd)) all125) as Lf.
    rewrite all125_length in Lf. unfold DESCEND_FUEL. lia.
  - exact Pp.
  - exact Hmin.
  - exact Hmax.
  - intros e H1 H2.
    destruct (l125_max e mind Pp H1 ltac:(lia)) as [S [Lv M]].
    destruct (existsb (Z.eqb e) (series_of mind maxd)) eqn:X.
    + apply existsb_exists in X. destruct X as [x [Hx Ex]]. apply Z.eqb_eq in Ex. subst x.
      unfold series_of in Hx. destruct (proj1 (filter_In _ _ _) Hx) as [Hx' _].
      apply Z.eqb_eq. specialize (M e (all125_above_floor i e Hi Hx' H1) ltac:(lia)). lia.
    + apply Z.eqb_neq. intros E. rewrite E in S.
      assert (In e (series_of mind maxd)).
      { unfold series_of. apply (proj2 (filter_In _ _ _)). split; [|lia].
        apply (series125_in_all125 i); [exact Hi | exact S | lia]. }
      assert (existsb (Z.eqb e) (series_of mind maxd) = true).
      { apply existsb_exists. exists e. split; [assumption | apply Z.eqb_refl]. }
      congruence.
Qed.

(** membership in the ladder, in words: a 1-2-5 value between the two bounds *)
Theorem series_of_spec mn mx s : mx <= MAX_MONEY ->
  (In s (series_of mn mx) <-> OneTwoFive s /\ mn <= s <= mx).
Proof.
  intros Hmx. pose proof MM_small. assert (0 <= MAX_MONEY) by (unfold MAX_MONEY; lia).
  unfold series_of. rewrite filter_In. split.
  - intros [H1 H2]. split; [apply all125_otf; exact H1 | lia].
  - intros [H1 H2]. split; [apply otf_all125; [exact H1 | lia] | lia].
Qed.

(** the normative series is the instance [min = 0.01 ZEC, max = 10,000 ZEC] *)
Lemma series_is_series_of : series = series_of MIN CAP.
Proof. vm_compute. reflexivity. Qed.
