(** C16 — executable model of the ZIP 318 denomination planner.

    Transcribes, branch for branch and in the same order of checks:
      components/zcash_protocol/src/zip318.rs    largest_one_two_five, is_canonical_within,
                                                 is_canonical_denomination
      zcash_pool_migration/src/denomination/strategies.rs
                                                 CanonicalOneTwoFive::{unconstrained_split, plan}
      zcash_pool_migration/src/denomination.rs   DenominationPlan::{from_notes, from_stored_parts,
                                                 migration_outputs}, zat, plan_denominations
    [u64] arithmetic is explicit: a plain Rust operator is [u64 e] (debug profile: [Panic] when the
    exact result is not representable), [checked_*] returns an option, [saturating_sub] is [sat_sub].
    The preparation-cost oracle is an arbitrary function of the call number and of the note values
    asked about.  The RNG argument of the Rust function does not exist here.  No proofs in this file. *)
From V.Lib Require Import Base MachInt.
From V.Gen Require Import C16Consts.
Local Open Scope Z_scope.

(** Outcomes: [Ok v], [Panic], or [Err tt] = the model's loop fuel ran out (never, see Proofs). *)
Definition res (A : Type) := outcome A unit.
Definition bind {A B} (x : res A) (f : A -> res B) : res B :=
  match x with Ok a => f a | Err e => Err e | Panic => Panic end.
Notation "'let!' x ':=' e 'in' k" := (bind e (fun x => k))
  (at level 200, x name, e at level 100, k at level 200, right associativity).

(** A plain [u64] operator in the debug profile. *)
Definition u64 (x : Z) : res Z := if in_u64 x then Ok x else Panic.
Definition sat_sub (a b : Z) : Z := if a <? b then 0 else a - b.
(** [denomination::zat]: [Zatoshis::from_u64(v).expect(..)]. *)
Definition zat (v : Z) : res Z := if (0 <=? v) && (v <=? MAX_MONEY) then Ok v else Panic.

Fixpoint map_res {A B} (f : A -> res B) (l : list A) : res (list B) :=
  match l with
  | [] => Ok []
  | x :: r => let! y := f x in let! ys := map_res f r in Ok (y :: ys)
  end.

(** [iter().sum::<u64>()] *)
Fixpoint sum_from (acc : Z) (l : list Z) : res Z :=
  match l with
  | [] => Ok acc
  | x :: r => let! a := u64 (acc + x) in sum_from a r
  end.
Definition sum_u64 (l : list Z) : res Z := sum_from 0 l.

(** * zip318.rs *)

(** [while pow.checked_mul(RADIX).is_some_and(|p| p <= hi) { pow *= RADIX }]; 20 rounds suffice
    for a positive floor because [10^20 > 2^64]. *)
Fixpoint grow (fuel : nat) (pow hi : Z) : Z :=
  match fuel with
  | O => pow
  | S f => let p := pow * DENOMINATION_RADIX in
           if in_u64 p && (p <=? hi) then grow f p hi else pow
  end.

(** [for multiple in ONE_TWO_FIVE_DESCENDING { if let Some(v) = pow.checked_mul(multiple) && v <= hi { return v } } pow] *)
Fixpoint first_multiple (ms : list Z) (pow hi : Z) : Z :=
  match ms with
  | [] => pow
  | m :: r => let v := pow * m in
              if in_u64 v && (v <=? hi) then v else first_multiple r pow hi
  end.

Definition GROW_FUEL : nat := 20.

Definition largest_one_two_five (hi floor : Z) : Z :=
  if hi <? floor then 0
  else first_multiple ONE_TWO_FIVE_DESCENDING (grow GROW_FUEL floor hi) hi.

(** [while n.is_multiple_of(RADIX) { n /= RADIX }] *)
Fixpoint strip (fuel : nat) (n : Z) : Z :=
  match fuel with
  | O => n
  | S f => if n mod DENOMINATION_RADIX =? 0 then strip f (n / DENOMINATION_RADIX) else n
  end.

Definition is_canonical_within (v mn mx : Z) : bool :=
  if (v <? mn) || (mx <? v) then false
  else existsb (Z.eqb (strip GROW_FUEL v)) ONE_TWO_FIVE_DESCENDING.

Definition is_canonical_denomination (v : Z) : bool :=
  is_canonical_within v MAX_RESIDUAL_VALUE DENOM_CAP.

(** * strategies.rs *)

Record strategy := mkStrategy { s_max_notes : Z; s_maxd : Z; s_mind : Z; s_buf : Z }.

(** [minted.div_ceil(FUNDING_OUTPUTS_PER_TX) as u64] *)
Definition optimistic_txs (minted : Z) : Z :=
  minted / FUNDING_OUTPUTS_PER_TX + (if 0 <? minted mod FUNDING_OUTPUTS_PER_TX then 1 else 0).

Definition DESCEND_FUEL : nat := 64.

(** The inner [while affordable >= min] loop: the accepted crossing, if any.  Every round lowers
    [affordable] to below a member of the 1-2-5 series, of which [u64] holds fewer than 64. *)
Fixpoint descend (fuel : nat) (s : strategy) (total fee len committed_notes aff : Z) : res (option Z) :=
  match fuel with
  | O => Err tt
  | S f =>
    if aff <? s_mind s then Ok None else
    let crossing := largest_one_two_five aff (s_mind s) in
    if crossing <? s_mind s then Ok None else
    let! a := u64 (committed_notes + crossing) in
    let! b := u64 (a + s_buf s) in
    let! m := u64 (optimistic_txs (len + 1) * fee) in
    let! cost := u64 (b + m) in
    if cost <=? total then Ok (Some crossing)
    else let! aff' := u64 (crossing - 1) in descend f s total fee len committed_notes aff'
  end.

(** The outer [while crossings.len() < self.max_notes] loop; [fuel] = max_notes - len. *)
Fixpoint split_loop (fuel : nat) (s : strategy) (total fee min_note len committed_notes : Z) : res (list Z) :=
  match fuel with
  | O => Ok []
  | S f =>
    let! m := u64 (optimistic_txs len * fee) in
    let! committed := u64 (committed_notes + m) in
    let budget := sat_sub total committed in
    if budget <? min_note then Ok [] else
    let! d := u64 (budget - s_buf s) in
    let aff := Z.min d (s_maxd s) in
    let! r := descend DESCEND_FUEL s total fee len committed_notes aff in
    match r with
    | None => Ok []
    | Some c =>
      let! n := u64 (c + s_buf s) in
      let! cn := u64 (committed_notes + n) in
      let! rest := split_loop f s total fee min_note (len + 1) cn in
      Ok (c :: rest)
    end
  end.

Definition exact_funding (s : strategy) (total nc : Z) : bool :=
  let exact := sat_sub total (s_buf s) in
  (nc =? 1) && (0 <? s_max_notes s) && (s_buf s <=? total)
  && (s_mind s <=? exact) && (exact <=? s_maxd s)
  && (largest_one_two_five exact (s_mind s) =? exact).

Definition unconstrained_split (s : strategy) (total nc fee : Z) : res (list Z) :=
  let! min_note := u64 (s_mind s + s_buf s) in
  if exact_funding s total nc then Ok [sat_sub total (s_buf s)]
  else split_loop (Z.to_nat (s_max_notes s)) s total fee min_note 0 0.

(** The preparation-cost oracle: any function of (how many questions were asked before, the
    note values asked about).  [None] = "cannot be minted". *)
Definition oracle := nat -> list Z -> option N.

(** The fit test of the reconcile loop (as repaired by the C16 fix):
    [(n as u64).checked_mul(fee).and_then(|f| notes.sum().checked_add(f)).is_some_and(|c| c <= total)] *)
Definition fits (notes : list Z) (n fee total : Z) : res bool :=
  match u64_checked (n * fee) with
  | None => Ok false
  | Some fees =>
    let! sm := sum_u64 notes in
    match u64_checked (sm + fees) with
    | None => Ok false
    | Some c => Ok (c <=? total)
    end
  end.

(** The reconcile loop: [k] parts are still planned; returns (parts kept, n_txs, questions asked). *)
Fixpoint reconcile (k : nat) (orc : oracle) (call : nat) (notes : list Z) (fee total : Z)
  : res (nat * Z * nat) :=
  match k with
  | O => Ok (O, 0, call)
  | S k' =>
    let cur := firstn k notes in
    let! typed := map_res zat cur in
    match orc call typed with
    | None => reconcile k' orc (S call) notes fee total
    | Some n =>
      let! ok := fits cur (Z.of_N n) fee total in
      if ok then Ok (k, Z.of_N n, S call) else reconcile k' orc (S call) notes fee total
    end
  end.

(** What the public accessors of a [DenominationPlan] show (plus the number of oracle questions). *)
Record planrec := mkPlan {
  p_cross : list Z; p_out : list Z; p_change : option Z; p_fees : Z;
  p_total : Z; p_migr : Z; p_buf : Z; p_calls : Z }.

Definition plan (s : strategy) (total nc fee : Z) (orc : oracle) : res planrec :=
  let buffer := s_buf s in
  let! split := unconstrained_split s total nc fee in
  let! notes := map_res (fun c => u64 (c + buffer)) split in
  let! r := reconcile (length split) orc O notes fee total in
  let '(k, n_txs, calls) := r in
  let crossings := firstn k split in
  let kept := firstn k notes in
  let! prep_fees := u64 (n_txs * fee) in
  let! sm := sum_u64 kept in
  let remaining := sat_sub (sat_sub total sm) prep_fees in
  (* DenominationPlan::from_notes *)
  let! migr := sum_u64 crossings in
  let! cv := map_res zat crossings in
  let! bufz := zat buffer in
  let! change := (if 0 <? remaining then let! c := zat remaining in Ok (Some c) else Ok None) in
  let! feez := zat prep_fees in
  let! totz := zat total in
  let! migz := zat migr in
  (* DenominationPlan::migration_outputs *)
  let! outs := map_res (fun c => zat (c + bufz)) cv in
  Ok (mkPlan cv outs change feez totz migz bufz (Z.of_nat calls)).

(** [plan_denominations]: the normative ZIP 318 bounds, caller-chosen note cap. *)
Definition zip318_strategy (cap buffer : Z) : strategy :=
  mkStrategy cap DENOM_CAP MAX_RESIDUAL_VALUE buffer.

Definition plan_denominations (total nc cap buffer fee : Z) (orc : oracle) : res planrec :=
  plan (zip318_strategy cap buffer) total nc fee orc.

(** [DenominationPlan::from_stored_parts(..).map(|p| p.migration_outputs())]: [Err tt] = Overflow. *)
Definition stored_outputs (cross : list Z) (buffer : Z) : res (list Z) :=
  if forallb (fun c => c + buffer <=? MAX_MONEY) cross
  then map_res (fun c => zat (c + buffer)) cross
  else Err tt.

(** The pre-fix fit test, kept only to state what the repair changed (Proofs.v):
    [notes.sum().checked_add(n as u64 * fee)] with a plain multiplication. *)
Definition fits_legacy_debug (notes : list Z) (n fee total : Z) : res bool :=
  let! sm := sum_u64 notes in
  let! fees := u64 (n * fee) in
  match u64_checked (sm + fees) with None => Ok false | Some c => Ok (c <=? total) end.
Definition fits_legacy_release (notes : list Z) (n fee total : Z) : res bool :=
  let! sm := sum_u64 notes in
  match u64_checked (sm + u64_wrap (n * fee)) with None => Ok false | Some c => Ok (c <=? total) end.
