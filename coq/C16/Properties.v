(** C16 — property theorems only.  Each is closed by [exact] of a lemma proved elsewhere and
    audited by Print Assumptions.  Conventions: [zatoshi v] is [0 <= v <= MAX_MONEY] (what the
    public signatures enforce through [Zatoshis]); the oracle [orc : nat -> list Z -> option N]
    is ARBITRARY in every theorem (refusing, over-charging, inconsistent, stateful);
    [canonical_split cap total buffer fee single] is the specification's split (Spec.v). *)
From V.Lib Require Import Base MachInt.
From V.Gen Require Import C16Consts.
From V.C16 Require Import Model Spec Corr Wf ProofsSeries ProofsL125 ProofsSplit ProofsLadder ProofsPlan Proofs ProofsCustom Bridge.
Local Open Scope Z_scope.

(** ** The denomination set *)

(** [largest_one_two_five hi floor], any positive floor: the largest 1-2-5 multiple of a radix
    power of the floor that does not exceed [hi]. *)
Theorem C16_largest_125_spec : forall hi floor, 0 < floor -> floor <= hi -> hi <= u64_max ->
  Series125 floor (largest_one_two_five hi floor)
  /\ largest_one_two_five hi floor <= hi
  /\ (forall s, Series125 floor s -> s <= hi -> s <= largest_one_two_five hi floor).
Proof. exact l125_max. Qed.

(** For the documented floors (powers of ten) and any [u64] bound: the closed form "first member
    of the descending 1-2-5 list lying in [floor, hi]", 0 if none. *)
Theorem C16_largest_125_closed_form : forall hi floor, is_pow10 floor = true -> 0 <= hi <= u64_max ->
  largest_one_two_five hi floor = spec_l125 hi floor.
Proof. exact l125_closed_form. Qed.

Theorem C16_largest_125_below : forall hi floor, hi < floor -> largest_one_two_five hi floor = 0.
Proof. exact l125_below. Qed.

(** [is_canonical_denomination] decides exactly "m * 10^k with m in {1,2,5}, between 0.01 and
    10,000 ZEC". *)
Theorem C16_is_canonical_spec : forall v, is_canonical_denomination v = true <-> Canonical v.
Proof. exact is_canonical_spec. Qed.

(** the checker used on implementation outputs decides the same set *)
Theorem C16_canonicalb_spec : forall v, canonicalb v = true <-> Canonical v.
Proof. exact canonicalb_spec. Qed.

(** ** The split *)

(** The Rust split (greedy with optimistic fee reservation, inner descent through the series,
    exact-funding special case) never panics, never exhausts the model's fuel, and equals the
    specification "repeatedly take the largest canonical denomination still fundable". *)
Theorem C16_split_correct : forall total buffer fee cap nc,
  zatoshi total -> zatoshi buffer -> zatoshi fee -> 0 <= cap ->
  unconstrained_split (zip318_strategy cap buffer) total nc fee
  = Ok (canonical_split (Z.to_nat cap) total buffer fee (nc =? 1)).
Proof. exact (fun total buffer fee cap nc Ht Hb Hf Hc => split_correct total buffer fee cap Ht Hb Hf nc Hc). Qed.

(** A smaller cap only truncates the split. *)
Theorem C16_split_cap_prefix : forall total buffer fee c1 c2 single, (1 <= c1 <= c2)%nat ->
  canonical_split c1 total buffer fee single = firstn c1 (canonical_split c2 total buffer fee single).
Proof. exact split_cap_prefix. Qed.

(** Whether a balance quantizes to anything at all does not depend on the positive cap (the
    lemma [balance_has_canonical_split] appeals to). *)
Theorem C16_split_emptiness_cap_invariant : forall total buffer fee c1 c2 single,
  (1 <= c1)%nat -> (1 <= c2)%nat ->
  (canonical_split c1 total buffer fee single = [] <-> canonical_split c2 total buffer fee single = []).
Proof. exact split_emptiness_cap_invariant. Qed.

(** ** The plan, for every oracle *)

(** The planner always returns a plan: no arithmetic overflow, no [zat] / [expect] panic. *)
Theorem C16_plan_total : forall total nc cap buffer fee (orc : oracle),
  zatoshi total -> zatoshi buffer -> zatoshi fee -> 1 <= cap ->
  exists p, plan_denominations total nc cap buffer fee orc = Ok p.
Proof. exact plan_total_ok. Qed.

(** Crossing values: canonical, non-increasing, at most the cap, and a prefix of the canonical
    split fixed by the balance, the fees and the single-note bit — whatever the oracle says. *)
Theorem C16_crossings : forall total nc cap buffer fee (orc : oracle),
  zatoshi total -> zatoshi buffer -> zatoshi fee -> 1 <= cap ->
  forall p, plan_denominations total nc cap buffer fee orc = Ok p ->
  Forall Canonical (p_cross p) /\ nonincreasing (p_cross p) = true
  /\ Z.of_nat (length (p_cross p)) <= cap
  /\ Prefix (p_cross p) (canonical_split (Z.to_nat cap) total buffer fee (nc =? 1)).
Proof. exact plan_crossings. Qed.

(** Conservation: prepared notes + reserved preparation fees + change = balance, exactly; each
    prepared note is its crossing plus the buffer; the reported totals are what they say. *)
Theorem C16_conservation : forall total nc cap buffer fee (orc : oracle),
  zatoshi total -> zatoshi buffer -> zatoshi fee -> 1 <= cap ->
  forall p, plan_denominations total nc cap buffer fee orc = Ok p ->
  p_out p = map (fun c => c + buffer) (p_cross p)
  /\ sumZ (p_out p) + p_fees p + optZ (p_change p) = total
  /\ p_migr p = sumZ (p_cross p) /\ p_total p = total /\ p_buf p = buffer
  /\ 0 <= p_fees p /\ (forall c, p_change p = Some c -> 0 < c).
Proof. exact plan_conservation. Qed.

(** The reserved fees are the accepted answer times the fee as an exact product (no wrap): an
    empty plan reserves nothing, a non-empty plan was accepted under the oracle's last answer. *)
Theorem C16_fees_exact : forall total nc cap buffer fee (orc : oracle),
  zatoshi total -> zatoshi buffer -> zatoshi fee -> 1 <= cap ->
  forall p, plan_denominations total nc cap buffer fee orc = Ok p ->
  (p_cross p = [] -> p_fees p = 0)
  /\ (p_cross p <> [] ->
      exists a, orc (Nat.pred (Z.to_nat (p_calls p))) (p_out p) = Some a /\ p_fees p = Z.of_N a * fee).
Proof. exact plan_fees. Qed.

(** When preparation costs what the planner assumed, nothing is dropped, and below the cap the
    change is smaller than the smallest self-funding note plus one preparation fee. *)
Theorem C16_residual_small : forall total nc cap buffer fee (orc : oracle),
  zatoshi total -> zatoshi buffer -> zatoshi fee -> 1 <= cap ->
  forall p a, plan_denominations total nc cap buffer fee orc = Ok p ->
  orc O (map (fun c => c + buffer) (canonical_split (Z.to_nat cap) total buffer fee (nc =? 1))) = Some a ->
  Z.of_N a = assumed_txs (Z.to_nat cap) total buffer fee (nc =? 1) ->
  p_cross p = canonical_split (Z.to_nat cap) total buffer fee (nc =? 1)
  /\ ((length (canonical_split (Z.to_nat cap) total buffer fee (nc =? 1)%Z) < Z.to_nat cap)%nat ->
      optZ (p_change p) < MIN + buffer + fee).
Proof. exact plan_residual. Qed.

(** The note count enters only through the bit "a single note holds the balance" (any strategy
    bounds, any inputs, no range hypothesis). *)
Theorem C16_one_bit : forall s total nc1 nc2 fee (orc : oracle),
  (nc1 =? 1) = (nc2 =? 1) -> plan s total nc1 fee orc = plan s total nc2 fee orc.
Proof. exact plan_one_bit. Qed.

(** The reconcile loop consults the oracle about prefixes of the prepared notes only. *)
Theorem C16_reconcile_prefixes_only : forall (orc1 orc2 : oracle) notes fee total k call,
  (forall i j, orc1 i (firstn j notes) = orc2 i (firstn j notes)) ->
  reconcile k orc1 call notes fee total = reconcile k orc2 call notes fee total.
Proof. exact reconcile_ext. Qed.

(** The repaired fit test is the exact comparison [sum + n * fee <= total]: it neither panics
    nor wraps for any answer [n]. *)
Theorem C16_fits_exact : forall cur n fee total,
  0 <= n -> 0 <= fee -> Forall (fun x => 0 <= x) cur -> sumZ cur <= u64_max -> total <= u64_max ->
  fits cur n fee total = Ok (sumZ cur + n * fee <=? total).
Proof. exact fits_exact. Qed.

(** What the pre-fix test did on the witness (answer 2^62, fee 4): debug panic, release accepts
    a layout costing 2^64 zatoshi against a balance of 123.456789 ZEC. *)
Theorem C16_legacy_fit_refuted :
  fits_legacy_debug witness_notes (2 ^ 62) 4 12345678900 = Panic
  /\ fits_legacy_release witness_notes (2 ^ 62) 4 12345678900 = Ok true
  /\ fits witness_notes (2 ^ 62) 4 12345678900 = Ok false
  /\ 12345678900 < sumZ witness_notes + 2 ^ 62 * 4.
Proof. exact legacy_fit_refuted. Qed.

(** ** Caller-chosen bounds: [CanonicalOneTwoFive::new(cap, maxd, 10^i, buffer)]

    Any cap (0 included), any maximum denomination, a power-of-ten minimum (the constructor's
    documented requirement); all amounts [Zatoshis]; any oracle.  The admissible denominations
    are [series_of (10^i) maxd]. *)

Theorem C16_series_of_spec : forall mn mx s, mx <= MAX_MONEY ->
  (In s (series_of mn mx) <-> OneTwoFive s /\ mn <= s <= mx).
Proof. exact series_of_spec. Qed.

(** the normative series is the instance 0.01 .. 10,000 ZEC *)
Theorem C16_series_is_series_of : series = series_of MIN CAP.
Proof. exact series_is_series_of. Qed.

Theorem C16_custom_split_correct : forall (i : nat) maxd total nc cap buffer fee,
  In i (seq 0 20) -> zatoshi (10 ^ Z.of_nat i) -> zatoshi maxd ->
  zatoshi total -> zatoshi buffer -> zatoshi fee -> 0 <= cap ->
  unconstrained_split (mkStrategy cap maxd (10 ^ Z.of_nat i) buffer) total nc fee
  = Ok (split_of (series_of (10 ^ Z.of_nat i) maxd) (Z.to_nat cap) total buffer fee (nc =? 1)).
Proof. exact custom_split_correct. Qed.

Theorem C16_custom_plan_total : forall (i : nat) maxd total nc cap buffer fee (orc : oracle),
  In i (seq 0 20) -> zatoshi (10 ^ Z.of_nat i) -> zatoshi maxd ->
  zatoshi total -> zatoshi buffer -> zatoshi fee -> 0 <= cap ->
  exists p, plan (mkStrategy cap maxd (10 ^ Z.of_nat i) buffer) total nc fee orc = Ok p.
Proof. exact custom_plan_total. Qed.

Theorem C16_custom_crossings : forall (i : nat) maxd total nc cap buffer fee (orc : oracle),
  In i (seq 0 20) -> zatoshi (10 ^ Z.of_nat i) -> zatoshi maxd ->
  zatoshi total -> zatoshi buffer -> zatoshi fee -> 0 <= cap ->
  forall p, plan (mkStrategy cap maxd (10 ^ Z.of_nat i) buffer) total nc fee orc = Ok p ->
  Forall (fun s => OneTwoFive s /\ 10 ^ Z.of_nat i <= s <= maxd) (p_cross p)
  /\ nonincreasing (p_cross p) = true
  /\ Z.of_nat (length (p_cross p)) <= cap
  /\ Prefix (p_cross p) (split_of (series_of (10 ^ Z.of_nat i) maxd) (Z.to_nat cap) total buffer fee (nc =? 1)).
Proof. exact custom_crossings. Qed.

Theorem C16_custom_conservation : forall (i : nat) maxd total nc cap buffer fee (orc : oracle),
  In i (seq 0 20) -> zatoshi (10 ^ Z.of_nat i) -> zatoshi maxd ->
  zatoshi total -> zatoshi buffer -> zatoshi fee -> 0 <= cap ->
  forall p, plan (mkStrategy cap maxd (10 ^ Z.of_nat i) buffer) total nc fee orc = Ok p ->
  p_out p = map (fun c => c + buffer) (p_cross p)
  /\ sumZ (p_out p) + p_fees p + optZ (p_change p) = total
  /\ p_migr p = sumZ (p_cross p) /\ p_total p = total /\ p_buf p = buffer
  /\ 0 <= p_fees p /\ (forall c, p_change p = Some c -> 0 < c).
Proof. exact custom_conservation. Qed.

Theorem C16_custom_fees_exact : forall (i : nat) maxd total nc cap buffer fee (orc : oracle),
  In i (seq 0 20) -> zatoshi (10 ^ Z.of_nat i) -> zatoshi maxd ->
  zatoshi total -> zatoshi buffer -> zatoshi fee -> 0 <= cap ->
  forall p, plan (mkStrategy cap maxd (10 ^ Z.of_nat i) buffer) total nc fee orc = Ok p ->
  (p_cross p = [] -> p_fees p = 0)
  /\ (p_cross p <> [] ->
      exists a, orc (Nat.pred (Z.to_nat (p_calls p))) (p_out p) = Some a /\ p_fees p = Z.of_N a * fee).
Proof. exact custom_fees. Qed.

Theorem C16_custom_residual_small : forall (i : nat) maxd total nc cap buffer fee (orc : oracle),
  In i (seq 0 20) -> zatoshi (10 ^ Z.of_nat i) -> zatoshi maxd ->
  zatoshi total -> zatoshi buffer -> zatoshi fee -> 0 <= cap ->
  forall p a, plan (mkStrategy cap maxd (10 ^ Z.of_nat i) buffer) total nc fee orc = Ok p ->
  orc O (map (fun c => c + buffer)
           (split_of (series_of (10 ^ Z.of_nat i) maxd) (Z.to_nat cap) total buffer fee (nc =? 1))) = Some a ->
  Z.of_N a = assumed_of (series_of (10 ^ Z.of_nat i) maxd) (Z.to_nat cap) total buffer fee (nc =? 1) ->
  p_cross p = split_of (series_of (10 ^ Z.of_nat i) maxd) (Z.to_nat cap) total buffer fee (nc =? 1)
  /\ (10 ^ Z.of_nat i <= maxd ->
      (length (split_of (series_of (10 ^ Z.of_nat i) maxd) (Z.to_nat cap) total buffer fee (nc =? 1)%Z) < Z.to_nat cap)%nat ->
      optZ (p_change p) < 10 ^ Z.of_nat i + buffer + fee).
Proof. exact custom_residual. Qed.

(** Bridge: where the implementation agrees with the model, its outcome satisfies the property
    checker (all clauses of [plan_ok], the closed forms of the two zip318 functions, the stored-
    parts validation, the same clauses under caller-chosen bounds), for every oracle of the family; and an [engine::plan_migration_with]
    outcome that agrees with the model under SOME oracle (the one refusing every layout but the
    kept one) satisfies every oracle-free clause, reserves exactly the real layout's transaction
    count times the fee, and reports NothingToMigrate / UnfundableSplit exactly when the canonical
    split is empty / non-empty.  [rng_flag]: the harness saw the same plan
    under a second RNG seed (the model has no RNG to quantify over). *)
Theorem C16_agree_implies_property : forall c,
  wf_case c = true -> rng_flag c = true -> run_case c = true -> prop_case c = true.
Proof. exact agree_implies_property. Qed.

(** Non-vacuity: the ZIP's worked example 123.45 ZEC -> 100 + 20 + 2 + 1 + 0.2 + 0.2 + 0.05
    (fee-free), and the exact-funding case, both through the model. *)
Example C16_worked_example :
  plan_denominations 12345000000 2 64 0 0 (eval_oracle OStub)
  = Ok (mkPlan [10000000000; 2000000000; 200000000; 100000000; 20000000; 20000000; 5000000]
               [10000000000; 2000000000; 200000000; 100000000; 20000000; 20000000; 5000000]
               None 0 12345000000 12345000000 0 1).
Proof. vm_compute. reflexivity. Qed.

Example C16_exact_note_example :
  canonical_split 50 100015000 15000 80000 true = [100000000]
  /\ canonical_split 50 100015000 15000 80000 false = [50000000; 20000000; 20000000; 5000000; 2000000; 2000000].
Proof. vm_compute. split; reflexivity. Qed.
