(** C16 — the reconcile loop and [plan] for an ARBITRARY preparation-cost oracle. *)
From V.Lib Require Import Base MachInt.
From V.Gen Require Import C16Consts.
From V.C16 Require Import Model Spec ProofsSeries ProofsSplit.
From Coq Require Import ZifyBool Sorted.
Local Open Scope Z_scope.

(** ** List helpers *)
Lemma map_res_ok {A B} (f : A -> res B) (g : A -> B) l :
  Forall (fun x => f x = Ok (g x)) l -> map_res f l = Ok (map g l).
Proof.
  induction 1 as [|x l Hx _ IH]; [reflexivity|]. cbn [map_res map]. rewrite Hx. cbn [bind].
  rewrite IH. reflexivity.
Qed.

Lemma map_id {A} (l : list A) : map (fun x => x) l = l.
Proof. induction l as [|a l IH]; [reflexivity|]. cbn [map]. rewrite IH. reflexivity. Qed.

Lemma sumZ_nonneg l : Forall (fun x => 0 <= x) l -> 0 <= sumZ l.
Proof. induction 1 as [|x l Hx _ IH]; cbn [sumZ fold_right]; [lia|]. fold (sumZ l). lia. Qed.

Lemma sum_from_ok l : forall acc, 0 <= acc -> Forall (fun x => 0 <= x) l -> acc + sumZ l <= u64_max ->
  sum_from acc l = Ok (acc + sumZ l).
Proof.
  induction l as [|x l IH]; intros acc Ha Hl Hs; cbn [sum_from sumZ fold_right] in *.
  - rewrite Z.add_0_r. reflexivity.
  - fold (sumZ l) in *. inversion Hl as [|? ? Hx Hl']; subst.
    pose proof (sumZ_nonneg l Hl').
    rewrite (u64_ok (acc + x)) by lia. cbn [bind]. rewrite IH by (try assumption; lia).
    f_equal. ring.
Qed.

Lemma sum_u64_ok l : Forall (fun x => 0 <= x) l -> sumZ l <= u64_max -> sum_u64 l = Ok (sumZ l).
Proof. intros. unfold sum_u64. rewrite sum_from_ok by (try assumption; lia). reflexivity. Qed.

Lemma Forall_firstn {A} (P : A -> Prop) k : forall l, Forall P l -> Forall P (firstn k l).
Proof.
  induction k as [|k IH]; intros l H; [constructor|]. destruct l as [|a l]; [constructor|].
  inversion H; subst. cbn [firstn]. constructor; [assumption | apply IH; assumption].
Qed.

Lemma sumZ_firstn_le k : forall l, Forall (fun x => 0 <= x) l -> sumZ (firstn k l) <= sumZ l.
Proof.
  induction k as [|k IH]; intros l H; cbn [firstn].
  - cbn [sumZ fold_right]. apply sumZ_nonneg. exact H.
  - destruct l as [|a l]; [lia|]. inversion H; subst. cbn [sumZ fold_right].
    fold (sumZ (firstn k l)). fold (sumZ l). specialize (IH l H3). lia.
Qed.

Lemma nonincreasing_firstn k : forall l, nonincreasing l = true -> nonincreasing (firstn k l) = true.
Proof.
  induction k as [|k IH]; intros l H; [reflexivity|]. destruct l as [|a l]; [reflexivity|].
  cbn [firstn]. destruct l as [|b l]; [destruct k; reflexivity|].
  cbn [nonincreasing] in H. apply andb_true_iff in H. destruct H as [H1 H2].
  specialize (IH (b :: l) H2). destruct k as [|k']; [reflexivity|].
  cbn [firstn] in *. cbn [nonincreasing]. rewrite H1. exact IH.
Qed.

Lemma is_prefix_firstn k : forall l, is_prefix (firstn k l) l = true.
Proof.
  induction k as [|k IH]; intros l; [reflexivity|]. destruct l as [|a l]; [reflexivity|].
  cbn [firstn is_prefix]. rewrite Z.eqb_refl. apply IH.
Qed.

Lemma is_prefix_Prefix p : forall l, is_prefix p l = true -> Prefix p l.
Proof.
  induction p as [|a p IH]; intros l H.
  - exists O. reflexivity.
  - destruct l as [|b l]; [discriminate|]. cbn [is_prefix] in H. apply andb_true_iff in H.
    destruct H as [E H]. apply Z.eqb_eq in E. subst b. destruct (IH l H) as [k Hk].
    exists (S k). cbn [firstn]. rewrite <- Hk. reflexivity.
Qed.

(** ** The repaired fit test is exact: no wrap-around, no panic *)
Theorem fits_exact cur n fee total :
  0 <= n -> 0 <= fee -> Forall (fun x => 0 <= x) cur -> sumZ cur <= u64_max -> total <= u64_max ->
  fits cur n fee total = Ok (sumZ cur + n * fee <=? total).
Proof.
  intros Hn Hf Hc Hs Ht. unfold fits, u64_checked, checked, in_range.
  pose proof (Z.mul_nonneg_nonneg n fee Hn Hf). pose proof (sumZ_nonneg cur Hc).
  destruct ((0 <=? n * fee) && (n * fee <=? u64_max)) eqn:E1.
  - rewrite sum_u64_ok by assumption. cbn [bind].
    destruct ((0 <=? sumZ cur + n * fee) && (sumZ cur + n * fee <=? u64_max)) eqn:E2; [reflexivity|].
    f_equal. lia.
  - f_equal. lia.
Qed.

(** What the pre-fix test did on the design-round witness (oracle answer 2^62, fee 4 zatoshi,
    balance 123.456789 ZEC): the debug profile panicked, the release profile wrapped the fee
    total to zero and ACCEPTED a layout costing 2^64 zatoshi.  The repaired test refuses it. *)
Definition witness_notes : list Z := [10000015000; 2000015000; 200015000; 100015000; 20015000; 20015000; 5015000].
Lemma legacy_fit_refuted :
  fits_legacy_debug witness_notes (2 ^ 62) 4 12345678900 = Panic
  /\ fits_legacy_release witness_notes (2 ^ 62) 4 12345678900 = Ok true
  /\ fits witness_notes (2 ^ 62) 4 12345678900 = Ok false
  /\ 12345678900 < sumZ witness_notes + 2 ^ 62 * 4.
Proof. repeat split; vm_compute; reflexivity. Qed.

(** ** The reconcile loop *)
Section Reconcile.
  Variables (orc : oracle) (notes : list Z) (fee total : Z).
  Hypothesis Hfee : 0 <= fee.
  Hypothesis Htotal : 0 <= total <= MAX_MONEY.
  Hypothesis Hnotes : Forall (fun x => 0 <= x <= MAX_MONEY) notes.
  Hypothesis Hsum : sumZ notes <= total.

  Lemma notes_nonneg : Forall (fun x => 0 <= x) notes.
  Proof. eapply Forall_impl; [|exact Hnotes]. cbn. intros; lia. Qed.

  Lemma typed_ok k : map_res zat (firstn k notes) = Ok (firstn k notes).
  Proof.
    rewrite (map_res_ok zat (fun x => x)); [rewrite map_id; reflexivity|].
    apply Forall_firstn. eapply Forall_impl; [|exact Hnotes]. cbn. intros a Ha. unfold zat.
    destruct ((0 <=? a) && (a <=? MAX_MONEY)) eqn:E; [reflexivity | lia].
  Qed.

  Lemma fits_cur k n : 0 <= n ->
    fits (firstn k notes) n fee total = Ok (sumZ (firstn k notes) + n * fee <=? total).
  Proof.
    intros Hn. pose proof MM_small. pose proof (sumZ_firstn_le k notes notes_nonneg).
    apply fits_exact; try lia. apply Forall_firstn, notes_nonneg.
  Qed.

  (** outcome of the loop started with [k] parts at question number [call] *)
  Definition reconciled (k call : nat) (k' : nat) (n : Z) (calls : nat) : Prop :=
    (k' <= k)%nat /\ 0 <= n
    /\ ((k' = O /\ n = 0)
        \/ ((0 < k')%nat /\ sumZ (firstn k' notes) + n * fee <= total
            /\ (0 < calls)%nat /\ orc (Nat.pred calls) (firstn k' notes) = Some (Z.to_N n)))
    /\ (forall n0, (0 < k)%nat -> orc call (firstn k notes) = Some n0 ->
          sumZ (firstn k notes) + Z.of_N n0 * fee <= total ->
          k' = k /\ n = Z.of_N n0 /\ calls = S call).

  Lemma reconcile_spec k : forall call,
    exists k' n calls, reconcile k orc call notes fee total = Ok (k', n, calls)
                       /\ reconciled k call k' n calls.
  Proof.
    induction k as [|k IH]; intros call.
    - exists O, 0, call. split; [reflexivity|]. unfold reconciled.
      split; [lia|]. split; [lia|]. split; [left; split; reflexivity|]. intros; lia.
    - cbn [reconcile]. rewrite typed_ok. cbn [bind].
      destruct (orc call (firstn (S k) notes)) as [n0|] eqn:O.
      + rewrite fits_cur by lia. cbn [bind].
        destruct (sumZ (firstn (S k) notes) + Z.of_N n0 * fee <=? total) eqn:B.
        * exists (S k), (Z.of_N n0), (S call). split; [reflexivity|]. unfold reconciled.
          split; [lia|]. split; [lia|]. split.
          { right. split; [lia|]. split; [lia|]. split; [lia|]. cbn [Nat.pred].
            rewrite N2Z.id. exact O. }
          intros n1 _ E _. rewrite O in E. inversion E; subst. repeat split; reflexivity.
        * destruct (IH (S call)) as [k' [n [calls [R [H1 [H2 [H3 _]]]]]]].
          exists k', n, calls. split; [exact R|]. unfold reconciled.
          split; [lia|]. split; [assumption|]. split; [assumption|].
          intros n1 _ E Hle. rewrite O in E. inversion E; subst. lia.
      + destruct (IH (S call)) as [k' [n [calls [R [H1 [H2 [H3 _]]]]]]].
        exists k', n, calls. split; [exact R|]. unfold reconciled.
        split; [lia|]. split; [assumption|]. split; [assumption|].
        intros n1 _ E _. rewrite O in E. discriminate.
  Qed.
End Reconcile.

(** ** The whole planner *)
Section Plan.
  Variables total nc cap buffer fee : Z.
  Variable orc : oracle.
  Variables (L : list Z) (mind maxd : Z).
  Hypothesis HL : Ladder L mind maxd.
  Hypothesis Htotal : 0 <= total <= MAX_MONEY.
  Hypothesis Hbuffer : 0 <= buffer <= MAX_MONEY.
  Hypothesis Hfee : 0 <= fee <= MAX_MONEY.
  Hypothesis Hcap : 0 <= cap.

  Let full := split_of L (Z.to_nat cap) total buffer fee (nc =? 1).
  Let assumed := assumed_of L (Z.to_nat cap) total buffer fee (nc =? 1).

  Lemma full_bounds : Forall (fun c => mind <= c <= maxd) full.
  Proof.
    eapply Forall_impl; [|apply (split_members_g total buffer fee L)]. cbn. intros a H.
    exact (lad_bounds _ _ _ HL a H).
  Qed.

  Lemma assumed_nonneg : 0 <= assumed * fee.
  Proof.
    unfold assumed, assumed_of. destruct (_ && _); [lia|].
    apply Z.mul_nonneg_nonneg; [|lia]. apply TxsArith.stxs_nonneg. lia.
  Qed.

  Lemma full_cost : sumZ (notes_of buffer full) + assumed * fee <= total.
  Proof. apply (split_cost_g total buffer fee L); lia. Qed.

  Lemma notes_nonneg_full : Forall (fun x => 0 <= x) (notes_of buffer full).
  Proof.
    unfold notes_of. apply Forall_map. eapply Forall_impl; [|exact full_bounds].
    cbn. pose proof (lad_pos _ _ _ HL). intros; lia.
  Qed.

  Lemma notes_sum : sumZ (notes_of buffer full) <= total.
  Proof. pose proof full_cost. pose proof assumed_nonneg. lia. Qed.

  Lemma sumZ_member_le l x : Forall (fun y => 0 <= y) l -> In x l -> x <= sumZ l.
  Proof.
    induction 1 as [|a l Ha Hl IH]; intros Hin; [destruct Hin|].
    cbn [sumZ fold_right]. fold (sumZ l). pose proof (sumZ_nonneg l Hl).
    destruct Hin as [-> | Hin]; [lia|]. specialize (IH Hin). lia.
  Qed.

  Lemma notes_valid : Forall (fun x => 0 <= x <= MAX_MONEY) (notes_of buffer full).
  Proof.
    apply Forall_forall. intros x Hx. pose proof notes_nonneg_full as N.
    pose proof (sumZ_member_le _ x N Hx). pose proof notes_sum.
    rewrite Forall_forall in N. specialize (N x Hx). lia.
  Qed.

  Lemma notes_of_firstn k l : firstn k (notes_of buffer l) = notes_of buffer (firstn k l).
  Proof. unfold notes_of. apply firstn_map. Qed.

  Lemma sum_cross_le_notes l : sumZ l <= sumZ (notes_of buffer l).
  Proof.
    induction l as [|a l IH]; cbn [notes_of map sumZ fold_right]; [lia|].
    fold (sumZ l). fold (notes_of buffer l). fold (sumZ (notes_of buffer l)). lia.
  Qed.

  (** The complete description of a plan, for every oracle. *)
  Theorem plan_spec_g :
    exists (k : nat) (n : Z) (calls : nat),
      let cross := firstn k full in
      let rem := total - sumZ (notes_of buffer cross) - n * fee in
      plan (mkStrategy cap maxd mind buffer) total nc fee orc
      = Ok (mkPlan cross (notes_of buffer cross) (if 0 <? rem then Some rem else None)
                   (n * fee) total (sumZ cross) buffer (Z.of_nat calls))
      /\ (k <= length full)%nat /\ 0 <= n /\ 0 <= rem
      /\ (k = O -> n = 0)
      /\ ((0 < k)%nat -> (0 < calls)%nat /\ orc (Nat.pred calls) (notes_of buffer cross) = Some (Z.to_N n))
      /\ (forall n0, full <> [] -> orc O (notes_of buffer full) = Some n0 ->
            sumZ (notes_of buffer full) + Z.of_N n0 * fee <= total ->
            k = length full /\ n = Z.of_N n0).
  Proof.
    pose proof MM_small as MS. pose proof (lad_max _ _ _ HL) as CM. pose proof (lad_pos _ _ _ HL) as MP.
    pose proof notes_valid as NV. pose proof notes_sum as NS. pose proof notes_nonneg_full as NN.
    pose proof full_bounds as FB.
    destruct (reconcile_spec orc (notes_of buffer full) fee total ltac:(lia) Htotal NV NS (length full) O)
      as [k [n [calls [R [K1 [K2 [K3 K4]]]]]]].
    exists k, n, calls. cbn zeta.
    unfold plan. cbn [s_buf].
    rewrite (split_correct_g total buffer fee cap L mind maxd HL Htotal Hbuffer Hfee nc Hcap). cbn [bind]. fold full.
    rewrite (map_res_ok (fun c => u64 (c + buffer)) (fun c => c + buffer)).
    2:{ rewrite Forall_forall in NV. apply Forall_forall. intros c Hc. apply u64_ok.
        specialize (NV (c + buffer) (in_map (fun c => c + buffer) full c Hc)). lia. }
    cbn [bind]. fold (notes_of buffer full). rewrite R. cbn [bind].
    rewrite notes_of_firstn.
    set (cross := firstn k full).
    assert (CB : Forall (fun c => mind <= c <= maxd) cross) by (apply Forall_firstn; exact FB).
    assert (KN : Forall (fun x => 0 <= x) (notes_of buffer cross)).
    { unfold cross. rewrite <- notes_of_firstn. apply Forall_firstn. exact NN. }
    assert (KS : sumZ (notes_of buffer cross) <= sumZ (notes_of buffer full)).
    { unfold cross. rewrite <- notes_of_firstn. apply sumZ_firstn_le. exact NN. }
    assert (KV : Forall (fun x => 0 <= x <= MAX_MONEY) (notes_of buffer cross)).
    { unfold cross. rewrite <- notes_of_firstn. apply Forall_firstn. exact NV. }
    pose proof (sumZ_nonneg _ KN) as KP.
    assert (FE : 0 <= n * fee) by (apply Z.mul_nonneg_nonneg; lia).
    assert (REM : sumZ (notes_of buffer cross) + n * fee <= total).
    { destruct K3 as [[-> ->] | [_ [H _]]].
      - unfold cross. cbn [firstn notes_of map sumZ fold_right]. lia.
      - rewrite notes_of_firstn in H. exact H. }
    rewrite (u64_ok (n * fee)) by lia. cbn [bind].
    rewrite sum_u64_ok by (try assumption; lia). cbn [bind].
    assert (SS : sat_sub (sat_sub total (sumZ (notes_of buffer cross))) (n * fee)
                 = total - sumZ (notes_of buffer cross) - n * fee).
    { unfold sat_sub. destruct (total <? sumZ (notes_of buffer cross)) eqn:E1; [lia|].
      destruct (total - sumZ (notes_of buffer cross) <? n * fee) eqn:E2; lia. }
    rewrite SS. clear SS. set (rem := total - sumZ (notes_of buffer cross) - n * fee).
    assert (CN : Forall (fun x => 0 <= x) cross) by (eapply Forall_impl; [|exact CB]; cbn; intros; lia).
    pose proof (sum_cross_le_notes cross) as CS. pose proof (sumZ_nonneg _ CN) as CP.
    rewrite sum_u64_ok by (try assumption; lia). cbn [bind].
    rewrite (map_res_ok zat (fun x => x)).
    2:{ eapply Forall_impl; [|exact CB]. cbn. intros a Ha. unfold zat.
        destruct ((0 <=? a) && (a <=? MAX_MONEY)) eqn:E; [reflexivity | lia]. }
    rewrite map_id. cbn [bind].
    assert (ZOK : forall v, 0 <= v <= MAX_MONEY -> zat v = Ok v).
    { intros v Hv. unfold zat. destruct ((0 <=? v) && (v <=? MAX_MONEY)) eqn:E; [reflexivity | lia]. }
    rewrite (ZOK buffer) by lia. cbn [bind].
    assert (CH : (if 0 <? rem then let! c := zat rem in Ok (Some c) else Ok None)
                 = Ok (if 0 <? rem then Some rem else None)).
    { destruct (0 <? rem) eqn:E; [|reflexivity]. rewrite ZOK by (unfold rem; lia). reflexivity. }
    rewrite CH. clear CH. cbn [bind].
    rewrite (ZOK (n * fee)) by lia. cbn [bind].
    rewrite (ZOK total) by lia. cbn [bind].
    rewrite (ZOK (sumZ cross)) by lia. cbn [bind].
    rewrite (map_res_ok (fun c => zat (c + buffer)) (fun c => c + buffer)).
    2:{ rewrite Forall_forall in KV. apply Forall_forall. intros c Hc. apply ZOK.
        apply (KV (c + buffer)). exact (in_map (fun c => c + buffer) cross c Hc). }
    cbn [bind]. fold (notes_of buffer cross).
    split; [reflexivity|].
    assert (LK : (k <= length full)%nat) by lia.
    split; [exact LK|]. split; [exact K2|]. split; [unfold rem; lia|].
    split.
    { intros ->. destruct K3 as [[_ H] | [H _]]; [exact H | lia]. }
    split.
    { intros Hk. destruct K3 as [[H _] | [_ [_ [H1 H2]]]]; [lia|].
      rewrite notes_of_firstn in H2. split; assumption. }
    intros n0 Hne HO Hle.
    assert (LP : (0 < length full)%nat) by (destruct full; [congruence | cbn [length]; lia]).
    rewrite notes_of_firstn, firstn_all in K4. destruct (K4 n0 LP HO Hle) as [A [B _]]. split; assumption.
  Qed.
End Plan.

(** The normative ZIP 318 bounds ([plan_denominations]). *)
Theorem plan_spec total nc cap buffer fee (orc : oracle) :
  0 <= total <= MAX_MONEY -> 0 <= buffer <= MAX_MONEY -> 0 <= fee <= MAX_MONEY -> 0 <= cap ->
  let full := canonical_split (Z.to_nat cap) total buffer fee (nc =? 1) in
  exists (k : nat) (n : Z) (calls : nat),
    let cross := firstn k full in
    let rem := total - sumZ (notes_of buffer cross) - n * fee in
    plan_denominations total nc cap buffer fee orc
    = Ok (mkPlan cross (notes_of buffer cross) (if 0 <? rem then Some rem else None)
                 (n * fee) total (sumZ cross) buffer (Z.of_nat calls))
    /\ (k <= length full)%nat /\ 0 <= n /\ 0 <= rem
    /\ (k = O -> n = 0)
    /\ ((0 < k)%nat -> (0 < calls)%nat /\ orc (Nat.pred calls) (notes_of buffer cross) = Some (Z.to_N n))
    /\ (forall n0, full <> [] -> orc O (notes_of buffer full) = Some n0 ->
          sumZ (notes_of buffer full) + Z.of_N n0 * fee <= total ->
          k = length full /\ n = Z.of_N n0).
Proof.
  intros Ht Hb Hf Hc. cbn zeta.
  destruct (plan_spec_g total nc cap buffer fee orc series MIN CAP zip318_ladder Ht Hb Hf Hc) as [k [n [calls H]]].
  exists k, n, calls. cbn zeta in H. rewrite !split_of_series in H. exact H.
Qed.
