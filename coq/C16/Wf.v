(** C16 — domain of the theorems as a boolean on cases: amounts are [Zatoshis] (0..=MAX_MONEY),
    counts are [usize], the cap is a [NonZeroUsize]. *)
From V.Lib Require Import Base MachInt.
From V.Gen Require Import C16Consts.
From V.C16 Require Import Model Spec Corr.
Local Open Scope Z_scope.

Definition is_zat (v : Z) : bool := (0 <=? v) && (v <=? MAX_MONEY).

Definition wf_case (c : case) : bool :=
  match c with
  | Plan total nc cap buffer fee _ _ _ =>
      is_zat total && is_zat buffer && is_zat fee && in_u64 nc && (1 <=? cap) && in_u64 cap
  | L125 hi floor _ => in_u64 hi && (1 <=? floor) && in_u64 floor
  | IsCanon v _ => is_zat v
  | Stored cross buffer _ => forallb is_zat cross && is_zat buffer
  | PlanNew total nc cap maxd mind buffer fee _ _ _ =>
      is_zat total && is_zat buffer && is_zat fee && is_zat maxd && is_zat mind && is_pow10 mind
      && in_u64 nc && (0 <=? cap) && in_u64 cap
  | Engine notes cap buffer fee o _ =>
      forallb is_zat notes && is_zat (sumZ notes) && is_zat buffer && is_zat fee && (1 <=? cap) && in_u64 cap
      && match o with Ok (_, ntx) => in_u64 ntx | _ => true end
  end.
