(** C16 — correspondence cases.  One constructor per public API operation: inputs, then the
    implementation's observed outcome.  [run_case]: model = implementation; [prop_case]: the
    property (Spec.v) evaluated on the implementation's outcome alone. *)
From V.Lib Require Import Base MachInt.
From V.Gen Require Import C16Consts.
From V.C16 Require Import Model Spec.
Local Open Scope Z_scope.

(** The oracle family the harness implements (harness/wallet/src/bin/c16.rs, [OSpec::answer]). *)
Inductive ospec :=
| OStub
| OConst (a : option N)
| ORefuseAbove (k : N)
| OAffine (m a : N)
| OByLen (t : list (option N)) (d : option N)
| OByCall (t : list (option N)) (d : option N)
| OBySum (m r : N) (a b : option N).

Definition stubN (len : nat) : N := Z.to_N (stxs (Z.of_nat len)).

Definition eval_oracle (os : ospec) : oracle := fun call notes =>
  let len := length notes in
  match os with
  | OStub => Some (stubN len)
  | OConst a => a
  | ORefuseAbove k => if (k <? N.of_nat len)%N then None else Some (stubN len)
  | OAffine m a => Some (m * stubN len + a)%N
  | OByLen t d => match len with O => d | S i => nth i t d end
  | OByCall t d => nth call t d
  | OBySum m r a b => if (Z.to_N (sumZ notes) mod m <? r)%N then a else b
  end.

Inductive eerr := ENothing | EUnfundable | EOther.

(** The real preparation planner is not modelled.  An engine outcome with [k] crossings and [ntx]
    preparation transactions is compared with the model under the oracle that refuses every layout
    but the [k]-note one and prices that one at [ntx]. *)
Definition obs_oracle (k : nat) (ntx : Z) : oracle :=
  fun _ l => if (length l =? k)%nat then Some (Z.to_N ntx) else None.

Inductive case :=
| Plan (total nc cap buffer fee : Z) (os : ospec) (o : res planrec) (same_under_other_rng : bool)
| L125 (hi floor : Z) (o : res Z)
| IsCanon (v : Z) (o : res bool)
| Stored (cross : list Z) (buffer : Z) (o : res (list Z))
(* CanonicalOneTwoFive::new(cap, maxd, mind, buffer).plan(..): caller-chosen bounds *)
| PlanNew (total nc cap maxd mind buffer fee : Z) (os : ospec) (o : res planrec) (same_under_other_rng : bool)
(* engine::plan_migration_with over a wallet holding [notes]: the denomination plan it previews and
   the number of preparation transactions of the layout the REAL preparation planner produced *)
| Engine (notes : list Z) (cap buffer fee : Z) (o : outcome (planrec * Z) eerr) (same_under_other_rng : bool).

Definition lz_eqb := list_eqb Z.eqb.
Definition unit_eqb (_ _ : unit) := true.
Definition planrec_eqb (a b : planrec) : bool :=
  lz_eqb (p_cross a) (p_cross b) && lz_eqb (p_out a) (p_out b)
  && option_eqb Z.eqb (p_change a) (p_change b) && (p_fees a =? p_fees b)
  && (p_total a =? p_total b) && (p_migr a =? p_migr b) && (p_buf a =? p_buf b)
  && (p_calls a =? p_calls b).

Definition planrec_core_eqb (a b : planrec) : bool :=
  lz_eqb (p_cross a) (p_cross b) && lz_eqb (p_out a) (p_out b)
  && option_eqb Z.eqb (p_change a) (p_change b) && (p_fees a =? p_fees b)
  && (p_total a =? p_total b) && (p_migr a =? p_migr b) && (p_buf a =? p_buf b).

Definition is_nil {A} (l : list A) : bool := match l with [] => true | _ => false end.

Definition model_split_empty (total nc cap buffer fee : Z) : bool :=
  match unconstrained_split (zip318_strategy cap buffer) total nc fee with
  | Ok [] => true
  | _ => false
  end.

Definition run_case (c : case) : bool :=
  match c with
  | Plan total nc cap buffer fee os o _ =>
      outcome_eqb planrec_eqb unit_eqb (plan_denominations total nc cap buffer fee (eval_oracle os)) o
  | L125 hi floor o => outcome_eqb Z.eqb unit_eqb (Ok (largest_one_two_five hi floor)) o
  | IsCanon v o => outcome_eqb Bool.eqb unit_eqb (Ok (is_canonical_denomination v)) o
  | Stored cross buffer o => outcome_eqb lz_eqb unit_eqb (stored_outputs cross buffer) o
  | PlanNew total nc cap maxd mind buffer fee os o _ =>
      outcome_eqb planrec_eqb unit_eqb (plan (mkStrategy cap maxd mind buffer) total nc fee (eval_oracle os)) o
  | Engine notes cap buffer fee o _ =>
      let total := sumZ notes in
      let nc := Z.of_nat (length notes) in
      match o with
      | Ok (p, ntx) =>
          negb (is_nil (p_cross p))
          && match plan_denominations total nc cap buffer fee (obs_oracle (length (p_cross p)) ntx) with
             | Ok pm => planrec_core_eqb pm p
             | _ => false
             end
      | Err ENothing => (total =? 0) || model_split_empty total nc cap buffer fee
      | Err EUnfundable => (0 <? total) && negb (model_split_empty total nc cap buffer fee)
      | _ => false
      end
  end.

(** ** The property on a plan *)

(** The answer the plan was accepted under: the last of its [calls] questions was about the kept
    notes.  (An empty plan reserves nothing.) *)
Definition accepted_answer (os : ospec) (p : planrec) : option N :=
  match p_cross p with
  | [] => Some 0%N
  | _ => eval_oracle os (Nat.pred (Z.to_nat (p_calls p))) (p_out p)
  end.

(** the clauses that do not mention the oracle *)
Definition plan_core_ok (total nc cap buffer fee : Z) (p : planrec) : bool :=
  let single := nc =? 1 in
  let capn := Z.to_nat cap in
  let full := canonical_split capn total buffer fee single in
  let cross := p_cross p in
  (* canonical, non-increasing, at most cap, a prefix of the canonical split *)
  forallb canonicalb cross
  && nonincreasing cross
  && (Z.of_nat (length cross) <=? cap)
  && is_prefix cross full
  (* every prepared note is its crossing plus the buffer; the totals are what they say *)
  && lz_eqb (p_out p) (map (fun c => c + buffer) cross)
  && (p_migr p =? sumZ cross) && (p_total p =? total) && (p_buf p =? buffer)
  (* conservation; change is reported only when positive *)
  && (sumZ (p_out p) + p_fees p + optZ (p_change p) =? total)
  && (match p_change p with Some c => 0 <? c | None => true end)
  && (0 <=? p_fees p).

Definition plan_ok (total nc cap buffer fee : Z) (os : ospec) (p : planrec) : bool :=
  let single := nc =? 1 in
  let capn := Z.to_nat cap in
  let full := canonical_split capn total buffer fee single in
  let cross := p_cross p in
  plan_core_ok total nc cap buffer fee p
  (* the reserved fees are the accepted layout's transaction count times the fee, exactly *)
  && (match accepted_answer os p with
      | Some n => p_fees p =? Z.of_N n * fee
      | None => false
      end)
  (* nothing is dropped that the oracle would have accepted within the balance: the full split
     is kept whenever preparation costs what the planner assumed, and then the change is small
     unless the cap was reached *)
  && (match eval_oracle os O (map (fun c => c + buffer) full) with
      | Some n =>
          if (Z.of_N n =? assumed_txs capn total buffer fee single) then
            lz_eqb cross full
            && ((cap <=? Z.of_nat (length full)) || (optZ (p_change p) <? MIN + buffer + fee))
          else true
      | None => true
      end).

(** The same clauses for caller-chosen bounds: the admissible denominations are [series_of mind maxd]. *)
Definition gplan_core_ok (L : list Z) (total nc cap buffer fee : Z) (p : planrec) : bool :=
  let full := split_of L (Z.to_nat cap) total buffer fee (nc =? 1) in
  let cross := p_cross p in
  forallb (fun v => existsb (Z.eqb v) L) cross
  && nonincreasing cross
  && (Z.of_nat (length cross) <=? cap)
  && is_prefix cross full
  && lz_eqb (p_out p) (map (fun c => c + buffer) cross)
  && (p_migr p =? sumZ cross) && (p_total p =? total) && (p_buf p =? buffer)
  && (sumZ (p_out p) + p_fees p + optZ (p_change p) =? total)
  && (match p_change p with Some c => 0 <? c | None => true end)
  && (0 <=? p_fees p).

Definition gplan_ok (total nc cap maxd mind buffer fee : Z) (os : ospec) (p : planrec) : bool :=
  let L := series_of mind maxd in
  let capn := Z.to_nat cap in
  let full := split_of L capn total buffer fee (nc =? 1) in
  gplan_core_ok L total nc cap buffer fee p
  && (match accepted_answer os p with
      | Some n => p_fees p =? Z.of_N n * fee
      | None => false
      end)
  && (match eval_oracle os O (map (fun c => c + buffer) full) with
      | Some n =>
          if (Z.of_N n =? assumed_of L capn total buffer fee (nc =? 1)) then
            lz_eqb (p_cross p) full
            && ((maxd <? mind) || (cap <=? Z.of_nat (length full))
                || (optZ (p_change p) <? mind + buffer + fee))
          else true
      | None => true
      end).

Definition prop_case (c : case) : bool :=
  match c with
  | Plan total nc cap buffer fee os o same =>
      same && match o with Ok p => plan_ok total nc cap buffer fee os p | _ => false end
  | L125 hi floor o =>
      match o with
      | Ok v => if is_pow10 floor then v =? spec_l125 hi floor else true
      | _ => false
      end
  | IsCanon v o => match o with Ok b => Bool.eqb b (canonicalb v) | _ => false end
  | Stored cross buffer o =>
      match o with
      | Ok outs => lz_eqb outs (map (fun c => c + buffer) cross) && forallb (fun x => x <=? MAX_MONEY) outs
      | Err _ => existsb (fun c => MAX_MONEY <? c + buffer) cross
      | Panic => false
      end
  | PlanNew total nc cap maxd mind buffer fee os o same =>
      same && match o with Ok p => gplan_ok total nc cap maxd mind buffer fee os p | _ => false end
  | Engine notes cap buffer fee o same =>
      let total := sumZ notes in
      let nc := Z.of_nat (length notes) in
      let full := canonical_split (Z.to_nat cap) total buffer fee (nc =? 1) in
      same && match o with
              | Ok (p, ntx) =>
                  (* the engine only returns a plan that migrates something; its reserved fees are
                     the real layout's transaction count times the fee *)
                  negb (is_nil (p_cross p)) && plan_core_ok total nc cap buffer fee p
                  && (0 <=? ntx) && (p_fees p =? ntx * fee)
              | Err ENothing => (total =? 0) || is_nil full
              | Err EUnfundable => (0 <? total) && negb (is_nil full)
              | _ => false
              end
  end.

Definition known_class (c : case) : N := 0%N.

(** ** Path tags *)
Definition overflowing_answer (os : ospec) (fee : Z) (notes : list Z) (calls : nat) : bool :=
  existsb (fun i => match eval_oracle os i (firstn (Nat.sub (length notes) i) notes) with
                    | Some n => u64_max <? Z.of_N n * fee
                    | None => false
                    end) (seq 0 calls).

Definition tag_case (c : case) : N :=
  match c with
  | Plan total nc cap buffer fee os o _ =>
      let single := nc =? 1 in
      let capn := Z.to_nat cap in
      let full := canonical_split capn total buffer fee single in
      match o with
      | Ok p =>
          let k := length (p_cross p) in
          let base :=
            if exact_note total buffer single then (if (k =? 0)%nat then 3%N else 2%N)
            else match full with
                 | [] => 4%N
                 | _ => if (k =? length full)%nat then (if (Z.of_nat k =? cap) then 6%N else 5%N)
                        else if (k =? 0)%nat then 8%N else 7%N
                 end in
          if overflowing_answer os fee (map (fun c => c + buffer) full) (Z.to_nat (p_calls p))
          then (base + 10)%N else base
      | _ => 1%N
      end
  | L125 hi floor o =>
      if negb (is_pow10 floor) then 25%N else
      match o with
      | Ok v => if v =? 0 then 21%N else
                let s := strip 20 v in if s =? 5 then 22%N else if s =? 2 then 23%N else 24%N
      | _ => 26%N
      end
  | IsCanon v o => match o with Ok true => 27%N | Ok false => if (v <? MIN) || (CAP <? v) then 28%N else 29%N | _ => 30%N end
  | Stored _ _ o => match o with Ok _ => 31%N | Err _ => 32%N | Panic => 33%N end
  | PlanNew total nc cap maxd mind buffer fee os o _ =>
      let L := series_of mind maxd in
      let full := split_of L (Z.to_nat cap) total buffer fee (nc =? 1) in
      match o with
      | Ok p =>
          if maxd <? mind then 51%N
          else if cap =? 0 then 52%N
          else if exact_note_of L total buffer (nc =? 1) then (if is_nil (p_cross p) then 54%N else 53%N)
          else match full with
               | [] => 55%N
               | _ => if (length (p_cross p) =? length full)%nat then 56%N
                      else if is_nil (p_cross p) then 58%N else 57%N
               end
      | _ => 59%N
      end
  | Engine notes cap buffer fee o _ =>
      let total := sumZ notes in
      let nc := Z.of_nat (length notes) in
      let full := canonical_split (Z.to_nat cap) total buffer fee (nc =? 1) in
      match o with
      | Ok (p, ntx) => if ntx =? 0 then 41%N
                       else if (length (p_cross p) =? length full)%nat then 42%N else 43%N
      | Err ENothing => if total =? 0 then 44%N else 45%N
      | Err EUnfundable => 46%N
      | _ => 47%N
      end
  end.
