(** C16 — bridge: on a well-formed case, agreement of the implementation with the model
    ([run_case]) implies the property on the implementation's outcome ([prop_case]), for every
    oracle of the family.  The only part of [prop_case] not implied is the RNG flag, which only
    the harness can observe ([rng_flag]: the plan was identical under a second RNG seed). *)
From V.Lib Require Import Base MachInt.
From V.Gen Require Import C16Consts.
From V.C16 Require Import Model Spec Corr Wf ProofsSeries ProofsL125 ProofsSplit ProofsLadder ProofsPlan Proofs.
From Coq Require Import ZifyBool.
Local Open Scope Z_scope.

Definition rng_flag (c : case) : bool :=
  match c with
  | Plan _ _ _ _ _ _ _ same => same
  | PlanNew _ _ _ _ _ _ _ _ _ same => same
  | Engine _ _ _ _ _ same => same
  | _ => true
  end.

Lemma lz_eqb_eq a b : lz_eqb a b = true <-> a = b.
Proof. apply list_eqb_spec. intros x y. apply Z.eqb_eq. Qed.
Lemma lz_eqb_refl a : lz_eqb a a = true.
Proof. apply lz_eqb_eq. reflexivity. Qed.

Lemma planrec_eqb_eq a b : planrec_eqb a b = true -> a = b.
Proof.
  destruct a as [a1 a2 a3 a4 a5 a6 a7 a8], b as [b1 b2 b3 b4 b5 b6 b7 b8].
  unfold planrec_eqb. cbn [p_cross p_out p_change p_fees p_total p_migr p_buf p_calls].
  rewrite !andb_true_iff. intros [[[[[[[H1 H2] H3] H4] H5] H6] H7] H8].
  apply lz_eqb_eq in H1, H2. apply (option_eqb_spec Z.eqb Z.eqb_eq) in H3.
  apply Z.eqb_eq in H4, H5, H6, H7, H8. subst. reflexivity.
Qed.

Lemma is_zat_P v : is_zat v = true -> zatoshi v.
Proof. unfold is_zat, zatoshi. lia. Qed.

Lemma forallb_canonical l : Forall Canonical l -> forallb canonicalb l = true.
Proof.
  induction 1 as [|x l Hx _ IH]; [reflexivity|]. cbn [forallb].
  rewrite (proj2 (canonicalb_spec x) Hx), IH. reflexivity.
Qed.

Lemma plan_core_bridge total nc cap buffer fee (orc : oracle) p :
  zatoshi total -> zatoshi buffer -> zatoshi fee -> 1 <= cap ->
  plan_denominations total nc cap buffer fee orc = Ok p ->
  plan_core_ok total nc cap buffer fee p = true.
Proof.
  intros Ht Hb Hf Hc Hp.
  destruct (plan_crossings total nc cap buffer fee orc Ht Hb Hf Hc p Hp) as [C1 [C2 [C3 [k C4]]]].
  destruct (plan_conservation total nc cap buffer fee orc Ht Hb Hf Hc p Hp) as [V1 [V2 [V3 [V4 [V5 [V6 V7]]]]]].
  unfold plan_core_ok. cbn zeta.
  rewrite (forallb_canonical _ C1), C2. cbn [andb].
  assert (E3 : (Z.of_nat (length (p_cross p)) <=? cap) = true) by lia. rewrite E3. cbn [andb].
  rewrite C4 at 1. rewrite is_prefix_firstn. cbn [andb].
  rewrite V1, lz_eqb_refl. cbn [andb].
  rewrite <- V1.
  assert (E4 : (p_migr p =? sumZ (p_cross p)) = true) by lia.
  assert (E5 : (p_total p =? total) = true) by lia.
  assert (E6 : (p_buf p =? buffer) = true) by lia.
  assert (E7 : (sumZ (p_out p) + p_fees p + optZ (p_change p) =? total) = true) by lia.
  assert (E8 : (0 <=? p_fees p) = true) by lia.
  rewrite E4, E5, E6, E7, E8. cbn [andb].
  destruct (p_change p) as [c|] eqn:Ch; [|reflexivity]. specialize (V7 c eq_refl). lia.
Qed.

Lemma plan_bridge total nc cap buffer fee os p :
  zatoshi total -> zatoshi buffer -> zatoshi fee -> 1 <= cap ->
  plan_denominations total nc cap buffer fee (eval_oracle os) = Ok p ->
  plan_ok total nc cap buffer fee os p = true.
Proof.
  intros Ht Hb Hf Hc Hp.
  destruct (plan_fees total nc cap buffer fee _ Ht Hb Hf Hc p Hp) as [F1 F2].
  pose proof (plan_residual total nc cap buffer fee (eval_oracle os) Ht Hb Hf Hc p) as R.
  unfold plan_ok. cbn zeta.
  rewrite (plan_core_bridge total nc cap buffer fee _ p Ht Hb Hf Hc Hp). cbn [andb].
  apply andb_true_iff. split.
  - unfold accepted_answer. destruct (p_cross p) as [|x l] eqn:Cr.
    + rewrite F1 by reflexivity. reflexivity.
    + destruct (F2 ltac:(discriminate)) as [a [Ha Hfees]]. rewrite Ha. lia.
  - destruct (eval_oracle os O (map (fun c => c + buffer)
               (canonical_split (Z.to_nat cap) total buffer fee (nc =? 1)))) as [a|] eqn:A; [|reflexivity].
    destruct (Z.of_N a =? assumed_txs (Z.to_nat cap) total buffer fee (nc =? 1)) eqn:Q; [|reflexivity].
    apply Z.eqb_eq in Q. destruct (R a Hp eq_refl Q) as [R1 R2].
    rewrite R1, lz_eqb_refl. cbn [andb].
    destruct (cap <=? Z.of_nat (length (canonical_split (Z.to_nat cap) total buffer fee (nc =? 1)))) eqn:L;
      [reflexivity|]. cbn [orb]. specialize (R2 ltac:(lia)). lia.
Qed.

(** caller-chosen bounds *)
Lemma forallb_member L l : Forall (fun s => In s L) l -> forallb (fun v => existsb (Z.eqb v) L) l = true.
Proof.
  induction 1 as [|x l Hx _ IH]; [reflexivity|]. cbn [forallb]. rewrite IH, andb_true_r.
  apply existsb_exists. exists x. split; [exact Hx | apply Z.eqb_refl].
Qed.

Lemma gplan_core_bridge L mind maxd total nc cap buffer fee (orc : oracle) p :
  Ladder L mind maxd -> zatoshi total -> zatoshi buffer -> zatoshi fee -> 0 <= cap ->
  plan (mkStrategy cap maxd mind buffer) total nc fee orc = Ok p ->
  gplan_core_ok L total nc cap buffer fee p = true.
Proof.
  intros HL Ht Hb Hf Hc Hp.
  destruct (plan_crossings_g total nc cap buffer fee orc L mind maxd HL Ht Hb Hf Hc p Hp) as [C1 [C2 [C3 [k C4]]]].
  destruct (plan_conservation_g total nc cap buffer fee orc L mind maxd HL Ht Hb Hf Hc p Hp) as [V1 [V2 [V3 [V4 [V5 [V6 V7]]]]]].
  unfold gplan_core_ok. cbn zeta.
  rewrite (forallb_member _ _ C1), C2. cbn [andb].
  assert (E3 : (Z.of_nat (length (p_cross p)) <=? cap) = true) by lia. rewrite E3. cbn [andb].
  rewrite C4 at 1. rewrite is_prefix_firstn. cbn [andb].
  rewrite V1, lz_eqb_refl. cbn [andb].
  rewrite <- V1.
  assert (E4 : (p_migr p =? sumZ (p_cross p)) = true) by lia.
  assert (E5 : (p_total p =? total) = true) by lia.
  assert (E6 : (p_buf p =? buffer) = true) by lia.
  assert (E7 : (sumZ (p_out p) + p_fees p + optZ (p_change p) =? total) = true) by lia.
  assert (E8 : (0 <=? p_fees p) = true) by lia.
  rewrite E4, E5, E6, E7, E8. cbn [andb].
  destruct (p_change p) as [c|] eqn:Ch; [|reflexivity]. specialize (V7 c eq_refl). lia.
Qed.

Lemma gplan_bridge i total nc cap maxd buffer fee os p :
  In i (seq 0 20) -> zatoshi (10 ^ Z.of_nat i) -> zatoshi maxd ->
  zatoshi total -> zatoshi buffer -> zatoshi fee -> 0 <= cap ->
  plan (mkStrategy cap maxd (10 ^ Z.of_nat i) buffer) total nc fee (eval_oracle os) = Ok p ->
  gplan_ok total nc cap maxd (10 ^ Z.of_nat i) buffer fee os p = true.
Proof.
  intros Hi Hmn Hmx Ht Hb Hf Hc Hp. set (mind := 10 ^ Z.of_nat i) in *.
  assert (HL : Ladder (series_of mind maxd) mind maxd) by (apply ladder_of; unfold zatoshi in *; lia || assumption).
  destruct (plan_fees_g total nc cap buffer fee _ _ mind maxd HL Ht Hb Hf Hc p Hp) as [F1 F2].
  pose proof (plan_residual_g total nc cap buffer fee (eval_oracle os) _ mind maxd HL Ht Hb Hf Hc p) as R.
  unfold gplan_ok. cbn zeta.
  rewrite (gplan_core_bridge _ mind maxd total nc cap buffer fee _ p HL Ht Hb Hf Hc Hp). cbn [andb].
  apply andb_true_iff. split.
  - unfold accepted_answer. destruct (p_cross p) as [|x l] eqn:Cr.
    + rewrite F1 by reflexivity. reflexivity.
    + destruct (F2 ltac:(discriminate)) as [a [Ha Hfees]]. rewrite Ha. lia.
  - destruct (eval_oracle os O (map (fun c => c + buffer)
               (split_of (series_of mind maxd) (Z.to_nat cap) total buffer fee (nc =? 1)))) as [a|] eqn:A; [|reflexivity].
    destruct (Z.of_N a =? assumed_of (series_of mind maxd) (Z.to_nat cap) total buffer fee (nc =? 1)) eqn:Q; [|reflexivity].
    apply Z.eqb_eq in Q. destruct (R a Hp eq_refl Q) as [R1 R2].
    rewrite R1, lz_eqb_refl. cbn [andb].
    destruct (maxd <? mind) eqn:MM; [reflexivity|]. cbn [orb].
    destruct (cap <=? Z.of_nat (length (split_of (series_of mind maxd) (Z.to_nat cap) total buffer fee (nc =? 1)))) eqn:LL;
      [reflexivity|]. cbn [orb]. specialize (R2 ltac:(lia) ltac:(lia)). lia.
Qed.

(** the oracle-free clauses do not look at the number of oracle questions *)
Lemma plan_core_ok_core_eq total nc cap buffer fee a b :
  planrec_core_eqb a b = true -> plan_core_ok total nc cap buffer fee a = plan_core_ok total nc cap buffer fee b.
Proof.
  destruct a as [a1 a2 a3 a4 a5 a6 a7 a8], b as [b1 b2 b3 b4 b5 b6 b7 b8].
  unfold planrec_core_eqb. cbn [p_cross p_out p_change p_fees p_total p_migr p_buf p_calls].
  rewrite !andb_true_iff. intros [[[[[[H1 H2] H3] H4] H5] H6] H7].
  apply lz_eqb_eq in H1, H2. apply (option_eqb_spec Z.eqb Z.eqb_eq) in H3.
  apply Z.eqb_eq in H4, H5, H6, H7. subst. reflexivity.
Qed.

Lemma core_eq_fields a b : planrec_core_eqb a b = true -> p_cross a = p_cross b /\ p_out a = p_out b /\ p_fees a = p_fees b.
Proof.
  unfold planrec_core_eqb. rewrite !andb_true_iff. intros [[[[[[H1 H2] H3] H4] H5] H6] H7].
  apply lz_eqb_eq in H1, H2. apply Z.eqb_eq in H4. auto.
Qed.

Lemma model_split_empty_spec total nc cap buffer fee :
  zatoshi total -> zatoshi buffer -> zatoshi fee -> 0 <= cap ->
  model_split_empty total nc cap buffer fee = is_nil (canonical_split (Z.to_nat cap) total buffer fee (nc =? 1)).
Proof.
  intros Ht Hb Hf Hc. unfold model_split_empty.
  rewrite (split_correct total buffer fee cap Ht Hb Hf nc Hc).
  destruct (canonical_split (Z.to_nat cap) total buffer fee (nc =? 1)); reflexivity.
Qed.

Lemma engine_bridge notes cap buffer fee p ntx :
  zatoshi (sumZ notes) -> zatoshi buffer -> zatoshi fee -> 1 <= cap -> 0 <= ntx ->
  negb (is_nil (p_cross p))
  && match plan_denominations (sumZ notes) (Z.of_nat (length notes)) cap buffer fee (obs_oracle (length (p_cross p)) ntx) with
     | Ok pm => planrec_core_eqb pm p
     | _ => false
     end = true ->
  negb (is_nil (p_cross p)) && plan_core_ok (sumZ notes) (Z.of_nat (length notes)) cap buffer fee p
  && (0 <=? ntx) && (p_fees p =? ntx * fee) = true.
Proof.
  intros Ht Hb Hf Hc Hn R. apply andb_true_iff in R. destruct R as [NE R]. rewrite NE. cbn [andb].
  destruct (plan_denominations (sumZ notes) (Z.of_nat (length notes)) cap buffer fee
              (obs_oracle (length (p_cross p)) ntx)) as [pm| |] eqn:Em; try discriminate.
  rewrite <- (plan_core_ok_core_eq _ _ _ _ _ pm p R).
  rewrite (plan_core_bridge _ _ _ _ _ _ pm Ht Hb Hf Hc Em). cbn [andb].
  assert (E0 : (0 <=? ntx) = true) by lia. rewrite E0. cbn [andb].
  destruct (core_eq_fields pm p R) as [Ec [Eo Ef]].
  destruct (plan_fees _ _ _ _ _ _ Ht Hb Hf Hc pm Em) as [_ F2].
  assert (NEm : p_cross pm <> []).
  { rewrite Ec. destruct (p_cross p); [discriminate NE | discriminate]. }
  destruct (F2 NEm) as [a [Ha Hfees]]. unfold obs_oracle in Ha.
  destruct (length (p_out pm) =? length (p_cross p))%nat; [|discriminate].
  inversion Ha; subst a. rewrite Z2N.id in Hfees by lia. rewrite <- Ef. lia.
Qed.

Lemma stored_bridge cross buffer o :
  forallb is_zat cross = true -> is_zat buffer = true ->
  outcome_eqb lz_eqb unit_eqb (stored_outputs cross buffer) o = true ->
  match o with
  | Ok outs => lz_eqb outs (map (fun c => c + buffer) cross) && forallb (fun x => x <=? MAX_MONEY) outs
  | Err _ => existsb (fun c => MAX_MONEY <? c + buffer) cross
  | Panic => false
  end = true.
Proof.
  intros Hc Hb. unfold stored_outputs.
  destruct (forallb (fun c => c + buffer <=? MAX_MONEY) cross) eqn:F.
  - rewrite (map_res_ok (fun c => zat (c + buffer)) (fun c => c + buffer)).
    + destruct o as [outs| |]; cbn [outcome_eqb]; try discriminate. intros E.
      apply lz_eqb_eq in E. subst outs. rewrite lz_eqb_refl. cbn [andb].
      rewrite forallb_forall in *. intros x Hx. apply in_map_iff in Hx. destruct Hx as [c [<- Hc']].
      apply (F c Hc').
    + rewrite forallb_forall in *. apply Forall_forall. intros c Hc'. unfold zat.
      specialize (F c Hc'). specialize (Hc c Hc'). unfold is_zat in *.
      destruct ((0 <=? c + buffer) && (c + buffer <=? MAX_MONEY)) eqn:E; [reflexivity | lia].
  - destruct o as [outs| |]; cbn [outcome_eqb]; try discriminate. intros _.
    clear Hc. induction cross as [|c l IH]; [discriminate|]. cbn [forallb existsb] in *.
    destruct (c + buffer <=? MAX_MONEY) eqn:E; cbn [andb] in F.
    + rewrite (IH F). apply orb_true_r.
    + assert (E' : (MAX_MONEY <? c + buffer) = true) by lia. rewrite E'. reflexivity.
Qed.

Theorem agree_implies_property c :
  wf_case c = true -> rng_flag c = true -> run_case c = true -> prop_case c = true.
Proof.
  destruct c as [total nc cap buffer fee os o same | hi floor o | v o | cross buffer o
                 | total nc cap maxd mind buffer fee os o same | notes cap buffer fee o same];
    cbn [wf_case rng_flag run_case prop_case]; intros W G R.
  - subst same. cbn [andb].
    repeat match goal with H : _ && _ = true |- _ => apply andb_true_iff in H; destruct H end.
    assert (Hc : 1 <= cap) by lia.
    destruct (plan_total_ok total nc cap buffer fee (eval_oracle os)
                (is_zat_P _ H) (is_zat_P _ H4) (is_zat_P _ H3) Hc) as [pm Em].
    rewrite Em in R. destruct o as [p| |]; cbn [outcome_eqb] in R; try discriminate.
    apply planrec_eqb_eq in R. subst p.
    apply plan_bridge; auto using is_zat_P.
  - destruct o as [v| |]; cbn [outcome_eqb] in R; try discriminate.
    apply Z.eqb_eq in R. subst v. destruct (is_pow10 floor) eqn:Pw; [|reflexivity].
    apply Z.eqb_eq. apply l125_closed_form; [exact Pw|]. unfold in_u64, in_range in W. lia.
  - destruct o as [b| |]; cbn [outcome_eqb] in R; try discriminate.
    rewrite is_canonical_canonicalb in R. rewrite Bool.eqb_true_iff in R. subst b.
    apply Bool.eqb_reflx.
  - apply andb_true_iff in W. destruct W as [W1 W2]. apply stored_bridge; assumption.
  - subst same. cbn [andb].
    repeat match goal with H : _ && _ = true |- _ => apply andb_true_iff in H; destruct H end.
    match goal with H : is_pow10 mind = true |- _ => destruct (is_pow10_P mind H) as [i [Hi ->]] end.
    assert (Hc : 0 <= cap) by lia.
    assert (EX : exists pm, plan (mkStrategy cap maxd (10 ^ Z.of_nat i) buffer) total nc fee (eval_oracle os) = Ok pm).
    { apply (plan_total_ok_g total nc cap buffer fee _ (series_of (10 ^ Z.of_nat i) maxd)); auto using is_zat_P.
      apply ladder_of; [exact Hi | |];
        match goal with H : is_zat ?v = true |- ?v <= _ => apply is_zat_P in H; unfold zatoshi in H; lia end. }
    destruct EX as [pm Em]. rewrite Em in R. destruct o as [p| |]; cbn [outcome_eqb] in R; try discriminate.
    apply planrec_eqb_eq in R. subst p.
    apply gplan_bridge; auto using is_zat_P.
  - subst same. cbn [andb].
    repeat match goal with H : _ && _ = true |- _ => apply andb_true_iff in H; destruct H end.
    assert (Hc : 1 <= cap) by lia.
    pose proof (is_zat_P _ H5) as Ht. pose proof (is_zat_P _ H4) as Hb. pose proof (is_zat_P _ H3) as Hf.
    destruct o as [[p ntx]| [ | | ] |]; try discriminate.
    + apply engine_bridge; try assumption. unfold in_u64, in_range in H0. lia.
    + rewrite model_split_empty_spec in R by (try assumption; lia). exact R.
    + rewrite model_split_empty_spec in R by (try assumption; lia). exact R.
Qed.
