(** C16 — lemmas about the 1-2-5 series, [largest_one_two_five] and [is_canonical_denomination]. *)
From V.Lib Require Import Base MachInt.
From V.Gen Require Import C16Consts.
From V.C16 Require Import Model Spec.
From Coq Require Import ZifyBool Sorted.
Local Open Scope Z_scope.

(** ** Powers of ten *)
Lemma pow10_pos j : 0 <= j -> 0 < 10 ^ j.
Proof. intros; apply Z.pow_pos_nonneg; lia. Qed.

Lemma pow10_succ j : 0 <= j -> 10 ^ (j + 1) = 10 ^ j * 10.
Proof. intros. rewrite Z.pow_add_r by lia. reflexivity. Qed.

Lemma pow10_lt_step j j' : 0 <= j' -> j' < j -> 10 ^ j' * 10 <= 10 ^ j.
Proof.
  intros H0 H1. rewrite <- pow10_succ by lia. apply Z.pow_le_mono_r; lia.
Qed.

(** ** The canonical series as a concrete list *)
Lemma series_eq : series =
  [1000000000000; 500000000000; 200000000000; 100000000000; 50000000000; 20000000000;
   10000000000; 5000000000; 2000000000; 1000000000; 500000000; 200000000; 100000000;
   50000000; 20000000; 10000000; 5000000; 2000000; 1000000].
Proof. vm_compute. reflexivity. Qed.

(* tactics must never unfold the computed list (only vm_compute evaluates it) *)
Global Opaque series all125.

Lemma canonicalb_In v : canonicalb v = true <-> In v series.
Proof.
  unfold canonicalb. rewrite existsb_exists. split.
  - intros [x [Hx E]]. apply Z.eqb_eq in E. subst. exact Hx.
  - intros H. exists v. split; [exact H | apply Z.eqb_refl].
Qed.

(** boolean search for a 1-2-5 witness, used to discharge finite enumerations by computation *)
Definition otf_witness (v : Z) : bool :=
  existsb (fun k => existsb (fun m => v =? m * 10 ^ Z.of_nat k) [1; 2; 5]) (seq 0 20).

Lemma otf_witness_sound v : otf_witness v = true -> OneTwoFive v.
Proof.
  unfold otf_witness. rewrite existsb_exists. intros [k [_ H]].
  rewrite existsb_exists in H. destruct H as [m [Hm E]]. apply Z.eqb_eq in E.
  exists (Z.of_nat k), m. split; [lia|]. split; [|exact E].
  simpl in Hm. intuition.
Qed.

Lemma series_canonical v : In v series -> Canonical v.
Proof.
  intros H. split.
  - apply otf_witness_sound.
    assert (A : forallb otf_witness series = true) by (vm_compute; reflexivity).
    rewrite forallb_forall in A. exact (A v H).
  - assert (A : forallb (fun s => (MIN <=? s) && (s <=? CAP)) series = true) by (vm_compute; reflexivity).
    rewrite forallb_forall in A. specialize (A v H). lia.
Qed.

Lemma small_exponent k m : 0 <= k -> 1 <= m -> m * 10 ^ k <= CAP -> k <= 12.
Proof.
  intros Hk Hm Hc. destruct (Z_le_gt_dec k 12) as [|G]; [assumption|exfalso].
  assert (10 ^ 13 <= 10 ^ k) by (apply Z.pow_le_mono_r; lia).
  assert (10 ^ 13 = 10000000000000) by reflexivity.
  unfold CAP, DENOM_CAP in Hc. nia.
Qed.

Lemma canonical_series v : Canonical v -> In v series.
Proof.
  intros [[k [m [Hk [Hm E]]]] [Hlo Hhi]].
  assert (K : k <= 12) by (apply (small_exponent k m); [lia | lia | subst; exact Hhi]).
  apply (proj1 (canonicalb_In v)).
  assert (Hk' : k = 0 \/ k = 1 \/ k = 2 \/ k = 3 \/ k = 4 \/ k = 5 \/ k = 6 \/ k = 7 \/ k = 8
                \/ k = 9 \/ k = 10 \/ k = 11 \/ k = 12) by lia.
  apply Z.leb_le in Hlo, Hhi.
  repeat (destruct Hk' as [-> | Hk']); try subst k;
    destruct Hm as [-> | [-> | ->]]; subst v;
    first [ vm_compute; reflexivity | vm_compute in Hlo; discriminate | vm_compute in Hhi; discriminate ].
Qed.

Theorem canonicalb_spec v : canonicalb v = true <-> Canonical v.
Proof.
  rewrite canonicalb_In. split; [apply series_canonical | apply canonical_series].
Qed.

(** strictly descending *)
Lemma series_sorted : StronglySorted Z.gt series.
Proof.
  rewrite series_eq.
  repeat (apply SSorted_cons; [| repeat (apply Forall_cons; [lia|]); apply Forall_nil]).
  apply SSorted_nil.
Qed.

Lemma series_bounds s : In s series -> MIN <= s <= CAP.
Proof. intros H. apply series_canonical in H. apply H. Qed.

Lemma MIN_in_series : In MIN series.
Proof. apply (proj1 (canonicalb_In MIN)). vm_compute. reflexivity. Qed.

(** ** [largest_one_two_five] for an arbitrary positive floor *)

(** the 1-2-5 multiples of [floor * 10^j] *)
Definition Series125 (floor v : Z) : Prop :=
  exists j m, 0 <= j /\ (m = 1 \/ m = 2 \/ m = 5) /\ v = m * (floor * 10 ^ j).

Lemma grow_spec fuel : forall pow hi,
  0 < pow -> pow <= hi -> hi <= u64_max -> u64_max < pow * 10 ^ Z.of_nat fuel ->
  exists j, 0 <= j /\ grow fuel pow hi = pow * 10 ^ j
            /\ grow fuel pow hi <= hi /\ hi < grow fuel pow hi * 10.
Proof.
  induction fuel as [|f IH]; intros pow hi Hp Hle Hhi Hf.
  - exfalso. change (10 ^ Z.of_nat 0) with 1 in Hf. lia.
  - cbn [grow]. unfold DENOMINATION_RADIX.
    destruct (in_u64 (pow * 10) && (pow * 10 <=? hi)) eqn:E.
    + destruct (IH (pow * 10) hi) as [j [Hj [Eg [G1 G2]]]]; try lia.
      * rewrite Nat2Z.inj_succ, Z.pow_succ_r in Hf by lia. lia.
      * exists (j + 1). split; [lia|]. rewrite Eg. rewrite pow10_succ by lia.
        split; [ring|]. rewrite <- Eg. lia.
    + exists 0. change (10 ^ 0) with 1.
      unfold in_u64, in_range in E. lia.
Qed.

Lemma grow_fuel_enough floor : 0 < floor -> u64_max < floor * 10 ^ Z.of_nat GROW_FUEL.
Proof.
  intros. change (10 ^ Z.of_nat GROW_FUEL) with 100000000000000000000. unfold u64_max. lia.
Qed.

(** The general specification of [largest_one_two_five]: for a positive floor and [floor <= hi],
    the result is the LARGEST 1-2-5 multiple of a radix power of the floor not exceeding [hi]. *)
Lemma l125_max hi floor : 0 < floor -> floor <= hi -> hi <= u64_max ->
  Series125 floor (largest_one_two_five hi floor)
  /\ largest_one_two_five hi floor <= hi
  /\ (forall s, Series125 floor s -> s <= hi -> s <= largest_one_two_five hi floor).
Proof.
  intros Hf Hle Hhi. unfold largest_one_two_five.
  destruct (hi <? floor) eqn:E; [lia|]. clear E.
  destruct (grow_spec GROW_FUEL floor hi Hf Hle Hhi (grow_fuel_enough floor Hf))
    as [j [Hj [Eg [G1 G2]]]].
  set (p := grow GROW_FUEL floor hi) in *.
  assert (Hp : 0 < p) by (rewrite Eg; pose proof (pow10_pos j Hj); nia).
  (* every series value compares with p by its exponent *)
  assert (CMP : forall s, Series125 floor s -> s <= hi ->
                (exists m, (m = 1 \/ m = 2 \/ m = 5) /\ s = m * p) \/ s * 2 <= p).
  { intros s [j' [m [Hj' [Hm Es]]]] Hs.
    destruct (Z.lt_trichotomy j' j) as [L | [-> | G]].
    - right. pose proof (pow10_lt_step j j' Hj' L) as P.
      assert (Q : floor * 10 ^ j' * 10 <= floor * 10 ^ j).
      { replace (floor * 10 ^ j' * 10) with (floor * (10 ^ j' * 10)) by ring.
        apply Z.mul_le_mono_nonneg_l; lia. }
      rewrite Eg. pose proof (pow10_pos j' Hj').
      assert (0 < floor * 10 ^ j') by nia.
      destruct Hm as [-> | [-> | ->]]; lia.
    - left. exists m. split; [assumption|]. rewrite Eg. exact Es.
    - exfalso. pose proof (pow10_lt_step j' j Hj G) as P.
      assert (Q : floor * 10 ^ j * 10 <= floor * 10 ^ j').
      { replace (floor * 10 ^ j * 10) with (floor * (10 ^ j * 10)) by ring.
        apply Z.mul_le_mono_nonneg_l; lia. }
      rewrite Eg in G2.
      destruct Hm as [-> | [-> | ->]]; lia. }
  unfold ONE_TWO_FIVE_DESCENDING. cbn [first_multiple].
  assert (S5 : Series125 floor (p * 5)) by (exists j, 5; rewrite Eg; repeat split; [lia | auto | ring]).
  assert (S2 : Series125 floor (p * 2)) by (exists j, 2; rewrite Eg; repeat split; [lia | auto | ring]).
  assert (S1 : Series125 floor (p * 1)) by (exists j, 1; rewrite Eg; repeat split; [lia | auto | ring]).
  unfold in_u64, in_range.
  destruct ((0 <=? p * 5) && (p * 5 <=? u64_max) && (p * 5 <=? hi)) eqn:E5.
  { split; [exact S5|]. split; [lia|]. intros s Hs Hsh.
    destruct (CMP s Hs Hsh) as [[m [Hm ->]] | ?]; lia. }
  destruct ((0 <=? p * 2) && (p * 2 <=? u64_max) && (p * 2 <=? hi)) eqn:E2.
  { split; [exact S2|]. split; [lia|]. intros s Hs Hsh.
    destruct (CMP s Hs Hsh) as [[m [Hm ->]] | ?]; lia. }
  destruct ((0 <=? p * 1) && (p * 1 <=? u64_max) && (p * 1 <=? hi)) eqn:E1.
  { split; [exact S1|]. split; [lia|]. intros s Hs Hsh.
    destruct (CMP s Hs Hsh) as [[m [Hm ->]] | ?]; lia. }
  exfalso. lia.
Qed.

Lemma l125_below hi floor : hi < floor -> largest_one_two_five hi floor = 0.
Proof. intros. unfold largest_one_two_five. destruct (hi <? floor) eqn:E; [reflexivity | lia]. Qed.

(** ** The canonical configuration: floor = MIN, values up to CAP *)

Lemma series125_MIN_canonical v : Series125 MIN v -> v <= CAP -> In v series.
Proof.
  intros [j [m [Hj [Hm E]]]] Hc. apply canonical_series. split.
  - exists (6 + j), m. split; [lia|]. split; [assumption|].
    rewrite Z.pow_add_r by lia. rewrite E. unfold MIN, MAX_RESIDUAL_VALUE.
    change (10 ^ 6) with 1000000. reflexivity.
  - split; [|assumption]. pose proof (pow10_pos j Hj). unfold MIN in *. subst v.
    unfold MAX_RESIDUAL_VALUE in *. nia.
Qed.

Definition series125b (v : Z) : bool :=
  existsb (fun j => existsb (fun m => v =? m * (MIN * 10 ^ Z.of_nat j)) [1; 2; 5]) (seq 0 20).

Lemma series_series125 v : In v series -> Series125 MIN v.
Proof.
  intros H.
  assert (A : forallb series125b series = true) by (vm_compute; reflexivity).
  rewrite forallb_forall in A. specialize (A v H). unfold series125b in A.
  rewrite existsb_exists in A. destruct A as [j [_ A]].
  rewrite existsb_exists in A. destruct A as [m [Hm E]]. apply Z.eqb_eq in E.
  exists (Z.of_nat j), m. split; [lia|]. split; [|exact E]. simpl in Hm. intuition.
Qed.

(** [hd 0 (filter (<=? a) L)] of a descending list is the largest member not exceeding [a]. *)
Lemma hd_filter_max (L : list Z) a : StronglySorted Z.gt L ->
  forall s, In s L -> s <= a -> In (hd 0 (filter (fun x => x <=? a) L)) L
                                /\ s <= hd 0 (filter (fun x => x <=? a) L) <= a.
Proof.
  induction 1 as [|x L' SS IH FA]; intros s Hin Hs; [destruct Hin|].
  cbn [filter]. destruct (x <=? a) eqn:E.
  - cbn [hd]. split; [left; reflexivity|]. destruct Hin as [-> | Hin]; [lia|].
    rewrite Forall_forall in FA. specialize (FA s Hin). lia.
  - destruct Hin as [-> | Hin]; [lia|].
    destruct (IH s Hin Hs) as [I1 I2]. split; [right; exact I1 | exact I2].
Qed.

Theorem l125_series aff : MIN <= aff -> aff <= CAP ->
  largest_one_two_five aff MIN = hd 0 (filter (fun s => s <=? aff) series).
Proof.
  intros Hlo Hhi.
  destruct (l125_max aff MIN) as [S [L M]]; [reflexivity | assumption | unfold CAP, DENOM_CAP, u64_max in *; lia |].
  destruct (hd_filter_max series aff series_sorted MIN MIN_in_series Hlo) as [I [_ W]].
  set (v := largest_one_two_five aff MIN) in *.
  set (w := hd 0 (filter (fun s => s <=? aff) series)) in *.
  assert (Iv : In v series) by (apply series125_MIN_canonical; [assumption | lia]).
  destruct (hd_filter_max series aff series_sorted v Iv L) as [_ [V _]]. fold w in V.
  specialize (M w (series_series125 w I) W). lia.
Qed.

Lemma l125_canonical_fix e : MIN <= e -> e <= CAP ->
  (largest_one_two_five e MIN =? e) = canonicalb e.
Proof.
  intros Hlo Hhi.
  destruct (l125_max e MIN) as [S [L M]]; [reflexivity | assumption | unfold CAP, DENOM_CAP, u64_max in *; lia |].
  destruct (canonicalb e) eqn:C.
  - apply (proj1 (canonicalb_In e)) in C. apply Z.eqb_eq. specialize (M e (series_series125 e C)). lia.
  - apply Z.eqb_neq. intros E. rewrite E in S.
    apply series125_MIN_canonical in S; [|assumption]. apply (proj2 (canonicalb_In e)) in S. congruence.
Qed.

(** ** [is_canonical_denomination] *)
Lemma strip_spec fuel : forall n, 0 < n ->
  exists j, 0 <= j /\ n = strip fuel n * 10 ^ j /\ 0 < strip fuel n.
Proof.
  induction fuel as [|f IH]; intros n Hn; cbn [strip].
  - exists 0. change (10 ^ 0) with 1. lia.
  - unfold DENOMINATION_RADIX. destruct (n mod 10 =? 0) eqn:E.
    + assert (D : n = 10 * (n / 10)) by (pose proof (Z.div_mod n 10 ltac:(lia)); lia).
      destruct (IH (n / 10)) as [j [Hj [Ej Pj]]]; [lia|].
      exists (j + 1). split; [lia|]. split; [|exact Pj].
      rewrite pow10_succ by lia. rewrite D at 1. rewrite Ej at 1. ring.
    + exists 0. change (10 ^ 0) with 1. lia.
Qed.

Lemma is_canonical_sound v : is_canonical_denomination v = true -> Canonical v.
Proof.
  unfold is_canonical_denomination, is_canonical_within. fold MIN CAP.
  destruct ((v <? MIN) || (CAP <? v)) eqn:R; [discriminate|]. intros H.
  assert (Hv : 0 < v) by (unfold MIN, MAX_RESIDUAL_VALUE in R; lia).
  destruct (strip_spec GROW_FUEL v Hv) as [j [Hj [E P]]].
  unfold ONE_TWO_FIVE_DESCENDING in H. cbn [existsb] in H.
  split; [| lia]. exists j, (strip GROW_FUEL v). split; [assumption|]. split; [lia | exact E].
Qed.

Lemma is_canonical_complete v : In v series -> is_canonical_denomination v = true.
Proof.
  intros H.
  assert (A : forallb is_canonical_denomination series = true) by (vm_compute; reflexivity).
  rewrite forallb_forall in A. exact (A v H).
Qed.

Theorem is_canonical_spec v : is_canonical_denomination v = true <-> Canonical v.
Proof.
  split; [apply is_canonical_sound|]. intros C. apply is_canonical_complete, canonical_series, C.
Qed.

Theorem is_canonical_canonicalb v : is_canonical_denomination v = canonicalb v.
Proof.
  destruct (canonicalb v) eqn:C.
  - apply is_canonical_spec, canonicalb_spec, C.
  - destruct (is_canonical_denomination v) eqn:I; [|reflexivity].
    apply is_canonical_spec, canonicalb_spec in I. congruence.
Qed.
