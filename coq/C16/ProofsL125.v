(** C16 — closed form of [largest_one_two_five] for the documented floors (powers of ten):
    the first member of the descending list of all 1-2-5 values that lies in [floor, hi]. *)
From V.Lib Require Import Base MachInt.
From V.Gen Require Import C16Consts.
From V.C16 Require Import Model Spec ProofsSeries.
From Coq Require Import ZifyBool Sorted.
Local Open Scope Z_scope.

Fixpoint desc_sortedb (l : list Z) : bool :=
  match l with
  | a :: ((b :: _) as r) => (b <? a) && desc_sortedb r
  | _ => true
  end.

Lemma desc_sortedb_sound l : desc_sortedb l = true -> StronglySorted Z.gt l.
Proof.
  induction l as [|a l IH]; intros H; [constructor|].
  destruct l as [|b l]; [constructor; constructor|].
  cbn [desc_sortedb] in H. apply andb_true_iff in H. destruct H as [H1 H2].
  specialize (IH H2). constructor; [exact IH|].
  inversion IH as [|? ? SS FA]; subst. constructor; [lia|].
  eapply Forall_impl; [|exact FA]. cbn. intros; lia.
Qed.

Lemma all125_sorted : StronglySorted Z.gt all125.
Proof. apply desc_sortedb_sound. vm_compute. reflexivity. Qed.

(** the first member of a descending list satisfying [P] is the largest one satisfying [P] *)
Lemma hd_filter_first (P : Z -> bool) L : StronglySorted Z.gt L ->
  forall s, In s L -> P s = true ->
  In (hd 0 (filter P L)) L /\ P (hd 0 (filter P L)) = true /\ s <= hd 0 (filter P L).
Proof.
  induction 1 as [|x L' SS IH FA]; intros s Hin Ps; [destruct Hin|].
  cbn [filter]. destruct (P x) eqn:Px.
  - cbn [hd]. split; [left; reflexivity|]. split; [exact Px|].
    destruct Hin as [-> | Hin]; [lia|]. rewrite Forall_forall in FA. specialize (FA s Hin). lia.
  - destruct Hin as [-> | Hin]; [congruence|].
    destruct (IH s Hin Ps) as [I1 [I2 I3]]. split; [right; exact I1|]. split; assumption.
Qed.

(** finite checks over the 20 powers of ten a [u64] holds *)
Definition series125b_of (floor v : Z) : bool :=
  existsb (fun j => existsb (fun m => v =? m * (floor * 10 ^ Z.of_nat j)) [1; 2; 5]) (seq 0 20).

Lemma series125b_of_sound floor v : series125b_of floor v = true -> Series125 floor v.
Proof.
  unfold series125b_of. rewrite existsb_exists. intros [j [_ A]].
  rewrite existsb_exists in A. destruct A as [m [Hm E]]. apply Z.eqb_eq in E.
  exists (Z.of_nat j), m. split; [lia|]. split; [|exact E]. simpl in Hm. intuition.
Qed.

Lemma all125_above_floor i s : In i (seq 0 20) -> In s all125 -> 10 ^ Z.of_nat i <= s ->
  Series125 (10 ^ Z.of_nat i) s.
Proof.
  intros Hi Hs Hle. apply series125b_of_sound.
  assert (A : forallb (fun i => forallb (fun s => if 10 ^ Z.of_nat i <=? s
                                                  then series125b_of (10 ^ Z.of_nat i) s else true) all125)
                      (seq 0 20) = true) by (vm_compute; reflexivity).
  rewrite forallb_forall in A. specialize (A i Hi). rewrite forallb_forall in A. specialize (A s Hs).
  destruct (10 ^ Z.of_nat i <=? s) eqn:E; [exact A | lia].
Qed.

Lemma pow10_all125 K m : In K (seq 0 20) -> (m = 1 \/ m = 2 \/ m = 5) -> In (m * 10 ^ Z.of_nat K) all125.
Proof.
  intros HK Hm.
  assert (A : forallb (fun K => forallb (fun m => existsb (Z.eqb (m * 10 ^ Z.of_nat K)) all125) [1; 2; 5])
                      (seq 0 20) = true) by (vm_compute; reflexivity).
  rewrite forallb_forall in A. specialize (A K HK). rewrite forallb_forall in A.
  assert (Im : In m [1; 2; 5]) by (simpl; intuition).
  specialize (A m Im). rewrite existsb_exists in A. destruct A as [x [Hx E]].
  apply Z.eqb_eq in E. rewrite E. exact Hx.
Qed.

Lemma series125_in_all125 i v : In i (seq 0 20) -> Series125 (10 ^ Z.of_nat i) v -> v <= u64_max ->
  In v all125.
Proof.
  intros Hi [j [m [Hj [Hm E]]]] Hv.
  rewrite <- Z.pow_add_r in E by lia.
  assert (K19 : Z.of_nat i + j <= 19).
  { destruct (Z_le_gt_dec (Z.of_nat i + j) 19) as [|G]; [assumption|exfalso].
    assert (10 ^ 20 <= 10 ^ (Z.of_nat i + j)) by (apply Z.pow_le_mono_r; lia).
    assert (10 ^ 20 = 100000000000000000000) by reflexivity. unfold u64_max in Hv.
    destruct Hm as [-> | [-> | ->]]; lia. }
  replace (Z.of_nat i + j) with (Z.of_nat (i + Z.to_nat j)) in E by lia.
  subst v. apply pow10_all125; [|exact Hm]. apply in_seq. lia.
Qed.

Lemma is_pow10_P floor : is_pow10 floor = true -> exists i, In i (seq 0 20) /\ floor = 10 ^ Z.of_nat i.
Proof.
  unfold is_pow10. rewrite existsb_exists. intros [i [Hi E]]. apply Z.eqb_eq in E. exists i. split; assumption.
Qed.

Theorem l125_closed_form hi floor : is_pow10 floor = true -> 0 <= hi <= u64_max ->
  largest_one_two_five hi floor = spec_l125 hi floor.
Proof.
  intros Hp Hhi. destruct (is_pow10_P floor Hp) as [i [Hi ->]].
  pose proof (pow10_pos (Z.of_nat i) ltac:(lia)) as Pp. unfold spec_l125.
  set (P := fun s => (10 ^ Z.of_nat i <=? s) && (s <=? hi) && (s <=? u64_max)).
  destruct (Z_lt_ge_dec hi (10 ^ Z.of_nat i)) as [L | G].
  - rewrite l125_below by assumption. symmetry.
    assert (FN : forall l, filter P l = []).
    { induction l as [|a l IH]; [reflexivity|]. cbn [filter].
      destruct (P a) eqn:E; [|exact IH]. exfalso. unfold P in E. lia. }
    rewrite FN. reflexivity.
  - destruct (l125_max hi (10 ^ Z.of_nat i) Pp ltac:(lia) ltac:(lia)) as [S [Lv M]].
    set (v := largest_one_two_five hi (10 ^ Z.of_nat i)) in *.
    assert (Fl : In (10 ^ Z.of_nat i) all125).
    { replace (10 ^ Z.of_nat i) with (1 * 10 ^ Z.of_nat i) by lia. apply pow10_all125; [exact Hi | auto]. }
    assert (PF : P (10 ^ Z.of_nat i) = true) by (unfold P; lia).
    destruct (hd_filter_first P all125 all125_sorted _ Fl PF) as [I1 [I2 _]].
    set (w := hd 0 (filter P all125)) in *.
    assert (Pw : 10 ^ Z.of_nat i <= w /\ w <= hi) by (unfold P in I2; lia).
    pose proof (M w (all125_above_floor i w Hi I1 (proj1 Pw)) (proj2 Pw)) as WV.
    assert (Iv : In v all125) by (apply (series125_in_all125 i); [exact Hi | exact S | lia]).
    assert (Vfl : 10 ^ Z.of_nat i <= v).
    { apply M; [|lia]. exists 0, 1. split; [lia|]. split; [auto|]. change (10 ^ 0) with 1. lia. }
    assert (PV : P v = true) by (unfold P; lia).
    destruct (hd_filter_first P all125 all125_sorted v Iv PV) as [_ [_ VW]]. fold w in VW. lia.
Qed.
