(** C16 — the model's [unconstrained_split] equals the specification's [canonical_split]
    (and never panics nor runs out of fuel), and the properties of the canonical split. *)
From V.Lib Require Import Base MachInt.
From V.Gen Require Import C16Consts.
From V.C16 Require Import Model Spec ProofsSeries.
From Coq Require Import ZifyBool Sorted.
Local Open Scope Z_scope.

(** ** Transaction-count arithmetic *)
Module TxsArith.
  Ltac Zify.zify_post_hook ::= Z.to_euclidean_division_equations.
  Lemma stxs_eq k : 0 <= k -> optimistic_txs k = stxs k.
  Proof.
    unfold optimistic_txs, stxs, ceil_div, FUNDING_OUTPUTS_PER_TX. intros.
    destruct (0 <? k mod 14) eqn:E; lia.
  Qed.
  Lemma stxs_0 : stxs 0 = 0.
  Proof. reflexivity. Qed.
  Lemma stxs_nonneg k : 0 <= k -> 0 <= stxs k.
  Proof. unfold stxs, ceil_div, FUNDING_OUTPUTS_PER_TX. intros. lia. Qed.
  Lemma stxs_step k : 0 <= k -> stxs k <= stxs (k + 1) <= stxs k + 1.
  Proof. unfold stxs, ceil_div, FUNDING_OUTPUTS_PER_TX. intros. lia. Qed.
  Ltac Zify.zify_post_hook ::= idtac.
End TxsArith.
Import TxsArith.

Lemma stxs_mul_step k fee : 0 <= k -> 0 <= fee ->
  0 <= stxs k * fee /\ stxs k * fee <= stxs (k + 1) * fee <= stxs k * fee + fee.
Proof.
  intros Hk Hf. pose proof (stxs_nonneg k Hk). pose proof (stxs_step k Hk) as [A B].
  pose proof (Z.mul_le_mono_nonneg_r _ _ fee Hf A).
  pose proof (Z.mul_le_mono_nonneg_r _ _ fee Hf B).
  pose proof (Z.mul_nonneg_nonneg _ _ H Hf). lia.
Qed.

(** ** Small facts *)
Lemma MM_small : 8 * MAX_MONEY <= u64_max. Proof. unfold MAX_MONEY, u64_max. lia. Qed.
Lemma CAP_le_MM : CAP <= MAX_MONEY. Proof. unfold CAP, DENOM_CAP, MAX_MONEY. lia. Qed.
Lemma MIN_pos : 0 < MIN. Proof. reflexivity. Qed.
Lemma MIN_le_CAP : MIN <= CAP. Proof. unfold MIN, CAP, MAX_RESIDUAL_VALUE, DENOM_CAP. lia. Qed.

Lemma u64_ok x : 0 <= x <= u64_max -> u64 x = Ok x.
Proof. intros. unfold u64, in_u64, in_range. destruct ((0 <=? x) && (x <=? u64_max)) eqn:E; [reflexivity | lia]. Qed.

Lemma filter_nil {A} (f : A -> bool) l : (forall x, In x l -> f x = false) -> filter f l = [].
Proof.
  induction l as [|a l IH]; intros H; [reflexivity|]. cbn [filter].
  rewrite (H a (or_introl eq_refl)). apply IH. intros x Hx. apply H. right. exact Hx.
Qed.

Lemma find_none_all {A} (f : A -> bool) l : (forall x, In x l -> f x = false) -> find f l = None.
Proof.
  induction l as [|a l IH]; intros H; [reflexivity|]. cbn [find].
  rewrite (H a (or_introl eq_refl)). apply IH. intros x Hx. apply H. right. exact Hx.
Qed.

Lemma find_filter {A} (f g : A -> bool) l :
  (forall x, In x l -> f x = true -> g x = true) -> find f (filter g l) = find f l.
Proof.
  induction l as [|a l IH]; intros H; [reflexivity|]. cbn [filter find].
  destruct (g a) eqn:G; cbn [find].
  - destruct (f a); [reflexivity|]. apply IH. intros x Hx. apply H. right. exact Hx.
  - destruct (f a) eqn:F.
    + rewrite (H a (or_introl eq_refl) F) in G. discriminate.
    + apply IH. intros x Hx. apply H. right. exact Hx.
Qed.

Lemma find_ext {A} (f g : A -> bool) l : (forall x, f x = g x) -> find f l = find g l.
Proof. intros H. induction l as [|a l IH]; [reflexivity|]. cbn [find]. rewrite H, IH. reflexivity. Qed.

Lemma find_max (f : Z -> bool) L s : StronglySorted Z.gt L -> find f L = Some s ->
  forall s', In s' L -> f s' = true -> s' <= s.
Proof.
  induction 1 as [|x L' SS IH FA]; intros Hf s' Hin Hs'; [destruct Hin|].
  cbn [find] in Hf. destruct (f x) eqn:Fx.
  - inversion Hf; subst. destruct Hin as [-> | Hin]; [lia|].
    rewrite Forall_forall in FA. specialize (FA s' Hin). lia.
  - destruct Hin as [-> | Hin]; [congruence|]. apply IH; assumption.
Qed.

Lemma filter_desc_tail L a c rest : StronglySorted Z.gt L ->
  filter (fun x => x <=? a) L = c :: rest -> filter (fun x => x <=? c - 1) L = rest.
Proof.
  induction 1 as [|x L' SS IH FA]; intros F; [discriminate|].
  cbn [filter] in *. rewrite Forall_forall in FA. destruct (x <=? a) eqn:E.
  - inversion F; subst. destruct (c <=? c - 1) eqn:E2; [lia|].
    apply filter_ext_in. intros y Hy. specialize (FA y Hy). lia.
  - assert (Hc : In c (filter (fun x => x <=? a) L')) by (rewrite F; left; reflexivity).
    destruct (proj1 (filter_In _ _ _) Hc) as [_ Hc'].
    destruct (x <=? c - 1) eqn:E2; [lia|]. apply IH. exact F.
Qed.

(** ** Admissible denomination ladders

    Everything the planner's loops need to know about the list [L] of admissible denominations of
    a strategy with bounds [mind .. maxd].  [zip318_ladder] (below) provides it for the normative
    ZIP 318 bounds, [ProofsLadder.ladder_of] for every power-of-ten minimum and every maximum. *)
Record Ladder (L : list Z) (mind maxd : Z) : Prop := mkLadder {
  lad_sorted : StronglySorted Z.gt L;
  lad_bounds : forall s, In s L -> mind <= s <= maxd;
  lad_l125 : forall aff, mind <= aff -> aff <= maxd ->
             largest_one_two_five aff mind = hd 0 (filter (fun s => s <=? aff) L);
  lad_min : mind <= maxd -> In mind L;
  lad_short : (length L < DESCEND_FUEL)%nat;
  lad_pos : 0 < mind;
  lad_min_le : mind <= MAX_MONEY;
  lad_max : maxd <= MAX_MONEY;
  lad_fix : forall e, mind <= e -> e <= maxd ->
            (largest_one_two_five e mind =? e) = existsb (Z.eqb e) L }.

Lemma existsb_out_of_bounds L mind maxd e :
  (forall s, In s L -> mind <= s <= maxd) -> ~ (mind <= e <= maxd) -> existsb (Z.eqb e) L = false.
Proof.
  intros HB Ho. destruct (existsb (Z.eqb e) L) eqn:E; [|reflexivity].
  apply existsb_exists in E. destruct E as [x [Hx Ex]]. apply Z.eqb_eq in Ex. subst x.
  specialize (HB e Hx). lia.
Qed.

Lemma filter_length_le {A} (f : A -> bool) l : (length (filter f l) <= length l)%nat.
Proof. induction l as [|a l IH]; cbn [filter length]; [lia|]. destruct (f a); cbn [length]; lia. Qed.

(** ** The inner descent finds the largest fundable denomination *)
Section Split.
  Variables total buffer fee cap : Z.
  Variables (L : list Z) (mind maxd : Z).
  Hypothesis HL : Ladder L mind maxd.
  Hypothesis Htotal : 0 <= total <= MAX_MONEY.
  Hypothesis Hbuffer : 0 <= buffer <= MAX_MONEY.
  Hypothesis Hfee : 0 <= fee <= MAX_MONEY.
  Let St := mkStrategy cap maxd mind buffer.

  Lemma descend_find fuel : forall k cn aff,
    0 <= k -> 0 <= cn <= MAX_MONEY -> aff <= maxd ->
    0 <= stxs (k + 1) * fee <= 2 * MAX_MONEY ->
    (length (filter (fun s => (s <=? aff)%Z) L) < fuel)%nat ->
    descend fuel St total fee k cn aff
    = Ok (find (fundable total buffer fee cn k) (filter (fun s => s <=? aff) L)).
  Proof.
    pose proof MM_small. pose proof (lad_max _ _ _ HL). pose proof (lad_pos _ _ _ HL).
    induction fuel as [|f IH]; intros k cn aff Hk Hcn Haff Hm Hlen; [lia|].
    cbn [descend St s_mind s_buf].
    destruct (aff <? mind) eqn:E1.
    - rewrite filter_nil; [reflexivity|]. intros x Hx. apply (lad_bounds _ _ _ HL) in Hx. lia.
    - rewrite (lad_l125 _ _ _ HL) by lia.
      destruct (filter (fun s => s <=? aff) L) as [|c rest] eqn:F.
      + exfalso. assert (In mind (filter (fun s => s <=? aff) L)).
        { apply (proj2 (filter_In _ _ _)). split; [apply (lad_min _ _ _ HL); lia | lia]. }
        rewrite F in H2. destruct H2.
      + cbn [hd].
        assert (Hc : In c (filter (fun s => s <=? aff) L)) by (rewrite F; left; reflexivity).
        destruct (proj1 (filter_In _ _ _) Hc) as [Hc1 Hc2]. pose proof (lad_bounds _ _ _ HL c Hc1) as Hc3.
        destruct (c <? mind) eqn:E2; [lia|].
        rewrite (u64_ok (cn + c)) by lia. cbn [bind].
        rewrite (u64_ok (cn + c + buffer)) by lia. cbn [bind].
        rewrite stxs_eq by lia.
        rewrite (u64_ok (stxs (k + 1) * fee)) by lia. cbn [bind].
        rewrite (u64_ok (cn + c + buffer + stxs (k + 1) * fee)) by lia. cbn [bind].
        cbn [find]. unfold fundable at 1.
        destruct (cn + c + buffer + stxs (k + 1) * fee <=? total) eqn:E3; [reflexivity|].
        rewrite (u64_ok (c - 1)) by lia. cbn [bind].
        pose proof (filter_desc_tail L aff c rest (lad_sorted _ _ _ HL) F) as T.
        rewrite IH; try lia.
        * rewrite T. reflexivity.
        * rewrite T. cbn [length] in Hlen. lia.
  Qed.

  (** ** The outer loop is the specification's greedy *)
  Lemma split_loop_greedy fuel : forall k cn,
    0 <= k -> 0 <= cn -> cn + stxs k * fee <= total ->
    split_loop fuel St total fee (mind + buffer) k cn = Ok (greedy_of L fuel total buffer fee cn k).
  Proof.
    pose proof MM_small. pose proof (lad_max _ _ _ HL). pose proof (lad_pos _ _ _ HL).
    induction fuel as [|f IH]; intros k cn Hk Hcn Hinv; [reflexivity|].
    cbn [split_loop greedy_of].
    destruct (stxs_mul_step k fee Hk ltac:(lia)) as [M0 [M1 M2]].
    rewrite stxs_eq by lia.
    rewrite (u64_ok (stxs k * fee)) by lia. cbn [bind].
    rewrite (u64_ok (cn + stxs k * fee)) by lia. cbn [bind].
    unfold sat_sub. destruct (total <? cn + stxs k * fee) eqn:E0; [lia|].
    destruct (total - (cn + stxs k * fee) <? mind + buffer) eqn:E1.
    - rewrite find_none_all; [reflexivity|]. intros s Hs. apply (lad_bounds _ _ _ HL) in Hs.
      unfold fundable. lia.
    - cbn [St s_buf s_maxd].
      rewrite (u64_ok (total - (cn + stxs k * fee) - buffer)) by lia. cbn [bind].
      fold St. rewrite descend_find; try lia.
      2:{ pose proof (lad_short _ _ _ HL).
          pose proof (filter_length_le (fun s => s <=? Z.min (total - (cn + stxs k * fee) - buffer) maxd) L).
          lia. }
      cbn [bind].
      rewrite find_filter.
      2:{ intros s Hs Fs. apply (lad_bounds _ _ _ HL) in Hs. unfold fundable in Fs. lia. }
      destruct (find (fundable total buffer fee cn k) L) as [c|] eqn:Fd; [|reflexivity].
      apply find_some in Fd. destruct Fd as [Hc Fc]. apply (lad_bounds _ _ _ HL) in Hc. unfold fundable in Fc.
      rewrite (u64_ok (c + buffer)) by lia. cbn [bind].
      rewrite (u64_ok (cn + (c + buffer))) by lia. cbn [bind].
      rewrite IH; try lia. cbn [bind].
      replace (cn + (c + buffer)) with (cn + c + buffer) by ring. reflexivity.
  Qed.

  Lemma exact_funding_note nc : 0 <= cap ->
    exact_funding St total nc = exact_note_of L total buffer (nc =? 1) && (0 <? Z.to_nat cap)%nat.
  Proof.
    intros Hcap. unfold exact_funding, exact_note_of. cbn [St s_buf s_mind s_maxd s_max_notes].
    unfold sat_sub.
    assert (Ecap : (0 <? Z.to_nat cap)%nat = (0 <? cap)) by lia. rewrite Ecap.
    destruct (nc =? 1); [|reflexivity]. destruct (0 <? cap); [|cbn; rewrite !andb_false_r; reflexivity].
    cbn [andb]. destruct (buffer <=? total) eqn:B; [|reflexivity]. cbn [andb].
    destruct (total <? buffer) eqn:B2; [lia|]. rewrite andb_true_r.
    destruct (mind <=? total - buffer) eqn:R1; cbn [andb].
    - destruct (total - buffer <=? maxd) eqn:R2; cbn [andb].
      + apply (lad_fix _ _ _ HL); lia.
      + symmetry. apply (existsb_out_of_bounds L mind maxd); [apply (lad_bounds _ _ _ HL) | lia].
    - symmetry. apply (existsb_out_of_bounds L mind maxd); [apply (lad_bounds _ _ _ HL) | lia].
  Qed.

  (** The model's split never panics, never exhausts its fuel, and is the specification's split. *)
  Theorem split_correct_g nc : 0 <= cap ->
    unconstrained_split St total nc fee
    = Ok (split_of L (Z.to_nat cap) total buffer fee (nc =? 1)).
  Proof.
    pose proof MM_small. pose proof (lad_pos _ _ _ HL). pose proof (lad_min_le _ _ _ HL).
    intros Hcap. unfold unconstrained_split, split_of.
    cbn [St s_mind s_buf s_max_notes]. fold St.
    rewrite (u64_ok (mind + buffer)) by lia. cbn [bind].
    rewrite exact_funding_note by assumption.
    destruct (exact_note_of L total buffer (nc =? 1) && (0 <? Z.to_nat cap)%nat) eqn:E.
    - unfold sat_sub. unfold exact_note_of in E. destruct (total <? buffer) eqn:B; [lia | reflexivity].
    - apply split_loop_greedy; try lia. rewrite stxs_0. lia.
  Qed.
End Split.

(** ** Properties of the greedy (specification side) *)
Section Greedy.
  Variables total buffer fee : Z.
  Variables (L : list Z) (mind maxd : Z).
  Hypothesis HL : Ladder L mind maxd.
  Hypothesis Hbuffer : 0 <= buffer.
  Hypothesis Hfee : 0 <= fee.

  Definition notes_of (l : list Z) : list Z := map (fun c => c + buffer) l.
  Ltac nil_simp := cbn [length notes_of map sumZ fold_right Z.of_nat]; rewrite ?Z.add_0_r, ?Z.add_0_l.

  Lemma greedy_series fuel : forall cn k, Forall (fun s => In s L) (greedy_of L fuel total buffer fee cn k).
  Proof.
    induction fuel as [|f IH]; intros cn k; cbn [greedy_of]; [constructor|].
    destruct (find (fundable total buffer fee cn k) L) as [s|] eqn:F; [|constructor].
    constructor; [apply find_some in F; apply F | apply IH].
  Qed.

  Lemma greedy_length fuel : forall cn k, (length (greedy_of L fuel total buffer fee cn k) <= fuel)%nat.
  Proof.
    induction fuel as [|f IH]; intros cn k; cbn [greedy_of]; [cbn; lia|].
    destruct (find _ L); cbn [length]; [specialize (IH (cn + z + buffer) (k + 1)) |]; lia.
  Qed.

  Lemma greedy_cost fuel : forall cn k, 0 <= k -> cn + stxs k * fee <= total ->
    let g := greedy_of L fuel total buffer fee cn k in
    cn + sumZ (notes_of g) + stxs (k + Z.of_nat (length g)) * fee <= total.
  Proof.
    induction fuel as [|f IH]; intros cn k Hk Hinv; cbn [greedy_of].
    - nil_simp. exact Hinv.
    - destruct (find (fundable total buffer fee cn k) L) as [s|] eqn:F.
      + apply find_some in F. destruct F as [_ F]. unfold fundable in F.
        specialize (IH (cn + s + buffer) (k + 1) ltac:(lia) ltac:(lia)). cbn zeta in IH.
        cbn [notes_of map sumZ fold_right length]. fold (notes_of (greedy_of L f total buffer fee (cn + s + buffer) (k + 1))).
        fold (sumZ (notes_of (greedy_of L f total buffer fee (cn + s + buffer) (k + 1)))).
        rewrite Nat2Z.inj_succ.
        replace (k + Z.succ (Z.of_nat (length (greedy_of L f total buffer fee (cn + s + buffer) (k + 1)))))
          with (k + 1 + Z.of_nat (length (greedy_of L f total buffer fee (cn + s + buffer) (k + 1)))) by lia.
        lia.
      + nil_simp. exact Hinv.
  Qed.

  Lemma greedy_sorted fuel : forall cn k, 0 <= k -> nonincreasing (greedy_of L fuel total buffer fee cn k) = true.
  Proof.
    induction fuel as [|f IH]; intros cn k Hk; cbn [greedy_of]; [reflexivity|].
    destruct (find (fundable total buffer fee cn k) L) as [s|] eqn:F; [|reflexivity].
    specialize (IH (cn + s + buffer) (k + 1) ltac:(lia)).
    destruct f as [|f']; [reflexivity|]. cbn [greedy_of] in *.
    destruct (find (fundable total buffer fee (cn + s + buffer) (k + 1)) L) as [s'|] eqn:F'; [|reflexivity].
    cbn [nonincreasing] in *. rewrite IH, andb_true_r.
    apply Z.leb_le. apply (find_max _ _ _ (lad_sorted _ _ _ HL) F).
    - apply find_some in F'. apply F'.
    - apply find_some in F'. destruct F' as [_ F']. apply find_some in F. destruct F as [Hs _].
      apply (lad_bounds _ _ _ HL) in Hs. pose proof (lad_pos _ _ _ HL).
      unfold fundable in *.
      destruct (stxs_mul_step (k + 1) fee ltac:(lia) Hfee) as [_ [M _]]. lia.
  Qed.

  Lemma greedy_firstn c1 : forall c2 cn k, (c1 <= c2)%nat ->
    greedy_of L c1 total buffer fee cn k = firstn c1 (greedy_of L c2 total buffer fee cn k).
  Proof.
    induction c1 as [|c IH]; intros c2 cn k Hle; [reflexivity|].
    destruct c2 as [|c2]; [lia|]. cbn [greedy_of].
    destruct (find (fundable total buffer fee cn k) L); [|reflexivity].
    cbn [firstn]. f_equal. apply IH. lia.
  Qed.

  (** where the greedy stopped before its fuel ran out, no denomination is fundable any more *)
  Lemma greedy_stop fuel : forall cn k,
    let g := greedy_of L fuel total buffer fee cn k in
    (length g < fuel)%nat ->
    find (fundable total buffer fee (cn + sumZ (notes_of g)) (k + Z.of_nat (length g))) L = None.
  Proof.
    induction fuel as [|f IH]; intros cn k; cbn [greedy_of]; [cbn; lia|].
    destruct (find (fundable total buffer fee cn k) L) as [s|] eqn:F.
    - cbn zeta. cbn [length notes_of map sumZ fold_right]. intros Hl.
      specialize (IH (cn + s + buffer) (k + 1) ltac:(lia)). cbn zeta in IH.
      fold (notes_of (greedy_of L f total buffer fee (cn + s + buffer) (k + 1))).
      fold (sumZ (notes_of (greedy_of L f total buffer fee (cn + s + buffer) (k + 1)))).
      rewrite Nat2Z.inj_succ.
      replace (cn + (s + buffer + sumZ (notes_of (greedy_of L f total buffer fee (cn + s + buffer) (k + 1)))))
        with (cn + s + buffer + sumZ (notes_of (greedy_of L f total buffer fee (cn + s + buffer) (k + 1)))) by ring.
      replace (k + Z.succ (Z.of_nat (length (greedy_of L f total buffer fee (cn + s + buffer) (k + 1)))))
        with (k + 1 + Z.of_nat (length (greedy_of L f total buffer fee (cn + s + buffer) (k + 1)))) by lia.
      exact IH.
    - nil_simp. intros _. exact F.
  Qed.

  Lemma greedy_residual fuel : forall cn k, 0 <= k -> mind <= maxd ->
    let g := greedy_of L fuel total buffer fee cn k in
    (length g < fuel)%nat ->
    total - (cn + sumZ (notes_of g)) - stxs (k + Z.of_nat (length g)) * fee < mind + buffer + fee.
  Proof.
    intros cn k Hk Hmm g Hl. pose proof (greedy_stop fuel cn k Hl) as N. fold g in N.
    pose proof (find_none _ _ N mind (lad_min _ _ _ HL Hmm)) as M. unfold fundable in M.
    destruct (stxs_mul_step (k + Z.of_nat (length g)) fee ltac:(lia) Hfee) as [_ [_ M2]]. lia.
  Qed.
End Greedy.

(** ** Properties of [split_of] *)
Section Canonical.
  Variables total buffer fee : Z.
  Variables (L : list Z) (mind maxd : Z).
  Hypothesis HL : Ladder L mind maxd.
  Hypothesis Hbuffer : 0 <= buffer.
  Hypothesis Hfee : 0 <= fee.

  Lemma exact_note_in single : exact_note_of L total buffer single = true -> In (total - buffer) L.
  Proof.
    unfold exact_note_of. intros H.
    destruct single; [|discriminate]. destruct (buffer <=? total); [|discriminate]. cbn [andb] in H.
    apply existsb_exists in H. destruct H as [x [Hx E]]. apply Z.eqb_eq in E. subst x. exact Hx.
  Qed.

  Theorem split_members_g cap single : Forall (fun s => In s L) (split_of L cap total buffer fee single).
  Proof.
    unfold split_of.
    destruct (exact_note_of L total buffer single && (0 <? cap)%nat) eqn:E.
    - constructor; [|constructor]. apply (exact_note_in single).
      destruct (exact_note_of L total buffer single); [reflexivity | discriminate].
    - apply greedy_series.
  Qed.

  Theorem split_sorted_g cap single : nonincreasing (split_of L cap total buffer fee single) = true.
  Proof.
    unfold split_of. destruct (exact_note_of L total buffer single && (0 <? cap)%nat); [reflexivity|].
    apply (greedy_sorted total buffer fee L mind maxd HL); lia.
  Qed.

  Theorem split_length_g cap single : (length (split_of L cap total buffer fee single) <= cap)%nat.
  Proof.
    unfold split_of. destruct (exact_note_of L total buffer single && (0 <? cap)%nat) eqn:E.
    - cbn [length]. destruct (0 <? cap)%nat eqn:C; [lia | rewrite andb_false_r in E; discriminate].
    - apply greedy_length.
  Qed.

  Theorem split_cap_prefix_g c1 c2 single : (1 <= c1 <= c2)%nat ->
    split_of L c1 total buffer fee single = firstn c1 (split_of L c2 total buffer fee single).
  Proof.
    intros H. unfold split_of.
    assert (E1 : (0 <? c1)%nat = true) by lia. assert (E2 : (0 <? c2)%nat = true) by lia.
    rewrite E1, E2, !andb_true_r. destruct (exact_note_of L total buffer single).
    - destruct c1; [lia|]. cbn [firstn]. rewrite firstn_nil. reflexivity.
    - apply greedy_firstn. lia.
  Qed.

  Theorem split_emptiness_g c1 c2 single : (1 <= c1)%nat -> (1 <= c2)%nat ->
    (split_of L c1 total buffer fee single = [] <-> split_of L c2 total buffer fee single = []).
  Proof.
    intros H1 H2. unfold split_of.
    assert (E1 : (0 <? c1)%nat = true) by lia. assert (E2 : (0 <? c2)%nat = true) by lia.
    rewrite E1, E2, !andb_true_r. destruct (exact_note_of L total buffer single); [tauto|].
    destruct c1 as [|c1]; [lia|]. destruct c2 as [|c2]; [lia|]. cbn [greedy_of].
    destruct (find (fundable total buffer fee 0 0) L); split; intros; congruence.
  Qed.

  Theorem split_cost_g cap single : 0 <= total ->
    let s := split_of L cap total buffer fee single in
    sumZ (notes_of buffer s) + assumed_of L cap total buffer fee single * fee <= total.
  Proof.
    intros Ht. unfold split_of, assumed_of.
    destruct (exact_note_of L total buffer single && (0 <? cap)%nat) eqn:E.
    - cbn [length notes_of map sumZ fold_right]. lia.
    - cbn zeta. pose proof (greedy_cost total buffer fee L cap 0 0 ltac:(lia)) as G.
      rewrite TxsArith.stxs_0 in G. specialize (G ltac:(lia)). cbn zeta in G.
      rewrite !Z.add_0_l in G. exact G.
  Qed.

  Theorem split_residual_g cap single : mind <= maxd ->
    let s := split_of L cap total buffer fee single in
    (length s < cap)%nat ->
    total - sumZ (notes_of buffer s) - assumed_of L cap total buffer fee single * fee < mind + buffer + fee.
  Proof.
    intros Hmm. unfold split_of, assumed_of.
    destruct (exact_note_of L total buffer single && (0 <? cap)%nat) eqn:E.
    - cbn [length notes_of map sumZ fold_right]. intros _. pose proof (lad_pos _ _ _ HL). lia.
    - cbn zeta. intros Hl.
      pose proof (greedy_residual total buffer fee L mind maxd HL Hfee cap 0 0 ltac:(lia) Hmm Hl) as G.
      rewrite !Z.add_0_l in G. exact G.
  Qed.
End Canonical.

(** ** The normative ZIP 318 bounds are an instance *)
Lemma series_short : (length series < DESCEND_FUEL)%nat.
Proof. rewrite series_eq. unfold DESCEND_FUEL. cbn [length]. lia. Qed.

Lemma zip318_ladder : Ladder series MIN CAP.
Proof.
  constructor.
  - exact series_sorted.
  - exact series_bounds.
  - intros aff H1 H2. apply l125_series; assumption.
  - intros _. exact MIN_in_series.
  - exact series_short.
  - exact MIN_pos.
  - pose proof CAP_le_MM. pose proof MIN_le_CAP. lia.
  - exact CAP_le_MM.
  - intros e H1 H2. rewrite l125_canonical_fix by assumption. reflexivity.
Qed.

Lemma greedy_of_series total buffer fee fuel : forall cn k,
  greedy_of series fuel total buffer fee cn k = greedy fuel total buffer fee cn k.
Proof.
  induction fuel as [|f IH]; intros cn k; [reflexivity|]. cbn [greedy greedy_of].
  destruct (find (fundable total buffer fee cn k) series); [|reflexivity]. rewrite IH. reflexivity.
Qed.

Lemma exact_note_of_series total buffer single : exact_note_of series total buffer single = exact_note total buffer single.
Proof. reflexivity. Qed.

Lemma split_of_series cap total buffer fee single :
  split_of series cap total buffer fee single = canonical_split cap total buffer fee single.
Proof. unfold split_of, canonical_split. rewrite exact_note_of_series, greedy_of_series. reflexivity. Qed.

Lemma assumed_of_series cap total buffer fee single :
  assumed_of series cap total buffer fee single = assumed_txs cap total buffer fee single.
Proof. unfold assumed_of, assumed_txs. rewrite exact_note_of_series, greedy_of_series. reflexivity. Qed.

Theorem split_correct total buffer fee cap :
  0 <= total <= MAX_MONEY -> 0 <= buffer <= MAX_MONEY -> 0 <= fee <= MAX_MONEY ->
  forall nc, 0 <= cap ->
  unconstrained_split (zip318_strategy cap buffer) total nc fee
  = Ok (canonical_split (Z.to_nat cap) total buffer fee (nc =? 1)).
Proof.
  intros Ht Hb Hf nc Hc. rewrite <- split_of_series.
  exact (split_correct_g total buffer fee cap series MIN CAP zip318_ladder Ht Hb Hf nc Hc).
Qed.

Section CanonicalZip318.
  Variables total buffer fee : Z.
  Hypothesis Hbuffer : 0 <= buffer.
  Hypothesis Hfee : 0 <= fee.

  Theorem split_canonical cap single : Forall Canonical (canonical_split cap total buffer fee single).
  Proof.
    rewrite <- split_of_series. eapply Forall_impl; [|apply split_members_g].
    intros a Ha. exact (series_canonical a Ha).
  Qed.

  Theorem split_sorted cap single : nonincreasing (canonical_split cap total buffer fee single) = true.
  Proof. rewrite <- split_of_series. exact (split_sorted_g total buffer fee series MIN CAP zip318_ladder Hbuffer Hfee cap single). Qed.

  Theorem split_length cap single : (length (canonical_split cap total buffer fee single) <= cap)%nat.
  Proof. rewrite <- split_of_series. apply split_length_g. Qed.

  Theorem split_cap_prefix c1 c2 single : (1 <= c1 <= c2)%nat ->
    canonical_split c1 total buffer fee single = firstn c1 (canonical_split c2 total buffer fee single).
  Proof. rewrite <- !split_of_series. apply split_cap_prefix_g. Qed.

  Theorem split_emptiness_cap_invariant c1 c2 single : (1 <= c1)%nat -> (1 <= c2)%nat ->
    (canonical_split c1 total buffer fee single = [] <-> canonical_split c2 total buffer fee single = []).
  Proof. rewrite <- !split_of_series. apply split_emptiness_g. Qed.

  Theorem split_cost cap single : 0 <= total ->
    let s := canonical_split cap total buffer fee single in
    sumZ (notes_of buffer s) + assumed_txs cap total buffer fee single * fee <= total.
  Proof. rewrite <- split_of_series, <- assumed_of_series. apply split_cost_g. Qed.

  Theorem split_residual cap single :
    let s := canonical_split cap total buffer fee single in
    (length s < cap)%nat ->
    total - sumZ (notes_of buffer s) - assumed_txs cap total buffer fee single * fee < MIN + buffer + fee.
  Proof.
    rewrite <- split_of_series, <- assumed_of_series.
    intros s Hl. eapply (split_residual_g total buffer fee series MIN CAP); eauto using zip318_ladder, MIN_le_CAP.
  Qed.
End CanonicalZip318.
