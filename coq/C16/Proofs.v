(** C16 — the property clauses, derived from [plan_spec] for every oracle. *)
From V.Lib Require Import Base MachInt.
From V.Gen Require Import C16Consts.
From V.C16 Require Import Model Spec ProofsSeries ProofsSplit ProofsPlan.
From Coq Require Import ZifyBool Sorted.
Local Open Scope Z_scope.

Definition zatoshi (v : Z) : Prop := 0 <= v <= MAX_MONEY.

Lemma optZ_rem rem : 0 <= rem -> optZ (if 0 <? rem then Some rem else None) = rem.
Proof. intros. destruct (0 <? rem) eqn:E; cbn [optZ]; lia. Qed.

Section DerivedG.
  Variables total nc cap buffer fee : Z.
  Variable orc : oracle.
  Variables (L : list Z) (mind maxd : Z).
  Hypothesis HL : Ladder L mind maxd.
  Hypothesis Htotal : zatoshi total.
  Hypothesis Hbuffer : zatoshi buffer.
  Hypothesis Hfee : zatoshi fee.
  Hypothesis Hcap : 0 <= cap.

  Local Notation full := (split_of L (Z.to_nat cap) total buffer fee (nc =? 1)).
  Local Notation assumed := (assumed_of L (Z.to_nat cap) total buffer fee (nc =? 1)).
  Local Notation run := (plan (mkStrategy cap maxd mind buffer) total nc fee orc).

  Local Ltac use_spec p Hp :=
    destruct (plan_spec_g total nc cap buffer fee orc L mind maxd HL Htotal Hbuffer Hfee Hcap)
      as [k [n [calls [E [K1 [K2 [K3 [K4 [K5 K6]]]]]]]]];
    cbn zeta in *;
    rewrite E in Hp; inversion Hp; subst p; clear Hp;
    cbn [p_cross p_out p_change p_fees p_total p_migr p_buf p_calls].

  (** the planner returns a plan: no panic, no fuel exhaustion, for any oracle *)
  Lemma plan_total_ok_g : exists p, run = Ok p.
  Proof.
    destruct (plan_spec_g total nc cap buffer fee orc L mind maxd HL Htotal Hbuffer Hfee Hcap) as [k [n [calls [E _]]]].
    eexists. exact E.
  Qed.

  Lemma plan_crossings_g p : run = Ok p ->
    Forall (fun s => In s L) (p_cross p) /\ nonincreasing (p_cross p) = true
    /\ Z.of_nat (length (p_cross p)) <= cap /\ Prefix (p_cross p) full.
  Proof.
    intros Hp. use_spec p Hp.
    split; [apply Forall_firstn, split_members_g|].
    split; [apply nonincreasing_firstn; apply (split_sorted_g total buffer fee L mind maxd HL); unfold zatoshi in *; lia|].
    split.
    - pose proof (split_length_g total buffer fee L (Z.to_nat cap) (nc =? 1)) as LL.
      pose proof (firstn_le_length k full). lia.
    - exists k. reflexivity.
  Qed.

  Lemma plan_conservation_g p : run = Ok p ->
    p_out p = map (fun c => c + buffer) (p_cross p)
    /\ sumZ (p_out p) + p_fees p + optZ (p_change p) = total
    /\ p_migr p = sumZ (p_cross p) /\ p_total p = total /\ p_buf p = buffer
    /\ 0 <= p_fees p /\ (forall c, p_change p = Some c -> 0 < c).
  Proof.
    intros Hp. use_spec p Hp.
    split; [reflexivity|]. split; [rewrite optZ_rem by lia; lia|].
    repeat (split; [reflexivity|]).
    split; [apply Z.mul_nonneg_nonneg; unfold zatoshi in *; lia|].
    intros c Hc. destruct (0 <? _) eqn:B in Hc; [|discriminate]. inversion Hc; subst. lia.
  Qed.

  Lemma plan_fees_g p : run = Ok p ->
    (p_cross p = [] -> p_fees p = 0)
    /\ (p_cross p <> [] ->
        exists a, orc (Nat.pred (Z.to_nat (p_calls p))) (p_out p) = Some a /\ p_fees p = Z.of_N a * fee).
  Proof.
    intros Hp. use_spec p Hp. split.
    - intros Hnil. destruct k as [|k'].
      + rewrite K4 by reflexivity. lia.
      + destruct (K5 ltac:(lia)) as [_ O]. destruct full as [|a l]; [|discriminate].
        cbn [length] in K1. lia.
    - intros Hne. assert (Hk : (0 < k)%nat) by (destruct k; [cbn [firstn] in Hne; congruence | lia]).
      destruct (K5 Hk) as [_ O]. exists (Z.to_N n). rewrite Nat2Z.id. split; [exact O|].
      rewrite Z2N.id by lia. reflexivity.
  Qed.

  Lemma assumed_of_empty : full = [] -> assumed = 0.
  Proof.
    unfold split_of, assumed_of.
    destruct (exact_note_of L total buffer (nc =? 1) && (0 <? Z.to_nat cap)%nat); [discriminate|].
    intros ->. reflexivity.
  Qed.

  Lemma plan_residual_g p a : run = Ok p ->
    orc O (map (fun c => c + buffer) full) = Some a -> Z.of_N a = assumed ->
    p_cross p = full
    /\ (mind <= maxd -> (length full < Z.to_nat cap)%nat -> optZ (p_change p) < mind + buffer + fee).
  Proof.
    intros Hp HO Ha. use_spec p Hp.
    assert (B0 : 0 <= buffer) by (unfold zatoshi in *; lia).
    assert (F0 : 0 <= fee) by (unfold zatoshi in *; lia).
    assert (T0 : 0 <= total) by (unfold zatoshi in *; lia).
    pose proof (split_cost_g total buffer fee L (Z.to_nat cap) (nc =? 1) T0) as C. cbn zeta in C.
    pose proof (split_residual_g total buffer fee L mind maxd HL B0 F0 (Z.to_nat cap) (nc =? 1)) as R. cbn zeta in R.
    destruct full as [|x l] eqn:F.
    - assert (k = O) by (cbn [length] in K1; lia). subst k. cbn [firstn].
      split; [reflexivity|]. intros Hmm Hl. specialize (R Hmm Hl).
      rewrite K4 in * by reflexivity. rewrite optZ_rem by lia.
      rewrite (assumed_of_empty F) in R. cbn [notes_of map sumZ fold_right] in *. lia.
    - destruct (K6 a ltac:(discriminate) HO ltac:(rewrite Ha; exact C)) as [-> ->].
      rewrite firstn_all. split; [reflexivity|]. intros Hmm Hl. specialize (R Hmm Hl).
      rewrite optZ_rem by lia. rewrite Ha. exact R.
  Qed.
End DerivedG.

(** The same clauses for the normative ZIP 318 bounds ([plan_denominations]). *)
Section Derived.
  Variables total nc cap buffer fee : Z.
  Variable orc : oracle.
  Hypothesis Htotal : zatoshi total.
  Hypothesis Hbuffer : zatoshi buffer.
  Hypothesis Hfee : zatoshi fee.
  Hypothesis Hcap : 1 <= cap.

  Local Notation full := (canonical_split (Z.to_nat cap) total buffer fee (nc =? 1)).
  Local Notation assumed := (assumed_txs (Z.to_nat cap) total buffer fee (nc =? 1)).
  Local Notation run := (plan_denominations total nc cap buffer fee orc).
  Let Hcap0 : 0 <= cap. Proof. lia. Qed.

  Lemma plan_total_ok : exists p, run = Ok p.
  Proof. exact (plan_total_ok_g total nc cap buffer fee orc series MIN CAP zip318_ladder Htotal Hbuffer Hfee Hcap0). Qed.

  Lemma plan_crossings p : run = Ok p ->
    Forall Canonical (p_cross p) /\ nonincreasing (p_cross p) = true
    /\ Z.of_nat (length (p_cross p)) <= cap /\ Prefix (p_cross p) full.
  Proof.
    intros Hp.
    destruct (plan_crossings_g total nc cap buffer fee orc series MIN CAP zip318_ladder Htotal Hbuffer Hfee Hcap0 p Hp)
      as [C1 [C2 [C3 C4]]].
    rewrite split_of_series in C4.
    split; [|split; [exact C2 | split; [exact C3 | exact C4]]].
    eapply Forall_impl; [|exact C1]. intros a Ha. exact (series_canonical a Ha).
  Qed.

  Lemma plan_conservation p : run = Ok p ->
    p_out p = map (fun c => c + buffer) (p_cross p)
    /\ sumZ (p_out p) + p_fees p + optZ (p_change p) = total
    /\ p_migr p = sumZ (p_cross p) /\ p_total p = total /\ p_buf p = buffer
    /\ 0 <= p_fees p /\ (forall c, p_change p = Some c -> 0 < c).
  Proof. exact (plan_conservation_g total nc cap buffer fee orc series MIN CAP zip318_ladder Htotal Hbuffer Hfee Hcap0 p). Qed.

  Lemma plan_fees p : run = Ok p ->
    (p_cross p = [] -> p_fees p = 0)
    /\ (p_cross p <> [] ->
        exists a, orc (Nat.pred (Z.to_nat (p_calls p))) (p_out p) = Some a /\ p_fees p = Z.of_N a * fee).
  Proof. exact (plan_fees_g total nc cap buffer fee orc series MIN CAP zip318_ladder Htotal Hbuffer Hfee Hcap0 p). Qed.

  Lemma plan_residual p a : run = Ok p ->
    orc O (map (fun c => c + buffer) full) = Some a -> Z.of_N a = assumed ->
    p_cross p = full
    /\ ((length full < Z.to_nat cap)%nat -> optZ (p_change p) < MIN + buffer + fee).
  Proof.
    intros Hp HO Ha. rewrite <- split_of_series in *. rewrite <- assumed_of_series in Ha.
    destruct (plan_residual_g total nc cap buffer fee orc series MIN CAP zip318_ladder Htotal Hbuffer Hfee Hcap0 p a
                Hp HO Ha) as [R1 R2].
    split; [exact R1 | exact (R2 MIN_le_CAP)].
  Qed.
End Derived.

(** The note count enters only through the single bit [nc = 1]. *)
Lemma plan_one_bit s total nc1 nc2 fee orc :
  (nc1 =? 1) = (nc2 =? 1) -> plan s total nc1 fee orc = plan s total nc2 fee orc.
Proof.
  intros H. unfold plan, unconstrained_split, exact_funding. rewrite H. reflexivity.
Qed.

(** The plan is a function of the oracle's answers on prefixes of the canonical split only:
    two oracles that agree there give the same plan. *)
Lemma reconcile_ext orc1 orc2 notes fee total k : forall call,
  (forall i j, orc1 i (firstn j notes) = orc2 i (firstn j notes)) ->
  reconcile k orc1 call notes fee total = reconcile k orc2 call notes fee total.
Proof.
  induction k as [|k IH]; intros call H; [reflexivity|]. cbn [reconcile].
  destruct (map_res zat (firstn (S k) notes)) as [typed| |] eqn:T; cbn [bind]; try reflexivity.
  assert (TY : typed = firstn (S k) notes).
  { clear - T. revert typed T. generalize (firstn (S k) notes) as l.
    induction l as [|a l IHl]; intros typed T; cbn [map_res] in T.
    - inversion T. reflexivity.
    - unfold zat at 1 in T. destruct ((0 <=? a) && (a <=? MAX_MONEY)); cbn [bind] in T; [|discriminate].
      destruct (map_res zat l) as [r| |]; cbn [bind] in T; try discriminate.
      inversion T. f_equal. apply IHl. reflexivity. }
  rewrite TY, H, (IH (S call) H). reflexivity.
Qed.
