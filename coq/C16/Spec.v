(** C16 — the property, stated without reference to the model: the 1-2-5 series, the canonical
    split as "repeatedly take the largest canonical denomination that can still be funded", and
    the clauses a plan must satisfy.  Boolean checkers are what [prop_case] evaluates on the
    implementation's outcomes. *)
From V.Lib Require Import Base MachInt.
From V.Gen Require Import C16Consts.
Local Open Scope Z_scope.

Definition MIN : Z := MAX_RESIDUAL_VALUE.   (* 0.01 ZEC *)
Definition CAP : Z := DENOM_CAP.            (* 10,000 ZEC *)

(** ** The denomination set *)
Definition OneTwoFive (v : Z) : Prop :=
  exists k m, 0 <= k /\ (m = 1 \/ m = 2 \/ m = 5) /\ v = m * 10 ^ k.
Definition Canonical (v : Z) : Prop := OneTwoFive v /\ MIN <= v <= CAP.

(** Every 1-2-5 value below 10^20 (so every one a [u64] holds), descending. *)
Definition all125 : list Z :=
  flat_map (fun k => [5 * 10 ^ Z.of_nat k; 2 * 10 ^ Z.of_nat k; 10 ^ Z.of_nat k]) (rev (seq 0 20)).
(** The canonical denominations, descending. *)
Definition series : list Z := filter (fun s => (MIN <=? s) && (s <=? CAP)) all125.
Definition canonicalb (v : Z) : bool := existsb (Z.eqb v) series.

(** [largest_one_two_five hi floor] for a power-of-ten floor: the largest 1-2-5 multiple of the
    floor that is at most [hi], 0 if there is none. *)
Definition is_pow10 (f : Z) : bool := existsb (fun k => f =? 10 ^ Z.of_nat k) (seq 0 20).
Definition spec_l125 (hi floor : Z) : Z :=
  hd 0 (filter (fun s => (floor <=? s) && (s <=? hi) && (s <=? u64_max)) all125).

(** ** The canonical split *)
Definition sumZ (l : list Z) : Z := fold_right Z.add 0 l.
Definition ceil_div (a b : Z) : Z := (a + b - 1) / b.
(** preparation transactions the planner assumes for [k] funding notes *)
Definition stxs (k : Z) : Z := ceil_div k FUNDING_OUTPUTS_PER_TX.

(** can a [k+1]-th part of value [s] still be funded, [cn] being committed to earlier notes? *)
Definition fundable (total buffer fee cn k s : Z) : bool :=
  cn + s + buffer + stxs (k + 1) * fee <=? total.

Fixpoint greedy (fuel : nat) (total buffer fee cn k : Z) : list Z :=
  match fuel with
  | O => []
  | S f => match find (fundable total buffer fee cn k) series with
           | None => []
           | Some s => s :: greedy f total buffer fee (cn + s + buffer) (k + 1)
           end
  end.

(** a single note holding exactly one canonical denomination plus its buffer *)
Definition exact_note (total buffer : Z) (single : bool) : bool :=
  single && (buffer <=? total) && canonicalb (total - buffer).

(** The canonical split: a function of the balance, the two fees, the cap and ONE bit of the
    wallet's note structure. *)
Definition canonical_split (cap : nat) (total buffer fee : Z) (single : bool) : list Z :=
  if exact_note total buffer single && (0 <? cap)%nat then [total - buffer]
  else greedy cap total buffer fee 0 0.

(** preparation transactions the planner assumed when it sized the full split *)
Definition assumed_txs (cap : nat) (total buffer fee : Z) (single : bool) : Z :=
  if exact_note total buffer single && (0 <? cap)%nat then 0
  else stxs (Z.of_nat (length (greedy cap total buffer fee 0 0))).

(** ** The same specification for arbitrary strategy bounds ([CanonicalOneTwoFive::new])

    [L] is the descending list of admissible denominations; for a strategy with minimum
    denomination [mn] (a power of ten) and maximum [mx] it is [series_of mn mx]. *)
Definition series_of (mn mx : Z) : list Z := filter (fun s => (mn <=? s) && (s <=? mx)) all125.

Fixpoint greedy_of (L : list Z) (fuel : nat) (total buffer fee cn k : Z) : list Z :=
  match fuel with
  | O => []
  | S f => match find (fundable total buffer fee cn k) L with
           | None => []
           | Some s => s :: greedy_of L f total buffer fee (cn + s + buffer) (k + 1)
           end
  end.

Definition exact_note_of (L : list Z) (total buffer : Z) (single : bool) : bool :=
  single && (buffer <=? total) && existsb (Z.eqb (total - buffer)) L.

Definition split_of (L : list Z) (cap : nat) (total buffer fee : Z) (single : bool) : list Z :=
  if exact_note_of L total buffer single && (0 <? cap)%nat then [total - buffer]
  else greedy_of L cap total buffer fee 0 0.

Definition assumed_of (L : list Z) (cap : nat) (total buffer fee : Z) (single : bool) : Z :=
  if exact_note_of L total buffer single && (0 <? cap)%nat then 0
  else stxs (Z.of_nat (length (greedy_of L cap total buffer fee 0 0))).

(** ** Clauses on a plan *)
Fixpoint nonincreasing (l : list Z) : bool :=
  match l with
  | a :: ((b :: _) as r) => (b <=? a) && nonincreasing r
  | _ => true
  end.

Fixpoint is_prefix (p l : list Z) : bool :=
  match p, l with
  | [], _ => true
  | a :: p', b :: l' => (a =? b) && is_prefix p' l'
  | _ :: _, [] => false
  end.

Definition Prefix (p l : list Z) : Prop := exists k, p = firstn k l.
Definition optZ (o : option Z) : Z := match o with Some v => v | None => 0 end.
