(** C16 — the plan clauses for [CanonicalOneTwoFive::new] with caller-chosen bounds: any cap
    (including 0), any maximum denomination, a power-of-ten minimum (the documented requirement). *)
From V.Lib Require Import Base MachInt.
From V.Gen Require Import C16Consts.
From V.C16 Require Import Model Spec ProofsSeries ProofsL125 ProofsSplit ProofsLadder ProofsPlan Proofs.
Local Open Scope Z_scope.

Section Custom.
  Variables (i : nat) (maxd total nc cap buffer fee : Z) (orc : oracle).
  Hypothesis Hi : In i (seq 0 20).
  Hypothesis Hmin : zatoshi (10 ^ Z.of_nat i).
  Hypothesis Hmax : zatoshi maxd.
  Hypothesis Htotal : zatoshi total.
  Hypothesis Hbuffer : zatoshi buffer.
  Hypothesis Hfee : zatoshi fee.
  Hypothesis Hcap : 0 <= cap.

  Local Notation mind := (10 ^ Z.of_nat i).
  Local Notation L := (series_of mind maxd).
  Local Notation full := (split_of L (Z.to_nat cap) total buffer fee (nc =? 1)).
  Local Notation run := (plan (mkStrategy cap maxd mind buffer) total nc fee orc).

  Lemma custom_ladder : Ladder L mind maxd.
  Proof. apply ladder_of; [exact Hi | apply Hmin | apply Hmax]. Qed.

  Lemma custom_split_correct :
    unconstrained_split (mkStrategy cap maxd mind buffer) total nc fee = Ok full.
  Proof. exact (split_correct_g total buffer fee cap L mind maxd custom_ladder Htotal Hbuffer Hfee nc Hcap). Qed.

  Lemma custom_plan_total : exists p, run = Ok p.
  Proof. exact (plan_total_ok_g total nc cap buffer fee orc L mind maxd custom_ladder Htotal Hbuffer Hfee Hcap). Qed.

  Lemma custom_crossings p : run = Ok p ->
    Forall (fun s => OneTwoFive s /\ mind <= s <= maxd) (p_cross p) /\ nonincreasing (p_cross p) = true
    /\ Z.of_nat (length (p_cross p)) <= cap /\ Prefix (p_cross p) full.
  Proof.
    intros Hp.
    destruct (plan_crossings_g total nc cap buffer fee orc L mind maxd custom_ladder Htotal Hbuffer Hfee Hcap p Hp)
      as [C1 [C2 [C3 C4]]].
    split; [|split; [exact C2 | split; [exact C3 | exact C4]]].
    eapply Forall_impl; [|exact C1]. intros a Ha. apply (proj1 (series_of_spec mind maxd a (proj2 Hmax))). exact Ha.
  Qed.

  Lemma custom_conservation p : run = Ok p ->
    p_out p = map (fun c => c + buffer) (p_cross p)
    /\ sumZ (p_out p) + p_fees p + optZ (p_change p) = total
    /\ p_migr p = sumZ (p_cross p) /\ p_total p = total /\ p_buf p = buffer
    /\ 0 <= p_fees p /\ (forall c, p_change p = Some c -> 0 < c).
  Proof. exact (plan_conservation_g total nc cap buffer fee orc L mind maxd custom_ladder Htotal Hbuffer Hfee Hcap p). Qed.

  Lemma custom_fees p : run = Ok p ->
    (p_cross p = [] -> p_fees p = 0)
    /\ (p_cross p <> [] ->
        exists a, orc (Nat.pred (Z.to_nat (p_calls p))) (p_out p) = Some a /\ p_fees p = Z.of_N a * fee).
  Proof. exact (plan_fees_g total nc cap buffer fee orc L mind maxd custom_ladder Htotal Hbuffer Hfee Hcap p). Qed.

  Lemma custom_residual p a : run = Ok p ->
    orc O (map (fun c => c + buffer) full) = Some a ->
    Z.of_N a = assumed_of L (Z.to_nat cap) total buffer fee (nc =? 1) ->
    p_cross p = full
    /\ (mind <= maxd -> (length full < Z.to_nat cap)%nat -> optZ (p_change p) < mind + buffer + fee).
  Proof. exact (plan_residual_g total nc cap buffer fee orc L mind maxd custom_ladder Htotal Hbuffer Hfee Hcap p a). Qed.
End Custom.
