(** C10 — property theorems only; each closed by [exact] of a lemma from the proof files and
    audited by Print Assumptions. H and G range over ALL functions (BLAKE2b is not modelled). *)
From Coq Require Import String.
From V.Lib Require Import Base Hex.
From V.Gen Require Import C10Consts.
From V.C10 Require Import Model Spec Corr Wf PF4 PCs PCont PTop Bridge.
From Coq Require Import List.
Local Open Scope N_scope.

(** ** F4Jumble *)

(** On every valid length, for every pair of round functions, jumbling and unjumbling succeed,
    preserve the length and are mutually inverse. *)
Theorem C10_f4jumble_bijection :
  forall (H : N -> nat -> bytes -> bytes) (G : N -> N -> bytes -> bytes) (m : bytes),
    f4_valid_len (length m) = true ->
    (exists y, f4jumble H G m = Ok y /\ length y = length m /\ f4jumble_inv H G y = Ok m) /\
    (exists x, f4jumble_inv H G m = Ok x /\ length x = length m /\ f4jumble H G x = Ok m).
Proof. exact f4jumble_bijection. Qed.

(** Outside the valid lengths both directions report InvalidLength (and never panic). *)
Theorem C10_f4jumble_invalid :
  forall H G (m : bytes), f4_valid_len (length m) = false ->
    f4jumble H G m = Err InvalidLength /\ f4jumble_inv H G m = Err InvalidLength.
Proof. exact f4jumble_invalid. Qed.

Theorem C10_f4jumble_injective :
  forall H G (a b y : bytes), f4jumble H G a = Ok y -> f4jumble H G b = Ok y -> a = b.
Proof. exact f4jumble_injective. Qed.

(** ** CompactSize *)

Theorem C10_cs_roundtrip :
  forall n r, n <= MAX_COMPACT_SIZE -> cs_read (cs_write n ++ r) = Ok (n, r).
Proof. exact cs_roundtrip. Qed.

(** Every accepted encoding is the shortest one and its value is at most MAX_COMPACT_SIZE. *)
Theorem C10_cs_canonical :
  forall b n r, is_bytes b = true -> cs_read b = Ok (n, r) -> b = cs_write n ++ r /\ n <= MAX_COMPACT_SIZE.
Proof. exact cs_canonical. Qed.

(** ** ZIP 316 item sequences *)

(** Items (known items of the right length, unknown items verbatim) written one after the other
    are read back as the same list. *)
Theorem C10_items_roundtrip :
  forall k items, Forall (item_ok k) items ->
    forall fuel, (length (raw_encoding items) <= fuel)%nat -> parse_loop fuel k (raw_encoding items) = Ok items.
Proof. exact parse_loop_encode. Qed.

(** A byte string the item loop accepts is exactly the encoding of the items it returns. *)
Theorem C10_items_canonical :
  forall k fuel b items, is_bytes b = true -> parse_loop fuel k b = Ok items ->
    raw_encoding items = b /\ Forall (item_ok k) items.
Proof. exact parse_loop_canonical. Qed.

(** The composition checks of [try_from_items_internal] imply the ZIP 316 rules: strictly
    ascending (unique) typecodes, not both P2PKH and P2SH, at least one non-transparent item. *)
Theorem C10_check_items_sound :
  forall items, check_items items = Ok tt -> spec_composition (map fst items) = true.
Proof. exact check_items_sound. Qed.

(** ** Containers through F4Jumble *)

(** Every well-formed container whose padded encoding has a valid F4Jumble length is turned into
    jumbled bytes that parse back to exactly the same items, unknown ones included. *)
Theorem C10_ua_roundtrip :
  forall H G k hrp items,
    (length hrp <= 16)%nat -> Forall (item_ok k) items -> check_items items = Ok tt ->
    f4_valid_len (length (raw_encoding items ++ padding hrp)) = true ->
    exists s, to_jumbled_bytes H G hrp items = Ok s /\ length s = length (raw_encoding items ++ padding hrp) /\
              parse_internal H G k hrp s = Ok items.
Proof. exact ua_roundtrip. Qed.

(** Whatever the container parser accepts is well-formed per ZIP 316 (composition rules, lengths
    of the known items, typecode range), was padded with prefix || zeros, and re-encodes to the
    very bytes that were accepted. *)
Theorem C10_ua_accept_sound :
  forall H G,
    (forall i l x, is_bytes (H i l x) = true) -> (forall i j x, is_bytes (G i j x) = true) ->
    forall k hrp buf items,
      is_bytes buf = true -> parse_internal H G k hrp buf = Ok items ->
      zip316_wf k items = true /\ (length hrp <= 16)%nat /\
      f4jumble_inv H G buf = Ok (raw_encoding items ++ padding hrp) /\
      to_jumbled_bytes H G hrp items = Ok buf.
Proof. exact ua_accept_sound. Qed.

(** ** Totality *)

Theorem C10_parse_internal_total : forall H G k hrp buf, parse_internal H G k hrp buf <> Panic.
Proof. exact parse_internal_total. Qed.
Theorem C10_unified_decode_total : forall H G k s, unified_decode H G k s <> Panic.
Proof. exact unified_decode_total. Qed.
(** No string makes [ZcashAddress::from_str] panic. *)
Theorem C10_parse_total : forall H G s, parse_address H G s <> Panic.
Proof. exact parse_address_total. Qed.

(** ** Prefix tables *)

Theorem C10_b58_prefix_sharing :
  forall k k' n n', is_b58_kind k -> is_b58_kind k' ->
    (b58_prefix k n = b58_prefix k' n' <-> k = k' /\ norm_net k n = norm_net k' n').
Proof. exact b58_prefix_sharing. Qed.
Theorem C10_prefix_sharing_only_test_regtest :
  forall k n n', is_b58_kind k -> b58_prefix k n = b58_prefix k n' -> n <> n' ->
    (n = Test /\ n' = Regtest) \/ (n = Regtest /\ n' = Test).
Proof. exact prefix_sharing_only_test_regtest. Qed.
Theorem C10_hrp_sapling_injective : forall n n', hrp_sapling n = hrp_sapling n' -> n = n'.
Proof. exact hrp_sapling_injective. Qed.
Theorem C10_hrp_tex_injective : forall n n', hrp_tex n = hrp_tex n' -> n = n'.
Proof. exact hrp_tex_injective. Qed.
Theorem C10_hrp_unified_injective :
  forall k k' n n', hrp_unified k n = hrp_unified k' n' -> k = k' /\ n = n'.
Proof. exact hrp_unified_injective. Qed.
Theorem C10_hrp_kinds_disjoint :
  forall k n n' n'', hrp_unified k n <> hrp_sapling n' /\ hrp_unified k n <> hrp_tex n'' /\ hrp_sapling n' <> hrp_tex n''.
Proof. exact hrp_kinds_disjoint. Qed.
Theorem C10_net_of_hrp_unified : forall k n, net_of_hrp (hrp_unified k) (hrp_unified k n) = Some n.
Proof. exact net_of_hrp_unified. Qed.
Theorem C10_ctor_net : forall n k d, from_raw n k d = ARaw (spec_ctor_net k n) k d.
Proof. exact from_raw_spec. Qed.

(** ** Bridge (partial: F4Jumble and constructor cases) *)
Theorem C10_agree_implies_property_partial :
  forall c, bridged c = true -> wf_case c = true -> known_class c = 0 -> run_case c = true -> prop_case c = true.
Proof. exact agree_implies_property_partial. Qed.

(** non-vacuity: a two-item container satisfies the premises of the round trip *)
Example C10_nonvacuous :
  let items := [(2, repeat 7 43); (65535, [1; 2; 3])] in
  Forall (item_ok KAddr) items /\ check_items items = Ok tt /\
  f4_valid_len (length (raw_encoding items ++ padding hrp_ua_main)) = true.
Proof. repeat split; repeat constructor; vm_compute; congruence. Qed.
