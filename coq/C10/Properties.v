(** C10 — property theorems only; each closed by [exact] of a lemma from the proof files and
    audited by Print Assumptions. H and G range over ALL functions (BLAKE2b is not modelled). *)
From Coq Require Import String.
From V.Lib Require Import Base Hex.
From V.Gen Require Import C10Consts.
From V.C10 Require Import Model Spec Corr Wf PF4 PCs PCont PTop PRegroup PB32a PB32b PB58 PCompl PTop2 PSort PConv PKeys Bridge.
From Coq Require Import List.
Local Open Scope N_scope.

(** ** F4Jumble *)

(** On every valid length, for every pair of round functions, jumbling and unjumbling succeed,
    preserve the length and are mutually inverse. *)
Theorem C10_f4jumble_bijection :
  forall (H : N -> nat -> bytes -> bytes) (G : N -> N -> bytes -> bytes) (m : bytes),
    f4_valid_len (length m) = true ->
    (exists y, f4jumble H G m = Ok y /\ length y = length m /\ f4jumble_inv H G y = Ok m) /\
    (exists x, f4jumble_inv H G m = Ok x /\ length x = length m /\ f4jumble H G x = Ok m).
Proof. exact f4jumble_bijection. Qed.

(** Outside the valid lengths both directions report InvalidLength (and never panic). *)
Theorem C10_f4jumble_invalid :
  forall H G (m : bytes), f4_valid_len (length m) = false ->
    f4jumble H G m = Err InvalidLength /\ f4jumble_inv H G m = Err InvalidLength.
Proof. exact f4jumble_invalid. Qed.

Theorem C10_f4jumble_injective :
  forall H G (a b y : bytes), f4jumble H G a = Ok y -> f4jumble H G b = Ok y -> a = b.
Proof. exact f4jumble_injective. Qed.

(** ** CompactSize *)

Theorem C10_cs_roundtrip :
  forall n r, n <= MAX_COMPACT_SIZE -> cs_read (cs_write n ++ r) = Ok (n, r).
Proof. exact cs_roundtrip. Qed.

(** Every accepted encoding is the shortest one and its value is at most MAX_COMPACT_SIZE. *)
Theorem C10_cs_canonical :
  forall b n r, is_bytes b = true -> cs_read b = Ok (n, r) -> b = cs_write n ++ r /\ n <= MAX_COMPACT_SIZE.
Proof. exact cs_canonical. Qed.

(** ** ZIP 316 item sequences *)

(** Items (known items of the right length, unknown items verbatim) written one after the other
    are read back as the same list. *)
Theorem C10_items_roundtrip :
  forall k items, Forall (item_ok k) items ->
    forall fuel, (length (raw_encoding items) <= fuel)%nat -> parse_loop fuel k (raw_encoding items) = Ok items.
Proof. exact parse_loop_encode. Qed.

(** A byte string the item loop accepts is exactly the encoding of the items it returns. *)
Theorem C10_items_canonical :
  forall k fuel b items, is_bytes b = true -> parse_loop fuel k b = Ok items ->
    raw_encoding items = b /\ Forall (item_ok k) items.
Proof. exact parse_loop_canonical. Qed.

(** The composition checks of [try_from_items_internal] imply the ZIP 316 rules: strictly
    ascending (unique) typecodes, not both P2PKH and P2SH, at least one non-transparent item. *)
Theorem C10_check_items_sound :
  forall items, check_items items = Ok tt -> spec_composition (map fst items) = true.
Proof. exact check_items_sound. Qed.

(** ** Containers through F4Jumble *)

(** Every well-formed container whose padded encoding has a valid F4Jumble length is turned into
    jumbled bytes that parse back to exactly the same items, unknown ones included. *)
Theorem C10_ua_roundtrip :
  forall H G k hrp items,
    (length hrp <= 16)%nat -> Forall (item_ok k) items -> check_items items = Ok tt ->
    f4_valid_len (length (raw_encoding items ++ padding hrp)) = true ->
    exists s, to_jumbled_bytes H G hrp items = Ok s /\ length s = length (raw_encoding items ++ padding hrp) /\
              parse_internal H G k hrp s = Ok items.
Proof. exact ua_roundtrip. Qed.

(** Whatever the container parser accepts is well-formed per ZIP 316 (composition rules, lengths
    of the known items, typecode range), was padded with prefix || zeros, and re-encodes to the
    very bytes that were accepted. *)
Theorem C10_ua_accept_sound :
  forall H G,
    (forall i l x, is_bytes (H i l x) = true) -> (forall i j x, is_bytes (G i j x) = true) ->
    forall k hrp buf items,
      is_bytes buf = true -> parse_internal H G k hrp buf = Ok items ->
      zip316_wf k items = true /\ (length hrp <= 16)%nat /\
      f4jumble_inv H G buf = Ok (raw_encoding items ++ padding hrp) /\
      to_jumbled_bytes H G hrp items = Ok buf.
Proof. exact ua_accept_sound. Qed.

(** ** Totality *)

Theorem C10_parse_internal_total : forall H G k hrp buf, parse_internal H G k hrp buf <> Panic.
Proof. exact parse_internal_total. Qed.
Theorem C10_unified_decode_total : forall H G k s, unified_decode H G k s <> Panic.
Proof. exact unified_decode_total. Qed.
(** No string makes [ZcashAddress::from_str] panic. *)
Theorem C10_parse_total : forall H G s, parse_address H G s <> Panic.
Proof. exact parse_address_total. Qed.

(** ** Prefix tables *)

Theorem C10_b58_prefix_sharing :
  forall k k' n n', is_b58_kind k -> is_b58_kind k' ->
    (b58_prefix k n = b58_prefix k' n' <-> k = k' /\ norm_net k n = norm_net k' n').
Proof. exact b58_prefix_sharing. Qed.
Theorem C10_prefix_sharing_only_test_regtest :
  forall k n n', is_b58_kind k -> b58_prefix k n = b58_prefix k n' -> n <> n' ->
    (n = Test /\ n' = Regtest) \/ (n = Regtest /\ n' = Test).
Proof. exact prefix_sharing_only_test_regtest. Qed.
Theorem C10_hrp_sapling_injective : forall n n', hrp_sapling n = hrp_sapling n' -> n = n'.
Proof. exact hrp_sapling_injective. Qed.
Theorem C10_hrp_tex_injective : forall n n', hrp_tex n = hrp_tex n' -> n = n'.
Proof. exact hrp_tex_injective. Qed.
Theorem C10_hrp_unified_injective :
  forall k k' n n', hrp_unified k n = hrp_unified k' n' -> k = k' /\ n = n'.
Proof. exact hrp_unified_injective. Qed.
Theorem C10_hrp_kinds_disjoint :
  forall k n n' n'', hrp_unified k n <> hrp_sapling n' /\ hrp_unified k n <> hrp_tex n'' /\ hrp_sapling n' <> hrp_tex n''.
Proof. exact hrp_kinds_disjoint. Qed.
Theorem C10_net_of_hrp_unified : forall k n, net_of_hrp (hrp_unified k) (hrp_unified k n) = Some n.
Proof. exact net_of_hrp_unified. Qed.
Theorem C10_ctor_net : forall n k d, from_raw n k d = ARaw (spec_ctor_net k n) k d.
Proof. exact from_raw_spec. Qed.

(** ** Composition checks: exact characterisation *)

(** [try_from_items_internal] accepts exactly the lists satisfying the ZIP 316 composition rules. *)
Theorem C10_check_items_iff :
  forall items, check_items items = Ok tt <-> spec_composition (map fst items) = true.
Proof. exact check_items_iff. Qed.
(** Rejected => a composition rule is violated. *)
Theorem C10_check_items_reject :
  forall items e, check_items items = Err e -> spec_composition (map fst items) = false.
Proof. exact check_items_reject. Qed.

(** ** 5-bit / 8-bit regrouping (with the padding rule of the repaired decoder) *)

Theorem C10_regroup_roundtrip : forall b, is_bytes b = true -> fes_to_bytes (bytes_to_fes b) = Some b.
Proof. exact regroup_roundtrip. Qed.
(** Accepted groups are exactly the encoder's groups for the bytes returned: at most 4 padding
    bits, all zero — one group sequence per byte string. *)
Theorem C10_regroup_canonical :
  forall fes b, Forall (fun v => v < 32) fes -> fes_to_bytes fes = Some b -> bytes_to_fes b = fes /\ is_bytes b = true.
Proof. exact regroup_canonical. Qed.

(** ** Bech32 / Bech32m *)

(** The checksum the encoder appends verifies (for both variants) ... *)
Theorem C10_checksum_valid :
  forall v hrp fes, Forall (fun x => x < 32) (hrp_expand hrp ++ fes) ->
    polymod (hrp_expand hrp ++ fes ++ checksum_fes v hrp fes) = target v.
Proof. exact checksum_valid. Qed.
(** ... and is the only six-symbol suffix that does. *)
Theorem C10_checksum_unique :
  forall v hrp fes x, Forall (fun y => y < 32) (hrp_expand hrp ++ fes) -> length x = 6%nat -> Forall (fun y => y < 32) x ->
    polymod (hrp_expand hrp ++ fes ++ x) = target v -> x = checksum_fes v hrp fes.
Proof. exact checksum_unique. Qed.
(** decode (encode hrp data) = (hrp, groups of data), for both checksum variants and any code length. *)
Theorem C10_b32_decode_encode :
  forall v cl hrp data s, hrp_okb hrp = true -> b32_encode v cl hrp data = Some s ->
    b32_decode v cl s = Some (hrp, bytes_to_fes data).
Proof. exact b32_decode_encode. Qed.
(** An accepted string with a lower-case prefix is exactly the encoder's output (lower case,
    the unique checksum) for the prefix and groups returned. *)
Theorem C10_b32_decode_canonical :
  forall v cl s hrp fes,
    b32_decode v cl s = Some (hrp, fes) -> existsb is_upper hrp = false -> existsb is_lower hrp = true ->
    s = b32_string v hrp fes /\ Forall (fun x => x < 32) fes /\ len s <= cl /\ hrp_okb hrp = true.
Proof. exact b32_decode_canonical. Qed.
(** A string valid for one checksum variant is invalid for the other. *)
Theorem C10_b32_variant_distinct :
  forall v cl cl' s x, b32_decode v cl s = Some x ->
    b32_decode (match v with B32 => B32m | B32m => B32 end) cl' s = None.
Proof. exact b32_variant_distinct. Qed.

(** ** Base58 / Base58Check *)

Theorem C10_b58_roundtrip : forall b, is_bytes b = true -> b58_decode (b58_encode b) = Some b.
Proof. exact b58_roundtrip. Qed.
Theorem C10_b58_canonical : forall s b, b58_decode s = Some b -> b58_encode b = s /\ is_bytes b = true.
Proof. exact b58_canonical. Qed.
Theorem C10_b58check_roundtrip : forall b, is_bytes b = true -> b58check_decode (b58check_encode b) = Some b.
Proof. exact b58check_roundtrip. Qed.
Theorem C10_b58check_canonical :
  forall s p, b58check_decode s = Some p -> b58check_encode p = s /\ is_bytes p = true.
Proof. exact b58check_canonical. Qed.

(** ** Strings: every kind round-trips; every accepted string is canonical *)

(** A ZIP 316 well-formed container of any kind, encoded for any network without the encoder
    panicking, decodes to the same network and items; the string needs no trimming. *)
Theorem C10_unified_roundtrip :
  forall H G, (forall i l x, is_bytes (H i l x) = true) -> (forall i j x, is_bytes (G i j x) = true) ->
  forall k n items s, zip316_wf k items = true -> unified_encode H G k n items = Ok s ->
    unified_decode H G k s = Ok (n, items) /\ trim s = s.
Proof. exact unified_roundtrip. Qed.

(** An accepted unified string is well-formed per ZIP 316 and is exactly the encoding of what
    was returned. *)
Theorem C10_unified_accept_canonical :
  forall H G, (forall i l x, is_bytes (H i l x) = true) -> (forall i j x, is_bytes (G i j x) = true) ->
  forall k s n items, unified_decode H G k s = Ok (n, items) ->
    zip316_wf k items = true /\ unified_encode H G k n items = Ok s.
Proof. exact unified_accept_canonical. Qed.

(** Sapling and TEX values always encode (no panic). *)
Theorem C10_raw_b32_encodes :
  forall H G n k d, (k = Sapling /\ len d = 43) \/ (k = Tex /\ len d = 20) ->
    exists s, encode_address H G (ARaw n k d) = Ok s.
Proof. exact raw_b32_encodes. Qed.

(** Every well-formed address value of every kind and network: the string it encodes to parses
    back to the same value, the network being normalised for Sprout/P2PKH/P2SH (Regtest ->
    Test, the documented sharing). Visible guard for the three Base58Check kinds: the string is
    not by accident also a valid Bech32/Bech32m string (the parser tries those first). *)
Theorem C10_kind_roundtrip :
  forall H G, (forall i l x, is_bytes (H i l x) = true) -> (forall i j x, is_bytes (G i j x) = true) ->
  forall a s, spec_addr_ok a = true -> encode_address H G a = Ok s ->
    (match a with ARaw _ k _ => is_b58 k = true -> not_bech32 s | AUni _ _ => True end) ->
    parse_address H G s = Ok (norm_addr a).
Proof. exact kind_roundtrip. Qed.

(** Every string the parser accepts denotes a well-formed address (ZIP 316 for unified ones) and
    re-encodes to exactly its own trimmed form. *)
Theorem C10_parse_accept_canonical :
  forall H G, (forall i l x, is_bytes (H i l x) = true) -> (forall i j x, is_bytes (G i j x) = true) ->
  forall s0 a, parse_address H G s0 = Ok a -> encode_address H G a = Ok (trim s0) /\ spec_addr_ok a = true.
Proof. exact parse_accept_canonical. Qed.

(** Two accepted strings denoting the same address are equal after trimming. *)
Theorem C10_parse_injective :
  forall H G, (forall i l x, is_bytes (H i l x) = true) -> (forall i j x, is_bytes (G i j x) = true) ->
  forall s1 s2 a, parse_address H G s1 = Ok a -> parse_address H G s2 = Ok a -> trim s1 = trim s2.
Proof. exact parse_injective. Qed.

(** ** Network-checked conversion *)

(** [convert_if_network]: accepted iff [spec_convertible]; the converter then sees the expected
    network; otherwise IncorrectNetwork (expected, actual). Never a panic. *)
Theorem C10_convert_decision :
  forall a e, convert_if_network a e = if spec_convertible a e then Ok (with_net e a) else Err (e, addr_net a).
Proof. exact convert_decision. Qed.
Theorem C10_convert_total : forall a e, convert_if_network a e <> Panic.
Proof. exact convert_total. Qed.
(** [spec_convertible] is exactly: equal networks, or one of Sprout / P2PKH / P2SH (the kinds whose
    encodings testnet and regtest share) with a testnet address expected on regtest. *)
Theorem C10_convertible_iff :
  forall a e, spec_convertible a e = true <->
    addr_net a = e \/ (exists n k d, a = ARaw n k d /\ spec_shared k = true /\ n = Test /\ e = Regtest).
Proof. exact convertible_iff. Qed.
(** For an address as the constructors build it, what an accepted conversion hands on rebuilds to
    the same address (same string); Sapling, TEX and unified addresses — distinct prefix per
    network — are accepted on their own network only and handed on unchanged. *)
Theorem C10_convert_canonical :
  forall a e a', (match a with ARaw n k _ => norm_net k n = n | AUni _ _ => True end) ->
    convert_if_network a e = Ok a' ->
    spec_rebuild a' = a /\ addr_net a' = e /\
    (match a with ARaw _ k _ => spec_shared k = false -> a' = a | AUni _ _ => a' = a end).
Proof. exact convert_canonical. Qed.

(** ** zcash_keys::encoding (Sapling payment addresses through the shared helper bech32_decode) *)

(** Accepted => the string is exactly the expected lower-case prefix, the separator, lower-case
    data and the Bech32 checksum: the prefix is matched as written, so no upper-case (or
    mixed-case) rendering is accepted. *)
Theorem C10_keys_accept_shape :
  forall valid hrp s d, existsb is_upper hrp = false -> existsb is_lower hrp = true ->
    keys_decode_payment_address valid hrp s = Ok d ->
    exists fes, b32_decode B32 BECH32_CODE_LENGTH s = Some (hrp, fes) /\ s = b32_string B32 hrp fes /\
                fes_to_bytes fes = Some d /\ len d = 43 /\ existsb is_upper s = false.
Proof. exact keys_accept_shape. Qed.
(** Accepted => re-encodes to the very string accepted (no guard: the padding of the final 5-bit
    group is validated since the second fix commit). *)
Theorem C10_keys_accept_canonical :
  forall valid hrp s d, existsb is_upper hrp = false -> existsb is_lower hrp = true ->
    keys_decode_payment_address valid hrp s = Ok d ->
    keys_encode_payment_address hrp d = Ok s /\ len d = 43.
Proof. exact keys_accept_canonical. Qed.
Theorem C10_keys_decode_total : forall valid hrp s, keys_decode_payment_address valid hrp s <> Panic.
Proof. exact keys_decode_total. Qed.

(** ** Bridge *)

(** On every well-formed case outside the known-finding class, for EVERY operation: if the
    implementation's outcome equals the model's, the property holds on the implementation's
    outcome. ([wf_case] of a Base58Check encoding case includes the visible guard that the
    produced string is not accidentally also valid Bech32/Bech32m; the check evaluates it.) *)
Theorem C10_agree_implies_property :
  forall c, wf_case c = true -> known_class c = 0 -> run_case c = true -> prop_case c = true.
Proof. exact agree_implies_property. Qed.

(** [try_from_items]: accepted iff the order-independent composition rules hold on the given
    items; the container is a permutation of them in strictly ascending typecode order. *)
Theorem C10_try_from_items_spec :
  forall items,
    match try_from_items items with
    | Ok l => Permutation.Permutation l items /\ spec_composition (map fst l) = true /\ spec_set_ok (map fst items) = true
    | Err _ => spec_set_ok (map fst items) = false
    | Panic => False
    end.
Proof. exact try_from_items_spec. Qed.

(** The known-finding class is exactly "the encoder panics": outside it encoding succeeds. *)
Theorem C10_encodable_encodes :
  forall H G k n items, spec_encodable (hrp_unified k n) items = true -> exists s, unified_encode H G k n items = Ok s.
Proof. exact encodable_encodes. Qed.

(** non-vacuity: a two-item container satisfies the premises of the round trip *)
Example C10_nonvacuous :
  let items := [(2, repeat 7 43); (65535, [1; 2; 3])] in
  Forall (item_ok KAddr) items /\ check_items items = Ok tt /\
  f4_valid_len (length (raw_encoding items ++ padding hrp_ua_main)) = true.
Proof. repeat split; repeat constructor; vm_compute; congruence. Qed.
