(** C10 — zcash_keys::encoding (Sapling payment addresses through [bech32_decode]): an accepted
    string is the lower-case encoder output for the expected prefix, and re-encodes to itself. *)
From Coq Require Import String.
From V.Lib Require Import Base Hex.
From V.Gen Require Import C10Consts.
From V.C10 Require Import Model Spec PCs PRegroup PB32a PB32b PB58 PTop2.
From Coq Require Import List Lia.
Local Open Scope N_scope.

(** accepted => the string is exactly prefix, separator, lower-case data and the Bech32 checksum:
    in particular the prefix is matched as written (no upper-case rendering is accepted) *)
Theorem keys_accept_shape valid hrp s d :
  existsb is_upper hrp = false -> existsb is_lower hrp = true ->
  keys_decode_payment_address valid hrp s = Ok d ->
  exists fes, b32_decode B32 BECH32_CODE_LENGTH s = Some (hrp, fes) /\ s = b32_string B32 hrp fes /\
              fes_to_bytes fes = Some d /\ len d = 43 /\ existsb is_upper s = false.
Proof.
  intros U Lw. unfold keys_decode_payment_address.
  destruct (b32_decode B32 BECH32_CODE_LENGTH s) as [[h fes]|] eqn:D; [|discriminate].
  destruct (str_eqb h hrp) eqn:E; cbn [negb]; [|discriminate].
  apply bytes_eqb_true in E. subst h.
  destruct (fes_to_bytes fes) as [data|] eqn:Fb; [|discriminate].
  destruct ((len data =? 43) && valid data) eqn:C; [|discriminate].
  intros Q. injection Q as <-. apply andb_true_iff in C as [C _]. apply N.eqb_eq in C.
  destruct (b32_decode_canonical _ _ _ _ _ D U Lw) as [Es [Ff [Hl Hok]]].
  exists fes. repeat split; try assumption; try reflexivity.
  rewrite Es. unfold b32_string. rewrite existsb_app, U. cbn [existsb orb]. change (is_upper 49) with false. cbn [orb].
  apply existsb_false_forall. intros c Ic. apply in_map_iff in Ic as [x [<- Ix]].
  destruct (checksum_fes_facts B32 hrp fes) as [_ F6].
  assert (x < 32).
  { apply in_app_or in Ix as [Ix|Ix]; [rewrite Forall_forall in Ff; auto | rewrite Forall_forall in F6; auto]. }
  apply (fe_facts x H).
Qed.

(** accepted => re-encodes to the very string accepted *)
Theorem keys_accept_canonical valid hrp s d :
  existsb is_upper hrp = false -> existsb is_lower hrp = true ->
  keys_decode_payment_address valid hrp s = Ok d ->
  keys_encode_payment_address hrp d = Ok s /\ len d = 43.
Proof.
  intros U Lw A. destruct (keys_accept_shape _ _ _ _ U Lw A) as [fes [D [Es [Fb [Ld _]]]]].
  split; [|exact Ld].
  destruct (b32_decode_canonical _ _ _ _ _ D U Lw) as [_ [Ff [Hl _]]].
  destruct (regroup_canonical _ _ Ff Fb) as [Rf _].
  unfold keys_encode_payment_address.
  rewrite b32_encode_string; [rewrite Rf, <- Es; reflexivity | exact U | rewrite Rf, <- Es; exact Hl].
Qed.

Theorem keys_decode_total valid hrp s : keys_decode_payment_address valid hrp s <> Panic.
Proof.
  unfold keys_decode_payment_address. destruct (b32_decode _ _ _) as [[h fes]|]; [|discriminate].
  destruct (negb _); [discriminate|]. destruct (fes_to_bytes fes); [|discriminate]. destruct (_ && _); discriminate.
Qed.
