(** C10 — Base58 and Base58Check: decode (encode b) = b including leading zeros, and every
    accepted string is the encoder's output for the bytes returned. SHA-256 is the model's
    Gallina function; only its output length and byte range are used. *)
From Coq Require Import String.
From V.Lib Require Import Base Hex.
From V.C10 Require Import Model PCs PRegroup PB32b.
From Coq Require Import List Lia ZifyBool ZifyNat.
Local Open Scope N_scope.

Ltac Zify.zify_post_hook ::= Z.div_mod_to_equations.

(** * positional numerals in base B, most significant digit first *)
Section Radix.
  Variable B : N.
  Hypothesis HB : 2 <= B.

  Fixpoint value (ds : list N) (acc : N) : N :=
    match ds with [] => acc | d :: r => value r (acc * B + d) end.
  Fixpoint digits (fuel : nat) (x : N) (acc : list N) : list N :=
    match fuel with
    | O => acc
    | S f => if x =? 0 then acc else digits f (x / B) (x mod B :: acc)
    end.

  Definition canonical (ds : list N) : Prop :=
    Forall (fun d => d < B) ds /\ match ds with [] => True | h :: _ => h <> 0 end.

  Lemma digits_acc : forall f x acc, digits f x acc = digits f x [] ++ acc.
  Proof.
    induction f as [|f IH]; intros x acc; cbn [digits]; [reflexivity|].
    destruct (x =? 0); [reflexivity|]. rewrite IH, (IH _ [x mod B]), <- app_assoc. reflexivity.
  Qed.

  Lemma value_app : forall a b acc, value (a ++ b) acc = value b (value a acc).
  Proof. induction a as [|x a IH]; intros; cbn [app value]; [reflexivity | apply IH]. Qed.

  Lemma value_digits : forall f x, x < B ^ N.of_nat f -> value (digits f x []) 0 = x.
  Proof.
    induction f as [|f IH]; intros x Hx.
    - cbn in *. lia.
    - cbn [digits]. destruct (N.eqb_spec x 0) as [->|Nx]; [reflexivity|].
      rewrite digits_acc, value_app, IH.
      + cbn [value]. pose proof (N.div_mod x B ltac:(lia)). lia.
      + rewrite Nat2N.inj_succ, N.pow_succ_r' in Hx. apply N.div_lt_upper_bound; lia.
  Qed.

  Lemma digits_lt : forall f x, Forall (fun d => d < B) (digits f x []).
  Proof.
    induction f as [|f IH]; intros x; cbn [digits]; [constructor|].
    destruct (x =? 0); [constructor|]. rewrite digits_acc. apply Forall_app. split; [apply IH|].
    constructor; [apply N.mod_lt; lia | constructor].
  Qed.

  Lemma digits_zero f acc : digits f 0 acc = acc.
  Proof. destruct f; reflexivity. Qed.

  Lemma digits_head : forall f x, x < B ^ N.of_nat f -> x <> 0 ->
    exists h t, digits f x [] = h :: t /\ h <> 0.
  Proof.
    induction f as [|f IH]; intros x Hx Nx.
    - cbn in Hx. lia.
    - cbn [digits]. destruct (N.eqb_spec x 0); [contradiction|]. rewrite digits_acc.
      destruct (N.eq_dec (x / B) 0) as [E|NE].
      + rewrite E, digits_zero. cbn [app]. exists (x mod B), []. split; [reflexivity|].
        pose proof (N.div_mod x B ltac:(lia)). lia.
      + rewrite Nat2N.inj_succ, N.pow_succ_r' in Hx.
        destruct (IH (x / B)) as [h [t [E Hh]]]; [apply N.div_lt_upper_bound; lia | exact NE|].
        rewrite E. cbn [app]. exists h, (t ++ [x mod B]). split; [reflexivity | exact Hh].
  Qed.

  Lemma digits_canonical f x : x < B ^ N.of_nat f -> canonical (digits f x []).
  Proof.
    intros Hx. split; [apply digits_lt|].
    destruct (N.eq_dec x 0) as [->|Nx]; [rewrite digits_zero; exact I|].
    destruct (digits_head f x Hx Nx) as [h [t [-> Hh]]]. exact Hh.
  Qed.

  Lemma value_ge : forall ds acc, acc <= value ds acc.
  Proof.
    induction ds as [|d r IH]; intros acc; cbn [value]; [lia|].
    eapply N.le_trans; [|apply IH]. nia.
  Qed.

  Lemma value_nonzero h t : h <> 0 -> value (h :: t) 0 <> 0.
  Proof. intros Hh. cbn [value]. pose proof (value_ge t (0 * B + h)). lia. Qed.

  Lemma value_bound : forall ds acc, Forall (fun d => d < B) ds -> value ds acc < (acc + 1) * B ^ N.of_nat (length ds).
  Proof.
    induction ds as [|d r IH]; intros acc F; cbn [value length]; [cbn; lia|].
    inversion F; subst. eapply N.lt_le_trans; [apply IH; assumption|].
    rewrite Nat2N.inj_succ, N.pow_succ_r'. nia.
  Qed.

  Lemma canonical_prefix ds d : canonical (ds ++ [d]) -> ds <> [] -> canonical ds.
  Proof.
    intros [F H] NE. apply Forall_app in F as [F _]. split; [exact F|].
    destruct ds as [|h t]; [contradiction | exact H].
  Qed.

  Lemma digits_value : forall ds f, canonical ds -> value ds 0 < B ^ N.of_nat f -> digits f (value ds 0) [] = ds.
  Proof.
    induction ds as [|d ds IH] using rev_ind; intros f C Hv.
    - cbn [value]. apply digits_zero.
    - rewrite value_app in *. cbn [value] in *.
      assert (Hd : d < B) by (destruct C as [F _]; apply Forall_app in F as [_ F]; inversion F; assumption).
      assert (NZ : value ds 0 * B + d <> 0).
      { destruct ds as [|h t].
        - cbn [value app] in *. destruct C as [_ H]. lia.
        - destruct C as [_ H]. cbn [app] in H. pose proof (value_nonzero h t H). nia. }
      destruct f as [|f]; [cbn in Hv; lia|].
      cbn [digits]. destruct (N.eqb_spec (value ds 0 * B + d) 0); [contradiction|].
      assert (Q : (value ds 0 * B + d) / B = value ds 0) by (symmetry; apply (N.div_unique _ B _ d); lia).
      assert (R : (value ds 0 * B + d) mod B = d) by (symmetry; apply (N.mod_unique _ B (value ds 0)); lia).
      rewrite Q, R, digits_acc.
      rewrite Nat2N.inj_succ, N.pow_succ_r' in Hv.
      destruct ds as [|h t].
      + cbn [value]. rewrite digits_zero. reflexivity.
      + rewrite IH; [reflexivity | apply (canonical_prefix _ d C); discriminate | nia].
  Qed.

  Lemma value_zeros z : forall acc, value (repeat 0 z) acc = acc * B ^ N.of_nat z.
  Proof.
    induction z as [|z IH]; intros acc; cbn [repeat value]; [cbn; lia|].
    rewrite IH, Nat2N.inj_succ, N.pow_succ_r'. lia.
  Qed.
End Radix.

(** the model's functions are instances *)
Lemma b58_value_eq : forall ds acc, b58_value ds acc = value 58 ds acc.
Proof. induction ds; intros; cbn; [reflexivity | auto]. Qed.
Lemma be_val_eq : forall ds acc, be_val ds acc = value 256 ds acc.
Proof. induction ds; intros; cbn; [reflexivity | auto]. Qed.
Lemma b58_digits_eq : forall f x acc, b58_digits f x acc = digits 58 f x acc.
Proof. induction f; intros; cbn; [reflexivity|]. destruct (x =? 0); auto. Qed.
Lemma be_min_eq : forall f x acc, be_min f x acc = digits 256 f x acc.
Proof. induction f; intros; cbn; [reflexivity|]. destruct (x =? 0); auto. Qed.

(** leading zeros *)
Lemma count_leading_repeat z l : (match l with h :: _ => h <> 0 | [] => True end) ->
  count_leading 0 (repeat 0 z ++ l) = z.
Proof.
  intros H. induction z as [|z IH]; cbn [repeat app count_leading].
  - destruct l as [|h t]; [reflexivity|]. cbn [count_leading]. destruct (N.eqb_spec h 0); [contradiction | reflexivity].
  - rewrite IH. reflexivity.
Qed.

Lemma split_leading l :
  l = repeat 0 (count_leading 0 l) ++ skipn (count_leading 0 l) l /\
  match skipn (count_leading 0 l) l with h :: _ => h <> 0 | [] => True end.
Proof.
  induction l as [|x l [E H]]; [split; [reflexivity | exact I]|].
  cbn [count_leading]. destruct (N.eqb_spec x 0) as [->|Nx].
  - cbn [repeat skipn app]. split; [f_equal; exact E | exact H].
  - cbn [repeat skipn app]. split; [reflexivity | exact Nx].
Qed.

(** alphabet tables, by computation *)
Definition b58_char (d : N) : N := nth (N.to_nat d) b58_alphabet 0.
Definition b58_index (c : N) : option N := if 128 <=? c then None else index_of c b58_alphabet 0.

Lemma alpha_table : forallb (fun d => match b58_index (b58_char d) with Some d' => (d' =? d) && negb (is_ws (b58_char d)) | None => false end)
                            (map N.of_nat (seq 0 58)) = true.
Proof. vm_compute. reflexivity. Qed.
Lemma index_table : forallb (fun c => match b58_index c with Some d => (d <? 58) && (b58_char d =? c) | None => true end)
                            (map N.of_nat (seq 0 128)) = true.
Proof. vm_compute. reflexivity. Qed.

Lemma alpha_facts d : d < 58 -> b58_index (b58_char d) = Some d /\ is_ws (b58_char d) = false.
Proof.
  intros Hd. pose proof alpha_table as T. rewrite forallb_forall in T. specialize (T d (in_range d 58 Hd)).
  cbv beta in T. destruct (b58_index (b58_char d)) as [d'|]; [|discriminate].
  apply andb_true_iff in T as [T1 T2]. apply N.eqb_eq in T1. apply negb_true_iff in T2. subst. auto.
Qed.
Lemma index_facts c d : b58_index c = Some d -> d < 58 /\ b58_char d = c.
Proof.
  intros E. assert (Hc : c < 128) by (unfold b58_index in E; destruct (N.leb_spec 128 c); [discriminate | assumption]).
  pose proof index_table as T. rewrite forallb_forall in T. specialize (T c (in_range c 128 Hc)).
  cbv beta in T. rewrite E in T. apply andb_true_iff in T as [T1 T2]. split; [apply N.ltb_lt; exact T1 | apply N.eqb_eq; exact T2].
Qed.

Lemma pow256_58 n : 256 ^ N.of_nat n <= 58 ^ N.of_nat (2 * n).
Proof.
  rewrite Nat2N.inj_mul, N.pow_mul_r. change (58 ^ N.of_nat 2) with 3364.
  apply N.pow_le_mono_l. lia.
Qed.
Lemma pow58_256 n m : (n <= m)%nat -> 58 ^ N.of_nat n <= 256 ^ N.of_nat m.
Proof.
  intros H. eapply N.le_trans; [apply (N.pow_le_mono_r 58 (N.of_nat n) (N.of_nat m)); lia|].
  apply N.pow_le_mono_l. lia.
Qed.

Lemma value_lt_pow B ds : 2 <= B -> Forall (fun d => d < B) ds -> value B ds 0 < B ^ N.of_nat (length ds).
Proof. intros HB F. pose proof (value_bound B HB ds 0 F). lia. Qed.

Lemma repeat0_lt z B : 0 < B -> Forall (fun d => d < B) (repeat 0 z).
Proof. intros. induction z; cbn; constructor; assumption. Qed.

Lemma b58_encode_unfold b : b58_encode b = map b58_char (repeat 0 (count_leading 0 b) ++ b58_digits (2 * length b) (be_val b 0) []).
Proof. reflexivity. Qed.
Lemma b58_decode_unfold s : b58_decode s =
  match map_opt b58_index s with
  | None => None
  | Some ds => Some (repeat 0 (count_leading 0 ds) ++ be_min (length s) (b58_value ds 0) [])
  end.
Proof. reflexivity. Qed.

(** [of_base58 (to_base58 b) = b], leading zero bytes included *)
Theorem b58_roundtrip b : is_bytes b = true -> b58_decode (b58_encode b) = Some b.
Proof.
  intros Hb. apply is_bytes_Forall in Hb.
  destruct (split_leading b) as [Eb Hh]. set (z := count_leading 0 b) in *. set (b' := skipn z b) in *.
  assert (Fb' : Forall (fun d => d < 256) b').
  { rewrite Eb in Hb. apply Forall_app in Hb. tauto. }
  assert (Cb' : canonical 256 b') by (split; assumption).
  assert (V : be_val b 0 = value 256 b' 0).
  { rewrite be_val_eq, Eb, value_app, value_zeros by lia. rewrite N.mul_0_l. reflexivity. }
  pose proof (value_lt_pow 256 b' ltac:(lia) Fb') as Vb.
  assert (Lb : (length b' <= length b)%nat) by (unfold b'; rewrite skipn_length; lia).
  assert (V58 : value 256 b' 0 < 58 ^ N.of_nat (2 * length b)).
  { eapply N.lt_le_trans; [exact Vb|]. eapply N.le_trans; [apply pow256_58|]. apply N.pow_le_mono_r; lia. }
  rewrite b58_encode_unfold, V, b58_digits_eq.
  set (D := digits 58 (2 * length b) (value 256 b' 0) []).
  pose proof (digits_canonical 58 ltac:(lia) _ _ V58) as [FD HD]. fold D in FD, HD.
  pose proof (value_digits 58 ltac:(lia) _ _ V58) as VD. fold D in VD.
  rewrite b58_decode_unfold.
  rewrite map_opt_map.
  2:{ intros x Ix. apply alpha_facts. apply in_app_or in Ix as [Ix|Ix].
      - apply repeat_spec in Ix. lia.
      - rewrite Forall_forall in FD. apply FD. exact Ix. }
  rewrite count_leading_repeat by exact HD.
  rewrite b58_value_eq, value_app, value_zeros by lia. rewrite N.mul_0_l, VD.
  fold z. rewrite be_min_eq, map_length, digits_value; [rewrite <- Eb; reflexivity | lia | exact Cb' |].
  pose proof (value_lt_pow 58 D ltac:(lia) FD) as B58. rewrite VD in B58.
  eapply N.lt_le_trans; [exact B58|]. apply pow58_256. rewrite app_length. lia.
Qed.

(** every accepted string is the encoding of the bytes returned *)
Theorem b58_canonical s b : b58_decode s = Some b -> b58_encode b = s /\ is_bytes b = true.
Proof.
  rewrite b58_decode_unfold. destruct (map_opt b58_index s) as [ds|] eqn:Mo; [|discriminate].
  intros Q. injection Q as <-.
  assert (Ms : map b58_char ds = s).
  { apply (map_opt_inv _ _ _ _ Mo). intros a d _ Fa. apply (index_facts a d Fa). }
  assert (Fds : Forall (fun d => d < 58) ds).
  { clear Ms. revert ds Mo. induction s as [|c s IH]; intros ds E; cbn in E.
    - injection E as <-. constructor.
    - destruct (b58_index c) as [d|] eqn:Fc; [|discriminate]. destruct (map_opt b58_index s) as [t|]; [|discriminate].
      injection E as <-. constructor; [apply (index_facts c d Fc) | apply IH; reflexivity]. }
  assert (Ls : length s = length ds) by (rewrite <- Ms; apply map_length).
  destruct (split_leading ds) as [Eds Hh]. set (z := count_leading 0 ds) in *. set (ds' := skipn z ds) in *.
  assert (Fd' : Forall (fun d => d < 58) ds') by (rewrite Eds in Fds; apply Forall_app in Fds; tauto).
  assert (Cd' : canonical 58 ds') by (split; assumption).
  assert (V : b58_value ds 0 = value 58 ds' 0).
  { rewrite b58_value_eq, Eds, value_app, value_zeros by lia. rewrite N.mul_0_l. reflexivity. }
  pose proof (value_lt_pow 58 ds' ltac:(lia) Fd') as Vd.
  assert (Ld : (length ds' <= length ds)%nat) by (unfold ds'; rewrite skipn_length; lia).
  assert (V256 : value 58 ds' 0 < 256 ^ N.of_nat (length s)).
  { eapply N.lt_le_trans; [exact Vd|]. apply pow58_256. lia. }
  rewrite V, be_min_eq.
  set (Bt := digits 256 (length s) (value 58 ds' 0) []).
  pose proof (digits_canonical 256 ltac:(lia) _ _ V256) as [FB HBt]. fold Bt in FB, HBt.
  pose proof (value_digits 256 ltac:(lia) _ _ V256) as VB. fold Bt in VB.
  split.
  - rewrite b58_encode_unfold, count_leading_repeat by exact HBt.
    rewrite be_val_eq, value_app, value_zeros by lia. rewrite N.mul_0_l, VB.
    fold z. rewrite b58_digits_eq, digits_value; [rewrite <- Eds; exact Ms | lia | exact Cd' |].
    pose proof (value_lt_pow 256 Bt ltac:(lia) FB) as B1. rewrite VB in B1.
    eapply N.lt_le_trans; [exact B1|]. eapply N.le_trans; [apply pow256_58|].
    apply N.pow_le_mono_r; [lia|]. rewrite app_length. lia.
  - apply is_bytes_Forall. apply Forall_app. split; [apply repeat0_lt; lia | exact FB].
Qed.

(** * SHA-256 output shape *)
Lemma sha_round_length st kw : length (sha_round st kw) = length st.
Proof.
  unfold sha_round.
  destruct st as [|a [|b [|c [|d [|e [|f [|g [|h [|]]]]]]]]]; reflexivity.
Qed.
Lemma fold_sha_round_length l : forall st, length (fold_left sha_round l st) = length st.
Proof. induction l as [|x l IH]; intros st; cbn [fold_left]; [reflexivity|]. rewrite IH. apply sha_round_length. Qed.
Lemma zip_length {A B} : forall (a : list A) (b : list B), length (zip a b) = Nat.min (length a) (length b).
Proof. induction a as [|x a IH]; intros [|y b]; cbn; auto. Qed.
Lemma compress_length st blk : length (compress st blk) = length st.
Proof. unfold compress. cbv zeta. rewrite map_length, zip_length, fold_sha_round_length. lia. Qed.
Lemma fold_compress_length l : forall st, length (fold_left compress l st) = length st.
Proof. induction l as [|x l IH]; intros st; cbn [fold_left]; [reflexivity|]. rewrite IH. apply compress_length. Qed.

Lemma be_n_length k x : length (be_n k x) = k.
Proof. unfold be_n. rewrite rev_length. apply le_n_length. Qed.
Lemma be_n_is_bytes k x : is_bytes (be_n k x) = true.
Proof.
  unfold be_n. apply is_bytes_Forall. pose proof (le_n_is_bytes k x) as H. apply is_bytes_Forall in H.
  apply Forall_rev. exact H.
Qed.

Lemma sha256_shape m : length (sha256 m) = 32%nat /\ is_bytes (sha256 m) = true.
Proof.
  unfold sha256. cbv zeta.
  set (st := fold_left compress _ IV256).
  assert (L : length st = 8%nat) by (unfold st; rewrite fold_compress_length; reflexivity).
  clearbody st. split.
  - destruct st as [|a [|b [|c [|d [|e [|f [|g [|h [|]]]]]]]]]; try discriminate. reflexivity.
  - clear L. induction st as [|x st IH]; [reflexivity|]. cbn [map concat]. apply is_bytes_app. split; [apply be_n_is_bytes | exact IH].
Qed.

Lemma check4 b : length (firstn 4 (sha256d b)) = 4%nat /\ is_bytes (firstn 4 (sha256d b)) = true.
Proof.
  unfold sha256d. destruct (sha256_shape (sha256 b)) as [L B]. split.
  - rewrite firstn_length. lia.
  - rewrite <- (firstn_skipn 4 (sha256 (sha256 b))) in B. apply is_bytes_app in B. tauto.
Qed.

(** * Base58Check *)
Theorem b58check_roundtrip b : is_bytes b = true -> b58check_decode (b58check_encode b) = Some b.
Proof.
  intros Hb. destruct (check4 b) as [L4 B4]. unfold b58check_decode, b58check_encode.
  rewrite b58_roundtrip by (apply is_bytes_app; split; assumption).
  rewrite app_length, L4.
  destruct (Nat.ltb_spec (length b + 4) 4); [lia|].
  replace (length b + 4 - 4)%nat with (length b) by lia.
  rewrite firstn_app, skipn_app, Nat.sub_diag, firstn_all, skipn_all, firstn_O, app_nil_r, skipn_O. cbn [app].
  assert (E : bytes_eqb (firstn 4 (sha256d b)) (firstn 4 (sha256d b)) = true).
  { generalize (firstn 4 (sha256d b)). induction l as [|x l IH]; cbn; [reflexivity|]. rewrite N.eqb_refl. exact IH. }
  rewrite E. reflexivity.
Qed.

Lemma bytes_eqb_true a : forall b, bytes_eqb a b = true -> a = b.
Proof.
  induction a as [|x a IH]; intros [|y b]; cbn; try discriminate; [reflexivity|].
  intros E. apply andb_true_iff in E as [E1 E2]. apply N.eqb_eq in E1. fold (bytes_eqb a b) in E2. rewrite (IH _ E2), E1. reflexivity.
Qed.

Theorem b58check_canonical s p : b58check_decode s = Some p -> b58check_encode p = s /\ is_bytes p = true.
Proof.
  unfold b58check_decode. destruct (b58_decode s) as [b|] eqn:D; [|discriminate].
  destruct (b58_canonical _ _ D) as [E Hb].
  destruct (Nat.ltb_spec (length b) 4); [discriminate|].
  destruct (bytes_eqb _ _) eqn:C; [|discriminate]. intros Q. injection Q as <-.
  apply bytes_eqb_true in C. unfold b58check_encode. rewrite C, firstn_skipn. split; [exact E|].
  rewrite <- (firstn_skipn (length b - 4) b) in Hb. apply is_bytes_app in Hb. tauto.
Qed.
