(** C10 — Bech32 / Bech32m checksum algebra: the 6 checksum symbols computed by the encoder make
    the polymod of the whole string equal the variant's constant, and they are the only 6 symbols
    that do (the polymod is affine over GF(2) in the last 6 symbols). *)
From Coq Require Import String.
From V.Lib Require Import Base Hex.
From V.C10 Require Import Model.
From Coq Require Import List Lia ZifyBool Btauto.
Local Open Scope N_scope.

Ltac Zify.zify_post_hook ::= Z.div_mod_to_equations.

Lemma lxor_lt_pow2 a b n : a < 2 ^ n -> b < 2 ^ n -> N.lxor a b < 2 ^ n.
Proof.
  intros Ha Hb.
  destruct (N.eq_dec a 0) as [->|Na]; [rewrite N.lxor_0_l; exact Hb|].
  destruct (N.eq_dec b 0) as [->|Nb]; [rewrite N.lxor_0_r; exact Ha|].
  destruct (N.eq_dec (N.lxor a b) 0) as [->|NZ]; [lia|].
  apply N.log2_lt_pow2; [lia|]. eapply N.le_lt_trans; [apply N.log2_lxor|].
  apply N.max_lub_lt; apply N.log2_lt_pow2; lia.
Qed.

Lemma land_lxor_l a b c : N.land (N.lxor a b) c = N.lxor (N.land a c) (N.land b c).
Proof. apply N.bits_inj. intros n. rewrite !N.land_spec, !N.lxor_spec, !N.land_spec. btauto. Qed.

(** the generator selection is XORed onto the accumulator *)
Lemma gen_xor_acc b : forall g i acc, gen_xor b i g acc = N.lxor acc (gen_xor b i g 0).
Proof.
  induction g as [|x g IH]; intros i acc; cbn [gen_xor].
  - rewrite N.lxor_0_r. reflexivity.
  - rewrite (IH (S i) (if N.testbit_nat b i then N.lxor acc x else acc)),
            (IH (S i) (if N.testbit_nat b i then N.lxor 0 x else 0)).
    destruct (N.testbit_nat b i).
    + rewrite N.lxor_0_l, N.lxor_assoc. reflexivity.
    + rewrite N.lxor_0_l. reflexivity.
Qed.

Definition M25 : N := 33554431.
Definition sel (b : N) : N := gen_xor b 0 GEN 0.

Lemma step_form chk v :
  polymod_step chk v = N.lxor (N.lxor (N.shiftl (N.land chk M25) 5) v) (sel (N.shiftr chk 25)).
Proof. unfold polymod_step. cbv zeta. rewrite gen_xor_acc. reflexivity. Qed.

Lemma small_shiftr d k : d < 2 ^ k -> N.shiftr d k = 0.
Proof. intros H. rewrite N.shiftr_div_pow2. apply N.div_small. exact H. Qed.

Lemma small_land d : d < 2 ^ 25 -> N.land d M25 = d.
Proof. intros H. change M25 with (N.ones 25). rewrite N.land_ones. apply N.mod_small. exact H. Qed.

(** XORing [d] (below 2^25) into the state and [e] into the symbol: the step is affine *)
Lemma step_lin s d e : d < 2 ^ 25 ->
  polymod_step (N.lxor s d) e = N.lxor (polymod_step s 0) (N.lxor (N.shiftl d 5) e).
Proof.
  intros Hd. rewrite !step_form.
  rewrite N.shiftr_lxor, (small_shiftr d 25 Hd), N.lxor_0_r.
  rewrite land_lxor_l, (small_land d Hd), N.shiftl_lxor.
  apply N.bits_inj. intros n. rewrite !N.lxor_spec, N.bits_0. btauto.
Qed.

(** the [k] low 5-bit digits of p, most significant first *)
Fixpoint unpack (k : nat) (p : N) : list N :=
  match k with
  | O => []
  | S k' => N.land (N.shiftr p (5 * N.of_nat k')) 31 :: unpack k' p
  end.

Lemma digit_join p e :
  N.lxor (N.shiftl (N.land (N.shiftr p e) 31) e) (p mod 2 ^ e) = p mod 2 ^ (e + 5).
Proof.
  change 31 with (N.ones 5). rewrite N.land_ones.
  apply N.bits_inj. intros n. rewrite N.lxor_spec.
  destruct (N.lt_ge_cases n e) as [L|Gq].
  - rewrite N.shiftl_spec_low, !N.mod_pow2_bits_low by lia. rewrite xorb_false_l. reflexivity.
  - rewrite N.shiftl_spec_high by lia. rewrite (N.mod_pow2_bits_high p e n) by lia. rewrite xorb_false_r.
    destruct (N.lt_ge_cases (n - e) 5) as [L5|G5].
    + rewrite !N.mod_pow2_bits_low by lia. rewrite N.shiftr_spec'. f_equal. lia.
    + rewrite !N.mod_pow2_bits_high by lia. reflexivity.
Qed.

Lemma fold_unpack : forall k s d m p, m + 5 * N.of_nat k <= 30 -> d < 2 ^ m ->
  fold_left polymod_step (unpack k p) (N.lxor s d) =
  N.lxor (fold_left polymod_step (repeat 0 k) s)
         (N.lxor (N.shiftl d (5 * N.of_nat k)) (p mod 2 ^ (5 * N.of_nat k))).
Proof.
  induction k as [|k IH]; intros s d m p Hm Hd.
  - cbn [unpack repeat fold_left]. change (5 * N.of_nat 0) with 0.
    rewrite N.shiftl_0_r, N.pow_0_r, N.mod_1_r, N.lxor_0_r. reflexivity.
  - cbn [unpack repeat fold_left].
    assert (H25 : d < 2 ^ 25).
    { eapply N.lt_le_trans; [exact Hd|]. apply N.pow_le_mono_r; lia. }
    rewrite (step_lin s d _ H25).
    set (v := N.land (N.shiftr p (5 * N.of_nat k)) 31).
    assert (Hv : v < 2 ^ 5).
    { unfold v. change 31 with (N.ones 5). rewrite N.land_ones. apply N.mod_lt. cbn. lia. }
    assert (Hd' : N.lxor (N.shiftl d 5) v < 2 ^ (m + 5)).
    { apply lxor_lt_pow2.
      - rewrite N.shiftl_mul_pow2, N.pow_add_r. apply N.mul_lt_mono_pos_r; [cbn; lia | exact Hd].
      - eapply N.lt_le_trans; [exact Hv|]. apply N.pow_le_mono_r; lia. }
    rewrite (IH (polymod_step s 0) _ (m + 5) p) by (try exact Hd'; lia).
    f_equal.
    rewrite N.shiftl_lxor, N.shiftl_shiftl.
    replace (5 * N.of_nat (S k)) with (5 * N.of_nat k + 5) by lia.
    rewrite <- (digit_join p (5 * N.of_nat k)). fold v.
    replace (5 + 5 * N.of_nat k) with (5 * N.of_nat k + 5) by lia.
    apply N.bits_inj. intros n. rewrite !N.lxor_spec. btauto.
Qed.

Definition zeros6 : list N := [0; 0; 0; 0; 0; 0].

Lemma fold_unpack6 s p : p < 2 ^ 30 ->
  fold_left polymod_step (unpack 6 p) s = N.lxor (fold_left polymod_step zeros6 s) p.
Proof.
  intros Hp. pose proof (fold_unpack 6 s 0 0 p ltac:(cbn; lia) ltac:(cbn; lia)) as E.
  rewrite N.lxor_0_r in E. rewrite E. change (repeat 0 6) with zeros6.
  change (5 * N.of_nat 6) with 30. rewrite N.shiftl_0_l, N.lxor_0_l, N.mod_small by exact Hp. reflexivity.
Qed.

(** range invariant of the polymod state *)
Lemma gen_xor_lt b : forall g i acc, acc < 2 ^ 30 -> Forall (fun x => x < 2 ^ 30) g -> gen_xor b i g acc < 2 ^ 30.
Proof.
  induction g as [|x g IH]; intros i acc Ha Hg; [exact Ha|]. cbn [gen_xor]. inversion Hg; subst.
  apply IH; [|assumption]. destruct (N.testbit_nat b i); [apply lxor_lt_pow2; assumption | exact Ha].
Qed.

Lemma GEN_lt : Forall (fun x => x < 2 ^ 30) GEN.
Proof. unfold GEN. repeat constructor. Qed.

Lemma step_lt chk v : v < 2 ^ 30 -> polymod_step chk v < 2 ^ 30.
Proof.
  intros Hv. unfold polymod_step. cbv zeta. apply gen_xor_lt; [|exact GEN_lt].
  apply lxor_lt_pow2; [|exact Hv].
  change 33554431 with (N.ones 25). rewrite N.land_ones, N.shiftl_mul_pow2.
  pose proof (N.mod_lt chk (2 ^ 25) ltac:(cbn; lia)) as B.
  change (2 ^ 30) with (2 ^ 25 * 2 ^ 5). apply N.mul_lt_mono_pos_r; [cbn; lia | exact B].
Qed.

Lemma fold_step_lt vs : forall s, s < 2 ^ 30 -> Forall (fun v => v < 32) vs -> fold_left polymod_step vs s < 2 ^ 30.
Proof.
  induction vs as [|v vs IH]; intros s Hs Hv; [exact Hs|]. inversion Hv; subst. cbn [fold_left].
  apply IH; [|assumption]. apply step_lt. cbn. lia.
Qed.

Lemma polymod_lt vs : Forall (fun v => v < 32) vs -> polymod vs < 2 ^ 30.
Proof. intros. unfold polymod. apply fold_step_lt; [cbn; lia | assumption]. Qed.

Lemma target_lt v : target v < 2 ^ 30.
Proof. destruct v; cbn; lia. Qed.

Lemma checksum_unpack v hrp fes :
  checksum_fes v hrp fes = unpack 6 (N.lxor (polymod (hrp_expand hrp ++ fes ++ zeros6)) (target v)).
Proof.
  unfold checksum_fes. cbv zeta. change [0; 0; 0; 0; 0; 0] with zeros6.
  generalize (N.lxor (polymod (hrp_expand hrp ++ fes ++ zeros6)) (target v)). intros p. reflexivity.
Qed.

Lemma zeros6_lt : Forall (fun v => v < 32) zeros6.
Proof. unfold zeros6. repeat constructor. Qed.

(** the encoder's checksum verifies *)
Theorem checksum_valid v hrp fes :
  Forall (fun x => x < 32) (hrp_expand hrp ++ fes) ->
  polymod (hrp_expand hrp ++ fes ++ checksum_fes v hrp fes) = target v.
Proof.
  intros Hr. rewrite checksum_unpack. rewrite !app_assoc. unfold polymod at 1. rewrite fold_left_app.
  fold (polymod (hrp_expand hrp ++ fes)).
  set (c0 := polymod (hrp_expand hrp ++ fes)).
  assert (Z : polymod ((hrp_expand hrp ++ fes) ++ zeros6) = fold_left polymod_step zeros6 c0).
  { unfold polymod. rewrite fold_left_app. reflexivity. }
  rewrite Z.
  assert (Hc0 : c0 < 2 ^ 30) by (apply polymod_lt; exact Hr).
  assert (HZ : fold_left polymod_step zeros6 c0 < 2 ^ 30) by (apply fold_step_lt; [exact Hc0 | exact zeros6_lt]).
  rewrite fold_unpack6 by (apply lxor_lt_pow2; [exact HZ | apply target_lt]).
  rewrite <- N.lxor_assoc, N.lxor_nilpotent, N.lxor_0_l. reflexivity.
Qed.

(** packing six symbols *)
Definition pack6 (x : list N) : N := fold_left (fun a c => a * 32 + c) x 0.

Lemma digit_at q x r D : x < 32 -> r < D -> (((q * 32 + x) * D + r) / D) mod 32 = x.
Proof.
  intros Hx Hr.
  assert (E : ((q * 32 + x) * D + r) / D = q * 32 + x) by (symmetry; apply (N.div_unique _ D _ r Hr); ring).
  rewrite E. symmetry. apply (N.mod_unique _ _ q); lia.
Qed.

Lemma unpack_pack6 x : length x = 6%nat -> Forall (fun v => v < 32) x -> unpack 6 (pack6 x) = x /\ pack6 x < 2 ^ 30.
Proof.
  intros L F. destruct x as [|x0 [|x1 [|x2 [|x3 [|x4 [|x5 [|]]]]]]]; try discriminate.
  repeat match goal with H : Forall _ (_ :: _) |- _ => inversion H; clear H; subst end.
  unfold pack6. cbn [fold_left unpack].
  change 31 with (N.ones 5). rewrite !N.land_ones, !N.shiftr_div_pow2.
  change (5 * N.of_nat 5) with 25. change (5 * N.of_nat 4) with 20. change (5 * N.of_nat 3) with 15.
  change (5 * N.of_nat 2) with 10. change (5 * N.of_nat 1) with 5. change (5 * N.of_nat 0) with 0.
  change (2 ^ 25) with 33554432. change (2 ^ 20) with 1048576. change (2 ^ 15) with 32768.
  change (2 ^ 10) with 1024. change (2 ^ 5) with 32. change (2 ^ 0) with 1. change (2 ^ 30) with 1073741824.
  split; [|lia].
  set (P := (((((0 * 32 + x0) * 32 + x1) * 32 + x2) * 32 + x3) * 32 + x4) * 32 + x5).
  f_equal; [|f_equal; [|f_equal; [|f_equal; [|f_equal; [|f_equal]]]]].
  - replace P with ((0 * 32 + x0) * 33554432 + ((((x1 * 32 + x2) * 32 + x3) * 32 + x4) * 32 + x5)) by (unfold P; lia).
    apply digit_at; lia.
  - replace P with ((x0 * 32 + x1) * 1048576 + (((x2 * 32 + x3) * 32 + x4) * 32 + x5)) by (unfold P; lia).
    apply digit_at; lia.
  - replace P with (((x0 * 32 + x1) * 32 + x2) * 32768 + ((x3 * 32 + x4) * 32 + x5)) by (unfold P; lia).
    apply digit_at; lia.
  - replace P with ((((x0 * 32 + x1) * 32 + x2) * 32 + x3) * 1024 + (x4 * 32 + x5)) by (unfold P; lia).
    apply digit_at; lia.
  - replace P with (((((x0 * 32 + x1) * 32 + x2) * 32 + x3) * 32 + x4) * 32 + x5) by (unfold P; lia).
    apply digit_at; lia.
  - replace P with ((((((x0 * 32 + x1) * 32 + x2) * 32 + x3) * 32 + x4) * 32 + x5) * 1 + 0) by (unfold P; lia).
    apply digit_at; lia.
Qed.

(** ... and it is the only six-symbol suffix that verifies *)
Theorem checksum_unique v hrp fes x :
  Forall (fun y => y < 32) (hrp_expand hrp ++ fes) -> length x = 6%nat -> Forall (fun y => y < 32) x ->
  polymod (hrp_expand hrp ++ fes ++ x) = target v -> x = checksum_fes v hrp fes.
Proof.
  intros Hr L F E. destruct (unpack_pack6 x L F) as [U P].
  rewrite checksum_unpack. rewrite app_assoc in E |- *. unfold polymod in E at 1. rewrite fold_left_app in E.
  fold (polymod (hrp_expand hrp ++ fes)) in E.
  set (c0 := polymod (hrp_expand hrp ++ fes)) in *.
  assert (Z : polymod ((hrp_expand hrp ++ fes) ++ zeros6) = fold_left polymod_step zeros6 c0).
  { unfold polymod. rewrite fold_left_app. reflexivity. }
  rewrite Z. rewrite <- U in E. rewrite fold_unpack6 in E by exact P.
  rewrite <- E, <- N.lxor_assoc, N.lxor_nilpotent, N.lxor_0_l. symmetry. exact U.
Qed.
