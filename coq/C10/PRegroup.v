(** C10 — 5-bit / 8-bit regrouping with the padding rule of the repaired decoder:
    [fes_to_bytes (bytes_to_fes b) = Some b], and every accepted sequence of 5-bit groups is
    the one the encoder produces for the bytes returned (accepted => canonical). *)
From Coq Require Import String.
From V.Lib Require Import Base Hex.
From V.C10 Require Import Model PCs.
From Coq Require Import List Lia ZifyBool ZifyNat.
Local Open Scope N_scope.

Ltac Zify.zify_post_hook ::= Z.div_mod_to_equations.

Lemma bits_of_length w x : length (bits_of w x) = w.
Proof. induction w; cbn; [reflexivity | f_equal; assumption]. Qed.

Lemma val_of_bound bs : val_of bs < 2 ^ N.of_nat (length bs).
Proof.
  induction bs as [|b r IH]; [cbn; lia|].
  cbn [val_of length]. rewrite Nat2N.inj_succ, N.pow_succ_r'. destruct b; lia.
Qed.

Lemma val_of_inj : forall a b, length a = length b -> val_of a = val_of b -> a = b.
Proof.
  induction a as [|x a IH]; intros [|y b] L E; try discriminate; [reflexivity|].
  cbn [length] in L. injection L as L. cbn [val_of] in E. rewrite <- L in E.
  pose proof (val_of_bound a). pose proof (val_of_bound b) as Hb. rewrite <- L in Hb.
  destruct x, y; try (f_equal; apply IH; [assumption | lia]); lia.
Qed.

Lemma val_of_bits_of w : forall x, val_of (bits_of w x) = x mod 2 ^ N.of_nat w.
Proof.
  induction w as [|w IH]; intros x.
  - cbn. rewrite N.mod_1_r. reflexivity.
  - cbn [bits_of val_of]. rewrite bits_of_length, IH.
    rewrite Nat2N.inj_succ, N.pow_succ_r', (N.mul_comm 2), N.mod_mul_r by (try apply N.pow_nonzero; lia).
    rewrite <- Ntestbit_Nbit. pose proof (N.testbit_spec' x (N.of_nat w)) as T.
    destruct (N.testbit x (N.of_nat w)); cbn [N.b2n] in T; rewrite <- T; lia.
Qed.

Lemma bits_of_val_of bs : bits_of (length bs) (val_of bs) = bs.
Proof.
  apply val_of_inj; [apply bits_of_length|].
  rewrite val_of_bits_of. apply N.mod_small. apply val_of_bound.
Qed.

(** chunking *)
Lemma chunks_concat w (ls : list (list bool)) : (0 < w)%nat -> Forall (fun c => length c = w) ls ->
  forall fuel, (length ls <= fuel)%nat -> chunks fuel w (concat ls) = ls.
Proof.
  intros Hw F. induction F as [|c ls Hc _ IH]; intros fuel Hf.
  - destruct fuel; reflexivity.
  - cbn [length] in Hf. destruct fuel as [|f]; [lia|]. cbn [concat chunks].
    destruct (c ++ concat ls) as [|b0 r] eqn:E.
    { apply (f_equal (@length bool)) in E. rewrite app_length in E. cbn in E. lia. }
    rewrite <- E.
    assert (F1 : firstn w (c ++ concat ls) = c).
    { rewrite firstn_app, Hc, Nat.sub_diag, firstn_all2 by lia. cbn [firstn]. apply app_nil_r. }
    assert (S1 : skipn w (c ++ concat ls) = concat ls).
    { rewrite skipn_app, Hc, Nat.sub_diag, skipn_all2 by lia. reflexivity. }
    rewrite F1, S1, IH by lia. reflexivity.
Qed.

Lemma concat_chunks w : (0 < w)%nat -> forall fuel bs, (length bs <= fuel * w)%nat -> concat (chunks fuel w bs) = bs.
Proof.
  intros Hw. induction fuel as [|f IH]; intros bs Hl.
  - destruct bs; [reflexivity | cbn in Hl; lia].
  - destruct bs as [|b r]; [reflexivity|]. cbn [chunks concat].
    rewrite IH; [apply firstn_skipn|]. rewrite skipn_length. cbn [length] in *. lia.
Qed.

Lemma chunks_lengths w : (0 < w)%nat -> forall fuel bs q, length bs = (q * w)%nat ->
  Forall (fun c => length c = w) (chunks fuel w bs).
Proof.
  intros Hw. induction fuel as [|f IH]; intros bs q Hl; [constructor|].
  destruct bs as [|b r]; [constructor|]. cbn [chunks].
  destruct q as [|q]; [cbn in Hl; lia|].
  constructor.
  - rewrite firstn_length. lia.
  - apply (IH _ q). rewrite skipn_length. lia.
Qed.

Lemma chunks_count w : (0 < w)%nat -> forall fuel bs q, length bs = (q * w)%nat -> (q <= fuel)%nat ->
  length (chunks fuel w bs) = q.
Proof.
  intros Hw. induction fuel as [|f IH]; intros bs q Hl Hq.
  - cbn. lia.
  - destruct bs as [|b r]; [cbn in *; destruct q; [reflexivity | lia]|]. cbn [chunks length].
    destruct q as [|q]; [cbn in Hl; lia|]. f_equal. apply IH; [rewrite skipn_length; lia | lia].
Qed.

Lemma concat_bits_length w (l : list N) : length (concat (map (bits_of w) l)) = (length l * w)%nat.
Proof. induction l as [|x l IH]; [reflexivity|]. cbn [map concat length]. rewrite app_length, bits_of_length, IH. lia. Qed.

Lemma Forall_bits_length w (l : list N) : Forall (fun c => length c = w) (map (bits_of w) l).
Proof. induction l; constructor; [apply bits_of_length | assumption]. Qed.

Lemma map_bits_val w (C : list (list bool)) : Forall (fun c => length c = w) C ->
  map (bits_of w) (map val_of C) = C.
Proof.
  induction 1 as [|c C Hc _ IH]; [reflexivity|]. cbn [map]. rewrite IH. f_equal.
  rewrite <- Hc. apply bits_of_val_of.
Qed.

Lemma map_val_bits w (l : list N) : Forall (fun x => x < 2 ^ N.of_nat w) l -> map val_of (map (bits_of w) l) = l.
Proof.
  induction 1 as [|x l Hx _ IH]; [reflexivity|]. cbn [map]. rewrite IH, val_of_bits_of, N.mod_small by assumption. reflexivity.
Qed.

Lemma is_bytes_Forall b : is_bytes b = true <-> Forall (fun x => x < 256) b.
Proof.
  unfold is_bytes, is_byte. rewrite forallb_forall, Forall_forall. split; intros H x I; specialize (H x I); lia.
Qed.

Lemma existsb_id_repeat n : existsb (fun b : bool => b) (repeat false n) = false.
Proof. induction n; [reflexivity | exact IHn]. Qed.

Lemma all_false_repeat (l : list bool) : existsb (fun b => b) l = false -> l = repeat false (length l).
Proof.
  induction l as [|b l IH]; [reflexivity|]. cbn [existsb length repeat]. destruct b; [discriminate|].
  intros E. rewrite <- IH by exact E. reflexivity.
Qed.

(** the bit string handled by the encoder *)
Definition enc_bits (b : bytes) : list bool := concat (map (bits_of 8) b).
Definition enc_pad (b : bytes) : nat := ((5 - length (enc_bits b) mod 5) mod 5)%nat.

Lemma bytes_to_fes_unfold b :
  bytes_to_fes b = map val_of (chunks (length (enc_bits b)) 5 (enc_bits b ++ repeat false (enc_pad b))).
Proof. reflexivity. Qed.

Lemma enc_chunks b :
  let X := enc_bits b ++ repeat false (enc_pad b) in
  let C := chunks (length (enc_bits b)) 5 X in
  Forall (fun c => length c = 5%nat) C /\ concat C = X /\ length C = ((8 * length b + 4) / 5)%nat.
Proof.
  intros X C.
  assert (LB : length (enc_bits b) = (length b * 8)%nat) by apply concat_bits_length.
  assert (LX : length X = (length (enc_bits b) + enc_pad b)%nat) by (unfold X; rewrite app_length, repeat_length; reflexivity).
  assert (Q : length X = ((8 * length b + 4) / 5 * 5)%nat) by (rewrite LX; unfold enc_pad; rewrite LB; lia).
  split; [|split].
  - apply (chunks_lengths 5 ltac:(lia) _ _ _ Q).
  - apply concat_chunks; [lia|]. rewrite LX. unfold enc_pad. rewrite LB. lia.
  - apply chunks_count; [lia | exact Q | rewrite LB; lia].
Qed.

Theorem bytes_to_fes_length b : length (bytes_to_fes b) = ((8 * length b + 4) / 5)%nat.
Proof. rewrite bytes_to_fes_unfold, map_length. apply enc_chunks. Qed.

Theorem bytes_to_fes_range b : Forall (fun v => v < 32) (bytes_to_fes b).
Proof.
  rewrite bytes_to_fes_unfold. destruct (enc_chunks b) as [F _].
  apply Forall_forall. intros v Hin. apply in_map_iff in Hin as [c [<- Hc]].
  rewrite Forall_forall in F. specialize (F c Hc). pose proof (val_of_bound c) as B. rewrite F in B. exact B.
Qed.

(** decoding what the encoder produced gives the bytes back *)
Theorem regroup_roundtrip b : is_bytes b = true -> fes_to_bytes (bytes_to_fes b) = Some b.
Proof.
  intros Hb. rewrite bytes_to_fes_unfold.
  destruct (enc_chunks b) as [F [CC _]].
  set (X := enc_bits b ++ repeat false (enc_pad b)) in *.
  set (C := chunks (length (enc_bits b)) 5 X) in *.
  unfold fes_to_bytes. cbv zeta.
  rewrite (map_bits_val 5 C F), CC.
  assert (LB : length (enc_bits b) = (length b * 8)%nat) by apply concat_bits_length.
  assert (LP : (enc_pad b < 5)%nat) by (unfold enc_pad; lia).
  assert (LX : length X = (length (enc_bits b) + enc_pad b)%nat) by (unfold X; rewrite app_length, repeat_length; reflexivity).
  assert (N8 : (length X / 8 * 8)%nat = length (enc_bits b)) by (rewrite LX, LB; lia).
  rewrite N8. unfold X at 1 2 3.
  rewrite skipn_app, firstn_app, Nat.sub_diag, skipn_all, firstn_all. cbn [skipn firstn app]. rewrite app_nil_r.
  rewrite repeat_length, existsb_id_repeat.
  destruct (Nat.leb_spec 5 (enc_pad b)); [lia|]. cbn [orb].
  unfold enc_bits at 2. rewrite chunks_concat; [| lia | apply Forall_bits_length | rewrite map_length, LB; lia].
  rewrite (map_val_bits 8); [reflexivity|]. apply is_bytes_Forall. exact Hb.
Qed.

(** accepted => the 5-bit groups are exactly the encoder's groups for the returned bytes *)
Theorem regroup_canonical fes b :
  Forall (fun v => v < 32) fes -> fes_to_bytes fes = Some b ->
  bytes_to_fes b = fes /\ is_bytes b = true.
Proof.
  intros Hf. unfold fes_to_bytes. cbv zeta.
  set (bs := concat (map (bits_of 5) fes)).
  assert (LB : length bs = (length fes * 5)%nat) by apply concat_bits_length.
  set (n := (length bs / 8 * 8)%nat).
  assert (Hn : (n <= length bs)%nat) by (unfold n; lia).
  destruct (Nat.leb_spec 5 (length (skipn n bs))) as [|Lt]; [discriminate|]. cbn [orb].
  destruct (existsb (fun b0 : bool => b0) (skipn n bs)) eqn:Ex; [discriminate|].
  intros Q. injection Q as <-.
  apply all_false_repeat in Ex. rewrite skipn_length in Ex, Lt.
  set (Y := firstn n bs).
  assert (LY : length Y = n) by (unfold Y; apply firstn_length_le; exact Hn).
  assert (Q8 : length Y = (length bs / 8 * 8)%nat) by (rewrite LY; reflexivity).
  pose proof (chunks_lengths 8 ltac:(lia) n Y _ Q8) as F8.
  assert (C8 : concat (chunks n 8 Y) = Y) by (apply concat_chunks; [lia | rewrite LY; lia]).
  split.
  - rewrite bytes_to_fes_unfold. unfold enc_pad, enc_bits.
    rewrite (map_bits_val 8 _ F8), C8, LY.
    assert (P : ((5 - n mod 5) mod 5)%nat = (length bs - n)%nat) by (rewrite LB in *; lia).
    rewrite P, <- Ex. unfold Y. rewrite firstn_skipn.
    unfold bs. rewrite chunks_concat; [| lia | apply Forall_bits_length |].
    + apply (map_val_bits 5). exact Hf.
    + rewrite map_length. fold bs. rewrite LB in *. lia.
  - apply is_bytes_Forall. apply Forall_forall. intros v Hin. apply in_map_iff in Hin as [c [<- Hc]].
    rewrite Forall_forall in F8. specialize (F8 c Hc). pose proof (val_of_bound c) as B. rewrite F8 in B. exact B.
Qed.
