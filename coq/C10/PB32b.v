(** C10 — Bech32 / Bech32m strings: decoding what the encoder wrote returns the prefix and the
    5-bit groups; an accepted lower-case string is exactly the encoder's output for what was
    returned; a string valid for one checksum variant is invalid for the other. *)
From Coq Require Import String.
From V.Lib Require Import Base Hex.
From V.C10 Require Import Model PCs PRegroup PB32a.
From Coq Require Import List Lia ZifyBool ZifyNat.
Local Open Scope N_scope.

Ltac Zify.zify_post_hook ::= Z.div_mod_to_equations.

(** finite facts about the character set, by computation *)
Definition fe_row_ok (v : N) : bool :=
  let c := char_of_fe v in
  negb (c =? 49) && negb (is_upper c) && (c <? 128) && negb (is_ws c) && hrp_char_ok c &&
  match fe_of_char c with Some v' => v' =? v | None => false end.
Definition char_row_ok (c : N) : bool :=
  match fe_of_char c with
  | Some v => (v <? 32) && (is_upper c || (char_of_fe v =? c))
  | None => true
  end.

Lemma in_range (v : N) (n : nat) : v < N.of_nat n -> In v (map N.of_nat (seq 0 n)).
Proof. intros H. apply in_map_iff. exists (N.to_nat v). split; [lia | apply in_seq; lia]. Qed.

Lemma fe_table : forallb fe_row_ok (map N.of_nat (seq 0 32)) = true.
Proof. vm_compute. reflexivity. Qed.
Lemma char_table : forallb char_row_ok (map N.of_nat (seq 0 128)) = true.
Proof. vm_compute. reflexivity. Qed.

Lemma fe_facts v : v < 32 ->
  char_of_fe v <> 49 /\ is_upper (char_of_fe v) = false /\ is_ws (char_of_fe v) = false /\
  hrp_char_ok (char_of_fe v) = true /\ fe_of_char (char_of_fe v) = Some v.
Proof.
  intros Hv. pose proof fe_table as T. rewrite forallb_forall in T. specialize (T v (in_range v 32 Hv)).
  unfold fe_row_ok in T. cbv zeta in T.
  destruct (fe_of_char (char_of_fe v)) as [v'|]; [|rewrite andb_false_r in T; discriminate].
  apply andb_true_iff in T as [T T6]. apply andb_true_iff in T as [T T5]. apply andb_true_iff in T as [T T4].
  apply andb_true_iff in T as [T T3]. apply andb_true_iff in T as [T1 T2].
  apply negb_true_iff in T1, T2, T4. apply N.eqb_neq in T1. apply N.eqb_eq in T6. subst v'.
  repeat split; assumption.
Qed.

Lemma char_facts c v : fe_of_char c = Some v -> v < 32 /\ (is_upper c = false -> char_of_fe v = c).
Proof.
  intros E. assert (Hc : c < 128).
  { unfold fe_of_char in E. destruct (N.leb_spec 128 c); [discriminate | assumption]. }
  pose proof char_table as T. rewrite forallb_forall in T. specialize (T c (in_range c 128 Hc)).
  unfold char_row_ok in T. rewrite E in T. apply andb_true_iff in T as [T1 T2].
  split; [apply N.ltb_lt; exact T1|]. intros U. rewrite U in T2. cbn [orb] in T2. apply N.eqb_eq. exact T2.
Qed.

Lemma map_opt_map {A B} (f : A -> option B) (g : B -> A) l :
  (forall x, In x l -> f (g x) = Some x) -> map_opt f (map g l) = Some l.
Proof.
  induction l as [|x l IH]; intros Hf; [reflexivity|]. cbn [map map_opt].
  rewrite Hf by (left; reflexivity). rewrite IH by (intros; apply Hf; right; assumption). reflexivity.
Qed.

Lemma map_opt_some {A B} (f : A -> option B) : forall l r, map_opt f l = Some r ->
  length r = length l /\ forall a, In a l -> exists b, f a = Some b /\ In b r.
Proof.
  induction l as [|x l IH]; intros r E; cbn in E.
  - injection E as <-. split; [reflexivity | intros a []].
  - destruct (f x) as [y|] eqn:Fx; [|discriminate]. destruct (map_opt f l) as [t|] eqn:M; [|discriminate].
    injection E as <-. destruct (IH t eq_refl) as [L I]. split; [cbn; f_equal; exact L|].
    intros a [->|Ha]; [exists y; split; [assumption | left; reflexivity]|].
    destruct (I a Ha) as [b [Fb Ib]]. exists b. split; [assumption | right; assumption].
Qed.

Lemma map_opt_inv {A B} (f : A -> option B) (g : B -> A) : forall l r,
  map_opt f l = Some r -> (forall a b, In a l -> f a = Some b -> g b = a) -> map g r = l.
Proof.
  induction l as [|x l IH]; intros r E Hg; cbn in E.
  - injection E as <-. reflexivity.
  - destruct (f x) as [y|] eqn:Fx; [|discriminate]. destruct (map_opt f l) as [t|] eqn:M; [|discriminate].
    injection E as <-. cbn [map]. rewrite (Hg x y (or_introl eq_refl) Fx).
    rewrite (IH t eq_refl); [reflexivity|]. intros a b Ia. apply Hg. right. exact Ia.
Qed.

Lemma span_not_sep_app : forall l acc r, ~ In 49 l -> span_not_sep (l ++ 49 :: r) acc = Some (rev l ++ acc, r).
Proof.
  induction l as [|c l IH]; intros acc r Hn; cbn [app span_not_sep rev].
  - reflexivity.
  - destruct (N.eqb_spec c 49) as [->|Nc]; [exfalso; apply Hn; left; reflexivity|].
    rewrite IH by (intro; apply Hn; right; assumption). rewrite <- app_assoc. reflexivity.
Qed.

Lemma span_not_sep_spec : forall l acc d r, span_not_sep l acc = Some (d, r) ->
  exists l1, l = l1 ++ 49 :: r /\ d = rev l1 ++ acc /\ ~ In 49 l1.
Proof.
  induction l as [|c l IH]; intros acc d r E; cbn in E; [discriminate|].
  destruct (N.eqb_spec c 49) as [->|Nc].
  - injection E as <- <-. exists []. repeat split; auto.
  - destruct (IH _ _ _ E) as [l1 [-> [-> Hn]]]. exists (c :: l1). repeat split.
    + cbn [rev]. rewrite <- app_assoc. reflexivity.
    + intros [H|H]; [congruence | exact (Hn H)].
Qed.

Lemma map_opt_fe_range : forall l r, map_opt fe_of_char l = Some r -> Forall (fun b => b < 32) r.
Proof.
  induction l as [|x l IH]; intros r E; cbn in E.
  - injection E as <-. constructor.
  - destruct (fe_of_char x) as [y|] eqn:Fx; [|discriminate]. destruct (map_opt fe_of_char l) as [t|] eqn:M; [|discriminate].
    injection E as <-. constructor; [apply (char_facts x y Fx) | apply IH; reflexivity].
Qed.

(** prefix conditions of the encoder's callers: non-empty, at most 83 characters in 33..126, no
    upper-case letter *)
Definition hrp_okb (hrp : list N) : bool :=
  negb (length hrp =? 0)%nat && (length hrp <=? MAX_HRP_LEN)%nat && forallb hrp_char_ok hrp && negb (existsb is_upper hrp).

Lemma to_lower_id l : existsb is_upper l = false -> map to_lower l = l.
Proof.
  induction l as [|c l IH]; [reflexivity|]. cbn [existsb map]. intros E. apply orb_false_iff in E as [E1 E2].
  unfold to_lower at 1. rewrite E1, IH by exact E2. reflexivity.
Qed.

Lemma hrp_expand_lt hrp : forallb hrp_char_ok hrp = true -> Forall (fun x => x < 32) (hrp_expand hrp).
Proof.
  intros Hc. unfold hrp_expand. rewrite forallb_forall in Hc.
  apply Forall_app. split; [|apply Forall_app; split; [repeat constructor|]];
    apply Forall_forall; intros x Hin; apply in_map_iff in Hin as [c [<- Ic]]; specialize (Hc c Ic);
    unfold hrp_char_ok in Hc.
  - rewrite N.shiftr_div_pow2. change (2 ^ 5) with 32. unfold to_lower, is_upper. destruct ((65 <=? c) && (c <=? 90)) eqn:U; lia.
  - change 31 with (N.ones 5). rewrite N.land_ones. apply N.mod_lt. cbn. lia.
Qed.

Lemma checksum_fes_facts v hrp fes : length (checksum_fes v hrp fes) = 6%nat /\ Forall (fun x => x < 32) (checksum_fes v hrp fes).
Proof.
  unfold checksum_fes. cbv zeta. split; [rewrite map_length; reflexivity|].
  apply Forall_forall. intros x Hin. apply in_map_iff in Hin as [i [<- _]].
  change 31 with (N.ones 5). rewrite N.land_ones. apply N.mod_lt. cbn. lia.
Qed.

Lemma existsb_false_forall {A} (f : A -> bool) l : existsb f l = false <-> forall x, In x l -> f x = false.
Proof.
  induction l as [|a l IH]; cbn [existsb]; [split; [intros _ x [] | reflexivity]|].
  rewrite orb_false_iff, IH. split; [intros [Ha Hl] x [<-|Hx]; auto | intros H; split; [apply H; left; reflexivity | intros x Hx; apply H; right; exact Hx]].
Qed.

(** the shape of the encoder's output *)
Definition b32_string (v : variant) (hrp fes : list N) : list N :=
  hrp ++ 49 :: map char_of_fe (fes ++ checksum_fes v hrp fes).

Lemma b32_encode_shape v cl hrp data s : existsb is_upper hrp = false ->
  b32_encode v cl hrp data = Some s ->
  s = b32_string v hrp (bytes_to_fes data) /\ len s <= cl.
Proof.
  intros U. unfold b32_encode. cbv zeta.
  destruct (N.ltb_spec cl (len hrp + 1 + len (bytes_to_fes data) + 6)) as [|Hl]; [discriminate|].
  intros Q. injection Q as <-. rewrite (to_lower_id _ U). split; [reflexivity|].
  destruct (checksum_fes_facts v hrp (bytes_to_fes data)) as [L6 _].
  unfold b32_string, len in *. rewrite app_length. cbn [app length]. rewrite map_length, app_length, L6. lia.
Qed.

(** decoding a well-formed string *)
Theorem b32_decode_string v cl hrp fes :
  hrp_okb hrp = true -> Forall (fun x => x < 32) fes -> len (b32_string v hrp fes) <= cl ->
  b32_decode v cl (b32_string v hrp fes) = Some (hrp, fes).
Proof.
  intros Hh Hf Hl. unfold hrp_okb in Hh.
  apply andb_true_iff in Hh as [Hh U]. apply andb_true_iff in Hh as [Hh C]. apply andb_true_iff in Hh as [N0 L83].
  apply negb_true_iff in U, N0.
  destruct (checksum_fes_facts v hrp fes) as [L6 F6].
  set (D := fes ++ checksum_fes v hrp fes) in *.
  assert (FD : Forall (fun x => x < 32) D) by (apply Forall_app; split; assumption).
  rewrite Forall_forall in FD.
  unfold b32_decode, b32_string. fold D.
  replace (rev (hrp ++ 49 :: map char_of_fe D)) with (rev (map char_of_fe D) ++ 49 :: rev hrp)
    by (rewrite rev_app_distr; cbn [rev]; rewrite <- app_assoc; reflexivity).
  rewrite span_not_sep_app.
  2:{ intros I. apply in_rev in I. apply in_map_iff in I as [x [E Ix]]. destruct (fe_facts x (FD x Ix)) as [Hn _]. congruence. }
  rewrite !rev_involutive, app_nil_r.
  rewrite map_opt_map by (intros x Ix; apply (fe_facts x (FD x Ix))).
  assert (NU : existsb is_upper (hrp ++ 49 :: map char_of_fe D) = false).
  { rewrite existsb_app, U. cbn [existsb orb]. change (is_upper 49) with false. cbn [orb].
    apply existsb_false_forall. intros c Ic. apply in_map_iff in Ic as [x [<- Ix]]. apply (fe_facts x (FD x Ix)). }
  rewrite NU. cbn [andb].
  rewrite N0, C. cbn [orb negb].
  destruct (Nat.ltb_spec MAX_HRP_LEN (length hrp)) as [|_]; [apply Nat.leb_le in L83; lia|]. cbn [orb].
  assert (CL : (cl <? len (hrp ++ 49 :: map char_of_fe D)) = false) by (apply N.ltb_ge; exact Hl).
  rewrite CL.
  assert (LD : length D = (length fes + 6)%nat) by (unfold D; rewrite app_length, L6; reflexivity).
  destruct (Nat.ltb_spec (length D) 6); [lia|].
  assert (PV : polymod (hrp_expand hrp ++ D) = target v).
  { unfold D. apply checksum_valid. apply Forall_app; split; [apply hrp_expand_lt; exact C | exact Hf]. }
  rewrite PV, N.eqb_refl. f_equal. f_equal.
  rewrite LD. replace (length fes + 6 - 6)%nat with (length fes) by lia.
  unfold D. rewrite firstn_app, Nat.sub_diag, firstn_all. cbn [firstn]. apply app_nil_r.
Qed.

(** [decode (encode hrp data) = Some (hrp, groups of data)] for both checksum variants *)
Theorem b32_decode_encode v cl hrp data s :
  hrp_okb hrp = true -> b32_encode v cl hrp data = Some s ->
  b32_decode v cl s = Some (hrp, bytes_to_fes data).
Proof.
  intros Hh E.
  assert (U : existsb is_upper hrp = false).
  { unfold hrp_okb in Hh. apply andb_true_iff in Hh as [_ U]. apply negb_true_iff in U. exact U. }
  destruct (b32_encode_shape _ _ _ _ _ U E) as [-> Hl].
  apply b32_decode_string; [exact Hh | apply bytes_to_fes_range | exact Hl].
Qed.

(** an accepted string whose prefix has no upper-case letter and at least one lower-case letter
    is the encoder's output for the prefix and groups returned *)
Theorem b32_decode_canonical v cl s hrp fes :
  b32_decode v cl s = Some (hrp, fes) -> existsb is_upper hrp = false -> existsb is_lower hrp = true ->
  s = b32_string v hrp fes /\ Forall (fun x => x < 32) fes /\ len s <= cl /\ hrp_okb hrp = true.
Proof.
  unfold b32_decode. intros E U Lw.
  destruct (span_not_sep (rev s) []) as [[data hrp_rev]|] eqn:Sp; [|discriminate].
  destruct (map_opt fe_of_char data) as [fes'|] eqn:Mo; [|discriminate].
  destruct (existsb is_upper s && existsb is_lower s) eqn:Mx; [discriminate|].
  destruct ((length (rev hrp_rev) =? 0)%nat || (MAX_HRP_LEN <? length (rev hrp_rev))%nat || negb (forallb hrp_char_ok (rev hrp_rev))) eqn:Hc; [discriminate|].
  destruct (N.ltb_spec cl (len s)) as [|Hl]; [discriminate|].
  destruct (Nat.ltb_spec (length fes') 6) as [|L6]; [discriminate|].
  destruct (N.eqb_spec (polymod (hrp_expand (rev hrp_rev) ++ fes')) (target v)) as [P|]; [|discriminate].
  injection E as <- <-.
  set (hrp := rev hrp_rev) in *.
  apply orb_false_iff in Hc as [Hc C]. apply orb_false_iff in Hc as [N0 L83]. apply negb_false_iff in C.
  destruct (span_not_sep_spec _ _ _ _ Sp) as [l1 [Rs [Dd N49]]]. rewrite app_nil_r in Dd.
  assert (Es : s = hrp ++ 49 :: data).
  { rewrite <- (rev_involutive s), Rs, rev_app_distr. cbn [rev]. rewrite <- app_assoc, Dd. reflexivity. }
  (* no upper-case letter anywhere *)
  assert (NU : existsb is_upper s = false).
  { destruct (existsb is_upper s) eqn:X; [|reflexivity]. cbn [andb] in Mx.
    rewrite Es, existsb_app, Lw in Mx. discriminate. }
  assert (NUd : forall c, In c data -> is_upper c = false).
  { rewrite Es, existsb_app in NU. apply orb_false_iff in NU as [_ NU]. cbn [existsb] in NU.
    apply orb_false_iff in NU as [_ NU]. apply existsb_false_forall. exact NU. }
  assert (Md : map char_of_fe fes' = data).
  { apply (map_opt_inv _ _ _ _ Mo). intros a b Ia Fa. apply (char_facts a b Fa). apply NUd. exact Ia. }
  pose proof (map_opt_fe_range _ _ Mo) as F'.
  set (n := (length fes' - 6)%nat).
  assert (Sp' : fes' = firstn n fes' ++ skipn n fes') by (symmetry; apply firstn_skipn).
  assert (Ff : Forall (fun x => x < 32) (firstn n fes')).
  { apply Forall_forall. intros x Ix. rewrite Forall_forall in F'. apply F'. rewrite Sp'. apply in_or_app. left. exact Ix. }
  assert (Fs : Forall (fun x => x < 32) (skipn n fes')).
  { apply Forall_forall. intros x Ix. rewrite Forall_forall in F'. apply F'. rewrite Sp'. apply in_or_app. right. exact Ix. }
  assert (Ck : skipn n fes' = checksum_fes v hrp (firstn n fes')).
  { apply checksum_unique.
    - apply Forall_app. split; [apply hrp_expand_lt; exact C | exact Ff].
    - rewrite skipn_length. unfold n. lia.
    - exact Fs.
    - rewrite <- Sp'. exact P. }
  split; [|split; [exact Ff | split; [exact Hl|]]].
  - unfold b32_string. rewrite <- Ck, <- Sp', Md. exact Es.
  - unfold hrp_okb. rewrite N0, C, U. cbn [negb andb].
    destruct (Nat.ltb_spec MAX_HRP_LEN (length hrp)); [discriminate|].
    match goal with H : (length hrp <= MAX_HRP_LEN)%nat |- _ => apply Nat.leb_le in H; rewrite H end. reflexivity.
Qed.

(** a string valid for one checksum variant is not valid for the other (same payload or not) *)
Theorem b32_variant_distinct v cl cl' s x :
  b32_decode v cl s = Some x -> b32_decode (match v with B32 => B32m | B32m => B32 end) cl' s = None.
Proof.
  unfold b32_decode. intros E.
  destruct (span_not_sep (rev s) []) as [[data hrp_rev]|]; [|reflexivity].
  destruct (map_opt fe_of_char data) as [fes'|]; [|reflexivity].
  destruct (existsb is_upper s && existsb is_lower s); [reflexivity|].
  destruct (_ || _ || _); [reflexivity|].
  destruct (cl <? len s); [discriminate|]. destruct (cl' <? len s); [reflexivity|].
  destruct (length fes' <? 6)%nat; [reflexivity|].
  destruct (N.eqb_spec (polymod (hrp_expand (rev hrp_rev) ++ fes')) (target v)) as [P|]; [|discriminate].
  rewrite P. destruct v; reflexivity.
Qed.

(** the decoder's result does not depend on the code length beyond the length test *)
Lemma b32_decode_code_len v cl cl' s x : b32_decode v cl s = Some x -> len s <= cl' -> b32_decode v cl' s = Some x.
Proof.
  unfold b32_decode. intros E Hl.
  destruct (span_not_sep (rev s) []) as [[data hrp_rev]|]; [|discriminate].
  destruct (map_opt fe_of_char data) as [fes'|]; [|discriminate].
  destruct (existsb is_upper s && existsb is_lower s); [discriminate|].
  destruct (_ || _ || _); [discriminate|].
  destruct (cl <? len s); [discriminate|]. destruct (N.ltb_spec cl' (len s)); [lia|]. exact E.
Qed.
