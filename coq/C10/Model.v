(** C10 — executable model of the address-string code of /repo (as repaired by the `fix:` commit
    on Bech32 padding):

    - [f4jumble] / [f4jumble_inv]      components/f4jumble/src/lib.rs, over arbitrary hash functions
                                       [H] (h_round) and [G] (g_round) — BLAKE2b is not modelled;
    - [cs_read] / [cs_write]           zcash_encoding CompactSize;
    - [parse_items], [check_items], [to_jumbled_bytes], [unified_decode], [unified_encode]
                                       zcash_address/src/kind/unified.rs (+ address/fvk/ivk item tables);
    - [b32_decode] / [b32_encode], [fes_to_bytes] / [bytes_to_fes]
                                       the external bech32 0.11 crate as used by the repo, with the
                                       repo's [checked_payload] padding rule;
    - [sha256], [b58check_decode] / [b58check_encode]   external bs58 0.5 + sha2;
    - [parse_address] / [encode_address]   zcash_address/src/encoding.rs (FromStr / Display).

    Strings are lists of Unicode code points; byte strings are lists of [N] below 256.
    No proofs in this file. *)
From Coq Require Import String.
From V.Lib Require Import Base Hex.
From V.Gen Require Import C10Consts.
From Coq Require Import List.
Local Open Scope N_scope.

Definition len (b : list N) : N := N.of_nat (length b).

(* ------------------------------------------------------------------------------------------ *)
(** * F4Jumble *)

(** [xor(target, source)]: the first [min |target| |source|] bytes of the target are XORed. *)
Fixpoint xor_bytes (t s : bytes) : bytes :=
  match t, s with
  | x :: t', y :: s' => N.lxor x y :: xor_bytes t' s'
  | _, _ => t
  end.

Definition OUTBYTES : nat := 64.

Inductive f4err := InvalidLength.

Definition f4_valid_len (n : nat) : bool := (F4_MIN <=? N.of_nat n) && (N.of_nat n <=? F4_MAX).

Section F4.
  (** [H i l x]: BLAKE2b-l with personalisation "UA_F4Jumble_H" i 0 0 of x;
      [G i j x]: BLAKE2b-64 with personalisation "UA_F4Jumble_G" i (j as u16 LE) of x. *)
  Variable H : N -> nat -> bytes -> bytes.
  Variable G : N -> N -> bytes -> bytes.

  Definition left_len (n : nat) : nat := Nat.min OUTBYTES (n / 2).

  Definition h_round (i : N) (st : bytes * bytes) : bytes * bytes :=
    let (l, r) := st in (xor_bytes l (H i (length l) r), r).

  (** chunk [j] of the right half is XORed with [G i j left]; [fuel] bounds the number of chunks *)
  Fixpoint g_xor (fuel : nat) (i j : N) (l r : bytes) : bytes :=
    match fuel with
    | O => r
    | S f =>
        match r with
        | [] => []
        | _ => xor_bytes (firstn OUTBYTES r) (G i j l) ++ g_xor f i (N.succ j) l (skipn OUTBYTES r)
        end
    end.

  Definition g_round (i : N) (st : bytes * bytes) : bytes * bytes :=
    let (l, r) := st in (l, g_xor (length r) i 0 l r).

  Definition f4_split (m : bytes) : bytes * bytes :=
    let n := left_len (length m) in (firstn n m, skipn n m).
  Definition f4_join (st : bytes * bytes) : bytes := fst st ++ snd st.

  Definition apply_f4jumble (st : bytes * bytes) := h_round 1 (g_round 1 (h_round 0 (g_round 0 st))).
  Definition apply_f4jumble_inv (st : bytes * bytes) := g_round 0 (h_round 0 (g_round 1 (h_round 1 st))).

  Definition f4jumble (m : bytes) : outcome bytes f4err :=
    if f4_valid_len (length m) then Ok (f4_join (apply_f4jumble (f4_split m))) else Err InvalidLength.
  Definition f4jumble_inv (m : bytes) : outcome bytes f4err :=
    if f4_valid_len (length m) then Ok (f4_join (apply_f4jumble_inv (f4_split m))) else Err InvalidLength.
End F4.

(* ------------------------------------------------------------------------------------------ *)
(** * CompactSize *)

Inductive cserr := CsEof | CsNonCanonical | CsTooLarge.

Fixpoint le_val (b : bytes) : N :=
  match b with
  | [] => 0
  | x :: r => x + 256 * le_val r
  end.
Fixpoint le_n (k : nat) (x : N) : bytes :=
  match k with
  | O => []
  | S k' => x mod 256 :: le_n k' (x / 256)
  end.

Definition take (n : nat) (b : bytes) : option (bytes * bytes) :=
  if (length b <? n)%nat then None else Some (firstn n b, skipn n b).

Definition cs_fin (n : N) (r : bytes) : outcome (N * bytes) cserr :=
  if MAX_COMPACT_SIZE <? n then Err CsTooLarge else Ok (n, r).

Definition cs_wide (k : nat) (lo : N) (r : bytes) : outcome (N * bytes) cserr :=
  match take k r with
  | None => Err CsEof
  | Some (x, r') => let n := le_val x in if n <? lo then Err CsNonCanonical else cs_fin n r'
  end.

(** [CompactSize::read]: value and remaining input *)
Definition cs_read (b : bytes) : outcome (N * bytes) cserr :=
  match b with
  | [] => Err CsEof
  | flag :: r =>
      if flag <? 253 then cs_fin flag r
      else if flag =? 253 then cs_wide 2 253 r
      else if flag =? 254 then cs_wide 4 65536 r
      else cs_wide 8 4294967296 r
  end.

(** [CompactSize::write] of zcash_encoding 0.4 (no upper bound), the release linked by zcash_address *)
Definition cs_write (n : N) : bytes :=
  if n <? 253 then [n]
  else if n <=? 65535 then 253 :: le_n 2 n
  else if n <=? 4294967295 then 254 :: le_n 4 n
  else 255 :: le_n 8 n.

(** in-tree zcash_encoding 0.5: [write] refuses values above MAX_COMPACT_SIZE *)
Definition cs_write_checked (n : N) : outcome bytes unit :=
  if MAX_COMPACT_SIZE <? n then Err tt else Ok (cs_write n).

(* ------------------------------------------------------------------------------------------ *)
(** * ZIP 316 containers *)

Inductive ckind := KAddr | KFvk | KIvk.
Definition item := (N * bytes)%type.

Inductive uerr :=
| EBoth | EDup (tc : N) | EInvTc (v : N) | EInvEnc | EOrder | EOnlyT | ENotUnified | EUnkPrefix (hrp : list N).

(** [None]: this typecode cannot occur in the container kind; [Some None]: unknown item, any
    length; [Some (Some n)]: known item of exactly n bytes *)
Definition item_len (k : ckind) (tc : N) : option (option N) :=
  if tc =? TC_P2PKH then Some (Some match k with KAddr => LEN_RCV_P2PKH | KFvk => LEN_FVK_P2PKH | KIvk => LEN_IVK_P2PKH end)
  else if tc =? TC_P2SH then match k with KAddr => Some (Some LEN_RCV_P2SH) | _ => None end
  else if tc =? TC_SAPLING then Some (Some match k with KAddr => LEN_RCV_SAPLING | KFvk => LEN_FVK_SAPLING | KIvk => LEN_IVK_SAPLING end)
  else if tc =? TC_ORCHARD then Some (Some match k with KAddr => LEN_RCV_ORCHARD | KFvk => LEN_FVK_ORCHARD | KIvk => LEN_IVK_ORCHARD end)
  else Some None.

(** [TryFrom<(u32, &[u8])>] for Receiver / Fvk / Ivk *)
Definition item_try_from (k : ckind) (tc : N) (data : bytes) : outcome item uerr :=
  if TC_UNKNOWN_MAX <? tc then Err (EInvTc tc)
  else match item_len k tc with
       | None => Err EInvEnc
       | Some None => Ok (tc, data)
       | Some (Some n) => if len data =? n then Ok (tc, data) else Err EInvEnc
       end.

Definition U32_MAX : N := 4294967295.

Definition read_receiver (k : ckind) (rest : bytes) : outcome (item * bytes) uerr :=
  match cs_read rest with
  | Err _ => Err EInvEnc
  | Panic => Panic
  | Ok (tc, r1) =>
      if U32_MAX <? tc then Panic   (* u32::try_from(v).expect(..) *)
      else match cs_read r1 with
           | Err _ => Err EInvEnc
           | Panic => Panic
           | Ok (l, r2) =>
               if len r2 <? l then Err EInvEnc
               else match item_try_from k tc (firstn (N.to_nat l) r2) with
                    | Ok it => Ok (it, skipn (N.to_nat l) r2)
                    | Err e => Err e
                    | Panic => Panic
                    end
           end
  end.

(** the [while cursor.position() < len] loop; running out of [fuel] would be a model failure
    and is reported as [Panic] ([parse_loop_total] shows it never happens with fuel = length) *)
Fixpoint parse_loop (fuel : nat) (k : ckind) (rest : bytes) : outcome (list item) uerr :=
  match rest with
  | [] => Ok []
  | _ =>
      match fuel with
      | O => Panic
      | S f =>
          match read_receiver k rest with
          | Ok (it, rest') =>
              match parse_loop f k rest' with
              | Ok l => Ok (it :: l)
              | e => e
              end
          | Err e => Err e
          | Panic => Panic
          end
      end
  end.

Definition is_transparent (tc : N) : bool := (tc =? TC_P2PKH) || (tc =? TC_P2SH).

(** [try_from_items_internal] *)
Fixpoint check_go (prev : option N) (only_t : bool) (items : list item) : outcome unit uerr :=
  match items with
  | [] => if only_t then Err EOnlyT else Ok tt
  | (t, _) :: r =>
      match prev with
      | None => check_go (Some t) (only_t && is_transparent t) r
      | Some p =>
          if t <? p then Err EOrder
          else if t =? p then Err (EDup t)
          else if (t =? TC_P2SH) && (p =? TC_P2PKH) then Err EBoth
          else check_go (Some t) (only_t && is_transparent t) r
      end
  end.
Definition check_items (items : list item) : outcome unit uerr := check_go None true items.

Definition padding (hrp : bytes) : bytes := hrp ++ repeat 0 (N.to_nat PADDING_LEN - length hrp).

Definition write_item (it : item) : bytes := cs_write (fst it) ++ cs_write (len (snd it)) ++ snd it.
Definition raw_encoding (items : list item) : bytes := concat (map write_item items).

(** [Encoding::try_from_items]: stable insertion sort by (typecode, data) then the checks.
    (sort_unstable_by on keys that may be equal: equal elements are indistinguishable.) *)
Fixpoint bytes_ltb (a b : bytes) : bool :=
  match a, b with
  | [], [] => false
  | [], _ => true
  | _, [] => false
  | x :: a', y :: b' => if x <? y then true else if y <? x then false else bytes_ltb a' b'
  end.
Definition item_leb (a b : item) : bool :=
  if fst a <? fst b then true else if fst b <? fst a then false else negb (bytes_ltb (snd b) (snd a)).
Fixpoint insert_item (x : item) (l : list item) : list item :=
  match l with
  | [] => [x]
  | y :: r => if item_leb x y then x :: l else y :: insert_item x r
  end.
Definition sort_items (l : list item) : list item := fold_right insert_item [] l.

Definition try_from_items (items : list item) : outcome (list item) uerr :=
  let s := sort_items items in
  match check_items s with Ok _ => Ok s | Err e => Err e | Panic => Panic end.

Section Container.
  Variable H : N -> nat -> bytes -> bytes.
  Variable G : N -> N -> bytes -> bytes.

  Definition parse_items (k : ckind) (hrp buf : bytes) : outcome (list item) uerr :=
    match f4jumble_inv H G buf with
    | Err _ => Err EInvEnc
    | Panic => Panic
    | Ok enc =>
        if (N.to_nat PADDING_LEN <? length hrp)%nat then Err EInvEnc
        else if (length enc <? N.to_nat PADDING_LEN)%nat then Panic   (* split_at(len - 16) *)
        else let n := (length enc - N.to_nat PADDING_LEN)%nat in
             if bytes_eqb (skipn n enc) (padding hrp) then parse_loop n k (firstn n enc)
             else Err EInvEnc
    end.

  Definition parse_internal (k : ckind) (hrp buf : bytes) : outcome (list item) uerr :=
    match parse_items k hrp buf with
    | Ok items => match check_items items with Ok _ => Ok items | Err e => Err e | Panic => Panic end
    | e => e
    end.

  Definition to_jumbled_bytes (hrp : bytes) (items : list item) : outcome bytes unit :=
    if (N.to_nat PADDING_LEN <? length hrp)%nat then Panic   (* assert!(hrp.len() <= PADDING_LEN) *)
    else match f4jumble H G (raw_encoding items ++ padding hrp) with
         | Ok b => Ok b
         | _ => Panic                                          (* unwrap_or_else(|e| panic!(..)) *)
         end.
End Container.

(* ------------------------------------------------------------------------------------------ *)
(** * Bech32 / Bech32m (external crate bech32 0.11 as used by the repo) *)

Definition charset : list N := str "qpzry9x8gf2tvdw0s3jn54khce6mua7l"%string.

Definition is_upper (c : N) : bool := (65 <=? c) && (c <=? 90).
Definition is_lower (c : N) : bool := (97 <=? c) && (c <=? 122).
Definition to_lower (c : N) : N := if is_upper c then c + 32 else c.

Fixpoint index_of (c : N) (l : list N) (i : N) : option N :=
  match l with
  | [] => None
  | x :: r => if x =? c then Some i else index_of c r (N.succ i)
  end.
Definition fe_of_char (c : N) : option N := if 128 <=? c then None else index_of (to_lower c) charset 0.
Definition char_of_fe (v : N) : N := nth (N.to_nat v) charset 0.

Fixpoint map_opt {A B} (f : A -> option B) (l : list A) : option (list B) :=
  match l with
  | [] => Some []
  | x :: r => match f x, map_opt f r with Some y, Some t => Some (y :: t) | _, _ => None end
  end.

Definition GEN : list N := [996825010; 642813549; 513874426; 1027748829; 705979059].

Fixpoint gen_xor (b : N) (i : nat) (g : list N) (acc : N) : N :=
  match g with
  | [] => acc
  | x :: r => gen_xor b (S i) r (if N.testbit_nat b i then N.lxor acc x else acc)
  end.
Definition polymod_step (chk v : N) : N :=
  let b := N.shiftr chk 25 in
  gen_xor b 0 GEN (N.lxor (N.shiftl (N.land chk 33554431) 5) v).
Definition polymod (vs : list N) : N := fold_left polymod_step vs 1.

Definition hrp_expand (hrp : list N) : list N :=
  map (fun c => N.shiftr (to_lower c) 5) hrp ++ [0] ++ map (fun c => N.land (to_lower c) 31) hrp.

Inductive variant := B32 | B32m.
Definition target (v : variant) : N := match v with B32 => 1 | B32m => 734539939 end.

(** position of the last separator: (hrp, data part) *)
Fixpoint span_not_sep (l acc : list N) : option (list N * list N) :=
  match l with
  | [] => None
  | c :: r => if c =? 49 then Some (acc, r) else span_not_sep r (c :: acc)
  end.
(** applied to the reversed string: returns (data part in order, reversed hrp) *)

Definition MAX_HRP_LEN : nat := 83.

Definition hrp_char_ok (c : N) : bool := (33 <=? c) && (c <=? 126).

(** [CheckedHrpstring::new::<Ck>(s)] with Ck's CODE_LENGTH [code_len]: the HRP as written and the
    data part (5-bit values) without the checksum *)
Definition b32_decode (v : variant) (code_len : N) (s : list N) : option (list N * list N) :=
  match span_not_sep (rev s) [] with
  | None => None                                        (* MissingSeparator *)
  | Some (data, hrp_rev) =>
      let hrp := rev hrp_rev in
      match map_opt fe_of_char data with
      | None => None                                    (* InvalidChar *)
      | Some fes =>
          if existsb is_upper s && existsb is_lower s then None       (* MixedCase *)
          else if (length hrp =? 0)%nat || (MAX_HRP_LEN <? length hrp)%nat || negb (forallb hrp_char_ok hrp) then None
          else if code_len <? len s then None           (* CodeLength *)
          else if (length fes <? 6)%nat then None       (* InvalidLength *)
          else if polymod (hrp_expand hrp ++ fes) =? target v
               then Some (hrp, firstn (length fes - 6) fes)
               else None
      end
  end.

(** 5-bit <-> 8-bit regrouping through bit lists (most significant bit first) *)
Fixpoint bits_of (w : nat) (x : N) : list bool :=
  match w with
  | O => []
  | S w' => N.testbit_nat x w' :: bits_of w' x
  end.
Fixpoint val_of (bs : list bool) : N :=
  match bs with
  | [] => 0
  | b :: r => (if b then 2 ^ N.of_nat (length r) else 0) + val_of r
  end.
Fixpoint chunks (fuel w : nat) (bs : list bool) : list (list bool) :=
  match fuel with
  | O => []
  | S f => match bs with [] => [] | _ => firstn w bs :: chunks f w (skipn w bs) end
  end.

Definition bytes_to_fes (b : bytes) : list N :=
  let bs := concat (map (bits_of 8) b) in
  let pad := ((5 - length bs mod 5) mod 5)%nat in
  map val_of (chunks (length bs) 5 (bs ++ repeat false pad)).

(** [checked_payload] (after the fix): the incomplete final group must be shorter than 5 bits
    and zero *)
Definition fes_to_bytes (fes : list N) : option bytes :=
  let bs := concat (map (bits_of 5) fes) in
  let n := (length bs / 8 * 8)%nat in
  let tail := skipn n bs in
  if (5 <=? length tail)%nat || existsb (fun b => b) tail then None
  else Some (map val_of (chunks n 8 (firstn n bs))).

Definition checksum_fes (v : variant) (hrp : list N) (fes : list N) : list N :=
  let p := N.lxor (polymod (hrp_expand hrp ++ fes ++ [0; 0; 0; 0; 0; 0])) (target v) in
  map (fun i => N.land (N.shiftr p (5 * (5 - N.of_nat i))) 31) (seq 0 6).

(** [bech32::encode::<Ck>(hrp, data)] (lower case); [None] = EncodeError::TooLong *)
Definition b32_encode (v : variant) (code_len : N) (hrp : list N) (data : bytes) : option (list N) :=
  let fes := bytes_to_fes data in
  if code_len <? len hrp + 1 + len fes + 6 then None
  else Some (map to_lower hrp ++ [49] ++ map char_of_fe (fes ++ checksum_fes v hrp fes)).

(* ------------------------------------------------------------------------------------------ *)
(** * SHA-256 and Base58Check (external crates sha2 / bs58 0.5) *)

Definition M32 : N := 4294967295.
Definition add32 (a b : N) : N := N.land (a + b) M32.
Definition rotr (n x : N) : N := N.lor (N.shiftr x n) (N.land (N.shiftl x (32 - n)) M32).
Definition not32 (x : N) : N := N.lxor x M32.

Definition K256 : list N :=
  [0x428a2f98; 0x71374491; 0xb5c0fbcf; 0xe9b5dba5; 0x3956c25b; 0x59f111f1; 0x923f82a4; 0xab1c5ed5;
   0xd807aa98; 0x12835b01; 0x243185be; 0x550c7dc3; 0x72be5d74; 0x80deb1fe; 0x9bdc06a7; 0xc19bf174;
   0xe49b69c1; 0xefbe4786; 0x0fc19dc6; 0x240ca1cc; 0x2de92c6f; 0x4a7484aa; 0x5cb0a9dc; 0x76f988da;
   0x983e5152; 0xa831c66d; 0xb00327c8; 0xbf597fc7; 0xc6e00bf3; 0xd5a79147; 0x06ca6351; 0x14292967;
   0x27b70a85; 0x2e1b2138; 0x4d2c6dfc; 0x53380d13; 0x650a7354; 0x766a0abb; 0x81c2c92e; 0x92722c85;
   0xa2bfe8a1; 0xa81a664b; 0xc24b8b70; 0xc76c51a3; 0xd192e819; 0xd6990624; 0xf40e3585; 0x106aa070;
   0x19a4c116; 0x1e376c08; 0x2748774c; 0x34b0bcb5; 0x391c0cb3; 0x4ed8aa4a; 0x5b9cca4f; 0x682e6ff3;
   0x748f82ee; 0x78a5636f; 0x84c87814; 0x8cc70208; 0x90befffa; 0xa4506ceb; 0xbef9a3f7; 0xc67178f2].
Definition IV256 : list N :=
  [0x6a09e667; 0xbb67ae85; 0x3c6ef372; 0xa54ff53a; 0x510e527f; 0x9b05688c; 0x1f83d9ab; 0x5be0cd19].

Fixpoint be_val (b : bytes) (acc : N) : N :=
  match b with
  | [] => acc
  | x :: r => be_val r (acc * 256 + x)
  end.
Definition be_n (k : nat) (x : N) : bytes := rev (le_n k x).

Fixpoint words (fuel : nat) (b : bytes) : list N :=
  match fuel with
  | O => []
  | S f => match b with [] => [] | _ => be_val (firstn 4 b) 0 :: words f (skipn 4 b) end
  end.

Definition ssig0 x := N.lxor (N.lxor (rotr 7 x) (rotr 18 x)) (N.shiftr x 3).
Definition ssig1 x := N.lxor (N.lxor (rotr 17 x) (rotr 19 x)) (N.shiftr x 10).
Definition bsig0 x := N.lxor (N.lxor (rotr 2 x) (rotr 13 x)) (rotr 22 x).
Definition bsig1 x := N.lxor (N.lxor (rotr 6 x) (rotr 11 x)) (rotr 25 x).
Definition ch x y z := N.lxor (N.land x y) (N.land (not32 x) z).
Definition maj x y z := N.lxor (N.lxor (N.land x y) (N.land x z)) (N.land y z).

(** message schedule: [w] holds the words so far in reverse order *)
Fixpoint schedule (n : nat) (w : list N) : list N :=
  match n with
  | O => rev w
  | S n' =>
      let x := add32 (add32 (ssig1 (nth 1 w 0)) (nth 6 w 0)) (add32 (ssig0 (nth 14 w 0)) (nth 15 w 0)) in
      schedule n' (x :: w)
  end.

Definition sha_round (st : list N) (kw : N * N) : list N :=
  match st with
  | [a; b; c; d; e; f; g; h] =>
      let t1 := add32 (add32 (add32 h (bsig1 e)) (add32 (ch e f g) (fst kw))) (snd kw) in
      let t2 := add32 (bsig0 a) (maj a b c) in
      [add32 t1 t2; a; b; c; add32 d t1; e; f; g]
  | _ => st
  end.

Fixpoint zip {A B} (a : list A) (b : list B) : list (A * B) :=
  match a, b with
  | x :: a', y :: b' => (x, y) :: zip a' b'
  | _, _ => []
  end.

Definition compress (st : list N) (block : bytes) : list N :=
  let w := schedule 48 (rev (words 16 block)) in
  map (fun p => add32 (fst p) (snd p)) (zip st (fold_left sha_round (zip K256 w) st)).

Fixpoint blocks (fuel : nat) (b : bytes) : list bytes :=
  match fuel with
  | O => []
  | S f => match b with [] => [] | _ => firstn 64 b :: blocks f (skipn 64 b) end
  end.

Definition sha_pad (m : bytes) : bytes :=
  let l := length m in
  let z := ((64 - (l + 9) mod 64) mod 64)%nat in
  m ++ [128] ++ repeat 0 z ++ be_n 8 (8 * N.of_nat l).

Definition sha256 (m : bytes) : bytes :=
  let p := sha_pad m in
  concat (map (be_n 4) (fold_left compress (blocks (length p) p) IV256)).

Definition b58_alphabet : list N := str "123456789ABCDEFGHJKLMNPQRSTUVWXYZabcdefghijkmnopqrstuvwxyz"%string.

Fixpoint b58_value (ds : list N) (acc : N) : N :=
  match ds with
  | [] => acc
  | d :: r => b58_value r (acc * 58 + d)
  end.
Fixpoint count_leading (z : N) (l : list N) : nat :=
  match l with
  | x :: r => if x =? z then S (count_leading z r) else O
  | [] => O
  end.
(** minimal big-endian bytes of a number (0 has no bytes); [fuel] ≥ number of bytes *)
Fixpoint be_min (fuel : nat) (x : N) (acc : bytes) : bytes :=
  match fuel with
  | O => acc
  | S f => if x =? 0 then acc else be_min f (x / 256) (x mod 256 :: acc)
  end.

Definition b58_decode (s : list N) : option bytes :=
  match map_opt (fun c => if 128 <=? c then None else index_of c b58_alphabet 0) s with
  | None => None
  | Some ds => Some (repeat 0 (count_leading 0 ds) ++ be_min (length s) (b58_value ds 0) [])
  end.

Fixpoint b58_digits (fuel : nat) (x : N) (acc : list N) : list N :=
  match fuel with
  | O => acc
  | S f => if x =? 0 then acc else b58_digits f (x / 58) (x mod 58 :: acc)
  end.
Definition b58_encode (b : bytes) : list N :=
  map (fun d => nth (N.to_nat d) b58_alphabet 0)
      (repeat 0 (count_leading 0 b) ++ b58_digits (2 * length b) (be_val b 0) []).

Definition sha256d (b : bytes) : bytes := sha256 (sha256 b).

(** [bs58::decode(s).with_check(None).into_vec()] *)
Definition b58check_decode (s : list N) : option bytes :=
  match b58_decode s with
  | None => None
  | Some b =>
      if (length b <? 4)%nat then None
      else let n := (length b - 4)%nat in
           if bytes_eqb (firstn 4 (sha256d (firstn n b))) (skipn n b) then Some (firstn n b) else None
  end.
Definition b58check_encode (b : bytes) : list N := b58_encode (b ++ firstn 4 (sha256d b)).

(* ------------------------------------------------------------------------------------------ *)
(** * Top level: ZcashAddress FromStr / Display *)

Inductive net := Main | Test | Regtest.
Inductive akind := Sprout | Sapling | P2pkh | P2sh | Tex.
Inductive addr :=
| ARaw (n : net) (k : akind) (d : bytes)
| AUni (n : net) (items : list item).

Inductive perr := PInvEnc | PNotZcash | PUnified (e : uerr).

Definition hrp_sapling (n : net) := match n with Main => hrp_sapling_main | Test => hrp_sapling_test | Regtest => hrp_sapling_regtest end.
Definition hrp_tex (n : net) := match n with Main => hrp_tex_main | Test => hrp_tex_test | Regtest => hrp_tex_regtest end.
Definition hrp_unified (k : ckind) (n : net) : list N :=
  match k, n with
  | KAddr, Main => hrp_ua_main | KAddr, Test => hrp_ua_test | KAddr, Regtest => hrp_ua_regtest
  | KFvk, Main => hrp_ufvk_main | KFvk, Test => hrp_ufvk_test | KFvk, Regtest => hrp_ufvk_regtest
  | KIvk, Main => hrp_uivk_main | KIvk, Test => hrp_uivk_test | KIvk, Regtest => hrp_uivk_regtest
  end.
Definition b58_prefix (k : akind) (n : net) : list N :=
  match k, n with
  | Sprout, Main => b58_sprout_main | Sprout, Test => b58_sprout_test | Sprout, Regtest => b58_sprout_regtest
  | P2pkh, Main => b58_pubkey_main | P2pkh, Test => b58_pubkey_test | P2pkh, Regtest => b58_pubkey_regtest
  | P2sh, Main => b58_script_main | P2sh, Test => b58_script_test | P2sh, Regtest => b58_script_regtest
  | _, _ => []
  end.

Definition str_eqb := bytes_eqb.

(** [hrp_network]: first match in the order main, test, regtest *)
Definition net_of_hrp (f : net -> list N) (hrp : list N) : option net :=
  if str_eqb hrp (f Main) then Some Main
  else if str_eqb hrp (f Test) then Some Test
  else if str_eqb hrp (f Regtest) then Some Regtest
  else None.

(** [char::is_whitespace] (Unicode White_Space) *)
Definition is_ws (c : N) : bool :=
  ((9 <=? c) && (c <=? 13)) || (c =? 32) || (c =? 133) || (c =? 160) || (c =? 5760)
  || ((8192 <=? c) && (c <=? 8202)) || (c =? 8232) || (c =? 8233) || (c =? 8239) || (c =? 8287) || (c =? 12288).
Fixpoint drop_ws (s : list N) : list N :=
  match s with
  | c :: r => if is_ws c then drop_ws r else s
  | [] => []
  end.
Definition trim (s : list N) : list N := rev (drop_ws (rev (drop_ws s))).

Definition BECH32_CODE_LENGTH : N := 1023.

Definition fixed (n : N) (d : bytes) : option bytes := if len d =? n then Some d else None.

Section Top.
  Variable H : N -> nat -> bytes -> bytes.
  Variable G : N -> N -> bytes -> bytes.

  (** [unified::Encoding::decode] *)
  Definition unified_decode (k : ckind) (s : list N) : outcome (net * list item) uerr :=
    match b32_decode B32m ZIP316_CODE_LENGTH s with
    | None => Err ENotUnified
    | Some (hrp, fes) =>
        match net_of_hrp (hrp_unified k) hrp with
        | None => Err (EUnkPrefix hrp)
        | Some n =>
            match fes_to_bytes fes with
            | None => Err EInvEnc
            | Some data =>
                match parse_internal H G k hrp data with
                | Ok items => Ok (n, items)
                | Err e => Err e
                | Panic => Panic
                end
            end
        end
    end.

  (** [unified::Encoding::encode] *)
  Definition unified_encode (k : ckind) (n : net) (items : list item) : outcome (list N) unit :=
    let hrp := hrp_unified k n in
    match to_jumbled_bytes H G hrp items with
    | Ok b => match b32_encode B32m ZIP316_CODE_LENGTH hrp b with
              | Some s => Ok s
              | None => Panic     (* .expect("F4Jumble ensures length is short enough by construction") *)
              end
    | _ => Panic
    end.

  Definition from_unified_err (e : uerr) : perr :=
    match e with
    | EInvEnc => PInvEnc
    | EUnkPrefix _ => PNotZcash
    | _ => PUnified e
    end.

  Definition parse_b58 (s : list N) : outcome addr perr :=
    match b58check_decode s with
    | Some dec =>
        if (length dec <? 2)%nat then Err PNotZcash
        else
          let p := firstn 2 dec in
          let body := skipn 2 dec in
          let mk n k l := match fixed l body with Some d => Ok (ARaw n k d) | None => Err PInvEnc end in
          if str_eqb p b58_pubkey_main then mk Main P2pkh 20
          else if str_eqb p b58_script_main then mk Main P2sh 20
          else if str_eqb p b58_sprout_main then mk Main Sprout 64
          else if str_eqb p b58_pubkey_test then mk Test P2pkh 20
          else if str_eqb p b58_script_test then mk Test P2sh 20
          else if str_eqb p b58_sprout_test then mk Test Sprout 64
          else Err PNotZcash
    | None => Err PNotZcash
    end.

  (** [FromStr for ZcashAddress] *)
  Definition parse_address (s0 : list N) : outcome addr perr :=
    let s := trim s0 in
    let fallthrough :=
      match b32_decode B32 BECH32_CODE_LENGTH s with
      | Some (hrp, fes) =>
          match net_of_hrp hrp_sapling hrp with
          | None => Err PNotZcash
          | Some n =>
              match fes_to_bytes fes with
              | None => Err PInvEnc
              | Some data => match fixed 43 data with Some d => Ok (ARaw n Sapling d) | None => Err PInvEnc end
              end
          end
      | None =>
          match b32_decode B32m BECH32_CODE_LENGTH s with
          | Some (hrp, fes) =>
              match net_of_hrp hrp_tex hrp with
              | None => Err PNotZcash
              | Some n =>
                  match fes_to_bytes fes with
                  | None => Err PInvEnc
                  | Some data => match fixed 20 data with Some d => Ok (ARaw n Tex d) | None => Err PInvEnc end
                  end
              end
          | None => parse_b58 s
          end
      end in
    match unified_decode KAddr s with
    | Ok (n, items) => Ok (AUni n items)
    | Err ENotUnified | Err (EUnkPrefix _) => fallthrough
    | Err e => Err (from_unified_err e)
    | Panic => Panic
    end.

  Definition expect {A} (o : option A) : outcome A unit := match o with Some x => Ok x | None => Panic end.

  (** [Display for ZcashAddress] *)
  Definition encode_address (a : addr) : outcome (list N) unit :=
    match a with
    | AUni n items => unified_encode KAddr n items
    | ARaw n Sapling d => expect (b32_encode B32 BECH32_CODE_LENGTH (hrp_sapling n) d)
    | ARaw n Tex d => expect (b32_encode B32m BECH32_CODE_LENGTH (hrp_tex n) d)
    | ARaw n k d => Ok (b58check_encode (b58_prefix k n ++ d))
    end.
End Top.

(** [ToAddress for ZcashAddress] constructors: regtest shares the testnet Base58 prefixes *)
Definition norm_net (k : akind) (n : net) : net :=
  match k, n with
  | (Sprout | P2pkh | P2sh), Regtest => Test
  | _, _ => n
  end.
Definition from_raw (n : net) (k : akind) (d : bytes) : addr := ARaw (norm_net k n) k d.

(** [ZcashAddress::convert_if_network(expected)]: the (network, kind, data) handed to the
    [TryFromAddress] converter, or [ConversionError::IncorrectNetwork { expected, actual }].
    Only Sprout / P2PKH / P2SH (whose Base58 prefixes testnet and regtest share) are accepted when a
    testnet address is converted for regtest. *)
Definition net_eq (a b : net) : bool :=
  match a, b with Main, Main | Test, Test | Regtest, Regtest => true | _, _ => false end.
Definition addr_net (a : addr) : net := match a with ARaw n _ _ => n | AUni n _ => n end.
Definition convert_if_network (a : addr) (expected : net) : outcome addr (net * net) :=
  let actual := addr_net a in
  let network_matches := net_eq actual expected in
  let regtest_exception := network_matches || (net_eq actual Test && net_eq expected Regtest) in
  let bad := Err (expected, actual) in
  match a with
  | ARaw _ Sprout d => if regtest_exception then Ok (ARaw expected Sprout d) else bad
  | ARaw _ Sapling d => if network_matches then Ok (ARaw expected Sapling d) else bad
  | AUni _ items => if network_matches then Ok (AUni expected items) else bad
  | ARaw _ P2pkh d => if regtest_exception then Ok (ARaw expected P2pkh d) else bad
  | ARaw _ P2sh d => if regtest_exception then Ok (ARaw expected P2sh d) else bad
  | ARaw _ Tex d => if network_matches then Ok (ARaw expected Tex d) else bad
  end.

(* ------------------------------------------------------------------------------------------ *)
(** * zcash_keys::encoding: Sapling payment addresses through the shared helper [bech32_decode]
      (Bech32, prefix compared as written — case sensitive —, regrouping with the BIP 173 padding
      rule, as repaired by the second `fix:` commit) and [bech32_encode]. Whether 43 bytes are a
      valid payment address is external cryptography: the oracle [valid]. *)
Inductive kerr := KBech32 | KHrpMismatch | KRead.

Definition keys_decode_payment_address (valid : bytes -> bool) (hrp s : list N) : outcome bytes kerr :=
  match b32_decode B32 BECH32_CODE_LENGTH s with
  | None => Err KBech32
  | Some (h, fes) =>
      if negb (str_eqb h hrp) then Err KHrpMismatch
      else match fes_to_bytes fes with
           | None => Err KRead                       (* checked_payload: invalid padding *)
           | Some data => if (len data =? 43) && valid data then Ok data else Err KRead
           end
  end.
Definition keys_encode_payment_address (hrp : list N) (d : bytes) : outcome (list N) unit :=
  expect (b32_encode B32 BECH32_CODE_LENGTH hrp d).

(* ------------------------------------------------------------------------------------------ *)
(** * Hash tables supplied with a case: an entry is (tag, i, length, input, output).
      tag 0: output = H i length input.  tag 1 (length field unused, 0): output = the
      concatenation of G i 0 input, G i 1 input, ... (64 bytes each).
      A missing entry yields [] (the XOR then changes nothing and the case no longer agrees with
      the implementation). *)
Definition hg_entry := (N * N * N * bytes * bytes)%type.
Fixpoint hg_lookup (t : list hg_entry) (tag i j : N) (x : bytes) : bytes :=
  match t with
  | [] => []
  | (tg, i', j', x', y) :: r =>
      if (tg =? tag) && (i' =? i) && (j' =? j) && bytes_eqb x' x then y else hg_lookup r tag i j x
  end.
Definition H_of (t : list hg_entry) : N -> nat -> bytes -> bytes := fun i l x => hg_lookup t 0 i (N.of_nat l) x.
Definition G_of (t : list hg_entry) : N -> N -> bytes -> bytes :=
  fun i j x => firstn OUTBYTES (skipn (OUTBYTES * N.to_nat j) (hg_lookup t 1 i 0 x)).
