(** C10 — completeness of the composition checks: [check_items] accepts exactly the item lists
    satisfying the ZIP 316 composition rules, and each error names a violated rule; the item
    decoder accepts exactly the items of the specification's length table. *)
From Coq Require Import String.
From V.Lib Require Import Base Hex.
From V.Gen Require Import C10Consts.
From V.C10 Require Import Model Spec PF4 PCs PCont.
From Coq Require Import List Lia ZifyBool.
Local Open Scope N_scope.

Lemma asc_tail a l : strictly_ascending (a :: l) = true -> strictly_ascending l = true.
Proof. destruct l as [|b l]; [reflexivity|]. cbn [strictly_ascending]. intros E. apply andb_true_iff in E. tauto. Qed.

Lemma check_go_complete : forall items p o,
  strictly_ascending (plist p ++ map fst items) = true ->
  ~ (In 0 (plist p ++ map fst items) /\ In 1 (plist p ++ map fst items)) ->
  (o = false \/ existsb (fun t => negb (is_transparent t)) (map fst items) = true) ->
  check_go p o items = Ok tt.
Proof.
  destruct tc_consts as [_ [_ [_ [P0 [P1 _]]]]].
  induction items as [|[t d] r IH]; intros p o A B S.
  - cbn [check_go]. destruct S as [->|S]; [reflexivity | discriminate].
  - cbn [check_go map fst] in *.
    assert (S' : o && is_transparent t = false \/ existsb (fun t0 => negb (is_transparent t0)) (map fst r) = true).
    { destruct S as [->|S]; [left; reflexivity|]. cbn [existsb] in S. apply orb_true_iff in S as [S|S]; [|right; exact S].
      left. apply negb_true_iff in S. rewrite S. apply andb_false_r. }
    destruct p as [p|]; cbn [plist app] in *.
    + assert (Hpt : p < t).
      { cbn [strictly_ascending] in A. apply andb_true_iff in A as [A _]. apply N.ltb_lt. exact A. }
      destruct (N.ltb_spec t p); [lia|]. destruct (N.eqb_spec t p); [lia|].
      destruct ((t =? TC_P2SH) && (p =? TC_P2PKH)) eqn:E.
      { exfalso. apply andb_true_iff in E as [E1 E2]. apply N.eqb_eq in E1, E2. rewrite P1 in E1. rewrite P0 in E2. subst.
        apply B. split; [left; reflexivity | right; left; reflexivity]. }
      apply IH; [exact (asc_tail _ _ A) | | exact S'].
      intros [I0 I1]. apply B. split; right; assumption.
    + apply IH; [exact A | exact B | exact S'].
Qed.

Theorem check_items_complete items : spec_composition (map fst items) = true -> check_items items = Ok tt.
Proof.
  unfold spec_composition. intros E. apply andb_true_iff in E as [E S]. apply andb_true_iff in E as [A B].
  destruct tc_consts as [_ [_ [_ [P0 [P1 _]]]]].
  apply check_go_complete; cbn [plist app].
  - exact A.
  - intros [I0 I1]. apply mem_In in I0, I1. rewrite I0, I1 in B. discriminate.
  - right. apply existsb_exists in S as [t [I T]]. apply existsb_exists. exists t. split; [exact I|].
    unfold is_transparent. rewrite P0, P1. lia.
Qed.

Theorem check_items_iff items : check_items items = Ok tt <-> spec_composition (map fst items) = true.
Proof. split; [apply check_items_sound | apply check_items_complete]. Qed.

(** rejected => a composition rule is violated *)
Corollary check_items_reject items e : check_items items = Err e -> spec_composition (map fst items) = false.
Proof.
  intros E. destruct (spec_composition (map fst items)) eqn:S; [|reflexivity].
  rewrite (check_items_complete _ S) in E. discriminate.
Qed.

(** the item decoder accepts the items of the specification table *)
Lemma spec_item_try_from k it : spec_item_ok k it = true -> item_try_from k (fst it) (snd it) = Ok it.
Proof.
  destruct it as [tc d]. unfold spec_item_ok. cbn [fst snd]. intros E. apply andb_true_iff in E as [_ E].
  unfold item_try_from, item_len.
  cbv [LEN_RCV_P2PKH LEN_RCV_P2SH LEN_RCV_SAPLING LEN_RCV_ORCHARD LEN_FVK_P2PKH LEN_FVK_SAPLING LEN_FVK_ORCHARD LEN_IVK_P2PKH LEN_IVK_SAPLING LEN_IVK_ORCHARD].
  change TC_UNKNOWN_MAX with 33554432.
  change TC_P2PKH with 0. change TC_P2SH with 1. change TC_SAPLING with 2. change TC_ORCHARD with 3.
  destruct (N.eqb_spec tc 0) as [->|N0].
  { destruct k; cbn in E |- *; rewrite E; reflexivity. }
  destruct (N.eqb_spec tc 1) as [->|N1].
  { destruct k; cbn in E |- *; try discriminate; rewrite E; reflexivity. }
  destruct (N.eqb_spec tc 2) as [->|N2].
  { destruct k; cbn in E |- *; rewrite E; reflexivity. }
  destruct (N.eqb_spec tc 3) as [->|N3].
  { destruct k; cbn in E |- *; rewrite E; reflexivity. }
  assert (K : spec_known_len k tc = None).
  { destruct k; destruct tc as [|[[[]|[]|]|[[]|[]|]|]]; try reflexivity; lia. }
  rewrite K in E. destruct (N.ltb_spec 33554432 tc); [exfalso; lia | reflexivity].
Qed.

Lemma raw_encoding_item_len it items : In it items -> (length (snd it) <= length (raw_encoding items))%nat.
Proof.
  induction items as [|a l IH]; intros []; unfold raw_encoding; cbn [map concat]; rewrite app_length.
  - subst. unfold write_item. rewrite !app_length. unfold item, bytes in *. lia.
  - specialize (IH H). unfold raw_encoding in IH. unfold item, bytes in *. lia.
Qed.

(** a specification-level well-formed container whose padded encoding has a valid F4Jumble
    length satisfies the premises of the container round trip *)
Lemma wf_items_ok k hrp items :
  zip316_wf k items = true -> f4_valid_len (length (raw_encoding items ++ padding hrp)) = true ->
  Forall (item_ok k) items /\ check_items items = Ok tt /\ is_bytes (raw_encoding items) = true.
Proof.
  unfold zip316_wf. intros W V. apply andb_true_iff in W as [C I]. rewrite forallb_forall in I.
  assert (LR : N.of_nat (length (raw_encoding items)) <= 4194368).
  { unfold f4_valid_len in V. change F4_MAX with 4194368 in V. rewrite app_length in V. lia. }
  split; [|split; [apply check_items_complete; exact C|]].
  - apply Forall_forall. intros it Hin. split; [apply spec_item_try_from; apply I; exact Hin|].
    pose proof (raw_encoding_item_len _ _ Hin). change MAX_COMPACT_SIZE with 33554432. unfold len. unfold item, bytes in *. lia.
  - assert (G : forall l, (forall it, In it l -> spec_item_ok k it = true) -> N.of_nat (length (raw_encoding l)) <= 4194368 ->
                is_bytes (raw_encoding l) = true).
    { induction l as [|a l IH]; intros Hl Ll; [reflexivity|].
      unfold raw_encoding in *. cbn [map concat] in *. rewrite app_length in Ll.
      apply is_bytes_app. split; [|apply IH; [intros; apply Hl; right; assumption | lia]].
      specialize (Hl a (or_introl eq_refl)). destruct a as [tc d]. unfold spec_item_ok in Hl.
      apply andb_true_iff in Hl as [Hd Ht]. unfold write_item in *. cbn [fst snd] in *. rewrite !app_length in Ll.
      apply is_bytes_app. split; [|apply is_bytes_app; split; [|exact Hd]].
      - apply cs_write_is_bytes. destruct (spec_known_len k tc) as [n|] eqn:K.
        + destruct k; destruct tc as [|[[[]|[]|]|[[]|[]|]|]]; cbn in K; try discriminate; cbn; lia.
        + change (2 ^ 64) with 18446744073709551616. lia.
      - apply cs_write_is_bytes. unfold len. change (2 ^ 64) with 18446744073709551616. lia. }
    apply G; assumption.
Qed.
