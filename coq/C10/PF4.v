(** C10 — F4Jumble is a length-preserving bijection on its valid lengths, for EVERY pair of
    round functions H, G (no assumption on their output lengths). *)
From Coq Require Import String.
From V.Lib Require Import Base Hex.
From V.Gen Require Import C10Consts.
From V.C10 Require Import Model.
From Coq Require Import List Lia.
Local Open Scope N_scope.

Lemma xor_bytes_length t : forall s, length (xor_bytes t s) = length t.
Proof. induction t as [|x t IH]; intros [|y s]; simpl; auto. Qed.

Lemma xor_bytes_invol t : forall s, xor_bytes (xor_bytes t s) s = t.
Proof.
  induction t as [|x t IH]; intros [|y s]; simpl; auto.
  rewrite IH, N.lxor_assoc, N.lxor_nilpotent, N.lxor_0_r. reflexivity.
Qed.

Lemma xor_bytes_is_bytes t : forall s, is_bytes t = true -> is_bytes s = true -> is_bytes (xor_bytes t s) = true.
Proof.
  unfold is_bytes. induction t as [|x t IH]; intros [|y s] Ht Hs; simpl in *; auto.
  apply andb_true_iff in Ht as [Hx Ht]. apply andb_true_iff in Hs as [Hy Hs].
  rewrite IH by assumption. rewrite andb_true_r.
  unfold is_byte in *. apply N.ltb_lt in Hx, Hy. apply N.ltb_lt.
  change 256 with (2 ^ 8).
  destruct (N.eq_dec (N.lxor x y) 0) as [->|NZ]; [reflexivity|].
  apply N.log2_lt_pow2; [lia|].
  eapply N.le_lt_trans; [apply N.log2_lxor|].
  apply N.max_lub_lt.
  - destruct (N.eq_dec x 0) as [->|]; [reflexivity|]. apply N.log2_lt_pow2; lia.
  - destruct (N.eq_dec y 0) as [->|]; [reflexivity|]. apply N.log2_lt_pow2; lia.
Qed.

Section F4.
  Variable H : N -> nat -> bytes -> bytes.
  Variable G : N -> N -> bytes -> bytes.

  Lemma g_xor_nil f i j l : g_xor G f i j l [] = [].
  Proof. destruct f; reflexivity. Qed.

  Lemma g_xor_length f : forall i j l r, length (g_xor G f i j l r) = length r.
  Proof.
    induction f as [|f IH]; intros i j l r; [reflexivity|].
    destruct r as [|a r]; [reflexivity|].
    cbn [g_xor]. rewrite app_length, xor_bytes_length, IH, <- app_length, firstn_skipn. reflexivity.
  Qed.

  Lemma g_xor_invol f : forall i j l r, (length r <= f)%nat ->
    g_xor G f i j l (g_xor G f i j l r) = r.
  Proof.
    induction f as [|f IH]; intros i j l r Hl.
    - reflexivity.
    - destruct r as [|a r0]; [reflexivity|].
      set (r := a :: r0) in *.
      assert (E : g_xor G (S f) i j l r =
                  xor_bytes (firstn OUTBYTES r) (G i j l) ++ g_xor G f i (N.succ j) l (skipn OUTBYTES r)) by reflexivity.
      rewrite E.
      set (A := xor_bytes (firstn OUTBYTES r) (G i j l)).
      set (B := g_xor G f i (N.succ j) l (skipn OUTBYTES r)).
      assert (LA : length A = length (firstn OUTBYTES r)) by apply xor_bytes_length.
      assert (NE : A ++ B <> []).
      { intro Z. apply (f_equal (@length N)) in Z. rewrite app_length, LA in Z.
        subst r. unfold OUTBYTES in Z. simpl in Z. lia. }
      assert (E2 : g_xor G (S f) i j l (A ++ B) =
                   xor_bytes (firstn OUTBYTES (A ++ B)) (G i j l) ++ g_xor G f i (N.succ j) l (skipn OUTBYTES (A ++ B))).
      { destruct (A ++ B); [congruence | reflexivity]. }
      rewrite E2.
      destruct (Nat.le_gt_cases OUTBYTES (length r)) as [Hge|Hlt].
      + assert (LA64 : length A = OUTBYTES) by (rewrite LA, firstn_length; lia).
        rewrite firstn_app, skipn_app, LA64, Nat.sub_diag.
        rewrite firstn_all2 by lia. rewrite (skipn_all2 A) by lia.
        cbn [firstn skipn app]. rewrite app_nil_r.
        unfold A at 1. rewrite xor_bytes_invol.
        unfold B. rewrite IH.
        * apply firstn_skipn.
        * rewrite skipn_length. unfold OUTBYTES in *. lia.
      + assert (S0 : skipn OUTBYTES r = []) by (apply skipn_all2; lia).
        assert (B0 : B = []) by (unfold B; rewrite S0; apply g_xor_nil).
        rewrite B0, app_nil_r.
        assert (F0 : firstn OUTBYTES r = r) by (apply firstn_all2; lia).
        assert (LAr : length A = length r) by (rewrite LA, F0; reflexivity).
        rewrite (firstn_all2 A) by lia. rewrite (skipn_all2 A) by lia.
        rewrite g_xor_nil, app_nil_r. unfold A. rewrite xor_bytes_invol. exact F0.
  Qed.

  Lemma h_round_invol i st : h_round H i (h_round H i st) = st.
  Proof.
    destruct st as [l r]. unfold h_round. rewrite xor_bytes_length, xor_bytes_invol. reflexivity.
  Qed.

  Lemma g_round_invol i st : g_round G i (g_round G i st) = st.
  Proof.
    destruct st as [l r]. unfold g_round. rewrite g_xor_length, g_xor_invol by lia. reflexivity.
  Qed.

  Lemma h_round_lens i st : length (fst (h_round H i st)) = length (fst st) /\ length (snd (h_round H i st)) = length (snd st).
  Proof. destruct st as [l r]. unfold h_round. cbn [fst snd]. rewrite xor_bytes_length. auto. Qed.
  Lemma g_round_lens i st : length (fst (g_round G i st)) = length (fst st) /\ length (snd (g_round G i st)) = length (snd st).
  Proof. destruct st as [l r]. unfold g_round. cbn [fst snd]. rewrite g_xor_length. auto. Qed.

  Lemma apply_inv_apply st : apply_f4jumble_inv H G (apply_f4jumble H G st) = st.
  Proof.
    unfold apply_f4jumble_inv, apply_f4jumble.
    rewrite h_round_invol, g_round_invol, h_round_invol, g_round_invol. reflexivity.
  Qed.
  Lemma apply_apply_inv st : apply_f4jumble H G (apply_f4jumble_inv H G st) = st.
  Proof.
    unfold apply_f4jumble_inv, apply_f4jumble.
    rewrite g_round_invol, h_round_invol, g_round_invol, h_round_invol. reflexivity.
  Qed.

  Lemma apply_lens st :
    length (fst (apply_f4jumble H G st)) = length (fst st) /\ length (snd (apply_f4jumble H G st)) = length (snd st).
  Proof.
    unfold apply_f4jumble.
    destruct (h_round_lens 1 (g_round G 1 (h_round H 0 (g_round G 0 st)))) as [a1 b1].
    destruct (g_round_lens 1 (h_round H 0 (g_round G 0 st))) as [a2 b2].
    destruct (h_round_lens 0 (g_round G 0 st)) as [a3 b3].
    destruct (g_round_lens 0 st) as [a4 b4]. split; congruence.
  Qed.
  Lemma apply_inv_lens st :
    length (fst (apply_f4jumble_inv H G st)) = length (fst st) /\ length (snd (apply_f4jumble_inv H G st)) = length (snd st).
  Proof.
    unfold apply_f4jumble_inv.
    destruct (g_round_lens 0 (h_round H 0 (g_round G 1 (h_round H 1 st)))) as [a1 b1].
    destruct (h_round_lens 0 (g_round G 1 (h_round H 1 st))) as [a2 b2].
    destruct (g_round_lens 1 (h_round H 1 st)) as [a3 b3].
    destruct (h_round_lens 1 st) as [a4 b4]. split; congruence.
  Qed.

  Lemma left_len_le n : (left_len n <= n)%nat.
  Proof.
    unfold left_len. pose proof (Nat.div_le_upper_bound n 2 n ltac:(lia) ltac:(lia)).
    pose proof (Nat.le_min_r OUTBYTES (n / 2)). lia.
  Qed.

  Lemma split_lens m : length (fst (f4_split m)) = left_len (length m) /\
                       length (snd (f4_split m)) = (length m - left_len (length m))%nat.
  Proof.
    unfold f4_split. cbn [fst snd]. pose proof (left_len_le (length m)).
    rewrite firstn_length, skipn_length. lia.
  Qed.

  Lemma join_split m : f4_join (f4_split m) = m.
  Proof. unfold f4_join, f4_split. cbn [fst snd]. apply firstn_skipn. Qed.

  Lemma split_join st :
    length (fst st) = left_len (length (fst st) + length (snd st)) -> f4_split (f4_join st) = st.
  Proof.
    destruct st as [l r]. cbn [fst snd]. intros E. unfold f4_split, f4_join. cbn [fst snd].
    rewrite app_length, <- E.
    rewrite firstn_app, skipn_app, Nat.sub_diag, firstn_all, skipn_all. cbn [firstn skipn]. rewrite app_nil_r. reflexivity.
  Qed.

  Lemma join_length st : length (f4_join st) = (length (fst st) + length (snd st))%nat.
  Proof. unfold f4_join. apply app_length. Qed.

  (** the core statement, for every message (the length check only gates it) *)
  Lemma core_forward m :
    let y := f4_join (apply_f4jumble H G (f4_split m)) in
    length y = length m /\ f4_join (apply_f4jumble_inv H G (f4_split y)) = m.
  Proof.
    intros y. destruct (apply_lens (f4_split m)) as [L1 L2]. destruct (split_lens m) as [S1 S2].
    pose proof (left_len_le (length m)).
    assert (Ly : length y = length m) by (unfold y; rewrite join_length; lia).
    split; [exact Ly|].
    assert (E : length (fst (apply_f4jumble H G (f4_split m))) =
                left_len (length (fst (apply_f4jumble H G (f4_split m))) + length (snd (apply_f4jumble H G (f4_split m)))))
      by (rewrite L1, L2, S1, S2; f_equal; lia).
    unfold y. rewrite (split_join _ E), apply_inv_apply. apply join_split.
  Qed.
  Lemma core_backward m :
    let y := f4_join (apply_f4jumble_inv H G (f4_split m)) in
    length y = length m /\ f4_join (apply_f4jumble H G (f4_split y)) = m.
  Proof.
    intros y. destruct (apply_inv_lens (f4_split m)) as [L1 L2]. destruct (split_lens m) as [S1 S2].
    pose proof (left_len_le (length m)).
    assert (Ly : length y = length m) by (unfold y; rewrite join_length; lia).
    split; [exact Ly|].
    assert (E : length (fst (apply_f4jumble_inv H G (f4_split m))) =
                left_len (length (fst (apply_f4jumble_inv H G (f4_split m))) + length (snd (apply_f4jumble_inv H G (f4_split m)))))
      by (rewrite L1, L2, S1, S2; f_equal; lia).
    unfold y. rewrite (split_join _ E), apply_apply_inv. apply join_split.
  Qed.

  Theorem f4jumble_bijection m :
    f4_valid_len (length m) = true ->
    (exists y, f4jumble H G m = Ok y /\ length y = length m /\ f4jumble_inv H G y = Ok m) /\
    (exists x, f4jumble_inv H G m = Ok x /\ length x = length m /\ f4jumble H G x = Ok m).
  Proof.
    intros V. unfold f4jumble, f4jumble_inv. rewrite V. split.
    - destruct (core_forward m) as [L E]. eexists; split; [reflexivity|]. split; [exact L|].
      rewrite L, V, E. reflexivity.
    - destruct (core_backward m) as [L E]. eexists; split; [reflexivity|]. split; [exact L|].
      rewrite L, V, E. reflexivity.
  Qed.

  Theorem f4jumble_invalid m :
    f4_valid_len (length m) = false ->
    f4jumble H G m = Err InvalidLength /\ f4jumble_inv H G m = Err InvalidLength.
  Proof. intros V. unfold f4jumble, f4jumble_inv. rewrite V. auto. Qed.

  Lemma f4jumble_ok_length m y : f4jumble H G m = Ok y -> length y = length m /\ f4_valid_len (length m) = true.
  Proof.
    unfold f4jumble. destruct (f4_valid_len (length m)) eqn:V; [|discriminate].
    intros E. inversion E. split; [apply core_forward | reflexivity].
  Qed.
  Lemma f4jumble_inv_ok_length m y : f4jumble_inv H G m = Ok y -> length y = length m /\ f4_valid_len (length m) = true.
  Proof.
    unfold f4jumble_inv. destruct (f4_valid_len (length m)) eqn:V; [|discriminate].
    intros E. inversion E. split; [apply core_backward | reflexivity].
  Qed.
  Lemma f4jumble_not_panic m : f4jumble H G m <> Panic /\ f4jumble_inv H G m <> Panic.
  Proof. unfold f4jumble, f4jumble_inv. destruct (f4_valid_len (length m)); split; discriminate. Qed.

  (** injectivity on valid lengths (consequence of the inverse) *)
  Corollary f4jumble_injective a b y : f4jumble H G a = Ok y -> f4jumble H G b = Ok y -> a = b.
  Proof.
    intros Ea Eb.
    destruct (f4jumble_ok_length _ _ Ea) as [_ Va]. destruct (f4jumble_ok_length _ _ Eb) as [_ Vb].
    destruct (f4jumble_bijection a Va) as [[ya [E1 [_ I1]]] _].
    destruct (f4jumble_bijection b Vb) as [[yb [E2 [_ I2]]] _].
    rewrite Ea in E1. rewrite Eb in E2. inversion E1. inversion E2. subst. rewrite I1 in I2. inversion I2. reflexivity.
  Qed.
End F4.
