(** C10 — the property, stated independently of the parsing / encoding algorithms. *)
From Coq Require Import String.
From V.Lib Require Import Base Hex.
From V.Gen Require Import C10Consts.
From V.C10 Require Import Model.
From Coq Require Import List.
Local Open Scope N_scope.

(** ** ZIP 316 well-formedness of a list of (typecode, data) items *)

Fixpoint strictly_ascending (l : list N) : bool :=
  match l with
  | a :: r => match r with b :: _ => (a <? b) && strictly_ascending r | [] => true end
  | [] => true
  end.

Definition mem (x : N) (l : list N) : bool := existsb (N.eqb x) l.

(** lengths of the known items, per container kind; [None] when the typecode is not a known item
    of this kind *)
Definition spec_known_len (k : ckind) (tc : N) : option N :=
  match k, tc with
  | KAddr, 0 => Some 20 | KAddr, 1 => Some 20 | KAddr, 2 => Some 43 | KAddr, 3 => Some 43
  | KFvk, 0 => Some 65 | KFvk, 2 => Some 128 | KFvk, 3 => Some 96
  | KIvk, 0 => Some 65 | KIvk, 2 => Some 64 | KIvk, 3 => Some 64
  | _, _ => None
  end.

Definition spec_item_ok (k : ckind) (it : item) : bool :=
  let (tc, d) := it in
  is_bytes d &&
  match spec_known_len k tc with
  | Some n => len d =? n
  | None => (4 <=? tc) && (tc <=? 33554432)       (* unknown items: any length; P2SH keys do not exist *)
  end.

(** the composition rules: strictly ascending (hence unique) typecodes, not both P2PKH and P2SH,
    at least one item that is not transparent *)
Definition spec_composition (tcs : list N) : bool :=
  strictly_ascending tcs && negb (mem 0 tcs && mem 1 tcs) && existsb (fun t => 2 <=? t) tcs.

(** order-independent form of the composition rules (for [try_from_items], which sorts) *)
Fixpoint no_dup (l : list N) : bool :=
  match l with
  | [] => true
  | a :: r => negb (mem a r) && no_dup r
  end.
Definition spec_set_ok (tcs : list N) : bool :=
  no_dup tcs && negb (mem 0 tcs && mem 1 tcs) && existsb (fun t => 2 <=? t) tcs.

Definition zip316_wf (k : ckind) (items : list item) : bool :=
  spec_composition (map fst items) && forallb (spec_item_ok k) items.

(** ** canonical CompactSize encoding (shortest form, little endian) *)
Definition spec_cs (n : N) : bytes :=
  if n <? 253 then [n]
  else if n <? 65536 then [253; n mod 256; n / 256]
  else if n <? 4294967296 then [254; n mod 256; (n / 256) mod 256; (n / 65536) mod 256; n / 16777216]
  else 255 :: le_n 8 n.

(** ** valid F4Jumble lengths *)
Definition spec_f4_len (n : N) : bool := (48 <=? n) && (n <=? 4194368).

(** ** address values *)
Definition spec_raw_len (k : akind) : N :=
  match k with Sprout => 64 | Sapling => 43 | P2pkh => 20 | P2sh => 20 | Tex => 20 end.

Definition spec_addr_ok (a : addr) : bool :=
  match a with
  | ARaw _ k d => (len d =? spec_raw_len k) && is_bytes d
  | AUni _ items => zip316_wf KAddr items
  end.

(** the documented sharing: Regtest uses the Testnet encodings of Sprout, P2PKH and P2SH *)
Definition spec_shared (k : akind) : bool := match k with Sprout | P2pkh | P2sh => true | _ => false end.
Definition spec_ctor_net (k : akind) (n : net) : net :=
  match n with Regtest => if spec_shared k then Test else Regtest | _ => n end.

(** conversion for an expected network: allowed when the networks are equal, and — only for the
    kinds whose encodings testnet and regtest share — when a testnet address is expected on regtest *)
Definition spec_convertible (a : addr) (expected : net) : bool :=
  let n := addr_net a in
  net_eq n expected ||
  match a with
  | ARaw _ k _ => spec_shared k && net_eq n Test && net_eq expected Regtest
  | AUni _ _ => false
  end.
(** the address value the public constructors build from a converted (network, kind, data) *)
Definition spec_rebuild (a : addr) : addr :=
  match a with ARaw n k d => ARaw (spec_ctor_net k n) k d | AUni _ _ => a end.

(** ** encodability of a container (its padded raw encoding has a valid F4Jumble length and the
    string fits the ZIP 316 Bech32m code length) — containers outside this class make
    [Encoding::encode] panic: known finding, see Corr.known_class *)
Definition cs_size (n : N) : N := if n <? 253 then 1 else if n <=? 65535 then 3 else if n <=? 4294967295 then 5 else 9.
Definition spec_raw_len_items (items : list item) : N :=
  fold_right (fun it acc => cs_size (fst it) + cs_size (len (snd it)) + len (snd it) + acc) 0 items.
Definition spec_encodable (hrp : list N) (items : list item) : bool :=
  let l := spec_raw_len_items items + 16 in
  (48 <=? l) && (len hrp + 1 + (8 * l + 4) / 5 + 6 <=? 4194368).
