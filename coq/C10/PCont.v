(** C10 — ZIP 316 container layer: item loop round trip and canonicity, the composition checks
    imply the ZIP 316 rules, container round trip through F4Jumble (for all H, G), soundness of
    acceptance, totality. *)
From Coq Require Import String.
From V.Lib Require Import Base Hex.
From V.Gen Require Import C10Consts.
From V.C10 Require Import Model Spec PF4 PCs.
From Coq Require Import List Lia ZifyBool.
Local Open Scope N_scope.

Lemma bytes_eqb_eq a : forall b, bytes_eqb a b = true <-> a = b.
Proof.
  induction a as [|x a IH]; intros [|y b]; cbn; try (split; congruence).
  rewrite andb_true_iff, N.eqb_eq. fold (bytes_eqb a b). rewrite IH. split; [intros [-> ->]; reflexivity | intros E; inversion E; auto].
Qed.

Lemma cs_read_le_max b n r : cs_read b = Ok (n, r) -> n <= MAX_COMPACT_SIZE.
Proof.
  destruct b as [|f b]; [discriminate|]. cbn [cs_read]. unfold cs_wide, cs_fin.
  repeat match goal with
         | |- context [if ?c then _ else _] => destruct c eqn:?
         | |- context [match take ?k ?r with _ => _ end] => destruct (take k r) as [[? ?]|]
         end; try discriminate; intros Q; injection Q as <- <-; lia.
Qed.

Lemma tc_consts : TC_UNKNOWN_MAX = 33554432 /\ MAX_COMPACT_SIZE = 33554432 /\ U32_MAX = 4294967295 /\
                  TC_P2PKH = 0 /\ TC_P2SH = 1 /\ TC_SAPLING = 2 /\ TC_ORCHARD = 3 /\ PADDING_LEN = 16 /\ F4_MIN = 48.
Proof. repeat split; reflexivity. Qed.

(** an item the item decoder accepts as it is, with a length CompactSize can carry *)
Definition item_ok (k : ckind) (it : item) : Prop :=
  item_try_from k (fst it) (snd it) = Ok it /\ len (snd it) <= MAX_COMPACT_SIZE.

Lemma item_try_from_ok k tc d it : item_try_from k tc d = Ok it -> it = (tc, d) /\ tc <= TC_UNKNOWN_MAX.
Proof.
  unfold item_try_from. destruct (N.ltb_spec TC_UNKNOWN_MAX tc); [discriminate|].
  destruct (item_len k tc) as [[n|]|]; [destruct (len d =? n)| |]; try discriminate; intros Q; inversion Q; auto.
Qed.

Lemma cs_write_nonempty n : exists x r, cs_write n = x :: r.
Proof. unfold cs_write. repeat match goal with |- context [if ?c then _ else _] => destruct c end; eauto. Qed.

Lemma len_app (a b : bytes) : len (a ++ b) = len a + len b.
Proof. unfold len. rewrite app_length. lia. Qed.

Lemma read_write_item k it rest :
  item_ok k it -> read_receiver k (write_item it ++ rest) = Ok (it, rest).
Proof.
  destruct it as [tc d]. intros [T L]. cbn [fst snd] in *.
  destruct (item_try_from_ok _ _ _ _ T) as [_ Htc]. destruct tc_consts as [C1 [C2 [C3 _]]].
  unfold read_receiver, write_item. cbn [fst snd]. rewrite <- !app_assoc.
  rewrite cs_roundtrip by lia.
  destruct (N.ltb_spec U32_MAX tc); [lia|].
  rewrite cs_roundtrip by assumption.
  rewrite len_app. destruct (N.ltb_spec (len d + len rest) (len d)); [lia|].
  unfold len. rewrite Nat2N.id, firstn_app, skipn_app, Nat.sub_diag, firstn_all, skipn_all. cbn [firstn skipn app].
  rewrite app_nil_r. fold (len d). rewrite T. reflexivity.
Qed.

Lemma write_item_length it : (2 <= length (write_item it))%nat.
Proof.
  unfold write_item. destruct (cs_write_nonempty (fst it)) as [x [r ->]].
  destruct (cs_write_nonempty (len (snd it))) as [y [s ->]]. cbn [app length]. rewrite app_length. cbn [length]. lia.
Qed.

Theorem parse_loop_encode k items : Forall (item_ok k) items ->
  forall fuel, (length (raw_encoding items) <= fuel)%nat -> parse_loop fuel k (raw_encoding items) = Ok items.
Proof.
  induction 1 as [|it items Hit _ IH]; intros fuel Hf.
  - destruct fuel; reflexivity.
  - unfold raw_encoding in *. cbn [map concat] in *. fold (raw_encoding items) in *.
    pose proof (write_item_length it) as WL. rewrite app_length in Hf.
    destruct fuel as [|f]; [lia|].
    destruct (write_item it ++ raw_encoding items) as [|b0 bs] eqn:E.
    { apply (f_equal (@length N)) in E. rewrite app_length in E. cbn in E. lia. }
    rewrite <- E. clear E. cbn [parse_loop].
    destruct (write_item it ++ raw_encoding items) as [|b0' bs'] eqn:E.
    { apply (f_equal (@length N)) in E. rewrite app_length in E. cbn in E. lia. }
    rewrite <- E. rewrite read_write_item by assumption.
    unfold raw_encoding. rewrite IH by lia. reflexivity.
Qed.

Lemma read_receiver_ok k b it rest :
  is_bytes b = true -> read_receiver k b = Ok (it, rest) ->
  b = write_item it ++ rest /\ item_ok k it /\ (length rest < length b)%nat.
Proof.
  intros Hb. unfold read_receiver.
  destruct (cs_read b) as [[tc r1]|e|] eqn:R1; try discriminate.
  destruct (cs_canonical _ _ _ Hb R1) as [E1 M1]. pose proof (cs_read_shorter _ _ _ R1) as S1.
  destruct (N.ltb_spec U32_MAX tc); [discriminate|].
  assert (Hr1 : is_bytes r1 = true) by (rewrite E1 in Hb; apply is_bytes_app in Hb; tauto).
  destruct (cs_read r1) as [[l r2]|e|] eqn:R2; try discriminate.
  destruct (cs_canonical _ _ _ Hr1 R2) as [E2 M2]. pose proof (cs_read_shorter _ _ _ R2) as S2.
  destruct (N.ltb_spec (len r2) l) as [|Hl]; [discriminate|].
  destruct (item_try_from k tc (firstn (N.to_nat l) r2)) as [it'|e|] eqn:T; try discriminate.
  intros Q. injection Q as <- <-.
  destruct (item_try_from_ok _ _ _ _ T) as [-> _].
  assert (LL : len (firstn (N.to_nat l) r2) = l).
  { unfold len in *. rewrite firstn_length_le by lia. lia. }
  split; [|split].
  - unfold write_item. cbn [fst snd]. rewrite LL, <- !app_assoc, firstn_skipn, <- E2, <- E1. reflexivity.
  - split; cbn [fst snd]; [exact T | rewrite LL; exact M2].
  - rewrite skipn_length. lia.
Qed.

Theorem parse_loop_canonical k : forall fuel b items,
  is_bytes b = true -> parse_loop fuel k b = Ok items ->
  raw_encoding items = b /\ Forall (item_ok k) items.
Proof.
  induction fuel as [|f IH]; intros b items Hb.
  - destruct b; cbn; [intros Q; inversion Q; auto | discriminate].
  - destruct b as [|b0 bs]; [cbn; intros Q; inversion Q; auto|].
    cbn [parse_loop].
    destruct (read_receiver k (b0 :: bs)) as [[it rest]|e|] eqn:R; try discriminate.
    destruct (read_receiver_ok _ _ _ _ Hb R) as [E [Hit _]].
    assert (Hrest : is_bytes rest = true) by (rewrite E in Hb; apply is_bytes_app in Hb; tauto).
    destruct (parse_loop f k rest) as [l|e|] eqn:P; try discriminate.
    intros Q. inversion Q. subst. destruct (IH _ _ Hrest P) as [E' F'].
    split; [|constructor; assumption].
    unfold raw_encoding in *. cbn [map concat]. rewrite E', <- E. reflexivity.
Qed.

Lemma read_receiver_not_panic k b : read_receiver k b <> Panic.
Proof.
  unfold read_receiver. destruct tc_consts as [C1 [C2 [C3 _]]].
  destruct (cs_read b) as [[tc r1]|e|] eqn:R1; try discriminate; [|exact (fun _ => cs_read_not_panic _ R1)].
  pose proof (cs_read_le_max _ _ _ R1). destruct (N.ltb_spec U32_MAX tc); [lia|].
  destruct (cs_read r1) as [[l r2]|e|] eqn:R2; try discriminate; [|exact (fun _ => cs_read_not_panic _ R2)].
  destruct (len r2 <? l); [discriminate|].
  unfold item_try_from. destruct (TC_UNKNOWN_MAX <? tc); [discriminate|].
  destruct (item_len k tc) as [[n|]|]; [destruct (_ =? n)| |]; discriminate.
Qed.

Lemma read_receiver_shorter k b it rest : read_receiver k b = Ok (it, rest) -> (length rest < length b)%nat.
Proof.
  unfold read_receiver.
  destruct (cs_read b) as [[tc r1]|e|] eqn:R1; try discriminate. pose proof (cs_read_shorter _ _ _ R1).
  destruct (U32_MAX <? tc); [discriminate|].
  destruct (cs_read r1) as [[l r2]|e|] eqn:R2; try discriminate. pose proof (cs_read_shorter _ _ _ R2).
  destruct (len r2 <? l); [discriminate|].
  destruct (item_try_from k tc _) as [it'|e|]; try discriminate.
  intros Q. injection Q as <- <-. rewrite skipn_length. lia.
Qed.

(** the fuel handed to the loop (the buffer length) always suffices: no Panic *)
Theorem parse_loop_total k : forall fuel b, (length b <= fuel)%nat -> parse_loop fuel k b <> Panic.
Proof.
  induction fuel as [|f IH]; intros b Hl.
  - destruct b; [discriminate | cbn in Hl; lia].
  - destruct b as [|b0 bs]; [discriminate|]. cbn [parse_loop].
    destruct (read_receiver k (b0 :: bs)) as [[it rest]|e|] eqn:R; [| discriminate | exact (fun _ => read_receiver_not_panic _ _ R)].
    pose proof (read_receiver_shorter _ _ _ _ R) as S.
    specialize (IH rest ltac:(cbn [length] in *; lia)).
    destruct (parse_loop f k rest); [discriminate | discriminate | congruence].
Qed.

(* ------------------------------------------------------------------------------------------ *)
(** composition checks *)

Lemma asc_head a l : strictly_ascending (a :: l) = true -> Forall (fun x => a < x) l.
Proof.
  revert a. induction l as [|b l IH]; intros a Hs; [constructor|].
  cbn [strictly_ascending] in Hs. apply andb_true_iff in Hs as [Hab Hs]. apply N.ltb_lt in Hab.
  constructor; [assumption|]. specialize (IH b Hs). eapply Forall_impl; [|exact IH]. cbn. intros; lia.
Qed.

Definition plist (p : option N) : list N := match p with Some x => [x] | None => [] end.

Lemma check_go_asc : forall items p o, check_go p o items = Ok tt ->
  strictly_ascending (plist p ++ map fst items) = true.
Proof.
  induction items as [|[t d] r IH]; intros p o Hc.
  - destruct p; reflexivity.
  - cbn [check_go] in Hc. destruct p as [p|].
    + destruct (N.ltb_spec t p); [discriminate|]. destruct (N.eqb_spec t p); [discriminate|].
      destruct ((t =? TC_P2SH) && (p =? TC_P2PKH)); [discriminate|].
      specialize (IH _ _ Hc). cbn [plist app map fst] in *.
      change (strictly_ascending (p :: t :: map fst r)) with ((p <? t) && strictly_ascending (t :: map fst r)).
      rewrite IH. destruct (N.ltb_spec p t); [reflexivity | lia].
    + specialize (IH _ _ Hc). exact IH.
Qed.

Lemma check_go_shielded : forall items p o, check_go p o items = Ok tt ->
  o = false \/ existsb (fun t => negb (is_transparent t)) (map fst items) = true.
Proof.
  induction items as [|[t d] r IH]; intros p o Hc.
  - cbn in Hc. destruct o; [discriminate | auto].
  - cbn [check_go] in Hc.
    assert (Hc' : check_go (Some t) (o && is_transparent t) r = Ok tt).
    { destruct p as [p|]; [|exact Hc].
      destruct (t <? p); [discriminate|]. destruct (t =? p); [discriminate|].
      destruct ((t =? TC_P2SH) && (p =? TC_P2PKH)); [discriminate | exact Hc]. }
    destruct (IH _ _ Hc') as [E|E].
    + apply andb_false_iff in E as [E|E]; [auto|]. right. cbn [map fst existsb]. rewrite E. reflexivity.
    + right. cbn [map fst existsb]. rewrite E. apply orb_true_r.
Qed.

Lemma check_go_not_both : forall items p o, check_go p o items = Ok tt ->
  ~ (In 0 (plist p ++ map fst items) /\ In 1 (plist p ++ map fst items)).
Proof.
  destruct tc_consts as [_ [_ [_ [P0 [P1 _]]]]].
  induction items as [|[t d] r IH]; intros p o Hc.
  - destruct p as [p|]; cbn; [intros [[->|[]] [E|[]]]; discriminate | tauto].
  - pose proof (check_go_asc _ _ _ Hc) as A. cbn [check_go] in Hc. destruct p as [p|].
    + destruct (N.ltb_spec t p); [discriminate|]. destruct (N.eqb_spec t p); [discriminate|].
      destruct ((t =? TC_P2SH) && (p =? TC_P2PKH)) eqn:B; [discriminate|].
      specialize (IH _ _ Hc). cbn [plist app map fst] in *.
      pose proof (asc_head _ _ A) as F. rewrite Forall_forall in F.
      pose proof (check_go_asc _ _ _ Hc) as A2. cbn [plist app] in A2.
      pose proof (asc_head _ _ A2) as F2. rewrite Forall_forall in F2.
      intros [[E0|I0] [E1|I1]].
      * lia.
      * subst p. destruct I1 as [E|I1].
        -- subst t. rewrite P0, P1 in B. cbn in B. discriminate.
        -- specialize (F2 _ I1). lia.
      * specialize (F _ I0). lia.
      * specialize (F _ I0). lia.
    + specialize (IH _ _ Hc). exact IH.
Qed.

Lemma mem_In x l : mem x l = true <-> In x l.
Proof.
  unfold mem. rewrite existsb_exists. split.
  - intros [y [I E]]. apply N.eqb_eq in E. subst. assumption.
  - intros I. exists x. split; [assumption | apply N.eqb_refl].
Qed.

(** accepted by [try_from_items_internal] => the ZIP 316 composition rules hold *)
Theorem check_items_sound items : check_items items = Ok tt -> spec_composition (map fst items) = true.
Proof.
  intros Hc. unfold check_items in Hc. unfold spec_composition.
  pose proof (check_go_asc _ _ _ Hc) as A. pose proof (check_go_not_both _ _ _ Hc) as B.
  destruct (check_go_shielded _ _ _ Hc) as [S|S]; [discriminate|].
  cbn [plist app] in *. rewrite A. cbn [andb].
  apply andb_true_iff. split.
  - apply negb_true_iff. apply not_true_is_false. intros E. apply andb_true_iff in E as [E0 E1].
    apply mem_In in E0, E1. tauto.
  - destruct tc_consts as [_ [_ [_ [P0 [P1 _]]]]].
    apply existsb_exists in S as [t [I T]]. apply existsb_exists. exists t. split; [assumption|].
    unfold is_transparent in T. rewrite P0, P1 in T. lia.
Qed.

Lemma check_items_cases items : check_items items = Ok tt \/ exists e, check_items items = Err e.
Proof.
  unfold check_items. generalize (@None N) true. induction items as [|[t d] r IH]; intros p o.
  - cbn. destruct o; eauto.
  - cbn [check_go]. destruct p as [p|]; [|apply IH].
    destruct (t <? p); [eauto|]. destruct (t =? p); [eauto|]. destruct (_ && _); [eauto | apply IH].
Qed.

(** model-level item acceptance => the length table of the specification *)
Lemma item_ok_spec k it : item_ok k it -> is_bytes (snd it) = true -> spec_item_ok k it = true.
Proof.
  destruct it as [tc d]. intros [T _] Hb. cbn [fst snd] in *. unfold spec_item_ok. rewrite Hb. cbn [andb].
  unfold item_try_from in T. destruct (N.ltb_spec TC_UNKNOWN_MAX tc) as [|Hm]; [discriminate|].
  change TC_UNKNOWN_MAX with 33554432 in Hm.
  unfold item_len in T.
  change TC_P2PKH with 0 in T. change TC_P2SH with 1 in T. change TC_SAPLING with 2 in T. change TC_ORCHARD with 3 in T.
  destruct (N.eqb_spec tc 0) as [->|N0].
  { destruct k; cbn in T |- *; destruct (len d =? _); congruence. }
  destruct (N.eqb_spec tc 1) as [->|N1].
  { destruct k; cbn in T |- *; try discriminate; destruct (len d =? _); congruence. }
  destruct (N.eqb_spec tc 2) as [->|N2].
  { destruct k; cbn in T |- *; destruct (len d =? _); congruence. }
  destruct (N.eqb_spec tc 3) as [->|N3].
  { destruct k; cbn in T |- *; destruct (len d =? _); congruence. }
  assert (K : spec_known_len k tc = None).
  { destruct k; destruct tc as [|[[[]|[]|]|[[]|[]|]|]]; try reflexivity; lia. }
  rewrite K. lia.
Qed.

(* ------------------------------------------------------------------------------------------ *)
(** the whole container through F4Jumble, for arbitrary byte-valued H and G *)

Section Container.
  Variable H : N -> nat -> bytes -> bytes.
  Variable G : N -> N -> bytes -> bytes.

  Lemma padding_length hrp : (length hrp <= 16)%nat -> length (padding hrp) = 16%nat.
  Proof. intros L. unfold padding. rewrite app_length, repeat_length. change (N.to_nat PADDING_LEN) with 16%nat. lia. Qed.

  Theorem ua_roundtrip k hrp items :
    (length hrp <= 16)%nat ->
    Forall (item_ok k) items -> check_items items = Ok tt ->
    f4_valid_len (length (raw_encoding items ++ padding hrp)) = true ->
    exists s, to_jumbled_bytes H G hrp items = Ok s /\ length s = length (raw_encoding items ++ padding hrp) /\
              parse_internal H G k hrp s = Ok items.
  Proof.
    intros Lh Fi Ci V.
    destruct (f4jumble_bijection H G _ V) as [[s [E [Ls I]]] _].
    exists s. unfold to_jumbled_bytes. change (N.to_nat PADDING_LEN) with 16%nat.
    destruct (Nat.ltb_spec 16 (length hrp)); [lia|]. rewrite E. split; [reflexivity|]. split; [exact Ls|].
    unfold parse_internal, parse_items. rewrite I. change (N.to_nat PADDING_LEN) with 16%nat.
    destruct (Nat.ltb_spec 16 (length hrp)); [lia|].
    pose proof (padding_length hrp Lh) as PL.
    rewrite app_length, PL.
    destruct (Nat.ltb_spec (length (raw_encoding items) + 16) 16); [lia|].
    replace (length (raw_encoding items) + 16 - 16)%nat with (length (raw_encoding items)) by lia.
    rewrite skipn_app, firstn_app, Nat.sub_diag, skipn_all, firstn_all. cbn [skipn firstn app]. rewrite app_nil_r.
    assert (BE : bytes_eqb (padding hrp) (padding hrp) = true) by (apply bytes_eqb_eq; reflexivity).
    rewrite BE, parse_loop_encode by (auto; lia). rewrite Ci. reflexivity.
  Qed.

  Hypothesis H_bytes : forall i l x, is_bytes (H i l x) = true.
  Hypothesis G_bytes : forall i j x, is_bytes (G i j x) = true.

  Lemma firstn_is_bytes n b : is_bytes b = true -> is_bytes (firstn n b) = true.
  Proof. intros Hb. rewrite <- (firstn_skipn n b) in Hb. apply is_bytes_app in Hb. tauto. Qed.
  Lemma skipn_is_bytes n b : is_bytes b = true -> is_bytes (skipn n b) = true.
  Proof. intros Hb. rewrite <- (firstn_skipn n b) in Hb. apply is_bytes_app in Hb. tauto. Qed.

  Lemma g_xor_is_bytes f : forall i j l r, is_bytes r = true -> is_bytes (g_xor G f i j l r) = true.
  Proof.
    induction f as [|f IH]; intros i j l r Hr; [exact Hr|].
    destruct r as [|a r]; [reflexivity|]. cbn [g_xor]. apply is_bytes_app. split.
    - apply xor_bytes_is_bytes; [apply firstn_is_bytes; assumption | apply G_bytes].
    - apply IH. apply skipn_is_bytes. assumption.
  Qed.

  Definition st_bytes (st : bytes * bytes) : Prop := is_bytes (fst st) = true /\ is_bytes (snd st) = true.
  Lemma h_round_bytes i st : st_bytes st -> st_bytes (h_round H i st).
  Proof. destruct st as [l r]. intros [A B]. split; cbn [h_round fst snd] in *; [apply xor_bytes_is_bytes; auto | assumption]. Qed.
  Lemma g_round_bytes i st : st_bytes st -> st_bytes (g_round G i st).
  Proof. destruct st as [l r]. intros [A B]. split; cbn [g_round fst snd] in *; [assumption | apply g_xor_is_bytes; assumption]. Qed.

  Lemma f4jumble_inv_is_bytes m y : is_bytes m = true -> f4jumble_inv H G m = Ok y -> is_bytes y = true.
  Proof.
    intros Hm. unfold f4jumble_inv. destruct (f4_valid_len (length m)); [|discriminate].
    intros Q. inversion Q. unfold f4_join. apply is_bytes_app.
    apply g_round_bytes, h_round_bytes, g_round_bytes, h_round_bytes.
    split; cbn [f4_split fst snd]; [apply firstn_is_bytes | apply skipn_is_bytes]; assumption.
  Qed.

  (** accepted => well-formed per ZIP 316, padding = prefix || zeros, and the container
      re-encodes to exactly the accepted bytes (canonical: one byte string per container) *)
  Theorem ua_accept_sound k hrp buf items :
    is_bytes buf = true ->
    parse_internal H G k hrp buf = Ok items ->
    zip316_wf k items = true /\
    (length hrp <= 16)%nat /\
    f4jumble_inv H G buf = Ok (raw_encoding items ++ padding hrp) /\
    to_jumbled_bytes H G hrp items = Ok buf.
  Proof.
    intros Hb. unfold parse_internal.
    destruct (parse_items H G k hrp buf) as [its|e|] eqn:P; try discriminate.
    destruct (check_items_cases its) as [C|[e C]]; rewrite C; [|discriminate].
    intros Q. inversion Q. subst its. clear Q.
    unfold parse_items in P. destruct (f4jumble_inv H G buf) as [enc|e|] eqn:I; try discriminate.
    pose proof (f4jumble_inv_is_bytes _ _ Hb I) as He.
    change (N.to_nat PADDING_LEN) with 16%nat in P.
    destruct (Nat.ltb_spec 16 (length hrp)) as [|Lh]; [discriminate|].
    destruct (Nat.ltb_spec (length enc) 16) as [|Le]; [discriminate|].
    destruct (bytes_eqb (skipn (length enc - 16) enc) (padding hrp)) eqn:B; [|discriminate].
    apply bytes_eqb_eq in B.
    destruct (parse_loop_canonical _ _ _ _ (firstn_is_bytes _ _ He) P) as [R F].
    assert (Eenc : enc = raw_encoding items ++ padding hrp).
    { rewrite R, <- B. symmetry. apply firstn_skipn. }
    split; [|split; [exact Lh | split; [rewrite <- Eenc; reflexivity|]]].
    - unfold zip316_wf. rewrite (check_items_sound _ C). cbn [andb].
      apply forallb_forall. intros it Hin. rewrite Forall_forall in F. apply item_ok_spec; [auto|].
      assert (Hraw : is_bytes (raw_encoding items) = true) by (rewrite R; apply firstn_is_bytes; exact He).
      clear - Hin Hraw. induction items as [|a l IH]; [destruct Hin|].
      unfold raw_encoding in Hraw. cbn [map concat] in Hraw. apply is_bytes_app in Hraw as [Ha Hl].
      destruct Hin as [->|Hin]; [|apply IH; assumption].
      unfold write_item in Ha. apply is_bytes_app in Ha as [_ Ha]. apply is_bytes_app in Ha as [_ Ha]. exact Ha.
    - destruct (f4jumble_inv_ok_length H G _ _ I) as [_ V].
      destruct (f4jumble_bijection H G _ V) as [_ [x [I' [_ Fw]]]].
      rewrite I in I'. inversion I'. subst x.
      unfold to_jumbled_bytes. change (N.to_nat PADDING_LEN) with 16%nat.
      destruct (Nat.ltb_spec 16 (length hrp)); [lia|]. rewrite <- Eenc, Fw. reflexivity.
  Qed.
End Container.

(** totality: no input makes the container parser panic (for any H, G) *)
Theorem parse_internal_total H G k hrp buf : parse_internal H G k hrp buf <> Panic.
Proof.
  unfold parse_internal.
  assert (P : parse_items H G k hrp buf <> Panic).
  { unfold parse_items. destruct (f4jumble_inv H G buf) as [enc|e|] eqn:I; [|discriminate|exact (fun _ => proj2 (f4jumble_not_panic H G buf) I)].
    destruct (f4jumble_inv_ok_length H G _ _ I) as [L V]. change (N.to_nat PADDING_LEN) with 16%nat.
    destruct (Nat.ltb_spec 16 (length hrp)); [discriminate|].
    unfold f4_valid_len in V. change F4_MIN with 48 in V.
    destruct (Nat.ltb_spec (length enc) 16); [lia|].
    destruct (bytes_eqb _ _); [|discriminate].
    apply parse_loop_total. rewrite firstn_length. lia. }
  destruct (parse_items H G k hrp buf) as [its|e|]; [|discriminate|congruence].
  destruct (check_items_cases its) as [C|[e C]]; rewrite C; discriminate.
Qed.
