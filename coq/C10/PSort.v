(** C10 — [Encoding::try_from_items]: sorting by (typecode, data) yields a permutation in
    non-decreasing typecode order, so the order-independent composition rules on the given items
    coincide with the positional rules on the sorted list. *)
From Coq Require Import String.
From V.Lib Require Import Base Hex.
From V.Gen Require Import C10Consts.
From V.C10 Require Import Model Spec PCs PCont PCompl.
From Coq Require Import List Lia ZifyBool Permutation.
Local Open Scope N_scope.

Lemma insert_perm x : forall l, Permutation (insert_item x l) (x :: l).
Proof.
  induction l as [|y r IH]; cbn [insert_item]; [apply Permutation_refl|].
  destruct (item_leb x y); [apply Permutation_refl|].
  eapply Permutation_trans; [apply perm_skip; exact IH | apply perm_swap].
Qed.

Lemma sort_perm : forall l, Permutation (sort_items l) l.
Proof.
  induction l as [|x l IH]; [apply Permutation_refl|]. unfold sort_items in *. cbn [fold_right].
  eapply Permutation_trans; [apply insert_perm | apply perm_skip; exact IH].
Qed.

Fixpoint sorted_le (l : list N) : bool :=
  match l with
  | a :: r => match r with b :: _ => (a <=? b) && sorted_le r | [] => true end
  | [] => true
  end.

Lemma item_leb_true a b : item_leb a b = true -> fst a <= fst b.
Proof. unfold item_leb. destruct (N.ltb_spec (fst a) (fst b)); [lia|]. destruct (N.ltb_spec (fst b) (fst a)); [discriminate | lia]. Qed.
Lemma item_leb_false a b : item_leb a b = false -> fst b <= fst a.
Proof. unfold item_leb. destruct (N.ltb_spec (fst a) (fst b)); [discriminate|]. lia. Qed.

Lemma insert_sorted x : forall l, sorted_le (map fst l) = true -> sorted_le (map fst (insert_item x l)) = true.
Proof.
  induction l as [|y r IH]; intros S; [reflexivity|].
  cbn [insert_item]. destruct (item_leb x y) eqn:L.
  - cbn [map sorted_le] in *. apply item_leb_true in L. destruct (N.leb_spec (fst x) (fst y)); [|lia]. exact S.
  - apply item_leb_false in L.
    destruct r as [|z r'].
    + cbn [insert_item map sorted_le]. destruct (N.leb_spec (fst y) (fst x)); [reflexivity | lia].
    + assert (Syz : fst y <= fst z /\ sorted_le (map fst (z :: r')) = true).
      { cbn [map sorted_le] in S. apply andb_true_iff in S as [S1 S2]. split; [lia | exact S2]. }
      destruct Syz as [Hyz Sz]. specialize (IH Sz).
      cbn [insert_item] in *. destruct (item_leb x z) eqn:Lz.
      * cbn [map sorted_le] in *. destruct (N.leb_spec (fst y) (fst x)); [|lia]. exact IH.
      * cbn [map] in *. change (sorted_le (fst y :: fst z :: map fst (insert_item x r')) = true).
        cbn [sorted_le]. destruct (N.leb_spec (fst y) (fst z)); [|lia]. exact IH.
Qed.

Lemma sort_sorted : forall l, sorted_le (map fst (sort_items l)) = true.
Proof. induction l as [|x l IH]; [reflexivity|]. unfold sort_items in *. cbn [fold_right]. apply insert_sorted. exact IH. Qed.

Lemma no_dup_NoDup l : no_dup l = true <-> NoDup l.
Proof.
  induction l as [|a r IH]; cbn [no_dup]; [split; [constructor | reflexivity]|].
  rewrite andb_true_iff, negb_true_iff, IH. split.
  - intros [M Nd]. constructor; [|exact Nd]. intros I. apply mem_In in I. congruence.
  - intros Nd. inversion Nd; subst. split; [|assumption]. apply not_true_is_false. intros M. apply mem_In in M. contradiction.
Qed.

Lemma sorted_nodup_asc : forall l, sorted_le l = true -> NoDup l -> strictly_ascending l = true.
Proof.
  induction l as [|a r IH]; intros S Nd; [reflexivity|].
  destruct r as [|b r']; [reflexivity|].
  cbn [sorted_le] in S. apply andb_true_iff in S as [Hab S]. inversion Nd; subst.
  change (strictly_ascending (a :: b :: r')) with ((a <? b) && strictly_ascending (b :: r')).
  rewrite (IH S) by assumption.
  assert (a <> b) by (intros ->; apply H1; left; reflexivity).
  destruct (N.ltb_spec a b); [reflexivity | lia].
Qed.

Lemma mem_perm x l l' : Permutation l l' -> mem x l = mem x l'.
Proof.
  intros P. destruct (mem x l') eqn:M.
  - apply mem_In. apply mem_In in M. apply (Permutation_in _ (Permutation_sym P)). exact M.
  - apply not_true_is_false. intros M'. apply mem_In in M'. apply (Permutation_in _ P) in M'. apply mem_In in M'. congruence.
Qed.

Lemma existsb_perm {A} (f : A -> bool) l l' : Permutation l l' -> existsb f l = existsb f l'.
Proof.
  intros P. destruct (existsb f l') eqn:M.
  - apply existsb_exists in M as [x [I F]]. apply existsb_exists. exists x. split; [|exact F].
    apply (Permutation_in _ (Permutation_sym P)). exact I.
  - apply not_true_is_false. intros M'. apply existsb_exists in M' as [x [I F]].
    assert (existsb f l' = true) by (apply existsb_exists; exists x; split; [apply (Permutation_in _ P); exact I | exact F]).
    congruence.
Qed.

(** the order-independent rules on the given items are the positional rules on the sorted list *)
Theorem set_ok_sorted items : spec_set_ok (map fst items) = spec_composition (map fst (sort_items items)).
Proof.
  pose proof (Permutation_map fst (sort_perm items)) as P. pose proof (sort_sorted items) as S.
  unfold spec_set_ok, spec_composition.
  rewrite (mem_perm 0 _ _ P), (mem_perm 1 _ _ P), (existsb_perm _ _ _ P).
  f_equal. f_equal.
  destruct (no_dup (map fst items)) eqn:Nd.
  - symmetry. apply sorted_nodup_asc; [exact S|]. apply no_dup_NoDup in Nd.
    apply (Permutation_NoDup (Permutation_sym P)). exact Nd.
  - symmetry. apply not_true_is_false. intros A. apply not_true_iff_false in Nd. apply Nd.
    apply no_dup_NoDup. apply (Permutation_NoDup P).
    (* strictly ascending lists have no duplicates *)
    clear - A. induction (map fst (sort_items items)) as [|a r IH]; [constructor|].
    pose proof (asc_head _ _ A) as F. constructor.
    + intros I. rewrite Forall_forall in F. specialize (F a I). lia.
    + apply IH. exact (asc_tail _ _ A).
Qed.

(** [try_from_items]: accepted iff the order-independent rules hold; the container holds a
    permutation of the given items in strictly ascending typecode order *)
Theorem try_from_items_spec items :
  match try_from_items items with
  | Ok l => Permutation l items /\ spec_composition (map fst l) = true /\ spec_set_ok (map fst items) = true
  | Err _ => spec_set_ok (map fst items) = false
  | Panic => False
  end.
Proof.
  unfold try_from_items. destruct (check_items_cases (sort_items items)) as [C|[e C]]; rewrite C.
  - pose proof (check_items_sound _ C) as S. split; [apply sort_perm | split; [exact S|]].
    rewrite set_ok_sorted. exact S.
  - rewrite set_ok_sorted. exact (check_items_reject _ _ C).
Qed.
