(** C10 — top level string theorems: every address value of every kind and network encodes to a
    string that parses back to it (up to the documented Regtest/Testnet sharing), and every
    accepted string re-encodes to its own trimmed form. H, G range over all byte-valued functions. *)
From Coq Require Import String.
From V.Lib Require Import Base Hex.
From V.Gen Require Import C10Consts.
From V.C10 Require Import Model Spec PF4 PCs PCont PTop PRegroup PB32a PB32b PB58 PCompl.
From Coq Require Import List Lia ZifyBool ZifyNat.
Local Open Scope N_scope.

Ltac Zify.zify_post_hook ::= Z.div_mod_to_equations.

(** * trimming *)
Lemma drop_ws_id s : (forall c, In c s -> is_ws c = false) -> drop_ws s = s.
Proof. destruct s as [|c r]; [reflexivity|]. intros H. cbn [drop_ws]. rewrite (H c (or_introl eq_refl)). reflexivity. Qed.

Lemma trim_id s : (forall c, In c s -> is_ws c = false) -> trim s = s.
Proof.
  intros H. unfold trim. rewrite (drop_ws_id s H), drop_ws_id, rev_involutive; [reflexivity|].
  intros c Ic. apply H. apply in_rev. exact Ic.
Qed.

Lemma hrp_char_not_ws c : hrp_char_ok c = true -> is_ws c = false.
Proof. unfold hrp_char_ok, is_ws. lia. Qed.

Lemma b32_string_not_ws v hrp fes : hrp_okb hrp = true -> Forall (fun x => x < 32) fes ->
  forall c, In c (b32_string v hrp fes) -> is_ws c = false.
Proof.
  intros Hh Hf c Ic. unfold hrp_okb in Hh. apply andb_true_iff in Hh as [Hh _]. apply andb_true_iff in Hh as [_ C].
  rewrite forallb_forall in C. unfold b32_string in Ic. apply in_app_or in Ic as [Ic|[<-|Ic]].
  - apply hrp_char_not_ws. apply C. exact Ic.
  - reflexivity.
  - apply in_map_iff in Ic as [x [<- Ix]]. destruct (checksum_fes_facts v hrp fes) as [_ F6].
    assert (x < 32).
    { apply in_app_or in Ix as [Ix|Ix]; [rewrite Forall_forall in Hf; auto | rewrite Forall_forall in F6; auto]. }
    apply (fe_facts x H).
Qed.

Lemma b58_encode_not_ws b : forall c, In c (b58_encode b) -> is_ws c = false.
Proof.
  intros c Ic. rewrite b58_encode_unfold in Ic. apply in_map_iff in Ic as [d [<- Id]].
  assert (d < 58).
  { apply in_app_or in Id as [Id|Id]; [apply repeat_spec in Id; lia|].
    rewrite b58_digits_eq in Id. pose proof (digits_lt 58 ltac:(lia) (2 * length b) (be_val b 0)) as F.
    rewrite Forall_forall in F. auto. }
  apply (alpha_facts d H).
Qed.

(** * prefix facts *)
Lemma net_of_hrp_some f hrp n : net_of_hrp f hrp = Some n -> hrp = f n.
Proof.
  unfold net_of_hrp, str_eqb.
  destruct (bytes_eqb hrp (f Main)) eqn:E1; [intros Q; injection Q as <-; apply bytes_eqb_true; exact E1|].
  destruct (bytes_eqb hrp (f Test)) eqn:E2; [intros Q; injection Q as <-; apply bytes_eqb_true; exact E2|].
  destruct (bytes_eqb hrp (f Regtest)) eqn:E3; [intros Q; injection Q as <-; apply bytes_eqb_true; exact E3 | discriminate].
Qed.

Lemma hrp_sapling_ok n : hrp_okb (hrp_sapling n) = true /\ existsb is_lower (hrp_sapling n) = true.
Proof. destruct n; split; vm_compute; reflexivity. Qed.
Lemma hrp_tex_ok n : hrp_okb (hrp_tex n) = true /\ existsb is_lower (hrp_tex n) = true.
Proof. destruct n; split; vm_compute; reflexivity. Qed.
Lemma hrp_unified_ok k n : hrp_okb (hrp_unified k n) = true /\ existsb is_lower (hrp_unified k n) = true.
Proof. destruct k, n; split; vm_compute; reflexivity. Qed.
Lemma hrp_ok_no_upper hrp : hrp_okb hrp = true -> existsb is_upper hrp = false.
Proof. unfold hrp_okb. intros E. apply andb_true_iff in E as [_ U]. apply negb_true_iff. exact U. Qed.

Lemma tex_not_unified n : net_of_hrp (hrp_unified KAddr) (hrp_tex n) = None.
Proof. destruct n; vm_compute; reflexivity. Qed.

Lemma hrp_lens n k : len (hrp_sapling n) <= 15 /\ len (hrp_tex n) <= 15 /\ len (hrp_unified k n) <= 16.
Proof. destruct n, k; vm_compute; repeat split; discriminate. Qed.

(** * the parser, with its fall-through part named *)
Definition ft (s : list N) : outcome addr perr :=
  match b32_decode B32 BECH32_CODE_LENGTH s with
  | Some (hrp, fes) =>
      match net_of_hrp hrp_sapling hrp with
      | None => Err PNotZcash
      | Some n =>
          match fes_to_bytes fes with
          | None => Err PInvEnc
          | Some data => match fixed 43 data with Some d => Ok (ARaw n Sapling d) | None => Err PInvEnc end
          end
      end
  | None =>
      match b32_decode B32m BECH32_CODE_LENGTH s with
      | Some (hrp, fes) =>
          match net_of_hrp hrp_tex hrp with
          | None => Err PNotZcash
          | Some n =>
              match fes_to_bytes fes with
              | None => Err PInvEnc
              | Some data => match fixed 20 data with Some d => Ok (ARaw n Tex d) | None => Err PInvEnc end
              end
          end
      | None => parse_b58 s
      end
  end.

Lemma parse_address_unfold H G s0 :
  parse_address H G s0 =
  match unified_decode H G KAddr (trim s0) with
  | Ok (n, items) => Ok (AUni n items)
  | Err ENotUnified | Err (EUnkPrefix _) => ft (trim s0)
  | Err e => Err (from_unified_err e)
  | Panic => Panic
  end.
Proof. reflexivity. Qed.

Lemma expect_ok {A} (o : option A) x : expect o = Ok x -> o = Some x.
Proof. destruct o; cbn; [intros Q; inversion Q; reflexivity | discriminate]. Qed.

Lemma b32_decode_len v cl s x : b32_decode v cl s = Some x -> len s <= cl.
Proof.
  unfold b32_decode. destruct (span_not_sep (rev s) []) as [[data hrp_rev]|]; [|discriminate].
  destruct (map_opt fe_of_char data); [|discriminate]. destruct (_ && _); [discriminate|].
  destruct (_ || _ || _); [discriminate|]. destruct (N.ltb_spec cl (len s)); [discriminate | intros; assumption].
Qed.

Lemma fixed_ok n d : len d = n -> fixed n d = Some d.
Proof. intros E. unfold fixed. rewrite E, N.eqb_refl. reflexivity. Qed.
Lemma fixed_some n d x : fixed n d = Some x -> x = d /\ len d = n.
Proof. unfold fixed. destruct (N.eqb_spec (len d) n); [intros Q; injection Q as <-; split; [reflexivity | assumption] | discriminate]. Qed.

(** the explicit guard for Base58Check kinds: the string is not, by accident, a valid Bech32 or
    Bech32m string (the parser tries those encodings first and would answer NotZcash) *)
Definition not_bech32 (s : list N) : Prop :=
  b32_decode B32m ZIP316_CODE_LENGTH s = None /\ b32_decode B32 BECH32_CODE_LENGTH s = None /\
  b32_decode B32m BECH32_CODE_LENGTH s = None.

Definition is_b58 (k : akind) : bool := match k with Sprout | P2pkh | P2sh => true | _ => false end.

Section Top.
  Variable H : N -> nat -> bytes -> bytes.
  Variable G : N -> N -> bytes -> bytes.
  Hypothesis H_bytes : forall i l x, is_bytes (H i l x) = true.
  Hypothesis G_bytes : forall i j x, is_bytes (G i j x) = true.

  Lemma f4jumble_is_bytes m y : is_bytes m = true -> f4jumble H G m = Ok y -> is_bytes y = true.
  Proof.
    intros Hm. unfold f4jumble. destruct (f4_valid_len (length m)); [|discriminate].
    intros Q. inversion Q. unfold f4_join. apply is_bytes_app.
    apply (h_round_bytes H H_bytes), (g_round_bytes G G_bytes), (h_round_bytes H H_bytes), (g_round_bytes G G_bytes).
    split; cbn [f4_split fst snd]; [apply firstn_is_bytes | apply skipn_is_bytes]; assumption.
  Qed.

  (** ** Sapling and TEX *)
  Lemma sapling_roundtrip n d s :
    len d = 43 -> is_bytes d = true -> encode_address H G (ARaw n Sapling d) = Ok s ->
    parse_address H G s = Ok (ARaw n Sapling d).
  Proof.
    intros Ld Bd E. cbn [encode_address] in E. apply expect_ok in E.
    destruct (hrp_sapling_ok n) as [Hok _]. pose proof (hrp_ok_no_upper _ Hok) as U.
    destruct (b32_encode_shape _ _ _ _ _ U E) as [Es Hl].
    pose proof (b32_decode_encode _ _ _ _ _ Hok E) as D.
    rewrite parse_address_unfold.
    assert (T : trim s = s).
    { apply trim_id. rewrite Es. apply b32_string_not_ws; [exact Hok | apply bytes_to_fes_range]. }
    rewrite T. unfold unified_decode.
    rewrite (b32_variant_distinct B32 _ ZIP316_CODE_LENGTH _ _ D).
    unfold ft. rewrite D, net_of_hrp_sapling, (regroup_roundtrip d Bd), (fixed_ok 43 d Ld). reflexivity.
  Qed.

  Lemma tex_roundtrip n d s :
    len d = 20 -> is_bytes d = true -> encode_address H G (ARaw n Tex d) = Ok s ->
    parse_address H G s = Ok (ARaw n Tex d).
  Proof.
    intros Ld Bd E. cbn [encode_address] in E. apply expect_ok in E.
    destruct (hrp_tex_ok n) as [Hok _]. pose proof (hrp_ok_no_upper _ Hok) as U.
    destruct (b32_encode_shape _ _ _ _ _ U E) as [Es Hl].
    pose proof (b32_decode_encode _ _ _ _ _ Hok E) as D.
    rewrite parse_address_unfold.
    assert (T : trim s = s).
    { apply trim_id. rewrite Es. apply b32_string_not_ws; [exact Hok | apply bytes_to_fes_range]. }
    rewrite T. unfold unified_decode.
    assert (DZ : b32_decode B32m ZIP316_CODE_LENGTH s = Some (hrp_tex n, bytes_to_fes d)).
    { apply (b32_decode_code_len _ _ _ _ _ D). change BECH32_CODE_LENGTH with 1023 in Hl. change ZIP316_CODE_LENGTH with 4194368. lia. }
    rewrite DZ, tex_not_unified.
    unfold ft. rewrite (b32_variant_distinct B32m _ BECH32_CODE_LENGTH _ _ D).
    rewrite D, net_of_hrp_tex, (regroup_roundtrip d Bd), (fixed_ok 20 d Ld). reflexivity.
  Qed.

  Lemma b32_encode_fits v hrp d (m : nat) : length d = m -> len hrp <= 16 -> (m <= 100)%nat ->
    exists s, b32_encode v BECH32_CODE_LENGTH hrp d = Some s.
  Proof.
    clear H_bytes G_bytes. intros Ld Lh Lm. unfold b32_encode. cbv zeta.
    pose proof (bytes_to_fes_length d) as L. rewrite Ld in L.
    assert (LL : (length (bytes_to_fes d) <= 161)%nat).
    { rewrite L. apply Nat.div_le_upper_bound; lia. }
    destruct (N.ltb_spec BECH32_CODE_LENGTH (len hrp + 1 + len (bytes_to_fes d) + 6)) as [C|_]; [|eexists; reflexivity].
    exfalso. change BECH32_CODE_LENGTH with 1023 in C. unfold len in *. lia.
  Qed.

  Lemma raw_b32_encodes n k d : (k = Sapling /\ len d = 43) \/ (k = Tex /\ len d = 20) ->
    exists s, encode_address H G (ARaw n k d) = Ok s.
  Proof.
    clear H_bytes G_bytes. destruct (hrp_lens n KAddr) as [Hs [Ht _]].
    intros [[-> Ld]|[-> Ld]]; cbn [encode_address].
    - destruct (b32_encode_fits B32 (hrp_sapling n) d 43) as [s E]; [unfold len in Ld; lia | lia | lia|].
      rewrite E. eexists. reflexivity.
    - destruct (b32_encode_fits B32m (hrp_tex n) d 20) as [s E]; [unfold len in Ld; lia | lia | lia|].
      rewrite E. eexists. reflexivity.
  Qed.

  (** ** Base58Check kinds *)
  Lemma b58_roundtrip_addr n k d s :
    is_b58 k = true -> len d = spec_raw_len k -> is_bytes d = true ->
    encode_address H G (ARaw n k d) = Ok s -> not_bech32 s ->
    parse_address H G s = Ok (ARaw (norm_net k n) k d).
  Proof.
    intros K Ld Bd E [NB1 [NB2 NB3]].
    assert (Es : s = b58check_encode (b58_prefix k n ++ d)).
    { destruct k; try discriminate; cbn [encode_address] in E; inversion E; reflexivity. }
    assert (Bp : is_bytes (b58_prefix k n ++ d) = true).
    { apply is_bytes_app. split; [destruct k, n; reflexivity | exact Bd]. }
    pose proof (b58check_roundtrip _ Bp) as D. rewrite <- Es in D.
    rewrite parse_address_unfold.
    assert (T : trim s = s) by (apply trim_id; rewrite Es; apply b58_encode_not_ws).
    rewrite T. unfold unified_decode. rewrite NB1. unfold ft. rewrite NB2, NB3.
    unfold parse_b58. rewrite D.
    assert (L2 : (length (b58_prefix k n ++ d) <? 2)%nat = false).
    { apply Nat.ltb_ge. rewrite app_length.
      assert (length (b58_prefix k n) = 2%nat) by (destruct k, n; try discriminate; reflexivity). lia. }
    rewrite L2.
    destruct k; try discriminate; destruct n; cbn [b58_prefix spec_raw_len norm_net] in *;
      cbv [b58_sprout_main b58_sprout_test b58_sprout_regtest b58_pubkey_main b58_pubkey_test b58_pubkey_regtest
           b58_script_main b58_script_test b58_script_regtest];
      cbn [app firstn skipn]; cbn [str_eqb bytes_eqb N.eqb Pos.eqb andb];
      rewrite (fixed_ok _ d Ld); reflexivity.
  Qed.

  (** ** unified addresses *)
  Lemma unified_roundtrip k n items s :
    zip316_wf k items = true -> unified_encode H G k n items = Ok s ->
    unified_decode H G k s = Ok (n, items) /\ trim s = s.
  Proof.
    intros W E. unfold unified_encode in E. set (hrp := hrp_unified k n) in *.
    destruct (to_jumbled_bytes H G hrp items) as [j| |] eqn:J; try discriminate.
    destruct (b32_encode B32m ZIP316_CODE_LENGTH hrp j) as [s'|] eqn:Be; [|discriminate].
    injection E as ->.
    destruct (hrp_unified_ok k n) as [Hok _]. fold hrp in Hok. pose proof (hrp_ok_no_upper _ Hok) as U.
    pose proof (hrp_unified_short k n) as Lh. fold hrp in Lh.
    assert (Fj : f4jumble H G (raw_encoding items ++ padding hrp) = Ok j).
    { unfold to_jumbled_bytes in J. destruct (N.to_nat PADDING_LEN <? length hrp)%nat; [discriminate|].
      destruct (f4jumble H G _) as [b| |]; try discriminate. inversion J. reflexivity. }
    destruct (f4jumble_ok_length H G _ _ Fj) as [_ V].
    destruct (wf_items_ok k hrp items W V) as [Fi [Ci Br]].
    destruct (ua_roundtrip H G k hrp items Lh Fi Ci V) as [j' [J' [_ P]]].
    rewrite J in J'. injection J' as <-.
    assert (Bj : is_bytes j = true).
    { assert (Bp : is_bytes (padding hrp) = true).
      { unfold padding. apply is_bytes_app. split; [unfold hrp; destruct k, n; reflexivity|].
        apply is_bytes_Forall. apply repeat0_lt. lia. }
      apply (f4jumble_is_bytes _ _ (proj2 (is_bytes_app _ _) (conj Br Bp)) Fj). }
    destruct (b32_encode_shape _ _ _ _ _ U Be) as [Es Hl].
    split.
    - unfold unified_decode. fold hrp. rewrite (b32_decode_encode _ _ _ _ _ Hok Be).
      unfold hrp. rewrite net_of_hrp_unified. fold hrp. rewrite (regroup_roundtrip j Bj), P. reflexivity.
    - apply trim_id. rewrite Es. apply b32_string_not_ws; [exact Hok | apply bytes_to_fes_range].
  Qed.

  (** ** every kind *)
  Definition norm_addr (a : addr) : addr :=
    match a with ARaw n k d => ARaw (norm_net k n) k d | AUni _ _ => a end.

  Theorem kind_roundtrip a s :
    spec_addr_ok a = true -> encode_address H G a = Ok s ->
    (match a with ARaw _ k _ => is_b58 k = true -> not_bech32 s | AUni _ _ => True end) ->
    parse_address H G s = Ok (norm_addr a).
  Proof.
    intros W E Gd. destruct a as [n k d|n items]; cbn [spec_addr_ok] in W.
    - apply andb_true_iff in W as [Ld Bd]. apply N.eqb_eq in Ld. cbn [norm_addr].
      destruct k.
      + apply b58_roundtrip_addr; auto.
      + cbn [norm_net]. apply sapling_roundtrip; auto.
      + apply b58_roundtrip_addr; auto.
      + apply b58_roundtrip_addr; auto.
      + cbn [norm_net]. apply tex_roundtrip; auto.
    - cbn [encode_address norm_addr] in *.
      destruct (unified_roundtrip KAddr n items s W E) as [D T].
      rewrite parse_address_unfold, T, D. reflexivity.
  Qed.
End Top.

(** * accepted => canonical *)
Lemma b32_encode_string v cl hrp data : existsb is_upper hrp = false ->
  len (b32_string v hrp (bytes_to_fes data)) <= cl ->
  b32_encode v cl hrp data = Some (b32_string v hrp (bytes_to_fes data)).
Proof.
  intros U Hl. unfold b32_encode. cbv zeta.
  destruct (checksum_fes_facts v hrp (bytes_to_fes data)) as [L6 _].
  assert (E : len (b32_string v hrp (bytes_to_fes data)) = len hrp + 1 + len (bytes_to_fes data) + 6).
  { unfold b32_string, len. rewrite app_length. cbn [length]. rewrite map_length, app_length, L6. lia. }
  destruct (N.ltb_spec cl (len hrp + 1 + len (bytes_to_fes data) + 6)); [lia|].
  rewrite (to_lower_id _ U). reflexivity.
Qed.

Section Accept.
  Variable H : N -> nat -> bytes -> bytes.
  Variable G : N -> N -> bytes -> bytes.
  Hypothesis H_bytes : forall i l x, is_bytes (H i l x) = true.
  Hypothesis G_bytes : forall i j x, is_bytes (G i j x) = true.

  (** a unified container string that is accepted is well-formed per ZIP 316 and is exactly the
      encoding of the container returned *)
  Theorem unified_accept_canonical k s n items :
    unified_decode H G k s = Ok (n, items) ->
    zip316_wf k items = true /\ unified_encode H G k n items = Ok s.
  Proof.
    unfold unified_decode.
    destruct (b32_decode B32m ZIP316_CODE_LENGTH s) as [[hrp fes]|] eqn:D; [|discriminate].
    destruct (net_of_hrp (hrp_unified k) hrp) as [n'|] eqn:Nh; [|discriminate].
    destruct (fes_to_bytes fes) as [data|] eqn:Fb; [|discriminate].
    destruct (parse_internal H G k hrp data) as [its| |] eqn:P; try discriminate.
    intros Q. injection Q as <- <-.
    apply net_of_hrp_some in Nh. subst hrp.
    destruct (hrp_unified_ok k n') as [Hok Hlow]. pose proof (hrp_ok_no_upper _ Hok) as U.
    destruct (b32_decode_canonical _ _ _ _ _ D U Hlow) as [Es [Ff [Hl _]]].
    destruct (regroup_canonical _ _ Ff Fb) as [Rf Bd].
    destruct (ua_accept_sound H G H_bytes G_bytes _ _ _ _ Bd P) as [W [_ [_ J]]].
    split; [exact W|]. unfold unified_encode. rewrite J.
    rewrite b32_encode_string; [rewrite Rf, <- Es; reflexivity | exact U | rewrite Rf, <- Es; exact Hl].
  Qed.

  Lemma b58_branch s dec n k pre a :
    b58check_decode s = Some dec -> str_eqb (firstn 2 dec) pre = true -> b58_prefix k n = pre -> is_b58 k = true ->
    (match fixed (spec_raw_len k) (skipn 2 dec) with Some d => Ok (ARaw n k d) | None => Err PInvEnc end) = Ok a ->
    encode_address H G a = Ok s /\ spec_addr_ok a = true.
  Proof.
    intros D Ep Pk K E. destruct (b58check_canonical _ _ D) as [Ec Bdec].
    destruct (fixed (spec_raw_len k) (skipn 2 dec)) as [d|] eqn:Fx; [|discriminate].
    injection E as <-. apply fixed_some in Fx as [-> Ld].
    apply bytes_eqb_true in Ep.
    assert (Bd : is_bytes (skipn 2 dec) = true) by (apply skipn_is_bytes; exact Bdec).
    split.
    - assert (encode_address H G (ARaw n k (skipn 2 dec)) = Ok (b58check_encode (b58_prefix k n ++ skipn 2 dec))).
      { destruct k; try discriminate; reflexivity. }
      rewrite H0, Pk, <- Ep, firstn_skipn, Ec. reflexivity.
    - cbn [spec_addr_ok]. rewrite Ld, N.eqb_refl, Bd. reflexivity.
  Qed.

  Lemma ft_accept s a : ft s = Ok a -> encode_address H G a = Ok s /\ spec_addr_ok a = true.
  Proof.
    unfold ft.
    destruct (b32_decode B32 BECH32_CODE_LENGTH s) as [[hrp fes]|] eqn:D1.
    - destruct (net_of_hrp hrp_sapling hrp) as [n|] eqn:Nh; [|discriminate].
      destruct (fes_to_bytes fes) as [data|] eqn:Fb; [|discriminate].
      destruct (fixed 43 data) as [d|] eqn:Fx; [|discriminate].
      intros Q. injection Q as <-. apply fixed_some in Fx as [-> Ld].
      apply net_of_hrp_some in Nh. subst hrp.
      destruct (hrp_sapling_ok n) as [Hok Hlow]. pose proof (hrp_ok_no_upper _ Hok) as U.
      destruct (b32_decode_canonical _ _ _ _ _ D1 U Hlow) as [Es [Ff [Hl _]]].
      destruct (regroup_canonical _ _ Ff Fb) as [Rf Bd].
      split.
      + cbn [encode_address]. rewrite b32_encode_string; [rewrite Rf, <- Es; reflexivity | exact U | rewrite Rf, <- Es; exact Hl].
      + cbn [spec_addr_ok spec_raw_len]. rewrite Ld, Bd. reflexivity.
    - destruct (b32_decode B32m BECH32_CODE_LENGTH s) as [[hrp fes]|] eqn:D2.
      + destruct (net_of_hrp hrp_tex hrp) as [n|] eqn:Nh; [|discriminate].
        destruct (fes_to_bytes fes) as [data|] eqn:Fb; [|discriminate].
        destruct (fixed 20 data) as [d|] eqn:Fx; [|discriminate].
        intros Q. injection Q as <-. apply fixed_some in Fx as [-> Ld].
        apply net_of_hrp_some in Nh. subst hrp.
        destruct (hrp_tex_ok n) as [Hok Hlow]. pose proof (hrp_ok_no_upper _ Hok) as U.
        destruct (b32_decode_canonical _ _ _ _ _ D2 U Hlow) as [Es [Ff [Hl _]]].
        destruct (regroup_canonical _ _ Ff Fb) as [Rf Bd].
        split.
        * cbn [encode_address]. rewrite b32_encode_string; [rewrite Rf, <- Es; reflexivity | exact U | rewrite Rf, <- Es; exact Hl].
        * cbn [spec_addr_ok spec_raw_len]. rewrite Ld, Bd. reflexivity.
      + unfold parse_b58. destruct (b58check_decode s) as [dec|] eqn:D; [|discriminate].
        destruct (length dec <? 2)%nat; [discriminate|].
        destruct (str_eqb (firstn 2 dec) b58_pubkey_main) eqn:E1; [apply (b58_branch s dec Main P2pkh _ a D E1); reflexivity|].
        destruct (str_eqb (firstn 2 dec) b58_script_main) eqn:E2; [apply (b58_branch s dec Main P2sh _ a D E2); reflexivity|].
        destruct (str_eqb (firstn 2 dec) b58_sprout_main) eqn:E3; [apply (b58_branch s dec Main Sprout _ a D E3); reflexivity|].
        destruct (str_eqb (firstn 2 dec) b58_pubkey_test) eqn:E4; [apply (b58_branch s dec Test P2pkh _ a D E4); reflexivity|].
        destruct (str_eqb (firstn 2 dec) b58_script_test) eqn:E5; [apply (b58_branch s dec Test P2sh _ a D E5); reflexivity|].
        destruct (str_eqb (firstn 2 dec) b58_sprout_test) eqn:E6; [apply (b58_branch s dec Test Sprout _ a D E6); reflexivity|].
        discriminate.
  Qed.

  (** every string the parser accepts denotes a well-formed address and re-encodes to its own
      trimmed form *)
  Theorem parse_accept_canonical s0 a :
    parse_address H G s0 = Ok a -> encode_address H G a = Ok (trim s0) /\ spec_addr_ok a = true.
  Proof.
    rewrite parse_address_unfold.
    destruct (unified_decode H G KAddr (trim s0)) as [[n items]|e|] eqn:U; [| |discriminate].
    - intros Q. injection Q as <-. destruct (unified_accept_canonical _ _ _ _ U) as [W E].
      split; [exact E | exact W].
    - destruct e; try discriminate; apply ft_accept.
  Qed.

  (** distinct accepted (trimmed) strings denote distinct addresses *)
  Corollary parse_injective s1 s2 a :
    parse_address H G s1 = Ok a -> parse_address H G s2 = Ok a -> trim s1 = trim s2.
  Proof.
    intros E1 E2. destruct (parse_accept_canonical _ _ E1) as [C1 _]. destruct (parse_accept_canonical _ _ E2) as [C2 _].
    rewrite C1 in C2. inversion C2. reflexivity.
  Qed.
End Accept.
