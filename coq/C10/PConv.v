(** C10 — [convert_if_network]: the network check accepts exactly the documented exception, never
    panics, and what it hands to the converter rebuilds to the very same address. *)
From Coq Require Import String.
From V.Lib Require Import Base Hex.
From V.Gen Require Import C10Consts.
From V.C10 Require Import Model Spec.
From Coq Require Import List.
Local Open Scope N_scope.

Definition with_net (e : net) (a : addr) : addr :=
  match a with ARaw _ k d => ARaw e k d | AUni _ items => AUni e items end.

(** the decision table: accepted iff the networks are equal, or the kind is one of Sprout / P2PKH /
    P2SH and a testnet address is expected on regtest; the converter then sees the expected network *)
Theorem convert_decision a e :
  convert_if_network a e =
  if spec_convertible a e then Ok (with_net e a) else Err (e, addr_net a).
Proof. destruct a as [n k d|n items]; [destruct k|]; destruct n, e; reflexivity. Qed.

Theorem convert_total a e : convert_if_network a e <> Panic.
Proof. rewrite convert_decision. destruct (spec_convertible a e); discriminate. Qed.

Theorem convertible_iff a e :
  spec_convertible a e = true <->
  addr_net a = e \/ (exists n k d, a = ARaw n k d /\ spec_shared k = true /\ n = Test /\ e = Regtest).
Proof.
  split.
  - destruct a as [n k d|n items]; [destruct k|]; destruct n, e; cbn; intros E; try discriminate;
      try (left; reflexivity); right; eauto 8.
  - intros [<-|[n [k [d [-> [S [-> ->]]]]]]].
    + destruct a as [n k d|n items]; [destruct k|]; destruct n; reflexivity.
    + destruct k; try discriminate; reflexivity.
Qed.

(** for an address as the constructors build it (network normalised), an accepted conversion
    hands on a value that the constructors rebuild to the same address — hence the same string;
    and kinds with a distinct prefix per network are accepted on their own network only *)
Theorem convert_canonical a e a' :
  (match a with ARaw n k _ => norm_net k n = n | AUni _ _ => True end) ->
  convert_if_network a e = Ok a' ->
  spec_rebuild a' = a /\ addr_net a' = e /\
  (match a with ARaw _ k _ => spec_shared k = false -> a' = a | AUni _ _ => a' = a end).
Proof.
  rewrite convert_decision. destruct (spec_convertible a e) eqn:C; [|discriminate].
  intros Nn Q. injection Q as <-.
  destruct a as [n k d|n items]; [destruct k|]; destruct n, e; try discriminate; cbn in *;
    repeat split; try reflexivity; try discriminate; intros; try discriminate; reflexivity.
Qed.
