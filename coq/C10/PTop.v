(** C10 — top level: no string makes the parser panic; the network prefix tables are injective
    except for the documented testnet/regtest sharing. *)
From Coq Require Import String.
From V.Lib Require Import Base Hex.
From V.Gen Require Import C10Consts.
From V.C10 Require Import Model Spec PF4 PCs PCont.
From Coq Require Import List Lia.
Local Open Scope N_scope.

Theorem unified_decode_total H G k s : unified_decode H G k s <> Panic.
Proof.
  unfold unified_decode.
  destruct (b32_decode B32m ZIP316_CODE_LENGTH s) as [[hrp fes]|]; [|discriminate].
  destruct (net_of_hrp (hrp_unified k) hrp); [|discriminate].
  destruct (fes_to_bytes fes) as [data|]; [|discriminate].
  pose proof (parse_internal_total H G k hrp data) as T.
  destruct (parse_internal H G k hrp data); [discriminate | discriminate | congruence].
Qed.

Lemma parse_b58_total s : parse_b58 s <> Panic.
Proof.
  unfold parse_b58. destruct (b58check_decode s) as [dec|]; [|discriminate].
  destruct (length dec <? 2)%nat; [discriminate|].
  repeat match goal with
         | |- context [if ?c then _ else _] => destruct c
         | |- context [match fixed ?l ?b with _ => _ end] => destruct (fixed l b)
         end; discriminate.
Qed.

Theorem parse_address_total H G s : parse_address H G s <> Panic.
Proof.
  unfold parse_address.
  pose proof (unified_decode_total H G KAddr (trim s)) as U.
  destruct (unified_decode H G KAddr (trim s)) as [[n items]|e|]; [discriminate| |congruence].
  assert (F : forall r : outcome addr perr,
             r = match b32_decode B32 BECH32_CODE_LENGTH (trim s) with
                 | Some (hrp, fes) =>
                     match net_of_hrp hrp_sapling hrp with
                     | None => Err PNotZcash
                     | Some n =>
                         match fes_to_bytes fes with
                         | None => Err PInvEnc
                         | Some data => match fixed 43 data with Some d => Ok (ARaw n Sapling d) | None => Err PInvEnc end
                         end
                     end
                 | None =>
                     match b32_decode B32m BECH32_CODE_LENGTH (trim s) with
                     | Some (hrp, fes) =>
                         match net_of_hrp hrp_tex hrp with
                         | None => Err PNotZcash
                         | Some n =>
                             match fes_to_bytes fes with
                             | None => Err PInvEnc
                             | Some data => match fixed 20 data with Some d => Ok (ARaw n Tex d) | None => Err PInvEnc end
                             end
                         end
                     | None => parse_b58 (trim s)
                     end
                 end -> r <> Panic).
  { intros r ->.
    destruct (b32_decode B32 _ _) as [[hrp fes]|].
    - destruct (net_of_hrp hrp_sapling hrp); [|discriminate].
      destruct (fes_to_bytes fes) as [d|]; [|discriminate]. destruct (fixed 43 d); discriminate.
    - destruct (b32_decode B32m _ _) as [[hrp fes]|]; [|apply parse_b58_total].
      destruct (net_of_hrp hrp_tex hrp); [|discriminate].
      destruct (fes_to_bytes fes) as [d|]; [|discriminate]. destruct (fixed 20 d); discriminate. }
  destruct e; try discriminate; apply F; reflexivity.
Qed.

(** every error of the unified layer other than "not unified"/"unknown prefix" is final *)

(** prefix tables *)
Definition shared (k : akind) : Prop := k = Sprout \/ k = P2pkh \/ k = P2sh.

Ltac decide_tbl :=
  repeat match goal with
         | n : net |- _ => destruct n
         | k : akind |- _ => destruct k
         | k : ckind |- _ => destruct k
         end;
  repeat split; intros; try reflexivity; try tauto;
  try match goal with E : _ = _ |- _ => vm_compute in E; discriminate E end.

Theorem hrp_sapling_injective n n' : hrp_sapling n = hrp_sapling n' -> n = n'.
Proof. decide_tbl. Qed.
Theorem hrp_tex_injective n n' : hrp_tex n = hrp_tex n' -> n = n'.
Proof. decide_tbl. Qed.
Theorem hrp_unified_injective k k' n n' : hrp_unified k n = hrp_unified k' n' -> k = k' /\ n = n'.
Proof. decide_tbl. Qed.
Theorem hrp_kinds_disjoint k n n' n'' :
  hrp_unified k n <> hrp_sapling n' /\ hrp_unified k n <> hrp_tex n'' /\ hrp_sapling n' <> hrp_tex n''.
Proof. destruct k, n, n', n''; repeat split; intro E; vm_compute in E; discriminate E. Qed.

Definition is_b58_kind (k : akind) : Prop := k = Sprout \/ k = P2pkh \/ k = P2sh.

(** Base58Check prefixes: two (kind, network) pairs share a prefix iff they are the same kind and
    the same network up to the documented identification of Regtest with Testnet *)
Theorem b58_prefix_sharing k k' n n' :
  is_b58_kind k -> is_b58_kind k' ->
  (b58_prefix k n = b58_prefix k' n' <-> k = k' /\ norm_net k n = norm_net k' n').
Proof.
  intros [ -> | [ -> | -> ] ] [ -> | [ -> | -> ] ]; destruct n, n'; split; intros E;
    try (split; reflexivity); try reflexivity;
    try (vm_compute in E; discriminate E);
    try (destruct E as [E1 E2]; first [discriminate E1 | vm_compute in E2; discriminate E2]).
Qed.

(** hence the only distinct networks whose encodings of one kind coincide are Test and Regtest,
    and only for Sprout, P2PKH and P2SH *)
Corollary prefix_sharing_only_test_regtest k n n' :
  is_b58_kind k -> b58_prefix k n = b58_prefix k n' -> n <> n' ->
  (n = Test /\ n' = Regtest) \/ (n = Regtest /\ n' = Test).
Proof.
  intros K E D. apply (b58_prefix_sharing k k n n' K K) in E as [_ E].
  destruct K as [ -> | [ -> | -> ] ]; destruct n, n'; cbn in E; try congruence; auto.
Qed.

(** the prefix lookups used by the decoders invert the tables *)
Theorem net_of_hrp_sapling n : net_of_hrp hrp_sapling (hrp_sapling n) = Some n.
Proof. destruct n; reflexivity. Qed.
Theorem net_of_hrp_tex n : net_of_hrp hrp_tex (hrp_tex n) = Some n.
Proof. destruct n; reflexivity. Qed.
Theorem net_of_hrp_unified k n : net_of_hrp (hrp_unified k) (hrp_unified k n) = Some n.
Proof. destruct k, n; reflexivity. Qed.
Theorem hrp_unified_short k n : (length (hrp_unified k n) <= 16)%nat.
Proof. destruct k, n; vm_compute; lia. Qed.

(** constructors: the normalisation of the network is exactly the documented sharing *)
Theorem from_raw_spec n k d : from_raw n k d = ARaw (spec_ctor_net k n) k d.
Proof. destruct n, k; reflexivity. Qed.
