(** C10 — domain of the theorems as a boolean on cases: byte strings are bytes, strings are lists
    of Unicode scalar values, and values handed to the encoders are values of the Rust types
    (fixed-size arrays have their size; Unknown items carry an unknown typecode). *)
From Coq Require Import String.
From V.Lib Require Import Base Hex.
From V.Gen Require Import C10Consts.
From V.C10 Require Import Model Spec Corr.
From Coq Require Import List.
Local Open Scope N_scope.

Definition is_str (s : list N) : bool := forallb (fun c => (c <? 1114112) && negb ((55296 <=? c) && (c <=? 57343))) s.
Definition wf_entry (e : hg_entry) : bool :=
  match e with (tg, i, j, x, y) => (tg <? 2) && (i <? 2) && is_bytes x && is_bytes y end.
Definition wf_tbl (t : list hg_entry) : bool := forallb wf_entry t.

(** an item as a Rust value may hold: a known variant (typecode below 4, fixed size) or an Unknown
    variant with any other u32 typecode *)
Definition wf_item_raw (k : ckind) (it : item) : bool :=
  (fst it <=? U32_MAX) && is_bytes (snd it) &&
  (if fst it <? 4 then option_eqb N.eqb (spec_known_len k (fst it)) (Some (len (snd it))) else true).
(** an item of a container value inside the domain of the round-trip theorems *)
Definition wf_items (k : ckind) (items : list item) : bool := zip316_wf k items.

(** address values as the public constructors build them: well-formed, and the network already
    normalised (Regtest -> Test for Sprout / P2PKH / P2SH) *)
Definition wf_addr (a : addr) : bool :=
  spec_addr_ok a && match a with ARaw n k _ => net_eqb (norm_net k n) n | AUni _ _ => true end.

(** guard of the Base58Check round trip: the produced string is not, by accident, also a valid
    Bech32 / Bech32m string (the parser tries those encodings first and would answer NotZcash);
    no such value is known and none can be found by search (probability about 2^-60 per value) *)
Definition not_bech32b (s : list N) : bool :=
  match b32_decode B32m ZIP316_CODE_LENGTH s, b32_decode B32 BECH32_CODE_LENGTH s, b32_decode B32m BECH32_CODE_LENGTH s with
  | None, None, None => true
  | _, _, _ => false
  end.
Definition enc_guard (a : addr) (o : sres) : bool :=
  match a, o with
  | ARaw _ k _, Ok s => if spec_shared k then not_bech32b s else true
  | _, _ => true
  end.

Definition wf_case (c : case) : bool :=
  match c with
  | CJumble m t _ _ | CJumbleInv m t _ _ => is_bytes m && wf_tbl t
  | CCsRead b _ => is_bytes b
  | CCsWrite n _ => n <=? 18446744073709551615
  | CFromItems k items _ => forallb (wf_item_raw k) items
  | CUEnc k _ items t _ _ => wf_items k items && wf_tbl t
  | CUDec _ s t _ _ => is_str s && wf_tbl t
  | CCtor _ k d _ => (len d =? spec_raw_len k) && is_bytes d
  | CEnc a t o _ => wf_addr a && wf_tbl t && enc_guard a o
  | CParse s t _ _ => is_str s && wf_tbl t
  | CConv a _ _ => wf_addr a
  | CKDec hrp s _ _ _ => is_str s && is_str hrp && negb (existsb is_upper hrp) && existsb is_lower hrp
  end.
