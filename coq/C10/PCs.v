(** C10 — CompactSize: read after write, and canonicity of every accepted encoding. *)
From Coq Require Import String.
From V.Lib Require Import Base Hex.
From V.Gen Require Import C10Consts.
From V.C10 Require Import Model.
From Coq Require Import List Lia ZifyBool.
Local Open Scope N_scope.

Ltac Zify.zify_post_hook ::= Z.div_mod_to_equations.

Lemma is_bytes_cons x b : is_bytes (x :: b) = true <-> x < 256 /\ is_bytes b = true.
Proof. unfold is_bytes, is_byte. cbn [forallb]. rewrite andb_true_iff, N.ltb_lt. tauto. Qed.

Lemma is_bytes_app a b : is_bytes (a ++ b) = true <-> is_bytes a = true /\ is_bytes b = true.
Proof. unfold is_bytes. rewrite forallb_app, andb_true_iff. tauto. Qed.

Lemma le_n_length k : forall x, length (le_n k x) = k.
Proof. induction k; intros; simpl; [reflexivity | f_equal; auto]. Qed.

Lemma le_n_is_bytes k : forall x, is_bytes (le_n k x) = true.
Proof.
  induction k; intros x; [reflexivity|]. cbn [le_n]. apply is_bytes_cons. split; [|apply IHk].
  apply N.mod_lt. lia.
Qed.

Lemma le_val_le_n k : forall x, x < 256 ^ N.of_nat k -> le_val (le_n k x) = x.
Proof.
  induction k as [|k IH]; intros x Hx.
  - simpl in Hx. cbn. lia.
  - cbn [le_n le_val]. rewrite IH.
    + pose proof (N.div_mod x 256 ltac:(lia)). lia.
    + rewrite Nat2N.inj_succ, N.pow_succ_r' in Hx. apply N.div_lt_upper_bound; lia.
Qed.

Lemma le_val_bound b : is_bytes b = true -> le_val b < 256 ^ N.of_nat (length b).
Proof.
  induction b as [|x b IH]; intros Hb; [cbn; lia|].
  apply is_bytes_cons in Hb as [Hx Hb]. specialize (IH Hb).
  cbn [le_val length]. rewrite Nat2N.inj_succ, N.pow_succ_r'. lia.
Qed.

Lemma le_n_le_val b : is_bytes b = true -> le_n (length b) (le_val b) = b.
Proof.
  induction b as [|x b IH]; intros Hb; [reflexivity|].
  apply is_bytes_cons in Hb as [Hx Hb]. cbn [le_val length le_n].
  replace ((x + 256 * le_val b) mod 256) with x.
  - replace ((x + 256 * le_val b) / 256) with (le_val b); [rewrite IH by assumption; reflexivity|].
    apply N.div_unique with x; lia.
  - apply N.mod_unique with (le_val b); lia.
Qed.

Lemma take_app k x r : length x = k -> take k (x ++ r) = Some (x, r).
Proof.
  intros L. unfold take. rewrite app_length.
  destruct (Nat.ltb_spec (length x + length r) k); [lia|].
  rewrite firstn_app, skipn_app, L, Nat.sub_diag, <- L, firstn_all, skipn_all. cbn. rewrite app_nil_r. reflexivity.
Qed.

Lemma take_some k b x r : take k b = Some (x, r) -> b = x ++ r /\ length x = k.
Proof.
  unfold take. destruct (Nat.ltb_spec (length b) k); [discriminate|].
  intros E. inversion E. subst. split; [symmetry; apply firstn_skipn|]. apply firstn_length_le. assumption.
Qed.

Lemma max_cs_val : MAX_COMPACT_SIZE = 33554432.
Proof. reflexivity. Qed.

Lemma cs_wide_write k lo n r :
  n < 256 ^ N.of_nat k -> lo <= n -> n <= MAX_COMPACT_SIZE ->
  cs_wide k lo (le_n k n ++ r) = Ok (n, r).
Proof.
  intros Hb Hlo Hmax. unfold cs_wide. rewrite take_app by apply le_n_length.
  rewrite le_val_le_n by assumption.
  destruct (N.ltb_spec n lo); [lia|]. unfold cs_fin.
  destruct (N.ltb_spec MAX_COMPACT_SIZE n); [lia | reflexivity].
Qed.

Theorem cs_roundtrip n r : n <= MAX_COMPACT_SIZE -> cs_read (cs_write n ++ r) = Ok (n, r).
Proof.
  intros Hmax. pose proof max_cs_val as MV. unfold cs_write.
  destruct (N.ltb_spec n 253) as [H1|H1].
  - cbn [app cs_read]. destruct (N.ltb_spec n 253); [|lia]. unfold cs_fin.
    destruct (N.ltb_spec MAX_COMPACT_SIZE n); [lia | reflexivity].
  - destruct (N.leb_spec n 65535) as [H2|H2].
    + cbn [app cs_read]. change (253 <? 253) with false. change (253 =? 253) with true. cbv iota.
      apply cs_wide_write; [change (256 ^ N.of_nat 2) with 65536; lia | lia | lia].
    + destruct (N.leb_spec n 4294967295) as [H3|H3]; [|lia].
      cbn [app cs_read]. change (254 <? 253) with false. change (254 =? 253) with false. change (254 =? 254) with true. cbv iota.
      apply cs_wide_write; [change (256 ^ N.of_nat 4) with 4294967296; lia | lia | lia].
Qed.

Lemma cs_wide_ok k lo r n r' :
  is_bytes r = true -> cs_wide k lo r = Ok (n, r') ->
  exists x, r = x ++ r' /\ length x = k /\ n = le_val x /\ lo <= n /\ n <= MAX_COMPACT_SIZE /\ le_n k n = x.
Proof.
  intros Hb. unfold cs_wide. destruct (take k r) as [[x r1]|] eqn:T; [|discriminate].
  apply take_some in T as [E L]. subst r. apply is_bytes_app in Hb as [Hx _].
  destruct (N.ltb_spec (le_val x) lo); [discriminate|]. unfold cs_fin.
  destruct (N.ltb_spec MAX_COMPACT_SIZE (le_val x)); [discriminate|].
  intros Q. injection Q as <- <-. exists x. repeat split; try assumption; try reflexivity.
  rewrite <- L. apply le_n_le_val. assumption.
Qed.

(** every accepted encoding is the one [cs_write] produces (shortest form), below the maximum *)
Theorem cs_canonical b n r :
  is_bytes b = true -> cs_read b = Ok (n, r) -> b = cs_write n ++ r /\ n <= MAX_COMPACT_SIZE.
Proof.
  intros Hb. pose proof max_cs_val as MV. destruct b as [|flag b]; [discriminate|].
  apply is_bytes_cons in Hb as [Hf Hb]. cbn [cs_read].
  destruct (N.ltb_spec flag 253) as [H1|H1].
  - unfold cs_fin. destruct (N.ltb_spec MAX_COMPACT_SIZE flag); [discriminate|].
    intros Q. inversion Q. subst. split; [|assumption]. unfold cs_write.
    destruct (N.ltb_spec n 253); [reflexivity | lia].
  - destruct (N.eqb_spec flag 253) as [->|H2].
    + intros Q. destruct (cs_wide_ok _ _ _ _ _ Hb Q) as [x [E [L [V [Lo [Hi W]]]]]].
      split; [|assumption]. subst b. unfold cs_write.
      assert (Bx : is_bytes x = true) by (apply is_bytes_app in Hb; tauto).
      pose proof (le_val_bound x Bx) as Bd. rewrite L in Bd. change (256 ^ N.of_nat 2) with 65536 in Bd.
      destruct (N.ltb_spec n 253); [lia|]. destruct (N.leb_spec n 65535); [|lia].
      rewrite W. reflexivity.
    + destruct (N.eqb_spec flag 254) as [->|H3].
      * intros Q. destruct (cs_wide_ok _ _ _ _ _ Hb Q) as [x [E [L [V [Lo [Hi W]]]]]].
        split; [|assumption]. subst b. unfold cs_write.
        destruct (N.ltb_spec n 253); [lia|]. destruct (N.leb_spec n 65535); [lia|].
        destruct (N.leb_spec n 4294967295); [|lia]. rewrite W. reflexivity.
      * intros Q. destruct (cs_wide_ok _ _ _ _ _ Hb Q) as [x [E [L [V [Lo [Hi W]]]]]]. lia.
Qed.

Lemma cs_read_not_panic b : cs_read b <> Panic.
Proof.
  destruct b as [|f b]; [discriminate|]. cbn [cs_read]. unfold cs_wide, cs_fin.
  repeat match goal with
         | |- context [if ?c then _ else _] => destruct c
         | |- context [match take ?k ?r with _ => _ end] => destruct (take k r) as [[? ?]|]
         end; discriminate.
Qed.

(** a successful read consumes at least one byte *)
Lemma cs_read_shorter b n r : cs_read b = Ok (n, r) -> (length r < length b)%nat.
Proof.
  destruct b as [|f b]; [discriminate|]. cbn [cs_read length]. unfold cs_wide, cs_fin.
  repeat match goal with
         | |- context [if ?c then _ else _] => destruct c
         | |- context [match take ?k ?r with _ => _ end] => destruct (take k r) as [[? ?]|] eqn:?
         end; try discriminate; intros Q; inversion Q; subst; try lia;
    match goal with H : take _ _ = Some _ |- _ => apply take_some in H as [-> ?]; rewrite app_length; lia end.
Qed.

Lemma cs_write_is_bytes n : n < 2 ^ 64 -> is_bytes (cs_write n) = true.
Proof.
  intros Hn. unfold cs_write.
  repeat match goal with |- context [if ?c then _ else _] => destruct c eqn:? end;
    try (apply is_bytes_cons; split; [lia | apply le_n_is_bytes]).
  apply is_bytes_cons. split; [lia | reflexivity].
Qed.
