(** C10 — bridge: on a well-formed case outside the known-finding class, agreement of the
    implementation with the model ([run_case]) implies the property on the implementation's
    outcome ([prop_case]), for every case constructor. For [CEnc] of a Base58Check kind the case
    must also satisfy the visible guard (part of [wf_case]) that the produced string is not by accident a valid
    Bech32/Bech32m string. *)
From Coq Require Import String.
From V.Lib Require Import Base Hex.
From V.Gen Require Import C10Consts.
From V.C10 Require Import Model Spec Corr Wf PF4 PCs PCont PTop PRegroup PB32a PB32b PB58 PCompl PTop2 PSort PConv PKeys.
From Coq Require Import Permutation.
From Coq Require Import List Lia ZifyBool ZifyNat.
Local Open Scope N_scope.

Ltac Zify.zify_post_hook ::= Z.div_mod_to_equations.

(** * boolean equalities *)
Lemma bytes_eqb_refl b : bytes_eqb b b = true.
Proof. apply bytes_eqb_eq. reflexivity. Qed.

Lemma bres_eqb_eq (a b : bres) : bres_eqb a b = true -> a = b.
Proof.
  destruct a as [x| []|], b as [y|[]|]; cbn; try discriminate; try reflexivity.
  intros E. apply bytes_eqb_eq in E. congruence.
Qed.
Lemma sres_eqb_refl (a : sres) : sres_eqb a a = true.
Proof. destruct a as [x|[]|]; cbn; [apply bytes_eqb_refl | reflexivity | reflexivity]. Qed.

Lemma option_eqb_true {A} (eqa : A -> A -> bool) x y :
  (forall a b, eqa a b = true -> a = b) -> option_eqb eqa x y = true -> x = y.
Proof. intros Hq. destruct x, y; cbn; try discriminate; [intros E; f_equal; apply Hq; exact E | reflexivity]. Qed.

Lemma net_eqb_eq a b : net_eqb a b = true -> a = b.
Proof. destruct a, b; cbn; congruence. Qed.
Lemma net_eqb_refl a : net_eqb a a = true.
Proof. destruct a; reflexivity. Qed.

Lemma items_eqb_eq : forall a b, items_eqb a b = true -> a = b.
Proof.
  induction a as [|[t d] r IH]; intros [|[t' d'] r']; cbn; try discriminate; [reflexivity|].
  intros E. apply andb_true_iff in E as [E1 E2]. unfold item_eqb in E1. cbn [fst snd] in E1.
  apply andb_true_iff in E1 as [Et Ed]. apply N.eqb_eq in Et. apply bytes_eqb_eq in Ed.
  rewrite (IH _ E2). congruence.
Qed.
Lemma items_eqb_refl a : items_eqb a a = true.
Proof.
  induction a as [|[t d] r IH]; [reflexivity|]. cbn. unfold item_eqb at 1. cbn [fst snd].
  rewrite N.eqb_refl, bytes_eqb_refl. exact IH.
Qed.

Lemma uerr_eqb_eq a b : uerr_eqb a b = true -> a = b.
Proof.
  destruct a, b; cbn; try discriminate; try reflexivity; intros E;
    try (apply N.eqb_eq in E; congruence). apply bytes_eqb_eq in E. congruence.
Qed.
Lemma perr_eqb_eq a b : perr_eqb a b = true -> a = b.
Proof. destruct a, b; cbn; try discriminate; try reflexivity. intros E. apply uerr_eqb_eq in E. congruence. Qed.

Lemma addr_eqb_refl a : addr_eqb a a = true.
Proof.
  destruct a as [n k d|n items]; cbn.
  - rewrite bytes_eqb_refl. destruct n, k; reflexivity.
  - rewrite items_eqb_refl, net_eqb_refl. reflexivity.
Qed.
Lemma addr_eqb_eq a b : addr_eqb a b = true -> a = b.
Proof.
  destruct a as [n k d|n items], b as [n' k' d'|n' items']; cbn; try discriminate.
  - intros E. apply andb_true_iff in E as [E Ed]. apply andb_true_iff in E as [En Ek].
    apply bytes_eqb_eq in Ed. apply net_eqb_eq in En. destruct k, k'; try discriminate; congruence.
  - intros E. apply andb_true_iff in E as [En Ei]. apply net_eqb_eq in En. apply items_eqb_eq in Ei. congruence.
Qed.

Lemma ures_eqb_eq (a b : ures) : ures_eqb a b = true -> a = b.
Proof.
  destruct a as [[n i]|e|], b as [[n' i']|e'|]; cbn; try discriminate; try reflexivity.
  - unfold pair_eqb. cbn [fst snd]. intros E. apply andb_true_iff in E as [En Ei].
    apply net_eqb_eq in En. apply items_eqb_eq in Ei. congruence.
  - intros E. apply uerr_eqb_eq in E. congruence.
Qed.
Lemma ares_eqb_eq (a b : ares) : ares_eqb a b = true -> a = b.
Proof.
  destruct a as [x|e|], b as [y|e'|]; cbn; try discriminate; try reflexivity.
  - intros E. apply addr_eqb_eq in E. congruence.
  - intros E. apply perr_eqb_eq in E. congruence.
Qed.

(** * the hash tables of a well-formed case are byte-valued *)
Lemma hg_lookup_bytes t : wf_tbl t = true -> forall tag i j x, is_bytes (hg_lookup t tag i j x) = true.
Proof.
  unfold wf_tbl. induction t as [|[[[[tg i'] j'] x'] y] r IH]; intros W tag i j x; [reflexivity|].
  cbn [forallb] in W. apply andb_true_iff in W as [We Wr]. cbn [hg_lookup].
  destruct (_ && _ && _ && _); [|apply IH; exact Wr].
  unfold wf_entry in We. apply andb_true_iff in We as [_ Hy]. exact Hy.
Qed.
Lemma H_of_bytes t : wf_tbl t = true -> forall i l x, is_bytes (H_of t i l x) = true.
Proof. intros W i l x. apply hg_lookup_bytes. exact W. Qed.
Lemma G_of_bytes t : wf_tbl t = true -> forall i j x, is_bytes (G_of t i j x) = true.
Proof. intros W i j x. unfold G_of. apply firstn_is_bytes, skipn_is_bytes, hg_lookup_bytes. exact W. Qed.

(** * CompactSize: the specification's shortest form is what the writer produces *)
Lemma spec_cs_eq n : spec_cs n = cs_write n.
Proof.
  unfold spec_cs, cs_write.
  destruct (N.ltb_spec n 253); [reflexivity|].
  destruct (N.ltb_spec n 65536), (N.leb_spec n 65535); try lia.
  - cbn [le_n]. do 3 f_equal. symmetry. apply N.mod_small. apply N.div_lt_upper_bound; lia.
  - destruct (N.ltb_spec n 4294967296), (N.leb_spec n 4294967295); try lia; [|reflexivity].
    cbn [le_n]. rewrite !N.div_div by lia. change (256 * 256) with 65536. change (65536 * 256) with 16777216.
    do 5 f_equal. symmetry. apply N.mod_small. apply N.div_lt_upper_bound; lia.
Qed.

Lemma cs_write_size n : len (cs_write n) = cs_size n.
Proof.
  unfold cs_write, cs_size, len. destruct (n <? 253); [reflexivity|]. destruct (n <=? 65535); [reflexivity|].
  destruct (n <=? 4294967295); reflexivity.
Qed.

Lemma raw_len_spec items : len (raw_encoding items) = spec_raw_len_items items.
Proof.
  induction items as [|[t d] r IH]; [reflexivity|].
  unfold raw_encoding in *. cbn [map concat fold_right spec_raw_len_items]. fold (spec_raw_len_items r).
  rewrite len_app, IH. unfold write_item. cbn [fst snd]. rewrite !len_app, !cs_write_size. lia.
Qed.

(** the encodable class of Spec.v is exactly "the encoder does not panic" *)
Lemma encodable_encodes H G k n items :
  spec_encodable (hrp_unified k n) items = true -> exists s, unified_encode H G k n items = Ok s.
Proof.
  unfold spec_encodable. cbv zeta. intros E. apply andb_true_iff in E as [E1 E2].
  pose proof (raw_len_spec items) as RL. pose proof (hrp_unified_short k n) as Lh.
  set (hrp := hrp_unified k n) in *.
  assert (LP : length (raw_encoding items ++ padding hrp) = (length (raw_encoding items) + 16)%nat).
  { rewrite app_length, padding_length by exact Lh. reflexivity. }
  assert (V : f4_valid_len (length (raw_encoding items ++ padding hrp)) = true).
  { unfold f4_valid_len. change F4_MIN with 48. change F4_MAX with 4194368. rewrite LP. unfold len in *. lia. }
  destruct (f4jumble_bijection H G _ V) as [[j [Fj [Lj _]]] _].
  unfold unified_encode, to_jumbled_bytes. fold hrp. change (N.to_nat PADDING_LEN) with 16%nat.
  destruct (Nat.ltb_spec 16 (length hrp)); [lia|]. rewrite Fj.
  unfold b32_encode. cbv zeta.
  pose proof (bytes_to_fes_length j) as Lf.
  destruct (N.ltb_spec ZIP316_CODE_LENGTH (len hrp + 1 + len (bytes_to_fes j) + 6)) as [C|_]; [|eexists; reflexivity].
  exfalso. change ZIP316_CODE_LENGTH with 4194368 in C. unfold len in *. rewrite Lf, Lj, LP in C.
  unfold bytes, item in *. lia.
Qed.

Lemma not_bech32b_spec s : not_bech32b s = true -> not_bech32 s.
Proof.
  unfold not_bech32b, not_bech32. destruct (b32_decode B32m ZIP316_CODE_LENGTH s); [discriminate|].
  destruct (b32_decode B32 BECH32_CODE_LENGTH s); [discriminate|].
  destruct (b32_decode B32m BECH32_CODE_LENGTH s); [discriminate|]. auto.
Qed.

Lemma item_eqb_refl it : item_eqb it it = true.
Proof. unfold item_eqb. rewrite N.eqb_refl, bytes_eqb_refl. reflexivity. Qed.
Lemma in_existsb it l : In it l -> existsb (item_eqb it) l = true.
Proof. intros I. apply existsb_exists. exists it. split; [exact I | apply item_eqb_refl]. Qed.

Lemma spec_len_valid (m : bytes) : spec_f4_len (len m) = f4_valid_len (length m).
Proof. reflexivity. Qed.

Lemma shared_b58 k : spec_shared k = is_b58 k.
Proof. destruct k; reflexivity. Qed.

Theorem agree_implies_property c :
  wf_case c = true -> known_class c = 0 -> run_case c = true -> prop_case c = true.
Proof.
  destruct c; intros W K R.
  - (* CJumble *)
    cbn [run_case prop_case] in *. apply andb_true_iff in R as [R1 R2].
    apply bres_eqb_eq in R1. apply (option_eqb_true _ _ _ bres_eqb_eq) in R2. subst o back.
    rewrite spec_len_valid. destruct (f4_valid_len (length m)) eqn:V.
    + destruct (f4jumble_bijection (H_of t) (G_of t) m V) as [[y [E [L I]]] _].
      rewrite E. cbn [u2b on_ok]. rewrite I. cbn [u2b].
      unfold len. rewrite L, N.eqb_refl. apply bytes_eqb_refl.
    + destruct (f4jumble_invalid (H_of t) (G_of t) m V) as [E _]. rewrite E. reflexivity.
  - (* CJumbleInv *)
    cbn [run_case prop_case] in *. apply andb_true_iff in R as [R1 R2].
    apply bres_eqb_eq in R1. apply (option_eqb_true _ _ _ bres_eqb_eq) in R2. subst o back.
    rewrite spec_len_valid. destruct (f4_valid_len (length m)) eqn:V.
    + destruct (f4jumble_bijection (H_of t) (G_of t) m V) as [_ [y [E [L I]]]].
      rewrite E. cbn [u2b on_ok]. rewrite I. cbn [u2b].
      unfold len. rewrite L, N.eqb_refl. apply bytes_eqb_refl.
    + destruct (f4jumble_invalid (H_of t) (G_of t) m V) as [_ E]. rewrite E. reflexivity.
  - (* CCsRead *)
    cbn [run_case prop_case wf_case] in *.
    destruct (cs_read b) as [[n r]|e|] eqn:Rd.
    + destruct (cs_canonical _ _ _ W Rd) as [Eb Mx]. change MAX_COMPACT_SIZE with 33554432 in Mx.
      destruct o as [[n' c]|e|]; cbn in R; try discriminate.
      unfold pair_eqb in R. cbn [fst snd] in R. apply andb_true_iff in R as [Rn Rc].
      apply N.eqb_eq in Rn, Rc. subst n' c.
      assert (Lc : len b - len r = len (cs_write n)) by (rewrite Eb at 1; rewrite len_app; lia).
      rewrite Lc, spec_cs_eq.
      assert (F : firstn (N.to_nat (len (cs_write n))) b = cs_write n).
      { rewrite Eb. unfold len. rewrite Nat2N.id, firstn_app, Nat.sub_diag, firstn_all, firstn_O. apply app_nil_r. }
      rewrite F, bytes_eqb_refl. rewrite Eb at 1. rewrite len_app. lia.
    + destruct o; cbn in R; try discriminate. reflexivity.
    + exfalso. exact (cs_read_not_panic _ Rd).
  - (* CCsWrite *)
    cbn [run_case prop_case] in *. apply bres_eqb_eq in R. subst o. unfold cs_write_checked.
    change MAX_COMPACT_SIZE with 33554432.
    destruct (N.ltb_spec 33554432 n); [lia|]. rewrite spec_cs_eq, bytes_eqb_refl. lia.
  - (* CFromItems *)
    cbn [run_case prop_case] in *. pose proof (try_from_items_spec items) as T.
    destruct (try_from_items items) as [l|e|]; [| |contradiction].
    + destruct o as [l'|e'|]; cbn in R; try discriminate. apply items_eqb_eq in R. subst l'.
      destruct T as [P [C _]]. rewrite C. cbn [andb].
      rewrite (Permutation_length P), Nat.eqb_refl. cbn [andb].
      apply andb_true_iff. split; apply forallb_forall; intros it I; apply in_existsb.
      * apply (Permutation_in _ P). exact I.
      * apply (Permutation_in _ (Permutation_sym P)). exact I.
    + destruct o as [l'|e'|]; cbn in R; try discriminate. rewrite T. reflexivity.
  - (* CUEnc *)
    cbn [run_case prop_case wf_case known_class] in *.
    apply andb_true_iff in W as [Wi Wt]. apply andb_true_iff in R as [R1 R2].
    apply bres_eqb_eq in R1. apply (option_eqb_true _ _ _ ures_eqb_eq) in R2. subst o back.
    destruct (spec_encodable (hrp_unified k n) items) eqn:Se; [|discriminate].
    destruct (encodable_encodes (H_of t) (G_of t) k n items Se) as [s E]. rewrite E. cbn [on_ok].
    destruct (unified_roundtrip _ _ (H_of_bytes t Wt) (G_of_bytes t Wt) k n items s Wi E) as [D _].
    rewrite D, net_eqb_refl, items_eqb_refl. reflexivity.
  - (* CUDec *)
    cbn [run_case prop_case wf_case] in *.
    apply andb_true_iff in W as [_ Wt]. apply andb_true_iff in R as [R1 R2].
    apply ures_eqb_eq in R1. apply (option_eqb_true _ _ _ bres_eqb_eq) in R2. subst o re.
    destruct (unified_decode (H_of t) (G_of t) k s) as [[n items]|e|] eqn:D.
    + destruct (unified_accept_canonical _ _ (H_of_bytes t Wt) (G_of_bytes t Wt) _ _ _ _ D) as [Wf E].
      rewrite Wf. cbn [on_ok fst snd andb]. rewrite E. cbn. apply bytes_eqb_refl.
    + reflexivity.
    + exfalso. exact (unified_decode_total _ _ _ _ D).
  - (* CCtor *)
    cbn [run_case prop_case] in *. apply addr_eqb_eq in R. subst o.
    rewrite from_raw_spec. apply addr_eqb_refl.
  - (* CEnc *)
    cbn [run_case prop_case wf_case] in *.
    apply andb_true_iff in W as [W Bd]. apply andb_true_iff in W as [Wa Wt]. unfold wf_addr in Wa. apply andb_true_iff in Wa as [Ws Wn].
    apply andb_true_iff in R as [R1 R2].
    apply bres_eqb_eq in R1. apply (option_eqb_true _ _ _ ares_eqb_eq) in R2. subst o back.
    assert (En : exists s, encode_address (H_of t) (G_of t) a = Ok s).
    { destruct a as [n k d|n items].
      - cbn [spec_addr_ok] in Ws. apply andb_true_iff in Ws as [Ld _]. apply N.eqb_eq in Ld.
        destruct k; try (eexists; reflexivity); apply raw_b32_encodes; [left | right]; auto.
      - cbn [known_class] in K. destruct (spec_encodable (hrp_unified KAddr n) items) eqn:Se; [|discriminate].
        exact (encodable_encodes _ _ KAddr n items Se). }
    destruct En as [s E]. rewrite E in *. cbn [on_ok].
    assert (Gd : match a with ARaw _ k _ => is_b58 k = true -> not_bech32 s | AUni _ _ => True end).
    { destruct a as [n k d|]; [|exact I]. intros Kb. cbn [enc_guard] in Bd. rewrite shared_b58, Kb in Bd. apply not_bech32b_spec. exact Bd. }
    rewrite (kind_roundtrip _ _ (H_of_bytes t Wt) (G_of_bytes t Wt) a s Ws E Gd).
    destruct a as [n k d|n items]; cbn [norm_addr addr_eqb].
    + apply net_eqb_eq in Wn. rewrite Wn, net_eqb_refl, bytes_eqb_refl. destruct k; reflexivity.
    + rewrite net_eqb_refl, items_eqb_refl. reflexivity.
  - (* CParse *)
    cbn [run_case prop_case wf_case] in *.
    apply andb_true_iff in W as [_ Wt]. apply andb_true_iff in R as [R1 R2].
    apply ares_eqb_eq in R1. apply (option_eqb_true _ _ _ bres_eqb_eq) in R2. subst o re.
    destruct (parse_address (H_of t) (G_of t) s) as [a|e|] eqn:P.
    + destruct (parse_accept_canonical _ _ (H_of_bytes t Wt) (G_of_bytes t Wt) _ _ P) as [E Ws].
      rewrite Ws. cbn [on_ok andb]. rewrite E. cbn. apply bytes_eqb_refl.
    + reflexivity.
    + exfalso. exact (parse_address_total _ _ _ P).
  - (* CConv *)
    cbn [run_case prop_case wf_case] in *. rewrite convert_decision in R.
    unfold wf_addr in W. apply andb_true_iff in W as [_ Wn].
    destruct (spec_convertible a expected) eqn:C.
    + destruct o as [a'|[x y]|]; cbn in R; try discriminate. apply addr_eqb_eq in R. subst a'.
      cbn [andb].
      assert (Nn : match a with ARaw n k _ => norm_net k n = n | AUni _ _ => True end).
      { destruct a; [apply net_eqb_eq; exact Wn | exact I]. }
      assert (Cv : convert_if_network a expected = Ok (with_net expected a)) by (rewrite convert_decision, C; reflexivity).
      destruct (convert_canonical _ _ _ Nn Cv) as [Rb [Ne _]].
      rewrite Ne, Rb, net_eqb_refl, addr_eqb_refl. reflexivity.
    + destruct o as [a'|[x y]|]; cbn in R; try discriminate.
      unfold pair_eqb in R. cbn [fst snd] in R. apply andb_true_iff in R as [R1 R2].
      apply net_eqb_eq in R1, R2. subst x y. rewrite !net_eqb_refl. reflexivity.
  - (* CKDec *)
    cbn [run_case prop_case wf_case known_class] in *.
    apply andb_true_iff in W as [W Lw]. apply andb_true_iff in W as [_ U]. apply negb_true_iff in U.
    apply andb_true_iff in R as [R1 R2].
    apply (option_eqb_true _ _ _ bres_eqb_eq) in R2. subst re.
    destruct (keys_decode_payment_address (fun _ => valid) hrp s) as [d|e|] eqn:D.
    + destruct o as [d'|e'|]; cbn in R1; try discriminate. apply bytes_eqb_eq in R1. subst d'.
      destruct (keys_accept_canonical _ _ _ _ U Lw D) as [E Ld].
      rewrite Ld, N.eqb_refl. cbn [on_ok andb]. rewrite E. cbn. apply bytes_eqb_refl.
    + destruct o; cbn in R1; try discriminate. reflexivity.
    + exfalso. exact (keys_decode_total _ _ _ D).
Qed.
