(** C10 — bridge (partial): for the F4Jumble and constructor cases, agreement of the
    implementation with the model implies the property on the implementation's outcome.
    (The other constructors are tied by [run_case] and checked by [prop_case] at run time; a
    bridge for them needs the Bech32 checksum algebra and Base58 round trip, not proved.) *)
From Coq Require Import String.
From V.Lib Require Import Base Hex.
From V.Gen Require Import C10Consts.
From V.C10 Require Import Model Spec Corr Wf PF4 PCs PCont PTop.
From Coq Require Import List Lia ZifyBool.
Local Open Scope N_scope.

Lemma bres_eqb_eq (a b : bres) : bres_eqb a b = true -> a = b.
Proof.
  destruct a as [x| []|], b as [y|[]|]; cbn; try discriminate; try reflexivity.
  intros E. apply bytes_eqb_eq in E. congruence.
Qed.
Lemma opt_bres_eqb_eq (a b : option bres) : opt_bres_eqb a b = true -> a = b.
Proof.
  destruct a as [x|], b as [y|]; cbn; try discriminate; try reflexivity.
  intros E. apply bres_eqb_eq in E. congruence.
Qed.

Lemma spec_len_valid (m : bytes) : spec_f4_len (len m) = f4_valid_len (length m).
Proof. reflexivity. Qed.

Definition bridged (c : case) : bool :=
  match c with CJumble _ _ _ _ | CJumbleInv _ _ _ _ | CCtor _ _ _ _ => true | _ => false end.

Lemma addr_eqb_refl a : addr_eqb a a = true.
Proof.
  assert (B : forall b, bytes_eqb b b = true) by (intros; apply bytes_eqb_eq; reflexivity).
  destruct a as [n k d|n items]; cbn.
  - rewrite B. destruct n, k; reflexivity.
  - assert (I : items_eqb items items = true).
    { induction items as [|[t d] r IH]; [reflexivity|]. cbn. unfold item_eqb at 1. cbn [fst snd].
      rewrite N.eqb_refl, B. exact IH. }
    rewrite I. destruct n; reflexivity.
Qed.

Lemma addr_eqb_eq a b : addr_eqb a b = true -> a = b.
Proof.
  destruct a as [n k d|n items], b as [n' k' d'|n' items']; cbn; try discriminate.
  - intros E. apply andb_true_iff in E as [E Ed]. apply andb_true_iff in E as [En Ek].
    apply bytes_eqb_eq in Ed. destruct n, n'; try discriminate; destruct k, k'; try discriminate; congruence.
  - intros E. apply andb_true_iff in E as [En Ei].
    assert (items = items').
    { revert items' Ei. induction items as [|[t d] r IH]; intros [|[t' d'] r']; cbn; try discriminate; [reflexivity|].
      intros E. apply andb_true_iff in E as [E1 E2]. unfold item_eqb in E1. cbn [fst snd] in E1.
      apply andb_true_iff in E1 as [Et Ed]. apply N.eqb_eq in Et. apply bytes_eqb_eq in Ed.
      rewrite (IH _ E2). congruence. }
    destruct n, n'; try discriminate; congruence.
Qed.

Theorem agree_implies_property_partial c :
  bridged c = true -> wf_case c = true -> known_class c = 0 -> run_case c = true -> prop_case c = true.
Proof.
  destruct c; cbn [bridged]; try discriminate; intros _ W K R.
  - (* CJumble *)
    cbn [run_case prop_case] in *. apply andb_true_iff in R as [R1 R2].
    apply bres_eqb_eq in R1. apply opt_bres_eqb_eq in R2. subst o back.
    rewrite spec_len_valid. destruct (f4_valid_len (length m)) eqn:V.
    + destruct (f4jumble_bijection (H_of t) (G_of t) m V) as [[y [E [L I]]] _].
      rewrite E. cbn [u2b on_ok]. rewrite I. cbn [u2b].
      unfold len. rewrite L, N.eqb_refl. apply bytes_eqb_eq. reflexivity.
    + destruct (f4jumble_invalid (H_of t) (G_of t) m V) as [E _]. rewrite E. reflexivity.
  - (* CJumbleInv *)
    cbn [run_case prop_case] in *. apply andb_true_iff in R as [R1 R2].
    apply bres_eqb_eq in R1. apply opt_bres_eqb_eq in R2. subst o back.
    rewrite spec_len_valid. destruct (f4_valid_len (length m)) eqn:V.
    + destruct (f4jumble_bijection (H_of t) (G_of t) m V) as [_ [y [E [L I]]]].
      rewrite E. cbn [u2b on_ok]. rewrite I. cbn [u2b].
      unfold len. rewrite L, N.eqb_refl. apply bytes_eqb_eq. reflexivity.
    + destruct (f4jumble_invalid (H_of t) (G_of t) m V) as [_ E]. rewrite E. reflexivity.
  - (* CCtor *)
    cbn [run_case prop_case] in *. apply addr_eqb_eq in R. subst o.
    rewrite from_raw_spec. apply addr_eqb_refl.
Qed.
