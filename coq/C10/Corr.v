(** C10 — correspondence cases. One constructor per observed API operation: inputs, the BLAKE2b
    outputs the F4Jumble rounds need (computed by the harness with blake2b_simd, independently of
    the f4jumble crate), and the implementation's observed outcome(s).
    [run_case]: model = implementation.  [prop_case]: the property (Spec.v) evaluated on the
    implementation's outcome alone. *)
From Coq Require Import String.
From V.Lib Require Import Base Hex.
From V.Gen Require Import C10Consts.
From V.C10 Require Import Model Spec.
From Coq Require Import List.
Local Open Scope N_scope.

Definition unit_eqb (_ _ : unit) := true.
Definition item_eqb (a b : item) : bool := N.eqb (fst a) (fst b) && bytes_eqb (snd a) (snd b).
Definition items_eqb := list_eqb item_eqb.
Definition net_eqb (a b : net) : bool :=
  match a, b with Main, Main | Test, Test | Regtest, Regtest => true | _, _ => false end.
Definition akind_eqb (a b : akind) : bool :=
  match a, b with
  | Sprout, Sprout | Sapling, Sapling | P2pkh, P2pkh | P2sh, P2sh | Tex, Tex => true
  | _, _ => false
  end.
Definition addr_eqb (a b : addr) : bool :=
  match a, b with
  | ARaw n k d, ARaw n' k' d' => net_eqb n n' && akind_eqb k k' && bytes_eqb d d'
  | AUni n i, AUni n' i' => net_eqb n n' && items_eqb i i'
  | _, _ => false
  end.
Definition uerr_eqb (a b : uerr) : bool :=
  match a, b with
  | EBoth, EBoth | EInvEnc, EInvEnc | EOrder, EOrder | EOnlyT, EOnlyT | ENotUnified, ENotUnified => true
  | EDup x, EDup y | EInvTc x, EInvTc y => N.eqb x y
  | EUnkPrefix x, EUnkPrefix y => bytes_eqb x y
  | _, _ => false
  end.
Definition perr_eqb (a b : perr) : bool :=
  match a, b with
  | PInvEnc, PInvEnc | PNotZcash, PNotZcash => true
  | PUnified x, PUnified y => uerr_eqb x y
  | _, _ => false
  end.
Definition cserr_eqb (a b : cserr) : bool :=
  match a, b with
  | CsEof, CsEof | CsNonCanonical, CsNonCanonical | CsTooLarge, CsTooLarge => true
  | _, _ => false
  end.

Definition kerr_eqb (a b : kerr) : bool :=
  match a, b with KBech32, KBech32 | KHrpMismatch, KHrpMismatch | KRead, KRead => true | _, _ => false end.

Definition bres := outcome bytes unit.
Definition bres_eqb := outcome_eqb bytes_eqb unit_eqb.
Definition sres := outcome (list N) unit.
Definition sres_eqb := outcome_eqb bytes_eqb unit_eqb.
Definition ures := outcome (net * list item) uerr.
Definition ures_eqb := outcome_eqb (pair_eqb net_eqb items_eqb) uerr_eqb.
Definition ares := outcome addr perr.
Definition ares_eqb := outcome_eqb addr_eqb perr_eqb.

Inductive case :=
(** [f4jumble(m)] = o; when o is Ok y, [back] = [f4jumble_inv(y)] *)
| CJumble (m : bytes) (t : list hg_entry) (o : bres) (back : option bres)
(** [f4jumble_inv(m)] = o; when o is Ok y, [back] = [f4jumble(y)] *)
| CJumbleInv (m : bytes) (t : list hg_entry) (o : bres) (back : option bres)
(** [CompactSize::read] on b: value and number of bytes consumed *)
| CCsRead (b : bytes) (o : outcome (N * N) cserr)
(** [CompactSize::write] (in-tree 0.5: refuses values above MAX_COMPACT_SIZE) *)
| CCsWrite (n : N) (o : bres)
(** [Encoding::try_from_items] for Address / Ufvk / Ufvk: items of the resulting container *)
| CFromItems (k : ckind) (items : list item) (o : outcome (list item) uerr)
(** a container with these items (as parsed) [encode]d for network n, and the string [decode]d *)
| CUEnc (k : ckind) (n : net) (items : list item) (t : list hg_entry) (o : sres) (back : option ures)
(** [Encoding::decode(s)]; when Ok (n, c), [re] = [c.encode(n)] *)
| CUDec (k : ckind) (s : list N) (t : list hg_entry) (o : ures) (re : option sres)
(** [ZcashAddress::from_sprout / from_sapling / ...] observed through [convert] *)
| CCtor (n : net) (k : akind) (d : bytes) (o : addr)
(** [a.encode()] and [ZcashAddress::try_from_encoded] of the result *)
| CEnc (a : addr) (t : list hg_entry) (o : sres) (back : option ares)
(** [ZcashAddress::try_from_encoded(s)]; when Ok a, [re] = [a.encode()] *)
| CParse (s : list N) (t : list hg_entry) (o : ares) (re : option sres)
(** [a.convert_if_network(expected)] observed through a recording [TryFromAddress] *)
| CConv (a : addr) (expected : net) (o : outcome addr (net * net))
(** [zcash_keys::encoding::decode_payment_address(hrp, s)]: the 43 address bytes; [valid]: whether
    the bytes the data part regroups to are a valid Sapling payment address (external crypto);
    when Ok addr, [re] = [encode_payment_address(hrp, addr)] *)
| CKDec (hrp s : list N) (valid : bool) (o : outcome bytes kerr) (re : option sres).

Definition opt_bres_eqb := option_eqb bres_eqb.

Definition on_ok {A E B} (o : outcome A E) (f : A -> B) : option B :=
  match o with Ok x => Some (f x) | _ => None end.

Definition u2b {A} (o : outcome A f4err) : outcome A unit :=
  match o with Ok x => Ok x | Err _ => Err tt | Panic => Panic end.

(** model = implementation *)
Definition run_case (c : case) : bool :=
  match c with
  | CJumble m t o back =>
      let H := H_of t in let G := G_of t in
      let r := u2b (f4jumble H G m) in
      bres_eqb r o && opt_bres_eqb (on_ok r (fun y => u2b (f4jumble_inv H G y))) back
  | CJumbleInv m t o back =>
      let H := H_of t in let G := G_of t in
      let r := u2b (f4jumble_inv H G m) in
      bres_eqb r o && opt_bres_eqb (on_ok r (fun y => u2b (f4jumble H G y))) back
  | CCsRead b o =>
      outcome_eqb (pair_eqb N.eqb N.eqb) cserr_eqb
        (match cs_read b with Ok (n, r) => Ok (n, len b - len r) | Err e => Err e | Panic => Panic end) o
  | CCsWrite n o => bres_eqb (cs_write_checked n) o
  | CFromItems k items o => outcome_eqb items_eqb uerr_eqb (try_from_items items) o
  | CUEnc k n items t o back =>
      let H := H_of t in let G := G_of t in
      let r := unified_encode H G k n items in
      sres_eqb r o && option_eqb ures_eqb (on_ok r (unified_decode H G k)) back
  | CUDec k s t o re =>
      let H := H_of t in let G := G_of t in
      let r := unified_decode H G k s in
      ures_eqb r o && option_eqb sres_eqb (on_ok r (fun p => unified_encode H G k (fst p) (snd p))) re
  | CCtor n k d o => addr_eqb (from_raw n k d) o
  | CEnc a t o back =>
      let H := H_of t in let G := G_of t in
      let r := encode_address H G a in
      sres_eqb r o && option_eqb ares_eqb (on_ok r (parse_address H G)) back
  | CParse s t o re =>
      let H := H_of t in let G := G_of t in
      let r := parse_address H G s in
      ares_eqb r o && option_eqb sres_eqb (on_ok r (encode_address H G)) re
  | CConv a e o => outcome_eqb addr_eqb (pair_eqb net_eqb net_eqb) (convert_if_network a e) o
  | CKDec hrp s valid o re =>
      let r := keys_decode_payment_address (fun _ => valid) hrp s in
      outcome_eqb bytes_eqb kerr_eqb r o && option_eqb sres_eqb (on_ok r (keys_encode_payment_address hrp)) re
  end.

Definition not_panic {A E} (o : outcome A E) : bool := match o with Panic => false | _ => true end.

(** the property on the implementation's outcome *)
Definition prop_case (c : case) : bool :=
  match c with
  | CJumble m _ o back | CJumbleInv m _ o back =>
      (* a length-preserving bijection on the valid lengths, an error outside, never a panic *)
      if spec_f4_len (len m)
      then match o, back with
           | Ok y, Some (Ok m') => (len y =? len m) && bytes_eqb m' m
           | _, _ => false
           end
      else match o with Err _ => true | _ => false end
  | CCsRead b o =>
      match o with
      | Ok (n, c) => (n <=? 33554432) && bytes_eqb (firstn (N.to_nat c) b) (spec_cs n) && (c <=? len b)
      | Err _ => true
      | Panic => false
      end
  | CCsWrite n o =>
      match o with
      | Ok b => (n <=? 33554432) && bytes_eqb b (spec_cs n)
      | Err _ => 33554432 <? n
      | Panic => false
      end
  | CFromItems k items o =>
      (* accepted iff the composition rules hold for the sorted typecodes; the container holds
         exactly the given items, in ascending typecode order *)
      match o with
      | Ok l => spec_composition (map fst l) && (length l =? length items)%nat
                && forallb (fun it => existsb (item_eqb it) items) l
                && forallb (fun it => existsb (item_eqb it) l) items
      | Err _ => negb (spec_set_ok (map fst items))
      | Panic => false
      end
  | CUEnc k n items _ o back =>
      (* every well-formed container encodes to a string that decodes to the same network and
         the same items (unknown items included) *)
      match o, back with
      | Ok _, Some (Ok (n', items')) => net_eqb n n' && items_eqb items items'
      | _, _ => false
      end
  | CUDec k s _ o re =>
      (* accepted => well-formed per ZIP 316 and re-encodes to the very same string *)
      match o with
      | Ok (n, items) => zip316_wf k items && option_eqb sres_eqb re (Some (Ok s))
      | Err _ => true
      | Panic => false
      end
  | CCtor n k d o => addr_eqb o (ARaw (spec_ctor_net k n) k d)
  | CEnc a _ o back =>
      match o, back with
      | Ok _, Some (Ok a') => addr_eqb a a'
      | _, _ => false
      end
  | CParse s _ o re =>
      match o with
      | Ok a => spec_addr_ok a && option_eqb sres_eqb re (Some (Ok (trim s)))
      | Err _ => true
      | Panic => false
      end
  | CConv a e o =>
      (* accepted exactly within the documented exception; what is handed on rebuilds to the very
         same address (so it re-encodes to the same string); the error names both networks *)
      match o with
      | Ok a' => spec_convertible a e && net_eqb (addr_net a') e && addr_eqb (spec_rebuild a') a
      | Err (x, y) => negb (spec_convertible a e) && net_eqb x e && net_eqb y (addr_net a)
      | Panic => false
      end
  | CKDec hrp s _ o re =>
      (* accepted => 43 bytes and the address re-encodes to the very string that was accepted *)
      match o with
      | Ok d => (len d =? 43) && option_eqb sres_eqb re (Some (Ok s))
      | Err _ => true
      | Panic => false
      end
  end.

(** known finding 1: [Encoding::encode] panics on a container accepted by [try_from_items] whose
    padded raw encoding is shorter than 48 bytes (only possible with unknown items alone) or too
    long for F4Jumble / the ZIP 316 Bech32m code length *)
Definition known_class (c : case) : N :=
  match c with
  | CUEnc k n items _ _ _ => if spec_encodable (hrp_unified k n) items then 0 else 1
  | CEnc (AUni n items) _ _ _ => if spec_encodable (hrp_unified KAddr n) items then 0 else 1
  | _ => 0
  end.

(** path tags: 100 * constructor + outcome class *)
Definition uerr_tag (e : uerr) : N :=
  match e with
  | EBoth => 1 | EDup _ => 2 | EInvTc _ => 3 | EInvEnc => 4 | EOrder => 5 | EOnlyT => 6 | ENotUnified => 7 | EUnkPrefix _ => 8
  end.
Definition out_tag {A E} (o : outcome A E) (fe : E -> N) : N :=
  match o with Ok _ => 0 | Err e => fe e | Panic => 99 end.
Definition akind_tag (k : akind) : N := match k with Sprout => 0 | Sapling => 1 | P2pkh => 2 | P2sh => 3 | Tex => 4 end.
Definition addr_tag (a : addr) : N := match a with ARaw _ k _ => akind_tag k | AUni _ _ => 5 end.
Definition ckind_tag (k : ckind) : N := match k with KAddr => 0 | KFvk => 1 | KIvk => 2 end.

Definition tag_case (c : case) : N :=
  match c with
  | CJumble _ _ o _ => 100 + out_tag o (fun _ => 1)
  | CJumbleInv _ _ o _ => 200 + out_tag o (fun _ => 1)
  | CCsRead _ o => 300 + out_tag o (fun e => match e with CsEof => 1 | CsNonCanonical => 2 | CsTooLarge => 3 end)
  | CCsWrite _ o => 400 + out_tag o (fun _ => 1)
  | CFromItems k _ o => 500 + 20 * ckind_tag k + out_tag o uerr_tag
  | CUEnc k _ _ _ o _ => 600 + 20 * ckind_tag k + out_tag o (fun _ => 1)
  | CUDec k _ _ o _ => 700 + 20 * ckind_tag k + out_tag o uerr_tag
  | CCtor _ k _ _ => 800 + akind_tag k
  | CEnc a _ o _ => 900 + 10 * addr_tag a + out_tag o (fun _ => 1)
  | CParse _ _ o _ =>
      1000 + match o with
             | Ok a => addr_tag a
             | Err PInvEnc => 10 | Err PNotZcash => 11 | Err (PUnified e) => 20 + uerr_tag e
             | Panic => 99
             end
  | CKDec _ _ v o _ => 1200 + (if v then 0 else 10) + out_tag o (fun e => match e with KBech32 => 1 | KHrpMismatch => 2 | KRead => 3 end)
  | CConv a e o => 1100 + 10 * addr_tag a + (if net_eqb (addr_net a) e then 0 else 2) + out_tag o (fun _ => 1)
  end.
