(** C06 — truncate_to_chain_state (as repaired by the fix: commit that truncates each tree to the
    inserted frontier checkpoint). *)
From Coq Require Import ZArith List Lia Bool Sorted.
From Coq Require Import ZifyBool.
From V.Lib Require Import Base MachInt.
From V.C06 Require Import Model Spec PRange PLedger PPut PMain PMore.
Import ListNotations.
Local Open Scope Z_scope.

Definition sub3 (w' w : w3) : Prop :=
  forall i, rt (proj_pool i w') = rt (proj_pool i w) /\
            (forall e, In e (ck (proj_pool i w')) -> In e (ck (proj_pool i w))).

Lemma truncate_internal_spec blocks mn h fl w w' :
  truncate_internal blocks mn h fl w = Ok w' ->
  sub3 w' w /\
  (forall last, zmax_list blocks = Some last -> h < last ->
     forall i e, In e (ck (proj_pool i w')) -> fst e <= h) /\
  (w3_sorted w -> w3_sorted w').
Proof.
  destruct w as [[s1 s2] s3]. destruct mn as [[n1 n2] n3]. unfold truncate_internal.
  destruct (zmax_list blocks) as [last|] eqn:El.
  2:{ intros H. inversion H. subst. split; [intros i; tauto|]. split; [discriminate|tauto]. }
  destruct (h <? last) eqn:Eh.
  2:{ intros H. inversion H. subst. split; [intros i; tauto|]. split; [intros l0 E0; inversion E0; lia|tauto]. }
  destruct (apply_plan s1 n1 h fl) as [t1| |] eqn:E1; try discriminate.
  destruct (apply_plan s2 n2 h fl) as [t2| |] eqn:E2; try discriminate.
  destruct (apply_plan s3 n3 h fl) as [t3| |] eqn:E3; try discriminate.
  intros H. inversion H. subst w'.
  destruct (apply_plan_ok _ _ _ _ _ E1) as [R1 [A1 [B1 _]]].
  destruct (apply_plan_ok _ _ _ _ _ E2) as [R2 [A2 [B2 _]]].
  destruct (apply_plan_ok _ _ _ _ _ E3) as [R3 [A3 [B3 _]]].
  split; [intros [|[|i]]; cbn [proj_pool]; tauto|].
  split.
  - intros _ _ _ [|[|i]] e; cbn [proj_pool]; auto.
  - intros Hs [|[|i]]; cbn [proj_pool]; eapply apply_plan_sck; eauto; [apply (Hs 0%nat)|apply (Hs 1%nat)|apply (Hs 2%nat)].
Qed.

Lemma ins_frontier_spec budget target size s s' :
  ins_frontier budget target size s = Ok s' ->
  rt s' = rt s /\
  (forall e, In e (ck s') -> In e (ck s) \/ e = (target, frontier_pos size)) /\
  (sck (ck s) -> sck (ck s')).
Proof.
  unfold ins_frontier. destruct (ck_add target (frontier_pos size) (ck s)) as [m|] eqn:E; [|discriminate].
  intros H. inversion H. subst s'.
  assert (Hin : forall e, In e m -> In e (ck s) \/ e = (target, frontier_pos size)).
  { intros e He. apply (ck_add_in _ _ _ _ E) in He. tauto. }
  destruct (size =? 0); cbn [rt ck].
  - split; [reflexivity|]. split; [exact Hin|]. intros Hs. eapply ck_add_sck; eauto.
  - rewrite prune_rt. cbn [rt]. split; [reflexivity|]. split.
    + intros e He. apply prune_sub in He. apply Hin, He.
    + intros Hs. apply prune_sck. cbn [ck]. eapply ck_add_sck; eauto.
Qed.

Lemma trunc_to_ck_spec target s :
  rt (trunc_to_ck target s) = rt s /\
  (forall e, In e (ck (trunc_to_ck target s)) -> In e (ck s)) /\
  (has_at (ck s) target = true -> forall e, In e (ck (trunc_to_ck target s)) -> fst e <= target) /\
  (has_at (ck s) target = false -> trunc_to_ck target s = s) /\
  (sck (ck s) -> sck (ck (trunc_to_ck target s))).
Proof.
  unfold trunc_to_ck. destruct (has_at (ck s) target) eqn:E; cbn [rt ck].
  - split; [reflexivity|]. split; [intros e He; apply filter_In in He; tauto|].
    split; [intros _ e He; apply filter_In in He; lia|]. split; [discriminate|apply sck_filter].
  - repeat split; try tauto. discriminate.
Qed.

Lemma has_at_false_sub (m m' : ckmap) h :
  (forall e, In e m' -> In e m) -> has_at m h = false -> has_at m' h = false.
Proof.
  intros Hs H. unfold has_at in *. apply not_true_iff_false. intros Hc.
  apply existsb_exists in Hc. destruct Hc as [e [He1 He2]].
  assert (existsb (fun e0 => fst e0 =? h) m = true); [|congruence].
  apply existsb_exists. exists e. split; [apply Hs, He1|exact He2].
Qed.

Definition sizes_of (i : nat) (z : Z * Z * Z) : Z :=
  let '(a, b, c) := z in match i with O => a | S O => b | _ => c end.

(** What a successful truncate_to_chain_state does to the ledger. *)
Lemma tcs_spec budget blocks mn target sizes w w' :
  truncate_to_chain_state budget blocks mn target sizes w = Ok w' ->
  (* retained ids unchanged; every checkpoint is an old one or the new one at the target *)
  (forall i, rt (proj_pool i w') = rt (proj_pool i w) /\
     forall e, In e (ck (proj_pool i w')) ->
       In e (ck (proj_pool i w)) \/ e = (target, frontier_pos (sizes_of i sizes))) /\
  (* when scanned blocks lie above the target, a pool that is checkpointed at the target holds
     nothing above it *)
  (forall last, zmax_list blocks = Some last -> target < last ->
     forall i, (forall e, In e (ck (proj_pool i w')) -> fst e <= target)
               \/ has_at (ck (proj_pool i w')) target = false) /\
  (w3_sorted w -> w3_sorted w').
Proof.
  unfold truncate_to_chain_state.
  destruct (zmax_list blocks) as [last|] eqn:El.
  2:{ intros H. destruct (truncate_internal_spec _ _ _ _ _ _ H) as [S [_ So]].
      split; [intros i; destruct (S i); split; auto|]. split; [discriminate|exact So]. }
  destruct (target <? last) eqn:Et.
  2:{ intros H. destruct (truncate_internal_spec _ _ _ _ _ _ H) as [S [_ So]].
      split; [intros i; destruct (S i); split; auto|]. split; [intros l0 E0; inversion E0; lia|exact So]. }
  (* stage 1 *)
  set (stage1 := match select_height blocks mn target w with Some _ => _ | None => _ end).
  destruct stage1 as [[[wret|] [[w1 blocks1] mn1]]|e|] eqn:Es1; try discriminate.
  - (* early return: a checkpoint exists at the target *)
    intros H. inversion H. subst wret. unfold stage1 in Es1.
    destruct (select_height blocks mn target w) as [h|].
    + destruct (h =? target) eqn:Eh; [|discriminate].
      destruct (truncate_internal blocks mn h h w) as [wx| |] eqn:Ei; try discriminate.
      assert (h = target) by lia. subst h. inversion Es1. subst.
      destruct (truncate_internal_spec _ _ _ _ _ _ Ei) as [S [A So]].
      split; [intros i; destruct (S i); split; auto|]. split; [|exact So].
      intros l0 E0 Hl i. left. inversion E0. subst l0. apply (A last El Hl i).
    + destruct (min_shared w) as [m|]; [|discriminate].
      destruct (truncate_internal blocks mn m m w); discriminate.
  - (* fall through with (w1, blocks1, mn1) *)
    assert (S1 : sub3 w1 w /\ (w3_sorted w -> w3_sorted w1)).
    { unfold stage1 in Es1. destruct (select_height blocks mn target w) as [h|].
      - destruct (h =? target).
        + destruct (truncate_internal blocks mn h h w); discriminate.
        + inversion Es1. subst. split; [intros i; tauto|tauto].
      - destruct (min_shared w) as [m|].
        + destruct (truncate_internal blocks mn m m w) as [wx| |] eqn:Ei; try discriminate.
          inversion Es1. subst. destruct (truncate_internal_spec _ _ _ _ _ _ Ei) as [S [_ So]]. tauto.
        + inversion Es1. subst. split; [intros i; tauto|tauto]. }
    destruct S1 as [S1 So1]. clear Es1 stage1.
    destruct w1 as [[ws wo] wi]. destruct sizes as [[zs zo] zi].
    destruct (ins_frontier budget target zs ws) as [ws'| |] eqn:F1; try discriminate.
    destruct (ins_frontier budget target zo wo) as [wo'| |] eqn:F2; try discriminate.
    destruct (ins_frontier budget target zi wi) as [wi'| |] eqn:F3; try discriminate.
    intros H.
    destruct (truncate_internal_spec _ _ _ _ _ _ H) as [S2 [A2 So2]].
    destruct (ins_frontier_spec _ _ _ _ _ F1) as [R1 [I1 K1]].
    destruct (ins_frontier_spec _ _ _ _ _ F2) as [R2 [I2 K2]].
    destruct (ins_frontier_spec _ _ _ _ _ F3) as [R3 [I3 K3]].
    destruct (trunc_to_ck_spec target ws') as [T1r [T1s [T1a [T1n T1k]]]].
    destruct (trunc_to_ck_spec target wo') as [T2r [T2s [T2a [T2n T2k]]]].
    destruct (trunc_to_ck_spec target wi') as [T3r [T3s [T3a [T3n T3k]]]].
    split; [|split].
    + intros i. destruct (S2 i) as [Ra Sa]. destruct (S1 i) as [Rb Sb].
      destruct i as [|[|i]]; cbn [proj_pool sizes_of] in *.
      * split; [congruence|]. intros e He. apply Sa, T1s, I1 in He. destruct He; [left; apply Sb; assumption|right; assumption].
      * split; [congruence|]. intros e He. apply Sa, T2s, I2 in He. destruct He; [left; apply Sb; assumption|right; assumption].
      * split; [congruence|]. intros e He. apply Sa, T3s, I3 in He. destruct He; [left; apply Sb; assumption|right; assumption].
    + intros _ _ _ i. destruct (S2 i) as [_ Sa].
      destruct i as [|[|i]]; cbn [proj_pool] in *.
      * destruct (has_at (ck ws') target) eqn:Eh.
        -- left. intros e He. apply (T1a eq_refl), Sa, He.
        -- right. apply (has_at_false_sub (ck ws')); [|exact Eh]. intros e He. apply T1s, Sa, He.
      * destruct (has_at (ck wo') target) eqn:Eh.
        -- left. intros e He. apply (T2a eq_refl), Sa, He.
        -- right. apply (has_at_false_sub (ck wo')); [|exact Eh]. intros e He. apply T2s, Sa, He.
      * destruct (has_at (ck wi') target) eqn:Eh.
        -- left. intros e He. apply (T3a eq_refl), Sa, He.
        -- right. apply (has_at_false_sub (ck wi')); [|exact Eh]. intros e He. apply T3s, Sa, He.
    + intros Hw. apply So2. pose proof (So1 Hw) as Hw1.
      intros [|[|i]]; cbn [proj_pool].
      * apply T1k, K1, (Hw1 0%nat).
      * apply T2k, K2, (Hw1 1%nat).
      * apply T3k, K3, (Hw1 2%nat).
Qed.

(** * rewind_to_chain_state *)
Lemma zmin_fold_spec l : forall a x,
  fold_left (fun a x => match a with None => Some x | Some y => Some (Z.min x y) end) l a = Some x ->
  (a = Some x \/ In x l) /\ (forall y, In y l -> x <= y) /\ (forall y, a = Some y -> x <= y).
Proof.
  induction l as [|z r IH]; intros a x H; cbn [fold_left] in H.
  - subst. split; [left; reflexivity|]. split; [intros y []|intros y Hy; inversion Hy; lia].
  - destruct (IH _ _ H) as [A [B C]]. split; [|split].
    + destruct A as [A|A]; [|right; right; exact A].
      destruct a as [y|]; inversion A; subst.
      * destruct (Z.min_spec z y) as [[_ E]|[_ E]]; rewrite E; [right; left; reflexivity|left; reflexivity].
      * right. left. reflexivity.
    + intros y [<-|Hy]; [|apply B, Hy]. destruct a as [y0|]; (eapply Z.le_trans; [apply (C _ eq_refl)|]); lia.
    + intros y ->. eapply Z.le_trans; [apply (C _ eq_refl)|]. lia.
Qed.
Lemma zmin_list_in l x : zmin_list l = Some x -> In x l /\ forall y, In y l -> x <= y.
Proof.
  unfold zmin_list. intros H. destruct (zmin_fold_spec l None x H) as [[A|A] [B _]]; [discriminate|tauto].
Qed.
Lemma zmin_fold_some l : forall a, exists x,
  fold_left (fun a x => match a with None => Some x | Some y => Some (Z.min x y) end) l (Some a) = Some x.
Proof. induction l as [|z r IH]; intros a; cbn [fold_left]; [eauto|apply IH]. Qed.
Lemma zmin_list_nonempty l y : In y l -> exists x, zmin_list l = Some x.
Proof.
  unfold zmin_list. destruct l as [|b r]; [intros []|]. intros _. cbn [fold_left]. apply zmin_fold_some.
Qed.

Lemma min_ck_ge m h x : min_ck_at_or_above m h = Some x -> h <= x.
Proof.
  unfold min_ck_at_or_above. intros H. apply zmin_list_in in H. destruct H as [H _].
  apply filter_In in H. lia.
Qed.
Lemma min_ck_at m h : has_at m h = true -> min_ck_at_or_above m h = Some h.
Proof.
  unfold has_at, min_ck_at_or_above, ck_dom. intros H. apply existsb_exists in H. destruct H as [e [He1 He2]].
  assert (Hin : In h (filter (fun x => h <=? x) (map fst m))).
  { apply filter_In. split; [|lia]. apply in_map_iff. exists e. split; [lia|exact He1]. }
  destruct (zmin_list_nonempty _ _ Hin) as [x Hx]. rewrite Hx. f_equal.
  destruct (zmin_list_in _ _ Hx) as [A B]. apply filter_In in A. specialize (B h Hin). lia.
Qed.

Lemma rewind_spec depth blocks mn target w w' :
  rewind_to_chain_state depth blocks mn target w = Ok w' ->
  sub3 w' w /\ (w3_sorted w -> w3_sorted w') /\
  (* a target inside the pruning window that some pool has checkpointed: afterwards no pool holds a
     checkpoint above it *)
  (forall maxs, zmax_list blocks = Some maxs -> target < maxs -> maxs - (depth - 1) <= target -> 0 <= target ->
     (exists j, has_at (ck (proj_pool j w)) target = true) ->
     forall i e, In e (ck (proj_pool i w')) -> fst e <= target).
Proof.
  unfold rewind_to_chain_state. destruct (zmax_list blocks) as [maxs|] eqn:El.
  2:{ intros H. inversion H. subst. split; [intros i; tauto|]. split; [tauto|discriminate]. }
  destruct (target <? maxs) eqn:Et.
  2:{ intros H. inversion H. subst. split; [intros i; tauto|]. split; [tauto|]. intros m0 E0; inversion E0; lia. }
  destruct w as [[ws wo] wi].
  set (pf := Z.max 0 (maxs - (depth - 1))). set (tt := Z.max target pf).
  set (fl := omin (omin (min_ck_at_or_above (ck ws) tt) (min_ck_at_or_above (ck wo) tt)) (min_ck_at_or_above (ck wi) tt)).
  intros H. destruct (truncate_internal_spec _ _ _ _ _ _ H) as [S [A So]].
  split; [exact S|]. split; [exact So|].
  intros m0 E0 Hlt Hpf H0 [j Hj] i e He. inversion E0. subst m0.
  assert (Htt : tt = target) by (unfold tt, pf; lia).
  assert (Hfl : fl = Some target).
  { unfold fl. rewrite Htt.
    assert (G : forall m x, min_ck_at_or_above m target = Some x -> target <= x) by (intros; eapply min_ck_ge; eauto).
    destruct j as [|[|j]]; cbn [proj_pool] in Hj; rewrite (min_ck_at _ _ Hj).
    - destruct (min_ck_at_or_above (ck wo) target) as [x|] eqn:E1; destruct (min_ck_at_or_above (ck wi) target) as [y|] eqn:E2; cbn [omin];
        try (specialize (G _ _ E1)); try (pose proof (min_ck_ge _ _ _ E2)); f_equal; lia.
    - destruct (min_ck_at_or_above (ck ws) target) as [x|] eqn:E1; destruct (min_ck_at_or_above (ck wi) target) as [y|] eqn:E2; cbn [omin];
        try (specialize (G _ _ E1)); try (pose proof (min_ck_ge _ _ _ E2)); f_equal; lia.
    - destruct (min_ck_at_or_above (ck ws) target) as [x|] eqn:E1; destruct (min_ck_at_or_above (ck wo) target) as [y|] eqn:E2; cbn [omin];
        try (specialize (G _ _ E1)); try (pose proof (min_ck_ge _ _ _ E2)); f_equal; lia. }
  rewrite Hfl in A. apply (A maxs El Hlt i e He).
Qed.

(** * reachable states, including truncate_to_chain_state *)
Definition sizes_true (c : c3) (target : Z) (sizes : Z * Z * Z) : Prop :=
  forall i, sizes_of i sizes = proj_chain i c target.

Inductive reach (budget chunk : Z) : c3 -> w3 -> Prop :=
| RC_init c : reach budget chunk c wempty
| RC_put c w pol f bs w' :
    reach budget chunk c w -> opol_ok pol -> consistent c f bs ->
    put3 budget chunk pol f bs w = Ok w' -> reach budget chunk c w'
| RC_trunc c w blocks mn req h w' :
    reach budget chunk c w -> truncate_to_height blocks mn req w = Ok (h, w') ->
    reach budget chunk c w'
| RC_tcs c w blocks mn target sizes w' :
    reach budget chunk c w -> sizes_true c target sizes ->
    truncate_to_chain_state budget blocks mn target sizes w = Ok w' ->
    reach budget chunk c w'
| RC_rewind c w blocks mn target w' :
    reach budget chunk c w -> rewind_to_chain_state budget blocks mn target w = Ok w' ->
    reach budget chunk c w'
| RC_reorg c c' w h :
    reach budget chunk c w -> w3_le h w -> agree3 h c c' -> reach budget chunk c' w.

Lemma reachable_reach budget chunk c w : reachable budget chunk c w -> reach budget chunk c w.
Proof.
  induction 1; [apply RC_init|eapply RC_put; eauto|eapply RC_trunc; eauto|eapply RC_reorg; eauto].
Qed.

Lemma reach_true budget chunk c w : reach budget chunk c w -> w3_true_p c w.
Proof.
  induction 1 as [c|c w pol f bs w' _ IH Hp Hc Hput|c w blocks mn req h w' _ IH Ht
                  |c w blocks mn target sizes w' _ IH Hsz Ht|c w blocks mn target w' _ IH Hrw|c c' w h _ IH Hle Hag].
  - destruct c as [[c1 c2] c3']. cbn. repeat split; intros h p [].
  - eapply put3_true; eauto.
  - apply w3_true_proj. intros i. pose proof (proj1 (w3_true_proj c w) IH i) as Hi.
    destruct (truncate_to_height_sound _ _ _ _ _ _ Ht) as [_ [_ [last [_ [A B]]]]].
    destruct (Z_lt_dec h last) as [L|NL].
    + destruct (A L i) as [_ I]. intros h0 p Hin. apply Hi. apply I in Hin. tauto.
    + rewrite (B NL). exact Hi.
  - apply w3_true_proj. intros i. pose proof (proj1 (w3_true_proj c w) IH i) as Hi.
    destruct (tcs_spec _ _ _ _ _ _ _ Ht) as [A _]. destruct (A i) as [_ I].
    intros h0 p Hin. destruct (I _ Hin) as [Ho|Eq]; [apply Hi, Ho|].
    inversion Eq. subst. rewrite (Hsz i). reflexivity.
  - apply w3_true_proj. intros i. pose proof (proj1 (w3_true_proj c w) IH i) as Hi.
    destruct (rewind_spec _ _ _ _ _ _ Hrw) as [S _]. destruct (S i) as [_ I].
    intros h0 p Hin. apply Hi, I, Hin.
  - apply w3_true_proj. intros i. pose proof (proj1 (w3_true_proj c w) IH i) as Hi.
    intros h0 p Hin. rewrite (Hi h0 p Hin). f_equal. apply (Hag i). apply (Hle i (h0, p) Hin).
Qed.

Lemma reach_sorted budget chunk c w : reach budget chunk c w -> w3_sorted w.
Proof.
  induction 1 as [c|c w pol f bs w' _ IH Hp Hc Hput|c w blocks mn req h w' _ IH Ht
                  |c w blocks mn target sizes w' _ IH Hsz Ht|c w blocks mn target w' _ IH Hrw|c c' w h _ IH Hle Hag].
  - intros [|[|i]]; cbn; constructor.
  - eapply put3_sorted; eauto.
  - eapply truncate_sorted; eauto.
  - destruct (tcs_spec _ _ _ _ _ _ _ Ht) as [_ [_ S]]. apply S, IH.
  - destruct (rewind_spec _ _ _ _ _ _ Hrw) as [_ [S _]]. apply S, IH.
  - exact IH.
Qed.

Lemma put3_total_reach budget chunk c w pol f bs :
  0 < budget -> reach budget chunk c w -> opol_ok pol -> consistent c f bs ->
  exists w', put3 budget chunk pol f bs w = Ok w'.
Proof.
  intros Hb Hr. apply put3_total_gen; [exact Hb|eapply reach_sorted; eauto|eapply reach_true; eauto].
Qed.


(** The guard "some pool has checkpointed the target" of [rewind_spec] is necessary (C06-F4). *)
Definition rw_pool : pstate := {| ck := [(10, Some 0); (12, Some 1)]; rt := [] |}.
Lemma rewind_unguarded_refuted :
  exists depth blocks mn target w w' maxs i e,
    rewind_to_chain_state depth blocks mn target w = Ok w' /\
    zmax_list blocks = Some maxs /\ target < maxs /\ maxs - (depth - 1) <= target /\ 0 <= target /\
    In e (ck (proj_pool i w')) /\ target < fst e.
Proof.
  exists 100, [10; 11; 12; 13], (None, None, None), 11, (rw_pool, rw_pool, rw_pool).
  exists ({| ck := [(10, Some 0); (12, Some 1)]; rt := [] |}, {| ck := [(10, Some 0); (12, Some 1)]; rt := [] |},
          {| ck := [(10, Some 0); (12, Some 1)]; rt := [] |}), 13, 0%nat, (12, Some 1).
  split; [vm_compute; reflexivity|]. split; [reflexivity|]. cbn. repeat split; try lia. right. left. reflexivity.
Qed.
