(** C06 — executable model of the checkpoint ledger that librustzcash maintains on top of
    [ShardTree] (zcash_client_backend/src/data_api/ll/wallet.rs tree stage of [put_blocks],
    data_api/anchor_retention.rs, zcash_client_sqlite/src/wallet.rs [plan_tree_truncation] /
    [truncate_to_height]).  The Merkle structure itself (shardtree crate) is not modelled: a pool
    is its checkpoint table [(height, position)] plus the set of retained checkpoint ids.
    No proofs in this file. *)
From V.Lib Require Import Base MachInt.
From V.Gen Require Import C06Consts.
Local Open Scope Z_scope.

(** * Sorted sets of heights (BTreeSet<BlockHeight>) *)
Fixpoint zs_add (x : Z) (l : list Z) : list Z :=
  match l with
  | [] => [x]
  | y :: r => if x <? y then x :: l else if x =? y then l else y :: zs_add x r
  end.
Definition zs_addl (xs acc : list Z) : list Z := fold_left (fun a x => zs_add x a) xs acc.
Definition zs_union (a b : list Z) : list Z := zs_addl b (zs_addl a []).
Definition zs_mem (x : Z) (l : list Z) : bool := existsb (Z.eqb x) l.

(** * AnchorRetention (anchor_retention.rs) *)
Record policy := { p_from : Z; p_ivs : list Z }.
Definition is_boundary (iv h : Z) : bool := h mod iv =? 0.
Definition retains (p : policy) (h : Z) : bool :=
  (p_from p <=? h) && existsb (fun iv => is_boundary iv h) (p_ivs p).
Definition oretains (op : option policy) (h : Z) : bool :=
  match op with Some p => retains p h | None => false end.

(** The boundaries of one interval in [start, end]; all arithmetic in u64 with the debug-profile
    overflow checks, the final narrowing to u32 is an [expect]. The iterator is lazy: the value one
    past the last emitted boundary is computed (and may overflow) before [take_while] rejects it. *)
Definition boundaries_of (start end_ step : Z) : outcome (list Z) unit :=
  let q := start / step + (if start mod step =? 0 then 0 else 1) in
  let first := q * step in
  if u64_max <? first then Panic else
  if end_ <? first then Ok [] else
  let n := (end_ - first) / step in
  if u64_max <? (n + 1) * step then Panic else
  if u64_max <? first + (n + 1) * step then Panic else
  if u32_max <? first + n * step then Panic else
  Ok (map (fun k => first + Z.of_nat k * step) (seq 0 (Z.to_nat (n + 1)))).

Fixpoint retained_ivs (start end_ : Z) (ivs : list Z) (acc : list Z) : outcome (list Z) unit :=
  match ivs with
  | [] => Ok acc
  | iv :: r =>
      match boundaries_of start end_ iv with
      | Ok bs => retained_ivs start end_ r (zs_addl bs acc)
      | _ => Panic
      end
  end.
Definition retained_in_range (p : policy) (a b : Z) : outcome (list Z) unit :=
  retained_ivs (Z.max a (p_from p)) b (p_ivs p) [].

(** * cross_pool_ensure_heights / batch_ensure_heights (ll/wallet.rs) *)
Definition cross_pool (s o i : list Z) : list Z * list Z * list Z :=
  (zs_union o i, zs_union s i, zs_union s o).
Definition batch_ensure (s o i : list Z) (pol : option policy) (a b : Z)
  : outcome (list Z * list Z * list Z) unit :=
  let '(es, eo, ei) := cross_pool s o i in
  match pol with
  | None => Ok (es, eo, ei)
  | Some p =>
      match retained_in_range p a b with
      | Ok g => Ok (zs_addl g es, zs_addl g eo, zs_addl g ei)
      | _ => Panic
      end
  end.

(** * ensure_checkpoints *)
(** [BTreeMap::range(..=h).last()] on the ascending map of this batch's checkpoint positions. *)
Fixpoint lookup_le (h : Z) (m : list (Z * Z)) : option (Z * Z) :=
  match m with
  | [] => None
  | e :: r =>
      match lookup_le h r with
      | Some x => Some x
      | None => if fst e <=? h then Some e else None
      end
  end.
Definition frontier_pos (fsize : Z) : option Z := if fsize =? 0 then None else Some (fsize - 1).
Fixpoint ensure_checkpoints (hs : list Z) (existing : list (Z * Z)) (fsize : Z) : list (Z * option Z) :=
  match hs with
  | [] => []
  | h :: r =>
      match lookup_le h existing with
      | None => (h, frontier_pos fsize) :: ensure_checkpoints r existing fsize
      | Some (eh, p) =>
          if eh <? h then (h, Some p) :: ensure_checkpoints r existing fsize
          else ensure_checkpoints r existing fsize
      end
  end.

(** * One pool's ledger *)
Definition ckmap := list (Z * option Z).   (* ascending in height, one entry per height *)
Record pstate := { ck : ckmap; rt : list Z }.
Definition pempty : pstate := {| ck := []; rt := [] |}.

Definition opz_eqb := option_eqb Z.eqb.
(** [ShardStore::add_checkpoint] of the SQLite store: same id and same tree state is a no-op, same
    id and another tree state is [CheckpointConflict] ([None] here). *)
Fixpoint ck_add (h : Z) (p : option Z) (m : ckmap) : option ckmap :=
  match m with
  | [] => Some [(h, p)]
  | (h', p') :: r =>
      if h <? h' then Some ((h, p) :: m)
      else if h =? h' then (if opz_eqb p p' then Some m else None)
      else match ck_add h p r with Some r' => Some ((h', p') :: r') | None => None end
  end.
Definition ck_dom (m : ckmap) : list Z := map fst m.
Definition ck_has (h : Z) (m : ckmap) : bool := zs_mem h (ck_dom m).
Definition ck_min (m : ckmap) : option Z := match m with [] => None | (h, _) :: _ => Some h end.

(** [with_checkpoints] of the SQLite store iterates [ORDER BY position] (NULL first); ties are
    resolved by the primary key [checkpoint_id]. *)
Definition key_le (a b : Z * option Z) : bool :=
  match snd a, snd b with
  | None, None => fst a <=? fst b
  | None, Some _ => true
  | Some _, None => false
  | Some x, Some y => (x <? y) || ((x =? y) && (fst a <=? fst b))
  end.
Fixpoint kinsert (e : Z * option Z) (l : ckmap) : ckmap :=
  match l with
  | [] => [e]
  | x :: r => if key_le e x then e :: l else x :: kinsert e r
  end.
Definition ksort (l : ckmap) : ckmap := fold_right kinsert [] l.

(** [ShardTree::prune_excess_checkpoints]: retained ids are outside the budget; the oldest
    (in store order) non-retained checkpoints beyond [budget] are removed. *)
Definition prune (budget : Z) (s : pstate) : pstate :=
  let nonret := filter (fun e => negb (zs_mem (fst e) (rt s))) (ck s) in
  let prunable := Z.of_nat (length nonret) in
  if budget <? prunable then
    let victims := map fst (firstn (Z.to_nat (prunable - budget)) (ksort nonret)) in
    {| ck := filter (fun e => negb (zs_mem (fst e) victims)) (ck s); rt := rt s |}
  else s.

Definition retain (pol : option policy) (h : Z) (s : pstate) : pstate :=
  if oretains pol h then {| ck := ck s; rt := zs_add h (rt s) |} else s.

Inductive perr := EConflict | ERewindInvalid | ECorrupted | EOtherErr.
Definition perr_eqb (a b : perr) : bool :=
  match a, b with
  | EConflict, EConflict | ERewindInvalid, ERewindInvalid | ECorrupted, ECorrupted
  | EOtherErr, EOtherErr => true
  | _, _ => false
  end.

(** * The batch: per pool the tree size of [from_state] and the number of commitments per block *)
Record batch_in := { b_fsize : Z; b_cnts : list Z }.
Fixpoint own_from (h size : Z) (cnts : list Z) : list (Z * Z) :=
  match cnts with
  | [] => []
  | c :: r =>
      (if 0 <? c then [(h, size + c - 1)] else []) ++ own_from (h + 1) (size + c) r
  end.
(** [checkpoint_positions (build_subtrees ..)]: one checkpoint per block that has a commitment in
    this pool, at the block's last commitment. *)
Definition own_ckpts (f : Z) (b : batch_in) : list (Z * Z) := own_from (f + 1) (b_fsize b) (b_cnts b).
Definition total_cnt (b : batch_in) : Z := fold_right Z.add 0 (b_cnts b).

Fixpoint add_all (l : list (Z * Z)) (m : ckmap) : option ckmap :=
  match l with
  | [] => Some m
  | (h, p) :: r => match ck_add h (Some p) m with Some m' => add_all r m' | None => None end
  end.
Definition retain_all (pol : option policy) (l : list (Z * Z)) (s : pstate) : pstate :=
  fold_left (fun s e => retain pol (fst e) s) l s.

(** [update_tree], loop over the subtrees of [build_subtrees] (chunks of [chunk] positions counted
    from the frontier): retention is registered first, then [insert_tree] adds the chunk's
    checkpoints and prunes. *)
Definition ins_chunk (budget : Z) (pol : option policy) (l : list (Z * Z)) (s : pstate)
  : outcome pstate perr :=
  let s1 := retain_all pol l s in
  match add_all l (ck s1) with
  | None => Err EConflict
  | Some m => Ok (prune budget {| ck := m; rt := rt s1 |})
  end.
Fixpoint ins_chunks (budget : Z) (pol : option policy) (cs : list (list (Z * Z))) (s : pstate)
  : outcome pstate perr :=
  match cs with
  | [] => Ok s
  | c :: r =>
      match ins_chunk budget pol c s with
      | Ok s' => ins_chunks budget pol r s'
      | e => e
      end
  end.
Definition chunks_of (chunk fsize total : Z) (own : list (Z * Z)) : list (list (Z * Z)) :=
  let n := (total + chunk - 1) / chunk in
  map (fun c => filter (fun e => (snd e - fsize) / chunk =? Z.of_nat c) own) (seq 0 (Z.to_nat n)).

(** the loop over [missing_checkpoints]: skipped at or below the minimum checkpoint of the tree,
    no pruning afterwards *)
Fixpoint add_missing (pol : option policy) (m : Z) (miss : list (Z * option Z)) (s : pstate)
  : outcome pstate perr :=
  match miss with
  | [] => Ok s
  | (h, p) :: r =>
      if m <? h then
        match ck_add h p (ck s) with
        | None => Err EConflict
        | Some m' => add_missing pol m r (retain pol h {| ck := m'; rt := rt s |})
        end
      else add_missing pol m r s
  end.

Definition upd_pool (budget chunk : Z) (pol : option policy) (f : Z) (b : batch_in)
  (ens : list Z) (s : pstate) : outcome pstate perr :=
  let own := own_ckpts f b in
  let miss := ensure_checkpoints ens own (b_fsize b) in
  match ck_add f (frontier_pos (b_fsize b)) (ck s) with
  | None => Err EConflict
  | Some m1 =>
      let s0 := {| ck := m1; rt := rt s |} in
      (* an empty frontier only adds the checkpoint; a non-empty one goes through
         insert_frontier_nodes, which prunes *)
      let s1 := if b_fsize b =? 0 then s0 else prune budget s0 in
      let s2 := retain pol f s1 in
      match ins_chunks budget pol (chunks_of chunk (b_fsize b) (total_cnt b) own) s2 with
      | Ok s3 =>
          match ck_min (ck s3) with
          | None => Panic   (* expect("At least one checkpoint was inserted") *)
          | Some m => add_missing pol m miss s3
          end
      | e => e
      end
  end.

Definition w3 := (pstate * pstate * pstate)%type.
Definition wempty : w3 := (pempty, pempty, pempty).
Definition b3 := (batch_in * batch_in * batch_in)%type.
Definition blen (bs : b3) : Z := let '(a, _, _) := bs in Z.of_nat (length (b_cnts a)).

(** [put_blocks] tree stage for the three pools (Sapling, Orchard, Ironwood in this order). An
    error in any pool aborts the database transaction. *)
Definition put3 (budget chunk : Z) (pol : option policy) (f : Z) (bs : b3) (w : w3)
  : outcome w3 perr :=
  let '(bsap, borc, biro) := bs in
  let '(ws, wo, wi) := w in
  if blen bs =? 0 then Ok w else
  let l := f + blen bs in
  match batch_ensure (map fst (own_ckpts f bsap)) (map fst (own_ckpts f borc))
          (map fst (own_ckpts f biro)) pol (f + 1) l with
  | Ok (es, eo, ei) =>
      match upd_pool budget chunk pol f bsap es ws with
      | Ok ws' =>
          match upd_pool budget chunk pol f borc eo wo with
          | Ok wo' =>
              match upd_pool budget chunk pol f biro ei wi with
              | Ok wi' => Ok (ws', wo', wi')
              | Err e => Err e | Panic => Panic
              end
          | Err e => Err e | Panic => Panic
          end
      | Err e => Err e | Panic => Panic
      end
  | _ => Panic
  end.

(** * Truncation (zcash_client_sqlite/src/wallet.rs) *)
Inductive plan := ToCheckpoint | Unaffected | ResetToSubtreeRoots | WouldDestroyWitnesses | DivergedCheckpoints.
Definition plan_eqb (a b : plan) : bool :=
  match a, b with
  | ToCheckpoint, ToCheckpoint | Unaffected, Unaffected | ResetToSubtreeRoots, ResetToSubtreeRoots
  | WouldDestroyWitnesses, WouldDestroyWitnesses | DivergedCheckpoints, DivergedCheckpoints => true
  | _, _ => false
  end.
(** [minnote]: lowest mined height of a note of the pool with a recorded tree position. *)
Definition loses (minnote : option Z) (floor : Z) : bool :=
  match minnote with Some n => n <=? floor | None => false end.
Definition has_at (m : ckmap) (h : Z) := existsb (fun e => fst e =? h) m.
Definition has_above (m : ckmap) (h : Z) := existsb (fun e => h <? fst e) m.
Definition has_below (m : ckmap) (h : Z) := existsb (fun e => fst e <? h) m.
Definition plan_trunc (m : ckmap) (minnote : option Z) (h floor : Z) : plan :=
  if has_at m h then ToCheckpoint
  else if negb (has_above m h) then Unaffected
  else if negb (has_below m h) then
    (if loses minnote floor then WouldDestroyWitnesses else ResetToSubtreeRoots)
  else DivergedCheckpoints.

(** [pool_truncation_tolerance_sql] *)
Definition tolerant (m : ckmap) (minnote : option Z) (h : Z) : bool :=
  has_at m h || negb (has_above m h) || (negb (has_below m h) && negb (loses minnote h)).

Definition apply_plan (s : pstate) (minnote : option Z) (h floor : Z) : outcome pstate perr :=
  match plan_trunc (ck s) minnote h floor with
  | ToCheckpoint => Ok {| ck := filter (fun e => fst e <=? h) (ck s); rt := rt s |}
  | Unaffected => Ok s
  | ResetToSubtreeRoots => Ok {| ck := []; rt := rt s |}
  | WouldDestroyWitnesses => Err ERewindInvalid
  | DivergedCheckpoints => Err ECorrupted
  end.

Definition zmax_list (l : list Z) : option Z :=
  fold_left (fun a x => match a with None => Some x | Some y => Some (Z.max x y) end) l None.

Definition mn3 := (option Z * option Z * option Z)%type.
(** [truncate_to_height_internal] restricted to the note commitment trees. [blocks] are the
    heights of the [blocks] table. *)
Definition truncate_internal (blocks : list Z) (mn : mn3) (h floor : Z) (w : w3) : outcome w3 perr :=
  let '(ws, wo, wi) := w in
  let '(ns, no, ni) := mn in
  match zmax_list blocks with
  | Some last =>
      if h <? last then
        match apply_plan ws ns h floor with
        | Ok ws' =>
            match apply_plan wo no h floor with
            | Ok wo' =>
                match apply_plan wi ni h floor with
                | Ok wi' => Ok (ws', wo', wi')
                | Err e => Err e | Panic => Panic
                end
            | Err e => Err e | Panic => Panic
            end
        | Err e => Err e | Panic => Panic
        end
      else Ok w
  | None => Ok w
  end.

(** [select_truncation_height] *)
Definition select_height (blocks : list Z) (mn : mn3) (req : Z) (w : w3) : option Z :=
  let '(ws, wo, wi) := w in
  let '(ns, no, ni) := mn in
  zmax_list (filter (fun h => (h <=? req) && tolerant (ck ws) ns h && tolerant (ck wo) no h
                              && tolerant (ck wi) ni h) blocks).

(** [WalletWrite::truncate_to_height] *)
Definition truncate_to_height (blocks : list Z) (mn : mn3) (req : Z) (w : w3) : outcome (Z * w3) perr :=
  match select_height blocks mn req w with
  | None => Err ERewindInvalid
  | Some h =>
      match truncate_internal blocks mn h h w with
      | Ok w' => Ok (h, w')
      | Err e => Err e
      | Panic => Panic
      end
  end.

(** * truncate_to_chain_state (zcash_client_sqlite/src/wallet.rs) *)
(** [min_shared_checkpoint_height]: the lowest height checkpointed in every pool that has any
    checkpoint *)
Definition has_or_empty (m : ckmap) (h : Z) : bool :=
  match m with [] => true | _ => has_at m h end.
Definition zmin_list (l : list Z) : option Z :=
  fold_left (fun a x => match a with None => Some x | Some y => Some (Z.min x y) end) l None.
Definition min_shared (w : w3) : option Z :=
  let '(ws, wo, wi) := w in
  zmin_list (filter (fun h => has_or_empty (ck ws) h && has_or_empty (ck wo) h && has_or_empty (ck wi) h)
               (ck_dom (ck ws) ++ ck_dom (ck wo) ++ ck_dom (ck wi))).

(** what [truncate_to_height_internal h] does to the two inputs of the classification: blocks above
    [h] are deleted when blocks are removed at all; transactions above [h] are un-mined always *)
Definition blocks_after (blocks : list Z) (h : Z) : list Z :=
  match zmax_list blocks with
  | Some last => if h <? last then filter (fun x => x <=? h) blocks else blocks
  | None => blocks
  end.
Definition mn_after (mn : mn3) (h : Z) : mn3 :=
  let f o := match o with Some n => if n <=? h then Some n else None | None => None end in
  let '(a, b, c) := mn in (f a, f b, f c).

(** [insert_frontier(frontier, Checkpoint {id: target})] *)
Definition ins_frontier (budget target size : Z) (s : pstate) : outcome pstate perr :=
  match ck_add target (frontier_pos size) (ck s) with
  | None => Err EConflict
  | Some m => Ok (if size =? 0 then {| ck := m; rt := rt s |} else prune budget {| ck := m; rt := rt s |})
  end.

(** [ShardTree::truncate_to_checkpoint(target)]: nothing happens when no such checkpoint exists *)
Definition trunc_to_ck (target : Z) (s : pstate) : pstate :=
  if has_at (ck s) target then {| ck := filter (fun e => fst e <=? target) (ck s); rt := rt s |} else s.

Definition truncate_to_chain_state (budget : Z) (blocks : list Z) (mn : mn3) (target : Z)
  (sizes : Z * Z * Z) (w : w3) : outcome w3 perr :=
  let trunc_trees := match zmax_list blocks with Some last => target <? last | None => false end in
  if trunc_trees then
    (* Some (Ok _) = return early; None = fall through with the given state *)
    let stage1 : outcome (option w3 * (w3 * list Z * mn3)) perr :=
      match select_height blocks mn target w with
      | Some h =>
          if h =? target then
            match truncate_internal blocks mn h h w with
            | Ok w' => Ok (Some w', (w, blocks, mn))
            | Err e => Err e | Panic => Panic
            end
          else Ok (None, (w, blocks, mn))
      | None =>
          match min_shared w with
          | Some m =>
              match truncate_internal blocks mn m m w with
              | Ok w1 => Ok (None, (w1, blocks_after blocks m, mn_after mn m))
              | Err e => Err e | Panic => Panic
              end
          | None => Ok (None, (w, blocks, mn))
          end
      end in
    match stage1 with
    | Ok (Some w', _) => Ok w'
    | Ok (None, (w1, blocks1, mn1)) =>
        let '(ws, wo, wi) := w1 in
        let '(zs, zo, zi) := sizes in
        match ins_frontier budget target zs ws with
        | Ok ws' =>
            match ins_frontier budget target zo wo with
            | Ok wo' =>
                match ins_frontier budget target zi wi with
                | Ok wi' =>
                    (* each tree is truncated to the new checkpoint before the wallet rows are *)
                    truncate_internal blocks1 mn1 target target
                      (trunc_to_ck target ws', trunc_to_ck target wo', trunc_to_ck target wi')
                | Err e => Err e | Panic => Panic
                end
            | Err e => Err e | Panic => Panic
            end
        | Err e => Err e | Panic => Panic
        end
    | Err e => Err e
    | Panic => Panic
    end
  else truncate_internal blocks mn target target w.

(** * rewind_to_chain_state (tree part): the trees are truncated to the deepest checkpoint at or
    above max(target, max_scanned - (depth - 1)) held by any pool; tree state at or below the
    target is protected ([floor] = target) *)
Definition min_ck_at_or_above (m : ckmap) (h : Z) : option Z :=
  zmin_list (filter (fun x => h <=? x) (ck_dom m)).
Definition omin (a b : option Z) : option Z :=
  match a, b with
  | Some x, Some y => Some (Z.min x y)
  | Some x, None => Some x
  | None, y => y
  end.
Definition rewind_to_chain_state (depth : Z) (blocks : list Z) (mn : mn3) (target : Z) (w : w3)
  : outcome w3 perr :=
  match zmax_list blocks with
  | Some maxs =>
      if target <? maxs then
        let pf := Z.max 0 (maxs - (depth - 1)) in
        let tt := Z.max target pf in
        let '(ws, wo, wi) := w in
        let floor := omin (omin (min_ck_at_or_above (ck ws) tt) (min_ck_at_or_above (ck wo) tt))
                          (min_ck_at_or_above (ck wi) tt) in
        let th := match floor with Some x => x | None => pf end in
        truncate_internal blocks mn th target w
      else Ok w
  | None => Ok w
  end.
