(** C06 — proofs about update_tree for one pool, put_blocks for the three pools, truncation and
    the reachable-state invariant. *)
From Coq Require Import ZArith List Lia Bool.
From Coq Require Import ZifyBool.
From V.Lib Require Import Base MachInt.
From V.C06 Require Import Model Spec PRange PLedger.
Import ListNotations.
Local Open Scope Z_scope.

(** * decomposition of upd_pool *)
Definition after_frontier (budget : Z) (pol : option policy) (f : Z) (b : batch_in) (m1 : ckmap) (s : pstate) : pstate :=
  retain pol f (if b_fsize b =? 0 then {| ck := m1; rt := rt s |}
                else prune budget {| ck := m1; rt := rt s |}).

Lemma upd_pool_inv budget chunk pol f b ens s s' :
  upd_pool budget chunk pol f b ens s = Ok s' ->
  exists m1 s3 m,
    ck_add f (frontier_pos (b_fsize b)) (ck s) = Some m1 /\
    ins_chunks budget pol (chunks_of chunk (b_fsize b) (total_cnt b) (own_ckpts f b))
      (after_frontier budget pol f b m1 s) = Ok s3 /\
    ck_min (ck s3) = Some m /\
    add_missing pol m (ensure_checkpoints ens (own_ckpts f b) (b_fsize b)) s3 = Ok s'.
Proof.
  unfold upd_pool, after_frontier. intros H.
  destruct (ck_add f (frontier_pos (b_fsize b)) (ck s)) as [m1|] eqn:E1; [|discriminate].
  destruct (ins_chunks _ _ _ _) as [s3| |] eqn:E2; try discriminate.
  destruct (ck_min (ck s3)) as [m|] eqn:E3; [|discriminate].
  exists m1, s3, m. auto.
Qed.

(** * chunks partition the batch's own checkpoints *)
Lemma chunks_sub chunk fs total own c e : In c (chunks_of chunk fs total own) -> In e c -> In e own.
Proof.
  unfold chunks_of. intros Hc He. apply in_map_iff in Hc. destruct Hc as [k [<- _]].
  apply filter_In in He. tauto.
Qed.

Lemma chunks_cover chunk fs total own e :
  0 < chunk -> In e own -> fs <= snd e < fs + total ->
  exists c, In c (chunks_of chunk fs total own) /\ In e c.
Proof.
  intros Hc He Hp. unfold chunks_of.
  set (k := (snd e - fs) / chunk).
  assert (Hk0 : 0 <= k) by (apply Z.div_pos; lia).
  assert (Hk : k < (total + chunk - 1) / chunk).
  { unfold k.
    assert (H1 : (snd e - fs) / chunk <= (total - 1) / chunk) by (apply Z.div_le_mono; lia).
    replace (total + chunk - 1) with ((total - 1) + 1 * chunk) by ring.
    rewrite Z.div_add by lia. lia. }
  exists (filter (fun e0 => (snd e0 - fs) / chunk =? Z.of_nat (Z.to_nat k)) own). split.
  - apply in_map_iff. exists (Z.to_nat k). split; [reflexivity|]. apply in_seq. lia.
  - apply filter_In. split; [exact He|]. rewrite Z2Nat.id by lia. unfold k. lia.
Qed.

(** * update_tree keeps every checkpoint true *)
Definition consistent1 (c : chain) (f : Z) (b : batch_in) : Prop :=
  0 <= b_fsize b /\ c f = b_fsize b /\ sizes_ok c (f + 1) (b_fsize b) (b_cnts b).

Lemma ck_true_add c h p m m' : ck_true c m -> p = true_pos (c h) -> ck_add h p m = Some m' -> ck_true c m'.
Proof.
  intros Ht Hp Ha h0 p0 Hin. apply (ck_add_in _ _ _ _ Ha) in Hin. destruct Hin as [Eq|Hin].
  - inversion Eq. subst. reflexivity.
  - apply Ht. exact Hin.
Qed.

Lemma ck_true_sub c (m m' : ckmap) : (forall e, In e m' -> In e m) -> ck_true c m -> ck_true c m'.
Proof. intros Hs Ht h p Hin. apply Ht, Hs, Hin. Qed.

Lemma ins_chunks_true c budget pol cs : forall s s',
  (forall l h p, In l cs -> In (h, p) l -> Some p = true_pos (c h)) ->
  ck_true c (ck s) -> ins_chunks budget pol cs s = Ok s' -> ck_true c (ck s').
Proof.
  induction cs as [|l r IH]; intros s s' Hown Ht H; cbn [ins_chunks] in H.
  - inversion H. subst. exact Ht.
  - destruct (ins_chunk budget pol l s) as [s1| |] eqn:E; try discriminate.
    apply (IH s1 s'); [intros l0 h p Hl; apply Hown; right; exact Hl| |exact H].
    unfold ins_chunk in E.
    destruct (add_all l (ck (retain_all pol l s))) as [m|] eqn:E2; [|discriminate].
    inversion E. subst s1.
    apply (ck_true_sub c m); [intros e He; apply prune_sub in He; exact He|].
    intros h p Hin. apply (add_all_in _ _ _ E2) in Hin.
    destruct Hin as [[h0 [p0 [Hl Eq]]]|Hin].
    + inversion Eq. subst h p. apply (Hown l h0 p0); [left; reflexivity|exact Hl].
    + rewrite retain_all_ck in Hin. apply Ht. exact Hin.
Qed.

Lemma add_missing_true c pol m miss : forall s s',
  (forall h p, In (h, p) miss -> p = true_pos (c h)) ->
  ck_true c (ck s) -> add_missing pol m miss s = Ok s' -> ck_true c (ck s').
Proof.
  induction miss as [|[h p] r IH]; intros s s' Hm Ht H; cbn [add_missing] in H.
  - inversion H. subst. exact Ht.
  - assert (Hr : forall h0 p0, In (h0, p0) r -> p0 = true_pos (c h0)) by (intros; apply Hm; right; assumption).
    destruct (m <? h); [|eapply IH; eauto].
    destruct (ck_add h p (ck s)) as [m1|] eqn:E; [|discriminate].
    eapply IH; [exact Hr| |exact H]. rewrite retain_ck. cbn [ck].
    eapply ck_true_add; [exact Ht| |exact E]. apply Hm. left. reflexivity.
Qed.

Lemma frontier_true c f b : consistent1 c f b -> frontier_pos (b_fsize b) = true_pos (c f).
Proof. intros [_ [-> _]]. reflexivity. Qed.

Lemma upd_pool_true c budget chunk pol f b ens s s' :
  consistent1 c f b ->
  (forall h, In h ens -> f < h <= f + Z.of_nat (length (b_cnts b))) ->
  ck_true c (ck s) -> upd_pool budget chunk pol f b ens s = Ok s' -> ck_true c (ck s').
Proof.
  intros Hc Hens Ht H.
  destruct (upd_pool_inv _ _ _ _ _ _ _ _ H) as [m1 [s3 [m [E1 [E2 [E3 E4]]]]]].
  destruct Hc as [H0 [Hf Hok]].
  destruct (own_from_spec c (b_cnts b) (f + 1) (b_fsize b) H0 Hok) as [I1 _].
  assert (T1 : ck_true c m1).
  { eapply ck_true_add; [exact Ht| |exact E1]. rewrite Hf. reflexivity. }
  assert (T2 : ck_true c (ck (after_frontier budget pol f b m1 s))).
  { unfold after_frontier. rewrite retain_ck. destruct (b_fsize b =? 0); [exact T1|].
    apply (ck_true_sub c m1); [intros e He; apply prune_sub in He; exact He|exact T1]. }
  assert (T3 : ck_true c (ck s3)).
  { eapply ins_chunks_true; [|exact T2|exact E2].
    intros l h p Hl Hin. apply (chunks_sub _ _ _ _ _ _ Hl) in Hin. apply (I1 h p Hin). }
  eapply add_missing_true; [|exact T3|exact E4].
  apply (ensure_true c f b ens H0 Hok Hf Hens).
Qed.

(** * a consistent batch never conflicts with true checkpoints *)
Lemma ck_add_true_ok c h p m : ck_true c m -> p = true_pos (c h) -> exists m', ck_add h p m = Some m'.
Proof. intros Ht Hp. apply ck_add_ok. intros p' Hin. rewrite Hp. apply Ht. exact Hin. Qed.

Lemma add_all_true_ok c l : forall m,
  (forall h p, In (h, p) l -> Some p = true_pos (c h)) -> ck_true c m ->
  exists m', add_all l m = Some m'.
Proof.
  induction l as [|[h p] r IH]; intros m Hl Ht; cbn [add_all]; [eauto|].
  destruct (ck_add_true_ok c h (Some p) m Ht (Hl h p (or_introl eq_refl))) as [m1 E]. rewrite E.
  apply IH; [intros; apply Hl; right; assumption|].
  eapply ck_true_add; [exact Ht| |exact E]. apply Hl. left. reflexivity.
Qed.

Lemma ins_chunks_ok c budget pol cs : forall s,
  (forall l h p, In l cs -> In (h, p) l -> Some p = true_pos (c h)) ->
  ck_true c (ck s) -> exists s', ins_chunks budget pol cs s = Ok s'.
Proof.
  induction cs as [|l r IH]; intros s Hown Ht; cbn [ins_chunks]; [eauto|].
  unfold ins_chunk.
  destruct (add_all_true_ok c l (ck (retain_all pol l s))) as [m E].
  { intros h p Hin. apply (Hown l h p); [left; reflexivity|exact Hin]. }
  { rewrite retain_all_ck. exact Ht. }
  rewrite E. apply IH; [intros l0 h p Hl; apply Hown; right; exact Hl|].
  apply (ck_true_sub c m); [intros e He; apply prune_sub in He; exact He|].
  intros h p Hin. apply (add_all_in _ _ _ E) in Hin.
  destruct Hin as [[h0 [p0 [Hl Eq]]]|Hin].
  - inversion Eq. subst h p. apply (Hown l h0 p0); [left; reflexivity|exact Hl].
  - rewrite retain_all_ck in Hin. apply Ht. exact Hin.
Qed.

Lemma add_missing_ok c pol m miss : forall s,
  (forall h p, In (h, p) miss -> p = true_pos (c h)) -> ck_true c (ck s) ->
  exists s', add_missing pol m miss s = Ok s'.
Proof.
  induction miss as [|[h p] r IH]; intros s Hm Ht; cbn [add_missing]; [eauto|].
  assert (Hr : forall h0 p0, In (h0, p0) r -> p0 = true_pos (c h0)) by (intros; apply Hm; right; assumption).
  destruct (m <? h); [|apply IH; assumption].
  destruct (ck_add_true_ok c h p (ck s) Ht (Hm h p (or_introl eq_refl))) as [m1 E]. rewrite E.
  apply IH; [exact Hr|]. rewrite retain_ck. cbn [ck].
  eapply ck_true_add; [exact Ht| |exact E]. apply Hm. left. reflexivity.
Qed.


Lemma upd_pool_no_err c budget chunk pol f b ens s e :
  consistent1 c f b ->
  (forall h, In h ens -> f < h <= f + Z.of_nat (length (b_cnts b))) ->
  ck_true c (ck s) -> upd_pool budget chunk pol f b ens s <> Err e.
Proof.
  intros Hc Hens Ht. pose proof Hc as [H0 [Hf Hok]].
  destruct (own_from_spec c (b_cnts b) (f + 1) (b_fsize b) H0 Hok) as [I1 _].
  unfold upd_pool.
  destruct (ck_add_true_ok c f (frontier_pos (b_fsize b)) (ck s) Ht (frontier_true c f b Hc)) as [m1 E1].
  rewrite E1.
  assert (T1 : ck_true c m1) by (eapply ck_true_add; [exact Ht|apply (frontier_true c f b Hc)|exact E1]).
  set (s2 := retain pol f _).
  assert (T2 : ck_true c (ck s2)).
  { unfold s2. rewrite retain_ck. destruct (b_fsize b =? 0); [exact T1|].
    apply (ck_true_sub c m1); [intros x Hx; apply prune_sub in Hx; exact Hx|exact T1]. }
  assert (Hown : forall l h p, In l (chunks_of chunk (b_fsize b) (total_cnt b) (own_ckpts f b)) ->
                               In (h, p) l -> Some p = true_pos (c h)).
  { intros l h p Hl Hin. apply (chunks_sub _ _ _ _ _ _ Hl) in Hin. apply (I1 h p Hin). }
  destruct (ins_chunks_ok c budget pol _ s2 Hown T2) as [s3 E2]. rewrite E2.
  destruct (ck_min (ck s3)) as [m|]; [|discriminate].
  assert (T3 : ck_true c (ck s3)) by (eapply ins_chunks_true; [exact Hown|exact T2|exact E2]).
  destruct (add_missing_ok c pol m (ensure_checkpoints ens (own_ckpts f b) (b_fsize b)) s3) as [s' E4];
    [apply (ensure_true c f b ens H0 Hok Hf Hens)|exact T3|].
  rewrite E4. discriminate.
Qed.

(** * retained checkpoints survive update_tree; retention boundaries get one *)
Lemma upd_pool_safe budget chunk pol f b ens s s' e :
  upd_pool budget chunk pol f b ens s = Ok s' -> safe e s -> safe e s'.
Proof.
  intros H Hs.
  destruct (upd_pool_inv _ _ _ _ _ _ _ _ H) as [m1 [s3 [m [E1 [E2 [E3 E4]]]]]].
  eapply add_missing_safe; [exact E4|]. eapply ins_chunks_safe; [exact E2|].
  destruct Hs as [H1 H2]. unfold after_frontier.
  assert (Hin : In e m1) by (apply (ck_add_in _ _ _ _ E1); right; exact H1).
  split.
  - rewrite retain_ck. destruct (b_fsize b =? 0); [exact Hin|].
    apply prune_keeps_retained; cbn [ck rt]; assumption.
  - apply retain_rt_mono. destruct (b_fsize b =? 0); [exact H2|]. rewrite prune_rt. exact H2.
Qed.

Lemma own_bounds c f b h p :
  consistent1 c f b -> In (h, p) (own_ckpts f b) -> b_fsize b <= p < b_fsize b + total_cnt b.
Proof.
  intros [H0 [Hf Hok]] Hin. unfold own_ckpts in Hin.
  destruct (own_from_spec c (b_cnts b) (f + 1) (b_fsize b) H0 Hok) as [I1 [_ I3]].
  destruct (I1 h p Hin) as [_ [A _]]. specialize (I3 h p Hin). unfold total_cnt. lia.
Qed.

(** every height the pool must hold (its own block checkpoints and the ensured heights) that lies
    above the pool's oldest checkpoint is checkpointed afterwards unless it was one of the pool's own
    (then the budget applies); retained ones are checkpointed AND retained. *)
Lemma upd_pool_ensured c budget chunk pol f b ens s s' m h :
  0 < chunk -> consistent1 c f b ->
  upd_pool budget chunk pol f b ens s = Ok s' ->
  ck_min (ck s') = Some m ->
  In h ens \/ In h (map fst (own_ckpts f b)) ->
  (m < h -> In h (map fst (ck s')) \/ In h (map fst (own_ckpts f b))) /\
  (oretains pol h = true -> m < h \/ In h (map fst (own_ckpts f b)) ->
     In h (map fst (ck s')) /\ In h (rt s')).
Proof.
  intros Hch Hc H Hmin Hin.
  destruct (upd_pool_inv _ _ _ _ _ _ _ _ H) as [m1 [s3 [m0 [E1 [E2 [E3 E4]]]]]].
  assert (m0 = m).
  { pose proof (add_missing_min _ _ _ _ _ E4 E3) as Hm. rewrite Hm in Hmin. congruence. }
  subst m0.
  destruct (in_dec Z.eq_dec h (map fst (own_ckpts f b))) as [Hown|Hnown].
  - split; [intros _; right; exact Hown|].
    intros Hr _. apply in_map_iff in Hown. destruct Hown as [[h0 p] [Eh He]]. cbn [fst] in Eh. subst h0.
    destruct (chunks_cover chunk (b_fsize b) (total_cnt b) (own_ckpts f b) (h, p) Hch He
                (own_bounds c f b h p Hc He)) as [l [Hl Hel]].
    assert (Hs : safe (h, Some p) s3) by (eapply ins_chunks_new; eauto).
    destruct (add_missing_safe _ _ _ _ _ _ E4 Hs) as [A B]. split; [|exact B].
    apply in_map_iff. exists (h, Some p). tauto.
  - destruct Hin as [Hens|Hc2]; [|contradiction].
    destruct (ensure_has ens (own_ckpts f b) (b_fsize b) h Hens Hnown) as [p Hp].
    split.
    + intros Hm. left. destruct (add_missing_new _ _ _ _ _ _ _ E4 Hp Hm) as [A _].
      apply in_map_iff. exists (h, p). tauto.
    + intros Hr [Hm|Hc2]; [|contradiction].
      destruct (add_missing_new _ _ _ _ _ _ _ E4 Hp Hm) as [A B]. split; [|apply B, Hr].
      apply in_map_iff. exists (h, p). tauto.
Qed.

(** * the three pools *)
Definition c3 := (chain * chain * chain)%type.
Definition consistent (c : c3) (f : Z) (bs : b3) : Prop :=
  let '(c1, c2, c3) := c in let '(b1, b2, b3) := bs in
  consistent1 c1 f b1 /\ consistent1 c2 f b2 /\ consistent1 c3 f b3 /\
  length (b_cnts b2) = length (b_cnts b1) /\ length (b_cnts b3) = length (b_cnts b1) /\
  0 <= f /\ f + blen bs <= u32_max.
Definition w3_true_p (c : c3) (w : w3) : Prop :=
  let '(c1, c2, c3) := c in let '(s1, s2, s3) := w in
  ck_true c1 (ck s1) /\ ck_true c2 (ck s2) /\ ck_true c3 (ck s3).

Lemma own_heights c f b h :
  consistent1 c f b -> In h (map fst (own_ckpts f b)) -> f < h <= f + Z.of_nat (length (b_cnts b)).
Proof.
  intros [H0 [Hf Hok]] Hin. apply in_map_iff in Hin. destruct Hin as [[h0 p] [<- Hin]].
  destruct (own_from_spec c (b_cnts b) (f + 1) (b_fsize b) H0 Hok) as [I1 _].
  destruct (I1 h0 p Hin) as [A _]. cbn [fst]. lia.
Qed.

Lemma put3_inv budget chunk pol f bs w w' :
  put3 budget chunk pol f bs w = Ok w' ->
  blen bs <> 0 ->
  let '(b1, b2, b3) := bs in let '(s1, s2, s3) := w in let '(s1', s2', s3') := w' in
  exists es eo ei,
    batch_ensure (map fst (own_ckpts f b1)) (map fst (own_ckpts f b2)) (map fst (own_ckpts f b3))
      pol (f + 1) (f + blen bs) = Ok (es, eo, ei) /\
    upd_pool budget chunk pol f b1 es s1 = Ok s1' /\
    upd_pool budget chunk pol f b2 eo s2 = Ok s2' /\
    upd_pool budget chunk pol f b3 ei s3 = Ok s3'.
Proof.
  destruct bs as [[b1 b2] b3]. destruct w as [[s1 s2] s3]. destruct w' as [[s1' s2'] s3'].
  unfold put3. intros H Hne.
  destruct (blen (b1, b2, b3) =? 0) eqn:E0; [lia|].
  destruct (batch_ensure _ _ _ pol _ _) as [[[es eo] ei]| |] eqn:Eb; try discriminate.
  destruct (upd_pool budget chunk pol f b1 es s1) as [t1| |] eqn:E1; try discriminate.
  destruct (upd_pool budget chunk pol f b2 eo s2) as [t2| |] eqn:E2; try discriminate.
  destruct (upd_pool budget chunk pol f b3 ei s3) as [t3| |] eqn:E3; try discriminate.
  inversion H. subst. exists es, eo, ei. auto.
Qed.

Section Put3.
  Variables (budget chunk : Z) (pol : option policy) (f : Z).
  Variables (c1 c2 c3' : chain) (b1 b2 b3' : batch_in).
  Let c : c3 := (c1, c2, c3').
  Let bs : b3 := (b1, b2, b3').
  Hypothesis Hpol : opol_ok pol.
  Hypothesis Hcons : consistent c f bs.

  Let n := Z.of_nat (length (b_cnts b1)).
  Lemma blen_n : blen bs = n. Proof. reflexivity. Qed.

  Lemma range_u32 : 0 <= f + 1 <= u32_max /\ 0 <= f + n <= u32_max \/ n = 0.
  Proof.
    destruct Hcons as [_ [_ [_ [_ [_ [Hf Hl]]]]]]. rewrite blen_n in Hl.
    destruct (Z.eq_dec n 0); [right; assumption|left]. unfold n in *. lia.
  Qed.

  (** the ensure sets only contain heights of the batch range *)
  Lemma ensure_sets_in_range es eo ei :
    n <> 0 ->
    batch_ensure (map fst (own_ckpts f b1)) (map fst (own_ckpts f b2)) (map fst (own_ckpts f b3'))
      pol (f + 1) (f + n) = Ok (es, eo, ei) ->
    (forall h, In h es \/ In h eo \/ In h ei -> f < h <= f + n) /\
    (forall h, In h es <-> In h (map fst (own_ckpts f b2)) \/ In h (map fst (own_ckpts f b3')) \/ grid pol (f + 1) (f + n) h) /\
    (forall h, In h eo <-> In h (map fst (own_ckpts f b1)) \/ In h (map fst (own_ckpts f b3')) \/ grid pol (f + 1) (f + n) h) /\
    (forall h, In h ei <-> In h (map fst (own_ckpts f b1)) \/ In h (map fst (own_ckpts f b2)) \/ grid pol (f + 1) (f + n) h).
  Proof.
    intros Hn Eb. destruct range_u32 as [[Ha Hb]|]; [|contradiction].
    destruct (batch_ensure_spec (map fst (own_ckpts f b1)) (map fst (own_ckpts f b2)) (map fst (own_ckpts f b3'))
                pol (f + 1) (f + n) Hpol Ha Hb) as [es' [eo' [ei' [E [_ [_ [_ [S1 [S2 S3]]]]]]]]].
    rewrite Eb in E. inversion E. subst es' eo' ei'.
    destruct Hcons as [K1 [K2 [K3 [L2 [L3 _]]]]].
    assert (G : forall h, grid pol (f + 1) (f + n) h -> f < h <= f + n).
    { intros h. destruct pol; cbn [grid]; [lia|tauto]. }
    assert (O1 := fun h => own_heights c1 f b1 h K1).
    assert (O2 := fun h => own_heights c2 f b2 h K2).
    assert (O3 := fun h => own_heights c3' f b3' h K3).
    rewrite L2 in O2. rewrite L3 in O3. fold n in O1, O2, O3.
    split; [|split; [exact S1|split; [exact S2|exact S3]]].
    intros h [H|[H|H]]; [apply S1 in H|apply S2 in H|apply S3 in H];
      destruct H as [H|[H|H]]; auto.
  Qed.
End Put3.
