(** C06 — the main lemmas: put_blocks on three pools, truncation, reachable states. *)
From Coq Require Import ZArith List Lia Bool.
From Coq Require Import ZifyBool.
From V.Lib Require Import Base MachInt.
From V.C06 Require Import Model Spec PRange PLedger PPut.
Import ListNotations.
Local Open Scope Z_scope.

Definition proj_pool (i : nat) (w : w3) : pstate :=
  let '(a, b, c) := w in match i with O => a | S O => b | _ => c end.
Definition proj_batch (i : nat) (bs : b3) : batch_in :=
  let '(a, b, c) := bs in match i with O => a | S O => b | _ => c end.
Definition proj_chain (i : nat) (c : c3) : chain :=
  let '(a, b, d) := c in match i with O => a | S O => b | _ => d end.

Lemma w3_true_proj c w : w3_true_p c w <-> forall i, ck_true (proj_chain i c) (ck (proj_pool i w)).
Proof.
  destruct c as [[c1 c2] c3']. destruct w as [[s1 s2] s3]. cbn. split.
  - intros [A [B C]] [|[|i]]; assumption.
  - intros H. split; [exact (H 0%nat)|split; [exact (H 1%nat)|exact (H 2%nat)]].
Qed.

Lemma consistent_proj c f bs i : consistent c f bs -> consistent1 (proj_chain i c) f (proj_batch i bs).
Proof.
  destruct c as [[c1 c2] c3']. destruct bs as [[b1 b2] b3']. cbn.
  intros [A [B [C _]]]. destruct i as [|[|i]]; assumption.
Qed.

Lemma consistent_len c f bs i : consistent c f bs ->
  Z.of_nat (length (b_cnts (proj_batch i bs))) = blen bs.
Proof.
  destruct c as [[c1 c2] c3']. destruct bs as [[b1 b2] b3']. cbn.
  intros [_ [_ [_ [L2 [L3 _]]]]]. destruct i as [|[|i]]; congruence.
Qed.

(** the per-pool view of a successful put_blocks *)
Lemma put3_pool budget chunk pol f c bs w w' :
  opol_ok pol -> consistent c f bs -> put3 budget chunk pol f bs w = Ok w' -> blen bs <> 0 ->
  forall i, exists ens,
    upd_pool budget chunk pol f (proj_batch i bs) ens (proj_pool i w) = Ok (proj_pool i w') /\
    (forall h, In h ens -> f < h <= f + blen bs) /\
    (forall h, grid pol (f + 1) (f + blen bs) h -> In h ens) /\
    (forall h j, In h (map fst (own_ckpts f (proj_batch j bs))) ->
                 In h ens \/ In h (map fst (own_ckpts f (proj_batch i bs)))).
Proof.
  intros Hpol Hc H Hne.
  pose proof (put3_inv _ _ _ _ _ _ _ H Hne) as Hinv.
  destruct c as [[c1 c2] c3']. destruct bs as [[b1 b2] b3']. destruct w as [[s1 s2] s3].
  destruct w' as [[s1' s2'] s3']. destruct Hinv as [es [eo [ei [Eb [U1 [U2 U3]]]]]].
  assert (Hn : Z.of_nat (length (b_cnts b1)) <> 0) by exact Hne.
  destruct (ensure_sets_in_range pol f c1 c2 c3' b1 b2 b3' Hpol Hc es eo ei Hn Eb) as [R [S1 [S2 S3]]].
  change (blen (b1, b2, b3')) with (Z.of_nat (length (b_cnts b1))).
  intros [|[|i]]; cbn [proj_batch proj_pool].
  - exists es. split; [exact U1|]. split; [intros h Hh; apply R; tauto|].
    split; [intros h Hg; apply S1; tauto|].
    intros h [|[|j]] Hj; cbn [proj_batch] in Hj; [right; exact Hj|left; apply S1; tauto|left; apply S1; tauto].
  - exists eo. split; [exact U2|]. split; [intros h Hh; apply R; tauto|].
    split; [intros h Hg; apply S2; tauto|].
    intros h [|[|j]] Hj; cbn [proj_batch] in Hj; [left; apply S2; tauto|right; exact Hj|left; apply S2; tauto].
  - exists ei. split; [exact U3|]. split; [intros h Hh; apply R; tauto|].
    split; [intros h Hg; apply S3; tauto|].
    intros h [|[|j]] Hj; cbn [proj_batch] in Hj; [left; apply S3; tauto|left; apply S3; tauto|right; exact Hj].
Qed.

Lemma put3_empty budget chunk pol f bs w : blen bs = 0 -> put3 budget chunk pol f bs w = Ok w.
Proof.
  destruct bs as [[b1 b2] b3']. destruct w as [[s1 s2] s3]. unfold put3. intros ->. reflexivity.
Qed.

(** (1) every checkpoint stays true *)
Lemma put3_true budget chunk pol f c bs w w' :
  opol_ok pol -> consistent c f bs -> w3_true_p c w ->
  put3 budget chunk pol f bs w = Ok w' -> w3_true_p c w'.
Proof.
  intros Hpol Hc Ht H. destruct (Z.eq_dec (blen bs) 0) as [E|Hne].
  - rewrite (put3_empty _ _ _ _ _ _ E) in H. inversion H. subst. exact Ht.
  - apply w3_true_proj. intros i.
    destruct (put3_pool _ _ _ _ _ _ _ _ Hpol Hc H Hne i) as [ens [U [R _]]].
    eapply upd_pool_true; [apply consistent_proj; exact Hc| |apply w3_true_proj; exact Ht|exact U].
    intros h Hh. rewrite (consistent_len c f bs i Hc). apply R, Hh.
Qed.

(** (2) a batch that continues the chain is never refused by the ledger *)
Lemma put3_no_err budget chunk pol f c bs w e :
  opol_ok pol -> consistent c f bs -> w3_true_p c w ->
  put3 budget chunk pol f bs w <> Err e.
Proof.
  intros Hpol Hc Ht.
  destruct c as [[c1 c2] c3']. destruct bs as [[b1 b2] b3']. destruct w as [[s1 s2] s3].
  unfold put3. destruct (blen (b1, b2, b3') =? 0) eqn:E0; [discriminate|].
  assert (Hn : Z.of_nat (length (b_cnts b1)) <> 0) by (change (blen (b1, b2, b3') <> 0); lia).
  destruct (batch_ensure _ _ _ pol _ _) as [[[es eo] ei]| |] eqn:Eb; try discriminate.
  destruct (ensure_sets_in_range pol f c1 c2 c3' b1 b2 b3' Hpol Hc es eo ei Hn Eb) as [R _].
  pose proof Hc as [K1 [K2 [K3 [L2 [L3 _]]]]]. destruct Ht as [T1 [T2 T3]].
  destruct (upd_pool budget chunk pol f b1 es s1) as [t1|e1|] eqn:E1.
  2:{ exfalso. eapply (upd_pool_no_err c1); [exact K1| |exact T1|exact E1]. intros h Hh. apply R. tauto. }
  2:{ discriminate. }
  destruct (upd_pool budget chunk pol f b2 eo s2) as [t2|e2|] eqn:E2.
  2:{ exfalso. eapply (upd_pool_no_err c2); [exact K2| |exact T2|exact E2]. intros h Hh. rewrite L2. apply R. tauto. }
  2:{ discriminate. }
  destruct (upd_pool budget chunk pol f b3' ei s3) as [t3|e3|] eqn:E3.
  2:{ exfalso. eapply (upd_pool_no_err c3'); [exact K3| |exact T3|exact E3]. intros h Hh. rewrite L3. apply R. tauto. }
  2:{ discriminate. }
  discriminate.
Qed.

(** (3) retained checkpoints are never lost by put_blocks *)
Lemma put3_safe budget chunk pol f bs w w' i e :
  put3 budget chunk pol f bs w = Ok w' -> safe e (proj_pool i w) -> safe e (proj_pool i w').
Proof.
  intros H Hs. destruct (Z.eq_dec (blen bs) 0) as [E|Hne].
  - rewrite (put3_empty _ _ _ _ _ _ E) in H. inversion H. subst. exact Hs.
  - pose proof (put3_inv _ _ _ _ _ _ _ H Hne) as Hinv.
    destruct bs as [[b1 b2] b3']. destruct w as [[s1 s2] s3]. destruct w' as [[s1' s2'] s3'].
    destruct Hinv as [es [eo [ei [_ [U1 [U2 U3]]]]]].
    destruct i as [|[|i]]; cbn [proj_pool] in *; eapply upd_pool_safe; eauto.
Qed.

(** (4) every retention boundary of the scanned range that lies above a pool's oldest checkpoint is
    checkpointed and retained in that pool *)
Lemma put3_grid budget chunk p f c bs w w' i m h :
  0 < chunk -> pol_ok p -> consistent c f bs ->
  put3 budget chunk (Some p) f bs w = Ok w' ->
  f < h <= f + blen bs -> retains p h = true ->
  ck_min (ck (proj_pool i w')) = Some m ->
  m < h \/ In h (map fst (own_ckpts f (proj_batch i bs))) ->
  In h (map fst (ck (proj_pool i w'))) /\ In h (rt (proj_pool i w')).
Proof.
  intros Hch Hp Hc H Hh Hr Hm Hg.
  assert (Hne : blen bs <> 0).
  { intros E. lia. }
  destruct (put3_pool _ _ _ _ _ _ _ _ (Hp : opol_ok (Some p)) Hc H Hne i) as [ens [U [_ [G _]]]].
  destruct (upd_pool_ensured (proj_chain i c) _ _ _ _ _ _ _ _ m h Hch (consistent_proj c f bs i Hc) U Hm) as [_ B].
  - left. apply G. cbn [grid]. split; [lia|exact Hr].
  - apply B; [exact Hr|exact Hg].
Qed.

(** (5) alignment of one batch *)
Lemma put3_aligned budget chunk pol f c bs w w' i j m h :
  0 < chunk -> opol_ok pol -> consistent c f bs ->
  put3 budget chunk pol f bs w = Ok w' -> blen bs <> 0 ->
  In h (map fst (own_ckpts f (proj_batch j bs))) \/ grid pol (f + 1) (f + blen bs) h ->
  ck_min (ck (proj_pool i w')) = Some m -> m < h ->
  In h (map fst (ck (proj_pool i w'))) \/ In h (map fst (own_ckpts f (proj_batch i bs))).
Proof.
  intros Hch Hpol Hc H Hne Hh Hm Hlt.
  destruct (put3_pool _ _ _ _ _ _ _ _ Hpol Hc H Hne i) as [ens [U [_ [G O]]]].
  assert (Hin : In h ens \/ In h (map fst (own_ckpts f (proj_batch i bs)))).
  { destruct Hh as [Hh|Hh]; [apply (O h j Hh)|left; apply G, Hh]. }
  destruct (upd_pool_ensured (proj_chain i c) _ _ _ _ _ _ _ _ m h Hch (consistent_proj c f bs i Hc) U Hm Hin) as [A _].
  apply A, Hlt.
Qed.

(** * truncation *)
Lemma zmax_list_spec l : forall a x,
  fold_left (fun a x => match a with None => Some x | Some y => Some (Z.max x y) end) l a = Some x ->
  (a = Some x \/ In x l) /\ (forall y, In y l -> y <= x) /\ (forall y, a = Some y -> y <= x).
Proof.
  induction l as [|z r IH]; intros a x H; cbn [fold_left] in H.
  - subst. split; [left; reflexivity|]. split; [intros y []|intros y Hy; inversion Hy; lia].
  - destruct (IH _ _ H) as [A [B C]]. split; [|split].
    + destruct A as [A|A]; [|right; right; exact A].
      destruct a as [y|]; inversion A; subst.
      * destruct (Z.max_spec z y) as [[_ E]|[_ E]]; rewrite E; [left; reflexivity|right; left; reflexivity].
      * right. left. reflexivity.
    + intros y [<-|Hy]; [|apply B, Hy]. destruct a as [y0|]; (eapply Z.le_trans; [|apply (C _ eq_refl)]); lia.
    + intros y ->. eapply Z.le_trans; [|apply (C _ eq_refl)]. lia.
Qed.

Lemma zmax_fold_some l : forall a, exists x,
  fold_left (fun a x => match a with None => Some x | Some y => Some (Z.max x y) end) l (Some a) = Some x.
Proof. induction l as [|z r IH]; intros a; cbn [fold_left]; [eauto|apply IH]. Qed.

Lemma zmax_list_in l x : zmax_list l = Some x -> In x l /\ forall y, In y l -> y <= x.
Proof.
  unfold zmax_list. intros H. destruct (zmax_list_spec l None x H) as [[A|A] [B _]]; [discriminate|tauto].
Qed.

(** the five outcomes of plan_tree_truncation and what each does to the ledger *)
Lemma apply_plan_sound s mn h fl :
  match plan_trunc (ck s) mn h fl with
  | ToCheckpoint => has_at (ck s) h = true /\
      exists s', apply_plan s mn h fl = Ok s' /\ rt s' = rt s /\
        forall e, In e (ck s') <-> (In e (ck s) /\ fst e <= h)
  | Unaffected => has_at (ck s) h = false /\ has_above (ck s) h = false /\ apply_plan s mn h fl = Ok s
  | ResetToSubtreeRoots => has_at (ck s) h = false /\ has_below (ck s) h = false /\ loses mn fl = false /\
      exists s', apply_plan s mn h fl = Ok s' /\ rt s' = rt s /\ ck s' = []
  | WouldDestroyWitnesses => loses mn fl = true /\ has_below (ck s) h = false /\ apply_plan s mn h fl = Err ERewindInvalid
  | DivergedCheckpoints => has_at (ck s) h = false /\ has_above (ck s) h = true /\ has_below (ck s) h = true /\
      apply_plan s mn h fl = Err ECorrupted
  end.
Proof.
  unfold apply_plan. unfold plan_trunc.
  destruct (has_at (ck s) h) eqn:E1.
  - split; [reflexivity|]. eexists. split; [reflexivity|]. split; [reflexivity|].
    intros e. cbn [ck]. rewrite filter_In. split; intros [A B]; (split; [exact A|lia]).
  - destruct (has_above (ck s) h) eqn:E2; cbn [negb].
    + destruct (has_below (ck s) h) eqn:E3; cbn [negb].
      * auto.
      * destruct (loses mn fl) eqn:E4; [auto|]. split; [reflexivity|]. split; [reflexivity|]. split; [reflexivity|].
        eexists. split; [reflexivity|]. split; reflexivity.
    + auto.
Qed.

Lemma apply_plan_ok s mn h fl s' :
  apply_plan s mn h fl = Ok s' ->
  rt s' = rt s /\ (forall e, In e (ck s') -> In e (ck s)) /\
  (forall e, In e (ck s') -> fst e <= h) /\
  (forall e, In e (ck s) -> fst e <= h -> In e (ck s')).
Proof.
  intros H. pose proof (apply_plan_sound s mn h fl) as P.
  destruct (plan_trunc (ck s) mn h fl).
  - destruct P as [_ [s0 [E [R I]]]]. rewrite E in H. inversion H. subst s0.
    split; [exact R|]. split; [intros e He; apply I in He; tauto|].
    split; [intros e He; apply I in He; tauto|]. intros e A B. apply I. tauto.
  - destruct P as [A [B E]]. rewrite E in H. inversion H. subst s'.
    split; [reflexivity|]. split; [tauto|]. split; [|tauto].
    intros e He. unfold has_above in B.
    destruct (Z_le_gt_dec (fst e) h) as [L|G]; [exact L|]. exfalso.
    assert (existsb (fun e0 => h <? fst e0) (ck s) = true); [|congruence].
    apply existsb_exists. exists e. split; [exact He|lia].
  - destruct P as [A [B [_ [s0 [E [R K]]]]]]. rewrite E in H. inversion H. subst s0.
    split; [exact R|]. rewrite K. split; [intros e []|]. split; [intros e []|].
    intros e He Hle. exfalso. unfold has_at, has_below in *.
    destruct (Z.eq_dec (fst e) h) as [Eq|Ne].
    + assert (existsb (fun e0 => fst e0 =? h) (ck s) = true); [|congruence].
      apply existsb_exists. exists e. split; [exact He|lia].
    + assert (existsb (fun e0 => fst e0 <? h) (ck s) = true); [|congruence].
      apply existsb_exists. exists e. split; [exact He|lia].
  - destruct P as [_ [_ E]]. rewrite E in H. discriminate.
  - destruct P as [_ [_ [_ E]]]. rewrite E in H. discriminate.
Qed.

Lemma truncate_to_height_sound blocks mn req w h w' :
  truncate_to_height blocks mn req w = Ok (h, w') ->
  h <= req /\ In h blocks /\
  exists last, zmax_list blocks = Some last /\
  (h < last ->
     forall i, rt (proj_pool i w') = rt (proj_pool i w) /\
       (forall e, In e (ck (proj_pool i w')) <-> (In e (ck (proj_pool i w)) /\ fst e <= h))) /\
  (~ h < last -> w' = w).
Proof.
  unfold truncate_to_height. destruct (select_height blocks mn req w) as [th|] eqn:Es; [|discriminate].
  destruct (truncate_internal blocks mn th th w) as [w1| |] eqn:Et; try discriminate.
  intros H. inversion H. subst th w1. clear H.
  destruct w as [[s1 s2] s3]. destruct mn as [[n1 n2] n3].
  unfold select_height in Es. apply zmax_list_in in Es. destruct Es as [Es _].
  apply filter_In in Es. destruct Es as [Hb Hf].
  split; [lia|]. split; [exact Hb|].
  unfold truncate_internal in Et.
  destruct (zmax_list blocks) as [last|] eqn:El.
  2:{ exfalso. clear - Hb El. unfold zmax_list in El.
      destruct blocks as [|b r]; [destruct Hb|]. cbn [fold_left] in El.
      destruct (zmax_fold_some r b) as [x Ex]. rewrite Ex in El. discriminate. }
  exists last. split; [reflexivity|].
  destruct (h <? last) eqn:Eh.
  - destruct (apply_plan s1 n1 h h) as [t1| |] eqn:E1; try discriminate.
    destruct (apply_plan s2 n2 h h) as [t2| |] eqn:E2; try discriminate.
    destruct (apply_plan s3 n3 h h) as [t3| |] eqn:E3; try discriminate.
    inversion Et. subst w'. split; [|intros; lia].
    intros _ i.
    destruct (apply_plan_ok _ _ _ _ _ E1) as [R1 [A1 [B1 C1]]].
    destruct (apply_plan_ok _ _ _ _ _ E2) as [R2 [A2 [B2 C2]]].
    destruct (apply_plan_ok _ _ _ _ _ E3) as [R3 [A3 [B3 C3]]].
    destruct i as [|[|i]]; cbn [proj_pool]; (split; [assumption|]); intros e; split; intuition.
  - inversion Et. subst w'. split; [intros; lia|reflexivity].
Qed.

(** * reachable states *)
Definition w3_le (h : Z) (w : w3) : Prop := forall i e, In e (ck (proj_pool i w)) -> fst e <= h.
Definition agree3 (h : Z) (c c' : c3) : Prop := forall i, agree_upto h (proj_chain i c) (proj_chain i c').

Inductive reachable (budget chunk : Z) : c3 -> w3 -> Prop :=
| R_init c : reachable budget chunk c wempty
| R_put c w pol f bs w' :
    reachable budget chunk c w -> opol_ok pol -> consistent c f bs ->
    put3 budget chunk pol f bs w = Ok w' -> reachable budget chunk c w'
| R_trunc c w blocks mn req h w' :
    reachable budget chunk c w -> truncate_to_height blocks mn req w = Ok (h, w') ->
    reachable budget chunk c w'
| R_reorg c c' w h :
    reachable budget chunk c w -> w3_le h w -> agree3 h c c' -> reachable budget chunk c' w.

Lemma reachable_true budget chunk c w : reachable budget chunk c w -> w3_true_p c w.
Proof.
  induction 1 as [c|c w pol f bs w' _ IH Hp Hc Hput|c w blocks mn req h w' _ IH Ht|c c' w h _ IH Hle Hag].
  - destruct c as [[c1 c2] c3']. cbn. repeat split; intros h p [].
  - eapply put3_true; eauto.
  - apply w3_true_proj. intros i. pose proof (proj1 (w3_true_proj c w) IH i) as Hi.
    destruct (truncate_to_height_sound _ _ _ _ _ _ Ht) as [_ [_ [last [_ [A B]]]]].
    destruct (Z_lt_dec h last) as [L|NL].
    + destruct (A L i) as [_ I]. intros h0 p Hin. apply Hi. apply I in Hin. tauto.
    + rewrite (B NL). exact Hi.
  - apply w3_true_proj. intros i. pose proof (proj1 (w3_true_proj c w) IH i) as Hi.
    intros h0 p Hin. rewrite (Hi h0 p Hin). f_equal. apply (Hag i). apply (Hle i (h0, p) Hin).
Qed.
