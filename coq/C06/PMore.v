(** C06 — further lemmas: the starting frontier is registered as retained; sortedness of the
    checkpoint table; put_blocks never panics. *)
From Coq Require Import ZArith List Lia Bool Sorted Permutation.
From Coq Require Import ZifyBool.
From V.Lib Require Import Base MachInt.
From V.C06 Require Import Model Spec PRange PLedger PPut PMain.
Import ListNotations.
Local Open Scope Z_scope.

(** * the retained set only grows *)
Lemma ins_chunk_rt_mono b pol l s s' x : ins_chunk b pol l s = Ok s' -> In x (rt s) -> In x (rt s').
Proof.
  unfold ins_chunk. destruct (add_all l (ck (retain_all pol l s))); [|discriminate].
  intros H Hx. inversion H. rewrite prune_rt. cbn [rt]. apply retain_all_mono, Hx.
Qed.
Lemma ins_chunks_rt_mono b pol cs : forall s s' x, ins_chunks b pol cs s = Ok s' -> In x (rt s) -> In x (rt s').
Proof.
  induction cs as [|c r IH]; intros s s' x H Hx; cbn [ins_chunks] in H.
  - inversion H. subst. exact Hx.
  - destruct (ins_chunk b pol c s) as [s1| |] eqn:E; try discriminate.
    eapply IH; [exact H|]. eapply ins_chunk_rt_mono; eauto.
Qed.
Lemma add_missing_rt_mono pol m miss : forall s s' x, add_missing pol m miss s = Ok s' -> In x (rt s) -> In x (rt s').
Proof.
  induction miss as [|[h p] r IH]; intros s s' x H Hx; cbn [add_missing] in H.
  - inversion H. subst. exact Hx.
  - destruct (m <? h); [|eapply IH; eauto].
    destruct (ck_add h p (ck s)); [|discriminate].
    eapply IH; [exact H|]. apply retain_rt_mono. exact Hx.
Qed.

Lemma upd_pool_rt_mono budget chunk pol f b ens s s' x :
  upd_pool budget chunk pol f b ens s = Ok s' -> In x (rt s) -> In x (rt s').
Proof.
  intros H Hx. destruct (upd_pool_inv _ _ _ _ _ _ _ _ H) as [m1 [s3 [m [E1 [E2 [E3 E4]]]]]].
  eapply add_missing_rt_mono; [exact E4|]. eapply ins_chunks_rt_mono; [exact E2|].
  unfold after_frontier. apply retain_rt_mono. destruct (b_fsize b =? 0); [exact Hx|rewrite prune_rt; exact Hx].
Qed.

Lemma upd_pool_frontier_retained budget chunk pol f b ens s s' :
  upd_pool budget chunk pol f b ens s = Ok s' -> oretains pol f = true -> In f (rt s').
Proof.
  intros H Hr. destruct (upd_pool_inv _ _ _ _ _ _ _ _ H) as [m1 [s3 [m [E1 [E2 [E3 E4]]]]]].
  eapply add_missing_rt_mono; [exact E4|]. eapply ins_chunks_rt_mono; [exact E2|].
  unfold after_frontier. apply retain_rt_new, Hr.
Qed.

Lemma put3_frontier_retained budget chunk pol f bs w w' i :
  put3 budget chunk pol f bs w = Ok w' -> blen bs <> 0 -> oretains pol f = true ->
  In f (rt (proj_pool i w')).
Proof.
  intros H Hne Hr. pose proof (put3_inv _ _ _ _ _ _ _ H Hne) as Hinv.
  destruct bs as [[b1 b2] b3']. destruct w as [[s1 s2] s3]. destruct w' as [[s1' s2'] s3'].
  destruct Hinv as [es [eo [ei [_ [U1 [U2 U3]]]]]].
  destruct i as [|[|i]]; cbn [proj_pool]; eapply upd_pool_frontier_retained; eauto.
Qed.

Lemma put3_rt_mono budget chunk pol f bs w w' i x :
  put3 budget chunk pol f bs w = Ok w' -> In x (rt (proj_pool i w)) -> In x (rt (proj_pool i w')).
Proof.
  intros H Hx. destruct (Z.eq_dec (blen bs) 0) as [E|Hne].
  - rewrite (put3_empty _ _ _ _ _ _ E) in H. inversion H. subst. exact Hx.
  - pose proof (put3_inv _ _ _ _ _ _ _ H Hne) as Hinv.
    destruct bs as [[b1 b2] b3']. destruct w as [[s1 s2] s3]. destruct w' as [[s1' s2'] s3'].
    destruct Hinv as [es [eo [ei [_ [U1 [U2 U3]]]]]].
    destruct i as [|[|i]]; cbn [proj_pool] in *; eapply upd_pool_rt_mono; eauto.
Qed.

(** * the checkpoint table stays strictly ascending in height *)
Definition sck (m : ckmap) : Prop := StronglySorted (fun a b : Z * option Z => fst a < fst b) m.

Lemma sck_filter (g : Z * option Z -> bool) m : sck m -> sck (filter g m).
Proof.
  unfold sck. induction m as [|e r IH]; intros H; cbn [filter]; [constructor|].
  inversion H as [|? ? Hr Hf]; subst.
  destruct (g e); [|apply IH, Hr].
  constructor; [apply IH, Hr|].
  rewrite Forall_forall in *. intros x Hx. apply filter_In in Hx. apply Hf. tauto.
Qed.

Lemma ck_add_sck h p m m' : sck m -> ck_add h p m = Some m' -> sck m'.
Proof.
  unfold sck. revert m'. induction m as [|[h' p'] r IH]; intros m' Hs H; cbn [ck_add] in H.
  - inversion H. repeat constructor.
  - inversion Hs as [|? ? Hr Hf]; subst.
    destruct (h <? h') eqn:E1.
    + inversion H. constructor; [exact Hs|]. constructor; [cbn; lia|].
      rewrite Forall_forall in *. intros x Hx. specialize (Hf x Hx). cbn in *. lia.
    + destruct (h =? h') eqn:E2.
      * destruct (opz_eqb p p'); [|discriminate]. inversion H. subst. exact Hs.
      * destruct (ck_add h p r) as [r'|] eqn:E3; [|discriminate]. inversion H. subst m'.
        constructor; [apply (IH r' Hr eq_refl)|].
        rewrite Forall_forall in *. intros x Hx. apply (ck_add_in _ _ _ _ E3) in Hx.
        destruct Hx as [->|Hx]; [cbn; lia|apply Hf, Hx].
Qed.

Lemma sck_nodup m : sck m -> NoDup (map fst m).
Proof.
  unfold sck. induction m as [|e r IH]; intros H; cbn [map]; [constructor|].
  inversion H as [|? ? Hr Hf]; subst. constructor; [|apply IH, Hr].
  intros Hin. apply in_map_iff in Hin. destruct Hin as [x [Ex Hx]].
  rewrite Forall_forall in Hf. specialize (Hf x Hx). lia.
Qed.

Lemma kinsert_perm e l : Permutation (kinsert e l) (e :: l).
Proof.
  induction l as [|x r IH]; cbn [kinsert]; [apply Permutation_refl|].
  destruct (key_le e x); [apply Permutation_refl|].
  eapply perm_trans; [apply perm_skip, IH|apply perm_swap].
Qed.
Lemma ksort_perm l : Permutation (ksort l) l.
Proof.
  unfold ksort. induction l as [|x r IH]; cbn [fold_right]; [constructor|].
  eapply perm_trans; [apply kinsert_perm|apply perm_skip, IH].
Qed.

Lemma nodup_app_disjoint {A} (a b : list A) x : NoDup (a ++ b) -> In x a -> In x b -> False.
Proof.
  induction a as [|y r IH]; intros H Ha Hb; [destruct Ha|].
  cbn in H. inversion H as [|? ? Hn Hr]; subst. destruct Ha as [->|Ha].
  - apply Hn. apply in_or_app. right. exact Hb.
  - apply IH; assumption.
Qed.

Lemma prune_sck b s : sck (ck s) -> sck (ck (prune b s)).
Proof. unfold prune. destruct (b <? _); [cbn [ck]; apply sck_filter|tauto]. Qed.

(** with a positive budget, pruning never empties a non-empty checkpoint table *)
Lemma prune_nonempty b s : 0 < b -> sck (ck s) -> ck s <> [] -> ck (prune b s) <> [].
Proof.
  intros Hb Hs Hne. unfold prune.
  set (nonret := filter (fun e => negb (zs_mem (fst e) (rt s))) (ck s)).
  destruct (b <? Z.of_nat (length nonret)) eqn:E; [|exact Hne]. cbn [ck].
  set (k := Z.to_nat (Z.of_nat (length nonret) - b)).
  set (L := ksort nonret).
  assert (HP : Permutation L nonret) by apply ksort_perm.
  assert (Hlen : length L = length nonret) by (apply Permutation_length, HP).
  assert (Hk : (k < length L)%nat) by (rewrite Hlen; unfold k; lia).
  assert (Hnd : NoDup (map fst L)).
  { eapply Permutation_NoDup; [apply Permutation_map, Permutation_sym, HP|].
    apply sck_nodup. apply sck_filter. exact Hs. }
  rewrite <- (firstn_skipn k L) in Hnd. rewrite map_app in Hnd.
  destruct (skipn k L) as [|e t] eqn:Esk.
  { exfalso. pose proof (skipn_length k L) as Hl. rewrite Esk in Hl. cbn in Hl. lia. }
  assert (HeL : In e L).
  { rewrite <- (firstn_skipn k L). apply in_or_app. right. rewrite Esk. left. reflexivity. }
  assert (Hen : In e nonret) by (eapply Permutation_in; [exact HP|exact HeL]).
  unfold nonret in Hen. apply filter_In in Hen. destruct Hen as [Hec _].
  intros Hc.
  assert (Hin : In e (filter (fun e0 => negb (zs_mem (fst e0) (map fst (firstn k L)))) (ck s))).
  2:{ fold nonret in Hc. fold L in Hc. fold k in Hc. rewrite Hc in Hin. destruct Hin. }
  apply filter_In. split; [exact Hec|].
  apply negb_true_iff, not_true_iff_false. intros Hm. apply zs_mem_in in Hm.
  apply (nodup_app_disjoint _ _ (fst e) Hnd Hm). cbn [map]. left. reflexivity.
Qed.

Lemma add_all_sck l : forall m m', sck m -> add_all l m = Some m' -> sck m'.
Proof.
  induction l as [|[h p] r IH]; intros m m' Hs H; cbn [add_all] in H.
  - inversion H. subst. exact Hs.
  - destruct (ck_add h (Some p) m) as [m1|] eqn:E; [|discriminate].
    eapply IH; [|exact H]. eapply ck_add_sck; eauto.
Qed.
Lemma add_all_nonempty l : forall m m', m <> [] -> add_all l m = Some m' -> m' <> [].
Proof.
  intros m m' Hne H Hc. destruct m as [|e r]; [congruence|].
  assert (In e m') by (apply (add_all_in _ _ _ H); right; left; reflexivity).
  rewrite Hc in H0. destruct H0.
Qed.

Definition good (s : pstate) : Prop := sck (ck s) /\ ck s <> [].

Lemma ins_chunk_good b pol l s s' : 0 < b -> ins_chunk b pol l s = Ok s' -> good s -> good s'.
Proof.
  unfold ins_chunk. intros Hb.
  destruct (add_all l (ck (retain_all pol l s))) as [m|] eqn:E; [|discriminate].
  intros H [Hs Hne]. inversion H. subst s'. rewrite retain_all_ck in E.
  assert (sck m) by (eapply add_all_sck; eauto).
  assert (m <> []) by (eapply add_all_nonempty; eauto).
  split; [apply prune_sck; exact H0|apply prune_nonempty; assumption].
Qed.
Lemma ins_chunks_good b pol cs : forall s s', 0 < b -> ins_chunks b pol cs s = Ok s' -> good s -> good s'.
Proof.
  induction cs as [|c r IH]; intros s s' Hb H Hg; cbn [ins_chunks] in H.
  - inversion H. subst. exact Hg.
  - destruct (ins_chunk b pol c s) as [s1| |] eqn:E; try discriminate.
    eapply IH; [exact Hb|exact H|]. eapply ins_chunk_good; eauto.
Qed.
Lemma ins_chunks_not_panic b pol cs : forall s, ins_chunks b pol cs s <> Panic.
Proof.
  induction cs as [|c r IH]; intros s; cbn [ins_chunks]; [discriminate|].
  unfold ins_chunk at 1. destruct (add_all c (ck (retain_all pol c s))); [apply IH|discriminate].
Qed.
Lemma add_missing_not_panic pol m miss : forall s, add_missing pol m miss s <> Panic.
Proof.
  induction miss as [|[h p] r IH]; intros s; cbn [add_missing]; [discriminate|].
  destruct (m <? h); [|apply IH]. destruct (ck_add h p (ck s)); [apply IH|discriminate].
Qed.
Lemma add_missing_sck pol m miss : forall s s', add_missing pol m miss s = Ok s' -> sck (ck s) -> sck (ck s').
Proof.
  induction miss as [|[h p] r IH]; intros s s' H Hs; cbn [add_missing] in H.
  - inversion H. subst. exact Hs.
  - destruct (m <? h); [|eapply IH; eauto].
    destruct (ck_add h p (ck s)) as [m1|] eqn:E; [|discriminate].
    eapply IH; [exact H|]. rewrite retain_ck. cbn [ck]. eapply ck_add_sck; eauto.
Qed.

Lemma after_frontier_good budget pol f b m1 s :
  0 < budget -> sck (ck s) -> ck_add f (frontier_pos (b_fsize b)) (ck s) = Some m1 ->
  good (after_frontier budget pol f b m1 s).
Proof.
  intros Hb Hs E. unfold after_frontier, good. rewrite retain_ck.
  assert (S1 : sck m1) by (eapply ck_add_sck; eauto).
  assert (N1 : m1 <> []).
  { intros Hc. assert (In (f, frontier_pos (b_fsize b)) m1) by (apply (ck_add_in _ _ _ _ E); left; reflexivity).
    rewrite Hc in H. destruct H. }
  destruct (b_fsize b =? 0); [split; assumption|].
  split; [apply prune_sck; exact S1|apply prune_nonempty; assumption].
Qed.

Lemma upd_pool_not_panic budget chunk pol f b ens s :
  0 < budget -> sck (ck s) -> upd_pool budget chunk pol f b ens s <> Panic.
Proof.
  intros Hb Hs. unfold upd_pool.
  destruct (ck_add f (frontier_pos (b_fsize b)) (ck s)) as [m1|] eqn:E1; [|discriminate].
  pose proof (after_frontier_good budget pol f b m1 s Hb Hs E1) as Hg. unfold after_frontier in Hg.
  destruct (ins_chunks budget pol _ _) as [s3| |] eqn:E2.
  - destruct (ins_chunks_good _ _ _ _ _ Hb E2 Hg) as [_ Hne].
    destruct (ck s3) as [|[h0 p0] r] eqn:E3; [congruence|]. cbn [ck_min]. apply add_missing_not_panic.
  - discriminate.
  - exfalso. eapply ins_chunks_not_panic; eauto.
Qed.

Lemma upd_pool_sck budget chunk pol f b ens s s' :
  upd_pool budget chunk pol f b ens s = Ok s' -> sck (ck s) -> sck (ck s').
Proof.
  intros H Hs. destruct (upd_pool_inv _ _ _ _ _ _ _ _ H) as [m1 [s3 [m [E1 [E2 [E3 E4]]]]]].
  eapply add_missing_sck; [exact E4|].
  assert (S1 : sck m1) by (eapply ck_add_sck; eauto).
  assert (S2 : sck (ck (after_frontier budget pol f b m1 s))).
  { unfold after_frontier. rewrite retain_ck. destruct (b_fsize b =? 0); [exact S1|apply prune_sck; exact S1]. }
  clear - E2 S2. revert E2 S2. generalize (after_frontier budget pol f b m1 s).
  generalize (chunks_of chunk (b_fsize b) (total_cnt b) (own_ckpts f b)).
  intros cs. induction cs as [|c r IH]; intros s0 H Hs; cbn [ins_chunks] in H.
  - inversion H. subst. exact Hs.
  - destruct (ins_chunk budget pol c s0) as [s1| |] eqn:E; try discriminate.
    apply (IH s1 H). unfold ins_chunk in E.
    destruct (add_all c (ck (retain_all pol c s0))) as [m|] eqn:Ea; [|discriminate].
    inversion E. rewrite retain_all_ck in Ea. apply prune_sck. cbn [ck]. eapply add_all_sck; eauto.
Qed.

Definition w3_sorted (w : w3) : Prop := forall i, sck (ck (proj_pool i w)).

Lemma put3_sorted budget chunk pol f bs w w' :
  put3 budget chunk pol f bs w = Ok w' -> w3_sorted w -> w3_sorted w'.
Proof.
  intros H Hs. destruct (Z.eq_dec (blen bs) 0) as [E|Hne].
  - rewrite (put3_empty _ _ _ _ _ _ E) in H. inversion H. subst. exact Hs.
  - pose proof (put3_inv _ _ _ _ _ _ _ H Hne) as Hinv.
    destruct bs as [[b1 b2] b3']. destruct w as [[s1 s2] s3]. destruct w' as [[s1' s2'] s3'].
    destruct Hinv as [es [eo [ei [_ [U1 [U2 U3]]]]]].
    intros [|[|i]]; cbn [proj_pool]; eapply upd_pool_sck; eauto; [apply (Hs 0%nat)|apply (Hs 1%nat)|apply (Hs 2%nat)].
Qed.

Lemma apply_plan_sck s mn h fl s' : apply_plan s mn h fl = Ok s' -> sck (ck s) -> sck (ck s').
Proof.
  unfold apply_plan. destruct (plan_trunc (ck s) mn h fl); intros H Hs; inversion H; subst; cbn [ck];
    [apply sck_filter; exact Hs|exact Hs|constructor].
Qed.

Lemma truncate_sorted blocks mn req w h w' :
  truncate_to_height blocks mn req w = Ok (h, w') -> w3_sorted w -> w3_sorted w'.
Proof.
  unfold truncate_to_height. destruct (select_height blocks mn req w) as [th|]; [|discriminate].
  destruct (truncate_internal blocks mn th th w) as [w1| |] eqn:Et; try discriminate.
  intros H Hs. inversion H. subst th w1. clear H.
  destruct w as [[s1 s2] s3]. destruct mn as [[n1 n2] n3]. unfold truncate_internal in Et.
  destruct (zmax_list blocks) as [last|]; [|inversion Et; subst; exact Hs].
  destruct (h <? last); [|inversion Et; subst; exact Hs].
  destruct (apply_plan s1 n1 h h) as [t1| |] eqn:E1; try discriminate.
  destruct (apply_plan s2 n2 h h) as [t2| |] eqn:E2; try discriminate.
  destruct (apply_plan s3 n3 h h) as [t3| |] eqn:E3; try discriminate.
  inversion Et. subst w'.
  intros [|[|i]]; cbn [proj_pool]; eapply apply_plan_sck; eauto; [apply (Hs 0%nat)|apply (Hs 1%nat)|apply (Hs 2%nat)].
Qed.

Lemma reachable_sorted budget chunk c w : reachable budget chunk c w -> w3_sorted w.
Proof.
  induction 1 as [c|c w pol f bs w' _ IH Hp Hc Hput|c w blocks mn req h w' _ IH Ht|c c' w h _ IH Hle Hag].
  - intros [|[|i]]; cbn; constructor.
  - eapply put3_sorted; eauto.
  - eapply truncate_sorted; eauto.
  - exact IH.
Qed.

(** put_blocks on a batch that continues the chain succeeds: no error, no panic *)
Lemma put3_total_gen budget chunk c w pol f bs :
  0 < budget -> w3_sorted w -> w3_true_p c w -> opol_ok pol -> consistent c f bs ->
  exists w', put3 budget chunk pol f bs w = Ok w'.
Proof.
  intros Hb Hs Ht Hpol Hc.
  destruct (put3 budget chunk pol f bs w) as [w'|e|] eqn:E; [eauto| |].
  - exfalso. eapply (put3_no_err _ _ _ _ c); eauto.
  - exfalso. clear Ht.
    destruct c as [[c1 c2] c3']. destruct bs as [[b1 b2] b3']. destruct w as [[s1 s2] s3].
    unfold put3 in E. destruct (blen (b1, b2, b3') =? 0) eqn:E0; [discriminate|].
    assert (Hn : Z.of_nat (length (b_cnts b1)) <> 0) by (change (blen (b1, b2, b3') <> 0); lia).
    pose proof Hc as [_ [_ [_ [_ [_ [Hf Hl]]]]]].
    change (blen (b1, b2, b3')) with (Z.of_nat (length (b_cnts b1))) in *.
    destruct (batch_ensure_spec (map fst (own_ckpts f b1)) (map fst (own_ckpts f b2)) (map fst (own_ckpts f b3'))
                pol (f + 1) (f + Z.of_nat (length (b_cnts b1))) Hpol ltac:(lia) ltac:(lia)) as [es [eo [ei [Eb _]]]].
    rewrite Eb in E.
    pose proof (upd_pool_not_panic budget chunk pol f b1 es s1 Hb (Hs 0%nat)) as P1.
    pose proof (upd_pool_not_panic budget chunk pol f b2 eo s2 Hb (Hs 1%nat)) as P2.
    pose proof (upd_pool_not_panic budget chunk pol f b3' ei s3 Hb (Hs 2%nat)) as P3.
    cbn [proj_pool] in P1, P2, P3.
    destruct (upd_pool budget chunk pol f b1 es s1); try discriminate; [|congruence].
    destruct (upd_pool budget chunk pol f b2 eo s2); try discriminate; [|congruence].
    destruct (upd_pool budget chunk pol f b3' ei s3); try discriminate. congruence.
Qed.

Lemma put3_total budget chunk c w pol f bs :
  0 < budget -> reachable budget chunk c w -> opol_ok pol -> consistent c f bs ->
  exists w', put3 budget chunk pol f bs w = Ok w'.
Proof.
  intros Hb Hr. apply put3_total_gen; [exact Hb|eapply reachable_sorted; eauto|eapply reachable_true; eauto].
Qed.
