(** C06 — bridge for the pure cases: inside the theorems' domain, agreement of the implementation
    with the model implies the property clause evaluated on the implementation's outcome. *)
From Coq Require Import ZArith List Lia Bool Sorted.
From Coq Require Import ZifyBool.
From V.Lib Require Import Base MachInt.
From V.C06 Require Import Model Spec PRange Corr Wf.
Import ListNotations.
Local Open Scope Z_scope.

Definition pure_case (c : case) : bool :=
  match c with CRetains _ _ _ | CRange _ _ _ _ | CBatch _ _ _ _ _ _ _ => true | _ => false end.

Lemma lz_eqb_eq a b : lz_eqb a b = true <-> a = b.
Proof. unfold lz_eqb. apply list_eqb_spec. intros x y. apply Z.eqb_eq. Qed.

Lemma in_u32_iff x : in_u32 x = true <-> 0 <= x <= u32_max.
Proof. unfold in_u32, in_range. lia. Qed.

Lemma pol_wf_ok p : pol_wf p = true -> pol_ok p.
Proof.
  unfold pol_wf, pol_ok. rewrite !andb_true_iff. intros [[H1 H2] _]. split; [apply in_u32_iff, H1|].
  apply Forall_forall. intros iv Hiv. rewrite forallb_forall in H2. specialize (H2 iv Hiv). lia.
Qed.
Lemma opol_wf_ok o : opol_wf o = true -> opol_ok o.
Proof. destruct o; cbn; [apply pol_wf_ok|tauto]. Qed.

Lemma asc_strictly l : asc l -> strictly_asc l = true.
Proof.
  unfold asc. induction l as [|a r IH]; intros H; [reflexivity|].
  inversion H as [|? ? Hr Hf]; subst. destruct r as [|b t]; [reflexivity|].
  change (strictly_asc (a :: b :: t)) with ((a <? b) && strictly_asc (b :: t)).
  rewrite (IH Hr). inversion Hf; subst. lia.
Qed.

Lemma zrange_in a b x : In x (zrange a b) <-> a <= x <= b.
Proof.
  unfold zrange. rewrite in_map_seq. split.
  - intros [k [Hk ->]]. lia.
  - intros H. exists (Z.to_nat (x - a)). split; [lia|]. rewrite Z2Nat.id by lia. ring.
Qed.

Lemma zs_mem_iff x l : zs_mem x l = true <-> In x l.
Proof. apply zs_mem_in. Qed.
Lemma zs_mem_false x l : zs_mem x l = false <-> ~ In x l.
Proof. rewrite <- zs_mem_iff. destruct (zs_mem x l); split; congruence. Qed.

Lemma in_spec_range_ok p a b l :
  asc l -> (forall x, In x l <-> (a <= x <= b /\ retains p x = true)) -> in_spec_range p a b l = true.
Proof.
  intros Ha Hm. unfold in_spec_range. rewrite !andb_true_iff. split; [split|].
  - apply asc_strictly, Ha.
  - apply forallb_forall. intros x Hx. apply Hm in Hx. destruct Hx as [Hx ->]. lia.
  - destruct (b - a <? 400); [|reflexivity]. apply forallb_forall. intros x Hx. apply zrange_in in Hx.
    destruct (retains p x) eqn:E.
    + replace (zs_mem x l) with true; [reflexivity|]. symmetry. apply zs_mem_iff, Hm. tauto.
    + replace (zs_mem x l) with false; [reflexivity|]. symmetry. apply zs_mem_false. intros Hc.
      apply Hm in Hc. destruct Hc. congruence.
Qed.

Lemma bridge_pure c :
  wf_case c = true -> known_class c = 0%N -> pure_case c = true -> run_case c = true -> prop_case c = true.
Proof.
  intros Hwf _ Hp Hr. destruct c; try discriminate; cbn [wf_case run_case prop_case] in *.
  - (* CRetains *) unfold retains, is_boundary in Hr. apply Bool.eqb_prop in Hr. rewrite <- Hr. apply Bool.eqb_reflx.
  - (* CRange *)
    rewrite !andb_true_iff in Hwf. destruct Hwf as [[Hpol Ha] Hb].
    destruct (retained_in_range_total pol a b (pol_wf_ok _ Hpol) (proj1 (in_u32_iff _) Ha) (proj1 (in_u32_iff _) Hb))
      as [l [E [Hasc Hm]]].
    rewrite E in Hr. destruct o as [out| |]; cbn [outcome_eqb] in Hr; try discriminate.
    apply lz_eqb_eq in Hr. subst out. apply in_spec_range_ok; assumption.
  - (* CBatch *)
    rewrite !andb_true_iff in Hwf. destruct Hwf as [[[[[_ _] _] Hpol] Ha] Hb].
    destruct (batch_ensure_spec s o i pol a b (opol_wf_ok _ Hpol) (proj1 (in_u32_iff _) Ha) (proj1 (in_u32_iff _) Hb))
      as [es [eo [ei [E [A1 [A2 [A3 [S1 [S2 S3]]]]]]]]].
    rewrite E in Hr. destruct out as [[[es' eo'] ei']| |]; cbn [outcome_eqb] in Hr; try discriminate.
    unfold l3_eqb in Hr. rewrite !andb_true_iff in Hr. destruct Hr as [[R1 R2] R3].
    apply lz_eqb_eq in R1, R2, R3. subst es' eo' ei'.
    set (g := fun x => match pol with Some p => (a <=? x) && (x <=? b) && retains p x | None => false end).
    assert (Hg : forall x, g x = true <-> grid pol a b x).
    { intros x. unfold g, grid. destruct pol; [|split; [discriminate|tauto]]. lia. }
    assert (Hchk : forall e u v, asc e -> (forall x, In x e <-> In x u \/ In x v \/ grid pol a b x) ->
       (strictly_asc e
        && forallb (fun x => zs_mem x u || zs_mem x v || g x) e
        && forallb (fun x => zs_mem x e) (u ++ v)
        && (if b - a <? 400 then forallb (fun x => negb (g x) || zs_mem x e) (zrange a b) else true)) = true).
    { intros e u v He Hs. rewrite !andb_true_iff. repeat split.
      - apply asc_strictly, He.
      - apply forallb_forall. intros x Hx. apply Hs in Hx. rewrite !orb_true_iff, !zs_mem_iff, Hg. tauto.
      - apply forallb_forall. intros x Hx. apply zs_mem_iff, Hs. apply in_app_or in Hx. tauto.
      - destruct (b - a <? 400); [|reflexivity]. apply forallb_forall. intros x Hx.
        destruct (g x) eqn:Eg; [|reflexivity]. cbn [negb orb]. apply zs_mem_iff, Hs. right. right. apply Hg, Eg. }
    cbv zeta. apply andb_true_intro; split; [apply andb_true_intro; split|];
      [exact (Hchk es o i A1 S1)|exact (Hchk eo s i A2 S2)|exact (Hchk ei s o A3 S3)].
Qed.
