(** C06 — property theorems only. Each is closed by [exact] of a lemma from the proof files.
    Vocabulary: a pool's ledger is its checkpoint table [ck : list (height * option position)]
    plus the retained ids [rt]; [put3] is the tree stage of put_blocks on the three pools;
    [truncate_to_height] is WalletWrite::truncate_to_height restricted to the trees; a chain gives
    per pool the tree size after every block; [true_pos size] is the position of the last leaf. *)
From Coq Require Import ZArith List Lia Bool.
From V.Lib Require Import Base MachInt.
From V.C06 Require Import Model Spec PRange PLedger PPut PMain PExtra PMore PTcs Corr Wf Bridge.
Import ListNotations.
Local Open Scope Z_scope.

(** AnchorRetention::retained_in_range on u32 heights never panics (no overflow near u32::MAX),
    returns a strictly ascending list, and contains exactly the heights of the range that the
    policy retains. *)
Theorem C06_retained_in_range_spec : forall p a b,
  pol_ok p -> 0 <= a <= u32_max -> 0 <= b <= u32_max ->
  exists l, retained_in_range p a b = Ok l /\ asc l /\
    forall x, In x l <-> (a <= x <= b /\ retains p x = true).
Proof. exact retained_in_range_total. Qed.

(** batch_ensure_heights: each pool must ensure exactly the other pools' checkpoint heights plus
    the retained boundaries of the range. *)
Theorem C06_batch_ensure_spec : forall s o i pol a b,
  opol_ok pol -> 0 <= a <= u32_max -> 0 <= b <= u32_max ->
  exists es eo ei, batch_ensure s o i pol a b = Ok (es, eo, ei) /\
    asc es /\ asc eo /\ asc ei /\
    (forall x, In x es <-> In x o \/ In x i \/ grid pol a b x) /\
    (forall x, In x eo <-> In x s \/ In x i \/ grid pol a b x) /\
    (forall x, In x ei <-> In x s \/ In x o \/ grid pol a b x).
Proof. exact batch_ensure_spec. Qed.

(** ensure_checkpoints gives a missing height the true tree size of that height. *)
Theorem C06_ensure_checkpoints_true : forall c f b hs,
  0 <= b_fsize b -> sizes_ok c (f + 1) (b_fsize b) (b_cnts b) -> c f = b_fsize b ->
  (forall h, In h hs -> f < h <= f + Z.of_nat (length (b_cnts b))) ->
  forall h p, In (h, p) (ensure_checkpoints hs (own_ckpts f b) (b_fsize b)) -> p = true_pos (c h).
Proof. exact ensure_true. Qed.

(** ckpt_position_true: in every state reachable by scans of batches that continue the current
    chain (any order, any batching, any policy), rewinds, and reorgs above the rewound height,
    every checkpoint of every pool points at the true tree size of its height. [reach] also includes
    truncate_to_chain_state with the chain's own state of the target height and rewind_to_chain_state. *)
Theorem C06_ckpt_position_true : forall budget chunk c w,
  reach budget chunk c w -> forall i h p,
  In (h, p) (ck (proj_pool i w)) -> p = true_pos (proj_chain i c h).
Proof.
  intros budget chunk c w H i h p. exact (proj1 (w3_true_proj c w) (reach_true _ _ _ _ H) i h p).
Qed.

(** one step of the above, for an arbitrary state with true checkpoints *)
Theorem C06_put_preserves_true : forall budget chunk pol f c bs w w',
  opol_ok pol -> consistent c f bs -> w3_true_p c w ->
  put3 budget chunk pol f bs w = Ok w' -> w3_true_p c w'.
Proof. exact put3_true. Qed.

(** a batch that continues the chain is never refused by the checkpoint ledger
    (no CheckpointConflict) in a reachable state *)
Theorem C06_put_never_conflicts : forall budget chunk c w pol f bs e,
  reach budget chunk c w -> opol_ok pol -> consistent c f bs ->
  put3 budget chunk pol f bs w <> Err e.
Proof.
  intros budget chunk c w pol f bs e H Hp Hc. apply (put3_no_err _ _ _ _ c); auto.
  exact (reach_true _ _ _ _ H).
Qed.

(** put_blocks on a batch that continues the chain SUCCEEDS in every reachable state (positive
    budget): neither an error nor the [expect] panic of update_tree *)
Theorem C06_put_total : forall budget chunk c w pol f bs,
  0 < budget -> reach budget chunk c w -> opol_ok pol -> consistent c f bs ->
  exists w', put3 budget chunk pol f bs w = Ok w'.
Proof. exact put3_total_reach. Qed.

(** in every reachable state each pool's checkpoint table is strictly ascending in height (one
    checkpoint per height) *)
Theorem C06_ledger_sorted : forall budget chunk c w i,
  reach budget chunk c w -> sck (ck (proj_pool i w)).
Proof. intros budget chunk c w i H. exact (reach_sorted _ _ _ _ H i). Qed.

(** the batch's starting frontier height, when the policy retains it, is registered as a retained
    anchor in every pool, and retained ids are never dropped by put_blocks *)
Theorem C06_frontier_retained : forall budget chunk pol f bs w w' i,
  put3 budget chunk pol f bs w = Ok w' -> blen bs <> 0 -> oretains pol f = true ->
  In f (rt (proj_pool i w')).
Proof. exact put3_frontier_retained. Qed.
Theorem C06_retained_ids_monotone : forall budget chunk pol f bs w w' i x,
  put3 budget chunk pol f bs w = Ok w' -> In x (rt (proj_pool i w)) -> In x (rt (proj_pool i w')).
Proof. exact put3_rt_mono. Qed.

(** grid_retained: after put_blocks with a retention policy, every retained boundary of the
    scanned range is checkpointed AND retained in every pool in which it lies above the pool's
    oldest checkpoint (or in which its block has a commitment) — including boundary blocks without
    any shielded output and batches larger than the checkpoint budget. *)
Theorem C06_grid_retained : forall budget chunk p f c bs w w' i m h,
  0 < chunk -> pol_ok p -> consistent c f bs ->
  put3 budget chunk (Some p) f bs w = Ok w' ->
  f < h <= f + blen bs -> retains p h = true ->
  ck_min (ck (proj_pool i w')) = Some m ->
  m < h \/ In h (map fst (own_ckpts f (proj_batch i bs))) ->
  In h (map fst (ck (proj_pool i w'))) /\ In h (rt (proj_pool i w')).
Proof. exact put3_grid. Qed.

(** ... and such a checkpoint survives every later sequence of successful scans (any policy, any
    budget pressure) and rewinds that do not go below it, with its position unchanged. *)
Theorem C06_grid_survives : forall budget chunk ops w w' lo i e,
  run budget chunk ops w w' lo ->
  In e (ck (proj_pool i w)) -> In (fst e) (rt (proj_pool i w)) ->
  (forall t, lo = Some t -> fst e <= t) ->
  In e (ck (proj_pool i w')) /\ In (fst e) (rt (proj_pool i w')).
Proof. intros budget chunk ops w w' lo i e H H1 H2 H3. exact (run_safe _ _ _ _ _ _ _ _ H (conj H1 H2) H3). Qed.

(** The guard of C06_grid_retained is necessary: a reachable state, a consistent batch and a
    retained boundary inside the scanned range that is NOT checkpointed (known finding C06-F1). *)
Theorem C06_grid_unguarded_refuted :
  exists budget chunk p f c bs w w' h i,
    0 < budget /\ 0 < chunk /\ pol_ok p /\ reachable budget chunk c w /\ consistent c f bs /\
    put3 budget chunk (Some p) f bs w = Ok w' /\
    f < h <= f + blen bs /\ retains p h = true /\
    ~ In h (map fst (ck (proj_pool i w'))).
Proof. exact grid_unguarded_refuted. Qed.

(** pools_aligned (one batch): a height that the batch checkpoints in ANY pool, or that is a
    retained boundary of the range, is afterwards checkpointed in EVERY pool in which it lies above
    the pool's oldest checkpoint — unless it is one of that pool's own block checkpoints (then it
    went through that pool's budget pruning like every other own checkpoint). *)
Theorem C06_pools_aligned_put_partial : forall budget chunk pol f c bs w w' i j m h,
  0 < chunk -> opol_ok pol -> consistent c f bs ->
  put3 budget chunk pol f bs w = Ok w' -> blen bs <> 0 ->
  In h (map fst (own_ckpts f (proj_batch j bs))) \/ grid pol (f + 1) (f + blen bs) h ->
  ck_min (ck (proj_pool i w')) = Some m -> m < h ->
  In h (map fst (ck (proj_pool i w'))) \/ In h (map fst (own_ckpts f (proj_batch i bs))).
Proof. exact put3_aligned. Qed.

(** truncate_sound: a successful truncate_to_height lands on a scanned height at or below the
    request; if it removes blocks, every pool keeps exactly its checkpoints at or below that height
    (positions and retained ids unchanged); otherwise nothing changes. *)
Theorem C06_truncate_sound : forall blocks mn req w h w',
  truncate_to_height blocks mn req w = Ok (h, w') ->
  h <= req /\ In h blocks /\
  exists last, zmax_list blocks = Some last /\
  (h < last ->
     forall i, rt (proj_pool i w') = rt (proj_pool i w) /\
       (forall e, In e (ck (proj_pool i w')) <-> (In e (ck (proj_pool i w)) /\ fst e <= h))) /\
  (~ h < last -> w' = w).
Proof. exact truncate_to_height_sound. Qed.

(** truncate_to_chain_state (repaired): retained ids unchanged; every checkpoint afterwards is an old
    one or the new one at the target with the given frontier position; when scanned blocks lie
    above the target, a pool that is checkpointed at the target holds nothing above it. *)
Theorem C06_truncate_to_chain_state_sound : forall budget blocks mn target sizes w w',
  truncate_to_chain_state budget blocks mn target sizes w = Ok w' ->
  (forall i, rt (proj_pool i w') = rt (proj_pool i w) /\
     forall e, In e (ck (proj_pool i w')) ->
       In e (ck (proj_pool i w)) \/ e = (target, frontier_pos (sizes_of i sizes))) /\
  (forall last, zmax_list blocks = Some last -> target < last ->
     forall i, (forall e, In e (ck (proj_pool i w')) -> fst e <= target)
               \/ has_at (ck (proj_pool i w')) target = false) /\
  (w3_sorted w -> w3_sorted w').
Proof. exact tcs_spec. Qed.

(** rewind_to_chain_state (tree part): the trees only lose checkpoints (positions and retained ids
    unchanged); for a target inside the pruning window that some pool has checkpointed, no pool
    holds a checkpoint above the target afterwards. (For a target without a checkpoint the code cuts
    to the next checkpoint ABOVE the target by design.) *)
Theorem C06_rewind_to_chain_state_sound : forall depth blocks mn target w w',
  rewind_to_chain_state depth blocks mn target w = Ok w' ->
  sub3 w' w /\ (w3_sorted w -> w3_sorted w') /\
  (forall maxs, zmax_list blocks = Some maxs -> target < maxs -> maxs - (depth - 1) <= target -> 0 <= target ->
     (exists j, has_at (ck (proj_pool j w)) target = true) ->
     forall i e, In e (ck (proj_pool i w')) -> fst e <= target).
Proof. exact rewind_spec. Qed.

(** ... and that guard is necessary: a successful rewind inside the pruning window that leaves a
    checkpoint above the target (known finding C06-F4). *)
Theorem C06_rewind_unguarded_refuted :
  exists depth blocks mn target w w' maxs i e,
    rewind_to_chain_state depth blocks mn target w = Ok w' /\
    zmax_list blocks = Some maxs /\ target < maxs /\ maxs - (depth - 1) <= target /\ 0 <= target /\
    In e (ck (proj_pool i w')) /\ target < fst e.
Proof. exact rewind_unguarded_refuted. Qed.

(** the five outcomes of plan_tree_truncation: when each applies and what it does; the two
    refusals return an error without a new state *)
Theorem C06_plan_outcomes : forall s mn h fl,
  match plan_trunc (ck s) mn h fl with
  | ToCheckpoint => has_at (ck s) h = true /\
      exists s', apply_plan s mn h fl = Ok s' /\ rt s' = rt s /\
        forall e, In e (ck s') <-> (In e (ck s) /\ fst e <= h)
  | Unaffected => has_at (ck s) h = false /\ has_above (ck s) h = false /\ apply_plan s mn h fl = Ok s
  | ResetToSubtreeRoots => has_at (ck s) h = false /\ has_below (ck s) h = false /\ loses mn fl = false /\
      exists s', apply_plan s mn h fl = Ok s' /\ rt s' = rt s /\ ck s' = []
  | WouldDestroyWitnesses => loses mn fl = true /\ has_below (ck s) h = false /\ apply_plan s mn h fl = Err ERewindInvalid
  | DivergedCheckpoints => has_at (ck s) h = false /\ has_above (ck s) h = true /\ has_below (ck s) h = true /\
      apply_plan s mn h fl = Err ECorrupted
  end.
Proof. exact apply_plan_sound. Qed.

(** bridge (pure cases only: retains, retained_in_range, batch_ensure_heights): inside the domain,
    model = implementation implies the property clause on the implementation's outcome. The cases
    of the stateful operations carry booleans observed on the real Merkle tree and a ground-truth
    table, which no agreement with the ledger model can imply. *)
Theorem C06_bridge_pure_partial : forall c,
  wf_case c = true -> known_class c = 0%N -> pure_case c = true -> run_case c = true -> prop_case c = true.
Proof. exact bridge_pure. Qed.

(** non-vacuity: the hypotheses of the theorems are satisfiable (the counterexample's first batch is
    a consistent batch on a reachable state whose put succeeds) *)
Example C06_nonvacuous :
  exists w, put3 1 1024 (Some cx_pol) 99 (cx_b1, cx_b1, cx_b1) wempty = Ok w /\
            consistent (cx_chain, cx_chain, cx_chain) 99 (cx_b1, cx_b1, cx_b1) /\
            reachable 1 1024 (cx_chain, cx_chain, cx_chain) w.
Proof.
  exists cx_w1. destruct cx_facts as [E1 _]. split; [exact E1|]. split; [exact cx_consistent1|].
  eapply R_put; [apply R_init|exact (cx_pol_ok : opol_ok (Some cx_pol))|exact cx_consistent1|exact E1].
Qed.
