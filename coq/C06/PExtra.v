(** C06 — survival of retained boundary checkpoints across later operations, and the concrete
    counterexample to the unguarded retention clause. *)
From Coq Require Import ZArith List Lia Bool.
From Coq Require Import ZifyBool.
From V.Lib Require Import Base MachInt.
From V.C06 Require Import Model Spec PRange PLedger PPut PMain.
Import ListNotations.
Local Open Scope Z_scope.

(** later wallet operations: scans with any policy / batch, rewinds to any height *)
Inductive op :=
| OPut (pol : option policy) (f : Z) (bs : b3)
| OTrunc (blocks : list Z) (mn : mn3) (req : Z).

Definition step (budget chunk : Z) (o : op) (w : w3) : option (w3 * option Z) :=
  match o with
  | OPut pol f bs => match put3 budget chunk pol f bs w with Ok w' => Some (w', None) | _ => None end
  | OTrunc blocks mn req =>
      match truncate_to_height blocks mn req w with Ok (h, w') => Some (w', Some h) | _ => None end
  end.

(** [run ops w w' lo]: the operations all succeed, leading from [w] to [w']; [lo] is the lowest
    height a rewind went to (if any) *)
Inductive run (budget chunk : Z) : list op -> w3 -> w3 -> option Z -> Prop :=
| run_nil w : run budget chunk [] w w None
| run_cons o ops w w1 w2 t lo :
    step budget chunk o w = Some (w1, t) -> run budget chunk ops w1 w2 lo ->
    run budget chunk (o :: ops) w w2
      (match t, lo with Some a, Some b => Some (Z.min a b) | Some a, None => Some a | None, x => x end).

Lemma run_safe budget chunk ops : forall w w' lo i e,
  run budget chunk ops w w' lo ->
  safe e (proj_pool i w) ->
  (forall t, lo = Some t -> fst e <= t) ->
  safe e (proj_pool i w').
Proof.
  induction ops as [|o r IH]; intros w w' lo i e Hrun Hs Hlo; inversion Hrun; subst.
  - exact Hs.
  - match goal with H : step _ _ _ _ = Some _ |- _ => rename H into Hstep end.
    match goal with H : run _ _ r _ _ _ |- _ => rename H into Hr end.
    eapply IH; [exact Hr| |].
    + destruct o as [pol f bs|blocks mn req]; cbn [step] in Hstep.
      * destruct (put3 budget chunk pol f bs w) as [wx| |] eqn:E; try discriminate.
        inversion Hstep. subst. eapply put3_safe; eauto.
      * destruct (truncate_to_height blocks mn req w) as [[h wx]| |] eqn:E; try discriminate.
        inversion Hstep. subst.
        destruct (truncate_to_height_sound _ _ _ _ _ _ E) as [_ [_ [last [_ [A B]]]]].
        destruct (Z_lt_dec h last) as [L|NL].
        -- destruct (A L i) as [R I]. destruct Hs as [H1 H2]. split; [|rewrite R; exact H2].
           apply I. split; [exact H1|].
           assert (Hx : fst e <= match lo0 with Some b => Z.min h b | None => h end)
             by (apply Hlo; destruct lo0; reflexivity).
           destruct lo0; lia.
        -- rewrite (B NL). exact Hs.
    + intros t0 Ht0. subst lo0. destruct t as [a|]; [|apply Hlo; reflexivity].
      specialize (Hlo (Z.min a t0) eq_refl). lia.
Qed.

(** * the unguarded retention clause is false: a boundary scanned below the pruning floor *)
Definition cx_chain : chain := fun h => if h <=? 7 then 1 else if h <=? 99 then 9 else 10.
Definition cx_pol : policy := {| p_from := 0; p_ivs := [5] |}.
Definition cx_b1 : batch_in := {| b_fsize := 9; b_cnts := [1] |}.
Definition cx_b2 : batch_in := {| b_fsize := 1; b_cnts := [0; 0; 0; 0; 0] |}.
Definition cx_w1 : w3 :=
  match put3 1 1024 (Some cx_pol) 99 (cx_b1, cx_b1, cx_b1) wempty with Ok w => w | _ => wempty end.
Definition cx_w2 : w3 :=
  match put3 1 1024 (Some cx_pol) 2 (cx_b2, cx_b2, cx_b2) cx_w1 with Ok w => w | _ => wempty end.

Lemma cx_facts :
  put3 1 1024 (Some cx_pol) 99 (cx_b1, cx_b1, cx_b1) wempty = Ok cx_w1 /\
  put3 1 1024 (Some cx_pol) 2 (cx_b2, cx_b2, cx_b2) cx_w1 = Ok cx_w2 /\
  retains cx_pol 5 = true /\
  ck (proj_pool 1 cx_w2) = [(99, Some 8); (100, Some 9)] /\ rt (proj_pool 1 cx_w2) = [100].
Proof. vm_compute. repeat split; reflexivity. Qed.

Lemma cx_consistent1 : consistent (cx_chain, cx_chain, cx_chain) 99 (cx_b1, cx_b1, cx_b1).
Proof. unfold consistent, consistent1, cx_chain, cx_b1, blen, u32_max. cbn. repeat split; try lia; reflexivity. Qed.
Lemma cx_consistent2 : consistent (cx_chain, cx_chain, cx_chain) 2 (cx_b2, cx_b2, cx_b2).
Proof. unfold consistent, consistent1, cx_chain, cx_b2, blen, u32_max. cbn. repeat split; try lia; reflexivity. Qed.
Lemma cx_pol_ok : pol_ok cx_pol.
Proof. unfold pol_ok, cx_pol, u32_max. cbn. split; [lia|]. repeat constructor; lia. Qed.

Lemma grid_unguarded_refuted :
  exists budget chunk p f c bs w w' h i,
    0 < budget /\ 0 < chunk /\ pol_ok p /\ reachable budget chunk c w /\ consistent c f bs /\
    put3 budget chunk (Some p) f bs w = Ok w' /\
    f < h <= f + blen bs /\ retains p h = true /\
    ~ In h (map fst (ck (proj_pool i w'))).
Proof.
  destruct cx_facts as [E1 [E2 [E3 [E4 _]]]].
  exists 1, 1024, cx_pol, 2, (cx_chain, cx_chain, cx_chain), (cx_b2, cx_b2, cx_b2), cx_w1, cx_w2, 5, 1%nat.
  split; [lia|]. split; [lia|]. split; [exact cx_pol_ok|].
  split.
  { eapply R_put; [apply R_init|exact (cx_pol_ok : opol_ok (Some cx_pol))|exact cx_consistent1|exact E1]. }
  split; [exact cx_consistent2|]. split; [exact E2|].
  split; [cbn; lia|]. split; [exact E3|].
  rewrite E4. cbn. intros [H|[H|[]]]; lia.
Qed.
