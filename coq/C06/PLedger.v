(** C06 — proofs about the checkpoint ledger: one pool. *)
From Coq Require Import ZArith List Lia Bool.
From Coq Require Import ZifyBool.
From V.Lib Require Import Base MachInt.
From V.C06 Require Import Model Spec PRange.
Import ListNotations.
Local Open Scope Z_scope.

Lemma opz_eqb_eq p q : opz_eqb p q = true <-> p = q.
Proof. unfold opz_eqb. apply option_eqb_spec. intros a b. apply Z.eqb_eq. Qed.

(** * ck_add *)
Lemma ck_add_in h p m m' :
  ck_add h p m = Some m' -> forall e, In e m' <-> (e = (h, p) \/ In e m).
Proof.
  revert m'. induction m as [|[h' p'] r IH]; intros m' H e; cbn [ck_add] in H.
  - inversion H. cbn. intuition congruence.
  - destruct (h <? h') eqn:E1.
    + inversion H. cbn. intuition congruence.
    + destruct (h =? h') eqn:E2.
      * destruct (opz_eqb p p') eqn:E3; [|discriminate]. inversion H. subst m'.
        apply opz_eqb_eq in E3. assert (h = h') by lia. subst. cbn. intuition congruence.
      * destruct (ck_add h p r) as [r'|] eqn:E3; [|discriminate]. inversion H. subst m'.
        cbn. rewrite (IH r' eq_refl e). intuition congruence.
Qed.

Lemma ck_add_ok h p m :
  (forall p', In (h, p') m -> p' = p) -> exists m', ck_add h p m = Some m'.
Proof.
  induction m as [|[h' p'] r IH]; intros H; cbn [ck_add].
  - eauto.
  - destruct (h <? h') eqn:E1; [eauto|].
    destruct (h =? h') eqn:E2.
    + assert (h = h') by lia. subst h'. rewrite (H p' (or_introl eq_refl)).
      replace (opz_eqb p p) with true by (symmetry; apply opz_eqb_eq; reflexivity). eauto.
    + destruct IH as [r' ->]; [|eauto]. intros q Hq. apply H. right. exact Hq.
Qed.

Lemma ck_add_min h p m m' x :
  ck_add h p m = Some m' -> ck_min m = Some x -> x < h -> ck_min m' = Some x.
Proof.
  destruct m as [|[h' p'] r]; cbn [ck_add ck_min]; intros H Hm Hx; [discriminate|].
  inversion Hm. subst h'.
  destruct (h <? x) eqn:E1; [lia|]. destruct (h =? x) eqn:E2; [lia|].
  destruct (ck_add h p r); [|discriminate]. inversion H. reflexivity.
Qed.

(** * ksort is a permutation as far as membership goes *)
Lemma kinsert_in e l x : In x (kinsert e l) <-> x = e \/ In x l.
Proof.
  induction l as [|y r IH]; cbn [kinsert]; [cbn; intuition congruence|].
  destruct (key_le e y); cbn; [intuition congruence|rewrite IH; intuition congruence].
Qed.
Lemma ksort_in l x : In x (ksort l) <-> In x l.
Proof.
  unfold ksort. induction l as [|y r IH]; cbn [fold_right]; [tauto|].
  rewrite kinsert_in, IH. cbn. intuition congruence.
Qed.

Lemma firstn_in_l {A} (x : A) : forall n l, In x (firstn n l) -> In x l.
Proof.
  induction n as [|n IH]; intros l H; [destruct H|].
  destruct l as [|y r]; [destruct H|]. cbn [firstn] in H. destruct H as [->|H]; [left; reflexivity|right; apply IH, H].
Qed.

(** * prune removes only non-retained checkpoints *)
Lemma prune_rt b s : rt (prune b s) = rt s.
Proof. unfold prune. destruct (b <? _); reflexivity. Qed.

Lemma prune_sub b s e : In e (ck (prune b s)) -> In e (ck s).
Proof.
  unfold prune. destruct (b <? _); [|tauto]. cbn [ck]. intros H. apply filter_In in H. tauto.
Qed.

Lemma prune_keeps_retained b s e :
  In e (ck s) -> In (fst e) (rt s) -> In e (ck (prune b s)).
Proof.
  intros He Hr. unfold prune. destruct (b <? _); [|exact He]. cbn [ck].
  apply filter_In. split; [exact He|].
  apply negb_true_iff. apply not_true_iff_false. intros Hc. apply zs_mem_in in Hc.
  apply in_map_iff in Hc. destruct Hc as [v [Ev Hv]].
  apply firstn_in_l in Hv. apply (proj1 (ksort_in _ _)) in Hv. apply filter_In in Hv.
  destruct Hv as [_ Hv]. apply negb_true_iff in Hv.
  assert (zs_mem (fst v) (rt s) = true) by (apply zs_mem_in; rewrite Ev; exact Hr). congruence.
Qed.

(** * retain *)
Lemma retain_ck pol h s : ck (retain pol h s) = ck s.
Proof. unfold retain. destruct (oretains pol h); reflexivity. Qed.
Lemma retain_rt_mono pol h s x : In x (rt s) -> In x (rt (retain pol h s)).
Proof. unfold retain. destruct (oretains pol h); cbn [rt]; [rewrite zs_add_in; tauto|tauto]. Qed.
Lemma retain_rt_new pol h s : oretains pol h = true -> In h (rt (retain pol h s)).
Proof. unfold retain. intros ->. cbn [rt]. apply zs_add_in. tauto. Qed.

Lemma retain_all_ck pol l : forall s, ck (retain_all pol l s) = ck s.
Proof.
  unfold retain_all. induction l as [|e r IH]; intros s; cbn [fold_left]; [reflexivity|].
  rewrite IH. apply retain_ck.
Qed.
Lemma retain_all_mono pol l : forall s x, In x (rt s) -> In x (rt (retain_all pol l s)).
Proof.
  unfold retain_all. induction l as [|e r IH]; intros s x H; cbn [fold_left]; [exact H|].
  apply IH, retain_rt_mono, H.
Qed.
Lemma retain_all_new pol l : forall s h, In h (map fst l) -> oretains pol h = true ->
  In h (rt (retain_all pol l s)).
Proof.
  induction l as [|e r IH]; intros s h Hin Hr; [destruct Hin|].
  unfold retain_all. cbn [fold_left]. fold (retain_all pol r (retain pol (fst e) s)).
  destruct Hin as [<-|Hin].
  - apply retain_all_mono, retain_rt_new, Hr.
  - apply IH; assumption.
Qed.

(** * add_all *)
Lemma add_all_in l : forall m m', add_all l m = Some m' ->
  forall e, In e m' <-> ((exists h p, In (h, p) l /\ e = (h, Some p)) \/ In e m).
Proof.
  induction l as [|[h p] r IH]; intros m m' H e; cbn [add_all] in H.
  - inversion H. subst. split; [tauto|]. intros [[? [? [[] _]]]|]; assumption.
  - destruct (ck_add h (Some p) m) as [m1|] eqn:E; [|discriminate].
    rewrite (IH m1 m' H e), (ck_add_in _ _ _ _ E e). split.
    + intros [[h0 [p0 [Hin ->]]]|[->|Hin]].
      * left. exists h0, p0. split; [right; exact Hin|reflexivity].
      * left. exists h, p. split; [left; reflexivity|reflexivity].
      * right. exact Hin.
    + intros [[h0 [p0 [[Eq|Hin] ->]]]|Hin].
      * inversion Eq. subst. right. left. reflexivity.
      * left. exists h0, p0. tauto.
      * right. right. exact Hin.
Qed.

(** * "safe": a retained checkpoint; every step of update_tree preserves it *)
Definition safe (e : Z * option Z) (s : pstate) : Prop := In e (ck s) /\ In (fst e) (rt s).

Lemma ins_chunk_safe b pol l s s' e : ins_chunk b pol l s = Ok s' -> safe e s -> safe e s'.
Proof.
  unfold ins_chunk. destruct (add_all l (ck (retain_all pol l s))) as [m|] eqn:E; [|discriminate].
  intros H [H1 H2]. inversion H. subst s'. split.
  - apply prune_keeps_retained; cbn [ck rt].
    + apply (add_all_in _ _ _ E). right. rewrite retain_all_ck. exact H1.
    + apply retain_all_mono, H2.
  - rewrite prune_rt. cbn [rt]. apply retain_all_mono, H2.
Qed.

Lemma ins_chunk_new b pol l s s' h p :
  ins_chunk b pol l s = Ok s' -> In (h, p) l -> oretains pol h = true -> safe (h, Some p) s'.
Proof.
  unfold ins_chunk. destruct (add_all l (ck (retain_all pol l s))) as [m|] eqn:E; [|discriminate].
  intros H Hin Hr. inversion H. subst s'.
  assert (Hrt : In h (rt (retain_all pol l s))).
  { apply retain_all_new; [|exact Hr]. apply in_map_iff. exists (h, p). tauto. }
  split.
  - apply prune_keeps_retained; cbn [ck rt fst].
    + apply (add_all_in _ _ _ E). left. exists h, p. tauto.
    + exact Hrt.
  - rewrite prune_rt. cbn [rt fst]. exact Hrt.
Qed.

Lemma ins_chunks_safe b pol cs : forall s s' e, ins_chunks b pol cs s = Ok s' -> safe e s -> safe e s'.
Proof.
  induction cs as [|c r IH]; intros s s' e H Hs; cbn [ins_chunks] in H.
  - inversion H. subst. exact Hs.
  - destruct (ins_chunk b pol c s) as [s1| |] eqn:E; try discriminate.
    eapply IH; [exact H|]. eapply ins_chunk_safe; eauto.
Qed.

Lemma ins_chunks_new b pol cs : forall s s' c h p,
  ins_chunks b pol cs s = Ok s' -> In c cs -> In (h, p) c -> oretains pol h = true ->
  safe (h, Some p) s'.
Proof.
  induction cs as [|c0 r IH]; intros s s' c h p H Hc Hin Hr; [destruct Hc|].
  cbn [ins_chunks] in H. destruct (ins_chunk b pol c0 s) as [s1| |] eqn:E; try discriminate.
  destruct Hc as [->|Hc].
  - eapply ins_chunks_safe; [exact H|]. eapply ins_chunk_new; eauto.
  - eapply IH; eauto.
Qed.

Lemma add_missing_safe pol m miss : forall s s' e,
  add_missing pol m miss s = Ok s' -> safe e s -> safe e s'.
Proof.
  induction miss as [|[h p] r IH]; intros s s' e H Hs; cbn [add_missing] in H.
  - inversion H. subst. exact Hs.
  - destruct (m <? h); [|eapply IH; eauto].
    destruct (ck_add h p (ck s)) as [m1|] eqn:E; [|discriminate].
    eapply IH; [exact H|]. destruct Hs as [H1 H2]. split.
    + rewrite retain_ck. cbn [ck]. apply (ck_add_in _ _ _ _ E). right. exact H1.
    + apply retain_rt_mono. cbn [rt]. exact H2.
Qed.

Lemma add_missing_in pol m miss : forall s s' e,
  add_missing pol m miss s = Ok s' -> In e (ck s) -> In e (ck s').
Proof.
  induction miss as [|[h p] r IH]; intros s s' e H Hs; cbn [add_missing] in H.
  - inversion H. subst. exact Hs.
  - destruct (m <? h); [|eapply IH; eauto].
    destruct (ck_add h p (ck s)) as [m1|] eqn:E; [|discriminate].
    eapply IH; [exact H|]. rewrite retain_ck. cbn [ck].
    apply (ck_add_in _ _ _ _ E). right. exact Hs.
Qed.

Lemma add_missing_new pol m miss : forall s s' h p,
  add_missing pol m miss s = Ok s' -> In (h, p) miss -> m < h ->
  In (h, p) (ck s') /\ (oretains pol h = true -> In h (rt s')).
Proof.
  induction miss as [|[h0 p0] r IH]; intros s s' h p H Hin Hm; [destruct Hin|].
  cbn [add_missing] in H. destruct Hin as [Eq|Hin].
  - inversion Eq. subst h0 p0. destruct (m <? h) eqn:E0; [|lia].
    destruct (ck_add h p (ck s)) as [m1|] eqn:E; [|discriminate].
    set (s1 := retain pol h {| ck := m1; rt := rt s |}) in *.
    assert (H1 : In (h, p) (ck s1)).
    { unfold s1. rewrite retain_ck. cbn [ck]. apply (ck_add_in _ _ _ _ E). left. reflexivity. }
    split.
    + eapply add_missing_in; eauto.
    + intros Hr. assert (Hs : safe (h, p) s1).
      { split; [exact H1|]. cbn [fst]. unfold s1. apply retain_rt_new, Hr. }
      apply (add_missing_safe _ _ _ _ _ _ H Hs).
  - destruct (m <? h0); [|eapply IH; eauto].
    destruct (ck_add h0 p0 (ck s)) as [m1|] eqn:E; [|discriminate].
    eapply IH; eauto.
Qed.

Lemma add_missing_min pol m miss : forall s s',
  add_missing pol m miss s = Ok s' -> ck_min (ck s) = Some m -> ck_min (ck s') = Some m.
Proof.
  induction miss as [|[h p] r IH]; intros s s' H Hm; cbn [add_missing] in H.
  - inversion H. subst. exact Hm.
  - destruct (m <? h) eqn:E0; [|eapply IH; eauto].
    destruct (ck_add h p (ck s)) as [m1|] eqn:E; [|discriminate].
    eapply IH; [exact H|]. rewrite retain_ck. cbn [ck].
    eapply ck_add_min; eauto. lia.
Qed.

(** * ensure_checkpoints *)
Lemma lookup_le_some h m e : lookup_le h m = Some e -> In e m /\ fst e <= h.
Proof.
  induction m as [|x r IH]; cbn [lookup_le]; [discriminate|].
  destruct (lookup_le h r) as [y|] eqn:E.
  - intros Hy. inversion Hy. subst y. destruct (IH eq_refl). split; [right; assumption|assumption].
  - destruct (fst x <=? h) eqn:E1; [|discriminate]. intros Hx. inversion Hx. subst. split; [left; reflexivity|lia].
Qed.

Lemma ensure_has hs own fs h :
  In h hs -> ~ In h (map fst own) -> exists p, In (h, p) (ensure_checkpoints hs own fs).
Proof.
  induction hs as [|x r IH]; intros Hin Hno; [destruct Hin|].
  cbn [ensure_checkpoints].
  destruct Hin as [->|Hin].
  - destruct (lookup_le h own) as [[eh p]|] eqn:E.
    + destruct (lookup_le_some _ _ _ E) as [He Hle]. cbn [fst] in Hle.
      destruct (eh <? h) eqn:E1.
      * eexists. left. reflexivity.
      * exfalso. apply Hno. apply in_map_iff. exists (eh, p). split; [cbn; lia|exact He].
    + eexists. left. reflexivity.
  - destruct (IH Hin Hno) as [p Hp]. exists p.
    destruct (lookup_le x own) as [[eh q]|]; [destruct (eh <? x)|]; try (right; exact Hp); exact Hp.
Qed.

Lemma ensure_dom hs own fs e : In e (ensure_checkpoints hs own fs) -> In (fst e) hs.
Proof.
  induction hs as [|x r IH]; cbn [ensure_checkpoints]; [tauto|].
  destruct (lookup_le x own) as [[eh q]|]; [destruct (eh <? x)|]; cbn [In].
  - intros [<-|H]; [left; reflexivity|right; apply IH, H].
  - intros H. right. apply IH, H.
  - intros [<-|H]; [left; reflexivity|right; apply IH, H].
Qed.

Lemma sizes_ok_sum c r : forall a b, sizes_ok c a b r -> 0 <= fold_right Z.add 0 r.
Proof.
  induction r as [|y t IHt]; intros a b Hr; cbn [fold_right]; [lia|].
  cbn [sizes_ok] in Hr. destruct Hr as [Hy [_ Hr]]. specialize (IHt _ _ Hr). lia.
Qed.

(** * the batch's own checkpoints point at the true sizes *)
Lemma own_from_spec c : forall cnts h0 size, 0 <= size -> sizes_ok c h0 size cnts ->
  (forall h p, In (h, p) (own_from h0 size cnts) ->
      h0 <= h < h0 + Z.of_nat (length cnts) /\ size <= p /\ Some p = true_pos (c h)) /\
  (forall h, h0 <= h < h0 + Z.of_nat (length cnts) ->
      c h = match lookup_le h (own_from h0 size cnts) with Some (_, q) => q + 1 | None => size end) /\
  (forall h p, In (h, p) (own_from h0 size cnts) -> p < size + fold_right Z.add 0 cnts).
Proof.
  induction cnts as [|x r IH]; intros h0 size Hs Hok.
  - cbn. split; [tauto|]. split; [intros; lia|tauto].
  - cbn [sizes_ok] in Hok. destruct Hok as [Hx [Hc Hr]].
    destruct (IH (h0 + 1) (size + x) ltac:(lia) Hr) as [I1 [I2 I3]].
    cbn [own_from length fold_right]. rewrite Nat2Z.inj_succ.
    split; [|split].
    + intros h p Hin. apply in_app_or in Hin. destruct Hin as [Hin|Hin].
      * destruct (0 <? x) eqn:E; [|destruct Hin]. destruct Hin as [Eq|[]]. inversion Eq. subst h p.
        split; [lia|]. split; [lia|]. rewrite Hc. unfold true_pos.
        destruct (size + x =? 0) eqn:E2; [lia|]. f_equal; lia.
      * destruct (I1 h p Hin) as [A [B C]]. split; [lia|]. split; [lia|exact C].
    + intros h Hh.
      assert (Hlk : forall own1, (forall e, In e own1 -> fst e = h0) ->
                lookup_le h (own1 ++ own_from (h0 + 1) (size + x) r) =
                match lookup_le h (own_from (h0 + 1) (size + x) r) with
                | Some e => Some e
                | None => lookup_le h own1 end).
      { intros own1 _. induction own1 as [|y t IHt]; cbn [app lookup_le].
        - destruct (lookup_le h (own_from (h0 + 1) (size + x) r)); reflexivity.
        - rewrite IHt. destruct (lookup_le h (own_from (h0 + 1) (size + x) r)); reflexivity. }
      rewrite Hlk by (intros e He; destruct (0 <? x); [destruct He as [<-|[]]; reflexivity|destruct He]).
      destruct (Z.eq_dec h h0) as [->|Hne].
      * (* no later checkpoint is at or below h0 *)
        assert (Hnone : lookup_le h0 (own_from (h0 + 1) (size + x) r) = None).
        { destruct (lookup_le h0 (own_from (h0 + 1) (size + x) r)) as [[eh q]|] eqn:E; [|reflexivity].
          destruct (lookup_le_some _ _ _ E) as [Hin Hle]. cbn [fst] in Hle.
          destruct (I1 eh q Hin). lia. }
        rewrite Hnone. destruct (0 <? x) eqn:E; cbn [lookup_le fst].
        -- replace (h0 <=? h0) with true by lia. lia.
        -- lia.
      * rewrite (I2 h ltac:(lia)).
        destruct (lookup_le h (own_from (h0 + 1) (size + x) r)) as [[eh q]|]; [reflexivity|].
        destruct (0 <? x) eqn:E; cbn [lookup_le fst].
        -- replace (h0 <=? h) with true by lia. lia.
        -- lia.
    + intros h p Hin. apply in_app_or in Hin. destruct Hin as [Hin|Hin].
      * destruct (0 <? x) eqn:E; [|destruct Hin]. destruct Hin as [Eq|[]]. inversion Eq. subst.
        pose proof (sizes_ok_sum _ _ _ _ Hr). lia.
      * specialize (I3 h p Hin). lia.
Qed.

Lemma ensure_true c f b hs :
  0 <= b_fsize b -> sizes_ok c (f + 1) (b_fsize b) (b_cnts b) -> c f = b_fsize b ->
  (forall h, In h hs -> f < h <= f + Z.of_nat (length (b_cnts b))) ->
  forall h p, In (h, p) (ensure_checkpoints hs (own_ckpts f b) (b_fsize b)) -> p = true_pos (c h).
Proof.
  intros Hs Hok Hf Hrange. unfold own_ckpts.
  destruct (own_from_spec c (b_cnts b) (f + 1) (b_fsize b) Hs Hok) as [I1 [I2 _]].
  induction hs as [|x r IH]; intros h p Hin; cbn [ensure_checkpoints] in Hin; [destruct Hin|].
  assert (Hx : f + 1 <= x < f + 1 + Z.of_nat (length (b_cnts b))) by (specialize (Hrange x (or_introl eq_refl)); lia).
  assert (IH' := IH (fun h Hh => Hrange h (or_intror Hh))).
  specialize (I2 x Hx).
  destruct (lookup_le x (own_from (f + 1) (b_fsize b) (b_cnts b))) as [[eh q]|] eqn:E.
  - destruct (lookup_le_some _ _ _ E) as [Hq _]. destruct (I1 eh q Hq) as [_ [Hq2 _]].
    destruct (eh <? x).
    + destruct Hin as [Eq|Hin]; [|apply IH'; exact Hin]. inversion Eq. subst h p.
      rewrite I2. unfold true_pos. destruct (q + 1 =? 0) eqn:E2; [lia|]. f_equal; lia.
    + apply IH'; exact Hin.
  - destruct Hin as [Eq|Hin]; [|apply IH'; exact Hin]. inversion Eq. subst h p.
    rewrite I2. unfold frontier_pos, true_pos. reflexivity.
Qed.
