(** C06 — correspondence cases: inputs + the implementation's observed outcome.
    [run_case]: model = implementation.  [prop_case]: the property evaluated on the observed
    outcome alone (Spec + ground truth of the chain + booleans observed on the real Merkle tree). *)
From V.Lib Require Import Base MachInt.
From V.Gen Require Import C06Consts.
From V.C06 Require Import Model Spec.
Local Open Scope Z_scope.

Definition mkp (c : ckmap) (r : list Z) : pstate := {| ck := c; rt := r |}.
Definition mkb (fs : Z) (cn : list Z) : batch_in := {| b_fsize := fs; b_cnts := cn |}.
Definition mkpol (f : Z) (iv : list Z) : policy := {| p_from := f; p_ivs := iv |}.

Definition lz_eqb := list_eqb Z.eqb.
Definition unit_eqb (_ _ : unit) := true.
Definition ck_eqb : ckmap -> ckmap -> bool := list_eqb (pair_eqb Z.eqb opz_eqb).
Definition ps_eqb (a b : pstate) : bool := ck_eqb (ck a) (ck b) && lz_eqb (rt a) (rt b).
Definition w3_eqb (a b : w3) : bool :=
  let '(a1, a2, a3) := a in let '(b1, b2, b3) := b in ps_eqb a1 b1 && ps_eqb a2 b2 && ps_eqb a3 b3.
Definition l3_eqb (a b : list Z * list Z * list Z) : bool :=
  let '(a1, a2, a3) := a in let '(b1, b2, b3) := b in lz_eqb a1 b1 && lz_eqb a2 b2 && lz_eqb a3 b3.

(** ground truth: height -> tree sizes (sapling, orchard, ironwood) on the current best chain *)
Definition truth3 := list (Z * (Z * Z * Z)).
Definition tr1 (t : truth3) := map (fun e => (fst e, fst (fst (snd e)))) t.
Definition tr2 (t : truth3) := map (fun e => (fst e, snd (fst (snd e)))) t.
Definition tr3 (t : truth3) := map (fun e => (fst e, snd (snd e))) t.

Inductive case :=
| CRetains (pol : policy) (h : Z) (o : bool)
| CRange (pol : policy) (a b : Z) (o : outcome (list Z) unit)
| CBatch (s o i : list Z) (pol : option policy) (a b : Z) (out : outcome (list Z * list Z * list Z) unit)
| CEnsure (hs : list Z) (ex : list (Z * Z)) (fsize : Z) (out : list (Z * option Z))
(** one [put_blocks] ([real] = through the SQLite wallet; otherwise the public tree-stage functions
    on an in-memory ShardTree with the given budget and chunk size) *)
| CPut (real : bool) (budget chunk : Z) (pre : w3) (pol : option policy) (f : Z) (bs : b3)
       (res : outcome unit perr) (post : w3) (truth : truth3) (roots_ok wit_ok : bool)
       (hazard clean_ok : bool)
(** [put_*_subtree_roots] with the chain's own roots: the ledger must not change *)
| CRoots (pre : w3) (res : outcome unit perr) (post : w3) (roots_ok wit_ok : bool) (hazard clean_ok : bool)
       (getters_ok : bool)
(** [WalletWrite::truncate_to_chain_state] with the chain state (tree sizes) of height [target] *)
| CTcs (pre : w3) (blocks : list Z) (mn : mn3) (target : Z) (sizes : Z * Z * Z)
       (res : outcome unit perr) (post : w3) (roots_ok wit_ok : bool) (hazard clean_ok : bool)
(** [WalletWrite::rewind_to_chain_state] to the chain state of height [target], no birthday reset *)
| CRewind (pre : w3) (blocks : list Z) (mn : mn3) (target : Z)
       (res : outcome unit perr) (post : w3) (roots_ok wit_ok : bool) (hazard clean_ok : bool)
(** [WalletWrite::truncate_to_height req] *)
| CTrunc (pre : w3) (blocks : list Z) (mn : mn3) (req : Z)
       (res : outcome Z perr) (post : w3) (roots_ok wit_ok : bool) (hazard clean_ok : bool).

Definition run_case (c : case) : bool :=
  match c with
  | CRetains pol h o => Bool.eqb (retains pol h) o
  | CRange pol a b o => outcome_eqb lz_eqb unit_eqb (retained_in_range pol a b) o
  | CBatch s o i pol a b out => outcome_eqb l3_eqb unit_eqb (batch_ensure s o i pol a b) out
  | CEnsure hs ex fs out => ck_eqb (ensure_checkpoints hs ex fs) out
  | CPut _ budget chunk pre pol f bs res post _ _ _ hazard _ =>
      match put3 budget chunk pol f bs pre, res with
      | Ok w', Ok _ => w3_eqb w' post
      (* known finding C06-F2: the Merkle layer (not modelled) rejects the batch *)
      | Ok _, Err EOtherErr => hazard && w3_eqb pre post
      | Err e, Err e' => perr_eqb e e' && w3_eqb pre post
      | Panic, Panic => true
      | _, _ => false
      end
  | CRoots pre res post _ _ _ _ _ =>
      match res with Ok _ => w3_eqb pre post | _ => false end
  | CTcs pre blocks mn target sizes res post _ _ _ _ =>
      match truncate_to_chain_state PRUNING_DEPTH blocks mn target sizes pre, res with
      | Ok w', Ok _ => w3_eqb w' post
      | Err e, Err e' => perr_eqb e e' && w3_eqb pre post
      | Panic, Panic => true
      | _, _ => false
      end
  | CRewind pre blocks mn target res post _ _ _ _ =>
      match rewind_to_chain_state PRUNING_DEPTH blocks mn target pre, res with
      | Ok w', Ok _ => w3_eqb w' post
      | Err e, Err e' => perr_eqb e e' && w3_eqb pre post
      | Panic, Panic => true
      | _, _ => false
      end
  | CTrunc pre blocks mn req res post _ _ _ _ =>
      match truncate_to_height blocks mn req pre, res with
      | Ok (h, w'), Ok h' => (h =? h') && w3_eqb w' post
      | Err e, Err e' => perr_eqb e e' && w3_eqb pre post
      | Panic, Panic => true
      | _, _ => false
      end
  end.

(** * The property on the observed outcome *)
Definition ps_wf (s : pstate) : bool := strictly_asc (ck_dom (ck s)) && strictly_asc (rt s).
Definition w3_all (f : pstate -> bool) (w : w3) : bool := let '(a, b, c) := w in f a && f b && f c.
Definition w3_true (t : truth3) (w : w3) : bool :=
  let '(a, b, c) := w in ck_true_b (tr1 t) (ck a) && ck_true_b (tr2 t) (ck b) && ck_true_b (tr3 t) (ck c).

(** every retention boundary of the scanned range is checkpointed and retained in the pool *)
Definition grid_ok (pol : option policy) (lo hi : Z) (s : pstate) : bool :=
  forallb (fun h => negb (oretains pol h) || (ck_has h (ck s) && zs_mem h (rt s))) (zrange lo hi).
(** what the code promises (theorem C06_grid_retained): the same for every boundary whose block has a
    commitment in this pool, and for the others when they lie above the pool's oldest checkpoint *)
Definition grid_ok_above (pol : option policy) (lo hi : Z) (f : Z) (b : batch_in) (s : pstate) : bool :=
  forallb (fun h => negb (oretains pol h)
                    || (negb (zs_mem h (map fst (own_ckpts f b)))
                        && match ck_min (ck s) with Some m => h <=? m | None => true end)
                    || (ck_has h (ck s) && zs_mem h (rt s))) (zrange lo hi).
Definition grid3_above (pol : option policy) (f : Z) (bs : b3) (w : w3) : bool :=
  let '(b1, b2, b3) := bs in let '(s1, s2, s3) := w in
  let lo := f + 1 in let hi := f + blen bs in
  grid_ok_above pol lo hi f b1 s1 && grid_ok_above pol lo hi f b2 s2 && grid_ok_above pol lo hi f b3 s3.

(** the batch's starting frontier height, when the policy retains it, is registered as a retained
    anchor in every pool (update_tree: retain_anchor_checkpoint after insert_frontier) *)
Definition frontier_retained (pol : option policy) (f : Z) (s : pstate) : bool :=
  negb (oretains pol f) || zs_mem f (rt s).

(** alignment of one batch: every height the batch checkpoints in some pool (or that is a retained
    boundary of the range) is, in pool [s], present, or not above the pool's oldest checkpoint, or
    one of the pool's own block checkpoints (then it was subject to the pool's budget) *)
Definition batch_heights (pol : option policy) (f : Z) (bs : b3) : list Z :=
  let '(b1, b2, b3) := bs in
  map fst (own_ckpts f b1) ++ map fst (own_ckpts f b2) ++ map fst (own_ckpts f b3)
  ++ filter (oretains pol) (zrange (f + 1) (f + blen bs)).
Definition aligned_pool (hs : list Z) (f : Z) (b : batch_in) (s : pstate) : bool :=
  forallb (fun h => ck_has h (ck s)
                    || match ck_min (ck s) with Some m => h <=? m | None => true end
                    || zs_mem h (map fst (own_ckpts f b))) hs.
Definition aligned3 (pol : option policy) (f : Z) (bs : b3) (w : w3) : bool :=
  let hs := batch_heights pol f bs in
  let '(b1, b2, b3) := bs in let '(s1, s2, s3) := w in
  aligned_pool hs f b1 s1 && aligned_pool hs f b2 s2 && aligned_pool hs f b3 s3.

Definition sub_ck (a b : ckmap) : bool :=
  forallb (fun e => existsb (fun e' => pair_eqb Z.eqb opz_eqb e e') b) a.

Definition in_spec_range (pol : policy) (a b : Z) (out : list Z) : bool :=
  strictly_asc out
  && forallb (fun x => (a <=? x) && (x <=? b) && retains pol x) out
  && (if b - a <? 400 then forallb (fun x => Bool.eqb (zs_mem x out) (retains pol x)) (zrange a b) else true).

Definition prop_case (c : case) : bool :=
  match c with
  | CRetains pol h o =>
      Bool.eqb o ((p_from pol <=? h) && existsb (fun iv => h mod iv =? 0) (p_ivs pol))
  | CRange pol a b o => match o with Ok out => in_spec_range pol a b out | _ => false end
  | CBatch s o i pol a b out =>
      match out with
      | Ok (es, eo, ei) =>
          let g x := match pol with Some p => (a <=? x) && (x <=? b) && retains p x | None => false end in
          let chk e u v := strictly_asc e
               && forallb (fun x => zs_mem x u || zs_mem x v || g x) e
               && forallb (fun x => zs_mem x e) (u ++ v)
               && (if b - a <? 400 then forallb (fun x => negb (g x) || zs_mem x e) (zrange a b) else true) in
          chk es o i && chk eo s i && chk ei s o
      | _ => false
      end
  | CEnsure hs ex fs out =>
      (* every requested height without an existing checkpoint gets one, at the position of the
         last existing checkpoint below it (or the frontier) *)
      forallb (fun h => if zs_mem h (map fst ex) then negb (zs_mem h (map fst out))
                        else match assoc h out with
                             | Some p => opz_eqb p (match lookup_le h ex with Some (_, q) => Some q | None => frontier_pos fs end)
                             | None => false end) hs
      && forallb (fun e => zs_mem (fst e) hs) out
  | CPut _ budget chunk pre pol f bs res post truth roots_ok wit_ok _ _ =>
      roots_ok && wit_ok && w3_all ps_wf post &&
      match res with
      | Ok _ =>
          w3_true truth post
          && ((blen bs =? 0) || w3_all (frontier_retained pol f) post)
          && w3_all (grid_ok pol (f + 1) (f + blen bs)) post
          && aligned3 pol f bs post
      (* every batch the harness offers continues the chain the wallet is on: a refusal is a failure *)
      | Err _ => false
      | Panic => false
      end
  | CRoots pre res post roots_ok wit_ok _ _ getters_ok =>
      (* getters_ok: the pool's own subtree-root getter returns the inserted roots, the other pools'
         getters are unchanged, and the plain and the transactional handle agree *)
      getters_ok && roots_ok && wit_ok && w3_eqb pre post && match res with Ok _ => true | _ => false end
  | CTcs pre blocks mn target sizes res post roots_ok wit_ok _ _ =>
      roots_ok && wit_ok && w3_all ps_wf post &&
      match res with
      | Ok _ =>
          (* when scanned blocks lie above the target: afterwards no pool holds a checkpoint above
             it, and a checkpoint at it has the position of the given chain state *)
          match zmax_list blocks with
          | Some last =>
              if target <? last then
                let '(a, b, c) := post in let '(za, zb, zc) := sizes in
                let one s z := forallb (fun e => (fst e <=? target)
                                                 && (negb (fst e =? target) || opz_eqb (snd e) (frontier_pos z))) (ck s) in
                one a za && one b zb && one c zc
              else w3_eqb pre post
          | None => w3_eqb pre post
          end
      | Err _ => w3_eqb pre post
      | Panic => false
      end
  | CRewind pre blocks mn target res post roots_ok wit_ok _ _ =>
      roots_ok && wit_ok && w3_all ps_wf post &&
      match res with
      | Ok _ =>
          let '(a, b, c) := pre in let '(a', b', c') := post in
          let sub s s' := lz_eqb (rt s) (rt s') && sub_ck (ck s') (ck s) in
          sub a a' && sub b b' && sub c c' &&
          (* a target inside the pruning window: afterwards no pool holds a checkpoint above it *)
          match zmax_list blocks with
          | Some maxs =>
              if (target <? maxs) && (maxs - (PRUNING_DEPTH - 1) <=? target)
              then w3_all (fun s => forallb (fun e => fst e <=? target) (ck s)) post
              else true
          | None => w3_eqb pre post
          end
      | Err _ => w3_eqb pre post
      | Panic => false
      end
  | CTrunc pre blocks mn req res post roots_ok wit_ok _ _ =>
      roots_ok && wit_ok && w3_all ps_wf post &&
      match res with
      | Ok th =>
          (th <=? req) && zs_mem th blocks &&
          (let '(a, b, c) := pre in let '(a', b', c') := post in
           let one s s' :=
             lz_eqb (rt s) (rt s') && sub_ck (ck s') (ck s)
             && match zmax_list blocks with
                | Some last => if th <? last then forallb (fun e => fst e <=? th) (ck s')
                               else ck_eqb (ck s) (ck s')
                | None => true end in
           one a a' && one b b' && one c c')
      | Err _ => w3_eqb pre post
      | Panic => false
      end
  end.

(** Known-finding class 1: a retention boundary inside the scanned range that lies at or below a
    pool's oldest checkpoint (the batch was scanned below the pool's pruning floor) is not
    checkpointed in that pool although every other clause holds.
    Class 2 (C06-F2): after a rewind to a position strictly inside a completed subtree that an
    earlier frontier insertion had annotated with its cached hash ([hazard], computed by the harness
    from the chain's positions only), the Merkle layer keeps the stale hash: later roots / witnesses
    differ from the chain or the next batch is refused with an insertion conflict; the ledger
    clauses all hold. *)
Definition known_class (c : case) : N :=
  match c with
  | CPut _ budget chunk pre pol f bs (Ok _) post truth roots_ok wit_ok hazard clean_ok =>
      let ledger_ok := w3_all ps_wf post && w3_true truth post && aligned3 pol f bs post
                       && ((blen bs =? 0) || w3_all (frontier_retained pol f) post) in
      if roots_ok && wit_ok && ledger_ok
         && negb (w3_all (grid_ok pol (f + 1) (f + blen bs)) post)
         && grid3_above pol f bs post
      then 1%N
      else if hazard && clean_ok && negb (roots_ok && wit_ok) && ledger_ok
              && grid3_above pol f bs post
      then 2%N else 0%N
  | CPut _ _ _ pre _ _ _ (Err EOtherErr) post _ _ _ hazard clean_ok =>
      if hazard && clean_ok && w3_eqb pre post then 2%N else 0%N
  | CRoots pre (Ok _) post roots_ok wit_ok hazard clean_ok getters_ok =>
      if getters_ok && hazard && clean_ok && negb (roots_ok && wit_ok) && w3_eqb pre post then 2%N else 0%N
  | CTcs pre blocks mn target sizes res post roots_ok wit_ok hazard clean_ok =>
      if hazard && clean_ok && negb (roots_ok && wit_ok) && w3_all ps_wf post
         && match res with
            | Ok _ => match zmax_list blocks with
                      | Some last => if target <? last then w3_all (fun s => forallb (fun e => fst e <=? target) (ck s)) post
                                     else w3_eqb pre post
                      | None => w3_eqb pre post end
            | Err _ => w3_eqb pre post
            | Panic => false end
      then 2%N else 0%N
  | CRewind pre blocks mn target (Ok _) post roots_ok wit_ok hazard clean_ok =>
      let '(a, b, c) := pre in let '(a', b', c') := post in
      let sub s s' := lz_eqb (rt s) (rt s') && sub_ck (ck s') (ck s) in
      (* class 3 (C06-F4): the target has no checkpoint in any pool, the trees are cut to the next
         checkpoint above it; everything else holds *)
      if roots_ok && wit_ok && w3_all ps_wf post && sub a a' && sub b b' && sub c c'
         && negb (has_at (ck a) target || has_at (ck b) target || has_at (ck c) target)
         && negb (w3_all (fun s => forallb (fun e => fst e <=? target) (ck s)) post)
      then 3%N
      else if hazard && clean_ok && negb (roots_ok && wit_ok) && w3_all ps_wf post
              && sub_ck (ck a') (ck a) && sub_ck (ck b') (ck b) && sub_ck (ck c') (ck c)
              && (has_at (ck a) target || has_at (ck b) target || has_at (ck c) target
                  || w3_all (fun s => forallb (fun e => fst e <=? target) (ck s)) post)
      then 2%N else 0%N
  | CRewind pre blocks mn target res post roots_ok wit_ok hazard clean_ok =>
      if hazard && clean_ok && negb (roots_ok && wit_ok) && w3_all ps_wf post
         && match res with
            | Ok _ => let '(a, b, c) := pre in let '(a', b', c') := post in
                      sub_ck (ck a') (ck a) && sub_ck (ck b') (ck b) && sub_ck (ck c') (ck c)
            | Err _ => w3_eqb pre post
            | Panic => false end
      then 2%N else 0%N
  | CTrunc pre blocks mn req res post roots_ok wit_ok hazard clean_ok =>
      if hazard && clean_ok && negb (roots_ok && wit_ok) && w3_all ps_wf post
         && match res with
            | Ok th => (th <=? req) && zs_mem th blocks
            | Err _ => w3_eqb pre post
            | Panic => false end
      then 2%N else 0%N
  | _ => 0%N
  end.

(** path tags *)
Definition b2n (b : bool) : N := if b then 1%N else 0%N.
Definition failed {A E} (o : outcome A E) : N := match o with Ok _ => 0 | Err _ => 1 | Panic => 2 end%N.
Definition w3_any (f : pstate -> bool) (w : w3) : bool := let '(a, b, c) := w in f a || f b || f c.
Definition cklen (s : pstate) : Z := Z.of_nat (length (ck s)).
Definition plan_tag (p : plan) : N :=
  match p with ToCheckpoint => 0 | Unaffected => 1 | ResetToSubtreeRoots => 2
             | WouldDestroyWitnesses => 3 | DivergedCheckpoints => 4 end%N.
Definition tag_case (c : case) : N :=
  (match c with
   | CRetains _ _ o => 10 + b2n o
   | CRange pol a b o => 20 + failed o + 4 * b2n (Z.ltb b a) + 8 * b2n (Z.ltb (u32_max - 10)%Z b)
   | CBatch _ _ _ pol _ _ o => 40 + failed o + 4 * b2n (match pol with Some _ => true | None => false end)
   | CEnsure _ ex fs _ => 50 + b2n (Z.eqb fs 0) + 2 * b2n (match ex with [] => true | _ => false end)
   | CPut real budget chunk pre pol f bs res post _ _ _ _ _ =>
       let '(b1, b2, b3) := bs in
       let pruned := w3_any (fun s => Z.ltb budget (cklen s)) pre in
       let ooo := w3_any (fun s => existsb (fun e => Z.ltb f (fst e)) (ck s)) pre in
       let emptyf := (Z.eqb (b_fsize b1) 0) || (Z.eqb (b_fsize b2) 0) || (Z.eqb (b_fsize b3) 0) in
       let multi := (Z.ltb chunk (total_cnt b1)) || (Z.ltb chunk (total_cnt b2)) || (Z.ltb chunk (total_cnt b3)) in
       let ret := w3_any (fun s => match rt s with [] => false | _ => true end) post in
       100 + failed res + 4 * b2n pruned + 8 * b2n ooo + 16 * b2n emptyf + 32 * b2n multi
       + 64 * b2n ret + 128 * b2n real
   | CRoots _ res _ _ _ _ _ _ => 600 + failed res
   | CRewind pre blocks mn target res post _ _ _ _ =>
       800 + failed res
       + 4 * b2n (match zmax_list blocks with Some l => Z.ltb target l | None => false end)
       + 8 * b2n (match zmax_list blocks with Some l => Z.ltb target (l - (PRUNING_DEPTH - 1))%Z | None => false end)
       + 16 * b2n (w3_any (fun s => has_at (ck s) target) pre)
       + 32 * b2n (negb (w3_eqb pre post))
   | CTcs pre blocks mn target _ res _ _ _ _ _ =>
       700 + failed res
       + 4 * b2n (match zmax_list blocks with Some l => Z.ltb target l | None => false end)
       + 8 * match select_height blocks mn target pre with
             | Some h => b2n (Z.eqb h target)
             | None => match min_shared pre with Some _ => 2 | None => 3 end end
   | CTrunc pre blocks mn req res post _ _ _ _ =>
       let '(a, b, c) := pre in let '(ns, no, ni) := mn in
       match res with
       | Ok th => 400 + plan_tag (plan_trunc (ck a) ns th th) + 5 * plan_tag (plan_trunc (ck b) no th th)
                  + 25 * plan_tag (plan_trunc (ck c) ni th th)
                  + 125 * b2n (match zmax_list blocks with Some l => Z.ltb th l | None => false end)
       | Err _ => 398 | Panic => 399
       end
   end)%N.
