(** C06 — proofs about sorted height sets and AnchorRetention::retained_in_range. *)
From Coq Require Import ZArith List Lia Bool Sorted.
From Coq Require Import ZifyBool.
From V.Lib Require Import Base MachInt.
From V.C06 Require Import Model Spec.
Import ListNotations.
Local Open Scope Z_scope.

Lemma zs_add_in x y l : In x (zs_add y l) <-> x = y \/ In x l.
Proof.
  induction l as [|z r IH]; cbn [zs_add].
  - cbn. intuition congruence.
  - destruct (y <? z) eqn:E1; [cbn; intuition congruence|].
    destruct (y =? z) eqn:E2.
    + assert (y = z) by lia. subst. cbn. intuition congruence.
    + cbn. rewrite IH. intuition congruence.
Qed.

Lemma zs_addl_in xs : forall acc x, In x (zs_addl xs acc) <-> In x xs \/ In x acc.
Proof.
  unfold zs_addl. induction xs as [|y r IH]; intros acc x; cbn [fold_left].
  - cbn. intuition congruence.
  - rewrite IH, zs_add_in. cbn. intuition congruence.
Qed.

Lemma zs_union_in a b x : In x (zs_union a b) <-> In x a \/ In x b.
Proof. unfold zs_union. rewrite !zs_addl_in. cbn. intuition congruence. Qed.

Lemma zs_mem_in x l : zs_mem x l = true <-> In x l.
Proof.
  unfold zs_mem. rewrite existsb_exists. split.
  - intros [y [Hy E]]. assert (x = y) by lia. subst. exact Hy.
  - intros H. exists x. split; [exact H|lia].
Qed.

(** strictly ascending *)
Definition asc (l : list Z) : Prop := StronglySorted Z.lt l.

Lemma zs_add_asc y l : asc l -> asc (zs_add y l).
Proof.
  unfold asc. induction l as [|z r IH]; intros H; cbn [zs_add].
  - repeat constructor.
  - inversion H as [|? ? Hr Hf]; subst.
    destruct (y <? z) eqn:E1.
    + constructor; [exact H|]. constructor; [lia|].
      rewrite Forall_forall in *. intros w Hw. specialize (Hf w Hw). lia.
    + destruct (y =? z) eqn:E2; [exact H|].
      constructor; [apply IH; exact Hr|].
      rewrite Forall_forall in *. intros w Hw. apply zs_add_in in Hw.
      destruct Hw as [->|Hw]; [lia|apply Hf; exact Hw].
Qed.

Lemma zs_addl_asc xs : forall acc, asc acc -> asc (zs_addl xs acc).
Proof.
  unfold zs_addl. induction xs as [|y r IH]; intros acc H; cbn [fold_left]; [exact H|].
  apply IH. apply zs_add_asc. exact H.
Qed.

Lemma asc_nil : asc []. Proof. constructor. Qed.

Lemma zs_union_asc a b : asc (zs_union a b).
Proof. unfold zs_union. apply zs_addl_asc, zs_addl_asc, asc_nil. Qed.

(** * boundaries of one interval *)
Lemma in_map_seq (f : nat -> Z) n x :
  In x (map f (seq 0 n)) <-> exists k, (k < n)%nat /\ x = f k.
Proof.
  rewrite in_map_iff. split.
  - intros [k [E Hk]]. apply in_seq in Hk. exists k. split; [lia|congruence].
  - intros [k [Hk E]]. exists k. split; [congruence|apply in_seq; lia].
Qed.

Lemma boundaries_of_spec start end_ step :
  0 <= start <= u32_max -> 0 <= end_ <= u32_max -> 1 <= step <= u32_max ->
  exists l, boundaries_of start end_ step = Ok l /\
    forall x, In x l <-> (start <= x <= end_ /\ x mod step = 0).
Proof.
  intros Hs He Hst. unfold boundaries_of.
  set (q := start / step + (if start mod step =? 0 then 0 else 1)).
  assert (Hdm : start = step * (start / step) + start mod step) by (apply Z.div_mod; lia).
  assert (Hm : 0 <= start mod step < step) by (apply Z.mod_pos_bound; lia).
  assert (Hq0 : 0 <= start / step) by (apply Z.div_pos; lia).
  assert (Hfirst : start <= q * step < start + step).
  { unfold q. destruct (start mod step =? 0) eqn:E; nia. }
  assert (Hq : 0 <= q) by (unfold q; destruct (start mod step =? 0); lia).
  assert (Hleast : forall x, start <= x -> x mod step = 0 -> q * step <= x).
  { intros x Hx Hmx.
    assert (Hx' : x = step * (x / step)) by (rewrite (Z.div_mod x step) at 1 by lia; lia).
    assert (q <= x / step); [|nia].
    unfold q. destruct (start mod step =? 0) eqn:E.
    - assert (start / step <= x / step) by (apply Z.div_le_mono; lia). lia.
    - assert (start / step < x / step); [|lia].
      assert (~ x / step <= start / step); [|lia]. intros Hc.
      assert (start mod step <> 0) by lia. nia. }
  unfold u64_max, u32_max in *.
  destruct (18446744073709551615 <? q * step) eqn:E1; [lia|].
  destruct (end_ <? q * step) eqn:E2.
  - exists []. split; [reflexivity|]. intros x. cbn. split; [intuition congruence|].
    intros [[Hx1 Hx2] Hx3]. specialize (Hleast x Hx1 Hx3). lia.
  - set (n := (end_ - q * step) / step).
    assert (Hn0 : 0 <= n) by (apply Z.div_pos; lia).
    assert (Hn : n * step <= end_ - q * step < n * step + step).
    { unfold n.
      pose proof (Z.div_mod (end_ - q * step) step ltac:(lia)).
      pose proof (Z.mod_pos_bound (end_ - q * step) step ltac:(lia)). nia. }
    destruct (18446744073709551615 <? (n + 1) * step) eqn:E3; [nia|].
    destruct (18446744073709551615 <? q * step + (n + 1) * step) eqn:E4; [nia|].
    destruct (4294967295 <? q * step + n * step) eqn:E5; [nia|].
    eexists. split; [reflexivity|]. intros x. rewrite in_map_seq. split.
    + intros [k [Hk ->]].
      assert (Z.of_nat k <= n) by lia.
      split; [nia|].
      replace (q * step + Z.of_nat k * step) with ((q + Z.of_nat k) * step) by ring.
      apply Z.mod_mul. lia.
    + intros [[Hx1 Hx2] Hx3].
      specialize (Hleast x Hx1 Hx3).
      assert (Hx' : x = step * (x / step)) by (rewrite (Z.div_mod x step) at 1 by lia; lia).
      exists (Z.to_nat (x / step - q)).
      assert (q <= x / step) by nia.
      assert (x / step - q <= n) by nia.
      split; [lia|]. rewrite Z2Nat.id by lia. nia.
Qed.

Lemma retained_ivs_spec start end_ ivs :
  0 <= start <= u32_max -> 0 <= end_ <= u32_max ->
  Forall (fun iv => 1 <= iv <= u32_max) ivs ->
  forall acc, exists l, retained_ivs start end_ ivs acc = Ok l /\
    (asc acc -> asc l) /\
    forall x, In x l <-> (In x acc \/ (start <= x <= end_ /\ existsb (fun iv => is_boundary iv x) ivs = true)).
Proof.
  intros Hs He Hiv. induction Hiv as [|iv r Hi Hr IH]; intros acc; cbn [retained_ivs].
  - exists acc. split; [reflexivity|]. split; [intuition congruence|]. intros y. cbn. intuition congruence.
  - destruct (boundaries_of_spec start end_ iv Hs He Hi) as [bs [-> Hbs]].
    destruct (IH (zs_addl bs acc)) as [l [-> [Hasc Hl]]].
    exists l. split; [reflexivity|]. split.
    + intros Ha. apply Hasc, zs_addl_asc, Ha.
    + intros y. rewrite Hl, zs_addl_in, Hbs. cbn [existsb]. unfold is_boundary.
      rewrite orb_true_iff. rewrite Z.eqb_eq. intuition congruence.
Qed.

Definition pol_ok (p : policy) : Prop :=
  0 <= p_from p <= u32_max /\ Forall (fun iv => 1 <= iv <= u32_max) (p_ivs p).

(** The enumeration never panics on u32 heights and is exactly the predicate. *)
Lemma retained_in_range_total p a b :
  pol_ok p -> 0 <= a <= u32_max -> 0 <= b <= u32_max ->
  exists l, retained_in_range p a b = Ok l /\ asc l /\
    forall x, In x l <-> (a <= x <= b /\ retains p x = true).
Proof.
  intros [Hf Hiv] Ha Hb. unfold retained_in_range.
  destruct (retained_ivs_spec (Z.max a (p_from p)) b (p_ivs p) ltac:(lia) Hb Hiv []) as [l [-> [Hasc Hl]]].
  exists l. split; [reflexivity|]. split; [apply Hasc, asc_nil|].
  intros x. rewrite Hl. unfold retains. rewrite andb_true_iff. cbn [In].
  split.
  - intros [[]|[Hx E]]. split; [lia|]. split; [lia|exact E].
  - intros [Hx [H1 E]]. right. split; [lia|exact E].
Qed.

Lemma retained_in_range_spec p a b l :
  pol_ok p -> 0 <= a <= u32_max -> 0 <= b <= u32_max ->
  retained_in_range p a b = Ok l ->
  forall x, In x l <-> (a <= x <= b /\ retains p x = true).
Proof.
  intros Hp Ha Hb E. destruct (retained_in_range_total p a b Hp Ha Hb) as [l' [E' [_ H]]].
  rewrite E in E'. inversion E'. subst. exact H.
Qed.

(** * batch_ensure_heights *)
Definition grid (pol : option policy) (a b x : Z) : Prop :=
  match pol with Some p => a <= x <= b /\ retains p x = true | None => False end.
Definition opol_ok (pol : option policy) : Prop := match pol with Some p => pol_ok p | None => True end.

Lemma batch_ensure_spec s o i pol a b :
  opol_ok pol -> 0 <= a <= u32_max -> 0 <= b <= u32_max ->
  exists es eo ei, batch_ensure s o i pol a b = Ok (es, eo, ei) /\
    asc es /\ asc eo /\ asc ei /\
    (forall x, In x es <-> In x o \/ In x i \/ grid pol a b x) /\
    (forall x, In x eo <-> In x s \/ In x i \/ grid pol a b x) /\
    (forall x, In x ei <-> In x s \/ In x o \/ grid pol a b x).
Proof.
  intros Hp Ha Hb. unfold batch_ensure, cross_pool.
  destruct pol as [p|].
  - destruct (retained_in_range_total p a b Hp Ha Hb) as [g [-> [_ Hg]]].
    do 3 eexists. split; [reflexivity|].
    split; [apply zs_addl_asc, zs_union_asc|].
    split; [apply zs_addl_asc, zs_union_asc|].
    split; [apply zs_addl_asc, zs_union_asc|].
    split; [|split]; intros x; rewrite zs_addl_in, zs_union_in, Hg; cbn [grid]; intuition congruence.
  - do 3 eexists. split; [reflexivity|].
    split; [apply zs_union_asc|]. split; [apply zs_union_asc|]. split; [apply zs_union_asc|].
    split; [|split]; intros x; rewrite zs_union_in; cbn [grid]; intuition congruence.
Qed.
