(** C06 — domain of the theorems as a boolean on cases. *)
From V.Lib Require Import Base MachInt.
From V.Gen Require Import C06Consts.
From V.C06 Require Import Model Spec Corr.
Local Open Scope Z_scope.

Definition pol_wf (p : policy) : bool :=
  in_u32 (p_from p) && forallb (fun iv => (1 <=? iv) && (iv <=? u32_max)) (p_ivs p)
  && match p_ivs p with [] => false | _ => true end.
Definition opol_wf (o : option policy) : bool := match o with Some p => pol_wf p | None => true end.
Definition heights_wf (l : list Z) : bool := strictly_asc l && forallb in_u32 l.
Definition pos_wf (p : option Z) : bool := match p with Some x => in_u64 x | None => true end.
Definition ps_in (s : pstate) : bool :=
  ps_wf s && forallb (fun e => in_u32 (fst e) && pos_wf (snd e)) (ck s) && forallb in_u32 (rt s).
Definition b_wf (n : nat) (b : batch_in) : bool :=
  (0 <=? b_fsize b) && (Nat.eqb (length (b_cnts b)) n) && forallb (fun c => 0 <=? c) (b_cnts b)
  && (b_fsize b + total_cnt b <=? u32_max).

Definition wf_case (c : case) : bool :=
  match c with
  | CRetains pol h _ => pol_wf pol && in_u32 h
  | CRange pol a b _ => pol_wf pol && in_u32 a && in_u32 b
  | CBatch s o i pol a b _ => heights_wf s && heights_wf o && heights_wf i && opol_wf pol && in_u32 a && in_u32 b
  | CEnsure hs ex fs _ =>
      heights_wf hs && heights_wf (map fst ex) && (0 <=? fs) && forallb (fun e => 0 <=? snd e) ex
  | CPut real budget chunk pre pol f bs _ post _ _ _ _ _ =>
      let '(b1, b2, b3) := bs in
      let n := length (b_cnts b1) in
      (0 <? budget) && (0 <? chunk) && w3_all ps_in pre && w3_all ps_in post && opol_wf pol
      && in_u32 f && (f + Z.of_nat n <=? u32_max) && b_wf n b1 && b_wf n b2 && b_wf n b3
      && (if real then (budget =? PRUNING_DEPTH) && (chunk =? CHUNK_SIZE) else true)
  | CRoots pre _ post _ _ _ _ _ => w3_all ps_in pre && w3_all ps_in post
  | CTcs pre blocks mn target sizes _ post _ _ _ _ =>
      w3_all ps_in pre && w3_all ps_in post && forallb in_u32 blocks && in_u32 target
      && (let '(a, b, c) := sizes in (0 <=? a) && (0 <=? b) && (0 <=? c))
  | CRewind pre blocks mn target _ post _ _ _ _ =>
      w3_all ps_in pre && w3_all ps_in post && forallb in_u32 blocks && in_u32 target
  | CTrunc pre blocks mn req _ post _ _ _ _ =>
      w3_all ps_in pre && w3_all ps_in post && forallb in_u32 blocks && in_u32 req
  end.
