(** C06 — the property stated independently of the code's data flow.
    A chain gives, per pool, the note commitment tree size after every block ([Z -> Z]).
    A checkpoint at height [h] is TRUE when it points at the last leaf of the tree of that size
    (or says "tree empty"); given a correct Merkle structure (shardtree, trusted) this is exactly
    "root_at_checkpoint_id h = root of the chain's tree at h". *)
From V.Lib Require Import Base MachInt.
Local Open Scope Z_scope.

Definition chain := Z -> Z.
Definition true_pos (size : Z) : option Z := if size =? 0 then None else Some (size - 1).

Definition ck_true (c : chain) (m : list (Z * option Z)) : Prop :=
  forall h p, In (h, p) m -> p = true_pos (c h).

(** a batch of blocks [f+1 ..] with [cnts] commitments each continues chain [c] from size [c f] *)
Fixpoint sizes_ok (c : chain) (h size : Z) (cnts : list Z) : Prop :=
  match cnts with
  | [] => True
  | x :: r => 0 <= x /\ c h = size + x /\ sizes_ok c (h + 1) (size + x) r
  end.

Definition agree_upto (h : Z) (c c' : chain) : Prop := forall x, x <= h -> c x = c' x.

(** boolean renderings used on observed outcomes *)
Fixpoint assoc {A} (h : Z) (l : list (Z * A)) : option A :=
  match l with [] => None | (k, v) :: r => if k =? h then Some v else assoc h r end.
Definition ck_true_b (truth : list (Z * Z)) (m : list (Z * option Z)) : bool :=
  forallb (fun e => match assoc (fst e) truth with
                    | Some sz => option_eqb Z.eqb (snd e) (true_pos sz)
                    | None => false end) m.
Fixpoint strictly_asc (l : list Z) : bool :=
  match l with
  | a :: ((b :: _) as r) => (a <? b) && strictly_asc r
  | _ => true
  end.
Definition zrange (a b : Z) : list Z := map (fun k => a + Z.of_nat k) (seq 0 (Z.to_nat (b - a + 1))).
