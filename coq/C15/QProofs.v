(** C15 part B — lemmas about the queue model: [replace_queue_entries] on a canonical queue. *)
From V.Lib Require Import Base.
From V.Gen Require Import C15Tables.
From V.C15 Require Import Model Spec Sem QModel Proofs ProofsTree ProofsVec ProofsSeq ProofsCanon ProofsEmpty.
From Coq Require Import ZifyBool.
Local Open Scope Z_scope.

Definition chain (q : list sr) : Prop := canonical (map row_of q).

Lemma chain_nil : chain [].
Proof. exact I. Qed.

Lemma chain_cons_inv a q : chain (a :: q) ->
  nonempty a /\ chain q /\ match q with [] => True | b :: _ => re a = rs b /\ rp a <> rp b end.
Proof.
  unfold chain, nonempty. cbn [map canonical row_of]. intros (N & H & C). split; [exact N|]. split; [exact C|].
  destruct q as [|b q]; [exact I|]. exact H.
Qed.

Lemma chain_cons a q : nonempty a -> chain q ->
  match q with [] => True | b :: _ => re a = rs b /\ rp a <> rp b end -> chain (a :: q).
Proof.
  unfold chain, nonempty. cbn [map canonical row_of]. intros N C H. split; [exact N|]. split; [|exact C].
  destruct q as [|b q]; [exact I|]. exact H.
Qed.

Lemma chain_lower a q : chain (a :: q) -> forall r, In r q -> re a <= rs r.
Proof. exact (canonical_lower a q). Qed.

Lemma chain_nonempty q : chain q -> forall r, In r q -> nonempty r.
Proof.
  induction q as [|a q IH]; intros C r I; [destruct I|].
  destruct (chain_cons_inv a q C) as (N & C' & _). destruct I as [<-|I]; auto.
Qed.

Lemma chain_app_inv l1 l2 : chain (l1 ++ l2) -> chain l1 /\ chain l2.
Proof.
  induction l1 as [|a l1 IH]; cbn [app]; intros C; [split; [exact chain_nil|exact C]|].
  destruct (chain_cons_inv _ _ C) as (N & C' & H). destruct (IH C') as (C1 & C2). split; [|exact C2].
  apply chain_cons; auto. destruct l1 as [|b l1]; [exact I|]. exact H.
Qed.

Lemma chain_app_order l1 l2 : chain (l1 ++ l2) -> forall x y, In x l1 -> In y l2 -> re x <= rs y.
Proof.
  induction l1 as [|a l1 IH]; cbn [app]; intros C x y Ix Iy; [destruct Ix|].
  destruct Ix as [<-|Ix].
  - apply (chain_lower _ _ C). apply in_or_app. right. exact Iy.
  - destruct (chain_cons_inv _ _ C) as (_ & C' & _). eapply IH; eauto.
Qed.

(** last element *)
Fixpoint last_opt (l : list sr) : option sr :=
  match l with [] => None | [x] => Some x | _ :: r => last_opt r end.
Definition hd_opt (l : list sr) : option sr := match l with [] => None | x :: _ => Some x end.

Definition junction (l1 l2 : list sr) : Prop :=
  forall x y, last_opt l1 = Some x -> hd_opt l2 = Some y -> re x = rs y /\ rp x <> rp y.

Lemma chain_app l1 l2 : chain l1 -> chain l2 -> junction l1 l2 -> chain (l1 ++ l2).
Proof.
  induction l1 as [|a l1 IH]; cbn [app]; intros C1 C2 J; [exact C2|].
  destruct (chain_cons_inv _ _ C1) as (N & C1' & H). apply chain_cons; [exact N| |].
  - apply IH; auto. intros x y Lx Hy. apply J; auto. cbn [last_opt]. destruct l1; [discriminate|exact Lx].
  - destruct l1 as [|b l1]; cbn [app].
    + destruct l2 as [|y l2]; [exact I|]. apply J; reflexivity.
    + exact H.
Qed.

Lemma chain_junction l1 l2 : chain (l1 ++ l2) -> junction l1 l2.
Proof.
  induction l1 as [|a l1 IH]; cbn [app]; intros C x y Lx Hy; [discriminate|].
  destruct (chain_cons_inv _ _ C) as (_ & C' & H). destruct l1 as [|b l1].
  - cbn in Lx. injection Lx as <-. cbn [app] in H. destruct l2; [discriminate|]. cbn in Hy. injection Hy as <-. exact H.
  - apply IH; auto.
Qed.

Lemma last_opt_in l x : last_opt l = Some x -> In x l.
Proof.
  induction l as [|a l IH]; [discriminate|]. cbn [last_opt]. destruct l; [intros [= <-]; left; reflexivity|].
  intros H. right. apply IH. exact H.
Qed.
Lemma hd_opt_in l x : hd_opt l = Some x -> In x l.
Proof. destruct l; [discriminate|]. intros [= <-]. left. reflexivity. Qed.

Lemma last_opt_none l : last_opt l = None -> l = [].
Proof. induction l as [|a l IH]; [reflexivity|]. cbn [last_opt]. destruct l; [discriminate|]. intros H. specialize (IH H). discriminate. Qed.

Lemma last_opt_app l x : last_opt (l ++ [x]) = Some x.
Proof. induction l as [|a l IH]; [reflexivity|]. cbn [app last_opt]. destruct (l ++ [x]) eqn:E; [destruct l; discriminate|exact IH]. Qed.

(** *** filters *)
Lemma filter_none {A} (f : A -> bool) l : (forall x, In x l -> f x = false) -> filter f l = [].
Proof. induction l as [|a l IH]; intros H; [reflexivity|]. cbn [filter]. rewrite (H a (or_introl eq_refl)). apply IH. intros; apply H; right; assumption. Qed.
Lemma filter_all {A} (f : A -> bool) l : (forall x, In x l -> f x = true) -> filter f l = l.
Proof. induction l as [|a l IH]; intros H; [reflexivity|]. cbn [filter]. rewrite (H a (or_introl eq_refl)). f_equal. apply IH. intros; apply H; right; assumption. Qed.

(** *** the rows selected by the query form a contiguous segment *)
Lemma split3 qs qe q : chain q -> qs <= qe ->
  exists b s a, q = b ++ s ++ a /\
    (forall r, In r b -> re r < qs) /\
    (forall r, In r s -> rs r <= qe /\ qs <= re r) /\
    (forall r, In r a -> qe < rs r).
Proof.
  intros C L. induction q as [|x q IH]; [exists [], [], []; cbn; intuition|].
  destruct (chain_cons_inv _ _ C) as (N & C' & _). pose proof (chain_lower _ _ C) as LO.
  pose proof (chain_nonempty _ C') as NE.
  destruct (IH C') as (b & s & a & -> & Hb & Hs & Ha). unfold nonempty in *.
  assert (Bnil : qs <= re x -> b = []).
  { intros Q. destruct b as [|y b]; [reflexivity|]. exfalso.
    assert (Iy : In y ((y :: b) ++ s ++ a)) by (left; reflexivity).
    pose proof (LO y Iy). pose proof (NE y Iy). pose proof (Hb y (or_introl eq_refl)). lia. }
  destruct (Z_lt_le_dec (re x) qs) as [B|NB].
  - exists (x :: b), s, a. split; [reflexivity|]. split; [|auto]. intros r [<-|I]; auto.
  - rewrite (Bnil NB) in *. cbn [app] in *. destruct (Z_le_gt_dec (rs x) qe) as [S|A].
    + exists [], (x :: s), a. split; [reflexivity|]. split; [intros r []|]. split; [|exact Ha].
      intros r [<-|I]; auto.
    + assert (s = []).
      { destruct s as [|y s]; [reflexivity|]. exfalso.
        assert (Iy : In y ((y :: s) ++ a)) by (left; reflexivity).
        pose proof (LO y Iy). pose proof (Hs y (or_introl eq_refl)). lia. }
      subst s. cbn [app] in *. exists [], [], (x :: a). split; [reflexivity|]. split; [intros r []|]. split; [intros r []|].
      intros r [<-|I]; [lia|auto].
Qed.

Lemma selp_true qs qe r : selp qs qe r = true <-> rs r <= qe /\ qs <= re r.
Proof. unfold selp. lia. Qed.

Lemma existsb_eqb_false x l : (forall y, In y l -> y <> x) -> existsb (Z.eqb x) l = false.
Proof.
  intros H. destruct (existsb (Z.eqb x) l) eqn:E; [|reflexivity].
  apply existsb_exists in E. destruct E as (y & I & Ey). apply Z.eqb_eq in Ey. subst. destruct (H _ I eq_refl).
Qed.

Lemma filters_of_split qs qe b s a :
  chain (b ++ s ++ a) ->
  (forall r, In r b -> re r < qs) ->
  (forall r, In r s -> rs r <= qe /\ qs <= re r) ->
  (forall r, In r a -> qe < rs r) ->
  filter (selp qs qe) (b ++ s ++ a) = s /\
  filter (fun r => negb (existsb (Z.eqb (re r)) (map re s))) (b ++ s ++ a) = b ++ a.
Proof.
  intros C Hb Hs Ha. pose proof (chain_nonempty _ C) as NE.
  destruct (chain_app_inv _ _ C) as (_ & Csa).
  pose proof (chain_app_order _ _ Csa) as Osa.
  split.
  - rewrite !filter_app. rewrite (filter_none _ b), (filter_all _ s), (filter_none _ a); [rewrite app_nil_r; reflexivity|..].
    + intros x I. pose proof (Ha x I). unfold selp. lia.
    + intros x I. apply selp_true. auto.
    + intros x I. pose proof (Hb x I). unfold selp. lia.
  - rewrite !filter_app. rewrite (filter_all _ b), (filter_none _ s), (filter_all _ a); [reflexivity|..].
    + intros x I. apply negb_true_iff. apply existsb_eqb_false. intros y Iy. apply in_map_iff in Iy.
      destruct Iy as (z & <- & Iz). pose proof (Osa z x Iz I).
      assert (nonempty x) by (apply NE; apply in_or_app; right; apply in_or_app; right; exact I). unfold nonempty in *. lia.
    + intros x I. apply negb_false_iff. apply existsb_exists. exists (re x). split; [apply in_map; exact I|apply Z.eqb_refl].
    + intros x I. apply negb_true_iff. apply existsb_eqb_false. intros y Iy. apply in_map_iff in Iy.
      destruct Iy as (z & <- & Iz). pose proof (Hb x I). pose proof (Hs z Iz). lia.
Qed.

Lemma sort_end_chain s : chain s -> sort_end s = s.
Proof.
  induction s as [|x s IH]; intros C; [reflexivity|].
  destruct (chain_cons_inv _ _ C) as (N & C' & H). cbn [sort_end fold_right]. fold (sort_end s). rewrite (IH C').
  destruct s as [|y s]; [reflexivity|]. cbn [ins_end].
  destruct (chain_cons_inv _ _ C') as (Ny & _ & _). unfold nonempty in *. destruct H as (E & _).
  destruct (Z.ltb_spec (re x) (re y)); [reflexivity|lia].
Qed.

(** *** inserting the new rows between the untouched ones *)
Lemma ins_start_mid l1 r l2 :
  (forall x, In x l1 -> rs x <= rs r) -> (forall x, In x l2 -> rs r < rs x) ->
  ins_start r (l1 ++ l2) = l1 ++ r :: l2.
Proof.
  intros H1 H2. induction l1 as [|a l1 IH]; cbn [app].
  - destruct l2 as [|y l2]; [reflexivity|]. cbn [ins_start].
    pose proof (H2 y (or_introl eq_refl)). destruct (Z.ltb_spec (rs r) (rs y)); [reflexivity|lia].
  - cbn [ins_start]. pose proof (H1 a (or_introl eq_refl)).
    destruct (Z.ltb_spec (rs r) (rs a)); [lia|]. f_equal. apply IH. intros; apply H1; right; assumption.
Qed.

Lemma q_insert_mid l1 r l2 : nonempty r ->
  (forall x, In x l1 -> re x <= rs r /\ nonempty x) -> (forall x, In x l2 -> re r <= rs x /\ nonempty x) ->
  q_insert r (l1 ++ l2) = Ok (l1 ++ r :: l2).
Proof.
  unfold nonempty. intros N H1 H2. unfold q_insert.
  destruct (existsb (fun x => (rs x =? rs r) || (re x =? re r)) (l1 ++ l2)) eqn:E.
  - exfalso. apply existsb_exists in E. destruct E as (x & I & E). apply in_app_or in I.
    destruct I as [I|I]; [destruct (H1 x I)|destruct (H2 x I)]; lia.
  - f_equal. apply ins_start_mid.
    + intros x I. destruct (H1 x I). lia.
    + intros x I. destruct (H2 x I). lia.
Qed.

Lemma insert_mid v : forall b a, chain v ->
  (forall x y, In x b -> In y v -> re x <= rs y) -> (forall x, In x b -> nonempty x) ->
  (forall y x, In y v -> In x a -> re y <= rs x) -> (forall x, In x a -> nonempty x) ->
  insert_queue_entries v (b ++ a) = Ok (b ++ v ++ a).
Proof.
  induction v as [|r v IH]; intros b a C Hb Nb Ha Na; [reflexivity|].
  destruct (chain_cons_inv _ _ C) as (N & C' & _). pose proof (chain_lower _ _ C) as LO.
  cbn [insert_queue_entries]. unfold is_empty. unfold nonempty in N. destruct (Z.ltb_spec (rs r) (re r)); [|lia]. cbn [negb].
  rewrite q_insert_mid; [| exact N | |].
  - cbn [bind]. replace (b ++ r :: a) with ((b ++ [r]) ++ a) by (rewrite <- app_assoc; reflexivity).
    rewrite (IH (b ++ [r]) a C').
    + rewrite <- !app_assoc. reflexivity.
    + intros x y Ix Iy. apply in_app_or in Ix. destruct Ix as [Ix|[<-|[]]]; [apply Hb; auto; right; exact Iy|apply LO; exact Iy].
    + intros x Ix. apply in_app_or in Ix. destruct Ix as [Ix|[<-|[]]]; [auto|exact N].
    + intros y x Iy Ix. apply Ha; auto. right; exact Iy.
    + exact Na.
  - intros x I. split; [apply Hb; auto; left; reflexivity|auto].
  - intros x I. split; [apply Ha; auto; left; reflexivity|auto].
Qed.

(** *** the loop building the tree is a fold of insertions *)
Lemma fold_tree_some rows f : forall t,
  fold_tree (Some t) rows f =
  match tinsert_all t (map (fun r => (r, f)) rows) with Some t' => Some (Some t') | None => None end.
Proof.
  induction rows as [|r rows IH]; intros t; [reflexivity|]. cbn [fold_tree map tinsert_all].
  destruct (tinsert t r f); [apply IH|reflexivity].
Qed.

(** *** specification-level facts *)
Definition row_in (r : row) (h : Z) : bool := let '(s, e, _) := r in in_range s e h.

(** a covered height outside every inserted range keeps its priority *)
Lemma fold_keep ops : forall st h c, pm st h = Some c ->
  (forall o, In o ops -> row_in (fst o) h = false) -> pm (fold_spec st ops) h = Some c.
Proof.
  induction ops as [|[[[s e] p] f] ops IH]; intros st h c E H; [exact E|]. cbn [fold_spec].
  apply IH; [|intros; apply H; right; assumption].
  pose proof (H _ (or_introl eq_refl)) as H0. cbn [fst row_in] in H0. cbn [ins_spec pm]. rewrite H0, E. reflexivity.
Qed.

Lemma fold_lo_hi ops : forall st,
  lo (fold_spec st ops) = fold_left (fun a o => Z.min a (fst (fst (fst o)))) ops (lo st) /\
  hi (fold_spec st ops) = fold_left (fun a o => Z.max a (snd (fst (fst o)))) ops (hi st).
Proof.
  induction ops as [|[[[s e] p] f] ops IH]; intros st; [split; reflexivity|]. cbn [fold_spec fold_left fst snd].
  destruct (IH (ins_spec st s e p f)) as (A & B). rewrite A, B. split; reflexivity.
Qed.

(** appending adjacent rows one after the other is just the list of rows *)
Lemma fold_chain f s : forall st, chain s ->
  (forall x, hd_opt s = Some x -> hi st = rs x) -> lo st <= hi st ->
  (forall h, pm st h <> None <-> lo st <= h < hi st) ->
  let st' := fold_spec st (map (fun r => op_row (r, f)) s) in
  lo st' = lo st /\ hi st' = match last_opt s with Some x => re x | None => hi st end /\
  (forall h, pm st' h <> None <-> lo st' <= h < hi st') /\
  forall h, pm st' h = orelse (pm st h) (rows_at (map row_of s) h).
Proof.
  induction s as [|x s IH]; intros st C H L D.
  - cbn. split; [reflexivity|]. split; [reflexivity|]. split; [exact D|]. intros h. destruct (pm st h); reflexivity.
  - destruct (chain_cons_inv _ _ C) as (N & C' & J). unfold nonempty in N.
    specialize (H x eq_refl). cbn [map fold_spec op_row fst snd row_of].
    set (st1 := ins_spec st (rs x) (re x) (rp x) f).
    assert (D1 : forall h, pm st1 h = orelse (pm st h) (at_sr x h)).
    { intros h. unfold st1. cbn [ins_spec pm]. unfold at_sr, in_range.
      destruct (pm st h) eqn:E.
      - assert (lo st <= h < hi st) by (apply D; congruence). zb; try lia; reflexivity.
      - cbn [orelse]. assert (~ (lo st <= h < hi st)) by (intros Q; apply D in Q; congruence).
        zb; try lia; reflexivity. }
    destruct (IH st1 C') as (A & B & Dm & P).
    + intros y Hy. unfold st1. cbn [ins_spec hi]. destruct s as [|z s]; [discriminate|]. cbn in Hy. injection Hy as <-. destruct J. lia.
    + unfold st1. cbn [ins_spec lo hi]. lia.
    + intros h. rewrite D1. unfold st1. cbn [ins_spec lo hi]. unfold at_sr, in_range.
      destruct (pm st h) eqn:E; cbn [orelse].
      * assert (lo st <= h < hi st) by (apply D; congruence). split; [lia|congruence].
      * assert (~ (lo st <= h < hi st)) by (intros Q; apply D in Q; congruence).
        zb; split; try lia; congruence.
    + cbv zeta in *. split; [rewrite A; unfold st1; cbn [ins_spec lo]; lia|]. split.
      * rewrite B. destruct s as [|y s0]; [unfold st1; cbn [last_opt ins_spec hi]; lia|].
        change (last_opt (x :: y :: s0)) with (last_opt (y :: s0)).
        destruct (last_opt (y :: s0)) eqn:El; [reflexivity|]. apply last_opt_none in El. discriminate.
      * split; [exact Dm|]. intros h. rewrite P, D1. cbn [map rows_at row_of]. unfold at_sr.
        destruct (pm st h); cbn [orelse]; [reflexivity|]. destruct (in_range (rs x) (re x) h); reflexivity.
Qed.

Lemma fold_covered ops : forall st h, pm st h <> None -> pm (fold_spec st ops) h <> None.
Proof.
  induction ops as [|[[[s e] p] f] ops IH]; intros st h E; [exact E|]. cbn [fold_spec]. apply IH.
  cbn [ins_spec pm]. destruct (in_range s e h); [discriminate|]. destruct (pm st h); [discriminate|congruence].
Qed.

Lemma fold_lo_ge ops m : forall st, m <= lo st -> (forall o, In o ops -> m <= fst (fst (fst o))) -> m <= lo (fold_spec st ops).
Proof.
  induction ops as [|[[[s e] p] f] ops IH]; intros st L H; [exact L|]. cbn [fold_spec]. apply IH.
  - cbn [ins_spec lo]. pose proof (H _ (or_introl eq_refl)) as H0. cbn [fst snd] in H0. lia.
  - intros; apply H; right; assumption.
Qed.
Lemma fold_hi_le ops m : forall st, hi st <= m -> (forall o, In o ops -> snd (fst (fst o)) <= m) -> hi (fold_spec st ops) <= m.
Proof.
  induction ops as [|[[[s e] p] f] ops IH]; intros st L H; [exact L|]. cbn [fold_spec]. apply IH.
  - cbn [ins_spec hi]. pose proof (H _ (or_introl eq_refl)) as H0. cbn [fst snd] in H0. lia.
  - intros; apply H; right; assumption.
Qed.
Lemma fold_lo_le ops : forall st, lo (fold_spec st ops) <= lo st.
Proof.
  induction ops as [|[[[s e] p] f] ops IH]; intros st; [cbn [fold_spec]; lia|]. cbn [fold_spec].
  specialize (IH (ins_spec st s e p f)). cbn [ins_spec lo] in IH. lia.
Qed.
Lemma fold_hi_ge ops : forall st, hi st <= hi (fold_spec st ops).
Proof.
  induction ops as [|[[[s e] p] f] ops IH]; intros st; [cbn [fold_spec]; lia|]. cbn [fold_spec].
  specialize (IH (ins_spec st s e p f)). cbn [ins_spec hi] in IH. lia.
Qed.

Lemma rows_lo_hd v : rows_lo (map row_of v) = option_map rs (hd_opt v).
Proof. destruct v; reflexivity. Qed.
Lemma rows_hi_last v : rows_hi (map row_of v) = option_map re (last_opt v).
Proof.
  induction v as [|a v IH]; [reflexivity|]. cbn [map row_of]. destruct v as [|b v]; [reflexivity|].
  change (last_opt (a :: b :: v)) with (last_opt (b :: v)). rewrite <- IH. reflexivity.
Qed.

Lemma chain_hd_le v v1 : chain v -> hd_opt v = Some v1 -> forall y, In y v -> rs v1 <= rs y.
Proof.
  destruct v as [|a v]; [discriminate|]. intros C [= <-] y [<-|I]; [lia|].
  pose proof (chain_lower _ _ C y I). destruct (chain_cons_inv _ _ C) as (N & _). unfold nonempty in N. lia.
Qed.
Lemma chain_last_ge v : forall vl, chain v -> last_opt v = Some vl -> forall y, In y v -> re y <= re vl.
Proof.
  induction v as [|a v IH]; intros vl C L y I; [destruct I|].
  destruct (chain_cons_inv _ _ C) as (N & C' & _). destruct v as [|b v].
  - cbn in L. injection L as <-. destruct I as [<-|[]]. lia.
  - change (last_opt (a :: b :: v)) with (last_opt (b :: v)) in L. destruct I as [<-|I]; [|eapply IH; eauto].
    assert (Il : In vl (b :: v)) by (apply last_opt_in; exact L).
    pose proof (chain_lower _ _ C vl Il). pose proof (chain_nonempty _ C' vl Il). unfold nonempty in *. lia.
Qed.

Lemma rows_at_first v v1 : chain v -> hd_opt v = Some v1 -> rows_at (map row_of v) (rs v1) = Some (rp v1).
Proof.
  destruct v as [|a v]; [discriminate|]. intros C [= <-]. destruct (chain_cons_inv _ _ C) as (N & _). unfold nonempty in N.
  cbn [map row_of rows_at]. unfold in_range. zb; try lia. reflexivity.
Qed.
Lemma rows_at_last v vl : chain v -> last_opt v = Some vl -> rows_at (map row_of v) (re vl - 1) = Some (rp vl).
Proof.
  intros C L. apply (rows_at_covers v C). exists vl. split; [apply last_opt_in; exact L|].
  assert (N : nonempty vl) by (apply (chain_nonempty _ C); apply last_opt_in; exact L). unfold nonempty in N.
  unfold at_sr, in_range. zb; try lia. reflexivity.
Qed.

Lemma last_opt_app2 l1 l2 : l2 <> [] -> last_opt (l1 ++ l2) = last_opt l2.
Proof.
  intros NE. induction l1 as [|a l1 IH]; [reflexivity|]. cbn [app last_opt].
  destruct (l1 ++ l2) eqn:E; [destruct l1; [cbn in E; congruence|discriminate]|exact IH].
Qed.
Lemma hd_opt_app l1 l2 : l1 <> [] -> hd_opt (l1 ++ l2) = hd_opt l1.
Proof. destruct l1; [congruence|reflexivity]. Qed.

Definition within (qs qe : Z) (r : sr) : Prop := qs <= rs r /\ re r <= qe.
Definition entry_ops (f : bool) (entries : list sr) : list (row * bool) := map (fun r => op_row (r, f)) entries.
Definition seg_state (s : list sr) : pstate :=
  PS (match hd_opt s with Some x => rs x | None => 0 end)
     (match last_opt s with Some x => re x | None => 0 end)
     (rows_at (map row_of s)).

Lemma fold_spec_app_q a b : forall st, fold_spec st (a ++ b) = fold_spec (fold_spec st a) b.
Proof. induction a as [|[[[s e] p] f] a IH]; intros st; cbn [app fold_spec]; auto. Qed.

(** *** replace_queue_entries when the query selects at least one row *)
Lemma replace_sel qs qe f b r0 s' a es tl :
  chain (b ++ (r0 :: s') ++ a) -> qs <= qe ->
  (forall r, In r b -> re r < qs) ->
  (forall r, In r (r0 :: s') -> rs r <= qe /\ qs <= re r) ->
  (forall r, In r a -> qe < rs r) ->
  Forall nonempty es -> Forall emptyr tl -> Forall (within qs qe) (es ++ tl) ->
  exists v, replace_queue_entries (b ++ (r0 :: s') ++ a) qs qe (es ++ tl) f = Ok (b ++ v ++ a) /\
    chain (b ++ v ++ a) /\ chain v /\ v <> [] /\
    let S := fold_spec (seg_state (r0 :: s')) (entry_ops f (es ++ tl)) in
    rows_lo (map row_of v) = Some (lo S) /\ rows_hi (map row_of v) = Some (hi S) /\
    forall h, rows_at (map row_of v) h = pm S h.
Proof.
  intros C L Hb Hs Ha Nes Vl W.
  set (s := r0 :: s') in *.
  destruct (filters_of_split qs qe b s a C Hb Hs Ha) as (F1 & F2).
  destruct (chain_app_inv _ _ C) as (Cb & Csa). destruct (chain_app_inv _ _ Csa) as (Cs & Ca).
  pose proof (chain_nonempty _ C) as NEq.
  unfold replace_queue_entries. rewrite F1, (sort_end_chain s Cs), F2.
  unfold s at 1. cbn [app fold_tree]. rewrite fold_tree_some.
  (* the insertions *)
  assert (Ns' : Forall (fun o : sr * bool => nonempty (fst o)) (map (fun r => (r, f)) (s' ++ es))).
  { apply Forall_forall. intros o Io. apply in_map_iff in Io. destruct Io as (r & <- & Ir). cbn [fst].
    apply in_app_or in Ir. destruct Ir as [Ir|Ir].
    - apply (chain_nonempty _ Cs). right. exact Ir.
    - rewrite Forall_forall in Nes. auto. }
  assert (N0 : wf (Leaf r0)) by (cbn [wf]; apply (chain_nonempty _ Cs); left; reflexivity).
  replace (map (fun r => (r, f)) (s' ++ es ++ tl)) with (map (fun r => (r, f)) (s' ++ es) ++ map (fun r => (r, f)) tl)
    by (rewrite (app_assoc s' es tl), (map_app _ (s' ++ es) tl); reflexivity).
  assert (Ntl : Forall (fun o : sr * bool => emptyr (fst o)) (map (fun r => (r, f)) tl)).
  { apply Forall_forall. intros o Io. apply in_map_iff in Io. destruct Io as (r & <- & Ir). cbn [fst].
    rewrite Forall_forall in Vl. auto. }
  destruct (tinsert_all_tail_spec _ _ (Leaf r0) N0 Ns' Ntl) as (t & -> & Wt & St).
  destruct (into_vec_spec t Wt) as (v & -> & Cv & Pv & Bv). cbn [of_opt bind].
  fold (chain v) in Cv.
  (* the specification state *)
  set (S := fold_spec (seg_state s) (entry_ops f (es ++ tl))).
  assert (ES : st_eq (st_of t) S).
  { eapply st_eq_trans; [exact St|]. unfold S, entry_ops.
    replace (map op_row (map (fun r => (r, f)) (s' ++ es) ++ map (fun r => (r, f)) tl))
      with (map (fun r => op_row (r, f)) s' ++ map (fun r => op_row (r, f)) (es ++ tl)).
    2:{ rewrite !map_app, !map_map. rewrite <- app_assoc. reflexivity. }
    rewrite fold_spec_app_q. apply fold_spec_ext.
    destruct (chain_cons_inv _ _ Cs) as (Nr0 & Cs' & J). unfold nonempty in Nr0.
    destruct (fold_chain f s' (st_of (Leaf r0)) Cs') as (A & B & _ & P).
    - intros x Hx. cbn [st_of hi span_e]. destruct s' as [|y s'']; [discriminate|]. cbn in Hx. injection Hx as <-. destruct J; assumption.
    - cbn [st_of lo hi span_s span_e]. lia.
    - intros h. cbn [st_of lo hi pm span_s span_e at_tree]. unfold at_sr, in_range. zb; split; try lia; congruence.
    - cbv zeta in *. unfold st_eq, seg_state. cbn [lo hi pm]. unfold s.
      split; [rewrite A; reflexivity|]. split.
      + rewrite B. cbn [st_of hi span_e]. destruct s' as [|y s'']; [reflexivity|].
        change (last_opt (r0 :: y :: s'')) with (last_opt (y :: s'')). destruct (last_opt (y :: s'')) eqn:El; [reflexivity|]. apply last_opt_none in El. discriminate.
      + intros h. rewrite P. cbn [st_of pm at_tree map rows_at row_of]. unfold at_sr.
        destruct (in_range (rs r0) (re r0) h); reflexivity. }
  destruct ES as (ELo & EHi & EPm). cbn [st_of lo hi pm] in ELo, EHi, EPm.
  (* S1 = the selected rows *)
  assert (Nr0 : rs r0 < re r0) by (apply (chain_nonempty _ Cs); left; reflexivity).
  assert (P0 : forall h c, rows_at (map row_of s) h = Some c ->
                 (forall e, In e (es ++ tl) -> in_range (rs e) (re e) h = false) -> pm S h = Some c).
  { intros h c E H. unfold S. apply fold_keep; [exact E|]. intros o Io. unfold entry_ops in Io.
    apply in_map_iff in Io. destruct Io as (e & <- & Ie). cbn [op_row fst row_of row_in]. auto. }
  assert (Vne : v <> []).
  { intros ->. specialize (Pv (rs r0)). cbn [map rows_at] in Pv. rewrite EPm in Pv.
    assert (pm S (rs r0) <> None); [|congruence].
    unfold S. apply fold_covered. unfold seg_state, s. cbn [pm map rows_at row_of]. unfold in_range. zb; try lia. discriminate. }
  destruct (Bv Vne) as (BLo & BHi). rewrite ELo in BLo. rewrite EHi in BHi.
  rewrite Forall_forall in W.
  assert (LoS : lo S <= rs r0) by (unfold S; etransitivity; [apply fold_lo_le|]; unfold seg_state, s; cbn; lia).
  assert (HiS : match last_opt s with Some x => re x | None => 0 end <= hi S)
    by (unfold S; etransitivity; [|apply fold_hi_ge]; unfold seg_state; cbn [hi]; lia).
  assert (LoGe : forall m, m <= rs r0 -> m <= qs -> m <= lo S).
  { intros m M1 M2. unfold S. apply fold_lo_ge; [unfold seg_state, s; cbn; lia|].
    intros o Io. unfold entry_ops in Io. apply in_map_iff in Io. destruct Io as (e & <- & Ie). cbn. destruct (W e Ie). lia. }
  assert (HiLe : forall m, match last_opt s with Some x => re x | None => 0 end <= m -> qe <= m -> hi S <= m).
  { intros m M1 M2. unfold S. apply fold_hi_le; [unfold seg_state; cbn [hi]; lia|].
    intros o Io. unfold entry_ops in Io. apply in_map_iff in Io. destruct Io as (e & <- & Ie). cbn. destruct (W e Ie). lia. }
  rewrite rows_lo_hd in BLo. rewrite rows_hi_last in BHi.
  destruct (hd_opt v) as [v1|] eqn:Hv1; [|discriminate]. destruct (last_opt v) as [vl|] eqn:Hvl; [|discriminate].
  cbn [option_map] in BLo, BHi. injection BLo as BLo. injection BHi as BHi.
  destruct (last_opt s) as [rl|] eqn:Hrl; [|apply last_opt_none in Hrl; discriminate].
  (* the new rows fit between the untouched ones *)
  assert (Ob : forall x y, In x b -> In y v -> re x <= rs y).
  { intros x y Ix Iy. pose proof (chain_hd_le v v1 Cv Hv1 y Iy).
    assert (re x <= lo S); [|lia]. apply LoGe.
    - apply (chain_app_order _ _ C x r0 Ix). apply in_or_app. left. left. reflexivity.
    - pose proof (Hb x Ix). lia. }
  assert (Oa : forall y x, In y v -> In x a -> re y <= rs x).
  { intros y x Iy Ix. pose proof (chain_last_ge v vl Cv Hvl y Iy).
    assert (hi S <= rs x); [|lia]. apply HiLe.
    - apply (chain_app_order _ _ Csa rl x); [apply last_opt_in; exact Hrl|exact Ix].
    - pose proof (Ha x Ix). lia. }
  rewrite (insert_mid v b a Cv Ob).
  2:{ intros x Ix. apply NEq. apply in_or_app. left. exact Ix. }
  2:{ exact Oa. }
  2:{ intros x Ix. apply NEq. apply in_or_app. right. apply in_or_app. right. exact Ix. }
  exists v. split; [reflexivity|]. split; [|split; [exact Cv|split; [exact Vne|]]].
  - (* the junctions *)
    apply chain_app; [exact Cb| |].
    + apply chain_app; [exact Cv|exact Ca|].
      intros x z Lx Hz. rewrite Hvl in Lx. injection Lx as <-.
      assert (Iz : In z a) by (apply hd_opt_in; exact Hz).
      assert (J : re rl = rs z /\ rp rl <> rp z).
      { apply (chain_junction s a Csa); assumption. }
      destruct J as (J1 & J2).
      assert (E1 : hi S = re rl).
      { apply Z.le_antisymm; [|exact HiS]. apply HiLe; [lia|]. pose proof (Ha z Iz). lia. }
      split; [lia|].
      assert (Nvl : rs vl < re vl) by (apply (chain_nonempty _ Cv); apply last_opt_in; exact Hvl).
      pose proof (rows_at_last v vl Cv Hvl) as R1. rewrite Pv, EPm in R1.
      assert (R2 : pm S (re vl - 1) = Some (rp rl)).
      { apply P0.
        - replace (re vl - 1) with (re rl - 1) by lia. apply rows_at_last; assumption.
        - intros e Ie. destruct (W e Ie). pose proof (Ha z Iz). unfold in_range. lia. }
      congruence.
    + intros x y Lx Hy. rewrite hd_opt_app in Hy by exact Vne. rewrite Hv1 in Hy. injection Hy as <-.
      assert (Ix : In x b) by (apply last_opt_in; exact Lx).
      assert (J : re x = rs r0 /\ rp x <> rp r0).
      { apply (chain_junction b (s ++ a) C); [exact Lx|reflexivity]. }
      destruct J as (J1 & J2).
      assert (E1 : lo S = rs r0).
      { apply Z.le_antisymm; [exact LoS|]. apply LoGe; [lia|]. pose proof (Hb x Ix). lia. }
      split; [lia|].
      pose proof (rows_at_first v v1 Cv Hv1) as R1. rewrite Pv, EPm in R1.
      assert (R2 : pm S (rs v1) = Some (rp r0)).
      { apply P0.
        - replace (rs v1) with (rs r0) by lia. apply (rows_at_first s r0 Cs). reflexivity.
        - intros e Ie. destruct (W e Ie). pose proof (Hb x Ix). unfold in_range. lia. }
      congruence.
  - cbv zeta. fold S. rewrite rows_lo_hd, rows_hi_last, Hv1, Hvl. cbn [option_map].
    split; [congruence|]. split; [congruence|]. intros h. rewrite Pv. apply EPm.
Qed.

(** *** pointwise meaning of concatenations *)
Lemma rows_at_app l1 l2 h :
  rows_at (map row_of (l1 ++ l2)) h = orelse (rows_at (map row_of l1) h) (rows_at (map row_of l2) h).
Proof.
  induction l1 as [|a l1 IH]; [reflexivity|]. cbn [app map rows_at row_of].
  destruct (in_range (rs a) (re a) h); [reflexivity|exact IH].
Qed.

Lemma rows_at_none v h : (forall y, In y v -> in_range (rs y) (re y) h = false) -> rows_at (map row_of v) h = None.
Proof.
  induction v as [|a v IH]; intros H; [reflexivity|]. cbn [map rows_at row_of].
  rewrite (H a (or_introl eq_refl)). apply IH. intros; apply H; right; assumption.
Qed.

Lemma chain_covered v : forall v1 vl h, chain v -> hd_opt v = Some v1 -> last_opt v = Some vl ->
  rs v1 <= h < re vl -> rows_at (map row_of v) h <> None.
Proof.
  induction v as [|a v IH]; intros v1 vl h C H L R; [discriminate|].
  cbn in H. injection H as <-. destruct (chain_cons_inv _ _ C) as (N & C' & J).
  cbn [map rows_at row_of]. destruct (in_range (rs a) (re a) h) eqn:E; [discriminate|].
  destruct v as [|b v].
  - cbn in L. injection L as <-. unfold in_range in E. lia.
  - change (last_opt (a :: b :: v)) with (last_opt (b :: v)) in L. destruct J as (J & _).
    apply (IH b vl h C' eq_refl L). unfold in_range in E. lia.
Qed.

Lemma chain_outside v v1 vl h : chain v -> hd_opt v = Some v1 -> last_opt v = Some vl ->
  ~ (rs v1 <= h < re vl) -> rows_at (map row_of v) h = None.
Proof.
  intros C H L R. apply rows_at_none. intros y I.
  pose proof (chain_hd_le v v1 C H y I). pose proof (chain_last_ge v vl C L y I). unfold in_range. lia.
Qed.

(** *** the general statement: a query that selects at least one row *)
Definition touches (q : list sr) (qs qe : Z) : Prop := exists r, In r q /\ rs r <= qe /\ qs <= re r.

Definition replace_state (q : list sr) (qs qe : Z) (entries : list sr) (f : bool) : pstate :=
  fold_spec (seg_state (filter (selp qs qe) q)) (entry_ops f entries).

Lemma replace_touching_g q qs qe es tl f :
  chain q -> qs <= qe -> touches q qs qe ->
  Forall nonempty es -> Forall emptyr tl -> Forall (within qs qe) (es ++ tl) ->
  exists q', replace_queue_entries q qs qe (es ++ tl) f = Ok q' /\ chain q' /\ q' <> [] /\
    let S := replace_state q qs qe (es ++ tl) f in
    (forall h, rows_at (map row_of q') h = if in_range (lo S) (hi S) h then pm S h else rows_at (map row_of q) h) /\
    (forall h, in_range (lo S) (hi S) h = true ->
               rows_at (map row_of q) h = rows_at (map row_of (filter (selp qs qe) q)) h).
Proof.
  intros C L (r & Ir & R1 & R2) Nes Vl W.
  destruct (split3 qs qe q C L) as (b & s & a & -> & Hb & Hs & Ha).
  destruct s as [|r0 s'].
  { exfalso. cbn [app] in *. apply in_app_or in Ir. destruct Ir as [I|I]; [pose proof (Hb r I)|pose proof (Ha r I)]; lia. }
  destruct (replace_sel qs qe f b r0 s' a es tl C L Hb Hs Ha Nes Vl W) as (v & E & Cq' & Cv & Vne & BLo & BHi & Pv).
  exists (b ++ v ++ a). split; [exact E|]. split; [exact Cq'|]. split; [destruct b; [destruct v; [congruence|discriminate]|discriminate]|].
  unfold replace_state. destruct (filters_of_split qs qe b (r0 :: s') a C Hb Hs Ha) as (F1 & _). rewrite F1.
  set (S := fold_spec (seg_state (r0 :: s')) (entry_ops f (es ++ tl))) in *. cbv zeta in *.
  rewrite rows_lo_hd in BLo. rewrite rows_hi_last in BHi.
  destruct (hd_opt v) as [v1|] eqn:Hv1; [|discriminate]. destruct (last_opt v) as [vl|] eqn:Hvl; [|discriminate].
  cbn [option_map] in BLo, BHi. injection BLo as BLo. injection BHi as BHi.
  destruct (chain_app_inv _ _ C) as (Cb & Csa). destruct (chain_app_inv _ _ Csa) as (Cs & Ca).
  destruct (chain_app_inv _ _ Cq') as (_ & Cva).
  pose proof (chain_app_order _ _ Cq') as Obv. pose proof (chain_app_order _ _ Cva) as Ova.
  pose proof (chain_app_order _ _ C) as Obs. pose proof (chain_app_order _ _ Csa) as Osa.
  destruct (last_opt (r0 :: s')) as [rl|] eqn:Hrl; [|apply last_opt_none in Hrl; discriminate].
  assert (LoS : lo S <= rs r0) by (unfold S; etransitivity; [apply fold_lo_le|]; unfold seg_state; cbn; lia).
  assert (HiS : re rl <= hi S) by (unfold S; etransitivity; [|apply fold_hi_ge]; unfold seg_state; cbn [hi]; rewrite Hrl; lia).
  split.
  2:{ intros h Hin. unfold in_range in Hin. rewrite !rows_at_app.
      rewrite (rows_at_none b).
      2:{ intros y I. assert (re y <= rs v1) by (apply Obv; [exact I|apply in_or_app; left; apply hd_opt_in; exact Hv1]).
          unfold in_range. lia. }
      rewrite (rows_at_none a).
      2:{ intros y I. assert (re vl <= rs y) by (apply Ova; [apply last_opt_in; exact Hvl|exact I]).
          unfold in_range. lia. }
      cbn [orelse]. destruct (rows_at (map row_of (r0 :: s')) h); reflexivity. }
  intros h. rewrite !rows_at_app. unfold in_range.
  destruct (Z.leb_spec (lo S) h); destruct (Z.ltb_spec h (hi S)); cbn [andb].
  - (* inside the rebuilt segment *)
    rewrite (rows_at_none b).
    2:{ intros y I. assert (re y <= rs v1) by (apply Obv; [exact I|apply in_or_app; left; apply hd_opt_in; exact Hv1]).
        unfold in_range. lia. }
    cbn [orelse]. assert (rows_at (map row_of v) h <> None) by (apply (chain_covered v v1 vl h Cv Hv1 Hvl); lia).
    rewrite <- Pv. destruct (rows_at (map row_of v) h); [reflexivity|congruence].
  - rewrite (chain_outside v v1 vl h Cv Hv1 Hvl) by lia.
    rewrite (chain_outside (r0 :: s') r0 rl h Cs eq_refl Hrl) by lia. reflexivity.
  - rewrite (chain_outside v v1 vl h Cv Hv1 Hvl) by lia.
    rewrite (chain_outside (r0 :: s') r0 rl h Cs eq_refl Hrl) by lia. reflexivity.
  - rewrite (chain_outside v v1 vl h Cv Hv1 Hvl) by lia.
    rewrite (chain_outside (r0 :: s') r0 rl h Cs eq_refl Hrl) by lia. reflexivity.
Qed.

(** *** further pointwise consequences *)
Lemma dom_cases c p f : dom c p f = c \/ dom c p f = p.
Proof. destruct c, p, f; cbn; auto. Qed.

Lemma fold_no_new_ignored ops : forall st h,
  (forall o, In o ops -> snd (fst o) <> Ignored) ->
  pm (fold_spec st ops) h = Some Ignored -> pm st h = Some Ignored.
Proof.
  induction ops as [|[[[s e] p] f] ops IH]; intros st h H E; [exact E|]. cbn [fold_spec] in E.
  apply IH in E; [|intros; apply H; right; assumption].
  pose proof (H _ (or_introl eq_refl)) as Np. cbn [fst snd] in Np.
  cbn [ins_spec pm] in E. destruct (in_range s e h).
  - destruct (pm st h) as [c|]; [|congruence]. destruct (dom_cases c p f) as [D|D]; rewrite D in E; congruence.
  - destruct (pm st h) as [c|]; [exact E|]. destruct (in_range _ _ h); discriminate.
Qed.

Lemma fold_covers_entry ops : forall st o h, In o ops -> row_in (fst o) h = true -> pm (fold_spec st ops) h <> None.
Proof.
  induction ops as [|[[[s e] p] f] ops IH]; intros st o h I R; [destruct I|]. cbn [fold_spec]. destruct I as [<-|I].
  - apply fold_covered. cbn [fst row_in] in R. cbn [ins_spec pm]. rewrite R. discriminate.
  - eapply IH; eauto.
Qed.

Lemma fold_lo_le_entry_q ops : forall st o, In o ops -> lo (fold_spec st ops) <= fst (fst (fst o)).
Proof.
  induction ops as [|[[[s e] p] f] ops IH]; intros st o I; [destruct I|]. cbn [fold_spec]. destruct I as [<-|I].
  - cbn [fst]. etransitivity; [apply fold_lo_le|]. cbn [ins_spec lo]. lia.
  - apply IH. exact I.
Qed.
Lemma fold_hi_ge_entry_q ops : forall st o, In o ops -> snd (fst (fst o)) <= hi (fold_spec st ops).
Proof.
  induction ops as [|[[[s e] p] f] ops IH]; intros st o I; [destruct I|]. cbn [fold_spec]. destruct I as [<-|I].
  - cbn [fst snd]. etransitivity; [|apply fold_hi_ge]. cbn [ins_spec hi]. lia.
  - apply IH. exact I.
Qed.

Lemma replace_touching_facts_g q qs qe es tl f :
  chain q -> qs <= qe -> touches q qs qe ->
  Forall nonempty es -> Forall emptyr tl -> Forall (within qs qe) (es ++ tl) ->
  exists q', replace_queue_entries q qs qe (es ++ tl) f = Ok q' /\ chain q' /\ q' <> [] /\
    let S := replace_state q qs qe (es ++ tl) f in
    (forall h, rows_at (map row_of q') h = if in_range (lo S) (hi S) h then pm S h else rows_at (map row_of q) h) /\
    (forall h, in_range (lo S) (hi S) h = true ->
               rows_at (map row_of q) h = rows_at (map row_of (filter (selp qs qe) q)) h) /\
    (forall h, rows_at (map row_of q) h <> None -> rows_at (map row_of q') h <> None) /\
    (forall e h, In e (es ++ tl) -> in_range (rs e) (re e) h = true -> rows_at (map row_of q') h <> None) /\
    ((forall e, In e (es ++ tl) -> rp e <> Ignored) ->
     forall h, rows_at (map row_of q') h = Some Ignored -> rows_at (map row_of q) h = Some Ignored).
Proof.
  intros C L T Nes Vl W.
  destruct (replace_touching_g q qs qe es tl f C L T Nes Vl W) as (q' & E & Cq' & NE & P & P2).
  exists q'. split; [exact E|]. split; [exact Cq'|]. split; [exact NE|]. cbv zeta in *.
  set (S := replace_state q qs qe (es ++ tl) f) in *.
  split; [exact P|]. split; [exact P2|]. split; [|split].
  - intros h Hc. rewrite P. destruct (in_range (lo S) (hi S) h) eqn:In; [|exact Hc].
    rewrite (P2 h In) in Hc. unfold S, replace_state. apply fold_covered. exact Hc.
  - intros e h Ie Re.
    assert (Ic : pm S h <> None).
    { unfold S, replace_state. apply (fold_covers_entry _ _ (op_row (e, f))); [unfold entry_ops; apply (in_map (fun r => op_row (r, f))); exact Ie|].
      cbn [op_row fst row_of row_in]. exact Re. }
    rewrite P. destruct (in_range (lo S) (hi S) h) eqn:In; [exact Ic|]. exfalso.
    assert (lo S <= rs e).
    { unfold S, replace_state. apply (fold_lo_le_entry_q _ _ (op_row (e, f))). unfold entry_ops. apply (in_map (fun r => op_row (r, f))). exact Ie. }
    assert (re e <= hi S).
    { unfold S, replace_state. apply (fold_hi_ge_entry_q _ _ (op_row (e, f))). unfold entry_ops. apply (in_map (fun r => op_row (r, f))). exact Ie. }
    unfold in_range in *. lia.
  - intros NI h Hi. rewrite P in Hi. destruct (in_range (lo S) (hi S) h) eqn:In; [|exact Hi].
    rewrite (P2 h In). unfold S, replace_state in Hi. apply fold_no_new_ignored in Hi; [exact Hi|].
    intros o Io. unfold entry_ops in Io. apply in_map_iff in Io. destruct Io as (e & <- & Ie). cbn. apply NI. exact Ie.
Qed.

(** the form used by the wallet: all entries non-empty except possibly the last *)
Lemma last_split es l : Forall nonempty es -> valid l ->
  exists es' tl, es ++ [l] = es' ++ tl /\ Forall nonempty es' /\ Forall emptyr tl.
Proof.
  intros N V. destruct (Z_lt_le_dec (rs l) (re l)) as [Ne|Em].
  - exists (es ++ [l]), []. rewrite app_nil_r. split; [reflexivity|]. split; [|constructor].
    apply Forall_app. split; [exact N|]. constructor; [exact Ne|constructor].
  - exists es, [l]. split; [reflexivity|]. split; [exact N|]. constructor; [unfold emptyr, valid in *; lia|constructor].
Qed.

Lemma replace_touching_facts q qs qe es l f :
  chain q -> qs <= qe -> touches q qs qe ->
  Forall nonempty es -> valid l -> Forall (within qs qe) (es ++ [l]) ->
  exists q', replace_queue_entries q qs qe (es ++ [l]) f = Ok q' /\ chain q' /\ q' <> [] /\
    let S := replace_state q qs qe (es ++ [l]) f in
    (forall h, rows_at (map row_of q') h = if in_range (lo S) (hi S) h then pm S h else rows_at (map row_of q) h) /\
    (forall h, in_range (lo S) (hi S) h = true ->
               rows_at (map row_of q) h = rows_at (map row_of (filter (selp qs qe) q)) h) /\
    (forall h, rows_at (map row_of q) h <> None -> rows_at (map row_of q') h <> None) /\
    (forall e h, In e (es ++ [l]) -> in_range (rs e) (re e) h = true -> rows_at (map row_of q') h <> None) /\
    ((forall e, In e (es ++ [l]) -> rp e <> Ignored) ->
     forall h, rows_at (map row_of q') h = Some Ignored -> rows_at (map row_of q) h = Some Ignored).
Proof.
  intros C L T Nes Vl W. destruct (last_split es l Nes Vl) as (es' & tl & E & N' & Etl). rewrite E in *.
  apply replace_touching_facts_g; assumption.
Qed.

Lemma replace_touching q qs qe es l f :
  chain q -> qs <= qe -> touches q qs qe ->
  Forall nonempty es -> valid l -> Forall (within qs qe) (es ++ [l]) ->
  exists q', replace_queue_entries q qs qe (es ++ [l]) f = Ok q' /\ chain q' /\ q' <> [] /\
    let S := replace_state q qs qe (es ++ [l]) f in
    (forall h, rows_at (map row_of q') h = if in_range (lo S) (hi S) h then pm S h else rows_at (map row_of q) h) /\
    (forall h, in_range (lo S) (hi S) h = true ->
               rows_at (map row_of q) h = rows_at (map row_of (filter (selp qs qe) q)) h).
Proof.
  intros C L T Nes Vl W. destruct (last_split es l Nes Vl) as (es' & tl & E & N' & Etl). rewrite E in *.
  apply replace_touching_g; assumption.
Qed.
