(** C15 part B — rewind_to_chain_state (also the tail of add_account) on a canonical queue. *)
From V.Lib Require Import Base.
From V.Gen Require Import C15Tables.
From V.C15 Require Import Model Spec Sem QModel Proofs ProofsTree ProofsVec ProofsSeq ProofsCanon ProofsEmpty QProofs QProofsOps QProofsTerm.
From Coq Require Import ZifyBool.
Local Open Scope Z_scope.

Lemma max_end_ge x r : forall y, In y (x :: r) -> re y <= fold_right (fun y a => Z.max (re y) a) (re x) r.
Proof.
  induction r as [|z r IH]; intros y I; cbn [fold_right].
  - destruct I as [<-|[]]. lia.
  - destruct I as [<-|[<-|I]]; [pose proof (IH x (or_introl eq_refl)); lia|lia|pose proof (IH y (or_intror I)); lia].
Qed.

Lemma trim_in q mh r : In r q -> rs r < hadd mh 1 ->
  In (if re r >? hadd mh 1 then R (rs r) (hadd mh 1) (rp r) else r) (trim_scan_queue_to q mh).
Proof.
  intros I L. unfold trim_scan_queue_to.
  apply (in_map (fun r => if re r >? hadd mh 1 then R (rs r) (hadd mh 1) (rp r) else r)).
  apply filter_In. split; [exact I|]. rewrite Z.geb_leb. apply negb_true_iff. apply Z.leb_gt. exact L.
Qed.

(** forcing a Historic range: inside it nothing is Scanned afterwards, outside the Scanned heights
    are untouched *)
Lemma ins_historic_forced st s e h :
  (pm (ins_spec st s e Historic true) h = Some Scanned <-> pm st h = Some Scanned /\ in_range s e h = false).
Proof.
  cbn [ins_spec pm]. destruct (in_range s e h).
  - destruct (pm st h) as [c|]; [destruct c; cbn|]; split; try discriminate; intros (? & ?); discriminate.
  - destruct (pm st h) as [c|]; [tauto|]. destruct (in_range _ _ h); split; try discriminate; intros (? & _); discriminate.
Qed.

(** [trunc] is the height the wallet data is truncated to when the target is below the max
    scanned block; [t] the chain tip recorded by the queue *)
Lemma rewind_spec c q target floor t :
  chain q -> chain_tip_height q = Some t -> (forall r, In r q -> 0 <= rs r) ->
  0 <= target < t -> t < u32_max ->
  let trimming := match max_scanned c with Some ms => target <? ms | None => false end in
  let trunc := match max_scanned c with
               | Some ms => match floor with Some f => f | None => hsub ms (PRUNING_DEPTH - 1) end
               | None => 0 end in
  (trimming = true -> target <= trunc < u32_max) ->
  (exists r, In r q /\ rs r <= target + 1 <= re r /\ (trimming = true -> rs r <= trunc)) ->
  exists q', rewind_to_chain_state c q target floor = Ok q' /\ chain q' /\
    (forall h, scanned_at q' h <-> scanned_at q h /\ h <= target).
Proof.
  intros C CT POS (T0 & T1) TU trimming trunc TR (r & Ir & (R1 & R2) & R3).
  unfold rewind_to_chain_state. rewrite CT. destruct (Z.ltb_spec target t); [|lia].
  assert (H1 : hadd target 1 = target + 1) by (unfold hadd; lia).
  assert (H2 : hadd t 1 = t + 1) by (unfold hadd; lia).
  rewrite H1, H2. unfold from_parts. rewrite Z.geb_leb. destruct (Z.leb_spec (target + 1) (t + 1)); [|lia]. cbn [of_opt bind].
  (* every stored row ends at or below t + 1 *)
  assert (ENDS : forall y, In y q -> re y <= t + 1).
  { unfold chain_tip_height in CT. destruct q as [|x q0]; [discriminate|]. injection CT as CT. intros y Iy.
    pose proof (max_end_ge x q0 y Iy). unfold hsub in CT.
    pose proof (chain_nonempty _ C y Iy) as Ny. unfold nonempty in Ny. pose proof (POS y Iy). lia. }
  set (q1 := match max_scanned c with
             | Some ms => if target <? ms then trim_scan_queue_to q (match floor with Some f => f | None => hsub ms (PRUNING_DEPTH - 1) end) else q
             | None => q end).
  (* q1 is canonical, contains (a clamped copy of) the touching row, and relates pointwise to q *)
  assert (Q1 : chain q1 /\ touches q1 (target + 1) (t + 1) /\
               (forall h, scanned_at q1 h <-> scanned_at q h /\ (trimming = true -> h <= trunc))).
  { unfold q1, trimming, trunc in *. destruct (max_scanned c) as [ms|].
    - destruct (Z.ltb_spec target ms).
      + specialize (TR eq_refl). specialize (R3 eq_refl).
        set (tr := match floor with Some f => f | None => hsub ms (PRUNING_DEPTH - 1) end) in *.
        destruct (trim_spec q tr C) as (C1 & P1); [lia|]. split; [exact C1|]. split.
        * assert (HA : hadd tr 1 = tr + 1) by (unfold hadd; lia).
          pose proof (trim_in q tr r Ir) as TI. rewrite HA in TI.
          eexists. split; [apply TI; lia|]. destruct (re r >? tr + 1) eqn:G; cbn [rs re]; pose proof (ENDS r Ir); lia.
        * intros h. unfold scanned_at. rewrite P1. replace (Z.min tr (u32_max - 1)) with tr by lia.
          destruct (Z.leb_spec h tr); split; try tauto; try (intros (? & ?); tauto); try discriminate.
          intros (_ & X). specialize (X eq_refl). lia.
      + split; [exact C|]. split; [exists r; split; [exact Ir|]; pose proof (ENDS r Ir); lia|].
        intros h. split; [intros X; split; [exact X|discriminate]|tauto].
    - split; [exact C|]. split; [exists r; split; [exact Ir|]; pose proof (ENDS r Ir); lia|].
      intros h. split; [intros X; split; [exact X|discriminate]|tauto]. }
  destruct Q1 as (C1 & TO & S1). fold q1.
  destruct (replace_touching_facts_g q1 (target + 1) (t + 1) [R (target + 1) (t + 1) Historic] [] true C1) as (q' & E & Cq & _ & P & P2 & _);
    try assumption; try lia.
  { constructor; [unfold nonempty; cbn; lia|constructor]. } { constructor. }
  { constructor; [unfold within; cbn; lia|constructor]. }
  cbn [app] in E. exists q'. split; [exact E|]. split; [exact Cq|].
  cbv zeta in P, P2. unfold replace_state, entry_ops in P, P2. cbn [app map fold_spec op_row fst snd row_of rs re rp] in P, P2.
  set (seg := seg_state (filter (selp (target + 1) (t + 1)) q1)) in *.
  intros h. unfold scanned_at at 1. rewrite P.
  destruct (in_range (lo (ins_spec seg (target + 1) (t + 1) Historic true)) (hi (ins_spec seg (target + 1) (t + 1) Historic true)) h) eqn:Hin.
  - rewrite ins_historic_forced. unfold seg at 1, seg_state. cbn [pm]. rewrite <- (P2 h Hin).
    fold (scanned_at q1 h). rewrite S1. unfold in_range.
    split.
    + intros ((A & B) & D). split; [exact A|]. unfold scanned_at in A. apply (rows_at_covers q C) in A.
      destruct A as (y & Iy & Ey). unfold at_sr in Ey. destruct (in_range (rs y) (re y) h) eqn:I2; [|discriminate].
      pose proof (ENDS y Iy). unfold in_range in I2. lia.
    + intros (A & B). split; [split; [exact A|]|lia]. intros Tm. specialize (TR Tm). lia.
  - (* outside the rebuilt interval, which contains (target, t] *)
    cbn [ins_spec lo hi] in Hin. fold (scanned_at q1 h). rewrite S1. unfold in_range in Hin.
    split.
    + intros (A & B). split; [exact A|]. unfold scanned_at in A. apply (rows_at_covers q C) in A.
      destruct A as (y & Iy & Ey). unfold at_sr in Ey. destruct (in_range (rs y) (re y) h) eqn:I2; [|discriminate].
      pose proof (ENDS y Iy). unfold in_range in I2. lia.
    + intros (A & B). split; [exact A|]. intros Tm. specialize (TR Tm). lia.
Qed.
