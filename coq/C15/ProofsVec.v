(** C15 — lemmas, part 3: [into_vec] produces the canonical queue of a (weakly) well-formed tree. *)
From V.Lib Require Import Base.
From V.Gen Require Import C15Tables.
From V.C15 Require Import Model Spec Sem Proofs ProofsTree.
From Coq Require Import ZifyBool.
Local Open Scope Z_scope.

(** the accumulator (a stack, top first) is a canonical queue read backwards *)
Fixpoint rchain (acc : list sr) : Prop :=
  match acc with
  | [] => True
  | b :: rest =>
      nonempty b /\
      match rest with [] => True | a :: _ => re a = rs b /\ rp a <> rp b end /\
      rchain rest
  end.

Definition covers (l : list sr) (h : Z) (p : prio) : Prop := exists r, In r l /\ at_sr r h = Some p.

Lemma covers_nil h p : ~ covers [] h p.
Proof. intros (r & [] & _). Qed.

Lemma covers_cons a l h p : covers (a :: l) h p <-> at_sr a h = Some p \/ covers l h p.
Proof.
  unfold covers. split.
  - intros (r & [<-|I] & E); eauto.
  - intros [E|(r & I & E)]; [exists a|exists r]; cbn [In]; auto.
Qed.

Lemma at_sr_empty r h : ~ nonempty r -> at_sr r h = None.
Proof. destruct r as [s e p]. unfold nonempty, at_sr, in_range. cbn [rs re]. intros. zb; try lia; reflexivity. Qed.

Lemma at_parent_iff ss se l r h p : wwf (Parent ss se l r) ->
  (at_tree (Parent ss se l r) h = Some p <-> at_tree l h = Some p \/ at_tree r h = Some p).
Proof.
  cbn [wwf at_tree]. intros (A & B & C & _ & _).
  pointwise l r A B h; rewrite ?El, ?Er; cbn [orelse]; try lia; intuition congruence.
Qed.

Lemma prio_eqb_neq a b : prio_eqb a b = false -> a <> b.
Proof. intros H ->. destruct b; discriminate. Qed.

Ltac split3 := split; [|split].
Ltac split4 := split; [|split; [|split]].

Definition pre_top (acc : list sr) (t : tree) : Prop :=
  match acc with [] => True | top :: _ => re top = span_s t end.
Definition post_top (acc acc' : list sr) (t : tree) : Prop :=
  match acc' with [] => acc = [] /\ span_s t = span_e t | top :: _ => re top = span_e t end.

Lemma into_vec_go_spec t : wwf t -> forall acc, rchain acc -> pre_top acc t ->
  exists acc', into_vec_go acc t = Some acc' /\ rchain acc' /\ post_top acc acc' t /\
    forall h p, covers acc' h p <-> covers acc h p \/ at_tree t h = Some p.
Proof.
  induction t as [entry|ss se l IHl r IHr]; intros W acc RC PT.
  - cbn [wwf] in W. cbn [into_vec_go]. unfold is_empty. destruct (Z.ltb_spec (rs entry) (re entry)); cbn [negb].
    + destruct acc as [|top rest].
      * exists [entry]. split4; cbn [rchain post_top span_e at_tree]; auto.
        intros h p. rewrite covers_cons. pose proof (covers_nil h p). tauto.
      * cbn [pre_top span_s] in PT. cbn [rchain] in RC. destruct RC as (N & HR & RC).
        unfold join_nonoverlapping. rewrite jnf_adj by (unfold valid, nonempty in *; lia).
        destruct (prio_eqb (rp top) (rp entry)) eqn:E; [apply prio_eqb_eq in E|apply prio_eqb_neq in E].
        -- eexists; split; [reflexivity|]. unfold nonempty in *.
           split3; cbn [rchain post_top span_e rs re rp]; auto; try lia.
           ++ split; [unfold nonempty; cbn [rs re]; lia|]. split; [exact HR|exact RC].
           ++ intros h p. rewrite !covers_cons. cbn [at_tree].
              destruct top as [ts te tp], entry as [s e q]. unfold at_sr, in_range. cbn [rs re rp] in *. subst.
              zb; try lia; intuition congruence.
        -- eexists; split; [reflexivity|]. unfold nonempty in *.
           split3; cbn [rchain post_top span_e rs re rp]; auto; try lia.
           intros h p. rewrite !covers_cons. cbn [at_tree]. tauto.
    + exists acc. split4; auto.
      * destruct acc; cbn [post_top pre_top span_s span_e] in *; [split; [reflexivity|lia]|lia].
      * intros h p. cbn [at_tree]. rewrite at_sr_empty by (unfold nonempty; lia). intuition congruence.
  - pose proof W as W0. cbn [wwf] in W. destruct W as (Wl & Wr & C & -> & ->). cbn [into_vec_go].
    destruct (IHl Wl acc RC) as (acc1 & -> & RC1 & PT1 & CV1).
    { destruct acc; cbn [pre_top span_s] in *; auto. }
    destruct (IHr Wr acc1 RC1) as (acc2 & -> & RC2 & PT2 & CV2).
    { destruct acc1; cbn [pre_top post_top] in *; auto. lia. }
    exists acc2. split4; auto.
    + destruct acc2; cbn [post_top span_s span_e] in *; auto.
      destruct PT2 as (-> & E2). cbn [post_top] in PT1. destruct PT1 as (-> & E1). split; [reflexivity|lia].
    + intros h p. rewrite CV2, CV1, (at_parent_iff _ _ l r h p W0). tauto.
Qed.

(** *** from the reversed accumulator to the canonical forward list *)
Lemma canonical_single b : nonempty b -> canonical (map row_of [b]).
Proof. unfold nonempty. cbn. tauto. Qed.

Lemma canonical_snoc l a b :
  canonical (map row_of (l ++ [a])) -> nonempty b -> re a = rs b -> rp a <> rp b ->
  canonical (map row_of (l ++ [a; b])).
Proof.
  unfold nonempty. induction l as [|c l IH]; intros Cn N E P.
  - cbn in *. tauto.
  - cbn [app map canonical row_of] in *. destruct Cn as (N1 & H & Cn). split; [exact N1|]. split; [|apply IH; assumption].
    destruct l; cbn [app map row_of] in *; exact H.
Qed.

Lemma rchain_canonical acc : rchain acc -> canonical (map row_of (rev acc)).
Proof.
  induction acc as [|b rest IH]; [cbn; tauto|].
  cbn [rchain]. intros (N & H & RC). cbn [rev]. destruct rest as [|a rest'].
  - apply canonical_single; assumption.
  - destruct H as (E & P). specialize (IH RC). cbn [rev] in *. rewrite <- app_assoc. cbn [app].
    apply canonical_snoc; assumption.
Qed.

Lemma canonical_lower a v : canonical (map row_of (a :: v)) -> forall r, In r v -> re a <= rs r.
Proof.
  revert a. induction v as [|b v IH]; intros a Cn r I; [destruct I|].
  cbn [map canonical row_of] in Cn. destruct Cn as (N & (E & P) & Cn).
  destruct I as [<-|I]; [lia|].
  assert (re b <= rs r) by (apply IH; [exact Cn|exact I]).
  cbn [map canonical row_of] in Cn. lia.
Qed.

Lemma rows_at_covers v : canonical (map row_of v) ->
  forall h p, rows_at (map row_of v) h = Some p <-> covers v h p.
Proof.
  induction v as [|a v IH]; intros Cn h p.
  - cbn. pose proof (covers_nil h p). split; [discriminate|tauto].
  - pose proof (canonical_lower a v Cn) as LO.
    cbn [map canonical row_of] in Cn. destruct Cn as (N & _ & Cn).
    cbn [map rows_at row_of]. rewrite covers_cons. unfold at_sr.
    destruct (in_range (rs a) (re a) h) eqn:I.
    + split; [auto|]. intros [E|(r & Ir & E)]; [exact E|].
      specialize (LO r Ir). unfold at_sr in E. destruct (in_range (rs r) (re r) h) eqn:I2; [|discriminate].
      unfold in_range in *. lia.
    + rewrite (IH Cn h p). split; [auto|]. intros [E|E]; [discriminate|exact E].
Qed.

Lemma covers_rev l h p : covers (rev l) h p <-> covers l h p.
Proof. unfold covers. split; intros (r & I & E); exists r; split; auto; [apply in_rev|apply -> in_rev]; assumption. Qed.

Lemma option_ext (a b : option prio) : (forall p, a = Some p <-> b = Some p) -> a = b.
Proof.
  intros H. destruct a as [x|], b as [y|]; auto.
  - apply H. reflexivity.
  - pose proof (proj1 (H x) eq_refl). discriminate.
  - pose proof (proj2 (H y) eq_refl). discriminate.
Qed.

Lemma rows_hi_snoc l s e p : rows_hi (l ++ [(s, e, p)]) = Some e.
Proof.
  induction l as [|[[a b] c] l IH]; [reflexivity|]. cbn [app].
  destruct (l ++ [(s, e, p)]) eqn:E; [destruct l; discriminate|]. rewrite <- IH. reflexivity.
Qed.

(** [into_vec] on a weakly well-formed tree: no panic, canonical, same pointwise meaning *)
Lemma into_vec_spec t : wwf t ->
  exists v, into_vec t = Some v /\ canonical (map row_of v) /\
    (forall h, rows_at (map row_of v) h = at_tree t h) /\
    (v <> [] -> rows_lo (map row_of v) = Some (span_s t) /\ rows_hi (map row_of v) = Some (span_e t)).
Proof.
  intros W. unfold into_vec.
  destruct (into_vec_go_spec t W [] I I) as (acc & -> & RC & PT & CV).
  exists (rev acc). pose proof (rchain_canonical acc RC) as Cn.
  split; [reflexivity|]. split; [exact Cn|]. split.
  - intros h. apply option_ext. intros p.
    rewrite (rows_at_covers _ Cn), covers_rev, CV. pose proof (covers_nil h p). tauto.
  - intros NE. split.
    + (* first row starts at span_s: the lowest covered height *)
      destruct (rev acc) as [|a v] eqn:E; [congruence|]. cbn [map rows_lo row_of]. f_equal.
      pose proof (canonical_lower a v Cn) as LO.
      cbn [map canonical row_of] in Cn. destruct Cn as (N & _ & _).
      assert (Ha : covers (a :: v) (rs a) (rp a)).
      { exists a. split; [left; reflexivity|]. unfold at_sr, in_range. zb; try lia; reflexivity. }
      rewrite <- E, covers_rev, CV in Ha. destruct Ha as [Ha|Ha]; [destruct (covers_nil _ _ Ha)|].
      destruct (at_cases t (rs a) W) as [(In1 & _)|(_ & E1)]; [|congruence].
      destruct (Z.eq_dec (span_s t) (rs a)) as [|NEq]; [congruence|].
      (* otherwise span_s t < rs a is covered by the tree but by no row *)
      destruct (at_cases t (span_s t) W) as [(_ & q & Eq)|(O & _)]; [|lia].
      assert (Hc : covers (a :: v) (span_s t) q).
      { rewrite <- E, covers_rev, CV. right; exact Eq. }
      destruct Hc as (r & [Ea|Ir] & Er); unfold at_sr in Er;
        destruct (in_range (rs r) (re r) (span_s t)) eqn:I2; try discriminate.
      * subst r. unfold in_range in I2. lia.
      * specialize (LO r Ir). unfold in_range in I2. unfold nonempty in N. lia.
    + destruct acc as [|top rest]; [cbn in NE; congruence|]. cbn [post_top] in PT.
      cbn [rev]. rewrite map_app. cbn [map row_of]. rewrite <- PT.
      apply rows_hi_snoc.
Qed.
