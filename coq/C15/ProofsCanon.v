(** C15 — lemmas, part 5: what [canonical] means; boolean reflection. *)
From V.Lib Require Import Base.
From V.Gen Require Import C15Tables.
From V.C15 Require Import Model Spec Sem Proofs.
From Coq Require Import ZifyBool.
Local Open Scope Z_scope.

Definition r_s (r : row) : Z := fst (fst r).
Definition r_e (r : row) : Z := snd (fst r).
Definition r_p (r : row) : prio := snd r.

Lemma canonical_rows_nonempty l : canonical l -> Forall (fun r => r_s r < r_e r) l.
Proof.
  induction l as [|[[s e] p] l IH]; cbn [canonical]; [constructor|].
  intros (N & _ & C). constructor; [exact N|auto].
Qed.

Lemma canonical_adjacent l : canonical l ->
  forall l1 a b l2, l = l1 ++ a :: b :: l2 -> r_e a = r_s b /\ r_p a <> r_p b.
Proof.
  induction l as [|[[s e] p] l IH]; intros C l1 a b l2 E.
  - destruct l1; discriminate.
  - cbn [canonical] in C. destruct C as (N & H & C). destruct l1 as [|x l1]; cbn [app] in E.
    + injection E as <- ->. destruct b as [[s' e'] p']. exact H.
    + injection E as _ ->. eapply IH; eauto.
Qed.

Lemma canonical_sorted a l : canonical (a :: l) -> forall r, In r l -> r_e a <= r_s r.
Proof.
  revert a. induction l as [|b l IH]; intros a C r I; [destruct I|].
  destruct a as [[s e] p], b as [[s' e'] p']. cbn [canonical] in C. destruct C as (N & (E & P) & C).
  destruct I as [<-|I]; [cbn; lia|].
  assert (r_e (s', e', p') <= r_s r) by (apply IH; [exact C|exact I]).
  cbn [canonical] in C. cbn in *. lia.
Qed.

(** rows further apart are ordered and disjoint *)
Lemma canonical_ordered l : canonical l ->
  forall l1 a l2 b l3, l = l1 ++ a :: l2 ++ b :: l3 -> r_e a <= r_s b.
Proof.
  induction l as [|x l IH]; intros C l1 a l2 b l3 E.
  - destruct l1; discriminate.
  - destruct l1 as [|y l1]; cbn [app] in E.
    + injection E as <- ->. apply (canonical_sorted x _ C). apply in_or_app. right. left. reflexivity.
    + injection E as _ ->. destruct x as [[s e] p]. cbn [canonical] in C. eapply IH; [apply C|reflexivity].
Qed.

Lemma spec_prio_eqb_eq a b : spec_prio_eqb a b = true <-> a = b.
Proof. destruct a, b; vm_compute; split; congruence. Qed.

Lemma canonicalb_spec l : canonicalb l = true <-> canonical l.
Proof.
  induction l as [|[[s e] p] l IH]; cbn [canonicalb canonical]; [tauto|].
  rewrite !andb_true_iff, IH, Z.ltb_lt.
  destruct l as [|[[s' e'] p'] l']; [tauto|].
  rewrite andb_true_iff, negb_true_iff, Z.eqb_eq.
  destruct (spec_prio_eqb p p') eqn:E.
  - apply spec_prio_eqb_eq in E. split; [intuition discriminate|intuition congruence].
  - assert (p <> p') by (intros ->; destruct p'; discriminate). tauto.
Qed.
