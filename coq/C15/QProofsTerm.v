(** C15 part B — the termination measure of the client loop. *)
From V.Lib Require Import Base.
From V.Gen Require Import C15Tables.
From V.C15 Require Import Model Spec Sem QModel Proofs ProofsTree ProofsVec ProofsSeq ProofsCanon QProofs QProofsOps.
From Coq Require Import ZifyBool.
Local Open Scope Z_scope.

(** number of heights of the window [w, w + n) on which [f] holds *)
Fixpoint count (f : Z -> bool) (w : Z) (n : nat) : Z :=
  match n with
  | O => 0
  | S k => (if f w then 1 else 0) + count f (w + 1) k
  end.

Lemma count_bounds f n : forall w, 0 <= count f w n <= Z.of_nat n.
Proof. induction n as [|k IH]; intros w; cbn [count]; [lia|]. specialize (IH (w + 1)). destruct (f w); lia. Qed.

Lemma count_ext f g n : forall w, (forall h, w <= h < w + Z.of_nat n -> f h = g h) -> count f w n = count g w n.
Proof.
  induction n as [|k IH]; intros w H; cbn [count]; [reflexivity|].
  rewrite (H w) by lia. rewrite (IH (w + 1)); [reflexivity|]. intros h R. apply H. lia.
Qed.

Lemma count_false f n : forall w, (forall h, w <= h < w + Z.of_nat n -> f h = false) -> count f w n = 0.
Proof.
  induction n as [|k IH]; intros w H; cbn [count]; [reflexivity|].
  rewrite (H w) by lia. rewrite (IH (w + 1)); [reflexivity|]. intros h R. apply H. lia.
Qed.

Lemma count_split f r n : forall w,
  count f w n = count (fun h => f h && r h) w n + count (fun h => f h && negb (r h)) w n.
Proof.
  induction n as [|k IH]; intros w; cbn [count]; [reflexivity|]. rewrite (IH (w + 1)).
  destruct (f w), (r w); cbn [andb negb]; lia.
Qed.

Lemma count_range n : forall w s e, w <= s -> s <= e -> e <= w + Z.of_nat n -> count (in_range s e) w n = e - s.
Proof.
  induction n as [|k IH]; intros w s e A B D; cbn [count]; [lia|].
  destruct (Z.eq_dec s e) as [->|NE].
  - replace (if in_range e e w then 1 else 0) with 0 by (unfold in_range; destruct (Z.leb_spec e w), (Z.ltb_spec w e); cbn; lia).
    rewrite count_false; [lia|]. intros h _. unfold in_range. lia.
  - destruct (Z.eq_dec w s) as [->|NW].
    + replace (if in_range s e s then 1 else 0) with 1 by (unfold in_range; destruct (Z.leb_spec s s), (Z.ltb_spec s e); cbn; lia).
      rewrite (count_ext _ (in_range (s + 1) e)); [rewrite IH; lia|]. intros h R. unfold in_range. lia.
    + replace (if in_range s e w then 1 else 0) with 0 by (unfold in_range; destruct (Z.leb_spec s w), (Z.ltb_spec w e); cbn; lia).
      rewrite IH; lia.
Qed.

Definition scanned_b (q : list sr) (h : Z) : bool :=
  match rows_at (map row_of q) h with Some Scanned => true | _ => false end.

Lemma scanned_b_iff q h : scanned_b q h = true <-> scanned_at q h.
Proof. unfold scanned_b, scanned_at. destruct (rows_at _ h) as [[]|]; split; congruence. Qed.

(** the measure: heights of the window that are not Scanned (uncovered heights count) *)
Definition unscanned (q : list sr) (w : Z) (n : nat) : Z := count (fun h => negb (scanned_b q h)) w n.

Lemma unscanned_bounds q w n : 0 <= unscanned q w n <= Z.of_nat n.
Proof. apply count_bounds. Qed.

Lemma bool_eq_iff (a b : bool) : (a = true <-> b = true) -> a = b.
Proof. destruct a, b; intuition congruence. Qed.

(** the reachable-state invariant besides canonicity: no Ignored height at or above the birthday *)
Definition no_ignored_from (b : Z) (q : list sr) : Prop :=
  forall h, b <= h -> rows_at (map row_of q) h <> Some Ignored.

(** one scan step lowers the measure by the number of blocks scanned *)
Lemma scan_step_measure c q s e sap orc iro q' w n :
  chain q -> s < e -> touches q s e -> scan_complete c q s e sap orc iro = Ok q' ->
  w <= s -> e <= w + Z.of_nat n -> (forall h, s <= h < e -> ~ scanned_at q h) ->
  chain q' /\ unscanned q' w n = unscanned q w n - (e - s).
Proof.
  intros C L T E W1 W2 U. destruct (scan_complete_spec c q s e sap orc iro C L T) as (q2 & E2 & C2 & P & _).
  rewrite E in E2. injection E2 as <-. split; [exact C2|]. unfold unscanned.
  rewrite (count_split (fun h => negb (scanned_b q h)) (in_range s e) n w).
  rewrite (count_ext (fun h => negb (scanned_b q h) && in_range s e h) (in_range s e)).
  2:{ intros h _. destruct (in_range s e h) eqn:I; [|apply andb_false_r]. rewrite andb_true_r.
      apply negb_true_iff. destruct (scanned_b q h) eqn:Sb; [|reflexivity]. apply scanned_b_iff in Sb.
      exfalso. apply (U h); [unfold in_range in I; lia|exact Sb]. }
  rewrite count_range by lia.
  rewrite (count_ext (fun h => negb (scanned_b q' h)) (fun h => negb (scanned_b q h) && negb (in_range s e h))); [lia|].
  intros h _. rewrite <- negb_orb. f_equal. apply bool_eq_iff. rewrite orb_true_iff, !scanned_b_iff, P. unfold in_range.
  split; intros [?|?]; [right; lia|left; assumption|right; assumption|left; lia].
Qed.

Lemma scan_step_inv c q s e sap orc iro q' b :
  chain q -> s < e -> touches q s e -> scan_complete c q s e sap orc iro = Ok q' ->
  no_ignored_from b q -> no_ignored_from b q' /\
  (forall h, rows_at (map row_of q) h <> None -> rows_at (map row_of q') h <> None).
Proof.
  intros C L T E NI. destruct (scan_complete_spec c q s e sap orc iro C L T) as (q2 & E2 & C2 & _ & PC & PI).
  rewrite E in E2. injection E2 as <-. split; [|exact PC]. intros h Hb Hi. apply (NI h Hb). apply PI. exact Hi.
Qed.

(** a chain-tip update leaves the measure alone when no Scanned height lies above the max
    scanned block (the database invariant behind [Verify]) *)
Lemma tip_step_measure c q t q' w n :
  chain q -> ctx_ok c t -> update_chain_tip c q t = Ok q' ->
  (forall qs qe entries, tip_plan c t = Ok (Some (qs, qe, entries)) -> touches q qs qe) ->
  (forall h ms, scanned_at q h -> max_scanned c = Some ms -> h <= ms) ->
  chain q' /\ unscanned q' w n = unscanned q w n.
Proof.
  intros C K E T I. destruct (tip_plan_spec c t K) as (p & Ep & _).
  destruct p as [[[qs qe] entries]|].
  - destruct (update_chain_tip_spec c q t qs qe entries C K Ep (T _ _ _ Ep)) as (q2 & E2 & C2 & P1 & P2 & _).
    rewrite E in E2. injection E2 as <-. split; [exact C2|]. unfold unscanned. apply count_ext. intros h _. f_equal.
    apply bool_eq_iff. rewrite !scanned_b_iff. split; [apply P1|]. intros Hs. apply P2; [exact Hs|]. intros ms Em. eapply I; eauto.
  - unfold update_chain_tip in E. rewrite Ep in E. cbn [bind] in E. injection E as <-. split; [exact C|reflexivity].
Qed.

Lemma tip_step_inv c q t q' b :
  chain q -> ctx_ok c t -> update_chain_tip c q t = Ok q' ->
  (forall qs qe entries, tip_plan c t = Ok (Some (qs, qe, entries)) -> touches q qs qe) ->
  birthday c <> None -> no_ignored_from b q -> no_ignored_from b q' /\
  (forall h, rows_at (map row_of q) h <> None -> rows_at (map row_of q') h <> None).
Proof.
  intros C K E T NB NI. destruct (tip_plan_spec c t K) as (p & Ep & _).
  destruct p as [[[qs qe] entries]|].
  - destruct (update_chain_tip_spec c q t qs qe entries C K Ep (T _ _ _ Ep)) as (q2 & E2 & C2 & _ & _ & PC & _ & PI & _).
    rewrite E in E2. injection E2 as <-. split; [|exact PC]. intros h Hb Hi. apply (NI h Hb). apply (PI NB). exact Hi.
  - unfold update_chain_tip in E. rewrite Ep in E. cbn [bind] in E. injection E as <-. auto.
Qed.

(** *** suggestions *)
Lemma ins_sugg_in r x l : In x (ins_sugg r l) <-> x = r \/ In x l.
Proof.
  induction l as [|a l IH]; cbn [ins_sugg In]; [intuition|].
  destruct (sugg_before r a); cbn [In]; [intuition|]. rewrite IH. intuition.
Qed.
Lemma sugg_in q p x : In x (suggest_scan_ranges q p) <-> In x q /\ prio_code (rp x) >= prio_code p.
Proof.
  unfold suggest_scan_ranges. induction q as [|a q IH]; cbn [filter fold_right In]; [tauto|].
  destruct (Z.geb_spec (prio_code (rp a)) (prio_code p)).
  - cbn [fold_right]. rewrite ins_sugg_in, IH. intuition (subst; auto); lia.
  - rewrite IH. intuition (subst; auto). lia.
Qed.

(** any non-empty part of a suggested range is a legal scan step *)
Lemma suggested_is_unscanned q r s e : chain q -> In r (suggest_scan_ranges q Historic) ->
  rs r <= s -> s < e -> e <= re r ->
  touches q s e /\ forall h, s <= h < e -> ~ scanned_at q h.
Proof.
  intros C I A B D. apply sugg_in in I. destruct I as (Iq & Pc). split; [exists r; split; [exact Iq|lia]|].
  intros h R Hs. unfold scanned_at in Hs. apply (rows_at_covers q C) in Hs. destruct Hs as (y & Iy & Ey).
  assert (Er : at_sr r h = Some (rp r)) by (unfold at_sr, in_range; destruct (Z.leb_spec (rs r) h), (Z.ltb_spec h (re r)); cbn; try lia; reflexivity).
  assert (Cr : covers q h (rp r)) by (exists r; auto).
  apply (rows_at_covers q C) in Cr. assert (Cy : covers q h Scanned) by (exists y; auto).
  apply (rows_at_covers q C) in Cy. rewrite Cr in Cy. injection Cy as Ep. rewrite Ep in Pc. cbn in Pc. lia.
Qed.

(** nothing suggested: every covered height is Scanned or Ignored *)
Lemma quiescent q : chain q -> suggest_scan_ranges q Historic = [] ->
  forall h p, rows_at (map row_of q) h = Some p -> p = Scanned \/ p = Ignored.
Proof.
  intros C E h p H. apply (rows_at_covers q C) in H. destruct H as (r & I & Er).
  assert (~ In r (suggest_scan_ranges q Historic)) by (rewrite E; intros []).
  rewrite sugg_in in H. unfold at_sr in Er. destruct (in_range (rs r) (re r) h); [|discriminate]. injection Er as <-.
  destruct (rp r); cbn in H; auto; exfalso; apply H; split; auto; lia.
Qed.

(** *** rewinds: trimming keeps the queue canonical and forgets exactly the heights above *)
Lemma trim_spec q mh : chain q -> 0 <= mh ->
  chain (trim_scan_queue_to q mh) /\
  forall h, rows_at (map row_of (trim_scan_queue_to q mh)) h =
            if h <=? Z.min mh (u32_max - 1) then rows_at (map row_of q) h else None.
Proof.
  intros C M. unfold trim_scan_queue_to. set (ne := hadd mh 1).
  assert (NE : ne = Z.min mh (u32_max - 1) + 1) by (unfold ne, hadd; lia).
  induction q as [|a q IH]; [split; [exact chain_nil|intros h; cbn; destruct (h <=? _); reflexivity]|].
  destruct (chain_cons_inv _ _ C) as (N & C' & J). pose proof (chain_lower _ _ C) as LO.
  destruct (IH C') as (IC & IP). unfold nonempty in N. cbn [filter]. rewrite Z.geb_leb.
  destruct (Z.leb_spec ne (rs a)); cbn [negb].
  - (* this row and all later ones start at or above the new end *)
    rewrite (filter_none _ q).
    2:{ intros x Ix. pose proof (LO x Ix). rewrite Z.geb_leb. apply negb_false_iff. apply Z.leb_le. lia. }
    split; [exact chain_nil|]. intros h. cbn [map rows_at row_of]. unfold in_range.
    destruct (Z.leb_spec h (Z.min mh (u32_max - 1))); [|reflexivity].
    destruct (Z.leb_spec (rs a) h); [lia|]. cbn [andb]. symmetry. apply rows_at_none. intros y Iy.
    pose proof (LO y Iy). unfold in_range. lia.
  - cbn [map]. rewrite Z.gtb_ltb. destruct (Z.ltb_spec ne (re a)).
    + (* clamped; nothing after it survives *)
      rewrite (filter_none _ q).
      2:{ intros x Ix. pose proof (LO x Ix). rewrite Z.geb_leb. apply negb_false_iff. apply Z.leb_le. lia. }
      cbn [map]. split; [apply chain_cons; [unfold nonempty; cbn; lia|exact chain_nil|exact I]|].
      intros h. cbn [map rows_at row_of rs re rp]. unfold in_range.
      destruct (Z.leb_spec h (Z.min mh (u32_max - 1))).
      * destruct (Z.leb_spec (rs a) h), (Z.ltb_spec h ne), (Z.ltb_spec h (re a)); cbn [andb]; try lia; try reflexivity.
        symmetry. apply rows_at_none. intros y Iy. pose proof (LO y Iy). unfold in_range. lia.
      * destruct (Z.leb_spec (rs a) h), (Z.ltb_spec h ne); cbn [andb]; try lia; reflexivity.
    + split.
      * apply chain_cons; [exact N|exact IC|].
        destruct q as [|b q']; [exact I|]. cbn [filter]. rewrite Z.geb_leb.
        destruct (chain_cons_inv _ _ C') as (Nb & _). unfold nonempty in Nb. destruct J as (J1 & J2).
        destruct (Z.leb_spec ne (rs b)); cbn [negb map].
        { rewrite (filter_none _ q'); [exact I|]. intros x Ix. pose proof (chain_lower _ _ C' x Ix).
          rewrite Z.geb_leb. apply negb_false_iff. apply Z.leb_le. lia. }
        rewrite Z.gtb_ltb.
        destruct (Z.ltb_spec ne (re b)); cbn [rs rp]; auto.
      * intros h. cbn [map rows_at row_of]. rewrite IP. unfold in_range.
        destruct (Z.leb_spec h (Z.min mh (u32_max - 1))); [reflexivity|].
        destruct (Z.leb_spec (rs a) h), (Z.ltb_spec h (re a)); cbn [andb]; try lia; reflexivity.
Qed.

(** *** the measure across a rewind *)
Lemma count_add_disjoint f g n : forall w, (forall h, f h && g h = false) ->
  count (fun h => f h || g h) w n = count f w n + count g w n.
Proof.
  induction n as [|k IH]; intros w D; cbn [count]; [reflexivity|]. rewrite (IH (w + 1) D).
  pose proof (D w). destruct (f w), (g w); cbn [orb andb] in *; try discriminate; lia.
Qed.

(** heights of the window that a rewind to [mh] re-exposes: Scanned before, above [mh] *)
Definition reexposed (q : list sr) (mh w : Z) (n : nat) : Z :=
  count (fun h => scanned_b q h && (Z.min mh (u32_max - 1) <? h)) w n.

Lemma reexposed_bounds q mh w n : 0 <= reexposed q mh w n <= Z.of_nat n.
Proof. apply count_bounds. Qed.

Lemma reexposed_above q mh w n : mh < u32_max -> reexposed q mh w n <= Z.max 0 (w + Z.of_nat n - 1 - mh).
Proof.
  intros M. unfold reexposed. replace (Z.min mh (u32_max - 1)) with mh by lia.
  revert w. induction n as [|k IH]; intros w; cbn [count]; [lia|]. specialize (IH (w + 1)).
  pose proof (count_bounds (fun h => scanned_b q h && (mh <? h)) k (w + 1)).
  destruct (scanned_b q w); cbn [andb]; destruct (Z.ltb_spec mh w); lia.
Qed.

Lemma trim_step q mh w n b : chain q -> 0 <= mh ->
  chain (trim_scan_queue_to q mh) /\
  unscanned (trim_scan_queue_to q mh) w n = unscanned q w n + reexposed q mh w n /\
  (no_ignored_from b q -> no_ignored_from b (trim_scan_queue_to q mh)).
Proof.
  intros C M. destruct (trim_spec q mh C M) as (C' & P). split; [exact C'|]. split.
  - unfold unscanned, reexposed. rewrite <- count_add_disjoint.
    + apply count_ext. intros h _. unfold scanned_b at 1. rewrite P. unfold scanned_b.
      destruct (Z.leb_spec h (Z.min mh (u32_max - 1))); destruct (Z.ltb_spec (Z.min mh (u32_max - 1)) h); try lia;
        destruct (rows_at (map row_of q) h) as [[]|]; reflexivity.
    + intros h. destruct (scanned_b q h); reflexivity.
  - intros NI h Hb. rewrite P. destruct (h <=? _); [apply NI; exact Hb|discriminate].
Qed.

(** *** the client loop: scan steps on unscanned ranges inside the window, chain-tip updates,
    and rewinds.  [k] counts the scan steps, [r] sums the heights re-exposed by the rewinds. *)
Inductive run (w : Z) (n : nat) : list sr -> nat -> Z -> list sr -> Prop :=
| run_done q : run w n q O 0 q
| run_scan q c s e sap orc iro q' k r q'' :
    s < e -> w <= s -> e <= w + Z.of_nat n -> touches q s e ->
    (forall h, s <= h < e -> ~ scanned_at q h) ->
    scan_complete c q s e sap orc iro = Ok q' -> run w n q' k r q'' -> run w n q (S k) r q''
| run_tip q c t q' k r q'' :
    ctx_ok c t -> birthday c <> None -> update_chain_tip c q t = Ok q' ->
    (forall qs qe entries, tip_plan c t = Ok (Some (qs, qe, entries)) -> touches q qs qe) ->
    (forall h ms, scanned_at q h -> max_scanned c = Some ms -> h <= ms) ->
    run w n q' k r q'' -> run w n q k r q''
| run_trim q mh k r q'' :
    0 <= mh -> run w n (trim_scan_queue_to q mh) k r q'' ->
    run w n q k (r + reexposed q mh w n) q''.

Lemma run_measure w n b q k r q'' : chain q -> run w n q k r q'' ->
  chain q'' /\ Z.of_nat k <= unscanned q w n - unscanned q'' w n + r /\ 0 <= r /\
  (no_ignored_from b q -> no_ignored_from b q'').
Proof.
  intros C R. induction R as [q|q c s e sap orc iro q' k r q'' L W1 W2 T U E R IH
                               |q c t q' k r q'' K NB E T I R IH|q mh k r q'' M R IH].
  - split; [exact C|]. split; [lia|]. split; [lia|auto].
  - destruct (scan_step_measure c q s e sap orc iro q' w n C L T E W1 W2 U) as (C' & Me).
    destruct (IH C') as (C'' & M' & R0 & NI'). split; [exact C''|]. split; [lia|]. split; [exact R0|].
    intros NI. apply NI'. apply (scan_step_inv c q s e sap orc iro q' b C L T E NI).
  - destruct (tip_step_measure c q t q' w n C K E T I) as (C' & Me).
    destruct (IH C') as (C'' & M' & R0 & NI'). split; [exact C''|]. split; [lia|]. split; [exact R0|].
    intros NI. apply NI'. apply (tip_step_inv c q t q' b C K E T NB NI).
  - destruct (trim_step q mh w n b C M) as (C' & Me & NIt).
    destruct (IH C') as (C'' & M' & R0 & NI'). pose proof (reexposed_bounds q mh w n).
    split; [exact C''|]. split; [lia|]. split; [lia|]. intros NI. apply NI'. apply NIt. exact NI.
Qed.

Lemma sync_terminates w n q k r q'' : chain q -> run w n q k r q'' ->
  Z.of_nat k <= unscanned q w n + r /\ Z.of_nat k <= Z.of_nat n + r.
Proof.
  intros C R. destruct (run_measure w n 0 q k r q'' C R) as (_ & M & _).
  pose proof (unscanned_bounds q w n). pose proof (unscanned_bounds q'' w n). lia.
Qed.

(** *** quiescence *)
Lemma chain_convex v a b h : chain v -> rows_at (map row_of v) a <> None -> rows_at (map row_of v) b <> None ->
  a <= h <= b -> rows_at (map row_of v) h <> None.
Proof.
  intros C A B R. destruct v as [|x v]; [cbn in A; congruence|].
  destruct (last_opt (x :: v)) as [vl|] eqn:L; [|apply last_opt_none in L; discriminate].
  apply (chain_covered (x :: v) x vl h C eq_refl L).
  destruct (Z_lt_le_dec a (rs x)); [exfalso; apply A; apply (chain_outside (x :: v) x vl a C eq_refl L); lia|].
  destruct (Z_lt_le_dec b (re vl)); [lia|exfalso; apply B; apply (chain_outside (x :: v) x vl b C eq_refl L); lia].
Qed.

(** nothing suggested, no Ignored height from the birthday on, birthday and tip covered:
    every height from the birthday to the tip is Scanned *)
Lemma quiescent_full q b t : chain q -> no_ignored_from b q ->
  rows_at (map row_of q) b <> None -> rows_at (map row_of q) t <> None ->
  suggest_scan_ranges q Historic = [] ->
  forall h, b <= h <= t -> scanned_at q h.
Proof.
  intros C NI Cb Ct E h R. pose proof (chain_convex q b t h C Cb Ct R) as Hc.
  destruct (rows_at (map row_of q) h) as [p|] eqn:Ep; [|congruence].
  destruct (quiescent q C E h p Ep) as [->| ->]; [exact Ep|]. exfalso. apply (NI h); [lia|exact Ep].
Qed.
