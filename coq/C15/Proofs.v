(** C15 — lemmas, part 1: priorities and the dominance rule. *)
From V.Lib Require Import Base.
From V.Gen Require Import C15Tables.
From V.C15 Require Import Model Spec.
From Coq Require Import ZifyBool.
Local Open Scope Z_scope.

Lemma prio_rank_spec : forall p, prio_rank p = spec_rank p.
Proof. destruct p; reflexivity. Qed.

Lemma prio_code_monotone : forall a b, prio_rank a < prio_rank b <-> prio_code a < prio_code b.
Proof. destruct a, b; vm_compute; split; congruence. Qed.

Lemma parse_prio_code_inverse : forall p, parse_prio_code (prio_code p) = Some p.
Proof. destruct p; reflexivity. Qed.

Lemma parse_prio_code_only : forall c p, parse_prio_code c = Some p -> c = prio_code p.
Proof.
  intros c p. unfold parse_prio_code.
  repeat match goal with
         | |- context [c =? ?k] => destruct (Z.eqb_spec c k) as [->|_]; [intros [= <-]; reflexivity|]
         end.
  discriminate.
Qed.

Lemma prio_eqb_eq a b : prio_eqb a b = true <-> a = b.
Proof. destruct a, b; vm_compute; split; congruence. Qed.

(** The inserted priority wins exactly when [dominance] points at the side the inserted
    range is on; the current one wins when it points at the other side; [DEqual] iff equal. *)
Definition winner (c p : prio) (on : side) (force : bool) : prio :=
  match dominance c p on force with
  | DEqual => c
  | d => if match d, on with DLeft, SLeft | DRight, SRight => true | _, _ => false end then p else c
  end.

Lemma dominance_table : forall c p on force, winner c p on force = dom c p force.
Proof. destruct c, p, on, force; reflexivity. Qed.

Lemma dominance_equal_iff : forall c p on force, dominance c p on force = DEqual <-> c = p.
Proof. destruct c, p, on, force; vm_compute; split; congruence. Qed.

Lemma dominance_on : forall c p on force, dominance c p on force = dom_of on -> dom c p force = p.
Proof. destruct c, p, on, force; vm_compute; congruence. Qed.

Lemma dominance_off : forall c p on force, dominance c p on force = dom_of (flip on) -> dom c p force = c.
Proof. destruct c, p, on, force; vm_compute; congruence. Qed.

Lemma dom_same p force : dom p p force = p.
Proof. destruct p, force; reflexivity. Qed.
