(** C15 part B — the queue-level property on observed rows, independent of the model. *)
From V.Lib Require Import Base.
From V.Gen Require Import C15Tables.
From V.C15 Require Import Model Spec QModel.
Local Open Scope Z_scope.

(** rows non-empty, sorted, non-overlapping; rows that touch differ in priority (gaps allowed) *)
Fixpoint ordered_rows (l : list row) : bool :=
  match l with
  | [] => true
  | (s, e, p) :: rest =>
      (s <? e) &&
      match rest with
      | [] => true
      | (s', _, p') :: _ => (e <=? s') && ((e <? s') || negb (spec_prio_eqb p p'))
      end && ordered_rows rest
  end.

Definition all_points (a b : list row) : list Z := flat_map row_points (a ++ b).

Definition is_scanned_at (l : list row) (h : Z) : bool := oprio_eqb (rows_at l h) (Some Scanned).

(** the change made by a step touches (or is adjacent to) the interval covered before *)
Definition connected (pre post : list row) : bool :=
  match rows_lo pre, rows_hi pre with
  | Some lo_, Some hi_ =>
      existsb (fun h => negb (oprio_eqb (rows_at pre h) (rows_at post h)) && (lo_ - 1 <=? h) && (h <=? hi_))
              (all_points pre post)
      || forallb (fun h => oprio_eqb (rows_at pre h) (rows_at post h)) (all_points pre post)
  | _, _ => true
  end.

(** every step: the stored queue stays ordered; a canonical queue stays canonical when the
    change touches it *)
Definition step_structure (pre post : list row) : bool :=
  ordered_rows post && (if canonicalb pre && connected pre post then canonicalb post else true).

(** scanning [s,e): exactly that range becomes Scanned; elsewhere a height keeps its priority,
    or becomes FoundNote (extension for discovered notes), or was uncovered and becomes Historic *)
Definition scan_ok (pre post : list row) (s e : Z) : bool :=
  forallb (fun h =>
    if in_range s e h then is_scanned_at post h
    else Bool.eqb (is_scanned_at post h) (is_scanned_at pre h) &&
         (oprio_eqb (rows_at post h) (rows_at pre h)
          || oprio_eqb (rows_at post h) (Some FoundNote)
          || (oprio_eqb (rows_at pre h) None && oprio_eqb (rows_at post h) (Some Historic))))
    (s :: e - 1 :: all_points pre post).

(** a chain-tip update never marks anything Scanned, and un-scans only by a Verify range *)
Definition tip_ok (pre post : list row) : bool :=
  forallb (fun h =>
    (if is_scanned_at post h then is_scanned_at pre h else true) &&
    (if is_scanned_at pre h then is_scanned_at post h || oprio_eqb (rows_at post h) (Some Verify) else true))
    (all_points pre post).

(** trimming to [max_height]: unchanged at or below, nothing above *)
Definition trim_ok (pre post : list row) (max_height : Z) : bool :=
  forallb (fun h =>
    if h <=? max_height then oprio_eqb (rows_at post h) (rows_at pre h)
    else oprio_eqb (rows_at post h) None)
    (max_height :: max_height + 1 :: all_points pre post).

(** a rewind to [target] (with forced rescan): unchanged at or below; above, nothing stays Scanned
    and exactly the heights covered before stay covered *)
Definition rewind_ok (pre post : list row) (target : Z) : bool :=
  forallb (fun h =>
    if h <=? target then oprio_eqb (rows_at post h) (rows_at pre h)
    else negb (is_scanned_at post h) &&
         Bool.eqb (oprio_eqb (rows_at post h) None) (oprio_eqb (rows_at pre h) None))
    (target :: target + 1 :: all_points pre post).

(** after a rewind the client re-scans exactly the blocks above the target *)
Definition rescan_ok (target tip scanned : Z) (final sugg : list row) : bool :=
  (scanned =? tip - target) &&
  match sugg with [] => true | _ => false end &&
  match rows_hi final with Some e => e =? tip + 1 | None => false end &&
  forallb (fun r => spec_prio_eqb (snd r) Scanned || spec_prio_eqb (snd r) Ignored) final &&
  is_scanned_at final (target + 1) && is_scanned_at final tip.

(** the client loop: quiescent within the bound, everything from the birthday to the tip scanned *)
Definition loop_ok (birthday tip steps rewound : Z) (final sugg : list row) (fully : option Z) : bool :=
  (steps <=? (tip - birthday + 1) + rewound) &&
  match sugg with [] => true | _ => false end &&
  match final with
  | [(s, e, p)] => (s =? birthday) && (e =? tip + 1) && spec_prio_eqb p Scanned
  | _ => false
  end &&
  match fully with Some f => f =? tip | None => false end.

(** suggestions: exactly the stored rows at or above Historic, highest priority first *)
Definition row_eqb (a b : row) : bool :=
  let '(s, e, p) := a in let '(s', e', p') := b in (s =? s') && (e =? e') && spec_prio_eqb p p'.
Definition row_mem (r : row) (l : list row) : bool := existsb (row_eqb r) l.
Fixpoint rank_desc (l : list row) : bool :=
  match l with
  | [] => true
  | (_, _, p) :: rest =>
      match rest with
      | [] => true
      | (_, _, p') :: _ => spec_rank p' <=? spec_rank p
      end && rank_desc rest
  end.
Definition sugg_ok (q sugg : list row) : bool :=
  forallb (fun r => row_mem r q && (spec_rank Historic <=? spec_rank (snd r))) sugg &&
  forallb (fun r => if spec_rank Historic <=? spec_rank (snd r) then row_mem r sugg else true) q &&
  rank_desc sugg.

(** The Verify range a chain-tip update must install (documented rule): with shard metadata below
    the new chain end and the max scanned block at least PRUNING_DEPTH below the new tip, the
    VERIFY_LOOKAHEAD blocks above the max scanned block, limited to the stable region. *)
Definition shard_tip_below (c : ctx) (chain_end : Z) : bool :=
  match omin_list [tip_shard_end_height (sapling_shards c); tip_shard_end_height (orchard_shards c);
                   tip_shard_end_height (ironwood_shards c)] with
  | Some h => h <? chain_end
  | None => false
  end.
Definition expected_verify (c : ctx) (t : Z) : option (Z * Z) :=
  match sapling_act c, max_scanned c with
  | Some a, Some ms =>
      let stable := Z.max (t - PRUNING_DEPTH) 0 in
      if (a <=? t) && (ms <=? stable) &&
         match birthday c with Some b => b <=? t | None => true end && shard_tip_below c (t + 1)
      then Some (ms + 1, Z.min (stable + 1) (ms + 1 + VERIFY_LOOKAHEAD))
      else None
  | _, _ => None
  end.
Definition verify_ok (c : ctx) (t : Z) (pre post : list row) : bool :=
  let is_verify l h := oprio_eqb (rows_at l h) (Some Verify) in
  let '(vs, ve) := match expected_verify c t with Some r => r | None => (0, 0) end in
  forallb (fun h => if in_range vs ve h then is_verify post h
                    else if is_verify post h then is_verify pre h else true)
          (vs - 1 :: vs :: ve - 1 :: ve :: all_points pre post).

