(** C15 — domain of the cases: heights are u32 and every range is a valid [ScanRange]
    argument for the harness protocol (the harness builds ranges through [from_parts]; an
    inverted initial range is a legal input of [TreeSeq]/[FromParts] whose outcome is Panic,
    inverted inserted ranges are not generated). *)
From V.Lib Require Import Base.
From V.Gen Require Import C15Tables.
From V.C15 Require Import Model Spec QModel Corr.
Local Open Scope Z_scope.

Definition is_u32 (x : Z) : bool := (0 <=? x) && (x <=? u32_max).
Definition sr_u32 (r : sr) : bool := is_u32 (rs r) && is_u32 (re r).
Definition sr_valid (r : sr) : bool := sr_u32 r && (rs r <=? re r).

Definition wf_case (c : case) : bool :=
  match c with
  | TreeSeq init ops _ => sr_valid init && forallb (fun o => sr_valid (fst o)) ops
  | FromParts s e _ => is_u32 s && is_u32 e
  | TruncStart s e h _ | TruncEnd s e h _ | SplitAt s e h _ => sr_valid (R s e FoundNote) && is_u32 h
  | QStep c pre op _ _ =>
      forallb sr_valid pre &&
      match op with
      | OpTip t => is_u32 t
      | OpScan s e a b i => is_u32 s && is_u32 e && (s <=? e)
      | OpRescan rs_ _ => forallb (fun r => is_u32 (fst r) && is_u32 (snd r) && (fst r <=? snd r)) rs_
      | OpTrim h => is_u32 h
      | OpPrune h _ => is_u32 h
      | OpRewind t _ => is_u32 t
      end
  | QLoop b t _ _ final _ _ => is_u32 b && is_u32 t && forallb sr_valid final
  | QChain q _ => forallb sr_valid q
  | QRescan t tip _ final _ => is_u32 t && is_u32 tip && forallb sr_valid final
  end.
