(** C15 — executable model of the scan-queue spanning tree.

    Transcription of
      zcash_client_backend/src/data_api/scanning.rs              (ScanRange)
      zcash_client_backend/src/data_api/scanning/spanning_tree.rs (dominance, RangeOrdering,
        join_nonoverlapping, insert/join_overlapping, SpanningTree::{insert, into_vec})
    Same branches, same order of checks.  Heights are [Z] (BlockHeight = u32; the code only
    compares heights and takes min/max, so there is no overflow to model).  A function that can
    panic (assert!, expect, unreachable!) returns [option]; [None] = panic.  The public entry
    points at the bottom wrap this as [outcome _ unit] with [Panic].  No proofs in this file. *)
From V.Lib Require Import Base.
From V.Gen Require Import C15Tables.
Local Open Scope Z_scope.

(** ** ScanPriority: [prio], its derive(Ord) order [prio_rank] come from Gen/C15Tables.v *)

Definition prio_eqb (a b : prio) : bool := prio_rank a =? prio_rank b.
(** [Ord::cmp] of the derived order *)
Definition prio_cmp (a b : prio) : comparison := prio_rank a ?= prio_rank b.

(** ** ScanRange *)
Inductive sr : Set := R (s e : Z) (p : prio).
Definition rs (r : sr) : Z := let 'R s _ _ := r in s.
Definition re (r : sr) : Z := let 'R _ e _ := r in e.
Definition rp (r : sr) : prio := let 'R _ _ p := r in p.

(** [ScanRange::from_parts]: assert!(end >= start) *)
Definition from_parts (s e : Z) (p : prio) : option sr :=
  if e >=? s then Some (R s e p) else None.

(** [Range::is_empty]: !(start < end) *)
Definition is_empty (r : sr) : bool := negb (rs r <? re r).

Definition truncate_start (r : sr) (h : Z) : option sr :=
  if (h >=? re r) || is_empty r then None
  else Some (R (Z.max (rs r) h) (re r) (rp r)).

Definition truncate_end (r : sr) (h : Z) : option sr :=
  if (h <=? rs r) || is_empty r then None
  else Some (R (rs r) (Z.min (re r) h) (rp r)).

Definition split_at (r : sr) (p : Z) : option (sr * sr) :=
  if (p >? rs r) && (p <? re r) then Some (R (rs r) p (rp r), R p (re r) (rp r)) else None.

(** ** Insert / Dominance *)
Inductive side : Set := SLeft | SRight.
Definition flip (s : side) : side := match s with SLeft => SRight | SRight => SLeft end.
Inductive dominance_t : Set := DLeft | DRight | DEqual.
Definition dom_of (s : side) : dominance_t := match s with SLeft => DLeft | SRight => DRight end.

Definition is_verify_or_scanned (p : prio) : bool :=
  match p with Verify | Scanned => true | _ => false end.
Definition is_scanned (p : prio) : bool := match p with Scanned => true | _ => false end.

(** [fn dominance(current, inserted, insert)], arms in source order *)
Definition dominance (current inserted : prio) (on : side) (force_rescan : bool) : dominance_t :=
  match prio_cmp current inserted with
  | Eq => DEqual
  | c =>
      if is_verify_or_scanned inserted then dom_of on
      else if is_scanned current && negb force_rescan then dom_of (flip on)
      else match c with
           | Lt => dom_of on
           | _ => dom_of (flip on)
           end
  end.

(** ** RangeOrdering *)
Inductive rord : Set :=
| LeftFirstDisjoint | LeftFirstOverlap | LeftContained | REqual
| RightContained | RightFirstOverlap | RightFirstDisjoint.

(** [RangeOrdering::cmp(a, b)]: assert!(a.start <= a.end && b.start <= b.end) *)
Definition range_cmp (a_s a_e b_s b_e : Z) : option rord :=
  if (a_s <=? a_e) && (b_s <=? b_e) then
    Some (if a_e <=? b_s then LeftFirstDisjoint
          else if b_e <=? a_s then RightFirstDisjoint
          else match a_s ?= b_s, a_e ?= b_e with
               | Lt, Lt => LeftFirstOverlap
               | Eq, Lt | Gt, Lt | Gt, Eq => LeftContained
               | Eq, Eq => REqual
               | Eq, Gt | Lt, Gt | Lt, Eq => RightContained
               | Gt, Gt => RightFirstOverlap
               end)
  else None.

(** ** Joined *)
Inductive joined : Set :=
| One (a : sr)
| Two (a b : sr)
| Three (a b c : sr).

(** [join_nonoverlapping]; the Rust function is recursive (the gap case calls itself on
    adjacent ranges), [fuel] bounds the recursion depth: 2 suffices, running out is a [None]
    that the correspondence run would expose. *)
Fixpoint join_nonoverlapping_f (fuel : nat) (left right : sr) : option joined :=
  match fuel with
  | O => None
  | S k =>
      if re left <=? rs right then
        if re left =? rs right then
          if prio_eqb (rp left) (rp right)
          then match from_parts (rs left) (re right) (rp left) with
               | Some m => Some (One m)
               | None => None
               end
          else Some (Two left right)
        else
          match from_parts (re left) (rs right) Historic with
          | None => None
          | Some gap =>
              match join_nonoverlapping_f k left gap with
              | Some (One merged) => join_nonoverlapping_f k merged right
              | Some (Two left' gap') =>
                  match join_nonoverlapping_f k gap' right with
                  | Some (One merged) => Some (Two left' merged)
                  | Some (Two gap'' right') => Some (Three left' gap'' right')
                  | _ => None          (* unreachable!() *)
                  end
              | _ => None              (* unreachable!() *)
              end
          end
      else None                        (* assert!(left.end <= right.start) *)
  end.
Definition join_nonoverlapping := join_nonoverlapping_f 2.

(** [join_overlapping(left, right, insert)] (local fn of [insert]) *)
Definition join_overlapping (left right : sr) (on : side) (force : bool) : option joined :=
  if (rs left <=? rs right) && (re left >? rs right) then
    let d := match on with
             | SLeft => dominance (rp right) (rp left) on force
             | SRight => dominance (rp left) (rp right) on force
             end in
    match d with
    | DLeft =>
        match truncate_start right (re left) with
        | Some right' => Some (Two left right')
        | None => Some (One left)
        end
    | DEqual =>
        match from_parts (rs left) (Z.max (re left) (re right)) (rp left) with
        | Some m => Some (One m)
        | None => None
        end
    | DRight =>
        match truncate_end left (rs right), truncate_start left (re right) with
        | Some before, Some after => Some (Three before right after)
        | Some before, None => Some (Two before right)
        | None, Some after => Some (Two right after)
        | None, None => Some (One right)
        end
    end
  else None.

(** [fn insert(current, to_insert, force_rescans) -> Joined] *)
Definition insert (current to_insert : sr) (force : bool) : option joined :=
  match range_cmp (rs to_insert) (re to_insert) (rs current) (re current) with
  | None => None
  | Some LeftFirstDisjoint => join_nonoverlapping to_insert current
  | Some LeftFirstOverlap | Some RightContained => join_overlapping to_insert current SLeft force
  | Some REqual =>
      match from_parts (rs to_insert) (re to_insert)
              (match dominance (rp current) (rp to_insert) SRight force with
               | DLeft | DEqual => rp current
               | DRight => rp to_insert
               end) with
      | Some m => Some (One m)
      | None => None
      end
  | Some RightFirstOverlap | Some LeftContained => join_overlapping current to_insert SRight force
  | Some RightFirstDisjoint => join_nonoverlapping current to_insert
  end.

(** ** SpanningTree *)
Inductive tree : Set :=
| Leaf (r : sr)
| Parent (ss se : Z) (l r : tree).

Definition span_s (t : tree) : Z := match t with Leaf r => rs r | Parent s _ _ _ => s end.
Definition span_e (t : tree) : Z := match t with Leaf r => re r | Parent _ e _ _ => e end.

Definition from_joined (j : joined) : tree :=
  match j with
  | One a => Leaf a
  | Two a b => Parent (rs a) (re b) (Leaf a) (Leaf b)
  | Three a b c => Parent (rs a) (re c) (Leaf a) (Parent (rs b) (re c) (Leaf b) (Leaf c))
  end.

(** [SpanningTree::insert]; [from_insert] and [from_split] are the local closures
    [ins_left]/[ins_right]/[split]. *)
Fixpoint tinsert (t : tree) (x : sr) (force : bool) {struct t} : option tree :=
  match t with
  | Leaf cur =>
      match insert cur x force with
      | Some j => Some (from_joined j)
      | None => None
      end
  | Parent ss se l r =>
      let ins_right := fun _ : unit =>
        match tinsert r x force with
        | Some r' => Some (Parent (span_s l) (span_e r') l r')
        | None => None
        end in
      let ins_left := fun _ : unit =>
        match tinsert l x force with
        | Some l' => Some (Parent (span_s l') (span_e r) l' r)
        | None => None
        end in
      let split := fun sp : Z =>
        match split_at x sp with
        | None => None                 (* .expect("Split point is within the range of to_insert") *)
        | Some (xl, xr) =>
            match tinsert l xl force with
            | None => None
            | Some l' =>
                match tinsert r xr force with
                | None => None
                | Some r' => Some (Parent (span_s l') (span_e r') l' r')
                end
            end
        end in
      let sp := span_e l in
      match range_cmp ss se (rs x) (re x) with
      | None => None
      | Some LeftFirstDisjoint => ins_right tt
      | Some LeftFirstOverlap => if sp >? rs x then split sp else ins_right tt
      | Some RightContained =>
          if rs x >=? sp then ins_right tt
          else if re x <=? sp then ins_left tt
          else split sp
      | Some REqual => if sp >? rs x then split sp else tinsert r x force
      | Some LeftContained => split sp
      | Some RightFirstOverlap => if sp <? re x then split sp else ins_left tt
      | Some RightFirstDisjoint => ins_left tt
      end
  end.

(** [SpanningTree::into_vec]: [acc] is the Vec used as a stack, modelled as a list whose head
    is the top (i.e. reversed). *)
Fixpoint into_vec_go (acc : list sr) (t : tree) : option (list sr) :=
  match t with
  | Leaf entry =>
      if negb (is_empty entry) then
        match acc with
        | top :: rest =>
            match join_nonoverlapping top entry with
            | Some (One merged) => Some (merged :: rest)
            | Some (Two l r) => Some (r :: l :: rest)
            | _ => None                (* unreachable!() / assert in join_nonoverlapping *)
            end
        | [] => Some [entry]
        end
      else Some acc
  | Parent _ _ l r =>
      match into_vec_go acc l with
      | Some acc' => into_vec_go acc' r
      | None => None
      end
  end.

Definition into_vec (t : tree) : option (list sr) :=
  match into_vec_go [] t with
  | Some acc => Some (rev acc)
  | None => None
  end.

(** ** Public entry points as outcomes *)
Definition res (A : Type) := outcome A unit.
Definition lift {A} (o : option A) : res A := match o with Some a => Ok a | None => Panic end.

Definition api_from_parts s e p := lift (from_parts s e p).
Definition api_insert t x force := lift (tinsert t x force).
Definition api_into_vec t := lift (into_vec t).

(** The harness protocol: start from [Leaf init]; observe [into_vec] of a clone; for every
    operation insert (stop at the first panic) and observe [into_vec] of a clone. *)
Fixpoint run_ops (t : tree) (ops : list (sr * bool)) : list (res (list sr)) :=
  match ops with
  | [] => []
  | (x, force) :: rest =>
      match tinsert t x force with
      | None => [Panic]
      | Some t' => api_into_vec t' :: run_ops t' rest
      end
  end.

Definition run_seq (init : sr) (ops : list (sr * bool)) : list (res (list sr)) :=
  match from_parts (rs init) (re init) (rp init) with
  | None => [Panic]
  | Some i => api_into_vec (Leaf i) :: run_ops (Leaf i) ops
  end.

(** fold of insertions (used by the theorems) *)
Fixpoint tinsert_all (t : tree) (ops : list (sr * bool)) : option tree :=
  match ops with
  | [] => Some t
  | (x, force) :: rest =>
      match tinsert t x force with
      | None => None
      | Some t' => tinsert_all t' rest
      end
  end.
