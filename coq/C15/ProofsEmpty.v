(** C15 — lemmas, part 6: inserting an EMPTY range never panics, on any weakly well-formed tree
    (empty leaves allowed).  Its only effect is the Historic gap filling up to its position. *)
From V.Lib Require Import Base.
From V.Gen Require Import C15Tables.
From V.C15 Require Import Model Spec Sem Proofs ProofsTree ProofsVec ProofsSeq.
From Coq Require Import ZifyBool.
Local Open Scope Z_scope.

Lemma insert_leaf_empty_spec cur x f : valid cur -> rs x = re x ->
  exists j, insert cur x f = Some j /\
    tdesc (from_joined j) False (ins_spec (st_of (Leaf cur)) (rs x) (re x) (rp x) f).
Proof.
  intros V E. unfold insert, range_cmp. unfold valid in *.
  destruct (Z.leb_spec (rs x) (re x)); [|lia].
  destruct (Z.leb_spec (rs cur) (re cur)); [|lia]. cbn [andb].
  destruct (Z.leb_spec (re x) (rs cur)).
  { destruct (jn_spec x cur) as (j & -> & D); unfold valid; try lia.
    exists j; split; [reflexivity|]. eapply tdesc_ext; [exact D|tauto|..];
      destruct cur as [cs ce cp], x as [xs xe xp]; cbn [rs re rp lo hi pm st_of ins_spec span_s span_e at_tree] in *; try lia.
    intros h. unfold jn_pm, at_sr, in_range. cbn [rs re rp]. zb; try lia; reflexivity. }
  destruct (Z.leb_spec (re cur) (rs x)).
  { destruct (jn_spec cur x) as (j & -> & D); unfold valid; try lia.
    exists j; split; [reflexivity|]. eapply tdesc_ext; [exact D|tauto|..];
      destruct cur as [cs ce cp], x as [xs xe xp]; cbn [rs re rp lo hi pm st_of ins_spec span_s span_e at_tree] in *; try lia.
    intros h. unfold jn_pm, at_sr, in_range. cbn [rs re rp]. zb; try lia; reflexivity. }
  destruct (Z.compare_spec (rs x) (rs cur)); destruct (Z.compare_spec (re x) (re cur)); try lia.
  destruct (join_overlapping_right_spec cur x f) as (j & -> & D); unfold nonempty, valid; try lia.
  exists j; split; [reflexivity|]. eapply tdesc_ext; [exact D|unfold nonempty; lia|reflexivity..].
Qed.

Lemma parent_ins_right_w l r x f r' :
  wwf l -> wwf r -> span_e l = span_s r -> rs x = re x -> span_e l <= rs x ->
  tdesc r' False (ins_spec (st_of r) (rs x) (re x) (rp x) f) ->
  tdesc (Parent (span_s l) (span_e r') l r') False
        (ins_spec (st_of (Parent (span_s l) (span_e r) l r)) (rs x) (re x) (rp x) f).
Proof.
  intros Wl Wr C V L (A & B & S1 & S2 & P).
  pose proof (wwf_span l Wl). pose proof (wwf_span r Wr).
  cbn [lo hi pm ins_spec st_of] in *. unfold tdesc. cbn [wwf wf span_s span_e lo hi pm ins_spec st_of at_tree].
  split; [repeat split; auto; lia|]. split; [tauto|]. split; [lia|]. split; [lia|].
  intros h. rewrite P. pointwise l r Wl Wr h; rewrite ?El, ?Er; cbn [orelse];
    unfold in_range; zb; try lia; reflexivity.
Qed.

Lemma parent_ins_left_w l r x f l' :
  wwf l -> wwf r -> span_e l = span_s r -> rs x = re x -> re x <= span_e l ->
  tdesc l' False (ins_spec (st_of l) (rs x) (re x) (rp x) f) ->
  tdesc (Parent (span_s l') (span_e r) l' r) False
        (ins_spec (st_of (Parent (span_s l) (span_e r) l r)) (rs x) (re x) (rp x) f).
Proof.
  intros Wl Wr C V L (A & B & S1 & S2 & P).
  pose proof (wwf_span l Wl). pose proof (wwf_span r Wr).
  cbn [lo hi pm ins_spec st_of] in *. unfold tdesc. cbn [wwf wf span_s span_e lo hi pm ins_spec st_of at_tree].
  split; [repeat split; auto; lia|]. split; [tauto|]. split; [lia|]. split; [lia|].
  intros h. rewrite P. pointwise l r Wl Wr h; rewrite ?El, ?Er; cbn [orelse];
    unfold in_range; zb; try lia; reflexivity.
Qed.

Lemma tinsert_empty_spec t : wwf t -> forall x f, rs x = re x ->
  exists t', tinsert t x f = Some t' /\
    tdesc t' False (ins_spec (st_of t) (rs x) (re x) (rp x) f).
Proof.
  induction t as [cur|ss se l IHl r IHr]; intros W x f V.
  - cbn [wwf] in W. cbn [tinsert].
    destruct (insert_leaf_empty_spec cur x f W V) as (j & -> & D). eauto.
  - cbn [wwf] in W. destruct W as (Wl & Wr & C & -> & ->).
    specialize (IHl Wl). specialize (IHr Wr).
    pose proof (wwf_span l Wl) as Sl. pose proof (wwf_span r Wr) as Sr.
    assert (RIGHT : span_e l <= rs x ->
      exists t', match tinsert r x f with
                 | Some r' => Some (Parent (span_s l) (span_e r') l r') | None => None end = Some t' /\
        tdesc t' False (ins_spec (st_of (Parent (span_s l) (span_e r) l r)) (rs x) (re x) (rp x) f)).
    { intros L. destruct (IHr x f V) as (r' & -> & D). eexists; split; [reflexivity|].
      apply parent_ins_right_w; assumption. }
    assert (LEFT : re x <= span_e l ->
      exists t', match tinsert l x f with
                 | Some l' => Some (Parent (span_s l') (span_e r) l' r) | None => None end = Some t' /\
        tdesc t' False (ins_spec (st_of (Parent (span_s l) (span_e r) l r)) (rs x) (re x) (rp x) f)).
    { intros L. destruct (IHl x f V) as (l' & -> & D). eexists; split; [reflexivity|].
      apply parent_ins_left_w; assumption. }
    cbn [tinsert]. cbv zeta. unfold range_cmp.
    destruct (Z.leb_spec (span_s l) (span_e r)); [|lia]. destruct (Z.leb_spec (rs x) (re x)); [|lia]. cbn [andb].
    destruct (Z.leb_spec (span_e r) (rs x)); [apply RIGHT; lia|].
    destruct (Z.leb_spec (re x) (span_s l)); [apply LEFT; lia|].
    destruct (Z.compare_spec (span_s l) (rs x)); destruct (Z.compare_spec (span_e r) (re x));
      rewrite ?Z.gtb_ltb, ?Z.geb_leb;
      repeat match goal with
             | |- context [Z.ltb ?a ?b] => destruct (Z.ltb_spec a b)
             | |- context [Z.leb ?a ?b] => destruct (Z.leb_spec a b)
             end;
      try (apply RIGHT; lia); try (apply LEFT; lia); try lia.
Qed.

Definition emptyr (r : sr) : Prop := rs r = re r.

Lemma fold_spec_app_e a b : forall st, fold_spec st (a ++ b) = fold_spec (fold_spec st a) b.
Proof. induction a as [|[[[s e] p] f] a IH]; intros st; cbn [app fold_spec]; auto. Qed.

(** any number of empty insertions into a weakly well-formed tree *)
Lemma tinsert_all_empty_spec tl : forall t, wwf t -> Forall (fun o => emptyr (fst o)) tl ->
  exists t', tinsert_all t tl = Some t' /\ wwf t' /\
    st_eq (st_of t') (fold_spec (st_of t) (map op_row tl)).
Proof.
  induction tl as [|[x f] tl IH]; intros t W F.
  - exists t. cbn. auto using st_eq_refl.
  - inversion F as [|? ? N F']; subst. cbn [fst] in N.
    destruct (tinsert_empty_spec t W x f N) as (t1 & E1 & D1).
    apply tdesc_st_eq in D1. destruct D1 as (W1 & _ & S1).
    destruct (IH t1 W1 F') as (t' & E' & W' & S').
    exists t'. cbn [tinsert_all]. rewrite E1. split; [exact E'|]. split; [exact W'|].
    eapply st_eq_trans; [exact S'|]. cbn [map fold_spec op_row fst snd row_of].
    apply fold_spec_ext. exact S1.
Qed.

(** non-empty insertions followed by empty ones: the sequences on which the tree never panics *)
Lemma tinsert_all_tail_spec ops tl : forall t, wf t ->
  Forall (fun o => nonempty (fst o)) ops -> Forall (fun o => emptyr (fst o)) tl ->
  exists t', tinsert_all t (ops ++ tl) = Some t' /\ wwf t' /\
    st_eq (st_of t') (fold_spec (st_of t) (map op_row (ops ++ tl))).
Proof.
  intros t W F1 F2. destruct (tinsert_all_spec ops t W F1) as (t1 & E1 & W1 & S1).
  destruct (tinsert_all_empty_spec tl t1 (wf_wwf t1 W1) F2) as (t' & E' & W' & S').
  exists t'. split.
  - clear - E1 E'. revert t E1. induction ops as [|[x f] ops IH]; intros t E1; cbn [app tinsert_all] in *.
    + injection E1 as ->. exact E'.
    + destruct (tinsert t x f); [apply IH; exact E1|discriminate].
  - split; [exact W'|]. eapply st_eq_trans; [exact S'|]. rewrite map_app.
    clear - S1. revert S1. generalize (st_of t1) (st_of t). intros a b S1.
    rewrite fold_spec_app_e. apply fold_spec_ext. exact S1.
Qed.
