(** C15 — property theorems only. Each is closed by [exact] of a lemma from the Proofs*.v /
    Bridge.v files and audited by Print Assumptions. *)
From V.Lib Require Import Base.
From V.Gen Require Import C15Tables.
From V.C15 Require Import Model Spec Sem QModel QSpec Corr Wf Proofs ProofsTree ProofsVec ProofsSeq ProofsCanon Bridge
  ProofsEmpty QProofs QProofsOps QProofsTerm QProofsMore QProofsPrune QProofsRewind QBridge.
Local Open Scope Z_scope.

(** ** Priorities *)

(** The derive(Ord) order regenerated from the source is the documented priority order. *)
Theorem C15_prio_order : forall p, prio_rank p = spec_rank p.
Proof. exact prio_rank_spec. Qed.

(** The integer codes stored in SQLite are strictly monotone in the priority order (so the SQL
    comparisons [priority >= :min] and [ORDER BY priority] mean the Rust order), and decoding
    inverts encoding. *)
Theorem C15_prio_code_monotone : forall a b, prio_rank a < prio_rank b <-> prio_code a < prio_code b.
Proof. exact prio_code_monotone. Qed.
Theorem C15_prio_code_roundtrip : forall p, parse_prio_code (prio_code p) = Some p.
Proof. exact parse_prio_code_inverse. Qed.
Theorem C15_prio_code_only : forall c p, parse_prio_code c = Some p -> c = prio_code p.
Proof. exact parse_prio_code_only. Qed.

(** The code's [dominance] function is the documented rule [dom] for every pair of
    priorities, both insertion sides and both force flags (the side it names is the inserted
    range's side exactly when the inserted priority wins). *)
Theorem C15_dominance_table : forall c p on force, winner c p on force = dom c p force.
Proof. exact dominance_table. Qed.

(** ** One insertion *)

(** Inserting any valid range (possibly empty) into a well-formed tree does not panic; the
    result is weakly well-formed, well-formed if the range is non-empty, spans the hull, and
    its priority at every height is the dominance rule applied pointwise ([ins_spec]). This is
    insert_no_panic + insert_wf + insert_pointwise in one statement ([tdesc] unfolds to the
    five clauses). *)
Theorem C15_insert_spec : forall t, wf t -> forall x force, valid x ->
  exists t', tinsert t x force = Some t' /\
    (wwf t' /\ (nonempty x -> wf t') /\
     span_s t' = Z.min (span_s t) (rs x) /\ span_e t' = Z.max (span_e t) (re x) /\
     forall h, at_tree t' h = pm (ins_spec (st_of t) (rs x) (re x) (rp x) force) h).
Proof. exact tinsert_spec. Qed.

(** ** into_vec *)

(** On every weakly well-formed tree (empty leaves allowed) [into_vec] does not panic and
    returns a canonical queue — non-empty rows, each starting where the previous ends, adjacent
    priorities distinct — with the same priority at every height as the tree, covering exactly
    the tree's span. *)
Theorem C15_into_vec_canonical : forall t, wwf t ->
  exists v, into_vec t = Some v /\ canonical (map row_of v) /\
    (forall h, rows_at (map row_of v) h = at_tree t h) /\
    (v <> [] -> rows_lo (map row_of v) = Some (span_s t) /\ rows_hi (map row_of v) = Some (span_e t)).
Proof. exact into_vec_spec. Qed.

(** What canonical means, spelled out: rows non-empty; consecutive rows touch and differ in
    priority; any two rows are ordered (sorted, non-overlapping). *)
Theorem C15_canonical_nonempty : forall l, canonical l -> Forall (fun r => r_s r < r_e r) l.
Proof. exact canonical_rows_nonempty. Qed.
Theorem C15_canonical_adjacent : forall l, canonical l ->
  forall l1 a b l2, l = l1 ++ a :: b :: l2 -> r_e a = r_s b /\ r_p a <> r_p b.
Proof. exact canonical_adjacent. Qed.
Theorem C15_canonical_ordered : forall l, canonical l ->
  forall l1 a l2 b l3, l = l1 ++ a :: l2 ++ b :: l3 -> r_e a <= r_s b.
Proof. exact canonical_ordered. Qed.

(** ** Sequences *)

(** For ALL insertion sequences of non-empty ranges into a non-empty leaf: nothing panics and
    [into_vec] is the canonical queue whose priority at every height is the dominance rule
    folded pointwise over the insertions (gaps Historic), covering exactly the hull. *)
Theorem C15_queue_of_insertions : forall init ops,
  nonempty init -> Forall (fun o => nonempty (fst o)) ops ->
  exists t v, tinsert_all (Leaf init) ops = Some t /\ into_vec t = Some v /\
    canonical (map row_of v) /\
    (forall h, rows_at (map row_of v) h = pm (spec_after init ops) h) /\
    rows_lo (map row_of v) = Some (lo (spec_after init ops)) /\
    rows_hi (map row_of v) = Some (hi (spec_after init ops)).
Proof. exact queue_of_insertions. Qed.

(** The same when the LAST inserted range may be empty — the only way the wallet ever inserts
    an empty range (update_chain_tip's zero-length Verify entry). *)
Theorem C15_insert_last_may_be_empty : forall init ops x force,
  nonempty init -> Forall (fun o => nonempty (fst o)) ops -> valid x ->
  exists t v, tinsert_all (Leaf init) (ops ++ [(x, force)]) = Some t /\ into_vec t = Some v /\
    canonical (map row_of v) /\
    (forall h, rows_at (map row_of v) h = pm (spec_after init (ops ++ [(x, force)])) h).
Proof. exact queue_of_insertions_last. Qed.

(** Known finding (class 1): with an empty range that is not last, the public tree API panics. *)
Theorem C15_insert_empty_range_refuted :
  exists init ops, valid init /\ Forall (fun o => valid (fst o)) ops /\ tinsert_all (Leaf init) ops = None.
Proof. exact insert_empty_range_refuted. Qed.

(** Inserting an EMPTY range never panics, on any weakly well-formed tree (empty leaves allowed);
    its only effect is the Historic gap filling up to its position. *)
Theorem C15_insert_empty_never_panics : forall t, wwf t -> forall x force, rs x = re x ->
  exists t', tinsert t x force = Some t' /\
    (wwf t' /\ (False -> wf t') /\
     span_s t' = Z.min (span_s t) (rs x) /\ span_e t' = Z.max (span_e t) (re x) /\
     forall h, at_tree t' h = pm (ins_spec (st_of t) (rs x) (re x) (rp x) force) h).
Proof. exact tinsert_empty_spec. Qed.

(** Hence: non-empty insertions followed by any number of empty ones never panic (the exact
    shape of the sequences outside the known-finding class: the class needs an empty range
    followed, later, by a non-empty one). *)
Theorem C15_nonempty_then_empty : forall ops tl t, wf t ->
  Forall (fun o => nonempty (fst o)) ops -> Forall (fun o => emptyr (fst o)) tl ->
  exists t', tinsert_all t (ops ++ tl) = Some t' /\ wwf t' /\
    st_eq (st_of t') (fold_spec (st_of t) (map op_row (ops ++ tl))).
Proof. exact tinsert_all_tail_spec. Qed.

(** ** Bridge *)

(** On every case in the domain and outside the known-finding class, agreement of the
    implementation with the model implies the property on the implementation's observations. *)
Theorem C15_agree_implies_property : forall c, part_a c = true ->
  wf_case c = true -> known_class c = 0%N -> run_case c = true -> prop_case c = true.
Proof. exact agree_implies_property. Qed.

(** ** Part B: the stored queue *)

(** replace_queue_entries on a canonical stored queue [q] ([chain q]), for a query range that
    selects at least one stored row ([touches]: overlapping or adjacent), with entries that lie
    inside the query range, all non-empty except possibly the last: no panic, no constraint
    error, the new stored queue is canonical, and its priority at every height is the dominance
    rule folded over the entries starting from the selected rows inside the rebuilt interval
    and unchanged outside. *)
Theorem C15_replace_queue_entries : forall q qs qe es l force,
  chain q -> qs <= qe -> touches q qs qe ->
  Forall nonempty es -> valid l -> Forall (within qs qe) (es ++ [l]) ->
  exists q', replace_queue_entries q qs qe (es ++ [l]) force = Ok q' /\ chain q' /\ q' <> [] /\
    let S := replace_state q qs qe (es ++ [l]) force in
    (forall h, rows_at (map row_of q') h = if in_range (lo S) (hi S) h then pm S h else rows_at (map row_of q) h) /\
    (forall h, in_range (lo S) (hi S) h = true ->
               rows_at (map row_of q) h = rows_at (map row_of (filter (selp qs qe) q)) h).
Proof. exact replace_touching. Qed.

(** The same for entries that are non-empty followed by any number of empty ones, with the
    coverage and no-new-Ignored consequences. *)
Theorem C15_replace_queue_entries_general : forall q qs qe es tl force,
  chain q -> qs <= qe -> touches q qs qe ->
  Forall nonempty es -> Forall emptyr tl -> Forall (within qs qe) (es ++ tl) ->
  exists q', replace_queue_entries q qs qe (es ++ tl) force = Ok q' /\ chain q' /\ q' <> [] /\
    let S := replace_state q qs qe (es ++ tl) force in
    (forall h, rows_at (map row_of q') h = if in_range (lo S) (hi S) h then pm S h else rows_at (map row_of q) h) /\
    (forall h, in_range (lo S) (hi S) h = true ->
               rows_at (map row_of q) h = rows_at (map row_of (filter (selp qs qe) q)) h) /\
    (forall h, rows_at (map row_of q) h <> None -> rows_at (map row_of q') h <> None) /\
    (forall e h, In e (es ++ tl) -> in_range (rs e) (re e) h = true -> rows_at (map row_of q') h <> None) /\
    ((forall e, In e (es ++ tl) -> rp e <> Ignored) ->
     forall h, rows_at (map row_of q') h = Some Ignored -> rows_at (map row_of q) h = Some Ignored).
Proof. exact replace_touching_facts_g. Qed.

(** The first insertion into an EMPTY scan_queue table (entries: a first valid one — non-empty
    unless all are empty — then non-empty ones, then empty ones): no panic, no constraint error,
    the stored queue is the canonical queue of the dominance rule folded from the first entry. *)
Theorem C15_replace_empty_table : forall qs qe force e0 rest es tl,
  valid e0 -> (es = [] \/ nonempty e0) -> rest = es ++ tl -> Forall nonempty es -> Forall emptyr tl ->
  exists q', replace_queue_entries [] qs qe (e0 :: rest) force = Ok q' /\ chain q' /\
    forall h, rows_at (map row_of q') h = pm (fold_spec (st_of (Leaf e0)) (entry_ops force rest)) h.
Proof. exact replace_empty. Qed.

(** WalletDb::queue_rescans: ranges that are non-empty followed by any number of empty ones, on an
    empty table or on a canonical queue that their hull touches: succeeds, canonical result.
    Exactly which inputs panic: any inverted range (from_parts), and — inside the known-finding
    class only — an empty range followed later by a non-empty one (witness below; not every such
    input panics). *)
Theorem C15_queue_rescans : forall q p s0 e0 rest rn re_,
  chain q -> (s0, e0) :: rest = rn ++ re_ ->
  Forall (fun r => fst r < snd r) rn -> Forall (fun r => fst r = snd r) re_ ->
  (q = [] \/ touches q (hull_s s0 rest) (hull_e e0 rest)) ->
  exists q', queue_rescans q ((s0, e0) :: rest) p = Ok q' /\ chain q'.
Proof. exact queue_rescans_spec. Qed.
Theorem C15_queue_rescans_inverted : forall q p ranges,
  Exists (fun r => snd r < fst r) ranges -> queue_rescans q ranges p = Panic.
Proof. exact queue_rescans_inverted. Qed.
Theorem C15_queue_rescans_empty_not_last_refuted :
  exists q ranges p, chain q /\ Forall (fun r => fst r <= snd r) ranges /\ queue_rescans q ranges p = Panic.
Proof. exact queue_rescans_empty_not_last_refuted. Qed.

(** prune_scan_queue_below on a canonical queue: succeeds; the stored queue is the rewritten rows
    [v] followed by the untouched rows from [height] on, both canonical and contiguous; pointwise
    ([prune_pm]): heights at or above [height] unchanged; below, a retained priority stays, any
    other becomes Ignored from the lowest retained row on and is dropped beneath it. *)
Theorem C15_prune : forall q height retain, chain q ->
  let rest := filter (fun r => negb (rs r <? height)) q in
  exists v, prune_scan_queue_below q height retain = Ok (v ++ rest) /\
    chain v /\ chain rest /\
    (forall x y, last_opt v = Some x -> hd_opt rest = Some y -> re x = rs y) /\
    (forall h, rows_at (map row_of (v ++ rest)) h = prune_pm q height retain h).
Proof. exact prune_spec. Qed.

(** … so the result is canonical unless the last rewritten row and the first untouched row have
    the same priority; that junction is not coalesced (known finding, class 2, witness). *)
Theorem C15_prune_canonical : forall q height retain v, chain q ->
  let rest := filter (fun r => negb (rs r <? height)) q in
  prune_scan_queue_below q height retain = Ok (v ++ rest) -> chain v -> chain rest ->
  (forall x y, last_opt v = Some x -> hd_opt rest = Some y -> re x = rs y) ->
  (forall x y, last_opt v = Some x -> hd_opt rest = Some y -> rp x <> rp y) ->
  chain (v ++ rest).
Proof. exact prune_canonical. Qed.
Theorem C15_prune_junction_refuted :
  exists q height retain q', chain q /\ prune_scan_queue_below q height retain = Ok q' /\ ~ chain q'.
Proof. exact prune_junction_refuted. Qed.

(** scan_complete of a non-empty range that touches the stored queue, for every context (shard
    metadata, discovered note positions): succeeds, keeps the queue canonical, and marks exactly
    that range Scanned — the Scanned heights afterwards are the range plus those before; any other
    height keeps its priority, becomes FoundNote, or was uncovered and becomes Historic ([elsewhere]). *)
Theorem C15_scan_marks_exactly : forall c q s e sap orc iro,
  chain q -> s < e -> touches q s e ->
  exists q', scan_complete c q s e sap orc iro = Ok q' /\ chain q' /\
    (forall h, scanned_at q' h <-> (s <= h < e \/ scanned_at q h)) /\
    (forall h, rows_at (map row_of q) h <> None -> rows_at (map row_of q') h <> None) /\
    (forall h, rows_at (map row_of q') h = Some Ignored -> rows_at (map row_of q) h = Some Ignored) /\
    (forall h, ~ (s <= h < e) -> elsewhere (rows_at (map row_of q) h) (rows_at (map row_of q') h)).
Proof. exact scan_complete_spec. Qed.

(** update_chain_tip (as repaired) never panics in building its ranges: it inserts an optional
    non-empty ChainTip range and then one valid, possibly empty range that is never Scanned and is
    Verify only above the max scanned height, and Ignored only when there is no account.  Guard:
    heights are u32 and the tip is below u32::MAX (a tip below the wallet birthday, including
    tip = birthday - 1, is an early return in the repaired code). *)
Theorem C15_tip_plan : forall c t, ctx_ok c t ->
  exists p, tip_plan c t = Ok p /\
    match p with
    | None => True
    | Some (qs, qe, entries) =>
        qs <= qe /\
        exists es l, entries = es ++ [l] /\ Forall nonempty es /\ valid l /\ Forall (within qs qe) entries /\
          Forall (fun r => rp r = ChainTip) es /\
          (rp l <> Scanned) /\ (rp l = Verify -> exists ms, max_scanned c = Some ms /\ ms < rs l) /\
          (rp l = Ignored -> birthday c = None)
    end.
Proof. exact tip_plan_spec. Qed.

(** … and when its query touches the canonical stored queue it succeeds, keeps the queue
    canonical, marks nothing Scanned, un-scans nothing at or below the max scanned height, and the
    heights that are Verify afterwards are those before plus exactly the documented Verify range. *)
Theorem C15_update_chain_tip : forall c q t qs qe entries,
  chain q -> ctx_ok c t -> tip_plan c t = Ok (Some (qs, qe, entries)) -> touches q qs qe ->
  exists q', update_chain_tip c q t = Ok q' /\ chain q' /\
    (forall h, scanned_at q' h -> scanned_at q h) /\
    (forall h, scanned_at q h -> (forall ms, max_scanned c = Some ms -> h <= ms) -> scanned_at q' h) /\
    (forall h, rows_at (map row_of q) h <> None -> rows_at (map row_of q') h <> None) /\
    (forall e h, In e entries -> in_range (rs e) (re e) h = true -> rows_at (map row_of q') h <> None) /\
    (birthday c <> None -> forall h, rows_at (map row_of q') h = Some Ignored -> rows_at (map row_of q) h = Some Ignored) /\
    (forall h, rows_at (map row_of q') h = Some Verify <->
               rows_at (map row_of q) h = Some Verify \/
               exists vs ve, expected_verify c t = Some (vs, ve) /\ vs <= h < ve).
Proof. exact update_chain_tip_spec. Qed.

(** The plan's last entry is the Verify range exactly when the documented rule ([expected_verify]:
    shard metadata below the new chain end, max scanned block at least PRUNING_DEPTH below the new
    tip: the VERIFY_LOOKAHEAD blocks above it, limited to the stable region) asks for one. *)
Theorem C15_tip_plan_verify : forall c t, ctx_ok c t ->
  exists p, tip_plan c t = Ok p /\
    match p with
    | None => expected_verify c t = None
    | Some (_, _, entries) =>
        exists es l, entries = es ++ [l] /\
          (rp l = Verify -> expected_verify c t = Some (rs l, re l)) /\
          (rp l <> Verify -> expected_verify c t = None)
    end.
Proof. exact tip_plan_verify. Qed.

(** Rewind: trimming keeps the queue canonical and forgets exactly the heights above. *)
Theorem C15_trim : forall q mh, chain q -> 0 <= mh ->
  chain (trim_scan_queue_to q mh) /\
  forall h, rows_at (map row_of (trim_scan_queue_to q mh)) h =
            if h <=? Z.min mh (u32_max - 1) then rows_at (map row_of q) h else None.
Proof. exact trim_spec. Qed.

(** rewind_to_chain_state (also the tail of add_account) on a canonical queue whose recorded chain
    tip [t] is above the target: with [trunc] the height the wallet data is actually truncated to
    (at or above the target, inside the pruning window) and a stored row touching target + 1 that
    survives the truncation: succeeds, canonical, and afterwards a height is Scanned exactly when
    it was Scanned before and is at or below the TARGET (nothing above the target stays Scanned,
    whatever the truncation height was). *)
Theorem C15_rewind : forall c q target floor t,
  chain q -> chain_tip_height q = Some t -> (forall r, In r q -> 0 <= rs r) ->
  0 <= target < t -> t < u32_max ->
  let trimming := match max_scanned c with Some ms => target <? ms | None => false end in
  let trunc := match max_scanned c with
               | Some ms => match floor with Some f => f | None => hsub ms (PRUNING_DEPTH - 1) end
               | None => 0 end in
  (trimming = true -> target <= trunc < u32_max) ->
  (exists r, In r q /\ rs r <= target + 1 <= re r /\ (trimming = true -> rs r <= trunc)) ->
  exists q', rewind_to_chain_state c q target floor = Ok q' /\ chain q' /\
    (forall h, scanned_at q' h <-> scanned_at q h /\ h <= target).
Proof. exact rewind_spec. Qed.

(** ** Termination of the client loop *)

(** Any non-empty part of a range the wallet suggests is a legal scan step: it touches the queue
    and none of its heights is Scanned. *)
Theorem C15_suggested_is_unscanned : forall q r s e, chain q -> In r (suggest_scan_ranges q Historic) ->
  rs r <= s -> s < e -> e <= re r ->
  touches q s e /\ forall h, s <= h < e -> ~ scanned_at q h.
Proof. exact suggested_is_unscanned. Qed.

(** A scan step lowers the measure (heights of the window not Scanned) by exactly the number of
    blocks scanned; a chain-tip update leaves it unchanged. *)
Theorem C15_scan_step_measure : forall c q s e sap orc iro q' w n,
  chain q -> s < e -> touches q s e -> scan_complete c q s e sap orc iro = Ok q' ->
  w <= s -> e <= w + Z.of_nat n -> (forall h, s <= h < e -> ~ scanned_at q h) ->
  chain q' /\ unscanned q' w n = unscanned q w n - (e - s).
Proof. exact scan_step_measure. Qed.

(** A rewind to [mh] raises the measure by exactly the heights it re-exposes (Scanned before,
    above [mh]), at most the part of the window above [mh]; it keeps the invariants. *)
Theorem C15_trim_step : forall q mh w n b, chain q -> 0 <= mh ->
  chain (trim_scan_queue_to q mh) /\
  unscanned (trim_scan_queue_to q mh) w n = unscanned q w n + reexposed q mh w n /\
  (no_ignored_from b q -> no_ignored_from b (trim_scan_queue_to q mh)).
Proof. exact trim_step. Qed.
Theorem C15_reexposed_above : forall q mh w n, mh < u32_max ->
  reexposed q mh w n <= Z.max 0 (w + Z.of_nat n - 1 - mh).
Proof. exact reexposed_above. Qed.

(** Every run of the client loop inside a window of [n] heights — scan steps on unscanned ranges,
    chain-tip updates, rewinds, in any order — keeps the queue canonical and keeps "no Ignored
    height from the birthday on"; its number [k] of scan steps is at most the unscanned heights it
    started with plus the heights [r] re-exposed by its rewinds, hence at most n + r. *)
Theorem C15_run_invariant : forall w n b q k r q'', chain q -> run w n q k r q'' ->
  chain q'' /\ Z.of_nat k <= unscanned q w n - unscanned q'' w n + r /\ 0 <= r /\
  (no_ignored_from b q -> no_ignored_from b q'').
Proof. exact run_measure. Qed.
Theorem C15_sync_terminates : forall w n q k r q'', chain q -> run w n q k r q'' ->
  Z.of_nat k <= unscanned q w n + r /\ Z.of_nat k <= Z.of_nat n + r.
Proof. exact sync_terminates. Qed.

(** Quiescence under the reachable-state invariant: canonical queue, no Ignored height from the
    birthday on, birthday and tip covered, nothing suggested: every height from the birthday to
    the tip is Scanned. *)
Theorem C15_quiescent_full : forall q b t, chain q -> no_ignored_from b q ->
  rows_at (map row_of q) b <> None -> rows_at (map row_of q) t <> None ->
  suggest_scan_ranges q Historic = [] ->
  forall h, b <= h <= t -> scanned_at q h.
Proof. exact quiescent_full. Qed.

(** When nothing is suggested any more, every covered height is Scanned or Ignored. *)
Theorem C15_quiescent : forall q, chain q -> suggest_scan_ranges q Historic = [] ->
  forall h p, rows_at (map row_of q) h = Some p -> p = Scanned \/ p = Ignored.
Proof. exact quiescent. Qed.

(** Bridge for the queue-level cases (scan, chain-tip update, rewind) inside the boolean domain
    [qdom]: canonical stored queue before, touching query, u32 context, no Scanned row above the
    max scanned block.  Agreement of the SQLite backend with the model implies the property on
    the observed rows and suggestions. *)
Theorem C15_agree_implies_property_queue : forall c, qdom c = true -> run_case c = true -> prop_case c = true.
Proof. exact agree_implies_property_q. Qed.

(** non-vacuity: a concrete sequence in the theorems' domain, evaluated *)
Example C15_example :
  match tinsert_all (Leaf (R 1 3 Scanned)) [(R 5 7 ChainTip, false); (R 0 9 Historic, false); (R 2 6 FoundNote, true)] with
  | Some t => into_vec t
  | None => None
  end = Some [R 0 1 Historic; R 1 2 Scanned; R 2 5 FoundNote; R 5 7 ChainTip; R 7 9 Historic].
Proof. reflexivity. Qed.
