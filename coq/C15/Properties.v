(** C15 — property theorems only (each closed by [exact] of a lemma). *)
From V.Lib Require Import Base.
From V.Gen Require Import C15Tables.
From V.C15 Require Import Model Spec Corr Wf Proofs.
Local Open Scope Z_scope.

(** The derive(Ord) order regenerated from the source is the documented priority order. *)
Theorem C15_prio_order : forall p, prio_rank p = spec_rank p.
Proof. exact prio_rank_spec. Qed.

(** The code's [dominance] function is the documented rule [dom], for every pair of
    priorities, both insertion sides and both force flags. *)
Theorem C15_dominance_table : forall c p on force, winner c p on force = dom c p force.
Proof. exact dominance_table. Qed.
