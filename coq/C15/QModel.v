(** C15 part B — executable model of the scan queue operations of zcash_client_sqlite:
      wallet/scanning.rs: suggest_scan_ranges, insert_queue_entries, replace_queue_entries,
                          prune_scan_queue_below, extend_range, scan_complete, update_chain_tip
      wallet.rs:          trim_scan_queue_to, fully_scanned_height
    The [scan_queue] table is a list of rows kept in [block_range_start] order (the table has
    no order of its own; the harness reads it with ORDER BY block_range_start).  Its UNIQUE
    constraints on start and on end are modelled ([Err DbConstraint]); the CHECK start < end
    cannot fire because empty rows are skipped before the INSERT.  The rest of the database the
    operations read is the context [ctx] (observed by the harness before every operation).
    Heights are u32 with saturating +/- (BlockHeight).  No proofs in this file. *)
From V.Lib Require Import Base.
From V.Gen Require Import C15Tables.
From V.C15 Require Import Model.
Local Open Scope Z_scope.

Inductive qerr : Set := DbConstraint | OtherErr.   (* the model never returns OtherErr *)
Definition qres (A : Type) := outcome A qerr.

Definition bind {A B} (x : qres A) (f : A -> qres B) : qres B :=
  match x with Ok a => f a | Err e => Err e | Panic => Panic end.
Notation "'do' x <- a ; b" := (bind a (fun x => b)) (at level 200, x name, a at level 100, b at level 200).
Definition of_opt {A} (o : option A) : qres A := match o with Some a => Ok a | None => Panic end.

Definition u32_max : Z := 4294967295.
Definition hadd (h n : Z) : Z := Z.min (h + n) u32_max.       (* BlockHeight + u32, saturating *)
Definition hsub (h n : Z) : Z := Z.max (h - n) 0.             (* saturating_sub *)

Definition queue := list sr.

(** rows in start order *)
Fixpoint ins_start (r : sr) (q : queue) : queue :=
  match q with
  | [] => [r]
  | x :: q' => if rs r <? rs x then r :: q else x :: ins_start r q'
  end.

(** one INSERT INTO scan_queue: UNIQUE(block_range_start), UNIQUE(block_range_end) *)
Definition q_insert (r : sr) (q : queue) : qres queue :=
  if existsb (fun x => (rs x =? rs r) || (re x =? re r)) q then Err DbConstraint
  else Ok (ins_start r q).

(** [insert_queue_entries]: empty entries are skipped *)
Fixpoint insert_queue_entries (entries : list sr) (q : queue) : qres queue :=
  match entries with
  | [] => Ok q
  | r :: rest =>
      if negb (is_empty r) then do q' <- q_insert r q; insert_queue_entries rest q'
      else insert_queue_entries rest q
  end.

(** ORDER BY block_range_end *)
Fixpoint ins_end (r : sr) (l : list sr) : list sr :=
  match l with
  | [] => [r]
  | x :: l' => if re r <? re x then r :: l else x :: ins_end r l'
  end.
Definition sort_end (l : list sr) : list sr := fold_right ins_end [] l.

(** the loop "to_create = match to_create { Some(cur) => cur.insert(entry), None => Leaf(entry) }" *)
Fixpoint fold_tree (t : option tree) (rows : list sr) (force : bool) : option (option tree) :=
  match rows with
  | [] => Some t
  | r :: rest =>
      match t with
      | None => fold_tree (Some (Leaf r)) rest force
      | Some cur =>
          match tinsert cur r force with
          | None => None
          | Some t' => fold_tree (Some t') rest force
          end
      end
  end.

(** WHERE NOT (block_range_start > :end OR :start > block_range_end) *)
Definition selp (qs qe : Z) (r : sr) : bool := negb ((rs r >? qe) || (qs >? re r)).

Definition replace_queue_entries (q : queue) (qs qe : Z) (entries : list sr) (force : bool) : qres queue :=
  let sel := sort_end (filter (selp qs qe) q) in
  match fold_tree None (sel ++ entries) force with
  | None => Panic
  | Some None => Ok q
  | Some (Some t) =>
      let ends := map re sel in
      (* DELETE FROM scan_queue WHERE block_range_end IN rarray(:ends) *)
      let q1 := filter (fun r => negb (existsb (Z.eqb (re r)) ends)) q in
      do v <- of_opt (into_vec t);
      insert_queue_entries v q1
  end.

(** [suggest_scan_ranges]: WHERE priority >= :min ORDER BY priority DESC, block_range_end DESC *)
Definition sugg_before (a b : sr) : bool :=
  (prio_code (rp a) >? prio_code (rp b)) ||
  ((prio_code (rp a) =? prio_code (rp b)) && (re a >? re b)).
Fixpoint ins_sugg (r : sr) (l : list sr) : list sr :=
  match l with
  | [] => [r]
  | x :: l' => if sugg_before r x then r :: l else x :: ins_sugg r l'
  end.
Definition suggest_scan_ranges (q : queue) (min_priority : prio) : list sr :=
  fold_right ins_sugg [] (filter (fun r => prio_code (rp r) >=? prio_code min_priority) q).

(** [trim_scan_queue_to(max_height)] *)
Definition trim_scan_queue_to (q : queue) (max_height : Z) : queue :=
  let new_end := hadd max_height 1 in
  map (fun r => if re r >? new_end then R (rs r) new_end (rp r) else r)
      (filter (fun r => negb (rs r >=? new_end)) q).

(** ** context *)
Record ctx : Set := Ctx {
  sapling_act : option Z;        (* params.activation_height(Sapling) *)
  nu5_act : option Z;
  nu6_3_act : option Z;
  max_scanned : option Z;        (* MAX(height) FROM blocks *)
  birthday : option Z;           (* MIN(birthday_height) FROM accounts *)
  sapling_shards : list (Z * option Z);   (* (shard_index, subtree_end_height) *)
  orchard_shards : list (Z * option Z);
  ironwood_shards : list (Z * option Z)
}.

Fixpoint shard_end (tbl : list (Z * option Z)) (idx : Z) : option Z :=
  match tbl with
  | [] => None
  | (i, e) :: rest => if i =? idx then e else shard_end rest idx
  end.

(** SELECT MAX(subtree_end_height) *)
Definition omax (a : option Z) (b : option Z) : option Z :=
  match a, b with
  | Some x, Some y => Some (Z.max x y)
  | Some x, None => Some x
  | None, y => y
  end.
Definition tip_shard_end_height (tbl : list (Z * option Z)) : option Z :=
  fold_right (fun ie acc => omax (snd ie) acc) None tbl.
Definition omin_list (l : list (option Z)) : option Z :=
  fold_right (fun a acc => match a, acc with
                           | Some x, Some y => Some (Z.min x y)
                           | Some x, None => Some x
                           | None, y => y
                           end) None l.

(** Address::above_position(SHARD_HEIGHT, position).index(); the shard heights come from Gen/C15Tables.v *)
Definition subtree_index (shard_height pos : Z) : Z := pos / 2 ^ shard_height.

Definition list_min (l : list Z) : option Z :=
  match l with [] => None | x :: r => Some (fold_right Z.min x r) end.
Definition list_max (l : list Z) : option Z :=
  match l with [] => None | x :: r => Some (fold_right Z.max x r) end.

(** [extend_range] for one pool; [idxs] = required subtree indices *)
Definition extend_range (rs_ re_ : Z) (idxs : list Z) (tbl : list (Z * option Z))
           (fallback_start : option Z) (birthday_height : option Z) : option (Z * Z) :=
  match list_min idxs, list_max idxs with
  | Some min_idx, Some max_idx =>
      let range_min := if min_idx >? 0 then shard_end tbl (min_idx - 1) else fallback_start in
      let range_min := match range_min with
                       | Some h => Some (match birthday_height with Some b => Z.max b h | None => h end)
                       | None => None
                       end in
      let range_max := match shard_end tbl max_idx with Some e => Some (hadd e 1) | None => None end in
      Some (Z.min rs_ (match range_min with Some m => m | None => rs_ end),
            Z.max re_ (match range_max with Some m => m | None => re_ end))
  | _, _ => None
  end.

Definition or_else {A} (a b : option A) : option A := match a with Some _ => a | None => b end.

(** [scan_complete(range, wallet_note_positions)]: positions per pool *)
Definition scan_complete (c : ctx) (q : queue) (s e : Z) (sap orc iro : list Z) : qres queue :=
  let ext1 := extend_range s e (map (subtree_index SAPLING_SHARD_HEIGHT) sap) (sapling_shards c) (sapling_act c) (birthday c) in
  let r1 := match ext1 with Some r => r | None => (s, e) end in
  let ext2 := or_else (extend_range (fst r1) (snd r1) (map (subtree_index ORCHARD_SHARD_HEIGHT) orc) (orchard_shards c) (nu5_act c) (birthday c)) ext1 in
  let r2 := match ext2 with Some r => r | None => (s, e) end in
  let ext3 := or_else (extend_range (fst r2) (snd r2) (map (subtree_index IRONWOOD_SHARD_HEIGHT) iro) (ironwood_shards c) (nu6_3_act c) (birthday c)) ext2 in
  let query := match ext3 with Some r => r | None => (s, e) end in
  do scanned <- of_opt (from_parts s e Scanned);
  do before <- match ext3 with
               | Some (xs, _) => do r <- of_opt (from_parts xs s FoundNote); Ok (if is_empty r then [] else [r])
               | None => Ok []
               end;
  do after <- match ext3 with
              | Some (_, xe) => do r <- of_opt (from_parts e xe FoundNote); Ok (if is_empty r then [] else [r])
              | None => Ok []
              end;
  replace_queue_entries q (fst query) (snd query) (scanned :: before ++ after) false.

(** [update_chain_tip(new_tip)]: what it decides to insert ([None] = the early returns) *)
Definition tip_plan (c : ctx) (new_tip : Z) : qres (option (Z * Z * list sr)) :=
  match sapling_act c with
  | None => Ok None
  | Some sapling_activation =>
      if negb (sapling_activation <=? new_tip) then Ok None
      else if match max_scanned c with Some h => new_tip <? h | None => false end then Ok None
      else
        let chain_end := hadd new_tip 1 in
        (* the chain tip is below the wallet birthday: nothing to add *)
        if match birthday c with Some b => new_tip <? b | None => false end then Ok None else
        let min_shard_tip := omin_list [tip_shard_end_height (sapling_shards c);
                                        tip_shard_end_height (orchard_shards c);
                                        tip_shard_end_height (ironwood_shards c)] in
        do tip_shard_entry <-
          match min_shard_tip with
          | Some h =>
              if h <? chain_end then
                let min_to_scan := match birthday c with
                                   | Some b => if b >? h then b else h
                                   | None => h
                                   end in
                do r <- of_opt (from_parts min_to_scan chain_end ChainTip); Ok (Some r)
              else Ok None
          | None => Ok None
          end;
        do tip_entry <-
          match max_scanned c with
          | None =>
              match birthday c with
              | None => of_opt (from_parts sapling_activation chain_end Ignored)
              | Some b => of_opt (from_parts b chain_end Historic)
              end
          | Some ms =>
              let min_unscanned := hadd ms 1 in
              match tip_shard_entry with
              | None => of_opt (from_parts min_unscanned chain_end Historic)
              | Some _ =>
                  let stable_height := hsub new_tip PRUNING_DEPTH in
                  if ms >? stable_height then of_opt (from_parts min_unscanned chain_end ChainTip)
                  else of_opt (from_parts min_unscanned
                                 (Z.min (hadd stable_height 1) (hadd min_unscanned VERIFY_LOOKAHEAD)) Verify)
              end
          end;
        let '(qs, qe) := match tip_shard_entry with
                         | Some se => (Z.min (rs se) (rs tip_entry), Z.max (re se) (re tip_entry))
                         | None => (rs tip_entry, re tip_entry)
                         end in
        Ok (Some (qs, qe, match tip_shard_entry with Some se => [se] | None => [] end ++ [tip_entry]))
  end.

Definition update_chain_tip (c : ctx) (q : queue) (new_tip : Z) : qres queue :=
  do plan <- tip_plan c new_tip;
  match plan with
  | None => Ok q
  | Some (qs, qe, entries) => replace_queue_entries q qs qe entries false
  end.

(** [WalletDb::queue_rescans(ranges, priority)] (force_rescans = true) *)
Fixpoint all_from_parts (rs_ : list (Z * Z)) (p : prio) : qres (list sr) :=
  match rs_ with
  | [] => Ok []
  | (s, e) :: rest => do r <- of_opt (from_parts s e p); do l <- all_from_parts rest p; Ok (r :: l)
  end.
Definition queue_rescans (q : queue) (ranges : list (Z * Z)) (p : prio) : qres queue :=
  match ranges with
  | [] => Panic      (* NonEmpty *)
  | (s0, e0) :: rest =>
      let qs := fold_left (fun a r => Z.min a (fst r)) rest s0 in
      let qe := fold_left (fun a r => Z.max a (snd r)) rest e0 in
      (* the iterator is lazy: from_parts of the k-th range runs when the k-th entry is
         inserted; a panic at any point aborts the transaction, so the order is immaterial *)
      do entries <- all_from_parts ranges p;
      replace_queue_entries q qs qe entries true
  end.

(** [prune_scan_queue_below(height, retain_with_priority)] -> new queue *)
Definition is_retained (retain : option prio) (p : prio) : bool :=
  match retain with
  | Some r => (prio_rank p <=? prio_rank Scanned) || (prio_rank p >=? prio_rank r)
  | None => false
  end.

Fixpoint coalesce (acc : list sr) (entries : list sr) : list sr :=   (* acc reversed *)
  match entries with
  | [] => rev acc
  | x :: rest =>
      match acc with
      | prev :: acc' =>
          if prio_eqb (rp prev) (rp x) && (re prev =? rs x)
          then coalesce (R (rs prev) (re x) (rp prev) :: acc') rest
          else coalesce (x :: acc) rest
      | [] => coalesce [x] rest
      end
  end.

Definition sr_eqb (a b : sr) : bool := (rs a =? rs b) && (re a =? re b) && prio_eqb (rp a) (rp b).

Definition prune_scan_queue_below (q : queue) (height : Z) (retain : option prio) : qres queue :=
  let existing := filter (fun r => rs r <? height) q in
  let fill_from := match filter (fun r => is_retained retain (rp r)) existing with
                   | [] => None | r :: _ => Some (rs r) end in
  let repl := flat_map (fun entry =>
                if is_retained retain (rp entry) then [entry]
                else
                  let pruned := R (rs entry) (Z.min (re entry) height) Ignored in
                  let kept := if re entry >? height then [R height (re entry) (rp entry)] else [] in
                  match fill_from with
                  | Some floor => if re pruned >? floor then pruned :: kept else kept
                  | None => kept
                  end) existing in
  let replacement := coalesce [] repl in
  if list_eqb sr_eqb replacement existing then Ok q
  else insert_queue_entries replacement (filter (fun r => negb (rs r <? height)) q).

(** [fully_scanned_height]: the first Scanned row, if it starts at or below the birthday *)
Definition fully_scanned_height (q : queue) (birthday_height : Z) : option Z :=
  match filter (fun r => prio_eqb (rp r) Scanned) q with
  | [] => None
  | r :: _ => if rs r <=? birthday_height then Some (re r - 1) else None
  end.

(** [chain_tip_height]: SELECT MAX(block_range_end) FROM scan_queue, minus one (saturating) *)
Definition chain_tip_height (q : queue) : option Z :=
  match q with
  | [] => None
  | x :: r => Some (hsub (fold_right (fun y a => Z.max (re y) a) (re x) r) 1)
  end.

(** [rewind_to_chain_state(target)] (also the tail of add_account): truncation inside the pruning
    window, then a forced Historic rescan range from the target up to the chain tip the queue had.
    [floor] is the lowest tree checkpoint at or above max(target, max_scanned - 99) (read back by
    the harness; None = no such checkpoint). Targets below every account birthday with an empty
    reset set (RewindBeyondBirthdays) are outside the model. *)
Definition rewind_to_chain_state (c : ctx) (q : queue) (target : Z) (floor : option Z) : qres queue :=
  let chain_tip := chain_tip_height q in
  let q1 := match max_scanned c with
            | Some ms =>
                if target <? ms then
                  trim_scan_queue_to q (match floor with Some f => f | None => hsub ms (PRUNING_DEPTH - 1) end)
                else q
            | None => q
            end in
  match chain_tip with
  | Some t =>
      if target <? t then
        do r <- of_opt (from_parts (hadd target 1) (hadd t 1) Historic);
        replace_queue_entries q1 (hadd target 1) (hadd t 1) [r] true
      else Ok q1
  | None => Ok q1
  end.

(** ** operations as data (harness protocol) *)
Inductive qop : Set :=
| OpTip (new_tip : Z)
| OpScan (s e : Z) (sap orc iro : list Z)
| OpRescan (ranges : list (Z * Z)) (p : prio)
| OpTrim (max_height : Z)
| OpPrune (height : Z) (retain : option prio)
| OpRewind (target : Z) (floor : option Z).

Definition apply_op (c : ctx) (q : queue) (o : qop) : qres queue :=
  match o with
  | OpTip t => update_chain_tip c q t
  | OpScan s e a b i => scan_complete c q s e a b i
  | OpRescan rs_ p => queue_rescans q rs_ p
  | OpTrim h => Ok (trim_scan_queue_to q h)
  | OpPrune h r => prune_scan_queue_below q h r
  | OpRewind t f => rewind_to_chain_state c q t f
  end.
