(** C15 — lemmas, part 2: one insertion into a tree, pointwise. *)
From V.Lib Require Import Base.
From V.Gen Require Import C15Tables.
From V.C15 Require Import Model Spec Sem Proofs.
From Coq Require Import ZifyBool.
Local Open Scope Z_scope.

(** what a tree [T] obtained by inserting has to satisfy *)
Definition tdesc (T : tree) (ne : Prop) (st : pstate) : Prop :=
  wwf T /\ (ne -> wf T) /\ span_s T = lo st /\ span_e T = hi st /\ forall h, at_tree T h = pm st h.

Ltac zb :=
  repeat match goal with
         | H : context [Z.leb ?a ?b] |- _ => destruct (Z.leb_spec a b)
         | H : context [Z.ltb ?a ?b] |- _ => destruct (Z.ltb_spec a b)
         | H : context [Z.eqb ?a ?b] |- _ => destruct (Z.eqb_spec a b)
         | H : context [Z.geb ?a ?b] |- _ => rewrite (Z.geb_leb a b) in H
         | H : context [Z.gtb ?a ?b] |- _ => rewrite (Z.gtb_ltb a b) in H
         | |- context [Z.geb ?a ?b] => rewrite (Z.geb_leb a b)
         | |- context [Z.gtb ?a ?b] => rewrite (Z.gtb_ltb a b)
         | |- context [Z.leb ?a ?b] => destruct (Z.leb_spec a b)
         | |- context [Z.ltb ?a ?b] => destruct (Z.ltb_spec a b)
         | |- context [Z.eqb ?a ?b] => destruct (Z.eqb_spec a b)
         | |- context [Z.compare ?a ?b] => destruct (Z.compare_spec a b)
         end; cbn [andb orb negb] in *.

(** join_nonoverlapping *)
Definition jn_pm (l r : sr) : pmap := fun h =>
  if in_range (rs l) (re l) h then Some (rp l)
  else if in_range (rs r) (re r) h then Some (rp r)
  else if in_range (re l) (rs r) h then Some Historic else None.

Lemma jnf_adj k l r : valid l -> valid r -> re l = rs r ->
  join_nonoverlapping_f (S k) l r =
  Some (if prio_eqb (rp l) (rp r) then One (R (rs l) (re r) (rp l)) else Two l r).
Proof.
  destruct l as [ls le lp], r as [s e p]. unfold valid. cbn [rs re rp join_nonoverlapping_f].
  intros V1 V2 ->. unfold from_parts. zb; try lia. destruct (prio_eqb lp p); reflexivity.
Qed.

Lemma jn_gap l r : valid l -> valid r -> re l < rs r ->
  join_nonoverlapping l r =
  Some (if prio_eqb (rp l) Historic
        then if prio_eqb Historic (rp r) then One (R (rs l) (re r) (rp l)) else Two (R (rs l) (rs r) (rp l)) r
        else if prio_eqb Historic (rp r) then Two l (R (re l) (re r) Historic)
             else Three l (R (re l) (rs r) Historic) r).
Proof.
  intros V1 V2 L. unfold join_nonoverlapping.
  change (join_nonoverlapping_f 2 l r) with
    (if re l <=? rs r then
        if re l =? rs r then
          if prio_eqb (rp l) (rp r)
          then match from_parts (rs l) (re r) (rp l) with Some m => Some (One m) | None => None end
          else Some (Two l r)
        else
          match from_parts (re l) (rs r) Historic with
          | None => None
          | Some gap =>
              match join_nonoverlapping_f 1 l gap with
              | Some (One merged) => join_nonoverlapping_f 1 merged r
              | Some (Two left' gap') =>
                  match join_nonoverlapping_f 1 gap' r with
                  | Some (One merged) => Some (Two left' merged)
                  | Some (Two gap'' right') => Some (Three left' gap'' right')
                  | _ => None
                  end
              | _ => None
              end
          end
      else None).
  unfold valid in *. unfold from_parts.
  destruct (Z.leb_spec (re l) (rs r)); [|lia].
  destruct (Z.eqb_spec (re l) (rs r)); [lia|].
  rewrite Z.geb_leb. destruct (Z.leb_spec (re l) (rs r)); [|lia].
  rewrite (jnf_adj 0 l (R (re l) (rs r) Historic)) by (unfold valid; cbn [rs re]; lia).
  cbn [rs re rp].
  destruct (prio_eqb (rp l) Historic) eqn:E2.
  - apply prio_eqb_eq in E2.
    rewrite (jnf_adj 0 (R (rs l) (rs r) (rp l)) r) by (unfold valid; cbn [rs re]; lia).
    cbn [rs re rp]. rewrite E2. reflexivity.
  - rewrite (jnf_adj 0 (R (re l) (rs r) Historic) r) by (unfold valid; cbn [rs re]; lia).
    cbn [rs re rp]. destruct (prio_eqb Historic (rp r)); reflexivity.
Qed.

Ltac peq :=
  repeat match goal with
         | H : prio_eqb _ _ = true |- _ => apply prio_eqb_eq in H
         | H : prio_eqb ?a ?b = false |- _ =>
             assert (a <> b) by (intro; subst; destruct b; discriminate H); clear H
         end.

Ltac tdesc_close :=
  cbn [from_joined wwf wf span_s span_e rs re rp at_tree lo hi pm];
  unfold at_sr, in_range, orelse; cbn [rs re rp];
  repeat split; try lia; intros; zb; try lia; try reflexivity; try congruence.

Lemma jn_spec l r : valid l -> valid r -> re l <= rs r ->
  exists j, join_nonoverlapping l r = Some j /\
    tdesc (from_joined j) (nonempty l /\ nonempty r) (PS (rs l) (re r) (jn_pm l r)).
Proof.
  intros V1 V2 L. destruct (Z.eq_dec (re l) (rs r)) as [E|NE].
  - unfold join_nonoverlapping. rewrite jnf_adj by assumption.
    destruct l as [ls le lp], r as [s e p]. unfold valid, nonempty, tdesc, jn_pm in *. cbn [rs re rp] in *.
    destruct (prio_eqb lp p) eqn:E1; peq; subst; (eexists; split; [reflexivity|]); tdesc_close.
  - rewrite jn_gap by (try assumption; lia).
    destruct l as [ls le lp], r as [s e p]. unfold valid, nonempty, tdesc, jn_pm in *. cbn [rs re rp] in *.
    destruct (prio_eqb lp Historic) eqn:E1; destruct (prio_eqb Historic p) eqn:E2; peq; subst;
      (eexists; split; [reflexivity|]); tdesc_close.
Qed.

Lemma tdesc_ext T (ne ne' : Prop) st st' :
  tdesc T ne st -> (ne' -> ne) -> lo st = lo st' -> hi st = hi st' -> (forall h, pm st h = pm st' h) ->
  tdesc T ne' st'.
Proof.
  intros (A & B & C & D & E) I L H P. unfold tdesc. repeat split; auto; try congruence.
Qed.

(** facts about [dom] extracted from the value of [dominance] *)
Lemma dominance_cases c p on force :
  (dominance c p on force = DEqual /\ c = p /\ dom c p force = c) \/
  (dominance c p on force = dom_of on /\ c <> p /\ dom c p force = p) \/
  (dominance c p on force = dom_of (flip on) /\ c <> p /\ dom c p force = c).
Proof. destruct c, p, on, force; vm_compute; intuition congruence. Qed.

Ltac leaf_close Hd :=
  (eexists; split; [reflexivity|]); unfold tdesc;
  cbn [from_joined wwf wf span_s span_e rs re rp at_tree lo hi pm st_of ins_spec];
  unfold at_sr, in_range, orelse; cbn [rs re rp];
  repeat split; try lia; intros; zb; try lia; rewrite ?Hd, ?dom_same; try reflexivity; try congruence.

Lemma join_overlapping_left_spec cur x f :
  nonempty cur -> nonempty x -> rs x <= rs cur -> re x > rs cur ->
  exists j, join_overlapping x cur SLeft f = Some j /\
    tdesc (from_joined j) True (ins_spec (st_of (Leaf cur)) (rs x) (re x) (rp x) f).
Proof.
  destruct cur as [cs ce cp], x as [xs xe xp]. unfold nonempty, tdesc. cbn [rs re rp]. intros N1 N2 L1 L2.
  unfold join_overlapping. cbn [rs re rp].
  destruct (dominance_cases cp xp SLeft f) as [(D & E & Hd)|[(D & E & Hd)|(D & E & Hd)]]; rewrite D; cbn [dom_of flip].
  - subst. unfold from_parts. cbn [rs re rp]. zb; try lia; leaf_close Hd.
  - unfold truncate_start, is_empty. cbn [rs re rp]. zb; try lia; leaf_close Hd.
  - unfold truncate_start, truncate_end, is_empty. cbn [rs re rp]. zb; try lia; leaf_close Hd.
Qed.

Lemma join_overlapping_right_spec cur x f :
  nonempty cur -> valid x -> rs cur <= rs x -> re cur > rs x ->
  exists j, join_overlapping cur x SRight f = Some j /\
    tdesc (from_joined j) (nonempty x) (ins_spec (st_of (Leaf cur)) (rs x) (re x) (rp x) f).
Proof.
  destruct cur as [cs ce cp], x as [xs xe xp]. unfold nonempty, valid, tdesc. cbn [rs re rp]. intros N1 N2 L1 L2.
  unfold join_overlapping. cbn [rs re rp].
  destruct (dominance_cases cp xp SRight f) as [(D & E & Hd)|[(D & E & Hd)|(D & E & Hd)]]; rewrite D; cbn [dom_of flip].
  - subst. unfold from_parts. cbn [rs re rp]. zb; try lia; leaf_close Hd.
  - unfold truncate_start, truncate_end, is_empty. cbn [rs re rp]. zb; try lia; leaf_close Hd.
  - unfold truncate_start, is_empty. cbn [rs re rp]. zb; try lia; leaf_close Hd.
Qed.

Lemma insert_leaf_spec cur x f : nonempty cur -> valid x ->
  exists j, insert cur x f = Some j /\
    tdesc (from_joined j) (nonempty x) (ins_spec (st_of (Leaf cur)) (rs x) (re x) (rp x) f).
Proof.
  intros N V. unfold insert, range_cmp.
  unfold nonempty, valid in *.
  destruct (Z.leb_spec (rs x) (re x)); [|lia].
  destruct (Z.leb_spec (rs cur) (re cur)); [|lia]. cbn [andb].
  destruct (Z.leb_spec (re x) (rs cur)).
  { destruct (jn_spec x cur) as (j & -> & D); unfold valid; try lia.
    exists j; split; [reflexivity|]. eapply tdesc_ext; [exact D|tauto|..];
      destruct cur as [cs ce cp], x as [xs xe xp]; cbn [rs re rp lo hi pm st_of ins_spec span_s span_e at_tree] in *; try lia.
    intros h. unfold jn_pm, at_sr, in_range. cbn [rs re rp]. zb; try lia; reflexivity. }
  destruct (Z.leb_spec (re cur) (rs x)).
  { destruct (jn_spec cur x) as (j & -> & D); unfold valid; try lia.
    exists j; split; [reflexivity|]. eapply tdesc_ext; [exact D|unfold nonempty; tauto|..];
      destruct cur as [cs ce cp], x as [xs xe xp]; cbn [rs re rp lo hi pm st_of ins_spec span_s span_e at_tree] in *; try lia.
    intros h. unfold jn_pm, at_sr, in_range. cbn [rs re rp]. zb; try lia; reflexivity. }
  destruct (Z.compare_spec (rs x) (rs cur)); destruct (Z.compare_spec (re x) (re cur)).
  - (* Equal *)
    destruct cur as [cs ce cp], x as [xs xe xp]. cbn [rs re rp] in *. subst. unfold from_parts. cbn [rs re rp].
    destruct (dominance_cases cp xp SRight f) as [(D & E & Hd)|[(D & E & Hd)|(D & E & Hd)]]; rewrite D; cbn [dom_of flip];
      zb; try lia; leaf_close Hd.
  - (* Eq, Lt : LeftContained *)
    apply join_overlapping_right_spec; unfold nonempty, valid; lia.
  - (* Eq, Gt : RightContained *)
    destruct (join_overlapping_left_spec cur x f) as (j & -> & D); unfold nonempty; try lia.
    exists j; split; [reflexivity|]. eapply tdesc_ext; [exact D|tauto|reflexivity..].
  - destruct (join_overlapping_left_spec cur x f) as (j & -> & D); unfold nonempty; try lia.
    exists j; split; [reflexivity|]. eapply tdesc_ext; [exact D|tauto|reflexivity..].
  - destruct (join_overlapping_left_spec cur x f) as (j & -> & D); unfold nonempty; try lia.
    exists j; split; [reflexivity|]. eapply tdesc_ext; [exact D|tauto|reflexivity..].
  - destruct (join_overlapping_left_spec cur x f) as (j & -> & D); unfold nonempty; try lia.
    exists j; split; [reflexivity|]. eapply tdesc_ext; [exact D|tauto|reflexivity..].
  - apply join_overlapping_right_spec; unfold nonempty, valid; lia.
  - apply join_overlapping_right_spec; unfold nonempty, valid; lia.
  - apply join_overlapping_right_spec; unfold nonempty, valid; lia.
Qed.

(** *** structure of well-formed trees *)
Lemma wf_wwf t : wf t -> wwf t.
Proof. induction t; cbn [wf wwf]; [lia|]. intuition. Qed.

Lemma wwf_span t : wwf t -> span_s t <= span_e t.
Proof. induction t; cbn [wwf span_s span_e]; [lia|]. intros (A & B & C & -> & ->). specialize (IHt1 A). specialize (IHt2 B). lia. Qed.

Lemma wf_span t : wf t -> span_s t < span_e t.
Proof. induction t; cbn [wf span_s span_e]; [lia|]. intros (A & B & C & -> & ->). specialize (IHt1 A). specialize (IHt2 B). lia. Qed.

Lemma at_cases t h : wwf t ->
  (span_s t <= h < span_e t /\ exists p, at_tree t h = Some p) \/
  (~ (span_s t <= h < span_e t) /\ at_tree t h = None).
Proof.
  induction t as [[s e p]|ss se l IHl r IHr]; cbn [wwf span_s span_e at_tree rs re].
  - intros V. unfold at_sr, in_range. cbn [rs re rp]. zb; [left|right..]; (split; [lia|]); eauto.
  - intros (A & B & C & -> & ->). specialize (IHl A). specialize (IHr B).
    pose proof (wwf_span l A). pose proof (wwf_span r B).
    destruct IHl as [(I1 & p1 & E1)|(O1 & E1)]; rewrite E1; cbn [orelse].
    + left. split; [lia|eauto].
    + destruct IHr as [(I2 & p2 & E2)|(O2 & E2)]; rewrite E2; [left|right]; (split; [lia|eauto]).
Qed.

Ltac pointwise l r Wl Wr h :=
  destruct (at_cases l h Wl) as [(?Il & ?pl & ?El)|(?Ol & ?El)];
  destruct (at_cases r h Wr) as [(?Ir & ?pr & ?Er)|(?Or & ?Er)].

Lemma parent_ins_right l r x f r' :
  wf l -> wf r -> span_e l = span_s r -> valid x -> span_e l <= rs x ->
  tdesc r' (nonempty x) (ins_spec (st_of r) (rs x) (re x) (rp x) f) ->
  tdesc (Parent (span_s l) (span_e r') l r') (nonempty x)
        (ins_spec (st_of (Parent (span_s l) (span_e r) l r)) (rs x) (re x) (rp x) f).
Proof.
  intros Wl Wr C V L (A & B & S1 & S2 & P).
  pose proof (wf_span l Wl). pose proof (wf_span r Wr). unfold valid in V.
  cbn [lo hi pm ins_spec st_of] in *. unfold tdesc. cbn [wwf wf span_s span_e lo hi pm ins_spec st_of at_tree].
  repeat split; auto using wf_wwf; try lia.
  intros h. rewrite P. pointwise l r (wf_wwf l Wl) (wf_wwf r Wr) h; rewrite ?El, ?Er; cbn [orelse];
    unfold in_range; zb; try lia; reflexivity.
Qed.

Lemma parent_ins_left l r x f l' :
  wf l -> wf r -> span_e l = span_s r -> valid x -> re x <= span_e l ->
  tdesc l' (nonempty x) (ins_spec (st_of l) (rs x) (re x) (rp x) f) ->
  tdesc (Parent (span_s l') (span_e r) l' r) (nonempty x)
        (ins_spec (st_of (Parent (span_s l) (span_e r) l r)) (rs x) (re x) (rp x) f).
Proof.
  intros Wl Wr C V L (A & B & S1 & S2 & P).
  pose proof (wf_span l Wl). pose proof (wf_span r Wr). unfold valid in V.
  cbn [lo hi pm ins_spec st_of] in *. unfold tdesc. cbn [wwf wf span_s span_e lo hi pm ins_spec st_of at_tree].
  repeat split; auto using wf_wwf; try lia.
  intros h. rewrite P. pointwise l r (wf_wwf l Wl) (wf_wwf r Wr) h; rewrite ?El, ?Er; cbn [orelse];
    unfold in_range; zb; try lia; reflexivity.
Qed.

Lemma parent_split l r xs xe p f l' r' :
  wf l -> wf r -> span_e l = span_s r -> xs < span_e l < xe ->
  tdesc l' True (ins_spec (st_of l) xs (span_e l) p f) ->
  tdesc r' True (ins_spec (st_of r) (span_e l) xe p f) ->
  tdesc (Parent (span_s l') (span_e r') l' r') True
        (ins_spec (st_of (Parent (span_s l) (span_e r) l r)) xs xe p f).
Proof.
  intros Wl Wr C L (A & B & S1 & S2 & P) (A' & B' & S1' & S2' & P').
  pose proof (wf_span l Wl). pose proof (wf_span r Wr).
  cbn [lo hi pm ins_spec st_of] in *. unfold tdesc. cbn [wwf wf span_s span_e lo hi pm ins_spec st_of at_tree].
  repeat split; auto; try lia.
  intros h. rewrite P, P'. pointwise l r (wf_wwf l Wl) (wf_wwf r Wr) h; rewrite ?El, ?Er; cbn [orelse];
    unfold in_range; zb; try lia; reflexivity.
Qed.

(** *** one insertion into a well-formed tree *)
Lemma tinsert_spec t : wf t -> forall x f, valid x ->
  exists t', tinsert t x f = Some t' /\
    tdesc t' (nonempty x) (ins_spec (st_of t) (rs x) (re x) (rp x) f).
Proof.
  induction t as [cur|ss se l IHl r IHr]; intros W x f V.
  - cbn [wf] in W. cbn [tinsert].
    destruct (insert_leaf_spec cur x f W V) as (j & -> & D). eauto.
  - cbn [wf] in W. destruct W as (Wl & Wr & C & -> & ->).
    specialize (IHl Wl). specialize (IHr Wr).
    pose proof (wf_span l Wl) as Sl. pose proof (wf_span r Wr) as Sr.
    assert (RIGHT : span_e l <= rs x ->
      exists t', match tinsert r x f with
                 | Some r' => Some (Parent (span_s l) (span_e r') l r') | None => None end = Some t' /\
        tdesc t' (nonempty x) (ins_spec (st_of (Parent (span_s l) (span_e r) l r)) (rs x) (re x) (rp x) f)).
    { intros L. destruct (IHr x f V) as (r' & -> & D). eexists; split; [reflexivity|].
      apply parent_ins_right; assumption. }
    assert (LEFT : re x <= span_e l ->
      exists t', match tinsert l x f with
                 | Some l' => Some (Parent (span_s l') (span_e r) l' r) | None => None end = Some t' /\
        tdesc t' (nonempty x) (ins_spec (st_of (Parent (span_s l) (span_e r) l r)) (rs x) (re x) (rp x) f)).
    { intros L. destruct (IHl x f V) as (l' & -> & D). eexists; split; [reflexivity|].
      apply parent_ins_left; assumption. }
    assert (SPLIT : rs x < span_e l < re x ->
      exists t', match split_at x (span_e l) with
                 | None => None
                 | Some (xl, xr) =>
                     match tinsert l xl f with
                     | None => None
                     | Some l' => match tinsert r xr f with
                                  | None => None
                                  | Some r' => Some (Parent (span_s l') (span_e r') l' r')
                                  end
                     end
                 end = Some t' /\
        tdesc t' (nonempty x) (ins_spec (st_of (Parent (span_s l) (span_e r) l r)) (rs x) (re x) (rp x) f)).
    { intros L. unfold split_at. rewrite Z.gtb_ltb.
      destruct (Z.ltb_spec (rs x) (span_e l)); [|lia]. destruct (Z.ltb_spec (span_e l) (re x)); [|lia]. cbn [andb].
      destruct (IHl (R (rs x) (span_e l) (rp x)) f) as (l' & -> & D1); [unfold valid; cbn [rs re]; lia|].
      destruct (IHr (R (span_e l) (re x) (rp x)) f) as (r' & -> & D2); [unfold valid; cbn [rs re]; lia|].
      eexists; split; [reflexivity|]. cbn [rs re rp] in D1, D2.
      eapply tdesc_ext; [apply (parent_split l r (rs x) (re x) (rp x) f l' r'); try assumption|tauto|reflexivity..].
      - eapply tdesc_ext; [exact D1|unfold nonempty; cbn [rs re]; lia|reflexivity..].
      - eapply tdesc_ext; [exact D2|unfold nonempty; cbn [rs re]; lia|reflexivity..]. }
    cbn [tinsert]. cbv zeta. unfold range_cmp. unfold valid in V.
    destruct (Z.leb_spec (span_s l) (span_e r)); [|lia]. destruct (Z.leb_spec (rs x) (re x)); [|lia]. cbn [andb].
    destruct (Z.leb_spec (span_e r) (rs x)); [apply RIGHT; lia|].
    destruct (Z.leb_spec (re x) (span_s l)); [apply LEFT; lia|].
    destruct (Z.compare_spec (span_s l) (rs x)); destruct (Z.compare_spec (span_e r) (re x));
      rewrite ?Z.gtb_ltb, ?Z.geb_leb;
      repeat match goal with
             | |- context [Z.ltb ?a ?b] => destruct (Z.ltb_spec a b)
             | |- context [Z.leb ?a ?b] => destruct (Z.leb_spec a b)
             end;
      try (apply RIGHT; lia); try (apply LEFT; lia); try (apply SPLIT; lia); try lia.
Qed.
