(** C15 — lemmas, part 4: sequences of insertions followed by [into_vec]. *)
From V.Lib Require Import Base.
From V.Gen Require Import C15Tables.
From V.C15 Require Import Model Spec Sem Proofs ProofsTree ProofsVec.
From Coq Require Import ZifyBool.
Local Open Scope Z_scope.

Definition st_eq (a b : pstate) : Prop := lo a = lo b /\ hi a = hi b /\ forall h, pm a h = pm b h.

Lemma st_eq_refl a : st_eq a a.
Proof. unfold st_eq. auto. Qed.
Lemma st_eq_trans a b c : st_eq a b -> st_eq b c -> st_eq a c.
Proof. unfold st_eq. intros (A & B & C) (D & E & F). split; [congruence|]. split; [congruence|]. intros h. rewrite C. apply F. Qed.

Lemma ins_spec_ext a b s e p f : st_eq a b -> st_eq (ins_spec a s e p f) (ins_spec b s e p f).
Proof.
  intros (A & B & C). unfold st_eq, ins_spec. cbn [lo hi pm]. rewrite A, B. split; [reflexivity|]. split; [reflexivity|].
  intros h. rewrite C. reflexivity.
Qed.

Lemma fold_spec_ext ops : forall a b, st_eq a b -> st_eq (fold_spec a ops) (fold_spec b ops).
Proof.
  induction ops as [|[[[s e] p] f] ops IH]; intros a b E; cbn [fold_spec]; [exact E|].
  apply IH. apply ins_spec_ext. exact E.
Qed.

Lemma tdesc_st_eq T ne st : tdesc T ne st <-> wwf T /\ (ne -> wf T) /\ st_eq (st_of T) st.
Proof. unfold tdesc, st_eq, st_of. cbn [lo hi pm]. tauto. Qed.

(** every inserted range non-empty: no panic, the tree stays well-formed and means the spec *)
Lemma tinsert_all_spec ops : forall t, wf t -> Forall (fun o => nonempty (fst o)) ops ->
  exists t', tinsert_all t ops = Some t' /\ wf t' /\
    st_eq (st_of t') (fold_spec (st_of t) (map op_row ops)).
Proof.
  induction ops as [|[x f] ops IH]; intros t W F.
  - exists t. cbn. auto using st_eq_refl.
  - inversion F as [|? ? N F']; subst. cbn [fst] in N.
    destruct (tinsert_spec t W x f) as (t1 & E1 & D1); [unfold valid, nonempty in *; lia|].
    apply tdesc_st_eq in D1. destruct D1 as (_ & W1 & S1). specialize (W1 N).
    destruct (IH t1 W1 F') as (t' & E' & W' & S').
    exists t'. cbn [tinsert_all]. rewrite E1. split; [exact E'|]. split; [exact W'|].
    eapply st_eq_trans; [exact S'|]. cbn [map fold_spec op_row fst snd row_of].
    apply fold_spec_ext. exact S1.
Qed.

(** … and the last inserted range may be empty (this is how the wallet uses the tree) *)
Lemma tinsert_all_last_spec ops x f : forall t, wf t -> Forall (fun o => nonempty (fst o)) ops -> valid x ->
  exists t', tinsert_all t (ops ++ [(x, f)]) = Some t' /\ wwf t' /\
    st_eq (st_of t') (fold_spec (st_of t) (map op_row (ops ++ [(x, f)]))).
Proof.
  induction ops as [|[y g] ops IH]; intros t W F V.
  - cbn [app tinsert_all map fold_spec op_row fst snd row_of].
    destruct (tinsert_spec t W x f V) as (t1 & -> & D1).
    apply tdesc_st_eq in D1. destruct D1 as (W1 & _ & S1). exists t1. auto.
  - inversion F as [|? ? N F']; subst. cbn [fst] in N.
    destruct (tinsert_spec t W y g) as (t1 & E1 & D1); [unfold valid, nonempty in *; lia|].
    apply tdesc_st_eq in D1. destruct D1 as (_ & W1 & S1). specialize (W1 N).
    destruct (IH t1 W1 F' V) as (t' & E' & W' & S').
    exists t'. cbn [app tinsert_all]. rewrite E1. split; [exact E'|]. split; [exact W'|].
    eapply st_eq_trans; [exact S'|]. cbn [app map fold_spec op_row fst snd row_of].
    apply fold_spec_ext. exact S1.
Qed.

Lemma st_of_leaf init : st_eq (st_of (Leaf init)) (leaf_spec (rs init) (re init) (rp init)).
Proof. unfold st_eq, st_of, leaf_spec. cbn [lo hi pm span_s span_e at_tree]. repeat split. Qed.

(** The headline statement: insert any sequence of non-empty ranges into [Leaf init], take
    [into_vec]: no panic anywhere, and the result is the canonical queue whose pointwise
    meaning is the dominance rule folded over the insertions. *)
Lemma queue_of_insertions init ops :
  nonempty init -> Forall (fun o => nonempty (fst o)) ops ->
  exists t v, tinsert_all (Leaf init) ops = Some t /\ into_vec t = Some v /\
    canonical (map row_of v) /\
    (forall h, rows_at (map row_of v) h = pm (spec_after init ops) h) /\
    rows_lo (map row_of v) = Some (lo (spec_after init ops)) /\
    rows_hi (map row_of v) = Some (hi (spec_after init ops)).
Proof.
  intros N F.
  destruct (tinsert_all_spec ops (Leaf init) N F) as (t & E & W & S).
  destruct (into_vec_spec t (wf_wwf t W)) as (v & Ev & Cn & P & B).
  exists t, v. split; [exact E|]. split; [exact Ev|]. split; [exact Cn|].
  assert (S' : st_eq (st_of t) (spec_after init ops)).
  { eapply st_eq_trans; [exact S|]. apply fold_spec_ext. apply st_of_leaf. }
  destruct S' as (L & H & PM). cbn [st_of lo hi pm] in L, H, PM.
  split; [intros h; rewrite P; apply PM|].
  assert (NE : v <> []).
  { intros ->. pose proof (wf_span t W). destruct (at_cases t (span_s t) (wf_wwf t W)) as [(_ & q & Eq)|(O & _)]; [|lia].
    specialize (P (span_s t)). cbn in P. congruence. }
  destruct (B NE) as (B1 & B2). rewrite B1, B2, L, H. auto.
Qed.

(** same with a possibly empty last insertion *)
Lemma queue_of_insertions_last init ops x f :
  nonempty init -> Forall (fun o => nonempty (fst o)) ops -> valid x ->
  exists t v, tinsert_all (Leaf init) (ops ++ [(x, f)]) = Some t /\ into_vec t = Some v /\
    canonical (map row_of v) /\
    (forall h, rows_at (map row_of v) h = pm (spec_after init (ops ++ [(x, f)])) h).
Proof.
  intros N F V.
  destruct (tinsert_all_last_spec ops x f (Leaf init) N F V) as (t & E & W & S).
  destruct (into_vec_spec t W) as (v & Ev & Cn & P & _).
  exists t, v. split; [exact E|]. split; [exact Ev|]. split; [exact Cn|].
  assert (S' : st_eq (st_of t) (spec_after init (ops ++ [(x, f)]))).
  { eapply st_eq_trans; [exact S|]. apply fold_spec_ext. apply st_of_leaf. }
  destruct S' as (_ & _ & PM). intros h. rewrite P. apply PM.
Qed.

(** The known finding: with an empty range in the middle the public API panics. *)
Lemma insert_empty_range_refuted :
  exists init ops, valid init /\ Forall (fun o => valid (fst o)) ops /\ tinsert_all (Leaf init) ops = None.
Proof.
  exists (R 5 8 Scanned), [(R 8 8 Historic, false); (R 5 8 Verify, false)].
  split; [unfold valid; cbn; lia|]. split; [repeat constructor; unfold valid; cbn; lia|]. reflexivity.
Qed.
