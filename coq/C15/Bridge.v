(** C15 — bridge: on a well-formed case outside the known-finding class, agreement of the
    implementation with the model ([run_case]) implies the property on the implementation's
    observations ([prop_case]).  [prop_case] is nevertheless evaluated independently at run time. *)
From V.Lib Require Import Base.
From V.Gen Require Import C15Tables.
From V.C15 Require Import Model Spec Sem QModel Corr Wf Proofs ProofsTree ProofsVec ProofsSeq ProofsCanon.
From Coq Require Import ZifyBool.
Local Open Scope Z_scope.

Lemma sr_eqb_eq a b : sr_eqb a b = true <-> a = b.
Proof.
  destruct a as [s e p], b as [s' e' p']. unfold sr_eqb, QModel.sr_eqb. cbn [rs re rp].
  rewrite !andb_true_iff, !Z.eqb_eq, prio_eqb_eq. split; [intros ((-> & ->) & ->); reflexivity|intros [= -> -> ->]; auto].
Qed.

Lemma obs_eqb_eq a b : obs_eqb a b = true <-> a = b.
Proof.
  unfold obs_eqb. destruct a as [x| []|], b as [y| []|]; cbn [outcome_eqb unit_eqb]; try (split; [discriminate|congruence]); try tauto.
  rewrite (list_eqb_spec sr_eqb sr_eqb_eq). split; congruence.
Qed.

Lemma oprio_eqb_refl a : oprio_eqb a a = true.
Proof. destruct a as [[]|]; reflexivity. Qed.

Lemma agree_on_ext pts f g : (forall h, f h = g h) -> agree_on pts f g = true.
Proof. intros E. unfold agree_on. apply forallb_forall. intros h _. rewrite E. apply oprio_eqb_refl. Qed.

Lemma fold_spec_app a b : forall st, fold_spec st (a ++ b) = fold_spec (fold_spec st a) b.
Proof. induction a as [|[[[s e] p] f] a IH]; intros st; cbn [app fold_spec]; auto. Qed.

Lemma firstn_len_app {A} (pre : list A) x rest : firstn (S (length pre)) (pre ++ x :: rest) = pre ++ [x].
Proof. induction pre as [|y pre IH]; cbn [length app firstn]; [reflexivity|]. f_equal. exact IH. Qed.

Lemma obs_ok_of_tree init ops k t :
  wwf t -> st_eq (st_of t) (spec_after init (firstn k ops)) ->
  obs_ok init ops k (api_into_vec t) = true.
Proof.
  intros W (_ & _ & PM). unfold api_into_vec. destruct (into_vec_spec t W) as (v & -> & Cn & P & _).
  cbn [lift obs_ok]. apply andb_true_iff. split; [apply canonicalb_spec; exact Cn|].
  apply agree_on_ext. intros h. rewrite P. apply PM.
Qed.

Lemma run_ops_ok init ops : forall rest pre t,
  ops = pre ++ rest -> wf t -> st_eq (st_of t) (spec_after init pre) ->
  Forall (fun o => nonempty (fst o)) rest ->
  length (run_ops t rest) = length rest /\
  all_obs_ok init ops (S (length pre)) (run_ops t rest) = true.
Proof.
  induction rest as [|[x f] rest IH]; intros pre t E W S F; [cbn; auto|].
  inversion F as [|? ? N F']; subst. cbn [fst] in N. cbn [run_ops].
  destruct (tinsert_spec t W x f) as (t1 & -> & D1); [unfold valid, nonempty in *; lia|].
  apply tdesc_st_eq in D1. destruct D1 as (_ & W1 & S1). specialize (W1 N).
  assert (S1' : st_eq (st_of t1) (spec_after init (pre ++ [(x, f)]))).
  { eapply st_eq_trans; [exact S1|]. unfold spec_after. rewrite map_app, fold_spec_app.
    cbn [map fold_spec op_row fst snd row_of]. apply ins_spec_ext. exact S. }
  destruct (IH (pre ++ [(x, f)]) t1) as (L & A); auto.
  { rewrite <- app_assoc. reflexivity. }
  rewrite app_length in A. cbn [length] in A. rewrite Nat.add_1_r in A.
  cbn [length all_obs_ok]. split; [f_equal; exact L|]. apply andb_true_iff. split; [|exact A].
  apply obs_ok_of_tree; [apply wf_wwf; exact W1|]. rewrite firstn_len_app. exact S1'.
Qed.

Lemma no_empty_nonempty init ops :
  has_empty init ops = false -> nonempty init /\ Forall (fun o => nonempty (fst o)) ops.
Proof.
  unfold has_empty. intros H. apply orb_false_iff in H. destruct H as (H1 & H2).
  assert (Hn : forall r, is_empty r = false -> nonempty r).
  { intros r. unfold is_empty, nonempty. lia. }
  split; [auto|]. apply Forall_forall. intros o I. apply Hn.
  destruct (is_empty (fst o)) eqn:E; [|reflexivity].
  assert (existsb (fun o => is_empty (fst o)) ops = true) by (apply existsb_exists; eauto). congruence.
Qed.

(** the cases of part A (the pure tree and ScanRange API) *)
Definition part_a (c : case) : bool :=
  match c with QStep _ _ _ _ _ | QLoop _ _ _ _ _ _ _ | QChain _ _ | QRescan _ _ _ _ _ => false | _ => true end.

Theorem agree_implies_property c : part_a c = true ->
  wf_case c = true -> known_class c = 0%N -> run_case c = true -> prop_case c = true.
Proof.
  destruct c as [init ops obs|s e o|s e h o|s e h o|s e h o|cx pre op post sugg|b t st rw fin sg fl|qq hh|tg tp sc fn sg];
    cbn [part_a wf_case known_class run_case prop_case]; intros PA W K Rn; try discriminate PA.
  - destruct (has_empty init ops) eqn:HE; [discriminate|].
    destruct (no_empty_nonempty init ops HE) as (N & F).
    apply (list_eqb_spec obs_eqb obs_eqb_eq) in Rn. subst obs.
    unfold run_seq, from_parts. unfold nonempty in N.
    rewrite Z.geb_leb. destruct (Z.leb_spec (rs init) (re init)); [|lia].
    replace (R (rs init) (re init) (rp init)) with init by (destruct init; reflexivity).
    destruct (run_ops_ok init ops ops [] (Leaf init) eq_refl N (st_of_leaf init) F) as (L & A).
    cbn [length all_obs_ok]. rewrite L, Nat.eqb_refl. cbn [andb]. cbn [length] in A. rewrite A, andb_true_r.
    apply obs_ok_of_tree; [cbn [wwf]; lia|]. cbn [firstn]. apply st_of_leaf.
  - unfold api_from_parts, from_parts, lift in Rn. rewrite Z.geb_leb in Rn. destruct (s <=? e); exact Rn.
  - unfold truncate_start, is_empty in Rn. cbn [rs re rp] in Rn.
    revert Rn. zb; cbn [negb orb]; try lia; auto.
  - unfold truncate_end, is_empty in Rn. cbn [rs re rp] in Rn.
    revert Rn. zb; cbn [negb orb]; try lia; auto.
  - unfold split_at in Rn. cbn [rs re rp] in Rn. rewrite Z.gtb_ltb in Rn. exact Rn.
Qed.
