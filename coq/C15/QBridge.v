(** C15 part B — bridge for the queue-level cases: on a QStep case (scan, chain-tip update,
    rewind) inside the boolean domain [qdom] — canonical stored queue before, touching query,
    u32 context, database invariant for the tip update — agreement of the SQLite backend with
    the model ([run_case]) implies the property on the observed rows ([prop_case]). *)
From V.Lib Require Import Base.
From V.Gen Require Import C15Tables.
From V.C15 Require Import Model Spec Sem QModel QSpec Corr Wf Proofs ProofsTree ProofsVec ProofsSeq ProofsCanon
  Bridge QProofs QProofsOps QProofsTerm.
From Coq Require Import ZifyBool.
Local Open Scope Z_scope.

(** *** boolean domain *)
Definition touchesb (q : list sr) (qs qe : Z) : bool := existsb (fun r => (rs r <=? qe) && (qs <=? re r)) q.
Definition is_u32b (x : Z) : bool := (0 <=? x) && (x <=? QModel.u32_max).
Definition optb (f : Z -> bool) (o : option Z) : bool := match o with Some x => f x | None => true end.
Definition ctx_okb (c : ctx) (t : Z) : bool :=
  (0 <=? t) && (t <? QModel.u32_max) && optb is_u32b (sapling_act c) && optb is_u32b (max_scanned c) && optb is_u32b (birthday c).
(** no Scanned row reaches above the max scanned block *)
Definition scanned_belowb (c : ctx) (q : list sr) : bool :=
  match max_scanned c with
  | Some ms => forallb (fun r => negb (prio_eqb (rp r) Scanned) || (re r <=? ms + 1)) q
  | None => true
  end.

Definition qdom (c : case) : bool :=
  match c with
  | QStep cx pre op _ _ =>
      canonicalb (map row_of pre) &&
      match op with
      | OpScan s e _ _ _ => (s <? e) && touchesb pre s e
      | OpTip t =>
          ctx_okb cx t && scanned_belowb cx pre &&
          match tip_plan cx t with
          | Ok (Some (qs, qe, _)) => touchesb pre qs qe
          | Ok None => true
          | _ => false
          end
      | OpTrim h => (0 <=? h) && (h <? QModel.u32_max)
      | _ => false
      end
  | _ => false
  end.

(** *** reflection *)
Lemma touchesb_P q qs qe : touchesb q qs qe = true -> touches q qs qe.
Proof. unfold touchesb, touches. intros H. apply existsb_exists in H. destruct H as (r & I & H). exists r. split; [exact I|lia]. Qed.

Lemma ctx_okb_P c t : ctx_okb c t = true -> ctx_ok c t.
Proof.
  unfold ctx_okb, ctx_ok, is_u32, optb, is_u32b. intros H.
  repeat (apply andb_true_iff in H; destruct H as (H & ?)).
  split; [lia|]. split; [intros a E; rewrite E in *; lia|]. split; [intros m E; rewrite E in *; lia|]. intros b E; rewrite E in *; lia.
Qed.

Lemma scanned_belowb_P c q : chain q -> scanned_belowb c q = true ->
  forall h ms, scanned_at q h -> max_scanned c = Some ms -> h <= ms.
Proof.
  intros C H h ms Hs Em. unfold scanned_belowb in H. rewrite Em in H. rewrite forallb_forall in H.
  unfold scanned_at in Hs. apply (rows_at_covers q C) in Hs. destruct Hs as (r & I & Er).
  specialize (H r I). unfold at_sr in Er. destruct (in_range (rs r) (re r) h) eqn:In1; [|discriminate].
  injection Er as Ep. rewrite Ep in H. cbn in H. unfold in_range in In1. lia.
Qed.

Lemma chain_canonicalb q : chain q <-> canonicalb (map row_of q) = true.
Proof. unfold chain. symmetry. apply canonicalb_spec. Qed.

Lemma outcome_eq_P (a b : qres (list sr)) : outcome_eqb (list_eqb sr_eqb) qerr_eqb a b = true -> a = b.
Proof.
  destruct a as [x|x|], b as [y|y|]; cbn [outcome_eqb]; try discriminate; try reflexivity.
  - intros H. apply (list_eqb_spec sr_eqb sr_eqb_eq) in H. congruence.
  - destruct x, y; cbn; congruence.
Qed.

(** *** pieces of prop_case *)
Lemma canonicalb_ordered l : canonicalb l = true -> ordered_rows l = true.
Proof.
  induction l as [|[[s e] p] l IH]; [reflexivity|]. cbn [canonicalb ordered_rows].
  destruct l as [|[[s' e'] p'] l'].
  - intros H. rewrite !andb_true_iff in *. tauto.
  - intros H. rewrite !andb_true_iff in H. destruct H as ((A & B & D) & E). rewrite (IH E).
    rewrite A, D. cbn [andb]. rewrite andb_true_r. apply andb_true_iff. split; [lia|]. apply orb_true_r.
Qed.

Lemma step_structure_chain pre q' : chain q' -> step_structure (map row_of pre) (map row_of q') = true.
Proof.
  intros C. apply chain_canonicalb in C. unfold step_structure. rewrite (canonicalb_ordered _ C), C.
  cbn [andb]. destruct (_ && _); reflexivity.
Qed.

Lemma oprio_eqb_eq a b : a = b -> oprio_eqb a b = true.
Proof. intros ->. apply oprio_eqb_refl. Qed.

Lemma is_scanned_at_iff q h : is_scanned_at (map row_of q) h = true <-> scanned_at q h.
Proof.
  unfold is_scanned_at, scanned_at. destruct (rows_at (map row_of q) h) as [[]|]; cbn; split; congruence.
Qed.

(** suggestions of the model satisfy the specification of suggestions *)
Lemma spec_rank_code p : prio_code p = 10 * spec_rank p.
Proof. destruct p; reflexivity. Qed.

Lemma row_eqb_refl r : row_eqb r r = true.
Proof. destruct r as [[s e] p]. cbn. rewrite !Z.eqb_refl. destruct p; reflexivity. Qed.

Lemma row_mem_in r l : In r l -> row_mem r l = true.
Proof. intros I. unfold row_mem. apply existsb_exists. exists r. split; [exact I|apply row_eqb_refl]. Qed.

Definition hd_rank_le (r : sr) (l : list sr) : Prop :=
  match l with [] => True | x :: _ => prio_code (rp x) <= prio_code (rp r) end.
Fixpoint code_desc (l : list sr) : Prop :=
  match l with [] => True | x :: rest => hd_rank_le x rest /\ code_desc rest end.

Lemma ins_sugg_desc r l : code_desc l -> code_desc (ins_sugg r l).
Proof.
  induction l as [|a l IH]; intros D; [cbn; auto|]. cbn [ins_sugg]. destruct (sugg_before r a) eqn:B.
  - cbn [code_desc hd_rank_le]. split; [unfold sugg_before in B; lia|exact D].
  - cbn [code_desc] in *. destruct D as (H & D). split; [|apply IH; exact D].
    destruct l as [|b l]; cbn [ins_sugg hd_rank_le].
    + unfold sugg_before in B. lia.
    + destruct (sugg_before r b); cbn [hd_rank_le]; [unfold sugg_before in B; lia|exact H].
Qed.

Lemma suggest_desc q p : code_desc (suggest_scan_ranges q p).
Proof.
  unfold suggest_scan_ranges. induction (filter _ q) as [|a l IH]; [exact I|]. cbn [fold_right]. apply ins_sugg_desc. exact IH.
Qed.

Lemma code_desc_rank l : code_desc l -> rank_desc (map row_of l) = true.
Proof.
  induction l as [|a l IH]; [reflexivity|]. cbn [code_desc]. intros (H & D). cbn [map rank_desc row_of].
  rewrite (IH D), andb_true_r. destruct l as [|b l]; [reflexivity|]. cbn [map row_of hd_rank_le] in *.
  rewrite !spec_rank_code in H. lia.
Qed.

Lemma sugg_ok_model q : sugg_ok (map row_of q) (map row_of (suggest_scan_ranges q Historic)) = true.
Proof.
  unfold sugg_ok. rewrite !andb_true_iff. split; [split|].
  - apply forallb_forall. intros x Ix. apply in_map_iff in Ix. destruct Ix as (r & <- & Ir).
    apply sugg_in in Ir. destruct Ir as (Iq & Pc). apply andb_true_iff. split.
    + apply row_mem_in. apply in_map. exact Iq.
    + cbn [row_of snd]. rewrite !spec_rank_code in Pc. lia.
  - apply forallb_forall. intros x Ix. apply in_map_iff in Ix. destruct Ix as (r & <- & Ir). cbn [row_of snd].
    destruct (Z.leb_spec (spec_rank Historic) (spec_rank (rp r))); [|reflexivity].
    apply row_mem_in. apply (in_map row_of). apply sugg_in. split; [exact Ir|]. rewrite !spec_rank_code. lia.
  - apply code_desc_rank. apply suggest_desc.
Qed.

(** *** the bridge *)
Theorem agree_implies_property_q c : qdom c = true -> run_case c = true -> prop_case c = true.
Proof.
  destruct c as [| | | | |cx pre op post sugg| | |]; try discriminate.
  cbn [qdom run_case prop_case]. intros D Rn.
  apply andb_true_iff in D. destruct D as (Cp & D). apply chain_canonicalb in Cp.
  apply andb_true_iff in Rn. destruct Rn as (R1 & R2). apply outcome_eq_P in R1.
  apply (list_eqb_spec sr_eqb sr_eqb_eq) in R2.
  destruct op as [t|s e sap orc iro|rg p|mh|ph pr|rt rf]; try discriminate D.
  - (* update_chain_tip *)
    apply andb_true_iff in D. destruct D as (D & T). apply andb_true_iff in D. destruct D as (K & SB).
    apply ctx_okb_P in K. pose proof (scanned_belowb_P cx pre Cp SB) as INV.
    cbn [apply_op] in R1. destruct (tip_plan_spec cx t K) as (pl & Ep & _). rewrite Ep in T.
    destruct pl as [[[qs qe] entries]|].
    + apply touchesb_P in T.
      destruct (update_chain_tip_spec cx pre t qs qe entries Cp K Ep T) as (q' & E & Cq & P1 & P2 & _ & _ & _ & PV).
      rewrite E in R1. subst post. cbn [queue_after] in R2. subst sugg.
      rewrite (step_structure_chain pre q' Cq), sugg_ok_model, andb_true_r. cbn [andb].
      apply andb_true_iff. split.
      2:{ unfold verify_ok. destruct (expected_verify cx t) as [[vs ve]|] eqn:EV.
          - apply forallb_forall. intros h _. destruct (in_range vs ve h) eqn:Ir.
            + apply oprio_eqb_eq. apply PV. right. exists vs, ve. split; [reflexivity|unfold in_range in Ir; lia].
            + destruct (oprio_eqb (rows_at (map row_of q') h) (Some Verify)) eqn:V1; [|reflexivity].
              apply oprio_eqb_eq.
              assert (HV : rows_at (map row_of q') h = Some Verify).
              { destruct (rows_at (map row_of q') h) as [[]|]; cbn in V1; try discriminate; reflexivity. }
              apply PV in HV. destruct HV as [HV|(vs' & ve' & [= <- <-] & R)]; [exact HV|unfold in_range in Ir; lia].
          - apply forallb_forall. intros h _. replace (in_range 0 0 h) with false by (unfold in_range; lia).
            destruct (oprio_eqb (rows_at (map row_of q') h) (Some Verify)) eqn:V1; [|reflexivity].
            apply oprio_eqb_eq.
            assert (HV : rows_at (map row_of q') h = Some Verify).
            { destruct (rows_at (map row_of q') h) as [[]|]; cbn in V1; try discriminate; reflexivity. }
            apply PV in HV. destruct HV as [HV|(vs' & ve' & X & _)]; [exact HV|discriminate X]. }
      unfold tip_ok. apply forallb_forall. intros h _. apply andb_true_iff. split.
      * destruct (is_scanned_at (map row_of q') h) eqn:S1; [|reflexivity]. apply is_scanned_at_iff. apply P1. apply is_scanned_at_iff. exact S1.
      * destruct (is_scanned_at (map row_of pre) h) eqn:S1; [|reflexivity]. apply is_scanned_at_iff in S1.
        apply orb_true_iff. left. apply is_scanned_at_iff. apply P2; [exact S1|]. intros ms Em. eapply INV; eauto.
    + unfold update_chain_tip in R1. rewrite Ep in R1. cbn [bind] in R1. subst post. cbn [queue_after] in R2. subst sugg.
      rewrite (step_structure_chain pre pre Cp), sugg_ok_model, andb_true_r. cbn [andb].
      apply andb_true_iff. split.
      2:{ destruct (tip_plan_verify cx t K) as (pv & Ev & Sv). rewrite Ep in Ev. injection Ev as <-.
          unfold verify_ok. rewrite Sv. apply forallb_forall. intros h _.
          replace (in_range 0 0 h) with false by (unfold in_range; lia).
          destruct (oprio_eqb (rows_at (map row_of pre) h) (Some Verify)); reflexivity. }
      unfold tip_ok. apply forallb_forall. intros h _. destruct (is_scanned_at (map row_of pre) h); reflexivity.
  - (* scan_complete *)
    apply andb_true_iff in D. destruct D as (L & T). apply touchesb_P in T. apply Z.ltb_lt in L.
    cbn [apply_op] in R1.
    destruct (scan_complete_spec cx pre s e sap orc iro Cp L T) as (q' & E & Cq & P & _ & _ & PE).
    rewrite E in R1. subst post. cbn [queue_after] in R2. subst sugg.
    rewrite (step_structure_chain pre q' Cq), sugg_ok_model, andb_true_r. cbn [andb].
    unfold scan_ok. apply forallb_forall. intros h _. destruct (in_range s e h) eqn:In1.
    + apply is_scanned_at_iff. apply P. left. unfold in_range in In1. lia.
    + apply andb_true_iff. split.
      * apply Bool.eqb_true_iff. apply bool_eq_iff. rewrite !is_scanned_at_iff, P. unfold in_range in In1.
        split; [intros [?|?]; [lia|assumption]|auto].
      * assert (Nh : ~ (s <= h < e)) by (unfold in_range in In1; lia).
        destruct (PE h Nh) as [E1|[E1|(E1 & E2)]]; rewrite ?E1, ?E2.
        -- rewrite oprio_eqb_refl. reflexivity.
        -- rewrite (oprio_eqb_refl (Some FoundNote)). rewrite orb_true_r. reflexivity.
        -- reflexivity.
  - (* trim *)
    apply andb_true_iff in D. destruct D as (M1 & M2). cbn [apply_op] in R1. subst post. cbn [queue_after] in R2. subst sugg.
    destruct (trim_spec pre mh Cp) as (Cq & P); [lia|].
    rewrite (step_structure_chain pre _ Cq), sugg_ok_model, andb_true_r. cbn [andb].
    unfold trim_ok. apply forallb_forall. intros h _. rewrite P.
    replace (Z.min mh (QModel.u32_max - 1)) with mh by lia. destruct (h <=? mh); apply oprio_eqb_refl.
Qed.
