(** C15 part B — the first insertion into an empty table, queue_rescans. *)
From V.Lib Require Import Base.
From V.Gen Require Import C15Tables.
From V.C15 Require Import Model Spec Sem QModel Proofs ProofsTree ProofsVec ProofsSeq ProofsCanon ProofsEmpty QProofs QProofsOps.
From Coq Require Import ZifyBool.
Local Open Scope Z_scope.

(** *** replace_queue_entries on an empty scan_queue table *)
Lemma replace_empty qs qe f e0 rest es tl :
  valid e0 -> (es = [] \/ nonempty e0) -> rest = es ++ tl -> Forall nonempty es -> Forall emptyr tl ->
  exists q', replace_queue_entries [] qs qe (e0 :: rest) f = Ok q' /\ chain q' /\
    forall h, rows_at (map row_of q') h = pm (fold_spec (st_of (Leaf e0)) (entry_ops f rest)) h.
Proof.
  intros V0 H0 -> Nes Etl. unfold replace_queue_entries. cbn [filter sort_end fold_right app fold_tree map].
  rewrite fold_tree_some.
  assert (Ntl : Forall (fun o : sr * bool => emptyr (fst o)) (map (fun r => (r, f)) tl)).
  { apply Forall_forall. intros o Io. apply in_map_iff in Io. destruct Io as (r & <- & Ir). cbn [fst].
    rewrite Forall_forall in Etl. auto. }
  assert (EX : exists t, tinsert_all (Leaf e0) (map (fun r => (r, f)) (es ++ tl)) = Some t /\ wwf t /\
                 st_eq (st_of t) (fold_spec (st_of (Leaf e0)) (map op_row (map (fun r => (r, f)) (es ++ tl))))).
  { destruct H0 as [->|N0].
    - cbn [app]. exact (tinsert_all_empty_spec _ (Leaf e0) V0 Ntl).
    - rewrite map_app. refine (tinsert_all_tail_spec _ _ (Leaf e0) N0 _ Ntl).
      apply Forall_forall. intros o Io. apply in_map_iff in Io. destruct Io as (r & <- & Ir). cbn [fst].
      rewrite Forall_forall in Nes. auto. }
  destruct EX as (t & -> & Wt & (_ & _ & PM)).
  destruct (into_vec_spec t Wt) as (v & -> & Cv & Pv & _). cbn [of_opt bind].
  pose proof (insert_mid v [] [] Cv) as IM. cbn [app] in IM. rewrite app_nil_r in IM.
  rewrite IM by (intros; match goal with H : In _ [] |- _ => destruct H end). exists v. split; [reflexivity|]. split; [exact Cv|].
  intros h. rewrite Pv. cbn [st_of pm] in PM. rewrite PM. unfold entry_ops. rewrite map_map. reflexivity.
Qed.

(** *** queue_rescans *)
Definition mk_range (p : prio) (r : Z * Z) : sr := R (fst r) (snd r) p.
Definition hull_s (s0 : Z) (rest : list (Z * Z)) : Z := fold_left (fun a r => Z.min a (fst r)) rest s0.
Definition hull_e (e0 : Z) (rest : list (Z * Z)) : Z := fold_left (fun a r => Z.max a (snd r)) rest e0.

Lemma all_from_parts_ok rs_ p : Forall (fun r => fst r <= snd r) rs_ -> all_from_parts rs_ p = Ok (map (mk_range p) rs_).
Proof.
  induction rs_ as [|[s e] rs_ IH]; intros F; [reflexivity|]. inversion F as [|? ? V F']; subst. cbn [fst snd] in V.
  cbn [all_from_parts map]. unfold from_parts. rewrite Z.geb_leb. destruct (Z.leb_spec s e); [|lia].
  cbn [of_opt bind]. rewrite (IH F'). reflexivity.
Qed.

(** an inverted range makes [ScanRange::from_parts] panic *)
Lemma all_from_parts_panic rs_ p : Exists (fun r => snd r < fst r) rs_ -> all_from_parts rs_ p = Panic.
Proof.
  induction rs_ as [|[s e] rs_ IH]; intros X; [inversion X|]. cbn [all_from_parts]. unfold from_parts. rewrite Z.geb_leb.
  destruct (Z.leb_spec s e); cbn [of_opt bind]; [|reflexivity].
  inversion X as [? ? H0|? ? X']; subst; [cbn in H0; lia|]. rewrite (IH X'). reflexivity.
Qed.

Lemma hull_s_le rest : forall s0, hull_s s0 rest <= s0 /\ forall r, In r rest -> hull_s s0 rest <= fst r.
Proof.
  induction rest as [|x rest IH]; intros s0; cbn [hull_s fold_left]; [split; [lia|intros ? []]|].
  destruct (IH (Z.min s0 (fst x))) as (A & B). fold (hull_s (Z.min s0 (fst x)) rest) in *. split; [lia|].
  intros r [<-|I]; [lia|auto].
Qed.
Lemma hull_e_ge rest : forall e0, e0 <= hull_e e0 rest /\ forall r, In r rest -> snd r <= hull_e e0 rest.
Proof.
  induction rest as [|x rest IH]; intros e0; cbn [hull_e fold_left]; [split; [lia|intros ? []]|].
  destruct (IH (Z.max e0 (snd x))) as (A & B). fold (hull_e (Z.max e0 (snd x)) rest) in *. split; [lia|].
  intros r [<-|I]; [lia|auto].
Qed.

(** queue_rescans with ranges that are non-empty, followed by any number of empty ones, on a
    canonical queue that the hull of the ranges touches (or on an empty table): no panic, no
    constraint error, canonical result. *)
Lemma queue_rescans_spec q p s0 e0 rest rn re_ :
  chain q -> (s0, e0) :: rest = rn ++ re_ ->
  Forall (fun r => fst r < snd r) rn -> Forall (fun r => fst r = snd r) re_ ->
  (q = [] \/ touches q (hull_s s0 rest) (hull_e e0 rest)) ->
  exists q', queue_rescans q ((s0, e0) :: rest) p = Ok q' /\ chain q'.
Proof.
  intros C E Fn Fe T. unfold queue_rescans. fold (hull_s s0 rest). fold (hull_e e0 rest).
  assert (V : Forall (fun r => fst r <= snd r) ((s0, e0) :: rest)).
  { rewrite E. apply Forall_app. split; eapply Forall_impl; try eassumption; cbn; intros; lia. }
  rewrite (all_from_parts_ok _ p V). cbn [bind].
  destruct (hull_s_le rest s0) as (S1 & S2). destruct (hull_e_ge rest e0) as (E1 & E2).
  assert (V0 : s0 <= e0) by (inversion V; subst; cbn in *; lia).
  assert (W : Forall (within (hull_s s0 rest) (hull_e e0 rest)) (map (mk_range p) ((s0, e0) :: rest))).
  { apply Forall_forall. intros x Ix. apply in_map_iff in Ix. destruct Ix as (r & <- & Ir). unfold within, mk_range. cbn [rs re].
    destruct Ir as [<-|Ir]; cbn [fst snd]; [lia|]. pose proof (S2 r Ir). pose proof (E2 r Ir).
    rewrite Forall_forall in V. pose proof (V r (or_intror Ir)). lia. }
  assert (Nn : Forall nonempty (map (mk_range p) rn)).
  { apply Forall_forall. intros x Ix. apply in_map_iff in Ix. destruct Ix as (r & <- & Ir). rewrite Forall_forall in Fn.
    unfold nonempty, mk_range. cbn [rs re]. auto. }
  assert (Ne : Forall emptyr (map (mk_range p) re_)).
  { apply Forall_forall. intros x Ix. apply in_map_iff in Ix. destruct Ix as (r & <- & Ir). rewrite Forall_forall in Fe.
    unfold emptyr, mk_range. cbn [rs re]. auto. }
  destruct T as [->|T].
  - assert (EM : map (mk_range p) ((s0, e0) :: rest) = mk_range p (s0, e0) :: map (mk_range p) rest) by reflexivity.
    rewrite EM.
    assert (Vr : valid (mk_range p (s0, e0))) by (unfold valid, mk_range; cbn [rs re fst snd]; lia).
    destruct rn as [|r1 rn'].
    + cbn [app] in E. destruct re_ as [|r1 re']; [discriminate|]. injection E as Eq1 Eq2. subst r1 re'.
      assert (Ne' : Forall emptyr (map (mk_range p) rest)) by (inversion Ne; assumption).
      destruct (replace_empty (hull_s s0 rest) (hull_e e0 rest) true (mk_range p (s0, e0)) (map (mk_range p) rest) [] (map (mk_range p) rest)
                  Vr (or_introl eq_refl) eq_refl (Forall_nil _) Ne') as (q' & Eq & Cq & _).
      eauto.
    + cbn [app] in E. injection E as Eq1 Eq2. subst r1 rest.
      assert (N1 : nonempty (mk_range p (s0, e0))) by (inversion Nn; assumption).
      assert (Nn' : Forall nonempty (map (mk_range p) rn')) by (inversion Nn; assumption).
      destruct (replace_empty (hull_s s0 (rn' ++ re_)) (hull_e e0 (rn' ++ re_)) true (mk_range p (s0, e0)) (map (mk_range p) (rn' ++ re_))
                  (map (mk_range p) rn') (map (mk_range p) re_) Vr (or_intror N1) (map_app _ _ _) Nn' Ne) as (q' & Eq & Cq & _).
      eauto.
  - rewrite E in *. rewrite map_app in *.
    destruct (replace_touching_g q (hull_s s0 rest) (hull_e e0 rest) (map (mk_range p) rn) (map (mk_range p) re_) true C)
      as (q' & Eq & Cq & _); auto; [lia|]. eauto.
Qed.

(** … an inverted range panics (in [ScanRange::from_parts]) *)
Lemma queue_rescans_inverted q p ranges : Exists (fun r => snd r < fst r) ranges -> queue_rescans q ranges p = Panic.
Proof.
  intros X. unfold queue_rescans. destruct ranges as [|[s0 e0] rest]; [reflexivity|].
  rewrite (all_from_parts_panic _ p X). reflexivity.
Qed.

(** … and an empty range followed by a non-empty one can panic (known finding, class 1) *)
Lemma queue_rescans_empty_not_last_refuted :
  exists q ranges p, chain q /\ Forall (fun r => fst r <= snd r) ranges /\ queue_rescans q ranges p = Panic.
Proof.
  exists [R 100000 100051 Historic], [(100051, 100051); (100000, 100051)], Verify.
  split; [unfold chain; cbn; lia|]. split; [repeat constructor; cbn; lia|]. reflexivity.
Qed.
