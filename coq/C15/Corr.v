(** C15 — correspondence cases. One constructor per harness protocol: inputs followed by what
    the implementation was observed to do.  [run_case] compares with the model, [prop_case]
    evaluates the property (Spec.v) on the implementation's observations alone. *)
From V.Lib Require Import Base.
From V.Gen Require Import C15Tables.
From V.C15 Require Import Model Spec Sem QModel QSpec.
Local Open Scope Z_scope.

Definition sr_eqb := QModel.sr_eqb.
Definition unit_eqb (_ _ : unit) : bool := true.
Definition obs_eqb : res (list sr) -> res (list sr) -> bool := outcome_eqb (list_eqb sr_eqb) unit_eqb.

Inductive case :=
(* start from Leaf(init); after every insertion: into_vec of a clone, or Panic (then stop) *)
| TreeSeq (init : sr) (ops : list (sr * bool)) (obs : list (res (list sr)))
(* ScanRange::from_parts(s..e, Historic) *)
| FromParts (s e : Z) (o : res sr)
(* ScanRange(s..e, FoundNote).truncate_start(h) / truncate_end(h) / split_at(h) *)
| TruncStart (s e h : Z) (o : option sr)
| TruncEnd (s e h : Z) (o : option sr)
| SplitAt (s e h : Z) (o : option (sr * sr))
(* part B: one queue operation on the SQLite backend: context and scan_queue rows before, the
   operation, the rows after (or Err/Panic; the transaction is then rolled back), and
   WalletRead::suggest_scan_ranges afterwards *)
| QStep (c : ctx) (pre : list sr) (op : qop) (post : qres (list sr)) (sugg : list sr)
(* part B: a client loop run to quiescence on real blocks *)
| QLoop (birthday tip steps rewound : Z) (final sugg : list sr) (fully : option Z)
(* part B: WalletRead::chain_height() observed next to the stored rows *)
| QChain (q : list sr) (h : option Z)
(* part B: after a rewind to [target], a client loop run to quiescence scanned [scanned] blocks *)
| QRescan (target tip scanned : Z) (final sugg : list sr).

Definition qerr_eqb (a b : qerr) : bool :=
  match a, b with DbConstraint, DbConstraint | OtherErr, OtherErr => true | _, _ => false end.
Definition queue_after (pre : list sr) (post : qres (list sr)) : list sr :=
  match post with Ok q => q | _ => pre end.

Definition run_case (c : case) : bool :=
  match c with
  | TreeSeq init ops obs => list_eqb obs_eqb (run_seq init ops) obs
  | FromParts s e o => outcome_eqb sr_eqb unit_eqb (api_from_parts s e Historic) o
  | TruncStart s e h o => option_eqb sr_eqb (truncate_start (R s e FoundNote) h) o
  | TruncEnd s e h o => option_eqb sr_eqb (truncate_end (R s e FoundNote) h) o
  | SplitAt s e h o => option_eqb (pair_eqb sr_eqb sr_eqb) (split_at (R s e FoundNote) h) o
  | QStep c pre op post sugg =>
      outcome_eqb (list_eqb sr_eqb) qerr_eqb (apply_op c pre op) post &&
      list_eqb sr_eqb (suggest_scan_ranges (queue_after pre post) Historic) sugg
  | QLoop b t _ _ final sugg fully =>
      list_eqb sr_eqb (suggest_scan_ranges final Historic) sugg &&
      option_eqb Z.eqb (fully_scanned_height final b) fully
  | QChain q h => option_eqb Z.eqb (chain_tip_height q) h
  | QRescan _ _ _ final sugg => list_eqb sr_eqb (suggest_scan_ranges final Historic) sugg
  end.

(** *** the property on the observations *)

Definition points (init : sr) (ops : list (sr * bool)) (v : list sr) : list Z :=
  flat_map row_points (row_of init :: map (fun o => row_of (fst o)) ops ++ map row_of v).

(** observation [k] (after the first [k] insertions) is a canonical queue whose pointwise
    meaning is the dominance rule folded over those insertions *)
Definition obs_ok (init : sr) (ops : list (sr * bool)) (k : nat) (o : res (list sr)) : bool :=
  match o with
  | Ok v =>
      let st := fold_spec (leaf_spec (rs init) (re init) (rp init)) (map op_row (firstn k ops)) in
      canonicalb (map row_of v) && agree_on (points init ops v) (rows_at (map row_of v)) (pm st)
  | _ => false
  end.

Fixpoint all_obs_ok (init : sr) (ops : list (sr * bool)) (k : nat) (obs : list (res (list sr))) : bool :=
  match obs with
  | [] => true
  | o :: rest => obs_ok init ops k o && all_obs_ok init ops (S k) rest
  end.

Definition prop_case (c : case) : bool :=
  match c with
  | TreeSeq init ops obs =>
      (length obs =? S (length ops))%nat && all_obs_ok init ops 0 obs
  | FromParts s e o =>
      outcome_eqb sr_eqb unit_eqb (if s <=? e then Ok (R s e Historic) else Panic) o
  | TruncStart s e h o =>
      (* the part of [s,e) at or above h, None when that part is empty *)
      option_eqb sr_eqb (if Z.max s h <? e then Some (R (Z.max s h) e FoundNote) else None) o
  | TruncEnd s e h o =>
      option_eqb sr_eqb (if s <? Z.min e h then Some (R s (Z.min e h) FoundNote) else None) o
  | SplitAt s e h o =>
      option_eqb (pair_eqb sr_eqb sr_eqb)
        (if (s <? h) && (h <? e) then Some (R s h FoundNote, R h e FoundNote) else None) o
  | QStep c pre op post sugg =>
      match post with
      | Ok q' =>
          let a := map row_of pre in
          let b := map row_of q' in
          step_structure a b &&
          match op with
          | OpScan s e _ _ _ => scan_ok a b s e
          | OpTip t => tip_ok a b && verify_ok c t a b
          | OpTrim h => trim_ok a b h
          | OpRewind t _ => rewind_ok a b t
          | _ => true
          end &&
          (* suggestions: exactly the rows at or above Historic, highest priority first *)
          sugg_ok b (map row_of sugg)
      | _ => false
      end
  | QLoop b t steps rewound final sugg fully =>
      loop_ok b t steps rewound (map row_of final) (map row_of sugg) fully
  | QChain q h =>
      (* the chain tip is the last height the queue covers *)
      option_eqb Z.eqb (match rows_hi (map row_of q) with Some e => Some (e - 1) | None => None end) h
  | QRescan target tip scanned final sugg => rescan_ok target tip scanned (map row_of final) (map row_of sugg)
  end.

(** Known-finding class 1: a sequence that contains an empty range (the tree API panics on
    some of them). *)
Definition has_empty (init : sr) (ops : list (sr * bool)) : bool :=
  is_empty init || existsb (fun o => is_empty (fst o)) ops.

Fixpoint prune_junction (q : list sr) (h : Z) (keep : prio) : bool :=
  match q with
  | a :: ((b :: _) as rest) =>
      ((re a =? h) && (rs b =? h) && prio_eqb (rp b) Ignored && negb (is_retained (Some keep) (rp a)))
      || prune_junction rest h keep
  | _ => false
  end.

Definition known_class (c : case) : N :=
  match c with
  | TreeSeq init ops _ => if has_empty init ops then 1%N else 0%N
  | QStep _ _ (OpRescan rs_ _) _ _ =>
      (* queue_rescans with an empty range reaches the same tree panic *)
      if existsb (fun r => fst r =? snd r) rs_ then 1%N else 0%N
  | QStep _ pre (OpPrune h (Some keep)) _ _ =>
      (* class 2: a pruned (non-retained) row ends exactly at the pruning height and the next stored row is Ignored *)
      if prune_junction pre h keep then 2%N else 0%N
  | _ => 0%N
  end.

(** *** path tags *)
Definition rord_code (o : option rord) : N :=
  match o with
  | None => 0
  | Some LeftFirstDisjoint => 1 | Some LeftFirstOverlap => 2 | Some LeftContained => 3
  | Some REqual => 4 | Some RightContained => 5 | Some RightFirstOverlap => 6
  | Some RightFirstDisjoint => 7
  end%N.

(** which arm the last insertion takes at the root of the tree it is applied to:
    leaf 1..7; parent 10*arm + sub-branch (0 insert-right, 1 insert-left, 2 split, 3 recurse right) *)
Definition arm_tag (t : tree) (x : sr) : N :=
  match t with
  | Leaf cur => rord_code (range_cmp (rs x) (re x) (rs cur) (re cur))
  | Parent ss se l r =>
      let sp := span_e l in
      let o := range_cmp ss se (rs x) (re x) in
      let sub : N :=
        match o with
        | Some LeftFirstDisjoint => 0%N
        | Some LeftFirstOverlap => if sp >? rs x then 2%N else 0%N
        | Some RightContained => if rs x >=? sp then 0%N else if re x <=? sp then 1%N else 2%N
        | Some REqual => if sp >? rs x then 2%N else 3%N
        | Some LeftContained => 2%N
        | Some RightFirstOverlap => if sp <? re x then 2%N else 1%N
        | Some RightFirstDisjoint => 1%N
        | None => 9%N
        end in
      (10 * rord_code o + sub)%N
  end.

Definition last_arm (init : sr) (ops : list (sr * bool)) : N :=
  match rev ops with
  | [] => 0%N
  | (x, _) :: before =>
      match tinsert_all (Leaf init) (rev before) with
      | Some t => arm_tag t x
      | None => 99%N
      end
  end.

Definition has_panic (obs : list (res (list sr))) : bool :=
  existsb (fun o => match o with Ok _ => false | _ => true end) obs.

Definition tag_case (c : case) : N :=
  match c with
  | TreeSeq init ops obs =>
      ((if has_panic obs then 3000
        else if has_empty init ops then (if prop_case c then 1000 else 2000)
        else 0) + last_arm init ops)%N
  | FromParts s e o => match o with Ok _ => 9001 | _ => 9002 end%N
  | TruncStart _ _ _ o => match o with Some _ => 9011 | None => 9012 end%N
  | TruncEnd _ _ _ o => match o with Some _ => 9021 | None => 9022 end%N
  | SplitAt _ _ _ o => match o with Some _ => 9031 | None => 9032 end%N
  | QStep c pre op post _ =>
      (match op with OpTip _ => 10000 | OpScan _ _ [] [] [] => 10100 | OpScan _ _ _ _ _ => 10200
                | OpRescan _ _ => 10300 | OpTrim _ => 10400 | OpPrune _ _ => 10500
                | OpRewind t _ => match max_scanned c with Some ms => if Z.leb (Z.sub ms t) 99%Z then 10600 else 10700 | None => 10800 end end
       + match post with Ok q' => (if list_eqb sr_eqb q' pre then 0 else 1) | Err _ => 2 | Panic => 3 end
       + (if connected (map row_of pre) (map row_of (queue_after pre post)) then 0 else 10)
       + match op with
         | OpTip _ =>
             (* which update_chain_tip branch: 20 never scanned, 40 no shard tip, 60 ChainTip, 80 Verify *)
             match max_scanned c with
             | None => 20
             | Some ms => if existsb (fun r => prio_eqb (rp r) Verify) (queue_after pre post) then 80
                          else if existsb (fun r => prio_eqb (rp r) ChainTip) (queue_after pre post) then 60 else 40
             end
         | _ => 0
         end)%N
  | QLoop _ _ _ rw _ _ _ => if rw =? 0 then 11000%N else 11001%N
  | QChain _ h => match h with Some _ => 12000%N | None => 12001%N end
  | QRescan _ _ _ _ _ => 13000%N
  end.
