(** C15 — the property, stated without reference to trees: the documented dominance rule,
    the pointwise meaning of a sequence of insertions, and what a canonical queue is. *)
From V.Lib Require Import Base.
From V.Gen Require Import C15Tables.
Local Open Scope Z_scope.

(** The documented priority order (scanning.rs doc comments: Ignored lowest … Verify highest).
    Written by hand; [C15_prio_order] proves the derive(Ord) order regenerated from the
    source agrees with it. *)
Definition spec_rank (p : prio) : Z :=
  match p with
  | Ignored => 0 | Scanned => 1 | Historic => 2 | OpenAdjacent => 3
  | FoundNote => 4 | ChainTip => 5 | Verify => 6
  end.

Definition spec_prio_eqb (a b : prio) : bool := spec_rank a =? spec_rank b.
Definition higher (a b : prio) : prio := if spec_rank a <? spec_rank b then b else a.

(** The dominance rule: which priority a height has after a range with priority [p] is
    inserted over a height that currently has priority [c].
    - equal priorities: unchanged;
    - an inserted Verify or Scanned overrides;
    - a current Scanned sticks unless a rescan is forced;
    - otherwise the higher priority wins. *)
Definition dom (c p : prio) (force : bool) : prio :=
  if spec_prio_eqb c p then c
  else match p with
       | Verify | Scanned => p
       | _ => match c with
              | Scanned => if force then higher c p else c
              | _ => higher c p
              end
       end.

(** A priority map: the priority of every height, [None] outside the covered interval. *)
Definition pmap := Z -> option prio.

(** Covered interval + map *)
Record pstate := PS { lo : Z; hi : Z; pm : pmap }.

Definition in_range (s e h : Z) : bool := (s <=? h) && (h <? e).

(** One insertion of the range [s,e) with priority [p], pointwise. Heights of the range get
    [dom]; heights already covered keep their priority; heights in a gap between the old
    interval and the range become Historic; the covered interval becomes the hull. *)
Definition ins_spec (st : pstate) (s e : Z) (p : prio) (force : bool) : pstate :=
  PS (Z.min (lo st) s) (Z.max (hi st) e)
     (fun h =>
        if in_range s e h then
          Some (match pm st h with None => p | Some c => dom c p force end)
        else match pm st h with
             | Some c => Some c
             | None => if in_range (Z.min (lo st) s) (Z.max (hi st) e) h then Some Historic else None
             end).

Definition leaf_spec (s e : Z) (p : prio) : pstate :=
  PS s e (fun h => if in_range s e h then Some p else None).

(** A range row [(s, e, p)] as a triple, independent of the model's type. *)
Definition row := (Z * Z * prio)%type.

Fixpoint fold_spec (st : pstate) (ops : list (row * bool)) : pstate :=
  match ops with
  | [] => st
  | ((s, e, p), force) :: rest => fold_spec (ins_spec st s e p force) rest
  end.

(** Pointwise meaning of a list of rows: the first row containing [h]. *)
Fixpoint rows_at (l : list row) (h : Z) : option prio :=
  match l with
  | [] => None
  | (s, e, p) :: rest => if in_range s e h then Some p else rows_at rest h
  end.

(** Canonical queue: every row non-empty; each row starts where the previous one ends
    (hence sorted, non-overlapping, gap-free); adjacent rows have different priorities. *)
Fixpoint canonical (l : list row) : Prop :=
  match l with
  | [] => True
  | (s, e, p) :: rest =>
      s < e /\
      match rest with
      | [] => True
      | (s', _, p') :: _ => e = s' /\ p <> p'
      end /\ canonical rest
  end.

Fixpoint canonicalb (l : list row) : bool :=
  match l with
  | [] => true
  | (s, e, p) :: rest =>
      (s <? e) &&
      match rest with
      | [] => true
      | (s', _, p') :: _ => (e =? s') && negb (spec_prio_eqb p p')
      end && canonicalb rest
  end.

(** first start / last end of a list of rows *)
Definition rows_lo (l : list row) : option Z := match l with [] => None | (s, _, _) :: _ => Some s end.
Fixpoint rows_hi (l : list row) : option Z :=
  match l with [] => None | [(_, e, _)] => Some e | _ :: r => rows_hi r end.

Definition oprio_eqb (a b : option prio) : bool :=
  match a, b with
  | None, None => true
  | Some x, Some y => spec_prio_eqb x y
  | _, _ => false
  end.

(** Breakpoints at which two piecewise-constant maps have to be compared. *)
Definition row_points (r : row) : list Z := let '(s, e, _) := r in [s - 1; s; e - 1; e].
Definition agree_on (pts : list Z) (f g : pmap) : bool :=
  forallb (fun h => oprio_eqb (f h) (g h)) pts.
